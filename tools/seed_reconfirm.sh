#!/bin/bash
# tools/seed_reconfirm.sh <seedname> <pkg>  — re-run, alone, the upstream tests that failed in the full loaded run with the seeded change applied
name=$1; pkg=$2
export PATH=/root/go/pkg/mod/golang.org/toolchain@v0.0.1-go1.26.6.linux-amd64/bin:$PATH GOTOOLCHAIN=local GOFLAGS=-mod=mod GOPROXY=off GOSUMDB=off
out=/verif/seeded/$name
tests=$(grep -o '^--- FAIL: [A-Za-z0-9_]*' $out/pkgtests_with.log | awk '{print $3}' | sort -u | tr '\n' '|' | sed 's/|$//')
[ -z "$tests" ] && { echo "$name: nothing to reconfirm"; exit 0; }
wt=/var/tmp/verif-mut/re-$name
git -C /repo worktree remove --force $wt >/dev/null 2>&1
git -C /repo worktree add --detach $wt HEAD >/dev/null 2>&1 || exit 3
git -C $wt apply --whitespace=nowarn $out/patch.diff || { git -C /repo worktree remove --force $wt; echo "$name: patch no longer applies to HEAD"; exit 3; }
(cd $wt && go test -vet=off -count=2 -p 4 -parallel 2 -run "^($tests)\$" ./$pkg/ > $out/pkgtests_rerun_alone.log 2>&1); rc=$?
git -C /repo worktree remove --force $wt >/dev/null 2>&1
python3 - "$out" "$rc" "$tests" <<'PY'
import json,sys
out,rc,tests=sys.argv[1:]
m=json.load(open(out+'/meta.json'))
if rc=="0":
    m['confirmed']['existing_package_tests_pass_with_change']=True
    m['confirmed']['flake_note']="timing-sensitive upstream tests (%s) failed in the full run under machine load and passed 2/2 when re-run alone with the change applied"%tests.replace('|',', ')
else:
    m['confirmed']['flake_note']="re-run alone of (%s) with the change: rc=%s, see pkgtests_rerun_alone.log"%(tests.replace('|',', '),rc)
json.dump(m,open(out+'/meta.json','w'),indent=1)
print(out.split('/')[-1], "rerun rc=",rc, tests[:120])
PY
