#!/bin/bash
# tools/fixtest.sh <name> <patch> <go test args...>  — run upstream tests (no overlay) in a scratch worktree with the patch applied
name=$1; patch=$2; shift 2
export PATH=/root/go/pkg/mod/golang.org/toolchain@v0.0.1-go1.26.6.linux-amd64/bin:$PATH GOTOOLCHAIN=local GOFLAGS=-mod=mod GOPROXY=off GOSUMDB=off
wt=/var/tmp/verif-mut/$name
mkdir -p /var/tmp/verif-mut
git -C /repo worktree remove --force "$wt" >/dev/null 2>&1
git -C /repo worktree add --detach "$wt" HEAD >/dev/null 2>&1 || exit 3
git -C "$wt" apply --whitespace=nowarn "$patch" || { git -C /repo worktree remove --force "$wt"; exit 3; }
(cd "$wt" && go test -vet=off -count=1 "$@" 2>&1 | grep -v "^ok\|no test files" | tail -40; echo "exit=${PIPESTATUS[0]}")
(cd "$wt" && git status --short | head -5)
git -C /repo worktree remove --force "$wt" >/dev/null 2>&1
