#!/bin/bash
# tools/mutant.sh <name> <patch-file|-> <ID> [tier]   — run a check against a scratch worktree of /repo with a patch applied.
# The worktree lives under /var/tmp/verif-mut/<name> and is removed afterwards.
set -u
name=$1; patch=$2; id=$3; tier=${4:-quick}
wt=/var/tmp/verif-mut/$name
mkdir -p /var/tmp/verif-mut
git -C /repo worktree remove --force "$wt" >/dev/null 2>&1
git -C /repo worktree add --detach "$wt" HEAD >/dev/null 2>&1 || { echo "worktree add failed"; exit 3; }
if [ "$patch" = "-" ]; then git -C "$wt" apply --whitespace=nowarn - ; else git -C "$wt" apply --whitespace=nowarn "$patch"; fi || { echo "patch failed"; git -C /repo worktree remove --force "$wt"; exit 3; }
VERIF_REPO=$wt /verif/check "$id" "$tier"; rc=$?
echo "mutant $name: check $id $tier rc=$rc"
git -C /repo worktree remove --force "$wt" >/dev/null 2>&1
rm -rf /verif/build/$(python3 -c "import hashlib;print(hashlib.sha1('$wt'.encode()).hexdigest()[:8])")
exit $rc
