#!/usr/bin/env python3
"""Re-resolve the commit hashes of `fixed` entries (known_findings.d/*.json, KNOWN_FINDINGS.json) and DESIGN.md by commit subject after a history rewrite.
Uses the backup branch (old hashes -> subjects) and main (subjects -> new hashes)."""
import json,glob,subprocess,re,sys
old=dict(l.split(' ',1) for l in subprocess.check_output(["git","-C","/repo","log","--format=%h %s",sys.argv[1]],text=True).splitlines())
new={s:h for h,s in (l.split(' ',1) for l in subprocess.check_output(["git","-C","/repo","log","--format=%h %s","main"],text=True).splitlines())}
m={oh:new[s] for oh,s in old.items() if s in new and new[s]!=oh}
gone=[oh for oh,s in old.items() if s not in new]
print("remapped",len(m),"dropped",gone)
for p in glob.glob('/verif/known_findings.d/*.json')+['/verif/KNOWN_FINDINGS.json','/verif/DESIGN.md']:
    s=open(p).read(); t=s
    for oh,nh in m.items(): t=t.replace(oh,nh)
    if t!=s: open(p,'w').write(t); print("updated",p)
