#!/bin/bash
# Runs the repository's pinned baseline command (hooks off: no -tags verif, no overlay) and compares with BASELINE.json
export PATH=/root/go/pkg/mod/golang.org/toolchain@v0.0.1-go1.26.6.linux-amd64/bin:$PATH GOTOOLCHAIN=local GOPROXY=off GOSUMDB=off
out=${1:-/verif/build/baseline_run.json}
: > $out
for m in $(cat /w/out/gomods.txt); do MF=$(cd /repo/$m && . /w/out/goenv.sh && gomodflag); (cd /repo/$m && go test $MF -json -vet=off -count=1 -timeout 25m ./... >> $out 2>/dev/null); done
python3 - "$out" <<'PY'
import json,sys
res={}
for l in open(sys.argv[1],errors='replace'):
    try: e=json.loads(l)
    except Exception: continue
    if e.get('Test') and e.get('Action') in ('pass','fail','skip'):
        res[e['Package']+'::'+e['Test']]=e['Action']
b=json.load(open('/root/.vp/BASELINE.json'))
sp=b['stable_pass']
missing=[t for t in sp if res.get(t)!='pass']
failed=[t for t in sp if res.get(t)=='fail']
print("stable_pass:",len(sp),"passed now:",len(sp)-len(missing),"not-pass:",len(missing),"of which failed:",len(failed))
open('/verif/build/baseline_notpass.txt','w').write("\n".join("%s %s"%(res.get(t,'absent'),t) for t in missing))
PY
