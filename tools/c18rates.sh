#!/bin/bash
# tools/c18rates.sh <mutant-name|clean> <nseeds> [tier]  — C18 only: detection RATE of one mutant.
# The schedule comes from the Go runtime, so one run says little: the mutant worktree is built once and the check is
# run at <nseeds> different VERIF_SEEDs. Prints one line per seed and a summary "rate=k/n".
set -u
name=$1; n=${2:-5}; tier=${3:-quick}
if [ "$name" = clean ]; then
  wt=/repo
else
  patch=/verif/mutants/C18/$name.diff
  wt=/var/tmp/verif-mut/C18-$name
  mkdir -p /var/tmp/verif-mut
  git -C /repo worktree remove --force "$wt" >/dev/null 2>&1
  git -C /repo worktree add --detach "$wt" HEAD >/dev/null 2>&1 || { echo "worktree add failed"; exit 3; }
  git -C "$wt" apply --whitespace=nowarn "$patch" || { echo "patch failed"; git -C /repo worktree remove --force "$wt"; exit 3; }
fi
hit=0
for s in $(seq 1 $n); do
  t0=$(date +%s)
  if [ "$name" = clean ]; then
    out=$(VERIF_ONLY=${VERIF_ONLY:-1} VERIF_SEED=$((s+${SEED_BASE:-0})) /verif/check C18 $tier 2>&1); rc=$?
  else
    out=$(VERIF_ONLY=${VERIF_ONLY:-1} VERIF_REPO=$wt VERIF_SEED=$((s+${SEED_BASE:-0})) /verif/check C18 $tier 2>&1); rc=$?
  fi
  sig=$(echo "$out" | grep "signature:" | sed 's/.*signature: //' | sort -u | tr '\n' ' ')
  inc=$(echo "$out" | grep "INCONCLUSIVE" | head -2 | tr '\n' ' ')
  [ $rc -eq 1 ] && hit=$((hit+1))
  echo "C18 $name seed=$((s+${SEED_BASE:-0})) rc=$rc $(( $(date +%s) - t0 ))s $sig $inc"
done
echo "C18 $name rate=$hit/$n"
if [ "$name" != clean ]; then
  git -C /repo worktree remove --force "$wt" >/dev/null 2>&1
  rm -rf /verif/build/$(python3 -c "import hashlib;print(hashlib.sha1('$wt'.encode()).hexdigest()[:8])")
fi
