#!/usr/bin/env python3
"""Regenerate /verif/MANIFEST.json from checks.d/*.json (+ not_applicable.json)."""
import json, glob, os
V = os.path.dirname(os.path.dirname(os.path.abspath(__file__)))
props = [json.loads(l)["id"] for l in open(os.path.join(V, "properties.jsonl"))]
checks = []
claimed = set()
for p in sorted(glob.glob(os.path.join(V, "checks.d", "*.json"))):
    c = json.load(open(p))
    if c.get("disabled") or not c.get("ready"):
        continue
    m = c.get("manifest", {})
    pid = c["id"]
    claimed.add(pid)
    entry = {
        "property_id": pid,
        "quick_cmd": "./check %s quick" % pid,
        "thorough_cmd": "./check %s thorough" % pid,
        "evidence_file": "evidence/%s.json" % pid,
        "replay_cmd_template": "./check %s quick --replay {path}" % pid,
        "engine": "rapid-overlay",
        "level_claimed": {"category": c["level"], "text": m.get("text", ""), "design_ref": m.get("design_ref", "DESIGN.md §4 " + pid)},
        "level_note": m.get("note", ""),
        "technique": m.get("technique", "property-based testing (rapid) with explicit oracle"),
    }
    checks.append(entry)
na_path = os.path.join(V, "not_applicable.json")
na_reasons = json.load(open(na_path)) if os.path.exists(na_path) else {}
na = []
for pid in props:
    if pid not in claimed:
        na.append({"property_id": pid, "reason": na_reasons.get(pid, "check not built yet in this session (planned, see DESIGN.md §4); not claimed until its harness exists and is silent on the unchanged tree")})
man = {
    "version": 1,
    "setup_cmd": "./check --setup",
    "hooks": {
        "guard": "verif",
        "enable": "go test -tags verif -overlay=<generated> (hook files are injected by build overlay from /verif/harness; no tracked file of /repo is changed)",
        "baseline_off_cmd": json.load(open("/root/.vp/BASELINE.json"))["cmd"],
        "source_commits": [],
        "add_only": True,
    },
    "engines": [
        {"name": "rapid-overlay", "path": "check", "serves_properties": sorted(claimed),
         "kind_free_text": "pgregory.net/rapid v1.3.0 property/state-machine tests kept in /verif/harness, compiled into consul's own packages by go test -overlay/-modfile against /repo's working tree, seed-sharded across processes by ./check"}
    ],
    "checks": checks,
    "not_applicable": na,
    "notes": "All checks: ./check <ID> <quick|thorough> [--replay file]; exit 0 held / 1 VIOLATION / 2 inconclusive. Known findings: KNOWN_FINDINGS.json.",
}
json.dump(man, open(os.path.join(V, "MANIFEST.json"), "w"), indent=1)
print("claimed:", sorted(claimed), "not_applicable:", [x["property_id"] for x in na])
