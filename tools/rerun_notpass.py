#!/usr/bin/env python3
"""Re-run, package by package and alone, the top-level tests that did not pass in the last baseline run."""
import subprocess,collections,os,sys,re
env=dict(os.environ); env["PATH"]="/root/go/pkg/mod/golang.org/toolchain@v0.0.1-go1.26.6.linux-amd64/bin:"+env["PATH"]
env.update(GOTOOLCHAIN="local",GOFLAGS="-mod=mod",GOPROXY="off",GOSUMDB="off")
skip=set(sys.argv[1:])
by=collections.defaultdict(set)
for l in open('/verif/build/baseline_notpass.txt'):
    st,name=l.split(' ',1); pkg,test=name.strip().split('::',1)
    by[pkg].add(test.split('/')[0])
res=[]
for pkg,tests in sorted(by.items()):
    rel=pkg.replace('github.com/hashicorp/consul','.')
    if rel in skip: print("skip",rel,len(tests)); continue
    rx='^('+'|'.join(sorted(re.escape(t) for t in tests))+')$'
    p=subprocess.run(["go","test","-vet=off","-count=1","-p","4","-parallel","4","-timeout","20m","-run",rx,rel],cwd="/repo",env=env,stdout=subprocess.PIPE,stderr=subprocess.STDOUT,text=True)
    fails=sorted(set(re.findall(r'^--- FAIL: (\S+)',p.stdout,re.M)))
    print(rel,"tests=%d rc=%d"%(len(tests),p.returncode),"FAIL:"+",".join(fails) if fails else "all pass",flush=True)
