#!/bin/bash
# tools/seed_recheck.sh <seedname> <ID> [tier] — re-run only the registered check against an already confirmed seeded change
# (after the check was extended) and update detected_by_check in seeded/<seedname>/meta.json.
name=$1; id=$2; tier=${3:-quick}
export PATH=/root/go/pkg/mod/golang.org/toolchain@v0.0.1-go1.26.6.linux-amd64/bin:$PATH GOTOOLCHAIN=local GOFLAGS=-mod=mod GOPROXY=off GOSUMDB=off
wt=/var/tmp/verif-mut/rc-$name
out=/verif/seeded/$name
mkdir -p /var/tmp/verif-mut
git -C /repo worktree remove --force $wt >/dev/null 2>&1
git -C /repo worktree add --detach $wt HEAD >/dev/null 2>&1 || { echo "worktree failed"; exit 3; }
git -C $wt apply --whitespace=nowarn $out/patch.diff || { echo "$name: patch does not apply"; git -C /repo worktree remove --force $wt; exit 3; }
(cd /verif && VERIF_ONLY=1 VERIF_REPO=$wt ./check $id $tier > $out/check.log 2>&1); rc=$?
echo "re-check $id $tier against change (after the check was extended): rc=$rc $(grep -h 'signature:' $out/check.log | head -3 | tr '\n' ' ')" | tee -a $out/confirm.log
git -C /repo worktree remove --force $wt >/dev/null 2>&1
rm -rf /verif/build/$(python3 -c "import hashlib;print(hashlib.sha1('$wt'.encode()).hexdigest()[:8])")
python3 - "$out" "$rc" "$tier" <<'PY'
import json,sys
out,rc,tier=sys.argv[1:]
m=json.load(open(out+'/meta.json'))
prev=m.get('detected_by_check',{})
m['detected_by_check']={"tier":tier,"exit":int(rc),"signatures":sorted(set(l.split("signature:")[1].strip() for l in open(out+'/check.log') if 'signature:' in l))[:5]}
if prev.get('exit')==0 and int(rc)==1:
    m['detected_by_check']['history']="missed by the first version of the check (rc=0); caught after the check was extended"
json.dump(m,open(out+'/meta.json','w'),indent=1)
print(out.split('/')[-1], json.dumps(m['detected_by_check']))
PY
