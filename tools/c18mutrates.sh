#!/bin/bash
# tools/c18mutrates.sh <stream> <nseeds> <mutant-name|clean>...   — C18 only: detection RATE of mutants in the quick tier.
# The schedule comes from the Go runtime, so one run says little: each mutant is applied to ONE scratch worktree per
# stream (re-used, so that the Go build cache keeps everything but the mutated package), and the check is run at
# <nseeds> different VERIF_SEEDs. Prints one line per (mutant, seed) and "rate=k/n" per mutant.
set -u
stream=$1; n=$2; shift 2
wt=/var/tmp/verif-mut/C18-stream-$stream
mkdir -p /var/tmp/verif-mut
git -C /repo worktree remove --force "$wt" >/dev/null 2>&1
git -C /repo worktree add --detach "$wt" HEAD >/dev/null 2>&1 || { echo "worktree add failed"; exit 3; }
for name in "$@"; do
  git -C "$wt" checkout -q .
  if [ "$name" != clean ]; then
    git -C "$wt" apply --whitespace=nowarn /verif/mutants/C18/$name.diff || { echo "C18 $name patch failed"; continue; }
  fi
  hit=0
  for s in $(seq 1 $n); do
    t0=$(date +%s)
    out=$(VERIF_ONLY=${VERIF_ONLY:-1} VERIF_REPO=$wt VERIF_SEED=$((s+${SEED_BASE:-0})) /verif/check C18 ${TIER:-quick} 2>&1); rc=$?
    sig=$(echo "$out" | grep "signature:" | sed 's/.*signature: //' | sort -u | tr '\n' ' ')
    inc=$(echo "$out" | grep "INCONCLUSIVE" | head -2 | tr '\n' ' ')
    [ $rc -eq 1 ] && hit=$((hit+1))
    echo "C18 $name seed=$((s+${SEED_BASE:-0})) rc=$rc $(( $(date +%s) - t0 ))s $sig $inc"
  done
  echo "C18 $name rate=$hit/$n"
done
git -C /repo worktree remove --force "$wt" >/dev/null 2>&1
rm -rf /verif/build/$(python3 -c "import hashlib;print(hashlib.sha1('$wt'.encode()).hexdigest()[:8])")
