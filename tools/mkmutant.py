#!/usr/bin/env python3
"""tools/mkmutant.py <out.diff> <file> <old> <new> [<file> <old> <new> ...] — make a patch against /repo HEAD by exact string replacement (first occurrence)."""
import sys, subprocess, os, tempfile, shutil
out = sys.argv[1]
args = sys.argv[2:]
tmp = tempfile.mkdtemp(prefix="mkmut", dir="/var/tmp")
try:
    diffs = []
    for i in range(0, len(args), 3):
        f, old, new = args[i:i+3]
        src = open(os.path.join("/repo", f)).read()
        if old not in src:
            print("pattern not found in", f, ":", old[:80]); sys.exit(1)
        dst = src.replace(old, new, 1)
        a = os.path.join(tmp, "a", f); b = os.path.join(tmp, "b", f)
        os.makedirs(os.path.dirname(a), exist_ok=True); os.makedirs(os.path.dirname(b), exist_ok=True)
        open(a, "w").write(src); open(b, "w").write(dst)
    p = subprocess.run(["diff", "-ruN", "a", "b"], cwd=tmp, capture_output=True, text=True)
    open(out, "w").write(p.stdout)
    print("wrote", out, len(p.stdout.splitlines()), "lines")
finally:
    shutil.rmtree(tmp)
