#!/bin/bash
# tools/runmutants.sh <ID> [tier] — run every mutants/<ID>/*.diff against the check; prints a table
id=$1; tier=${2:-quick}
for p in /verif/mutants/$id/*.diff; do
  n=$(basename $p .diff)
  s=$(date +%s)
  out=$(VERIF_ONLY=${VERIF_ONLY:-1} /verif/tools/mutant.sh "$id-$n" "$p" "$id" "$tier" 2>&1)
  rc=$(echo "$out" | grep -o "rc=[0-9]*" | tail -1)
  sig=$(echo "$out" | grep "signature:" | head -2 | tr '\n' ' ')
  echo "$id $n $rc $(( $(date +%s) - s ))s $sig"
done
