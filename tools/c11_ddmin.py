#!/usr/bin/env python3
"""tools/c11_ddmin.py <replay.json> [out.json] — delta-debug a C11 replay file: drop actions while the SAME key is still reported.
Uses the already built test binary of the last VERIF_ONLY=1 ./check C11 run; every other listed key stays tolerated."""
import json, os, subprocess, sys, glob, tempfile
src = sys.argv[1]
out = sys.argv[2] if len(sys.argv) > 2 else src.replace(".json", ".min.json")
d = json.load(open(src))
key = d["key"]
bins = sorted(glob.glob("/verif/build/*/bin/agent_consul_fsm_C11.test"), key=os.path.getmtime)
BIN = os.environ.get("C11_BIN", bins[-1])
known = []
for p in ["/verif/KNOWN_FINDINGS.json"] + glob.glob("/verif/known_findings.d/*.json"):
    try:
        for e in json.load(open(p))["findings"]:
            if e["property"] == "C11" and e.get("status") == "known" and e["key"] != key:
                known.append(e["key"])
    except Exception:
        pass
tmpd = tempfile.mkdtemp(prefix="c11dd", dir="/var/tmp")
def fails(ops):
    f = os.path.join(tmpd, "cand.json")
    json.dump(dict(d, ops=ops), open(f, "w"))
    env = dict(os.environ, VERIF_REPLAY=f, VERIF_KNOWN=",".join(known), VERIF_REPLAY_DIR=os.path.join(tmpd, "out"))
    p = subprocess.run([BIN, "-test.run", "TestVerifC11Replay$", "-test.count=1"], cwd="/repo/agent/consul/fsm", env=env,
                       capture_output=True, text=True, timeout=120)
    return ("key=" + key + " ") in p.stdout or ("key=" + key + ":") in p.stdout
ops = d["ops"]
assert fails(ops), "the replay does not reproduce " + key
n = 2
while len(ops) >= 2:
    chunk = max(1, len(ops) // n)
    reduced = False
    for i in range(0, len(ops), chunk):
        cand = ops[:i] + ops[i + chunk:]
        if cand and fails(cand):
            ops = cand
            n = max(n - 1, 2)
            reduced = True
            break
    if not reduced:
        if chunk == 1:
            break
        n = min(n * 2, len(ops))
json.dump(dict(d, ops=ops), open(out, "w"), indent=1)
print("minimized to", len(ops), "actions ->", out)
