#!/bin/bash
# tools/seedbatch.sh <ID> [srcroot=/tmp/seedout-<ID>] — confirm every change a seed agent left under <srcroot>/<k>/ with
# tools/seedcheck.sh and file it as seeded/<ID>-<next free number>.
id=$1; root=${2:-/tmp/seedout-$id}
for d in $(ls -d $root/*/ 2>/dev/null | sort); do
  [ -f $d/patch.diff ] || continue
  n=1; while [ -e /verif/seeded/$id-$n ]; do n=$((n+1)); done
  name=$id-$n
  pkg=$(python3 -c "import json;print(json.load(open('$d/meta.json'))['demo_pkg'].split(' ')[0].strip('./'))")
  rx=$(python3 -c "import json;print(json.load(open('$d/meta.json'))['demo_run'])")
  echo "== $name from $d pkg=$pkg run=$rx"
  /verif/tools/seedcheck.sh $d $id $name $pkg "$rx" 2>&1 | tail -2
done
