#!/bin/bash
# tools/seedcheck.sh <srcdir> <ID> <seedname> <pkg> <demo-run-regex> [check tier]
# Confirms a seeded change (patch applies; demo fails with / passes without; package tests pass with it), runs the
# registered check against it, and files everything under /verif/seeded/<seedname>/.
src=$1; id=$2; name=$3; pkg=$4; rx=$5; tier=${6:-quick}
export PATH=/root/go/pkg/mod/golang.org/toolchain@v0.0.1-go1.26.6.linux-amd64/bin:$PATH GOTOOLCHAIN=local GOFLAGS=-mod=mod GOPROXY=off GOSUMDB=off
wt=/var/tmp/verif-mut/seed-$name
out=/verif/seeded/$name
mkdir -p $out /var/tmp/verif-mut
git -C /repo worktree remove --force $wt >/dev/null 2>&1
git -C /repo worktree add --detach $wt HEAD >/dev/null 2>&1 || { echo "worktree failed"; exit 3; }
cp $src/patch.diff $out/patch.diff
cp $src/demo_test.go $out/demo_test.go 2>/dev/null
cp $src/meta.json $out/meta.orig.json 2>/dev/null
res() { echo "$1" | tee -a $out/confirm.log; }
: > $out/confirm.log
git -C $wt apply --whitespace=nowarn $out/patch.diff || { res "patch does not apply"; git -C /repo worktree remove --force $wt; exit 3; }
res "patch applies: yes ($(git -C $wt diff --stat | tail -1))"
# demo WITH change
cp $out/demo_test.go $wt/$pkg/zz_seed_demo_test.go
(cd $wt && go test -vet=off -count=1 -run "$rx" ./$pkg/ > $out/demo_with.log 2>&1); rc_with=$?
res "demo with change: rc=$rc_with (expect !=0)"
rm $wt/$pkg/zz_seed_demo_test.go
# existing package tests WITH change
(cd $wt && go test -vet=off -count=1 -timeout 25m ./$pkg/ > $out/pkgtests_with.log 2>&1); rc_pkg=$?
fails=$(grep -c "^--- FAIL" $out/pkgtests_with.log)
res "existing tests of ./$pkg with change: rc=$rc_pkg failing=$(grep '^--- FAIL' $out/pkgtests_with.log | tr '\n' ' ')"
# the registered check against the change
(cd /verif && VERIF_ONLY=1 VERIF_REPO=$wt ./check $id $tier > $out/check.log 2>&1); rc_chk=$?
res "check $id $tier against change: rc=$rc_chk $(grep -h 'signature:' $out/check.log | head -3 | tr '\n' ' ')"
# demo WITHOUT change
git -C $wt checkout -- . >/dev/null 2>&1
cp $out/demo_test.go $wt/$pkg/zz_seed_demo_test.go
(cd $wt && go test -vet=off -count=1 -run "$rx" ./$pkg/ > $out/demo_without.log 2>&1); rc_wo=$?
res "demo without change: rc=$rc_wo (expect 0)"
git -C /repo worktree remove --force $wt >/dev/null 2>&1
rm -rf /verif/build/$(python3 -c "import hashlib;print(hashlib.sha1('$wt'.encode()).hexdigest()[:8])")
python3 - "$out" "$id" "$rc_with" "$rc_wo" "$rc_pkg" "$rc_chk" "$tier" <<'PY'
import json,sys,os
out,id,rw,rwo,rp,rc,tier=sys.argv[1:]
m={}
try: m=json.load(open(out+'/meta.orig.json'))
except Exception: pass
meta={"property":id,"summary":m.get("summary",""),"needs":m.get("needs",""),"why_tests_pass":m.get("why_tests_pass",""),
 "files_changed":m.get("files_changed",[]),
 "confirmed":{"demo_fails_with_change":rw!="0","demo_passes_without_change":rwo=="0","existing_package_tests_pass_with_change":rp=="0",
   "commands":"tools/seedcheck.sh (scratch worktree: git apply patch.diff; go test -run <demo> ./<pkg>/; go test ./<pkg>/; VERIF_REPO=<wt> ./check %s %s; git checkout; go test -run <demo>)"%(id,tier)},
 "detected_by_check":{"tier":tier,"exit":int(rc),"signatures":[l.split("signature:")[1].strip() for l in open(out+'/check.log') if 'signature:' in l][:5]}}
json.dump(meta,open(out+'/meta.json','w'),indent=1)
print(json.dumps(meta["confirmed"]),json.dumps(meta["detected_by_check"]))
PY
