#!/bin/bash
# run every claimed check's quick command in registered mode; table of rc / wall
cd /verif
for id in $(python3 -c "import json;print(' '.join(c['property_id'] for c in json.load(open('MANIFEST.json'))['checks']))"); do
  s=$(date +%s); out=$(VERIF_SEED=${VERIF_SEED:-1} ./check $id ${1:-quick} 2>&1); rc=$?
  echo "$id rc=$rc $(( $(date +%s)-s ))s $(echo "$out" | grep -c KNOWN-FINDING) known  $(echo "$out" | grep 'VIOLATION\|INCONCLUSIVE' | head -3 | tr '\n' ' ' | cut -c1-200)"
done
