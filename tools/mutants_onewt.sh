#!/bin/bash
# tools/mutants_onewt.sh <ID> <tier> <patch.diff>...  — like tools/runmutants.sh but applies the patches one after
# the other in ONE persistent scratch worktree (/var/tmp/verif-mut/onewt-<ID>), so that Go's build cache is reused
# and only the packages a patch touches are rebuilt. Prints one result line per patch.
id=$1; tier=$2; shift 2
wt=/var/tmp/verif-mut/onewt-$id
mkdir -p /var/tmp/verif-mut
if [ ! -d "$wt" ]; then git -C /repo worktree add --detach "$wt" HEAD >/dev/null 2>&1 || { echo "worktree add failed"; exit 3; }; fi
for p in "$@"; do
  n=$(basename "$p" .diff)
  git -C "$wt" checkout -q . ; git -C "$wt" clean -fdq
  git -C "$wt" apply --whitespace=nowarn "$p" || { echo "$id $n patch-failed"; continue; }
  s=$(date +%s)
  out=$(VERIF_ONLY=${VERIF_ONLY:-1} VERIF_REPO=$wt /verif/check "$id" "$tier" 2>&1); rc=$?
  sig=$(echo "$out" | grep "signature:" | head -3 | tr '\n' ' ')
  inc=$(echo "$out" | grep "INCONCLUSIVE" | head -2 | tr '\n' ' ')
  hits=$(echo "$out" | grep -o "known_hits={[^}]*}" | head -1 | cut -c1-400)
  echo "$id $n rc=$rc $(( $(date +%s) - s ))s $sig $inc $hits"
done
git -C "$wt" checkout -q .
