#!/bin/bash
# warm the go build cache for the packages the checks use
export PATH=/root/go/pkg/mod/golang.org/toolchain@v0.0.1-go1.26.6.linux-amd64/bin:$PATH GOTOOLCHAIN=local GOFLAGS=-mod=mod GOPROXY=off GOSUMDB=off
cd /verif && python3 -c "
import importlib.machinery,importlib.util,sys
l=importlib.machinery.SourceFileLoader('chk','/verif/check');spec=importlib.util.spec_from_loader('chk',l);m=importlib.util.module_from_spec(spec);l.exec_module(m);print(*m.prepare())" > /verif/build/warm.paths
read MODF OVL < /verif/build/warm.paths
cd /repo
for p in "$@"; do
  /usr/bin/time -f "$p %es" go test -c -vet=off -tags verif -modfile=$MODF -overlay=$OVL -o /dev/null ./$p 2>&1 | tail -3
done
