#!/usr/bin/env python3
"""Summarise /verif/seeded/*/meta.json as a markdown table."""
import json,glob,os
rows=[]
for d in sorted(glob.glob('/verif/seeded/*/')):
    n=os.path.basename(d.rstrip('/'))
    try: m=json.load(open(d+'meta.json'))
    except Exception as e: rows.append((n,'?','?','?','no meta')); continue
    c=m.get('confirmed',{}); dt=m.get('detected_by_check',{})
    files=",".join(os.path.basename(f) for f in m.get('files_changed',[]))[:40]
    ok = c.get('demo_fails_with_change') and c.get('demo_passes_without_change')
    rows.append((n, files, 'yes' if ok else 'NO', 'yes' if c.get('existing_package_tests_pass_with_change') else c.get('flake_note','see confirm.log'), ('caught: '+'; '.join(dt.get('signatures',[])[:2])) if dt.get('exit')==1 else 'MISSED (rc=%s)'%dt.get('exit')))
print("| seed | files | demo fails with / passes without | existing tests pass with change | registered quick check |")
print("|---|---|---|---|---|")
for r in rows: print("| "+" | ".join(str(x) for x in r)+" |")
