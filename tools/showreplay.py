#!/usr/bin/env python3
import json,sys
r=json.load(open(sys.argv[1]))
for o in r.get('ops',[]):
    if isinstance(o,str): o=json.loads(o)
    print(o.get('idx'), o.get('kind'), o.get('desc'))
print(r.get('key')); print(r.get('detail'))
