package structs

// C08 (b) — the decision is a pure function of the token's own policies: purity through the shared caches.
//
// Generated: a pool of 2..5 ACL policies (rule text rendered from generated rules over a prefix-rich name
// universe, names colliding across policies) plus service / node identities (synthetic policies), one shared
// structs.ACLCaches of drawn (small to default) sizes, and a history of
//     compile <ordered list of policy ids / identities>    (what ResolveToken does for a token)
//     update  <policy id> <new rules>                      (new ACLPolicy row: same ID, higher ModifyIndex, new hash)
// executed through ACLPolicies.Compile with the ONE shared cache.
//
// Oracle (differential, real code against real code):
//   * after every compile, each parsed policy object that sits in the shared parsed-policy cache still equals a
//     fresh parse of its rule text (no mutation of objects other tokens will be compiled from);
//   * the decision vector (every Authorizer method x every universe name and a fresh name behind each) of the
//     authorizer returned through the shared cache equals the vector of the same policy set compiled alone, in
//     canonical order, from fresh policy objects with fresh caches.
//
// Deliberately NOT asserted here: that the decisions are the documented ones (that is part (a), package acl).

import (
	"encoding/json"
	"fmt"
	"os"
	"reflect"
	"sort"
	"strings"
	"testing"

	"github.com/hashicorp/consul/acl"
	"github.com/hashicorp/consul/internal/verifkit"
	"pgregory.net/rapid"
)

// verifC08Recorder: the two C08 targets (packages acl and agent/structs) run with the same shard numbers; the
// replay file name is derived from VERIF_SHARD, so tag it with the package to keep the files apart.
func verifC08Recorder() *verifkit.Rec {
	if s := os.Getenv("VERIF_SHARD"); !strings.HasPrefix(s, "structs") {
		os.Setenv("VERIF_SHARD", "structs"+s)
	}
	return verifkit.For("C08")
}

type verifC08Rule struct {
	Kind       string `json:"k"` // agent event key node query service session
	Prefix     bool   `json:"p,omitempty"`
	Name       string `json:"n"`
	Access     string `json:"a"`
	Intentions string `json:"i,omitempty"`
}

type verifC08Policy struct {
	ID      string            `json:"id"`
	Rules   []verifC08Rule    `json:"rules"`
	Scalars map[string]string `json:"scalars,omitempty"`
}

type verifC08Op struct {
	Kind        string           `json:"kind"` // structs-init | compile | update
	Policies    []verifC08Policy `json:"policies,omitempty"`
	CacheParsed int              `json:"cache_parsed,omitempty"` // 0 = that cache disabled
	CacheAuthz  int              `json:"cache_authz,omitempty"`
	IDs         []string         `json:"ids,omitempty"`    // compile: policy ids, "sid:<service>", "nid:<node>"
	Policy      *verifC08Policy  `json:"policy,omitempty"` // update
}

var (
	verifC08Names   = []string{"", "w", "we", "web", "web-", "web-api", "x"}
	verifC08Kinds   = []string{"agent", "event", "key", "node", "query", "service", "session"}
	verifC08Scalars = []string{"acl", "keyring", "operator", "mesh", "peering"}
	verifC08Idents  = []string{"sid:web", "sid:web-api", "sid:x", "nid:web", "nid:x"}
)

func verifC08Render(p verifC08Policy) string {
	var b strings.Builder
	for _, r := range p.Rules {
		kw := r.Kind
		if r.Prefix {
			kw += "_prefix"
		}
		fmt.Fprintf(&b, "%s %q {\n  policy = %q\n", kw, r.Name, r.Access)
		if r.Intentions != "" {
			fmt.Fprintf(&b, "  intentions = %q\n", r.Intentions)
		}
		b.WriteString("}\n")
	}
	keys := make([]string, 0, len(p.Scalars))
	for k := range p.Scalars {
		keys = append(keys, k)
	}
	sort.Strings(keys)
	for _, k := range keys {
		fmt.Fprintf(&b, "%s = %q\n", k, p.Scalars[k])
	}
	return b.String()
}

// ---- decision vector

type verifC08Q struct {
	Method string
	Arg    string
	Peer   string
}

func (q verifC08Q) String() string {
	if q.Peer != "" {
		return fmt.Sprintf("%s(%q,peer=%s)", q.Method, q.Arg, q.Peer)
	}
	return fmt.Sprintf("%s(%q)", q.Method, q.Arg)
}

type verifC08Call func(a acl.Authorizer, s string, c *acl.AuthorizerContext) acl.EnforcementDecision

var verifC08Calls = map[string]verifC08Call{
	"ACLRead": func(a acl.Authorizer, _ string, c *acl.AuthorizerContext) acl.EnforcementDecision {
		return a.ACLRead(c)
	},
	"ACLWrite": func(a acl.Authorizer, _ string, c *acl.AuthorizerContext) acl.EnforcementDecision {
		return a.ACLWrite(c)
	},
	"AgentRead": func(a acl.Authorizer, s string, c *acl.AuthorizerContext) acl.EnforcementDecision {
		return a.AgentRead(s, c)
	},
	"AgentWrite": func(a acl.Authorizer, s string, c *acl.AuthorizerContext) acl.EnforcementDecision {
		return a.AgentWrite(s, c)
	},
	"EventRead": func(a acl.Authorizer, s string, c *acl.AuthorizerContext) acl.EnforcementDecision {
		return a.EventRead(s, c)
	},
	"EventWrite": func(a acl.Authorizer, s string, c *acl.AuthorizerContext) acl.EnforcementDecision {
		return a.EventWrite(s, c)
	},
	"IntentionDefaultAllow": func(a acl.Authorizer, _ string, c *acl.AuthorizerContext) acl.EnforcementDecision {
		return a.IntentionDefaultAllow(c)
	},
	"IntentionRead": func(a acl.Authorizer, s string, c *acl.AuthorizerContext) acl.EnforcementDecision {
		return a.IntentionRead(s, c)
	},
	"IntentionWrite": func(a acl.Authorizer, s string, c *acl.AuthorizerContext) acl.EnforcementDecision {
		return a.IntentionWrite(s, c)
	},
	"KeyList": func(a acl.Authorizer, s string, c *acl.AuthorizerContext) acl.EnforcementDecision {
		return a.KeyList(s, c)
	},
	"KeyRead": func(a acl.Authorizer, s string, c *acl.AuthorizerContext) acl.EnforcementDecision {
		return a.KeyRead(s, c)
	},
	"KeyWrite": func(a acl.Authorizer, s string, c *acl.AuthorizerContext) acl.EnforcementDecision {
		return a.KeyWrite(s, c)
	},
	"KeyWritePrefix": func(a acl.Authorizer, s string, c *acl.AuthorizerContext) acl.EnforcementDecision {
		return a.KeyWritePrefix(s, c)
	},
	"KeyringRead": func(a acl.Authorizer, _ string, c *acl.AuthorizerContext) acl.EnforcementDecision {
		return a.KeyringRead(c)
	},
	"KeyringWrite": func(a acl.Authorizer, _ string, c *acl.AuthorizerContext) acl.EnforcementDecision {
		return a.KeyringWrite(c)
	},
	"MeshRead": func(a acl.Authorizer, _ string, c *acl.AuthorizerContext) acl.EnforcementDecision {
		return a.MeshRead(c)
	},
	"MeshWrite": func(a acl.Authorizer, _ string, c *acl.AuthorizerContext) acl.EnforcementDecision {
		return a.MeshWrite(c)
	},
	"PeeringRead": func(a acl.Authorizer, _ string, c *acl.AuthorizerContext) acl.EnforcementDecision {
		return a.PeeringRead(c)
	},
	"PeeringWrite": func(a acl.Authorizer, _ string, c *acl.AuthorizerContext) acl.EnforcementDecision {
		return a.PeeringWrite(c)
	},
	"NodeRead": func(a acl.Authorizer, s string, c *acl.AuthorizerContext) acl.EnforcementDecision {
		return a.NodeRead(s, c)
	},
	"NodeReadAll": func(a acl.Authorizer, _ string, c *acl.AuthorizerContext) acl.EnforcementDecision {
		return a.NodeReadAll(c)
	},
	"NodeWrite": func(a acl.Authorizer, s string, c *acl.AuthorizerContext) acl.EnforcementDecision {
		return a.NodeWrite(s, c)
	},
	"OperatorRead": func(a acl.Authorizer, _ string, c *acl.AuthorizerContext) acl.EnforcementDecision {
		return a.OperatorRead(c)
	},
	"OperatorWrite": func(a acl.Authorizer, _ string, c *acl.AuthorizerContext) acl.EnforcementDecision {
		return a.OperatorWrite(c)
	},
	"PreparedQueryRead": func(a acl.Authorizer, s string, c *acl.AuthorizerContext) acl.EnforcementDecision {
		return a.PreparedQueryRead(s, c)
	},
	"PreparedQueryWrite": func(a acl.Authorizer, s string, c *acl.AuthorizerContext) acl.EnforcementDecision {
		return a.PreparedQueryWrite(s, c)
	},
	"ServiceRead": func(a acl.Authorizer, s string, c *acl.AuthorizerContext) acl.EnforcementDecision {
		return a.ServiceRead(s, c)
	},
	"ServiceReadAll": func(a acl.Authorizer, _ string, c *acl.AuthorizerContext) acl.EnforcementDecision {
		return a.ServiceReadAll(c)
	},
	"ServiceReadPrefix": func(a acl.Authorizer, s string, c *acl.AuthorizerContext) acl.EnforcementDecision {
		return a.ServiceReadPrefix(s, c)
	},
	"ServiceWrite": func(a acl.Authorizer, s string, c *acl.AuthorizerContext) acl.EnforcementDecision {
		return a.ServiceWrite(s, c)
	},
	"ServiceWriteAny": func(a acl.Authorizer, _ string, c *acl.AuthorizerContext) acl.EnforcementDecision {
		return a.ServiceWriteAny(c)
	},
	"SessionRead": func(a acl.Authorizer, s string, c *acl.AuthorizerContext) acl.EnforcementDecision {
		return a.SessionRead(s, c)
	},
	"SessionWrite": func(a acl.Authorizer, s string, c *acl.AuthorizerContext) acl.EnforcementDecision {
		return a.SessionWrite(s, c)
	},
	"Snapshot": func(a acl.Authorizer, _ string, c *acl.AuthorizerContext) acl.EnforcementDecision {
		return a.Snapshot(c)
	},
	"TrafficPermissionsRead": func(a acl.Authorizer, s string, c *acl.AuthorizerContext) acl.EnforcementDecision {
		return a.TrafficPermissionsRead(s, c)
	},
	"TrafficPermissionsWrite": func(a acl.Authorizer, s string, c *acl.AuthorizerContext) acl.EnforcementDecision {
		return a.TrafficPermissionsWrite(s, c)
	},
}

var verifC08Unnamed = map[string]bool{
	"ACLRead": true, "ACLWrite": true, "IntentionDefaultAllow": true, "KeyringRead": true, "KeyringWrite": true,
	"MeshRead": true, "MeshWrite": true, "PeeringRead": true, "PeeringWrite": true, "NodeReadAll": true,
	"OperatorRead": true, "OperatorWrite": true, "ServiceReadAll": true, "ServiceWriteAny": true, "Snapshot": true,
}

func verifC08Queries(f verifkit.F) []verifC08Q {
	it := reflect.TypeOf((*acl.Authorizer)(nil)).Elem()
	var methods []string
	for i := 0; i < it.NumMethod(); i++ {
		n := it.Method(i).Name
		if n == "ToAllowAuthorizer" {
			continue
		}
		if _, ok := verifC08Calls[n]; !ok {
			f.Fatalf("harness: Authorizer method %s is not covered by the C08 check", n)
		}
		methods = append(methods, n)
	}
	sort.Strings(methods)
	names := append([]string{}, verifC08Names...)
	for _, n := range verifC08Names {
		names = append(names, n+"~")
	}
	names = append(names, "web-sidecar-proxy", "web-api-sidecar-proxy") // what service identities grant
	var qs []verifC08Q
	for _, m := range methods {
		if verifC08Unnamed[m] {
			qs = append(qs, verifC08Q{Method: m})
			continue
		}
		for _, n := range names {
			qs = append(qs, verifC08Q{Method: m, Arg: n})
		}
		switch m {
		case "IntentionRead", "IntentionWrite", "TrafficPermissionsRead", "TrafficPermissionsWrite":
			qs = append(qs, verifC08Q{Method: m, Arg: "*"})
		case "NodeRead", "ServiceRead":
			qs = append(qs, verifC08Q{Method: m, Arg: "web", Peer: "peerA"})
		}
	}
	return qs
}

func verifC08Vector(a acl.Authorizer, qs []verifC08Q) []acl.EnforcementDecision {
	out := make([]acl.EnforcementDecision, len(qs))
	for i, q := range qs {
		var ctx *acl.AuthorizerContext
		if q.Peer != "" {
			ctx = &acl.AuthorizerContext{Peer: q.Peer}
		}
		out[i] = verifC08Calls[q.Method](a, q.Arg, ctx)
	}
	return out
}

func verifC08Resource(method string) string {
	for _, k := range []string{"Intention", "TrafficPermissions", "PreparedQuery", "Keyring", "Key", "Service", "Node", "Session", "Agent", "Event", "Operator", "Mesh", "Peering", "ACL", "Snapshot"} {
		if strings.HasPrefix(method, k) {
			return strings.ToLower(k)
		}
	}
	return "other"
}

// ---- state of one history

type verifC08State struct {
	f     verifkit.F
	c     *verifkit.Case
	qs    []verifC08Q
	init  verifC08Op
	cache *ACLCaches
	specs map[string]verifC08Policy // current version of each pool policy
	rows  map[string]*ACLPolicy     // current ACLPolicy row (one shared object per version, as memdb rows are)
	modIx uint64
	texts map[string]string                    // content hash (hex) -> rule text, every version ever compiled
	owner map[string]string                    // content hash -> id / identity it belongs to
	seen  map[string]bool                      // content hashes observed in the shared parsed cache at some point
	done  [][]string                           // id lists of earlier compile ops
	last  map[string][]acl.EnforcementDecision // ordered id list -> decision vector it got last time
	nt    bool
}

func (st *verifC08State) newCache() {
	cfg := &ACLCachesConfig{ParsedPolicies: st.init.CacheParsed, Authorizers: st.init.CacheAuthz}
	cc, err := NewACLCaches(cfg)
	if err != nil {
		st.f.Fatalf("harness: NewACLCaches(%+v): %v", cfg, err)
	}
	st.cache = cc
}

func (st *verifC08State) newRow(p verifC08Policy) *ACLPolicy {
	st.modIx++
	text := verifC08Render(p)
	// the rule text must be what the policy endpoint accepts (strict parse: duplicates are errors)
	if _, err := acl.NewPolicyFromSource(text, &acl.Config{}, nil); err != nil {
		st.f.Fatalf("harness: generated rules rejected by the strict parser: %v\n%s", err, text)
	}
	row := &ACLPolicy{ID: p.ID, Name: "policy-" + p.ID, Rules: text, RaftIndex: RaftIndex{CreateIndex: 1, ModifyIndex: st.modIx}}
	row.SetHash(true)
	return row
}

// resolve turns an id list into the ACLPolicies a token resolution would hand to Compile. fresh=true builds
// brand-new objects (for the cold reference); otherwise pool rows are the shared current objects and synthetic
// policies are synthesized per resolution exactly as ACLResolver does.
func (st *verifC08State) resolve(ids []string, fresh bool) ACLPolicies {
	var out ACLPolicies
	for _, id := range ids {
		var row *ACLPolicy
		switch {
		case strings.HasPrefix(id, "sid:"):
			row = (&ACLServiceIdentity{ServiceName: id[4:]}).SyntheticPolicy(nil)
		case strings.HasPrefix(id, "nid:"):
			row = (&ACLNodeIdentity{NodeName: id[4:], Datacenter: "dc1"}).SyntheticPolicy(nil)
		default:
			cur, ok := st.rows[id]
			if !ok {
				st.f.Fatalf("harness: unknown policy id %q", id)
			}
			row = cur
			if fresh {
				cp := *cur
				cp.Hash = nil
				cp.SetHash(true)
				row = &cp
			}
		}
		if row == nil {
			st.f.Fatalf("harness: no policy for %q", id)
		}
		h := fmt.Sprintf("%x", row.Hash)
		st.texts[h] = row.Rules
		st.owner[h] = id
		out = append(out, row)
	}
	return out
}

func (st *verifC08State) coldVector(ids []string) []acl.EnforcementDecision {
	cc, err := NewACLCaches(&ACLCachesConfig{ParsedPolicies: 64, Authorizers: 64})
	if err != nil {
		st.f.Fatalf("harness: NewACLCaches: %v", err)
	}
	a, err := st.resolve(ids, true).Compile(cc, &acl.Config{})
	if err != nil {
		st.f.Fatalf("harness: cold Compile of %v failed: %v", ids, err)
	}
	return verifC08Vector(a, st.qs)
}

func (st *verifC08State) diff(got, want []acl.EnforcementDecision, gotName, wantName string) (string, string) {
	var ds []string
	first := ""
	for i, q := range st.qs {
		if got[i] != want[i] {
			if first == "" {
				first = verifC08Resource(q.Method)
			}
			ds = append(ds, fmt.Sprintf("%s: %s=%s %s=%s", q, gotName, got[i], wantName, want[i]))
		}
	}
	if len(ds) > 8 {
		ds = append(ds[:8], fmt.Sprintf("... %d more", len(ds)-8))
	}
	return strings.Join(ds, "; "), first
}

// checkShared: every parsed policy object in the shared cache must still equal a fresh parse of its text.
// Returns true when a tolerated (known) finding was hit and the cache was re-synchronised.
func (st *verifC08State) checkShared(after []string) bool {
	if st.cache == nil || st.cache.parsedPolicies == nil {
		return false
	}
	hashes := make([]string, 0, len(st.texts))
	for h := range st.texts {
		hashes = append(hashes, h)
	}
	sort.Strings(hashes)
	for _, h := range hashes {
		raw, ok := st.cache.parsedPolicies.Peek(h) // Peek: does not disturb the cache's recency state
		if !ok {
			if st.seen[h] {
				st.c.Label("parsed-cache=entry-evicted")
			}
			continue
		}
		st.seen[h] = true
		cached := raw.(*ParsedPolicyCacheEntry).Policy
		pristine, err := acl.NewPolicyFromSource(st.texts[h], &acl.Config{WarnOnDuplicateKey: true}, nil)
		if err != nil {
			st.f.Fatalf("harness: reparse: %v", err)
		}
		if reflect.DeepEqual(cached, pristine) {
			continue
		}
		// consequence: a token that holds only this policy, resolved now through the shared cache
		id := st.owner[h]
		conseq := "(policy no longer current)"
		if strings.Contains(id, ":") || (st.rows[id] != nil && fmt.Sprintf("%x", st.rows[id].Hash) == h) {
			a, err := st.resolve([]string{id}, false).Compile(st.cache, &acl.Config{})
			if err == nil {
				d, _ := st.diff(verifC08Vector(a, st.qs), st.coldVector([]string{id}), "now", "alone")
				conseq = d
			}
		}
		cj, _ := json.Marshal(cached.PolicyRules)
		pj, _ := json.Marshal(pristine.PolicyRules)
		if st.c.Violation(st.f, "C08/shared-policy-mutated-by-merge",
			"compiling token %v changed the parsed policy object of %q held in the shared parsed-policy cache:\n rule text  %s\n cached now %s\n fresh parse %s\n a token holding only %q, resolved next through the same cache, decides: %s",
			after, id, strings.ReplaceAll(st.texts[h], "\n", " "), cj, pj, id, conseq) {
			st.c.Label("known=shared-policy-mutated")
			st.newCache() // re-synchronise: drop the polluted cache and go on
			return true
		}
	}
	return false
}

func verifC08Conflict(a, b verifC08Policy) bool {
	for _, x := range a.Rules {
		for _, y := range b.Rules {
			if x.Kind == y.Kind && x.Prefix == y.Prefix && x.Name == y.Name && (x.Access != y.Access || x.Intentions != y.Intentions) {
				return true
			}
		}
	}
	for k, v := range a.Scalars {
		if w, ok := b.Scalars[k]; ok && w != v {
			return true
		}
	}
	return false
}

// identity synthetic policies as rule specs (for the conflict classification only)
func verifC08IdentSpec(id string) verifC08Policy {
	switch {
	case strings.HasPrefix(id, "sid:"):
		n := id[4:]
		return verifC08Policy{ID: id, Rules: []verifC08Rule{{Kind: "service", Name: n, Access: "write"}, {Kind: "service", Name: n + "-sidecar-proxy", Access: "write"},
			{Kind: "service", Prefix: true, Name: "", Access: "read"}, {Kind: "node", Prefix: true, Name: "", Access: "read"}}}
	case strings.HasPrefix(id, "nid:"):
		return verifC08Policy{ID: id, Rules: []verifC08Rule{{Kind: "node", Name: id[4:], Access: "write"}, {Kind: "service", Prefix: true, Name: "", Access: "read"}}}
	}
	return verifC08Policy{}
}

func (st *verifC08State) spec(id string) verifC08Policy {
	if strings.Contains(id, ":") {
		return verifC08IdentSpec(id)
	}
	return st.specs[id]
}

func (st *verifC08State) classify(ids []string) {
	c := st.c
	set := map[string]bool{}
	for _, id := range ids {
		set[id] = true
	}
	conflictInside := false
	for i := range ids {
		for j := i + 1; j < len(ids); j++ {
			if verifC08Conflict(st.spec(ids[i]), st.spec(ids[j])) {
				conflictInside = true
			}
		}
	}
	if conflictInside {
		c.Label("token=policies-conflict-on-a-name")
	}
	for _, prev := range st.done {
		shared, differs := false, len(prev) != len(ids)
		conflict := conflictInside
		for _, p := range prev {
			if set[p] {
				shared = true
			} else {
				differs = true
				for _, id := range ids {
					if verifC08Conflict(st.spec(p), st.spec(id)) {
						conflict = true
					}
				}
			}
		}
		for i := range prev {
			for j := i + 1; j < len(prev); j++ {
				if verifC08Conflict(st.spec(prev[i]), st.spec(prev[j])) {
					conflict = true
				}
			}
		}
		if shared && differs {
			c.Label("history=earlier-token-shares-a-policy")
			if conflict {
				c.Label("history=earlier-sharing-token-with-conflicting-rules")
				st.nt = true // the property's non-triviality rule
			}
		}
		if !differs {
			same := true
			for i := range prev {
				if prev[i] != ids[i] {
					same = false
				}
			}
			if same {
				c.Label("history=same-token-again")
			} else {
				c.Label("history=same-policies-other-order")
			}
		}
	}
	for _, id := range ids {
		if strings.HasPrefix(id, "sid:") || strings.HasPrefix(id, "nid:") {
			c.Label("token=with-identity")
		}
	}
	c.Labelf("token=policies-%d", len(ids))
}

func (st *verifC08State) step(op verifC08Op) {
	c := st.c
	switch op.Kind {
	case "update":
		if op.Policy == nil || st.rows[op.Policy.ID] == nil {
			st.f.Fatalf("harness: update of unknown policy")
		}
		st.specs[op.Policy.ID] = *op.Policy
		st.rows[op.Policy.ID] = st.newRow(*op.Policy)
		c.Label("op=policy-update")
	case "compile":
		ids := op.IDs
		st.classify(ids)
		list := st.resolve(ids, false)
		if st.cache.authorizers != nil {
			if st.cache.authorizers.Contains(list.HashKey()) {
				c.Label("authorizer-cache=hit")
			} else {
				c.Label("authorizer-cache=miss")
			}
		} else {
			c.Label("authorizer-cache=disabled")
		}
		if st.cache.parsedPolicies != nil {
			hit, miss := 0, 0
			for _, p := range list {
				if st.cache.parsedPolicies.Contains(fmt.Sprintf("%x", p.Hash)) {
					hit++
				} else {
					miss++
				}
			}
			switch {
			case miss == 0:
				c.Label("parsed-cache=all-hit")
			case hit == 0:
				c.Label("parsed-cache=all-miss")
			default:
				c.Label("parsed-cache=partial-hit")
			}
		} else {
			c.Label("parsed-cache=disabled")
		}
		a, err := list.Compile(st.cache, &acl.Config{})
		if err != nil {
			st.f.Fatalf("harness: Compile of %v failed on endpoint-clean rules: %v", ids, err)
		}
		warm := verifC08Vector(a, st.qs)
		st.done = append(st.done, append([]string{}, ids...))
		if st.checkShared(ids) {
			return
		}
		canon := append([]string{}, ids...)
		sort.Strings(canon)
		cold := st.coldVector(canon)
		lk := strings.Join(ids, ",")
		prevWarm, hadPrev := st.last[lk]
		st.last[lk] = warm
		if d, _ := st.diff(warm, cold, "shared-cache", "alone"); d != "" {
			key := "C08/decision-depends-on-resolution-history"
			if d2, _ := st.diff(warm, st.coldVector(ids), "a", "b"); d2 == "" {
				key = "C08/policy-order-dependence" // also differs without any history: the order is the cause
			} else if hadPrev && reflect.DeepEqual(prevWarm, warm) {
				key = "C08/stale-decision-after-policy-update" // the answer given before the token's policies changed is still served
			}
			if c.Violation(st.f, key, "token %v resolved through the shared cache decides differently from the same policies compiled alone with fresh caches: %s", ids, d) {
				st.newCache()
			}
		}
	default:
		st.f.Fatalf("harness: unknown op kind %q", op.Kind)
	}
}

func verifC08Run(f verifkit.F, rec *verifkit.Rec, qs []verifC08Q, ops []verifC08Op, replay bool) {
	c := rec.NewCase()
	defer c.GuardPanic(f, "C08/panic")
	if len(ops) == 0 || ops[0].Kind != "structs-init" {
		f.Fatalf("harness: history must start with structs-init")
	}
	st := &verifC08State{f: f, c: c, qs: qs, init: ops[0], specs: map[string]verifC08Policy{}, rows: map[string]*ACLPolicy{},
		texts: map[string]string{}, owner: map[string]string{}, seen: map[string]bool{}, modIx: 10,
		last: map[string][]acl.EnforcementDecision{}}
	c.Op(ops[0])
	c.Label("target=structs-shared-cache")
	if replay {
		c.Label("replay")
	}
	c.Labelf("parsed-cache-size=%d", st.init.CacheParsed)
	c.Labelf("authorizer-cache-size=%d", st.init.CacheAuthz)
	st.newCache()
	for _, p := range st.init.Policies {
		st.specs[p.ID] = p
		st.rows[p.ID] = st.newRow(p)
	}
	for _, op := range ops[1:] {
		c.Op(op)
		st.step(op)
	}
	if st.nt {
		c.NonTrivial()
	}
	rec.AddExtraInt("structs_compiles", int64(len(st.done)))
	c.Done()
}

// ---- generator

func verifC08GenPolicy(t *rapid.T, id string, pool *[]verifC08Rule, focus map[string]bool) verifC08Policy {
	p := verifC08Policy{ID: id, Rules: []verifC08Rule{}}
	var mine []verifC08Rule
	for _, k := range verifC08Kinds {
		max := 1
		if focus[k] {
			max = 3
		}
		n := rapid.IntRange(0, max).Draw(t, "nrules")
		for i := 0; i < n; i++ {
			r := verifC08Rule{Kind: k}
			var same []verifC08Rule
			for _, e := range *pool {
				if e.Kind == k {
					same = append(same, e)
				}
			}
			if len(same) > 0 && rapid.IntRange(0, 1).Draw(t, "reuse") == 0 {
				e := rapid.SampledFrom(same).Draw(t, "slot")
				r.Prefix, r.Name = e.Prefix, e.Name
			} else {
				r.Prefix = rapid.Bool().Draw(t, "prefix")
				r.Name = rapid.SampledFrom(verifC08Names).Draw(t, "name")
			}
			dup := false
			for _, e := range p.Rules { // one rule per slot inside a policy: the endpoint rejects duplicates
				if e.Kind == r.Kind && e.Prefix == r.Prefix && e.Name == r.Name {
					dup = true
				}
			}
			if dup {
				continue
			}
			if k == "key" {
				r.Access = rapid.SampledFrom([]string{"deny", "read", "list", "write"}).Draw(t, "access")
			} else {
				r.Access = rapid.SampledFrom([]string{"deny", "read", "write"}).Draw(t, "access")
			}
			if k == "service" {
				r.Intentions = rapid.SampledFrom([]string{"", "", "", "deny", "read", "write"}).Draw(t, "intentions")
			}
			p.Rules = append(p.Rules, r)
			mine = append(mine, r)
		}
	}
	for _, s := range verifC08Scalars {
		if v := rapid.SampledFrom([]string{"", "", "", "", "deny", "read", "write"}).Draw(t, s); v != "" {
			if p.Scalars == nil {
				p.Scalars = map[string]string{}
			}
			p.Scalars[s] = v
		}
	}
	*pool = append(*pool, mine...)
	return p
}

func verifC08GenHistory(t *rapid.T) []verifC08Op {
	sizes := []int{0, 2, 2, 3, 8, 128}
	init := verifC08Op{Kind: "structs-init",
		CacheParsed: rapid.SampledFrom(sizes).Draw(t, "cache_parsed"),
		CacheAuthz:  rapid.SampledFrom(sizes).Draw(t, "cache_authz")}
	focus := map[string]bool{"service": true}
	nf := rapid.SampledFrom([]int{0, 1, 2, 6}).Draw(t, "nfocus")
	for _, k := range rapid.Permutation(verifC08Kinds).Draw(t, "focus")[:nf] {
		focus[k] = true
	}
	var pool []verifC08Rule
	// identities' rules are candidates for collisions too
	pool = append(pool, verifC08Rule{Kind: "service", Name: "web"}, verifC08Rule{Kind: "service", Prefix: true, Name: ""}, verifC08Rule{Kind: "node", Prefix: true, Name: ""})
	np := rapid.IntRange(2, 5).Draw(t, "npolicies")
	var ids []string
	for i := 0; i < np; i++ {
		id := fmt.Sprintf("p%d", i)
		ids = append(ids, id)
		init.Policies = append(init.Policies, verifC08GenPolicy(t, id, &pool, focus))
	}
	ops := []verifC08Op{init}
	nops := rapid.IntRange(2, 10).Draw(t, "nops")
	withIdent := rapid.IntRange(0, 2).Draw(t, "identities") == 0
	for i := 0; i < nops; i++ {
		if rapid.IntRange(0, 5).Draw(t, "opkind") == 0 {
			id := rapid.SampledFrom(ids).Draw(t, "update-id")
			p := verifC08GenPolicy(t, id, &pool, focus)
			ops = append(ops, verifC08Op{Kind: "update", Policy: &p})
			continue
		}
		cand := append([]string{}, ids...)
		if withIdent {
			cand = append(cand, verifC08Idents...)
		}
		perm := rapid.Permutation(cand).Draw(t, "order")
		n := rapid.SampledFrom([]int{1, 1, 2, 2, 2, 3, 4}).Draw(t, "ntoken")
		if n > len(perm) {
			n = len(perm)
		}
		ops = append(ops, verifC08Op{Kind: "compile", IDs: append([]string{}, perm[:n]...)})
	}
	return ops
}

// TestVerifC08Purity: generated resolution histories through one shared ACLCaches.
func TestVerifC08Purity(t *testing.T) {
	rec := verifC08Recorder()
	defer rec.Flush()
	qs := verifC08Queries(t)
	rec.SetExtra("structs_queries_per_authorizer", fmt.Sprint(len(qs)))
	rapid.Check(t, func(t *rapid.T) {
		verifC08Run(t, rec, qs, verifC08GenHistory(t), false)
	})
}

// ---- identities: the pure entry points the resolver feeds with objects owned by SHARED roles

type verifC08IdentOp struct {
	Kind string      `json:"kind"` // structs-identities
	SIDs [][]string  `json:"sids"` // [name, dc...]
	NIDs [][2]string `json:"nids"` // [name, dc]
}

func verifC08RunIdentities(f verifkit.F, rec *verifkit.Rec, op verifC08IdentOp, replay bool) {
	c := rec.NewCase()
	defer c.GuardPanic(f, "C08/panic")
	c.Op(op)
	c.Label("target=structs-identities")
	if replay {
		c.Label("replay")
	}
	build := func() (ACLServiceIdentities, ACLNodeIdentities) {
		var sids ACLServiceIdentities
		for _, x := range op.SIDs {
			id := &ACLServiceIdentity{ServiceName: x[0]}
			if len(x) > 1 {
				id.Datacenters = append([]string{}, x[1:]...)
			}
			sids = append(sids, id)
		}
		var nids ACLNodeIdentities
		for _, x := range op.NIDs {
			nids = append(nids, &ACLNodeIdentity{NodeName: x[0], Datacenter: x[1]})
		}
		return sids, nids
	}
	scopes := map[string]map[string]bool{}
	for _, x := range op.SIDs {
		if scopes[x[0]] == nil {
			scopes[x[0]] = map[string]bool{}
		}
		cp := append([]string{}, x[1:]...)
		sort.Strings(cp)
		scopes[x[0]][strings.Join(cp, ",")] = true
	}
	for _, sc := range scopes {
		if len(sc) > 1 {
			c.Label("identities=same-name-different-datacenter-scopes")
			c.NonTrivial()
		}
	}
	sids, nids := build()
	wantS, wantN := build()
	outS := sids.Deduplicate()
	outN := nids.Deduplicate()
	// what the resolver does next with the results
	for _, id := range outS {
		_ = id.SyntheticPolicy(nil)
	}
	for _, id := range outN {
		_ = id.SyntheticPolicy(nil)
	}
	// the inputs belong to shared role objects: they must be exactly as before
	if !reflect.DeepEqual(sids, wantS) {
		gj, _ := json.Marshal(sids)
		wj, _ := json.Marshal(wantS)
		c.Violation(f, "C08/shared-identity-mutated-by-deduplicate", "ACLServiceIdentities.Deduplicate changed its input elements (owned by shared role objects):\n now    %s\n before %s", gj, wj)
	}
	if !reflect.DeepEqual(nids, wantN) {
		gj, _ := json.Marshal(nids)
		wj, _ := json.Marshal(wantN)
		c.Violation(f, "C08/shared-identity-mutated-by-deduplicate", "ACLNodeIdentities.Deduplicate changed its input elements:\n now    %s\n before %s", gj, wj)
	}
	c.Done()
}

// TestVerifC08Identities: Deduplicate / SyntheticPolicy must not touch their inputs.
func TestVerifC08Identities(t *testing.T) {
	rec := verifC08Recorder()
	defer rec.Flush()
	scopes := [][]string{nil, nil, {"dc1"}, {"dc2"}, {"dc1", "dc2"}, {"dc2", "dc1"}, {"dc3", "dc1"}}
	rapid.Check(t, func(t *rapid.T) {
		op := verifC08IdentOp{Kind: "structs-identities", SIDs: [][]string{}, NIDs: [][2]string{}}
		n := rapid.IntRange(1, 6).Draw(t, "nsids")
		for i := 0; i < n; i++ {
			x := []string{rapid.SampledFrom([]string{"web", "web", "web-api", "x"}).Draw(t, "name")}
			x = append(x, rapid.SampledFrom(scopes).Draw(t, "dcs")...)
			op.SIDs = append(op.SIDs, x)
		}
		m := rapid.IntRange(0, 4).Draw(t, "nnids")
		for i := 0; i < m; i++ {
			op.NIDs = append(op.NIDs, [2]string{rapid.SampledFrom([]string{"web", "x"}).Draw(t, "node"), rapid.SampledFrom([]string{"dc1", "dc2"}).Draw(t, "ndc")})
		}
		verifC08RunIdentities(t, rec, op, false)
	})
}

// TestVerifC08Replay re-executes saved histories (ops[0].kind == "structs-init") without rapid.
func TestVerifC08Replay(t *testing.T) {
	rec := verifC08Recorder()
	defer rec.Flush()
	qs := verifC08Queries(t)
	for _, path := range verifkit.ReplayFiles("C08") {
		rp, err := verifkit.LoadReplay(path)
		if err != nil {
			t.Fatalf("%v", err)
		}
		var ops []verifC08Op
		for _, raw := range rp.Ops {
			var op verifC08Op
			if err := json.Unmarshal(raw, &op); err != nil {
				ops = nil
				break
			}
			ops = append(ops, op)
		}
		if len(rp.Ops) > 0 {
			var io verifC08IdentOp
			if err := json.Unmarshal(rp.Ops[0], &io); err == nil && io.Kind == "structs-identities" {
				t.Logf("replaying %s", path)
				verifC08RunIdentities(t, rec, io, true)
				continue
			}
		}
		if len(ops) == 0 || ops[0].Kind != "structs-init" {
			continue // a case of another C08 target (package acl)
		}
		t.Logf("replaying %s", path)
		verifC08Run(t, rec, qs, ops, true)
	}
}
