package aclfilter

// C09 (part a) — the arm table: one entry per case arm of Filter.Filter, keyed by the type expression
// exactly as written in filter.go. verifC09CheckArms parses filter.go at test time (go/parser) and fails
// the test if the table and the type switch differ, so an arm added later cannot go unnoticed.

import (
	"fmt"
	"go/ast"
	"go/parser"
	"go/token"
	gotypes "go/types"
	"os"
	"sort"
	"strconv"

	"github.com/hashicorp/consul/agent/structs"
	"github.com/hashicorp/consul/internal/verifkit"
)

type verifC09Arm struct {
	name string
	// groups: fixed group layout (key, kind). A key starting with '*' marks dynamically keyed groups
	// (map keyed by datacenter / peer); then the single entry gives kind and key universe.
	groups []verifC09GroupSpec
	single bool // at most one item (pointer-to-pointer arms, NodeServices, NodeServiceList)
	mapArm bool // the filter iterates a Go map: full runs are repeated (verdict must not depend on map order)
	maxN   int  // max items per group
	minN   int  // min items per group (caller-side precondition, see the arm)
	build  func(s *verifC09Subject, b *verifC09B) any
	flags  func(obj any) []*bool // nil: the type carries no ResultsFilteredByACLs flag
	// allOrNothing: one unreadable entry removes every entry (IntentionQueryMatch, documented in filterIntentionMatch)
	allOrNothing bool
}

type verifC09GroupSpec struct {
	key  string
	kind string
}

func verifC09QM(q *structs.QueryMeta) []*bool { return []*bool{&q.ResultsFilteredByACLs} }

func verifC09ListArm[T any](name, kind string, mk func(b *verifC09B, it verifC09Item) T, wrap func([]T) any, flags func(obj any) []*bool) *verifC09Arm {
	return &verifC09Arm{name: name, groups: []verifC09GroupSpec{{"", kind}}, maxN: 8, flags: flags,
		build: func(s *verifC09Subject, b *verifC09B) any {
			items := verifC09Items(s, 0)
			out := make([]T, 0, len(items))
			for _, it := range items {
				out = append(out, mk(b, it))
			}
			return wrap(out)
		}}
}

func verifC09PtrArm[T any](name, kind string, mk func(b *verifC09B, it verifC09Item) *T) *verifC09Arm {
	return &verifC09Arm{name: name, groups: []verifC09GroupSpec{{"", kind}}, maxN: 1, single: true,
		build: func(s *verifC09Subject, b *verifC09B) any {
			var p *T
			if it := verifC09One(s); it != nil {
				p = mk(b, *it)
			}
			return &p
		}}
}

var verifC09Arms = map[string]*verifC09Arm{}

func verifC09Reg(a *verifC09Arm) { verifC09Arms[a.name] = a }

func init() {
	csn := func(b *verifC09B, it verifC09Item) structs.CheckServiceNode { return b.csn(it) }
	verifC09Reg(verifC09ListArm("*structs.CheckServiceNodes", "csn", csn,
		func(l []structs.CheckServiceNode) any { v := structs.CheckServiceNodes(l); return &v }, nil))
	verifC09Reg(verifC09ListArm("*structs.IndexedCheckServiceNodes", "csn", csn,
		func(l []structs.CheckServiceNode) any { return &structs.IndexedCheckServiceNodes{Nodes: l} },
		func(o any) []*bool { return verifC09QM(&o.(*structs.IndexedCheckServiceNodes).QueryMeta) }))
	verifC09Reg(verifC09ListArm("*structs.PreparedQueryExecuteResponse", "csn", csn,
		func(l []structs.CheckServiceNode) any {
			return &structs.PreparedQueryExecuteResponse{Service: "web", Nodes: l, Datacenter: "dc1"}
		},
		func(o any) []*bool { return verifC09QM(&o.(*structs.PreparedQueryExecuteResponse).QueryMeta) }))

	verifC09Reg(&verifC09Arm{name: "*structs.IndexedServiceTopology", maxN: 4,
		groups: []verifC09GroupSpec{{"Upstreams", "csn"}, {"Downstreams", "csn"}},
		build: func(s *verifC09Subject, b *verifC09B) any {
			return &structs.IndexedServiceTopology{ServiceTopology: &structs.ServiceTopology{
				Upstreams: b.csns(verifC09Items(s, 0)), Downstreams: b.csns(verifC09Items(s, 1)),
				MetricsProtocol: "http", TransparentProxy: true}}
		},
		flags: func(o any) []*bool {
			v := o.(*structs.IndexedServiceTopology)
			return []*bool{&v.FilteredByACLs, &v.ResultsFilteredByACLs}
		}})

	verifC09Reg(&verifC09Arm{name: "*structs.DatacenterIndexedCheckServiceNodes", maxN: 4, mapArm: true,
		groups: []verifC09GroupSpec{{"*dc", "csn"}},
		build: func(s *verifC09Subject, b *verifC09B) any {
			m := map[string]structs.CheckServiceNodes{}
			for _, g := range s.Groups {
				if b.norm && len(g.Items) == 0 {
					continue
				}
				m[g.Key] = b.csns(g.Items)
			}
			return &structs.DatacenterIndexedCheckServiceNodes{DatacenterNodes: m}
		},
		flags: func(o any) []*bool { return verifC09QM(&o.(*structs.DatacenterIndexedCheckServiceNodes).QueryMeta) }})

	verifC09Reg(verifC09ListArm("*structs.IndexedCoordinates", "coord",
		func(b *verifC09B, it verifC09Item) *structs.Coordinate {
			c := &structs.Coordinate{Node: it.Node, Segment: "seg" + strconv.Itoa(it.Tag)}
			b.keep(c)
			return c
		},
		func(l []*structs.Coordinate) any { return &structs.IndexedCoordinates{Coordinates: l} },
		func(o any) []*bool { return verifC09QM(&o.(*structs.IndexedCoordinates).QueryMeta) }))

	verifC09Reg(verifC09ListArm("*structs.IndexedHealthChecks", "check",
		func(b *verifC09B, it verifC09Item) *structs.HealthCheck { return b.check(it) },
		func(l []*structs.HealthCheck) any { return &structs.IndexedHealthChecks{HealthChecks: l} },
		func(o any) []*bool { return verifC09QM(&o.(*structs.IndexedHealthChecks).QueryMeta) }))

	verifC09Reg(verifC09ListArm("*structs.IndexedIntentions", "ixn",
		func(b *verifC09B, it verifC09Item) *structs.Intention {
			x := &structs.Intention{ID: "ixn-" + strconv.Itoa(it.Tag), SourceNS: "default", SourceName: it.Src, SourcePeer: it.SrcPeer,
				DestinationNS: "default", DestinationName: it.Dst, Action: structs.IntentionActionAllow, Description: "d" + strconv.Itoa(it.Tag),
				Meta: map[string]string{"t": strconv.Itoa(it.Tag)}}
			b.keep(x)
			return x
		},
		func(l []*structs.Intention) any { return &structs.IndexedIntentions{Intentions: l} },
		func(o any) []*bool { return verifC09QM(&o.(*structs.IndexedIntentions).QueryMeta) }))

	m := verifC09ListArm("*structs.IntentionQueryMatch", "match",
		func(b *verifC09B, it verifC09Item) structs.IntentionMatchEntry {
			return structs.IntentionMatchEntry{Namespace: "default", Name: it.Name}
		},
		func(l []structs.IntentionMatchEntry) any {
			return &structs.IntentionQueryMatch{Type: structs.IntentionMatchDestination, Entries: l}
		}, nil)
	m.allOrNothing = true
	m.maxN = 4
	verifC09Reg(m)

	verifC09Reg(&verifC09Arm{name: "*structs.IndexedNodeDump", maxN: 4,
		groups: []verifC09GroupSpec{{"Dump", "nodeinfo"}, {"ImportedDump", "nodeinfo"}},
		build: func(s *verifC09Subject, b *verifC09B) any {
			return &structs.IndexedNodeDump{Dump: b.nodedump(verifC09Items(s, 0)), ImportedDump: b.nodedump(verifC09Items(s, 1))}
		},
		flags: func(o any) []*bool { return verifC09QM(&o.(*structs.IndexedNodeDump).QueryMeta) }})

	verifC09Reg(verifC09ListArm("*structs.IndexedServiceDump", "sinfo",
		func(b *verifC09B, it verifC09Item) *structs.ServiceInfo {
			si := &structs.ServiceInfo{GatewayService: b.gwsvc(it)}
			if !it.NoNode {
				si.Node = b.node(it)
				si.Service = b.nsvc(it)
				si.Checks = structs.HealthChecks{b.check(verifC09Item{Node: it.Node, Peer: it.Peer, Svc: it.Svc, ID: "chk-" + it.ID, Tag: it.Tag})}
			}
			b.keep(si)
			return si
		},
		func(l []*structs.ServiceInfo) any { return &structs.IndexedServiceDump{Dump: l} },
		func(o any) []*bool { return verifC09QM(&o.(*structs.IndexedServiceDump).QueryMeta) }))

	verifC09Reg(verifC09ListArm("*structs.IndexedNodes", "node",
		func(b *verifC09B, it verifC09Item) *structs.Node { return b.node(it) },
		func(l []*structs.Node) any { return &structs.IndexedNodes{Nodes: l} },
		func(o any) []*bool { return verifC09QM(&o.(*structs.IndexedNodes).QueryMeta) }))

	verifC09Reg(&verifC09Arm{name: "*structs.IndexedNodeServices", maxN: 1, single: true, mapArm: true,
		groups: []verifC09GroupSpec{{"", "nodesvcs"}},
		build: func(s *verifC09Subject, b *verifC09B) any {
			out := &structs.IndexedNodeServices{}
			if it := verifC09One(s); it != nil {
				ns := &structs.NodeServices{Node: b.node(*it), Services: map[string]*structs.NodeService{}}
				for _, k := range it.Kids {
					// keyed by service ID, exactly as state.Store.NodeServices builds it
					ns.Services[k.ID] = b.nsvc(k)
				}
				out.NodeServices = ns
			}
			return out
		},
		flags: func(o any) []*bool { return verifC09QM(&o.(*structs.IndexedNodeServices).QueryMeta) }})

	verifC09Reg(&verifC09Arm{name: "*structs.IndexedNodeServiceList", maxN: 1, single: true,
		groups: []verifC09GroupSpec{{"", "nodesvclist"}},
		build: func(s *verifC09Subject, b *verifC09B) any {
			out := &structs.IndexedNodeServiceList{}
			if it := verifC09One(s); it != nil {
				out.NodeServices.Node = b.node(*it)
				for _, k := range it.Kids {
					out.NodeServices.Services = append(out.NodeServices.Services, b.nsvc(k))
				}
			}
			return out
		},
		flags: func(o any) []*bool { return verifC09QM(&o.(*structs.IndexedNodeServiceList).QueryMeta) }})

	verifC09Reg(verifC09ListArm("*structs.IndexedServiceNodes", "snode",
		func(b *verifC09B, it verifC09Item) *structs.ServiceNode {
			sn := &structs.ServiceNode{Node: it.Node, Address: fmt.Sprintf("10.0.0.%d", it.Tag), ServiceID: it.ID, ServiceName: it.Svc,
				PeerName: it.Peer, ServicePort: 8000 + it.Tag, ServiceTags: []string{"t"}}
			b.keep(sn)
			return sn
		},
		func(l []*structs.ServiceNode) any { return &structs.IndexedServiceNodes{ServiceNodes: l} },
		func(o any) []*bool { return verifC09QM(&o.(*structs.IndexedServiceNodes).QueryMeta) }))

	verifC09Reg(&verifC09Arm{name: "*structs.IndexedServices", maxN: 6, mapArm: true,
		groups: []verifC09GroupSpec{{"", "svcmap"}},
		build: func(s *verifC09Subject, b *verifC09B) any {
			m := structs.Services{}
			for _, it := range verifC09Items(s, 0) {
				m[it.Svc] = []string{"tag" + strconv.Itoa(it.Tag)}
			}
			return &structs.IndexedServices{Services: m}
		},
		flags: func(o any) []*bool { return verifC09QM(&o.(*structs.IndexedServices).QueryMeta) }})

	verifC09Reg(verifC09ListArm("*structs.IndexedSessions", "session",
		func(b *verifC09B, it verifC09Item) *structs.Session {
			s := &structs.Session{ID: verifC09SessionID(it.Tag), Name: "s" + strconv.Itoa(it.Tag), Node: it.Node, NodeChecks: []string{"serfHealth"}}
			b.keep(s)
			return s
		},
		func(l []*structs.Session) any { return &structs.IndexedSessions{Sessions: l} },
		func(o any) []*bool { return verifC09QM(&o.(*structs.IndexedSessions).QueryMeta) }))

	verifC09Reg(verifC09ListArm("*structs.IndexedPreparedQueries", "pq",
		func(b *verifC09B, it verifC09Item) *structs.PreparedQuery { return b.pq(it) },
		func(l []*structs.PreparedQuery) any { return &structs.IndexedPreparedQueries{Queries: l} },
		func(o any) []*bool { return verifC09QM(&o.(*structs.IndexedPreparedQueries).QueryMeta) }))
	pq1 := verifC09PtrArm("**structs.PreparedQuery", "pq1", func(b *verifC09B, it verifC09Item) *structs.PreparedQuery { return b.pq(it) })
	// precondition: redactPreparedQueryTokens dereferences *query unconditionally; its only caller outside the list filter
	// (PreparedQuery.Get) passes &reply.Queries[0] after checking the query exists, so a nil query is never filtered.
	pq1.minN = 1
	verifC09Reg(pq1)

	verifC09Reg(verifC09ListArm("*structs.ACLTokens", "token",
		func(b *verifC09B, it verifC09Item) *structs.ACLToken { return b.token(it) },
		func(l []*structs.ACLToken) any { v := structs.ACLTokens(l); return &v }, nil))
	verifC09Reg(verifC09PtrArm("**structs.ACLToken", "token", func(b *verifC09B, it verifC09Item) *structs.ACLToken { return b.token(it) }))
	verifC09Reg(verifC09ListArm("*[]*structs.ACLTokenListStub", "token",
		func(b *verifC09B, it verifC09Item) *structs.ACLTokenListStub { return b.stub(it) },
		func(l []*structs.ACLTokenListStub) any { return &l }, nil))
	verifC09Reg(verifC09PtrArm("**structs.ACLTokenListStub", "token", func(b *verifC09B, it verifC09Item) *structs.ACLTokenListStub { return b.stub(it) }))

	verifC09Reg(verifC09ListArm("*structs.ACLPolicies", "aclobj",
		func(b *verifC09B, it verifC09Item) *structs.ACLPolicy { return b.policy(it) },
		func(l []*structs.ACLPolicy) any { v := structs.ACLPolicies(l); return &v }, nil))
	verifC09Reg(verifC09PtrArm("**structs.ACLPolicy", "aclobj", func(b *verifC09B, it verifC09Item) *structs.ACLPolicy { return b.policy(it) }))
	verifC09Reg(verifC09ListArm("*structs.ACLRoles", "aclobj",
		func(b *verifC09B, it verifC09Item) *structs.ACLRole { return b.role(it) },
		func(l []*structs.ACLRole) any { v := structs.ACLRoles(l); return &v }, nil))
	verifC09Reg(verifC09PtrArm("**structs.ACLRole", "aclobj", func(b *verifC09B, it verifC09Item) *structs.ACLRole { return b.role(it) }))
	verifC09Reg(verifC09ListArm("*structs.ACLBindingRules", "aclobj",
		func(b *verifC09B, it verifC09Item) *structs.ACLBindingRule { return b.brule(it) },
		func(l []*structs.ACLBindingRule) any { v := structs.ACLBindingRules(l); return &v }, nil))
	verifC09Reg(verifC09PtrArm("**structs.ACLBindingRule", "aclobj", func(b *verifC09B, it verifC09Item) *structs.ACLBindingRule { return b.brule(it) }))
	verifC09Reg(verifC09ListArm("*structs.ACLAuthMethods", "aclobj",
		func(b *verifC09B, it verifC09Item) *structs.ACLAuthMethod { return b.method(it) },
		func(l []*structs.ACLAuthMethod) any { v := structs.ACLAuthMethods(l); return &v }, nil))
	verifC09Reg(verifC09PtrArm("**structs.ACLAuthMethod", "aclobj", func(b *verifC09B, it verifC09Item) *structs.ACLAuthMethod { return b.method(it) }))

	svcname := func(b *verifC09B, it verifC09Item) structs.ServiceName { return structs.ServiceName{Name: it.Svc} }
	verifC09Reg(verifC09ListArm("*structs.IndexedServiceList", "svcname", svcname,
		func(l []structs.ServiceName) any { return &structs.IndexedServiceList{Services: l} },
		func(o any) []*bool { return verifC09QM(&o.(*structs.IndexedServiceList).QueryMeta) }))

	verifC09Reg(&verifC09Arm{name: "*structs.IndexedExportedServiceList", maxN: 4, mapArm: true,
		groups: []verifC09GroupSpec{{"*peer", "svcname"}},
		build: func(s *verifC09Subject, b *verifC09B) any {
			m := map[string]structs.ServiceList{}
			for _, g := range s.Groups { // insertion order = spec order (deterministic)
				if b.norm && len(g.Items) == 0 {
					continue
				}
				l := make(structs.ServiceList, 0, len(g.Items))
				for _, it := range g.Items {
					l = append(l, structs.ServiceName{Name: it.Svc})
				}
				m[g.Key] = l
			}
			return &structs.IndexedExportedServiceList{Services: m}
		},
		flags: func(o any) []*bool { return verifC09QM(&o.(*structs.IndexedExportedServiceList).QueryMeta) }})

	verifC09Reg(verifC09ListArm("*structs.IndexedGatewayServices", "gwsvc",
		func(b *verifC09B, it verifC09Item) *structs.GatewayService { return b.gwsvc(it) },
		func(l []*structs.GatewayService) any { return &structs.IndexedGatewayServices{Services: l} },
		func(o any) []*bool { return verifC09QM(&o.(*structs.IndexedGatewayServices).QueryMeta) }))

	verifC09Reg(&verifC09Arm{name: "*structs.IndexedNodesWithGateways", maxN: 3,
		groups: []verifC09GroupSpec{{"ImportedNodes", "csn"}, {"Nodes", "csn"}, {"Gateways", "gwsvc"}},
		build: func(s *verifC09Subject, b *verifC09B) any {
			return &structs.IndexedNodesWithGateways{ImportedNodes: b.csns(verifC09Items(s, 0)), Nodes: b.csns(verifC09Items(s, 1)),
				Gateways: b.gwsvcs(verifC09Items(s, 2))}
		},
		flags: func(o any) []*bool { return verifC09QM(&o.(*structs.IndexedNodesWithGateways).QueryMeta) }})
}

func verifC09ArmNames() []string {
	out := make([]string, 0, len(verifC09Arms))
	for k := range verifC09Arms {
		out = append(out, k)
	}
	sort.Strings(out)
	return out
}

// verifC09SourceArms extracts the case arms of (*Filter).Filter from filter.go.
func verifC09SourceArms() ([]string, error) {
	path := os.Getenv("VERIF_C09_FILTER_SRC")
	if path == "" {
		path = "filter.go" // the driver runs the test binary with cwd = package directory of the tree under test
	}
	fset := token.NewFileSet()
	file, err := parser.ParseFile(fset, path, nil, 0)
	if err != nil {
		return nil, err
	}
	var out []string
	for _, d := range file.Decls {
		fd, ok := d.(*ast.FuncDecl)
		if !ok || fd.Name.Name != "Filter" || fd.Recv == nil || fd.Body == nil {
			continue
		}
		ast.Inspect(fd.Body, func(n ast.Node) bool {
			ts, ok := n.(*ast.TypeSwitchStmt)
			if !ok {
				return true
			}
			for _, st := range ts.Body.List {
				if cc, ok := st.(*ast.CaseClause); ok {
					for _, e := range cc.List {
						out = append(out, gotypes.ExprString(e))
					}
				}
			}
			return false
		})
	}
	if len(out) == 0 {
		return nil, fmt.Errorf("no type switch found in (*Filter).Filter of %s", path)
	}
	sort.Strings(out)
	return out, nil
}

// verifC09CheckArms fails the test (harness error, not an oracle verdict) when the arm table and the
// type switch of Filter.Filter differ, or when a builder produces another type than its key says.
func verifC09CheckArms(f verifkit.F) {
	src, err := verifC09SourceArms()
	if err != nil {
		f.Fatalf("C09 harness: cannot enumerate the arms of Filter.Filter: %v", err)
	}
	have := map[string]bool{}
	for _, a := range src {
		have[a] = true
		if verifC09Arms[a] == nil {
			f.Fatalf("C09 harness: Filter.Filter has a case arm %q without a generator in the C09 arm table — add one", a)
		}
	}
	for _, a := range verifC09ArmNames() {
		if !have[a] {
			f.Fatalf("C09 harness: arm table has %q but Filter.Filter has no such case arm", a)
		}
		obj := verifC09Arms[a].build(&verifC09Subject{Arm: a}, &verifC09B{})
		if got := fmt.Sprintf("%T", obj); got != a {
			f.Fatalf("C09 harness: builder of arm %q produces %s", a, got)
		}
	}
}
