package aclfilter

// C09 (part a) — "ACL enforcement: nothing unreadable returned" for every arm of Filter.Filter.
//
// Oracles (all evaluated per generated case; see verifC09Run):
//  M1  ManageAll authorizer  => output deep-equals the input, flag false.
//  M2  DenyAll authorizer    => nothing left, flag <=> input had (counted) entries. Documented exemptions:
//      unnamed prepared queries are dropped silently (filterPreparedQueries comment), **PreparedQuery is only
//      redacted, IntentionQueryMatch entries with an empty name are not checked, ACL object types carry no flag.
//  M3  arrangement independence: filter(whole) == the input pruned by the verdicts the REAL filter gives to each
//      element presented alone (element + its ancestors only); order preserved; flag == OR of the singleton flags.
//      Needs no knowledge of the rule. IntentionQueryMatch is all-or-nothing by design (one unreadable entry empties
//      the list) and is compared under that reading.
//  M4  rule table from the ACL documentation evaluated with the same authorizer, compared per element with the
//      verdict of the real filter on the singleton (leak / over-drop / secret not redacted / needlessly redacted).
//  M5  objects reachable through the response (nodes, services, checks, tokens, queries ... — live state-store
//      objects in production) are never written through: they must equal a twin built from the same spec.
//  F   flag exactness on every singleton: flag <=> the element was removed (redaction is not removal).
//
// Deliberately NOT asserted: ServiceTopology decision/source maps (keyed by service name, not filtered by the code
// and not a "service" in the statement's sense); the in-place reuse of the caller's slice backing array (the API
// says "in-place"); NodeInfo/NodeServices/NodeServiceList containers being modified (they are the filtered entry).

import (
	"encoding/json"
	"fmt"
	"reflect"
	"sort"
	"strings"
	"testing"

	"github.com/google/go-cmp/cmp"
	"github.com/google/go-cmp/cmp/cmpopts"
	"pgregory.net/rapid"

	"github.com/hashicorp/consul/acl"
	"github.com/hashicorp/consul/internal/verifkit"
)

type verifC09Verdict int

const (
	verifC09Keep verifC09Verdict = iota
	verifC09Redact
	verifC09Drop
)

func (v verifC09Verdict) String() string { return [...]string{"keep", "redact", "drop"}[v] }

type verifC09Path struct{ g, i, k int } // k = -1: the item itself

func verifC09Allow(d acl.EnforcementDecision) bool { return d == acl.Allow }

// verifC09RuleVerdict is the M4 rule table (ACL documentation: catalog/health reads need node:read and service:read,
// sessions need session:read on the node, intentions need intention:read on source or destination, prepared queries
// need query:read on the name and show captured tokens only to acl:write, ACL objects need acl:read and show the
// secret only to acl:write; imported (peered) entries are authorized with the peer in the context).
func verifC09RuleVerdict(kind string, it *verifC09Item, kid *verifC09Item, az acl.Authorizer) verifC09Verdict {
	ctx := func(peer string) *acl.AuthorizerContext { return &acl.AuthorizerContext{Peer: peer} }
	b := func(ok bool) verifC09Verdict {
		if ok {
			return verifC09Keep
		}
		return verifC09Drop
	}
	if kid != nil { // nested service / check of a node the token may read
		switch kid.Role {
		case "chk":
			return b(kid.Svc == "" || verifC09Allow(az.ServiceRead(kid.Svc, ctx(kid.Peer))))
		default:
			return b(verifC09Allow(az.ServiceRead(kid.Svc, ctx(kid.Peer))))
		}
	}
	switch kind {
	case "csn", "snode":
		return b(verifC09Allow(az.NodeRead(it.Node, ctx(it.Peer))) && verifC09Allow(az.ServiceRead(it.Svc, ctx(it.Peer))))
	case "check":
		return b(verifC09Allow(az.NodeRead(it.Node, ctx(it.Peer))) && (it.Svc == "" || verifC09Allow(az.ServiceRead(it.Svc, ctx(it.Peer)))))
	case "node", "nodeinfo", "nodesvcs", "nodesvclist":
		return b(verifC09Allow(az.NodeRead(it.Node, ctx(it.Peer))))
	case "coord":
		return b(verifC09Allow(az.NodeRead(it.Node, ctx(""))))
	case "session":
		return b(verifC09Allow(az.SessionRead(it.Node, ctx(""))))
	case "ixn":
		if it.Src != "" && it.SrcPeer == "" && verifC09Allow(az.IntentionRead(it.Src, ctx(""))) {
			return verifC09Keep
		}
		return b(it.Dst != "" && verifC09Allow(az.IntentionRead(it.Dst, ctx(""))))
	case "match":
		return b(it.Name == "" || verifC09Allow(az.IntentionRead(it.Name, ctx(""))))
	case "sinfo":
		// filterServiceDump / allowGateway comments: read on the gateway and on the linked service, and on the node when
		// the entry carries node information.
		ok := verifC09Allow(az.ServiceRead(it.Gw, ctx(""))) && verifC09Allow(az.ServiceRead(it.Svc, ctx("")))
		if ok && !it.NoNode {
			ok = verifC09Allow(az.NodeRead(it.Node, ctx(it.Peer)))
		}
		return b(ok)
	case "svcmap", "svcname":
		return b(verifC09Allow(az.ServiceRead(it.Svc, ctx(""))))
	case "gwsvc":
		// filterGatewayServices comment: only the linked service is checked here, the gateway is checked by the endpoint.
		return b(verifC09Allow(az.ServiceRead(it.Svc, ctx(""))))
	case "pq", "pq1":
		if verifC09Allow(az.ACLWrite(ctx(""))) {
			return verifC09Keep
		}
		if kind == "pq" {
			if it.Name == "" && !it.Tmpl {
				return verifC09Drop // un-named queries can only be enumerated by a management token
			}
			if !verifC09Allow(az.PreparedQueryRead(it.Name, ctx(""))) {
				return verifC09Drop
			}
		}
		if it.Token != "" {
			return verifC09Redact
		}
		return verifC09Keep
	case "token":
		if !verifC09Allow(az.ACLRead(ctx(""))) {
			return verifC09Drop
		}
		if !verifC09Allow(az.ACLWrite(ctx(""))) {
			return verifC09Redact
		}
		return verifC09Keep
	case "aclobj":
		return b(verifC09Allow(az.ACLRead(ctx(""))))
	}
	panic("C09 harness: no rule for kind " + kind)
}

// verifC09Counted: does removing this element have to raise the flag?
func verifC09Counted(kind string, it *verifC09Item) bool {
	if kind == "pq" && it.Name == "" && !it.Tmpl {
		return false // documented: only NAMED queries removed are reported
	}
	return true
}

// verifC09M2Verdict: deny-all expectation with the documented exemptions.
func verifC09M2Verdict(kind string, it *verifC09Item) verifC09Verdict {
	switch kind {
	case "pq1":
		if it.Token != "" {
			return verifC09Redact
		}
		return verifC09Keep
	case "match":
		if it.Name == "" {
			return verifC09Keep
		}
	}
	return verifC09Drop
}

// verifC09Prune returns the subject with dropped elements removed and redacted ones marked.
func verifC09Prune(arm *verifC09Arm, s *verifC09Subject, verdict func(p verifC09Path) verifC09Verdict) *verifC09Subject {
	o := s.clone()
	anyDrop := false
	for gi := range o.Groups {
		var items []verifC09Item
		for ii, it := range o.Groups[gi].Items {
			v := verdict(verifC09Path{gi, ii, -1})
			if v == verifC09Drop {
				anyDrop = true
				continue
			}
			if v == verifC09Redact {
				it.redacted = true
			}
			var kids []verifC09Item
			for ki, k := range it.Kids {
				if verdict(verifC09Path{gi, ii, ki}) != verifC09Drop {
					kids = append(kids, k)
				}
			}
			it.Kids = kids
			items = append(items, it)
		}
		o.Groups[gi].Items = items
	}
	if arm.allOrNothing && anyDrop {
		for gi := range o.Groups {
			o.Groups[gi].Items = nil
		}
	}
	return o
}

// verifC09Restrict keeps only the element at p and its ancestors (the item without kids when p.k < 0).
func verifC09Restrict(s *verifC09Subject, p verifC09Path) *verifC09Subject {
	o := s.clone()
	dyn := len(o.Groups) > 0 && strings.HasPrefix(verifC09Arms[s.Arm].groups[0].key, "*")
	var groups []verifC09Group
	for gi := range o.Groups {
		g := o.Groups[gi]
		if gi != p.g {
			if dyn {
				continue
			}
			g.Items = nil
			groups = append(groups, g)
			continue
		}
		it := g.Items[p.i]
		if p.k < 0 {
			it.Kids = nil
		} else {
			it.Kids = []verifC09Item{it.Kids[p.k]}
		}
		g.Items = []verifC09Item{it}
		groups = append(groups, g)
	}
	o.Groups = groups
	return o
}

var verifC09CmpOpts = cmp.Options{cmpopts.EquateEmpty()}

func verifC09Equal(a, b any) bool {
	if reflect.DeepEqual(a, b) {
		return true
	}
	return cmp.Equal(a, b, verifC09CmpOpts)
}

type verifC09Out struct {
	obj   any
	flag  bool
	pair  bool // all flag fields agree
	build *verifC09B
}

// verifC09Exec builds a fresh object from the spec, filters it, reads and clears the flag(s).
func verifC09Exec(arm *verifC09Arm, s *verifC09Subject, az acl.Authorizer) verifC09Out {
	b := &verifC09B{}
	obj := arm.build(s, b)
	New(az, nil).Filter(obj)
	out := verifC09Out{obj: obj, pair: true, build: b}
	if arm.flags != nil {
		fl := arm.flags(obj)
		out.flag = *fl[0]
		for _, p := range fl {
			if *p != out.flag {
				out.pair = false
				out.flag = out.flag || *p
			}
			*p = false
		}
	}
	return out
}

func verifC09Expected(arm *verifC09Arm, s *verifC09Subject) any {
	return arm.build(s, &verifC09B{norm: true})
}

func verifC09Short(arm string) string {
	arm = strings.ReplaceAll(arm, "structs.", "")
	arm = strings.ReplaceAll(arm, "**", "PtrTo")
	arm = strings.ReplaceAll(arm, "*[]*", "ListOf")
	return strings.TrimLeft(arm, "*")
}

func verifC09Diff(want, got any) string {
	d := cmp.Diff(want, got, verifC09CmpOpts)
	if len(d) > 3000 {
		d = d[:3000] + "…"
	}
	return d
}

// verifC09Run applies every oracle to one subject. reps: repetitions of the full run (map arms).
func verifC09Run(f verifkit.F, c *verifkit.Case, s *verifC09Subject, reps int) {
	arm := verifC09Arms[s.Arm]
	if arm == nil {
		f.Fatalf("C09 harness: unknown arm %q", s.Arm)
	}
	short := verifC09Short(arm.name)
	az, err := verifC09BuildAuthz(s.Auth)
	if err != nil {
		f.Fatalf("C09 harness: generated policy rejected: %v", err)
	}
	kindOf := func(p verifC09Path) string { return s.Groups[p.g].Kind }

	if reps < 1 {
		reps = 1
	}
	// ---- M1: manage-all => identity
	for r := 0; r < reps; r++ {
		out := verifC09Exec(arm, s, acl.ManageAll())
		if want := verifC09Expected(arm, s); !verifC09Equal(want, out.obj) {
			c.Violation(f, "C09/"+short+"/M1-content", "manage-all authorizer changed the response (-want +got):\n%s", verifC09Diff(want, out.obj))
			break
		}
		if out.flag {
			c.Violation(f, "C09/"+short+"/M1-flag", "manage-all authorizer: ResultsFilteredByACLs=true although nothing can have been removed")
			break
		}
	}
	// ---- M2: deny-all => nothing left (documented exemptions in verifC09M2Verdict)
	{
		counted := false
		exp := verifC09Prune(arm, s, func(p verifC09Path) verifC09Verdict {
			if p.k >= 0 {
				return verifC09Drop
			}
			it := &s.Groups[p.g].Items[p.i]
			v := verifC09M2Verdict(kindOf(p), it)
			if v == verifC09Drop && verifC09Counted(kindOf(p), it) {
				counted = true
			}
			return v
		})
		for r := 0; r < reps; r++ {
			out := verifC09Exec(arm, s, acl.DenyAll())
			if want := verifC09Expected(arm, exp); !verifC09Equal(want, out.obj) {
				c.Violation(f, "C09/"+short+"/M2-content", "deny-all authorizer left entries behind (-want +got):\n%s", verifC09Diff(want, out.obj))
				break
			}
			if arm.flags != nil && out.flag != counted {
				key := "C09/" + short + "/M2-flag"
				if arm.name == "*structs.IndexedExportedServiceList" && !out.flag && len(s.Groups) >= 2 && verifC09HasEmptyGroup(s) {
					// every non-empty peer list lost entries, an empty one lost nothing, and the flag is false: the per-peer
					// result overwrote the flag instead of being OR-ed into it (same root cause as under M3).
					key = "C09/exported-service-list-flag-not-ored"
				}
				c.Violation(f, key, "deny-all authorizer: flag=%v but input had removable entries=%v (run %d of %d)", out.flag, counted, r, reps)
				break
			}
		}
	}

	// ---- singletons: verdict of the real filter for every element presented alone (+ancestors)
	real := map[verifC09Path]verifC09Verdict{}
	orFlag := false
	classify := func(p verifC09Path) verifC09Verdict {
		rs := verifC09Restrict(s, p)
		rp := p
		rp.i = 0
		if p.k >= 0 {
			rp.k = 0
		}
		if len(rs.Groups) == 1 {
			rp.g = 0
		}
		out := verifC09Exec(arm, rs, az)
		orFlag = orFlag || out.flag
		kind := kindOf(p)
		cands := []verifC09Verdict{verifC09Keep, verifC09Drop}
		if p.k < 0 && (kind == "pq" || kind == "pq1" || kind == "token") {
			cands = []verifC09Verdict{verifC09Keep, verifC09Redact, verifC09Drop}
		}
		got := verifC09Verdict(-1)
		for _, cv := range cands {
			exp := verifC09Prune(arm, rs, func(q verifC09Path) verifC09Verdict {
				if q == rp {
					return cv
				}
				return verifC09Keep
			})
			if verifC09Equal(verifC09Expected(arm, exp), out.obj) {
				got = cv
				break
			}
		}
		if got < 0 {
			c.Violation(f, "C09/"+short+"/singleton-shape", "filtering a single element gave neither the element, nor its redaction, nor nothing. element %+v; diff against unfiltered (-in +out):\n%s",
				verifC09ElemAt(s, p), verifC09Diff(verifC09Expected(arm, rs), out.obj))
			got = verifC09Drop
		}
		// F: flag exactness on the singleton
		if arm.flags != nil {
			it := verifC09ElemAt(s, p)
			want := got == verifC09Drop && (p.k >= 0 || verifC09Counted(kind, it))
			if out.flag != want {
				c.Violation(f, "C09/"+short+"/flag-vs-removed", "single element %+v: verdict %v but flag=%v", *it, got, out.flag)
			}
			if !out.pair {
				c.Violation(f, "C09/"+short+"/flag-pair-differs", "the two filtered-by-ACLs flags of the response disagree")
			}
		}
		return got
	}
	type disc struct {
		p          verifC09Path
		real, rule verifC09Verdict
	}
	var discs []disc
	for gi, g := range s.Groups {
		for ii := range g.Items {
			p := verifC09Path{gi, ii, -1}
			it := &s.Groups[gi].Items[ii]
			real[p] = classify(p)
			if rv := verifC09RuleVerdict(g.Kind, it, nil, az); rv != real[p] {
				discs = append(discs, disc{p, real[p], rv})
			}
			if real[p] == verifC09Drop {
				for ki := range it.Kids {
					real[verifC09Path{gi, ii, ki}] = verifC09Drop
				}
				continue
			}
			for ki := range it.Kids {
				kp := verifC09Path{gi, ii, ki}
				real[kp] = classify(kp)
				if rv := verifC09RuleVerdict(g.Kind, it, &it.Kids[ki], az); rv != real[kp] {
					discs = append(discs, disc{kp, real[kp], rv})
				}
			}
		}
	}
	// ---- M4: rule table vs real singleton verdicts
	for _, d := range discs {
		it := verifC09ElemAt(s, d.p)
		key := "C09/" + short + "/M4-"
		switch {
		case d.real == verifC09Keep && d.rule == verifC09Drop, d.real == verifC09Redact && d.rule == verifC09Drop:
			key += "leak"
		case d.real == verifC09Drop:
			key += "overdrop"
		case d.real == verifC09Keep && d.rule == verifC09Redact:
			key += "secret-not-redacted"
		default:
			key += "needless-redaction"
		}
		if kindOf(d.p) == "nodesvcs" && d.p.k >= 0 && it.ID != it.Svc {
			// root cause probe: does authorizing the MAP KEY (service ID) instead of the service name explain the verdict?
			byKey := verifC09Keep
			if !verifC09Allow(az.ServiceRead(it.ID, &acl.AuthorizerContext{Peer: it.Peer})) {
				byKey = verifC09Drop
			}
			if byKey == d.real {
				key = "C09/node-services-authz-on-service-id"
			}
		}
		c.Violation(f, key, "element %+v (kind %s): the filter's verdict is %v, the documented rule gives %v under authorizer %+v",
			*it, kindOf(d.p), d.real, d.rule, s.Auth)
	}

	// ---- M3 (+M5 on the first run): the whole response
	expSpec := verifC09Prune(arm, s, func(p verifC09Path) verifC09Verdict { return real[p] })
	for r := 0; r < reps; r++ {
		out := verifC09Exec(arm, s, az)
		want := verifC09Expected(arm, expSpec)
		contentOK := verifC09Equal(want, out.obj)
		if !contentOK {
			if c.Violation(f, "C09/"+short+"/M3-content", "filter(whole) differs from the concatenation of the filtered singletons (-want +got), run %d:\n%s", r, verifC09Diff(want, out.obj)) {
				break
			}
		}
		if arm.flags != nil && out.flag != orFlag {
			key := "C09/" + short + "/M3-flag"
			if arm.name == "*structs.IndexedExportedServiceList" && contentOK && !out.flag && orFlag && verifC09HasUntouchedGroup(s, real) {
				// something was removed from one peer's list, another peer's list lost nothing, and the flag is false:
				// the per-peer result overwrote the flag instead of being OR-ed into it.
				key = "C09/exported-service-list-flag-not-ored"
			}
			if c.Violation(f, key, "flag=%v but OR of the singleton flags=%v (run %d of %d)", out.flag, orFlag, r, reps) {
				break
			}
		}
		if !out.pair {
			c.Violation(f, "C09/"+short+"/flag-pair-differs", "the two filtered-by-ACLs flags of the response disagree")
		}
		if r == 0 {
			twin := &verifC09B{}
			arm.build(s, twin)
			for i := range out.build.leaves {
				if !reflect.DeepEqual(out.build.leaves[i], twin.leaves[i]) {
					c.Violation(f, "C09/"+short+"/M5-shared-object-mutated", "the filter wrote through a shared %T (-original +after filter):\n%s",
						twin.leaves[i], verifC09Diff(twin.leaves[i], out.build.leaves[i]))
					break
				}
			}
		}
	}

	verifC09Labels(c, arm, s, real)
}

func verifC09ElemAt(s *verifC09Subject, p verifC09Path) *verifC09Item {
	it := &s.Groups[p.g].Items[p.i]
	if p.k >= 0 {
		return &it.Kids[p.k]
	}
	return it
}

// verifC09HasUntouchedGroup: >= 2 groups, one of which lost nothing.
func verifC09HasUntouchedGroup(s *verifC09Subject, real map[verifC09Path]verifC09Verdict) bool {
	if len(s.Groups) < 2 {
		return false
	}
	for gi, g := range s.Groups {
		touched := false
		for ii := range g.Items {
			if real[verifC09Path{gi, ii, -1}] == verifC09Drop {
				touched = true
			}
		}
		if !touched {
			return true
		}
	}
	return false
}

func verifC09HasEmptyGroup(s *verifC09Subject) bool {
	for _, g := range s.Groups {
		if len(g.Items) == 0 {
			return true
		}
	}
	return false
}

func verifC09Labels(c *verifkit.Case, arm *verifC09Arm, s *verifC09Subject, real map[verifC09Path]verifC09Verdict) {
	c.Label("arm=" + verifC09Short(arm.name))
	c.Label("auth=" + s.Auth.Kind + "/" + s.Auth.Default)
	if s.Pattern != "" {
		c.Label("pattern=" + s.Pattern)
	}
	total, dropped, redacted, nt := 0, 0, 0, false
	for gi, g := range s.Groups {
		n := len(g.Items)
		prevDrop := false
		for ii, it := range g.Items {
			total++
			v := real[verifC09Path{gi, ii, -1}]
			if it.Peer != "" {
				c.Label("has-peer-entry")
			}
			if v == verifC09Redact {
				redacted++
			}
			if v == verifC09Drop {
				dropped++
				if prevDrop {
					c.Label("adjacent-removals")
					nt = true
				}
				if ii == 0 && n > 1 {
					c.Label("removal-first")
					nt = true
				}
				if ii == n-1 && n > 1 {
					c.Label("removal-last")
					nt = true
				}
				prevDrop = true
				continue
			}
			prevDrop = false
			kd, kk, kprev := 0, 0, false
			for ki := range it.Kids {
				if real[verifC09Path{gi, ii, ki}] == verifC09Drop {
					kd++
					if kprev {
						c.Label("nested-adjacent-removals")
					}
					kprev = true
				} else {
					kk++
					kprev = false
				}
			}
			if kd > 0 && kk > 0 {
				c.Label("nested-mixed")
				nt = true
			}
			if kd > 0 && kk == 0 {
				c.Label("nested-all-removed")
			}
		}
	}
	if len(s.Groups) > 1 && dropped > 0 && dropped < total {
		c.Label("multi-group-mixed")
		nt = true
	}
	switch {
	case total == 1:
		c.Label("entries=1")
	case total >= 2 && total <= 3:
		c.Label("entries=2-3")
	case total >= 4 && total <= 8:
		c.Label("entries=4-8")
	case total > 8:
		c.Label("entries=9+")
	}
	switch {
	case total == 0:
		c.Label("entries=0")
	case dropped == 0:
		c.Label("removed=none")
	case dropped == total:
		c.Label("removed=all")
	default:
		c.Label("removed=some")
		if arm.single || arm.allOrNothing || arm.mapArm {
			nt = true
		}
	}
	if redacted > 0 {
		c.Label("redacted")
		nt = true
	}
	if arm.single && total > 0 {
		nt = true // pointer arms have one entry: every verdict is the interesting case
	}
	if nt {
		c.NonTrivial()
	}
}

// ---------------------------------------------------------------- generator

var (
	verifC09Nodes    = []string{"n1", "n2", "n3"}
	verifC09Svcs     = []string{"web", "api", "db", "web.v1", "consul"}
	verifC09Gws      = []string{"term-gw", "ingress-gw"}
	verifC09DCs      = []string{"dc1", "dc2", "dc3"}
	verifC09PeerKeys = []string{"peerA", "peerB", "peerC", "peerD"}
	verifC09QNames   = []string{"", "q-web", "q-api", "web"}
	verifC09Relevant = map[string][]string{
		"csn": {"node", "service"}, "snode": {"node", "service"}, "check": {"node", "service"}, "node": {"node", "service"},
		"nodeinfo": {"node", "service"}, "nodesvcs": {"node", "service"}, "nodesvclist": {"node", "service"}, "coord": {"node"},
		"session": {"session", "node"}, "ixn": {"service"}, "match": {"service"}, "sinfo": {"node", "service"},
		"svcmap": {"service"}, "svcname": {"service"}, "gwsvc": {"service"}, "pq": {"query", "acl"}, "pq1": {"query", "acl"},
		"token": {"acl"}, "aclobj": {"acl"},
	}
)

func verifC09GenPeer(t *rapid.T) string {
	if rapid.IntRange(0, 9).Draw(t, "peerp") < 7 {
		return ""
	}
	return rapid.SampledFrom([]string{"peerA", "peerB"}).Draw(t, "peer")
}

func verifC09GenSvcID(t *rapid.T, svc string) string {
	return svc + verifC09Pick(t, []string{"", "-1", "-2"}, "idsfx")
}

// verifC09U draws a near-uniform integer in [0,n) (rapid's integer generators are biased towards small values,
// which starves the later arms and the longer lists).
func verifC09U(t *rapid.T, n int, label string) int {
	if n <= 1 {
		return 0
	}
	v := 0
	for i := 0; (1 << i) < n*8; i++ {
		v <<= 1
		if rapid.Bool().Draw(t, label) {
			v |= 1
		}
	}
	return v % n
}

func verifC09Pick(t *rapid.T, xs []string, label string) string { return xs[verifC09U(t, len(xs), label)] }

var verifC09RuleNames = map[string][2][]string{ // resource -> {exact names, prefixes}
	"node":    {{"n1", "n2", "n3"}, {"", "n", "n1"}},
	"session": {{"n1", "n2", "n3"}, {"", "n", "n1"}},
	"service": {{"web", "api", "db", "web.v1", "consul", "web-1", "api-1", "db-2", "term-gw", "ingress-gw", "*"}, {"", "w", "web", "a", "term"}},
	"query":   {{"q-web", "q-api", "web"}, {"", "q-"}},
}

func verifC09GenAuth(t *rapid.T, kinds []string) verifC09Auth {
	switch verifC09U(t, 40, "authkind") {
	case 0:
		return verifC09Auth{Kind: "allow-all"}
	case 1:
		return verifC09Auth{Kind: "deny-all"}
	case 2:
		return verifC09Auth{Kind: "manage-all"}
	}
	a := verifC09Auth{Kind: "policy", Default: verifC09Pick(t, []string{"deny", "deny", "allow"}, "default")}
	resSet := map[string]bool{}
	for _, k := range kinds {
		for _, r := range verifC09Relevant[k] {
			resSet[r] = true
		}
	}
	np := 1 + verifC09U(t, 2, "npol")
	a.Policies = make([][]verifC09Rule, np)
	seen := make([]map[string]bool, np)
	for i := range seen {
		seen[i] = map[string]bool{}
	}
	add := func(r verifC09Rule) {
		pi := verifC09U(t, np, "pol")
		k := fmt.Sprintf("%s/%v/%s", r.Res, r.Prefix, r.Name)
		if seen[pi][k] {
			return
		}
		seen[pi][k] = true
		a.Policies[pi] = append(a.Policies[pi], r)
	}
	access := func() string { return verifC09Pick(t, []string{"read", "read", "read", "write", "deny", "deny"}, "access") }
	// density: how many names of the universe get an exact rule (sparse .. dense), so that within one response some
	// entries are readable and others are not under either default
	density := 1 + verifC09U(t, 7, "density")
	for _, res := range []string{"node", "service", "session", "query"} {
		if !resSet[res] {
			continue
		}
		names := verifC09RuleNames[res]
		for _, n := range names[0] {
			if verifC09U(t, 8, "has") < density {
				r := verifC09Rule{Res: res, Name: n, Access: access()}
				if res == "service" {
					r.Ixn = verifC09Pick(t, []string{"", "", "read", "write", "deny"}, "ixn")
				}
				add(r)
			}
		}
		for _, n := range names[1] {
			if verifC09U(t, 8, "hasp") < 2 {
				r := verifC09Rule{Res: res, Prefix: true, Name: n, Access: access()}
				if res == "service" {
					r.Ixn = verifC09Pick(t, []string{"", "", "read", "write", "deny"}, "ixn")
				}
				add(r)
			}
		}
	}
	if resSet["acl"] && verifC09U(t, 4, "hasacl") < 3 {
		add(verifC09Rule{Res: "acl", Access: verifC09Pick(t, []string{"read", "read", "write", "deny"}, "aclaccess")})
	}
	return a
}

func verifC09GenItem(t *rapid.T, kind string) verifC09Item {
	it := verifC09Item{Tag: rapid.IntRange(0, 3).Draw(t, "tag")}
	node := func() { it.Node = verifC09Pick(t, verifC09Nodes, "node") }
	svc := func() { it.Svc = verifC09Pick(t, verifC09Svcs, "svc") }
	switch kind {
	case "csn", "snode":
		node()
		svc()
		it.Peer = verifC09GenPeer(t)
		it.ID = verifC09GenSvcID(t, it.Svc)
	case "check":
		node()
		it.Peer = verifC09GenPeer(t)
		if rapid.IntRange(0, 9).Draw(t, "nodecheck") < 3 {
			it.ID = "serfHealth"
		} else {
			svc()
			it.ID = rapid.SampledFrom([]string{"c1", "c2", "c3"}).Draw(t, "chk")
		}
	case "node", "coord", "session":
		node()
		if kind == "node" {
			it.Peer = verifC09GenPeer(t)
		}
	case "ixn":
		it.Src = verifC09Pick(t, []string{"web", "api", "db", "*", "web.v1"}, "src")
		it.Dst = verifC09Pick(t, []string{"web", "api", "db", "*", "consul"}, "dst")
		if rapid.IntRange(0, 9).Draw(t, "srcpeer") < 2 {
			it.SrcPeer = "peerA"
		}
	case "match":
		it.Name = verifC09Pick(t, []string{"web", "api", "db", "*", ""}, "name")
	case "nodeinfo", "nodesvcs", "nodesvclist":
		node()
		it.Peer = verifC09GenPeer(t)
		maxS, maxC := 4, 3
		if kind != "nodeinfo" {
			maxS, maxC = 6, 0
		}
		ns := verifC09U(t, maxS+1, "nsvc")
		seen := map[string]bool{}
		for i := 0; i < ns; i++ {
			k := verifC09Item{Role: "svc", Node: it.Node, Peer: it.Peer, Tag: rapid.IntRange(0, 3).Draw(t, "ktag")}
			k.Svc = verifC09Pick(t, verifC09Svcs, "ksvc")
			k.ID = verifC09GenSvcID(t, k.Svc)
			if kind == "nodesvcs" && seen[k.ID] {
				continue // map keyed by service ID
			}
			seen[k.ID] = true
			it.Kids = append(it.Kids, k)
		}
		nc := verifC09U(t, maxC+1, "nchk")
		for i := 0; i < nc; i++ {
			k := verifC09Item{Role: "chk", Node: it.Node, Peer: it.Peer, Tag: rapid.IntRange(0, 3).Draw(t, "ktag")}
			if rapid.Bool().Draw(t, "ksvccheck") {
				k.Svc = verifC09Pick(t, verifC09Svcs, "ksvc")
				k.ID = rapid.SampledFrom([]string{"c1", "c2", "c3"}).Draw(t, "kchk")
			} else {
				k.ID = "serfHealth"
			}
			it.Kids = append(it.Kids, k)
		}
	case "sinfo":
		it.Gw = rapid.SampledFrom(verifC09Gws).Draw(t, "gw")
		svc()
		it.NoNode = rapid.IntRange(0, 9).Draw(t, "nonode") < 3
		if !it.NoNode {
			node()
			it.ID = verifC09GenSvcID(t, it.Svc)
		}
	case "svcmap", "svcname":
		svc()
	case "gwsvc":
		it.Gw = rapid.SampledFrom(verifC09Gws).Draw(t, "gw")
		svc()
	case "pq", "pq1":
		it.Name = verifC09Pick(t, verifC09QNames, "qname")
		it.Tmpl = rapid.IntRange(0, 9).Draw(t, "tmpl") < 2
		it.Token = verifC09Pick(t, []string{"", "captured-secret"}, "qtoken")
		svc()
	case "token":
		it.Token = rapid.SampledFrom([]string{"secret-1", "secret-2"}).Draw(t, "secret")
	case "aclobj":
		it.Name = rapid.SampledFrom([]string{"alpha", "beta"}).Draw(t, "name")
	default:
		panic("C09 harness: no generator for kind " + kind)
	}
	return it
}

// verifC09Arrange forces adjacency patterns using the documented rule as the classifier (generation only).
func verifC09Arrange(pattern string, items []verifC09Item, unreadable func(*verifC09Item) bool, max int) []verifC09Item {
	var u, r []verifC09Item
	for i := range items {
		if unreadable(&items[i]) {
			u = append(u, items[i])
		} else {
			r = append(r, items[i])
		}
	}
	var out []verifC09Item
	switch pattern {
	case "unreadable-first":
		out = append(append(out, u...), r...)
	case "unreadable-last":
		out = append(append(out, r...), u...)
	case "unreadable-run":
		h := len(r) / 2
		out = append(append(append(out, r[:h]...), u...), r[h:]...)
	case "dup-adjacent":
		for i := range items {
			out = append(out, items[i])
			if unreadable(&items[i]) {
				d := items[i]
				d.Kids = append([]verifC09Item(nil), d.Kids...)
				out = append(out, d)
			}
		}
	case "alternate":
		for i := 0; i < len(u) || i < len(r); i++ {
			if i < len(u) {
				out = append(out, u[i])
			}
			if i < len(r) {
				out = append(out, r[i])
			}
		}
	default:
		return items
	}
	if len(out) > max {
		out = out[:max]
	}
	return out
}

func verifC09Gen(t *rapid.T) *verifC09Subject {
	names := verifC09ArmNames()
	arm := verifC09Arms[verifC09Pick(t, names, "arm")]
	s := &verifC09Subject{Op: "filter", Arm: arm.name}
	var kinds []string
	for _, g := range arm.groups {
		kinds = append(kinds, g.kind)
	}
	s.Auth = verifC09GenAuth(t, kinds)
	az, err := verifC09BuildAuthz(s.Auth)
	if err != nil {
		t.Fatalf("C09 harness: generated policy rejected: %v", err)
	}
	s.Pattern = verifC09Pick(t, []string{"asis", "asis", "unreadable-first", "unreadable-last", "unreadable-run", "dup-adjacent", "alternate"}, "pattern")
	genGroup := func(key, kind string) verifC09Group {
		g := verifC09Group{Key: key, Kind: kind}
		n := arm.minN + verifC09U(t, arm.maxN-arm.minN+1, "n")
		if arm.maxN > 1 && n == 0 && verifC09U(t, 4, "empty") != 0 {
			n = 1 + verifC09U(t, arm.maxN, "n2") // empty lists matter, but one in four of them is enough
		}
		seen := map[string]bool{}
		for i := 0; i < n; i++ {
			it := verifC09GenItem(t, kind)
			if kind == "svcmap" {
				if seen[it.Svc] {
					continue
				}
				seen[it.Svc] = true
			}
			g.Items = append(g.Items, it)
		}
		mapOrdered := kind == "svcmap"
		if !mapOrdered {
			g.Items = verifC09Arrange(s.Pattern, g.Items, func(it *verifC09Item) bool {
				return verifC09RuleVerdict(kind, it, nil, az) != verifC09Keep
			}, arm.maxN)
		}
		if kind == "nodeinfo" || kind == "nodesvclist" {
			for i := range g.Items {
				it := &g.Items[i]
				var sv, ch []verifC09Item
				for _, k := range it.Kids {
					if k.Role == "chk" {
						ch = append(ch, k)
					} else {
						sv = append(sv, k)
					}
				}
				un := func(k *verifC09Item) bool { return verifC09RuleVerdict(kind, it, k, az) != verifC09Keep }
				it.Kids = append(verifC09Arrange(s.Pattern, sv, un, 8), verifC09Arrange(s.Pattern, ch, un, 8)...)
			}
		}
		return g
	}
	if len(arm.groups) == 1 && strings.HasPrefix(arm.groups[0].key, "*") {
		univ := verifC09DCs
		if arm.groups[0].key == "*peer" {
			univ = verifC09PeerKeys
		}
		ng := verifC09U(t, len(univ)+1, "ngroups")
		keys := rapid.Permutation(univ).Draw(t, "keys")[:ng]
		for _, k := range keys {
			g := genGroup(k, arm.groups[0].kind)
			s.Groups = append(s.Groups, g)
		}
	} else {
		for _, gs := range arm.groups {
			s.Groups = append(s.Groups, genGroup(gs.key, gs.kind))
		}
	}
	return s
}

const verifC09MapReps = 48

func TestVerifC09Filter(t *testing.T) {
	rec := verifkit.For("C09")
	defer rec.Flush()
	verifC09CheckArms(t)
	rapid.Check(t, func(t *rapid.T) {
		c := rec.NewCase()
		defer c.GuardPanic(t, "C09/panic")
		s := verifC09Gen(t)
		c.Op(s)
		reps := 1
		if verifC09Arms[s.Arm].mapArm {
			reps = verifC09MapReps
		}
		verifC09Run(t, c, s, reps)
		c.Done()
	})
}

// TestVerifC09Replay re-executes saved filter cases (replay files and the witness corpus) without rapid.
func TestVerifC09Replay(t *testing.T) {
	rec := verifkit.For("C09")
	defer rec.Flush()
	verifC09CheckArms(t)
	for _, path := range verifkit.ReplayFiles("C09") {
		rp, err := verifkit.LoadReplay(path)
		if err != nil {
			t.Fatalf("%v", err)
		}
		for _, raw := range rp.Ops {
			var probe struct {
				Op string `json:"op"`
			}
			if json.Unmarshal(raw, &probe) != nil || probe.Op != "filter" {
				continue // ops of the agent/consul part of C09 are replayed there
			}
			var s verifC09Subject
			if err := json.Unmarshal(raw, &s); err != nil {
				t.Fatalf("%s: %v", path, err)
			}
			arm := verifC09Arms[s.Arm]
			if arm == nil {
				t.Fatalf("%s: unknown arm %q", path, s.Arm)
			}
			// normalise group kinds from the arm table (older files may omit them)
			for gi := range s.Groups {
				if s.Groups[gi].Kind == "" {
					gs := arm.groups[0]
					if gi < len(arm.groups) {
						gs = arm.groups[gi]
					}
					s.Groups[gi].Kind = gs.kind
				}
			}
			c := rec.NewCase()
			c.Op(&s)
			c.Label("replay")
			reps := s.Reps
			if reps == 0 {
				reps = 1
				if arm.mapArm {
					reps = 400 // map iteration order: repeat so that an order-dependent outcome reproduces with overwhelming probability
				}
			}
			func() {
				defer c.GuardPanic(t, "C09/panic")
				verifC09Run(t, c, &s, reps)
			}()
			c.Done()
		}
	}
}

var _ = sort.Strings
