package aclfilter

// C09 (part a) — spec types, authorizer construction and object builders.
//
// A generated case is a verifC09Subject: which arm of Filter.Filter is exercised, an authorizer
// description (real policy authorizer built from generated HCL rules, chained with a default), and a
// small tree  groups -> items -> kids  that the arm's builder turns into the real response object.
// Every build creates entirely fresh objects, so a filter run can never influence another run.

import (
	"fmt"
	"strconv"
	"strings"

	"github.com/hashicorp/consul/acl"
	"github.com/hashicorp/consul/agent/structs"
	ctypes "github.com/hashicorp/consul/types"
)

type verifC09Rule struct {
	Res    string `json:"res"` // node | service | session | query | acl
	Prefix bool   `json:"prefix,omitempty"`
	Name   string `json:"name"`
	Access string `json:"access"`        // read | write | deny
	Ixn    string `json:"ixn,omitempty"` // service rules only: intentions = "..."
}

type verifC09Auth struct {
	Kind     string           `json:"kind"`              // policy | allow-all | deny-all | manage-all
	Default  string           `json:"default,omitempty"` // allow | deny (kind=policy)
	Policies [][]verifC09Rule `json:"policies,omitempty"`
}

type verifC09Item struct {
	Node    string         `json:"node,omitempty"`
	Peer    string         `json:"peer,omitempty"`
	Svc     string         `json:"svc,omitempty"`
	ID      string         `json:"id,omitempty"`
	Gw      string         `json:"gw,omitempty"`
	Src     string         `json:"src,omitempty"`
	SrcPeer string         `json:"srcpeer,omitempty"`
	Dst     string         `json:"dst,omitempty"`
	Name    string         `json:"name,omitempty"`
	Token   string         `json:"token,omitempty"`
	Tmpl    bool           `json:"tmpl,omitempty"`
	NoNode  bool           `json:"nonode,omitempty"`
	Tag     int            `json:"tag"`
	Role    string         `json:"role,omitempty"` // kids: svc | chk
	Kids    []verifC09Item `json:"kids,omitempty"`

	redacted bool // set by prune only (expected objects)
}

type verifC09Group struct {
	Key   string         `json:"key"`
	Kind  string         `json:"kind"`
	Items []verifC09Item `json:"items"`
}

type verifC09Subject struct {
	Op      string          `json:"op"` // "filter"
	Arm     string          `json:"arm"`
	Pattern string          `json:"pattern,omitempty"`
	Reps    int             `json:"reps,omitempty"` // replay: number of repetitions of the full run (map-order robustness)
	Auth    verifC09Auth    `json:"auth"`
	Groups  []verifC09Group `json:"groups"`
}

func (s *verifC09Subject) clone() *verifC09Subject {
	o := *s
	o.Groups = make([]verifC09Group, len(s.Groups))
	for gi, g := range s.Groups {
		ng := g
		ng.Items = make([]verifC09Item, len(g.Items))
		for ii, it := range g.Items {
			nit := it
			nit.Kids = append([]verifC09Item(nil), it.Kids...)
			ng.Items[ii] = nit
		}
		o.Groups[gi] = ng
	}
	return &o
}

// ---- authorizer

func verifC09RenderPolicy(rules []verifC09Rule) string {
	var sb strings.Builder
	for _, r := range rules {
		if r.Res == "acl" {
			fmt.Fprintf(&sb, "acl = %q\n", r.Access)
			continue
		}
		kw := r.Res
		if r.Prefix {
			kw += "_prefix"
		}
		fmt.Fprintf(&sb, "%s %q { policy = %q", kw, r.Name, r.Access)
		if r.Res == "service" && r.Ixn != "" {
			fmt.Fprintf(&sb, " intentions = %q", r.Ixn)
		}
		sb.WriteString(" }\n")
	}
	return sb.String()
}

func verifC09BuildAuthz(a verifC09Auth) (acl.Authorizer, error) {
	switch a.Kind {
	case "allow-all":
		return acl.AllowAll(), nil
	case "deny-all":
		return acl.DenyAll(), nil
	case "manage-all":
		return acl.ManageAll(), nil
	}
	var pols []*acl.Policy
	for _, rules := range a.Policies {
		p, err := acl.NewPolicyFromSource(verifC09RenderPolicy(rules), nil, nil)
		if err != nil {
			return nil, fmt.Errorf("policy %q: %w", verifC09RenderPolicy(rules), err)
		}
		pols = append(pols, p)
	}
	def := acl.DenyAll()
	if a.Default == "allow" {
		def = acl.AllowAll()
	}
	return acl.NewPolicyAuthorizerWithDefaults(def, pols, nil)
}

// ---- element builders. Every pointer that could be a live state-store object in production is
// registered as a "leaf" so that M5 can verify the filter never writes through it.

type verifC09B struct {
	leaves []any
	norm   bool // expected objects: empty keyed groups are omitted (the filter drops empty map entries)
}

func (b *verifC09B) keep(p any) { b.leaves = append(b.leaves, p) }

func (b *verifC09B) node(it verifC09Item) *structs.Node {
	n := &structs.Node{ID: ctypes.NodeID("id-" + it.Node), Node: it.Node, PeerName: it.Peer,
		Address: fmt.Sprintf("10.0.0.%d", it.Tag), Meta: map[string]string{"tag": strconv.Itoa(it.Tag)}}
	b.keep(n)
	return n
}

func (b *verifC09B) nsvc(it verifC09Item) *structs.NodeService {
	s := &structs.NodeService{ID: it.ID, Service: it.Svc, PeerName: it.Peer, Port: 8000 + it.Tag, Tags: []string{"t" + strconv.Itoa(it.Tag)}}
	b.keep(s)
	return s
}

func (b *verifC09B) check(it verifC09Item) *structs.HealthCheck {
	sid := ""
	if it.Svc != "" {
		sid = it.Svc + "-1"
	}
	h := &structs.HealthCheck{Node: it.Node, CheckID: ctypes.CheckID(it.ID), Name: it.ID, Status: "passing", ServiceName: it.Svc, ServiceID: sid,
		PeerName: it.Peer, Notes: "tag" + strconv.Itoa(it.Tag), ServiceTags: []string{"x"}}
	b.keep(h)
	return h
}

func (b *verifC09B) csn(it verifC09Item) structs.CheckServiceNode {
	return structs.CheckServiceNode{Node: b.node(it), Service: b.nsvc(it),
		Checks: structs.HealthChecks{b.check(verifC09Item{Node: it.Node, Peer: it.Peer, Svc: it.Svc, ID: "chk-" + it.ID, Tag: it.Tag})}}
}

func (b *verifC09B) csns(items []verifC09Item) structs.CheckServiceNodes {
	out := make(structs.CheckServiceNodes, 0, len(items))
	for _, it := range items {
		out = append(out, b.csn(it))
	}
	return out
}

func (b *verifC09B) gwsvc(it verifC09Item) *structs.GatewayService {
	g := &structs.GatewayService{Gateway: structs.ServiceName{Name: it.Gw}, Service: structs.ServiceName{Name: it.Svc},
		GatewayKind: structs.ServiceKindTerminatingGateway, Port: 9000 + it.Tag, Hosts: []string{"h" + strconv.Itoa(it.Tag)}}
	b.keep(g)
	return g
}

func (b *verifC09B) gwsvcs(items []verifC09Item) structs.GatewayServices {
	out := make(structs.GatewayServices, 0, len(items))
	for _, it := range items {
		out = append(out, b.gwsvc(it))
	}
	return out
}

func (b *verifC09B) nodeinfo(it verifC09Item) *structs.NodeInfo {
	ni := &structs.NodeInfo{ID: ctypes.NodeID("id-" + it.Node), Node: it.Node, PeerName: it.Peer, Address: fmt.Sprintf("10.0.0.%d", it.Tag)}
	for _, k := range it.Kids {
		if k.Role == "chk" {
			ni.Checks = append(ni.Checks, b.check(k))
		} else {
			ni.Services = append(ni.Services, b.nsvc(k))
		}
	}
	return ni
}

func (b *verifC09B) nodedump(items []verifC09Item) structs.NodeDump {
	out := make(structs.NodeDump, 0, len(items))
	for _, it := range items {
		out = append(out, b.nodeinfo(it))
	}
	return out
}

func (b *verifC09B) pq(it verifC09Item) *structs.PreparedQuery {
	q := &structs.PreparedQuery{ID: "pq-" + strconv.Itoa(it.Tag), Name: it.Name, Token: it.Token, Session: "sess" + strconv.Itoa(it.Tag),
		Service: structs.ServiceQuery{Service: it.Svc, Tags: []string{"a", "b"}}}
	if it.Tmpl {
		q.Template.Type = structs.QueryTemplateTypeNamePrefixMatch
	}
	if it.redacted {
		q.Token = RedactedToken
	}
	b.keep(q)
	return q
}

func (b *verifC09B) token(it verifC09Item) *structs.ACLToken {
	t := &structs.ACLToken{AccessorID: "acc-" + strconv.Itoa(it.Tag), SecretID: it.Token, Description: "d" + strconv.Itoa(it.Tag),
		Policies: []structs.ACLTokenPolicyLink{{ID: "p1", Name: "pol"}}, Hash: []byte{1, 2, byte(it.Tag)}}
	if it.redacted {
		t.SecretID = RedactedToken
	}
	b.keep(t)
	return t
}

func (b *verifC09B) stub(it verifC09Item) *structs.ACLTokenListStub {
	t := &structs.ACLTokenListStub{AccessorID: "acc-" + strconv.Itoa(it.Tag), SecretID: it.Token, Description: "d" + strconv.Itoa(it.Tag),
		Policies: []structs.ACLTokenPolicyLink{{ID: "p1", Name: "pol"}}, Hash: []byte{1, 2, byte(it.Tag)}}
	if it.redacted {
		t.SecretID = RedactedToken
	}
	b.keep(t)
	return t
}

func (b *verifC09B) policy(it verifC09Item) *structs.ACLPolicy {
	p := &structs.ACLPolicy{ID: "pol-" + strconv.Itoa(it.Tag), Name: it.Name, Rules: `key "x" { policy = "read" }`, Datacenters: []string{"dc1"}}
	b.keep(p)
	return p
}

func (b *verifC09B) role(it verifC09Item) *structs.ACLRole {
	r := &structs.ACLRole{ID: "role-" + strconv.Itoa(it.Tag), Name: it.Name, Policies: []structs.ACLRolePolicyLink{{ID: "p1"}}}
	b.keep(r)
	return r
}

func (b *verifC09B) brule(it verifC09Item) *structs.ACLBindingRule {
	r := &structs.ACLBindingRule{ID: "br-" + strconv.Itoa(it.Tag), AuthMethod: it.Name, BindType: structs.BindingRuleBindTypeService, BindName: "web"}
	b.keep(r)
	return r
}

func (b *verifC09B) method(it verifC09Item) *structs.ACLAuthMethod {
	m := &structs.ACLAuthMethod{Name: it.Name + strconv.Itoa(it.Tag), Type: "jwt", Config: map[string]interface{}{"k": it.Tag}}
	b.keep(m)
	return m
}

func verifC09SessionID(tag int) string {
	return fmt.Sprintf("aaaaaaaa-bbbb-cccc-dddd-00000000000%d", tag%10)
}

// verifC09First returns the items of group gi (nil if the subject has fewer groups).
func verifC09Items(s *verifC09Subject, gi int) []verifC09Item {
	if gi < len(s.Groups) {
		return s.Groups[gi].Items
	}
	return nil
}

func verifC09One(s *verifC09Subject) *verifC09Item {
	its := verifC09Items(s, 0)
	if len(its) == 0 {
		return nil
	}
	return &its[0]
}
