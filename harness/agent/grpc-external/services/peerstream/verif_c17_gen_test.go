package peerstream

// C17 (importing side) — generators, the two property tests and the replay test.
//
// The generator keeps a model of the EXPORTER's catalog (nodes with node-level data and node-level checks,
// service instances with service-level checks) and mutates it in small steps (add / remove / move / replace an
// instance, edit service or node fields, add / remove / flip checks, clear a service, change the export set).
// A snapshot is the projection of that catalog on one service name — what CheckServiceNodes returns there.
//
//   - mode "consistent": ONE exporter catalog for all services. After a few mutations every affected service is
//     delivered (in a drawn order, the list update at a drawn position) and then full equality is asserted.
//   - mode "arbitrary": an INDEPENDENT exporter catalog per service name, so node-level data of a node differs
//     between the snapshots of two services; only the per-update clauses are asserted.
//
// check shapes: "flat" = what today's exporter sends (flattenChecks: at most one `<id>:overall-check` per instance,
// no node-level checks); "raw" = node-level and several service-level checks (what the reconciler is written for
// and what upstream's own table tests feed it).

import (
	"encoding/json"
	"fmt"
	"path/filepath"
	"sort"
	"strings"
	"testing"

	"github.com/hashicorp/consul/agent/structs"
	"github.com/hashicorp/consul/internal/verifkit"
	"pgregory.net/rapid"
)

var (
	verifC17Services = []string{"web", "api", "db", "web-sidecar-proxy", "api-sidecar-proxy"}
	verifC17NodeNms  = []string{"n1", "n2", "n3"}
	verifC17Statuses = []string{"passing", "warning", "critical", "maintenance"}
)

type verifC17Exporter struct {
	Nodes map[string]*verifC17Node // node-level data incl. node checks; a node exists while the model mentions it
	Insts map[string]*verifC17Inst // key node/sid
	flat  bool
	nloc  bool
}

func verifC17NewExporter(flat bool) *verifC17Exporter {
	return &verifC17Exporter{Nodes: map[string]*verifC17Node{}, Insts: map[string]*verifC17Inst{}, flat: flat,
		nloc: verifkit.EnvInt("VERIF_C17_NODE_LOCALITY", 0) == 1}
}

func (x *verifC17Exporter) instKeys(svc string) []string {
	var out []string
	for k, i := range x.Insts {
		if svc == "" || i.Service == svc {
			out = append(out, k)
		}
	}
	sort.Strings(out)
	return out
}

func (x *verifC17Exporter) services() []string {
	m := map[string]bool{}
	for _, i := range x.Insts {
		m[i.Service] = true
	}
	return verifC17Keys(m)
}

func (x *verifC17Exporter) servicesOnNode(n string) []string {
	m := map[string]bool{}
	for _, i := range x.Insts {
		if i.Node == n {
			m[i.Service] = true
		}
	}
	return verifC17Keys(m)
}

// snapshot: CheckServiceNodes(svc) of the exporter (deep copy).
func (x *verifC17Exporter) snapshot(svc string) *verifC17Snap {
	s := &verifC17Snap{}
	seen := map[string]bool{}
	for _, k := range x.instKeys(svc) {
		i := *x.Insts[k]
		b, _ := json.Marshal(i)
		var cp verifC17Inst
		_ = json.Unmarshal(b, &cp)
		s.Insts = append(s.Insts, cp)
		if !seen[i.Node] {
			seen[i.Node] = true
			nb, _ := json.Marshal(x.Nodes[i.Node])
			var ncp verifC17Node
			_ = json.Unmarshal(nb, &ncp)
			s.Nodes = append(s.Nodes, ncp)
		}
	}
	return s
}

func verifC17GenCheckFields(t *rapid.T, c *verifC17Check) {
	c.Status = rapid.SampledFrom(verifC17Statuses).Draw(t, "status")
	c.Output = rapid.SampledFrom([]string{"", "ok", "timeout"}).Draw(t, "output")
	c.Notes = rapid.SampledFrom([]string{"", "note"}).Draw(t, "notes")
}

func (x *verifC17Exporter) ensureNode(t *rapid.T, name string) *verifC17Node {
	if n, ok := x.Nodes[name]; ok {
		return n
	}
	n := &verifC17Node{Name: name, ID: verifC17NodeIDs[name], DC: "dc-exp"}
	x.editNode(t, n)
	if !x.flat {
		if rapid.IntRange(0, 9).Draw(t, "serf") < 7 {
			c := verifC17Check{ID: "serfHealth", Name: "Serf Health Status"}
			verifC17GenCheckFields(t, &c)
			n.Checks = append(n.Checks, c)
		}
	}
	x.Nodes[name] = n
	return n
}

func (x *verifC17Exporter) editNode(t *rapid.T, n *verifC17Node) {
	n.Address = rapid.SampledFrom([]string{"10.0.0.1", "10.0.0.2", ""}).Draw(t, "naddr")
	switch rapid.IntRange(0, 2).Draw(t, "nmeta") {
	case 0:
		n.Meta = nil
	case 1:
		n.Meta = map[string]string{"rack": "r1"}
	case 2:
		n.Meta = map[string]string{"rack": "r2", "os": "linux"}
	}
	if rapid.Bool().Draw(t, "ntaddr") {
		n.TAddr = map[string]string{"lan": n.Address, "wan": "198.51.100.7"}
	} else {
		n.TAddr = nil
	}
	if x.nloc {
		n.Locality = rapid.SampledFrom([]string{"", "us-east"}).Draw(t, "nlocality")
	}
}

func (x *verifC17Exporter) editInst(t *rapid.T, i *verifC17Inst) {
	i.Tags = rapid.SampledFrom([][]string{nil, {"v1"}, {"v1", "primary"}, {"v2"}}).Draw(t, "tags")
	i.Address = rapid.SampledFrom([]string{"", "10.1.0.5", "10.1.0.6"}).Draw(t, "saddr")
	i.Port = rapid.SampledFrom([]int{0, 8080, 9090}).Draw(t, "port")
	i.Meta = rapid.SampledFrom([]map[string]string{nil, {"env": "prod"}, {"env": "dev", "team": "x"}}).Draw(t, "smeta")
	i.WPass = rapid.SampledFrom([]int{1, 10}).Draw(t, "wpass")
	i.WWarn = rapid.SampledFrom([]int{0, 1}).Draw(t, "wwarn")
	i.Locality = rapid.SampledFrom([]string{"", "us-west"}).Draw(t, "slocality")
	if i.Kind == "" {
		i.ETO = rapid.Bool().Draw(t, "eto")
	} else {
		i.Protocol = rapid.SampledFrom([]string{"tcp", "http"}).Draw(t, "protocol")
	}
}

func (x *verifC17Exporter) sidsFor(svc string) []string {
	if strings.HasSuffix(svc, structs.SidecarProxySuffix) {
		return []string{svc, svc + "-instance-0", svc + "-instance-1"} // createDiscoChainHealth's IDs
	}
	return []string{svc + "-1", svc + "-2", svc}
}

func (x *verifC17Exporter) addInst(t *rapid.T, svc, node, sid string) {
	x.ensureNode(t, node)
	i := &verifC17Inst{Node: node, ID: sid, Service: svc}
	if strings.HasSuffix(svc, structs.SidecarProxySuffix) {
		i.Kind = string(structs.ServiceKindConnectProxy)
		i.Dest = strings.TrimSuffix(svc, structs.SidecarProxySuffix)
	}
	x.editInst(t, i)
	if x.flat {
		if rapid.IntRange(0, 9).Draw(t, "hascheck") < 8 {
			c := verifC17Check{ID: sid + ":overall-check", Name: "overall-check", NoSvcName: false}
			c.Status = rapid.SampledFrom(verifC17Statuses).Draw(t, "status")
			i.Checks = []verifC17Check{c}
		}
	} else {
		n := rapid.IntRange(0, 2).Draw(t, "nsvcchecks")
		for j := 0; j < n; j++ {
			c := verifC17Check{ID: fmt.Sprintf("%s:c%d", sid, j+1), Name: fmt.Sprintf("check %d", j+1), NoSvcName: rapid.IntRange(0, 4).Draw(t, "nosvcname") == 0}
			verifC17GenCheckFields(t, &c)
			i.Checks = append(i.Checks, c)
		}
	}
	x.Insts[node+"/"+sid] = i
}

func (x *verifC17Exporter) delInst(k string) {
	n := x.Insts[k].Node
	delete(x.Insts, k)
	if len(x.servicesOnNode(n)) == 0 {
		delete(x.Nodes, n) // the exporter forgets node-level data of a node nobody uses (it may come back different)
	}
}

// mutate applies one drawn mutation restricted to service svc ("" = any) and returns the affected service names.
func (x *verifC17Exporter) mutate(t *rapid.T, only string) (string, []string) {
	pickSvc := func() string {
		if only != "" {
			return only
		}
		// prefer services that already have instances, so that updates meet stored state
		if have := x.services(); len(have) > 0 && rapid.IntRange(0, 9).Draw(t, "existing") < 6 {
			return rapid.SampledFrom(have).Draw(t, "svc")
		}
		return rapid.SampledFrom(verifC17Services).Draw(t, "svc")
	}
	affectedByNode := func(n string) []string {
		if only != "" {
			return []string{only}
		}
		return x.servicesOnNode(n)
	}
	kinds := []string{"add", "add", "add", "del", "move", "replace", "edit-inst", "edit-node", "node-check", "svc-check", "clear", "add"}
	kind := rapid.SampledFrom(kinds).Draw(t, "mutation")
	svc := pickSvc()
	keys := x.instKeys(svc)
	if len(keys) == 0 && kind != "add" {
		kind = "add"
	}
	switch kind {
	case "add":
		node := rapid.SampledFrom(verifC17NodeNms).Draw(t, "node")
		sid := rapid.SampledFrom(x.sidsFor(svc)).Draw(t, "sid")
		_, existed := x.Nodes[node]
		x.addInst(t, svc, node, sid)
		if existed {
			return "add", []string{svc}
		}
		return "add", []string{svc}
	case "del":
		k := rapid.SampledFrom(keys).Draw(t, "inst")
		x.delInst(k)
		return "del", []string{svc}
	case "move":
		k := rapid.SampledFrom(keys).Draw(t, "inst")
		old := *x.Insts[k]
		node := rapid.SampledFrom(verifC17NodeNms).Draw(t, "node")
		if node == old.Node {
			return "noop", nil
		}
		x.delInst(k)
		x.ensureNode(t, node)
		old.Node = node
		x.Insts[node+"/"+old.ID] = &old
		return "move", []string{svc}
	case "replace":
		k := rapid.SampledFrom(keys).Draw(t, "inst")
		old := x.Insts[k]
		node := old.Node
		sid := rapid.SampledFrom(x.sidsFor(svc)).Draw(t, "sid")
		if sid == old.ID {
			return "noop", nil
		}
		delete(x.Insts, k)
		x.addInst(t, svc, node, sid)
		return "replace", []string{svc}
	case "edit-inst":
		k := rapid.SampledFrom(keys).Draw(t, "inst")
		x.editInst(t, x.Insts[k])
		return "edit-inst", []string{svc}
	case "edit-node":
		k := rapid.SampledFrom(keys).Draw(t, "inst")
		n := x.Nodes[x.Insts[k].Node]
		x.editNode(t, n)
		return "edit-node", affectedByNode(n.Name)
	case "node-check":
		k := rapid.SampledFrom(keys).Draw(t, "inst")
		n := x.Nodes[x.Insts[k].Node]
		if x.flat {
			return "noop", nil
		}
		id := rapid.SampledFrom([]string{"serfHealth", "nc1"}).Draw(t, "ncid")
		pos := -1
		for j, c := range n.Checks {
			if c.ID == id {
				pos = j
			}
		}
		if pos >= 0 && rapid.Bool().Draw(t, "ncdel") {
			n.Checks = append(append([]verifC17Check{}, n.Checks[:pos]...), n.Checks[pos+1:]...)
			return "node-check-del", affectedByNode(n.Name)
		}
		c := verifC17Check{ID: id, Name: "node check " + id}
		verifC17GenCheckFields(t, &c)
		if pos >= 0 {
			n.Checks[pos] = c
		} else {
			n.Checks = append(n.Checks, c)
		}
		return "node-check-set", affectedByNode(n.Name)
	case "svc-check":
		k := rapid.SampledFrom(keys).Draw(t, "inst")
		i := x.Insts[k]
		if x.flat {
			if len(i.Checks) == 1 && rapid.IntRange(0, 4).Draw(t, "dropcheck") > 0 {
				i.Checks[0].Status = rapid.SampledFrom(verifC17Statuses).Draw(t, "status")
			} else if len(i.Checks) == 1 {
				i.Checks = nil
			} else {
				i.Checks = []verifC17Check{{ID: i.ID + ":overall-check", Name: "overall-check", Status: rapid.SampledFrom(verifC17Statuses).Draw(t, "status")}}
			}
			return "svc-check", []string{svc}
		}
		id := fmt.Sprintf("%s:c%d", i.ID, rapid.IntRange(1, 2).Draw(t, "scid"))
		pos := -1
		for j, c := range i.Checks {
			if c.ID == id {
				pos = j
			}
		}
		if pos >= 0 && rapid.Bool().Draw(t, "scdel") {
			i.Checks = append(append([]verifC17Check{}, i.Checks[:pos]...), i.Checks[pos+1:]...)
			return "svc-check-del", []string{svc}
		}
		c := verifC17Check{ID: id, Name: "check " + id}
		verifC17GenCheckFields(t, &c)
		if pos >= 0 {
			i.Checks[pos] = c
		} else {
			i.Checks = append(i.Checks, c)
		}
		return "svc-check-set", []string{svc}
	case "clear":
		for _, k := range keys {
			x.delInst(k)
		}
		return "clear", []string{svc}
	}
	return "noop", nil
}

// ---------------------------------------------------------------------------------------------
// seeding: local catalog, peerB, local config entries, KV, virtual IPs

func verifC17GenSeeds(t *rapid.T) []verifC17Op {
	var ops []verifC17Op
	if rapid.IntRange(0, 9).Draw(t, "vip") < 5 {
		ops = append(ops, verifC17Op{Kind: "vip"})
	}
	switch rapid.IntRange(0, 5).Draw(t, "gw") {
	case 0:
		ops = append(ops, verifC17Op{Kind: "cfg", CfgKind: structs.IngressGateway, CfgName: "ingress-gw"})
	case 1:
		ops = append(ops, verifC17Op{Kind: "cfg", CfgKind: structs.TerminatingGateway, CfgName: "term-gw"})
	}
	if rapid.Bool().Draw(t, "svcdefaults") {
		ops = append(ops, verifC17Op{Kind: "cfg", CfgKind: structs.ServiceDefaults, CfgName: "web"})
	}
	if rapid.Bool().Draw(t, "kv") {
		ops = append(ops, verifC17Op{Kind: "kv", Key: "web/n1"})
	}
	n := rapid.IntRange(2, 9).Draw(t, "nseeds")
	x := map[string]*verifC17Exporter{"": verifC17NewExporter(false), verifC17PeerB: verifC17NewExporter(false)}
	for j := 0; j < n; j++ {
		peer := rapid.SampledFrom([]string{"", "", verifC17PeerB}).Draw(t, "seedpeer")
		e := x[peer]
		node := rapid.SampledFrom(verifC17NodeNms).Draw(t, "node")
		nd := e.ensureNode(t, node)
		if peer == "" {
			nd.DC = "dc1"
		}
		seed := &verifC17Seed{Node: *nd, NodeChk: true}
		if rapid.IntRange(0, 9).Draw(t, "withsvc") < 8 {
			svc := rapid.SampledFrom(verifC17Services).Draw(t, "svc")
			sid := rapid.SampledFrom(e.sidsFor(svc)).Draw(t, "sid")
			e.addInst(t, svc, node, sid)
			cp := *e.Insts[node+"/"+sid]
			if peer == "" && cp.Kind != "" {
				// a local connect proxy as agents register it (no PeerMeta); keeps the local catalog realistic
				cp.Protocol = ""
			}
			seed.Inst = &cp
		}
		b, _ := json.Marshal(seed)
		var cp verifC17Seed
		_ = json.Unmarshal(b, &cp)
		ops = append(ops, verifC17Op{Kind: "seed", Peer: peer, Seed: &cp})
	}
	// Local data that hangs off a node NAME only (coordinates, sessions, session checks, the KV locks and prepared
	// queries a session owns): the imported catalogs reuse the same node names, and removing an imported node must
	// not touch any of it. Often make sure that the colliding local node exists at all.
	loc := x[""]
	if rapid.IntRange(0, 9).Draw(t, "twin") < 7 {
		node := rapid.SampledFrom(verifC17NodeNms).Draw(t, "twin-node")
		if _, ok := loc.Nodes[node]; !ok {
			nd := loc.ensureNode(t, node)
			nd.DC = "dc1"
			b, _ := json.Marshal(&verifC17Seed{Node: *nd, NodeChk: true})
			var cp verifC17Seed
			_ = json.Unmarshal(b, &cp)
			ops = append(ops, verifC17Op{Kind: "seed", Seed: &cp})
		}
	}
	nsess := 0
	for _, node := range verifC17Keys(loc.Nodes) {
		if rapid.IntRange(0, 9).Draw(t, "coord") < 6 {
			ops = append(ops, verifC17Op{Kind: "coord", Node: node})
		}
		for j, k := 0, rapid.IntRange(0, 2).Draw(t, "nsessions"); j < k; j++ {
			nsess++
			sid := fmt.Sprintf("5e551000-0000-4000-8000-00000000000%d", nsess)
			op := verifC17Op{Kind: "session", Node: node, Session: sid, Behavior: rapid.SampledFrom([]string{"release", "delete"}).Draw(t, "behavior")}
			for _, c := range loc.Nodes[node].Checks {
				// a session may only be bound to a check that is not critical
				if c.Status != "critical" && rapid.Bool().Draw(t, "bind-check") {
					op.Checks = append(op.Checks, c.ID)
				}
			}
			ops = append(ops, op)
			if rapid.IntRange(0, 9).Draw(t, "lock") < 8 {
				ops = append(ops, verifC17Op{Kind: "kvlock", Key: fmt.Sprintf("locks/%s/%d", node, j), Session: sid})
			}
			if rapid.IntRange(0, 9).Draw(t, "pq") < 4 {
				ops = append(ops, verifC17Op{Kind: "pq", Node: node, Session: sid, Key: fmt.Sprintf("9e000000-0000-4000-8000-00000000000%d", nsess)})
			}
		}
	}
	return ops
}

func verifC17DrawVia(t *rapid.T) (string, string) {
	via := "direct"
	if rapid.IntRange(0, 2).Draw(t, "via") == 0 {
		via = "process"
	}
	return via, rapid.SampledFrom([]string{"default", ""}).Draw(t, "partition")
}

func verifC17Run(f verifkit.F, c *verifkit.Case, st *verifC17State, op verifC17Op) {
	c.Op(op)
	verifC17Step(f, st, op)
}

// ---------------------------------------------------------------------------------------------
// property: arbitrary exporter (independent per-service catalogs)

func TestVerifC17ImportArbitrary(t *testing.T) {
	rec := verifkit.For("C17")
	defer rec.Flush()
	maxUpd := 8
	if verifkit.Thorough() {
		maxUpd = 14
	}
	rapid.Check(t, func(t *rapid.T) {
		c := rec.NewCase()
		defer c.GuardPanic(t, "C17/panic")
		st := verifC17NewState(t, c)
		c.Label("mode=arbitrary")
		for _, op := range verifC17GenSeeds(t) {
			verifC17Run(t, c, st, op)
		}
		flat := rapid.IntRange(0, 9).Draw(t, "flat") < 3
		c.Labelf("checks=%s", map[bool]string{true: "flat", false: "raw"}[flat])
		if st.vip {
			c.Label("vip=on")
		}
		models := map[string]*verifC17Exporter{} // peer/svc -> independent exporter catalog
		model := func(peer, svc string) *verifC17Exporter {
			k := peer + "/" + svc
			if models[k] == nil {
				models[k] = verifC17NewExporter(flat)
			}
			return models[k]
		}
		n := rapid.IntRange(4, maxUpd).Draw(t, "nupdates")
		for j := 0; j < n; j++ {
			peer := verifC17PeerA
			if rapid.IntRange(0, 9).Draw(t, "peer") < 2 {
				peer = verifC17PeerB
			}
			via, part := verifC17DrawVia(t)
			switch k := rapid.IntRange(0, 19).Draw(t, "opkind"); {
			case k < 2: // exported-service list
				list := rapid.SliceOfDistinct(rapid.SampledFrom(verifC17Services[:3]), func(s string) string { return s }).Draw(t, "list")
				if rapid.IntRange(0, 5).Draw(t, "listproxy") == 0 {
					list = append(list, "api-sidecar-proxy")
				}
				verifC17Run(t, c, st, verifC17Op{Kind: "list", Peer: peer, List: list, Via: via, Partition: part})
				for _, s := range verifC17Services {
					allowed := false
					for _, l := range list {
						if s == l || s == l+structs.SidecarProxySuffix {
							allowed = true
						}
					}
					if !allowed {
						delete(models, peer+"/"+s) // the importer dropped it; the exporter no longer exports it
					}
				}
			case k < 4: // delete
				svc := rapid.SampledFrom(verifC17Services).Draw(t, "svc")
				delete(models, peer+"/"+svc)
				op := verifC17Op{Kind: "update", Peer: peer, Svc: svc, Via: via, Partition: part}
				if rapid.Bool().Draw(t, "empty") {
					op.Snap = &verifC17Snap{}
				} else {
					op.Via = "direct"
				}
				verifC17Run(t, c, st, op)
			default:
				svc := rapid.SampledFrom(verifC17Services).Draw(t, "svc")
				// prefer services this peer was already sent, so that the snapshot meets stored state
				var have []string
				for _, s := range verifC17Services {
					if models[peer+"/"+s] != nil {
						have = append(have, s)
					}
				}
				if len(have) > 0 && rapid.IntRange(0, 9).Draw(t, "existing") < 6 {
					svc = rapid.SampledFrom(have).Draw(t, "svc")
				}
				m := model(peer, svc)
				nm := rapid.IntRange(0, 3).Draw(t, "nmut")
				for q := 0; q < nm; q++ {
					kind, _ := m.mutate(t, svc)
					c.Label("mutation:" + kind)
				}
				verifC17Run(t, c, st, verifC17Op{Kind: "update", Peer: peer, Svc: svc, Snap: m.snapshot(svc), Via: via, Partition: part})
			}
		}
		c.Done()
	})
}

// ---------------------------------------------------------------------------------------------
// property: consistent exporter (one catalog; full equality at quiescence)

func TestVerifC17ImportConsistent(t *testing.T) {
	rec := verifkit.For("C17")
	defer rec.Flush()
	maxRounds := 5
	if verifkit.Thorough() {
		maxRounds = 9
	}
	rapid.Check(t, func(t *rapid.T) {
		c := rec.NewCase()
		defer c.GuardPanic(t, "C17/panic")
		st := verifC17NewState(t, c)
		c.Label("mode=consistent")
		for _, op := range verifC17GenSeeds(t) {
			verifC17Run(t, c, st, op)
		}
		flat := rapid.IntRange(0, 9).Draw(t, "flat") < 4
		c.Labelf("checks=%s", map[bool]string{true: "flat", false: "raw"}[flat])
		if st.vip {
			c.Label("vip=on")
		}
		peer := verifC17PeerA
		x := verifC17NewExporter(flat)
		exported := map[string]bool{}
		for _, s := range verifC17Services {
			exported[s] = rapid.IntRange(0, 9).Draw(t, "exported") < 8
		}
		delivered := map[string]bool{} // services the importer may hold rows for
		listSent := false
		rounds := rapid.IntRange(2, maxRounds).Draw(t, "rounds")
		for r := 0; r < rounds; r++ {
			dirty := map[string]bool{}
			nm := rapid.IntRange(1, 4).Draw(t, "nmut")
			for q := 0; q < nm; q++ {
				kind, aff := x.mutate(t, "")
				c.Label("mutation:" + kind)
				for _, s := range aff {
					dirty[s] = true
				}
			}
			exportChanged := !listSent
			if rapid.IntRange(0, 5).Draw(t, "toggle") == 0 {
				s := rapid.SampledFrom(verifC17Services).Draw(t, "toggled")
				exported[s] = !exported[s]
				exportChanged = true
				dirty[s] = true
				c.Label("mutation:toggle-export")
			}
			// node-level changes make every service on the node dirty; the exporter also re-sends everything
			// that is exported and dirty. Deliveries happen in a drawn order.
			var deliver []string
			for _, s := range verifC17Keys(dirty) {
				if exported[s] {
					deliver = append(deliver, s)
				}
			}
			if rapid.IntRange(0, 3).Draw(t, "resend") == 0 {
				for _, s := range verifC17Services {
					if exported[s] && !dirty[s] {
						deliver = append(deliver, s) // unchanged re-send
					}
				}
			}
			deliver = rapid.Permutation(deliver).Draw(t, "order")
			var list []string
			for _, s := range verifC17Services[:3] {
				if exported[s] {
					list = append(list, s)
				}
			}
			// sidecars are exported as part of their service (the list never names them) — but only while the
			// service itself is exported; model that: sidecar exported <=> exported[sidecar] && exported[base].
			eff := func(s string) bool {
				if strings.HasSuffix(s, structs.SidecarProxySuffix) {
					return exported[s] && exported[strings.TrimSuffix(s, structs.SidecarProxySuffix)]
				}
				return exported[s]
			}
			sendList := exportChanged || rapid.IntRange(0, 3).Draw(t, "relist") == 0
			listAt := rapid.IntRange(0, len(deliver)).Draw(t, "listpos")
			for j := 0; j <= len(deliver); j++ {
				if sendList && j == listAt {
					via, part := verifC17DrawVia(t)
					verifC17Run(t, c, st, verifC17Op{Kind: "list", Peer: peer, List: list, Via: via, Partition: part})
					listSent = true
				}
				if j == len(deliver) {
					break
				}
				s := deliver[j]
				via, part := verifC17DrawVia(t)
				snap := x.snapshot(s)
				if !eff(s) {
					snap = &verifC17Snap{} // a sidecar whose service is no longer exported: the exporter sends an empty set
				}
				verifC17Run(t, c, st, verifC17Op{Kind: "update", Peer: peer, Svc: s, Snap: snap, Via: via, Partition: part})
				delivered[s] = true
			}
			// services that are not exported (any more) but were delivered earlier: pruned by the list for plain
			// services; for sidecars of still-listed services the exporter sends an empty update.
			for _, s := range verifC17Services {
				if !eff(s) && delivered[s] {
					base := strings.TrimSuffix(s, structs.SidecarProxySuffix)
					if s != base && exported[base] {
						via, part := verifC17DrawVia(t)
						verifC17Run(t, c, st, verifC17Op{Kind: "update", Peer: peer, Svc: s, Snap: &verifC17Snap{}, Via: via, Partition: part})
					}
					delivered[s] = false
				}
			}
			// quiescence: everything exported was delivered against the current catalog?
			quiet := listSent
			expect := map[string]*verifC17Snap{}
			for _, s := range verifC17Services {
				if eff(s) {
					expect[s] = x.snapshot(s)
					if len(expect[s].Insts) > 0 && !delivered[s] {
						quiet = false
					}
				}
			}
			// a service that is exported, has instances, is not dirty and was never delivered is not in sync yet
			if quiet {
				c.Label("quiescent-check")
				verifC17Run(t, c, st, verifC17Op{Kind: "quiesce", Peer: peer, Expect: expect})
			} else {
				// bring the importer up to date so that later rounds start from a synchronised state
				for _, s := range verifC17Services {
					if eff(s) && !delivered[s] && len(expect[s].Insts) > 0 {
						via, part := verifC17DrawVia(t)
						verifC17Run(t, c, st, verifC17Op{Kind: "update", Peer: peer, Svc: s, Snap: x.snapshot(s), Via: via, Partition: part})
						delivered[s] = true
					}
				}
				if !listSent {
					via, part := verifC17DrawVia(t)
					verifC17Run(t, c, st, verifC17Op{Kind: "list", Peer: peer, List: list, Via: via, Partition: part})
					listSent = true
				}
				c.Label("quiescent-check")
				verifC17Run(t, c, st, verifC17Op{Kind: "quiesce", Peer: peer, Expect: expect})
			}
		}
		c.Done()
	})
}

// ---------------------------------------------------------------------------------------------
// replay

func TestVerifC17Replay(t *testing.T) {
	rec := verifkit.For("C17")
	defer rec.Flush()
	for _, path := range verifkit.ReplayFiles("C17") {
		rp, err := verifkit.LoadReplay(path)
		if err != nil {
			t.Fatalf("%v", err)
		}
		if len(rp.Ops) == 0 {
			continue
		}
		var probe struct {
			Kind string `json:"kind"`
		}
		if err := json.Unmarshal(rp.Ops[0], &probe); err != nil || strings.HasPrefix(probe.Kind, "x-") {
			continue // a replay of the exporting-side check (package state)
		}
		t.Run(filepath.Base(path), func(t *testing.T) {
			t.Logf("replaying %s (%d ops)", path, len(rp.Ops))
			c := rec.NewCase()
			c.Label("replay")
			defer c.GuardPanic(t, "C17/panic")
			if strings.HasPrefix(probe.Kind, "s-") { // the subscription-manager family
				var ops []verifC17SOp
				for _, raw := range rp.Ops {
					var op verifC17SOp
					if err := json.Unmarshal(raw, &op); err != nil {
						t.Fatalf("%s: %v", path, err)
					}
					ops = append(ops, op)
				}
				verifC17SReplay(t, c, ops)
				c.Done()
				return
			}
			st := verifC17NewState(t, c)
			for _, raw := range rp.Ops {
				var op verifC17Op
				if err := json.Unmarshal(raw, &op); err != nil {
					t.Fatalf("%s: %v", path, err)
				}
				verifC17Run(t, c, st, op)
			}
			c.Done()
		})
	}
}
