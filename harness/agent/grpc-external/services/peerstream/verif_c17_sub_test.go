package peerstream

// C17 (exporting side, what the subscription manager actually OFFERS) — a service is offered to a peer only while an
// exported-services entry names that peer as a consumer of it.
//
// Code under test: (*subscriptionManager).handleEvent, syncNormalServices, syncDiscoveryChains,
// (*subscriptionState).sendPendingEvents / cleanupEventVersions (subscription_manager.go, subscription_state.go), fed by
// Store.ExportedServicesForPeer of a real state store.
//
// The schedule is owned by the harness: no goroutine of the manager runs. The harness plays the three event sources
// of subscribe() itself and calls handleEvent synchronously:
//   - the exported-service-list watch: after store writes it reads ExportedServicesForPeer(peer) from the real store
//     and hands the result to handleEvent exactly like notifyExportedServicesForPeerID does;
//   - the per-service materialized views: a fake MaterializedViewStore records every Notify (service, context). A
//     "catalog change of service X" is turned into an `exported-service:X` event if and only if a watch for X is
//     still alive (its context not cancelled) - a cancelled view never speaks again, a live one always does;
//   - the mesh-gateway watch (one event, so that synthetic discovery-chain replies flow).
// Everything the manager publishes is read from the public channel right after each handleEvent (buffered, drained
// synchronously; no waiting, no timing).
//
// A case: peerings p1, p2; a history of exported-services writes (set / add / remove / SWAP one name for another /
// wildcard on-off / consumer moved to the other peer / entry deleted), local registrations and de-registrations,
// service-resolver writes (discovery chains), catalog changes ("flips") of exported and of no-longer-exported services.
//
// ORACLE, per peer, against an independent model of what the CURRENT entry exports to that peer
// (exact names naming the peer, plus - under a wildcard naming the peer - every local typical service):
//   (a) right after an export-list event was processed: the keys of subscriptionState.watchedServices are exactly the
//       exported services; every one of them has a live view watch and NO other view watch is alive
//       ("For every subscription without an exported service, call the associated cancel fn");
//       subscriptionState.connectServices only holds exported names;
//   (b) every `exported-service:<name>` update that reaches the public channel is for a service the last processed
//       entry exports to this peer, or for the synthetic proxy `<chain>-sidecar-proxy` of an exported chain; the one
//       documented exception is the EMPTY proxy update that announces the removal of a chain ("if it was dropped, try
//       to emit an DELETE event"), accepted only while processing the list event that drops it;
//   (c) the exported-service-list update published to the peer equals the model's list.
// Between a store write and the processing of the resulting list event the manager legitimately still offers the
// old set; (b) is therefore judged against the LAST PROCESSED list, never against the store.

import (
	"context"
	"fmt"
	"sort"
	"strings"
	"testing"

	"github.com/hashicorp/go-hclog"

	"github.com/hashicorp/consul/acl"
	"github.com/hashicorp/consul/agent/cache"
	"github.com/hashicorp/consul/agent/connect"
	"github.com/hashicorp/consul/agent/consul/state"
	"github.com/hashicorp/consul/agent/netutil"
	"github.com/hashicorp/consul/agent/structs"
	"github.com/hashicorp/consul/agent/submatview"
	"github.com/hashicorp/consul/internal/verifkit"
	"github.com/hashicorp/consul/proto/private/pbpeering"
	"github.com/hashicorp/consul/proto/private/pbpeerstream"
	"github.com/hashicorp/consul/proto/private/pbservice"
	"pgregory.net/rapid"
)

type verifC17SEntry struct {
	Name  string   `json:"name"`
	Peers []string `json:"peers"`
}

type verifC17SOp struct {
	Kind    string           `json:"kind"` // s-export | s-export-delete | s-reg | s-dereg | s-flip | s-resolver | s-meshgw | s-list
	Export  []verifC17SEntry `json:"export,omitempty"`
	Service string           `json:"service,omitempty"`
	Node    string           `json:"node,omitempty"`
	Delete  bool             `json:"delete,omitempty"`
	Peer    string           `json:"peer,omitempty"`   // s-list: deliver the current list to this peer
	Before  bool             `json:"before,omitempty"` // s-reg/s-dereg: the service's own view event is handled before the list events
}

var (
	verifC17SNames = []string{"web", "api", "db", "cache"}
	verifC17SPeers = []string{"p1", "p2"}
	verifC17SIDs   = map[string]string{"p1": "a1a1a1a1-a1a1-4a1a-8a1a-a1a1a1a1a1a1", "p2": "b2b2b2b2-b2b2-4b2b-8b2b-b2b2b2b2b2b2"}
)

// ---- fake materialized view store

type verifC17SWatch struct {
	ctx context.Context
	cID string
}

type verifC17SViews struct {
	watches []verifC17SWatch // every Notify ever made for this peer
}

func (v *verifC17SViews) Get(ctx context.Context, req submatview.Request) (submatview.Result, error) {
	return submatview.Result{}, fmt.Errorf("not used")
}

func (v *verifC17SViews) Notify(ctx context.Context, req submatview.Request, cID string, ch chan<- cache.UpdateEvent) error {
	v.watches = append(v.watches, verifC17SWatch{ctx: ctx, cID: cID})
	return nil
}

// live: number of live watches per correlation ID.
func (v *verifC17SViews) live() map[string]int {
	out := map[string]int{}
	for _, w := range v.watches {
		if w.ctx.Err() == nil {
			out[w.cID]++
		}
	}
	return out
}

// ---- per-case state

type verifC17SPeer struct {
	name      string
	mgr       *subscriptionManager
	views     *verifC17SViews
	st        *subscriptionState
	public    chan cache.UpdateEvent
	delivered map[string]bool // model: services of the last PROCESSED list
	chains    map[string]bool // model: chain names that may be offered (last processed list)
	gotList   bool
}

type verifC17SState struct {
	c      *verifkit.Case
	ctx    context.Context
	cancel context.CancelFunc
	store  *state.Store
	idx    uint64
	peers  []*verifC17SPeer
	// model
	export    []verifC17SEntry
	has       bool
	insts     map[string]string // node/service -> service (local typical instances)
	resolvers map[string]bool
	flipN     int
	everGone  map[string]bool // peer/service: was exported to the peer once and is not any more
}

func (st *verifC17SState) next() uint64 { st.idx += 2; return st.idx }

func verifC17SNew(f verifkit.F, c *verifkit.Case) *verifC17SState {
	netutil.GetAgentBindAddrFunc = netutil.GetMockGetAgentBindAddrFunc("0.0.0.0")
	ctx, cancel := context.WithCancel(context.Background())
	st := &verifC17SState{c: c, ctx: ctx, cancel: cancel, store: state.NewStateStore(nil), idx: 10,
		insts: map[string]string{}, resolvers: map[string]bool{}, everGone: map[string]bool{}}
	if err := st.store.CASetConfig(st.next(), &structs.CAConfiguration{Provider: "consul", ClusterID: connect.TestClusterID}); err != nil {
		f.Fatalf("harness: CASetConfig: %v", err)
	}
	for _, p := range verifC17SPeers {
		if err := st.store.PeeringWrite(st.next(), &pbpeering.PeeringWriteRequest{Peering: &pbpeering.Peering{ID: verifC17SIDs[p], Name: p}}); err != nil {
			f.Fatalf("harness: PeeringWrite: %v", err)
		}
		views := &verifC17SViews{}
		mgr := &subscriptionManager{
			logger:      hclog.NewNullLogger(),
			config:      Config{Datacenter: "dc1", ConnectEnabled: true},
			trustDomain: connect.TestTrustDomain,
			viewStore:   views,
			getStore:    func() StateStore { return st.store },
		}
		public := make(chan cache.UpdateEvent, 1024)
		internal := make(chan cache.UpdateEvent, 16) // never read: the harness builds the events itself
		ss := newSubscriptionState(p, "default")
		ss.publicUpdateCh = public
		ss.updateCh = internal
		st.peers = append(st.peers, &verifC17SPeer{name: p, mgr: mgr, views: views, st: ss, public: public,
			delivered: map[string]bool{}, chains: map[string]bool{}})
	}
	return st
}

// model: what the current entry exports to a peer.
func (st *verifC17SState) modelFor(peer string) (svcs map[string]bool, chains map[string]bool) {
	svcs, chains = map[string]bool{}, map[string]bool{}
	if !st.has {
		return
	}
	wild := false
	for _, e := range st.export {
		if !verifC17Contains(e.Peers, peer) {
			continue
		}
		if e.Name == structs.WildcardSpecifier {
			wild = true
		} else {
			svcs[e.Name] = true
		}
	}
	if wild {
		for _, s := range st.insts {
			svcs[s] = true
		}
	}
	// a discovery chain is offered for an exported name that is connect-enabled; in this family the only way to be
	// connect-enabled is a service-resolver entry ("are a discovery chain by definition"). Under a wildcard every
	// resolver name counts, with or without instances.
	for r := range st.resolvers {
		if svcs[r] || wild {
			chains[r] = true
		}
	}
	return
}

func (st *verifC17SState) drain(p *verifC17SPeer) []cache.UpdateEvent {
	var out []cache.UpdateEvent
	for {
		select {
		case e := <-p.public:
			out = append(out, e)
		default:
			return out
		}
	}
}

// judge: clause (b)/(c) for the public events one handleEvent produced. dropping: chain names whose removal is being
// announced by the list event under processing (nil outside list events).
func (st *verifC17SState) judge(f verifkit.F, p *verifC17SPeer, evs []cache.UpdateEvent, what string, dropping map[string]bool) {
	for _, e := range evs {
		switch {
		case e.CorrelationID == subExportedServiceList:
			l, _ := e.Result.(*pbpeerstream.ExportedServiceList)
			got := append([]string{}, l.GetServices()...)
			sort.Strings(got)
			want := verifC17Keys(p.delivered)
			if fmt.Sprint(got) != fmt.Sprint(want) {
				st.c.Violation(f, "C17/sub/published-list-differs", "%s: the exported-service list published to peer %s is %v, the entry exports %v", what, p.name, got, want)
			}
		case strings.HasPrefix(e.CorrelationID, subExportedService):
			name := strings.TrimPrefix(e.CorrelationID, subExportedService)
			csn, _ := e.Result.(*pbservice.IndexedCheckServiceNodes)
			base := strings.TrimSuffix(name, structs.SidecarProxySuffix)
			switch {
			case p.delivered[name]:
			case name != base && p.chains[base]:
			case name != base && dropping[base] && len(csn.GetNodes()) == 0:
				st.c.Label("sub:chain-removal-announced")
			default:
				st.c.Violation(f, "C17/sub/update-for-unexported-service", "%s: an update for %q (%d instances) is sent to peer %s, but the exported-services entry does not export it to that peer (exported: %v)",
					what, name, len(csn.GetNodes()), p.name, verifC17Keys(p.delivered))
			}
		}
	}
}

// deliverList: the exported-service-list watch fires for one peer.
func (st *verifC17SState) deliverList(f verifkit.F, p *verifC17SPeer) {
	_, list, err := st.store.ExportedServicesForPeer(nil, verifC17SIDs[p.name], "dc1")
	if err != nil {
		f.Fatalf("harness: ExportedServicesForPeer: %v", err)
	}
	svcs, chains := st.modelFor(p.name)
	what := fmt.Sprintf("exported-service list %v processed", verifC17Keys(svcs))
	dropping := map[string]bool{}
	for n := range p.st.connectServices {
		if !chains[n.Name] || !svcs[n.Name] {
			dropping[n.Name] = true
		}
	}
	for n := range p.delivered {
		if !svcs[n] {
			st.everGone[p.name+"/"+n] = true
			st.c.Label("sub:service-no-longer-exported")
			if len(svcs) >= len(p.delivered) {
				st.c.Label("sub:swap(list-not-shorter)")
			}
		}
	}
	p.delivered, p.chains, p.gotList = svcs, chains, true
	if err := p.mgr.handleEvent(st.ctx, p.st, cache.UpdateEvent{CorrelationID: subExportedServiceList, Result: list}); err != nil {
		st.c.Violation(f, "C17/sub/handle-event-error", "%s: %v", what, err)
		return
	}
	st.judge(f, p, st.drain(p), what, dropping)
	// (a)
	var watched []string
	for sn := range p.st.watchedServices {
		watched = append(watched, sn.Name)
	}
	sort.Strings(watched)
	if want := verifC17Keys(svcs); fmt.Sprint(watched) != fmt.Sprint(want) {
		st.c.Violation(f, "C17/sub/watched-services-differ", "%s for peer %s: subscriptionState.watchedServices = %v, the entry exports %v", what, p.name, watched, want)
	}
	live := p.views.live()
	for cID, n := range live {
		name := strings.TrimPrefix(cID, subExportedService)
		if !svcs[name] {
			st.c.Violation(f, "C17/sub/stale-watch-alive", "%s for peer %s: the view watch of %q is still alive although the entry does not export it to that peer", what, p.name, name)
		} else if n != 1 {
			st.c.Violation(f, "C17/sub/duplicate-watch", "%s for peer %s: %d live view watches for %q", what, p.name, n, name)
		}
	}
	for _, s := range verifC17Keys(svcs) {
		if live[subExportedService+s] == 0 {
			st.c.Violation(f, "C17/sub/exported-service-not-watched", "%s for peer %s: %q is exported but has no live view watch", what, p.name, s)
		}
	}
	for sn := range p.st.connectServices {
		if !chains[sn.Name] {
			st.c.Violation(f, "C17/sub/stale-chain", "%s for peer %s: subscriptionState.connectServices still holds %q, which the entry does not export", what, p.name, sn.Name)
		}
	}
	if len(svcs) > 0 {
		for _, q := range st.peers {
			if q != p && q.gotList && len(q.delivered) == 0 {
				st.c.Label("sub:one-peer-exported-other-not")
			}
		}
	}
}

// flip: a catalog change of one service reaches every peer whose view watch for it is alive.
func (st *verifC17SState) flip(f verifkit.F, svc string) {
	st.flipN++
	for _, p := range st.peers {
		cID := subExportedService + structs.NewServiceName(svc, nil).String()
		if p.views.live()[cID] == 0 {
			if st.everGone[p.name+"/"+svc] && !p.delivered[svc] {
				st.c.Label("sub:change-of-unexported-service-stays-silent")
			}
			continue
		}
		var nodes []*pbservice.CheckServiceNode
		for k, s := range st.insts {
			if s == svc {
				node := strings.SplitN(k, "/", 2)[0]
				nodes = append(nodes, &pbservice.CheckServiceNode{
					Node:    &pbservice.Node{Node: node, Address: "10.0.0.1", Meta: map[string]string{"rev": fmt.Sprint(st.flipN)}},
					Service: &pbservice.NodeService{ID: svc, Service: svc, Port: 8080},
				})
			}
		}
		sort.Slice(nodes, func(i, j int) bool { return nodes[i].Node.Node < nodes[j].Node.Node })
		what := fmt.Sprintf("catalog change of %q", svc)
		if err := p.mgr.handleEvent(st.ctx, p.st, cache.UpdateEvent{CorrelationID: cID, Result: &pbservice.IndexedCheckServiceNodes{Index: st.idx, Nodes: nodes}}); err != nil {
			st.c.Violation(f, "C17/sub/handle-event-error", "%s: %v", what, err)
			continue
		}
		if p.delivered[svc] {
			st.c.Label("sub:change-of-exported-service-delivered")
		}
		st.judge(f, p, st.drain(p), what, nil)
	}
}

func verifC17SStep(f verifkit.F, st *verifC17SState, op verifC17SOp) {
	deliverAll := func() {
		for _, p := range st.peers {
			st.deliverList(f, p)
		}
	}
	switch op.Kind {
	case "s-export":
		e := &structs.ExportedServicesConfigEntry{Name: "default"}
		for _, x := range op.Export {
			es := structs.ExportedService{Name: x.Name}
			for _, p := range x.Peers {
				es.Consumers = append(es.Consumers, structs.ServiceConsumer{Peer: p})
			}
			e.Services = append(e.Services, es)
		}
		if err := e.Normalize(); err != nil {
			f.Fatalf("harness: Normalize: %v", err)
		}
		if err := e.Validate(); err != nil {
			f.Fatalf("harness: generated an invalid entry: %v", err)
		}
		if err := st.store.EnsureConfigEntry(st.next(), e); err != nil {
			st.c.Label("sub:write-rejected")
			return
		}
		st.export, st.has = op.Export, true
		deliverAll()
	case "s-export-delete":
		if err := st.store.DeleteConfigEntry(st.next(), structs.ExportedServices, "default", acl.DefaultEnterpriseMeta()); err != nil {
			f.Fatalf("harness: DeleteConfigEntry: %v", err)
		}
		st.export, st.has = nil, false
		deliverAll()
	case "s-reg", "s-dereg":
		key := op.Node + "/" + op.Service
		if op.Kind == "s-reg" {
			req := &structs.RegisterRequest{Node: op.Node, Address: "10.0.0.1", Service: &structs.NodeService{ID: op.Service, Service: op.Service, Port: 8080,
				Weights: &structs.Weights{Passing: 1, Warning: 1}, EnterpriseMeta: *acl.DefaultEnterpriseMeta()}}
			if err := st.store.EnsureRegistration(st.next(), req); err != nil {
				f.Fatalf("harness: EnsureRegistration: %v", err)
			}
			st.insts[key] = op.Service
		} else {
			if err := st.store.DeleteService(st.next(), op.Node, op.Service, acl.DefaultEnterpriseMeta(), ""); err != nil {
				f.Fatalf("harness: DeleteService: %v", err)
			}
			delete(st.insts, key)
		}
		// the service's own view and (under a wildcard) the list watch both fire; either order is possible
		if op.Before {
			st.flip(f, op.Service)
			deliverAll()
		} else {
			deliverAll()
			st.flip(f, op.Service)
		}
	case "s-flip":
		st.flip(f, op.Service)
	case "s-resolver":
		var err error
		if op.Delete {
			err = st.store.DeleteConfigEntry(st.next(), structs.ServiceResolver, op.Service, acl.DefaultEnterpriseMeta())
		} else {
			e := &structs.ServiceResolverConfigEntry{Kind: structs.ServiceResolver, Name: op.Service}
			if err = e.Normalize(); err == nil {
				err = st.store.EnsureConfigEntry(st.next(), e)
			}
		}
		if err != nil {
			st.c.Label("sub:write-rejected")
			return
		}
		if op.Delete {
			delete(st.resolvers, op.Service)
		} else {
			st.resolvers[op.Service] = true
		}
		deliverAll()
	case "s-meshgw":
		for _, p := range st.peers {
			ev := cache.UpdateEvent{CorrelationID: subMeshGateway + "default", Result: &pbservice.IndexedCheckServiceNodes{Nodes: []*pbservice.CheckServiceNode{{
				Node:    &pbservice.Node{Node: "gw-node", Address: "10.0.0.9"},
				Service: &pbservice.NodeService{ID: "mesh-gw", Service: "mesh-gw", Kind: string(structs.ServiceKindMeshGateway), Port: 8443},
			}}}}
			if err := p.mgr.handleEvent(st.ctx, p.st, ev); err != nil {
				st.c.Violation(f, "C17/sub/handle-event-error", "mesh gateway event: %v", err)
				continue
			}
			st.c.Label("sub:mesh-gateway-known")
			st.judge(f, p, st.drain(p), "mesh gateway update", nil)
		}
	case "s-list":
		for _, p := range st.peers {
			if p.name == op.Peer {
				st.deliverList(f, p) // the watch fired without a relevant change
			}
		}
	default:
		f.Fatalf("harness: unknown op %q", op.Kind)
	}
}

// ---- generator

func verifC17SGenPeers(t *rapid.T) []string {
	switch rapid.IntRange(0, 5).Draw(t, "consumers") {
	case 0, 1, 2:
		return []string{"p1"}
	case 3, 4:
		return []string{"p2"}
	}
	return []string{"p1", "p2"}
}

func verifC17SGenExport(t *rapid.T, st *verifC17SState) []verifC17SEntry {
	var prev []verifC17SEntry
	for _, e := range st.export {
		prev = append(prev, verifC17SEntry{Name: e.Name, Peers: append([]string{}, e.Peers...)})
	}
	names := append([]string{"*"}, verifC17SNames...)
	if st.has && len(prev) > 0 {
		i := rapid.IntRange(0, len(prev)-1).Draw(t, "entry")
		switch rapid.IntRange(0, 9).Draw(t, "edit") {
		case 0, 1, 2, 3: // SWAP one name for another, same consumers
			st.c.Label("sub:edit=swap")
			prev[i].Name = rapid.SampledFrom(names).Draw(t, "swap-to")
			return prev
		case 4: // add an entry
			st.c.Label("sub:edit=add")
			return append(prev, verifC17SEntry{Name: rapid.SampledFrom(names).Draw(t, "add-name"), Peers: verifC17SGenPeers(t)})
		case 5: // remove an entry
			if len(prev) > 1 {
				st.c.Label("sub:edit=remove")
				return append(prev[:i], prev[i+1:]...)
			}
		case 6: // move the entry to other consumers
			st.c.Label("sub:edit=move-consumer")
			prev[i].Peers = verifC17SGenPeers(t)
			return prev
		case 7: // swap one and add one
			st.c.Label("sub:edit=swap+add")
			prev[i].Name = rapid.SampledFrom(names).Draw(t, "swap-to")
			return append(prev, verifC17SEntry{Name: rapid.SampledFrom(names).Draw(t, "add-name"), Peers: prev[i].Peers})
		}
	}
	n := rapid.IntRange(1, 3).Draw(t, "nentries")
	var out []verifC17SEntry
	for j := 0; j < n; j++ {
		out = append(out, verifC17SEntry{Name: rapid.SampledFrom(names).Draw(t, "name"), Peers: verifC17SGenPeers(t)})
	}
	return out
}

func verifC17SGenOp(t *rapid.T, st *verifC17SState) verifC17SOp {
	switch k := rapid.IntRange(0, 19).Draw(t, "opkind"); {
	case k < 7:
		return verifC17SOp{Kind: "s-export", Export: verifC17SGenExport(t, st)}
	case k < 8:
		return verifC17SOp{Kind: "s-export-delete"}
	case k < 11:
		return verifC17SOp{Kind: "s-reg", Service: rapid.SampledFrom(verifC17SNames).Draw(t, "svc"), Node: rapid.SampledFrom([]string{"n1", "n2"}).Draw(t, "node"), Before: rapid.Bool().Draw(t, "before")}
	case k < 12:
		keys := verifC17Keys(st.insts)
		if len(keys) == 0 {
			return verifC17SOp{Kind: "s-flip", Service: rapid.SampledFrom(verifC17SNames).Draw(t, "svc")}
		}
		p := strings.SplitN(rapid.SampledFrom(keys).Draw(t, "inst"), "/", 2)
		return verifC17SOp{Kind: "s-dereg", Node: p[0], Service: p[1], Before: rapid.Bool().Draw(t, "before")}
	case k < 17:
		// prefer services that were exported to some peer once and are not any more
		var gone []string
		for _, key := range verifC17Keys(st.everGone) {
			gone = append(gone, strings.SplitN(key, "/", 2)[1])
		}
		if len(gone) > 0 && rapid.IntRange(0, 9).Draw(t, "flip-gone") < 6 {
			return verifC17SOp{Kind: "s-flip", Service: rapid.SampledFrom(gone).Draw(t, "svc")}
		}
		return verifC17SOp{Kind: "s-flip", Service: rapid.SampledFrom(verifC17SNames).Draw(t, "svc")}
	case k < 18:
		svc := rapid.SampledFrom(verifC17SNames).Draw(t, "svc")
		return verifC17SOp{Kind: "s-resolver", Service: svc, Delete: st.resolvers[svc] && rapid.Bool().Draw(t, "delete")}
	case k < 19:
		return verifC17SOp{Kind: "s-meshgw"}
	}
	return verifC17SOp{Kind: "s-list", Peer: rapid.SampledFrom(verifC17SPeers).Draw(t, "peer")}
}

func TestVerifC17Subscription(t *testing.T) {
	rec := verifkit.For("C17")
	defer rec.Flush()
	maxOps := 16
	if verifkit.Thorough() {
		maxOps = 30
	}
	rapid.Check(t, func(t *rapid.T) {
		c := rec.NewCase()
		defer c.GuardPanic(t, "C17/panic")
		c.Label("side=subscription")
		st := verifC17SNew(t, c)
		defer st.cancel()
		run := func(op verifC17SOp) {
			c.Op(op)
			verifC17SStep(t, st, op)
		}
		for i, k := 0, rapid.IntRange(0, 3).Draw(t, "nearly"); i < k; i++ {
			run(verifC17SOp{Kind: "s-reg", Service: rapid.SampledFrom(verifC17SNames).Draw(t, "svc"), Node: rapid.SampledFrom([]string{"n1", "n2"}).Draw(t, "node")})
		}
		if rapid.Bool().Draw(t, "meshgw-first") {
			run(verifC17SOp{Kind: "s-meshgw"})
		}
		n := rapid.IntRange(4, maxOps).Draw(t, "nops")
		for i := 0; i < n; i++ {
			run(verifC17SGenOp(t, st))
		}
		if c.HasLabel("sub:service-no-longer-exported") && (c.HasLabel("sub:change-of-unexported-service-stays-silent") || c.HasLabel("sub:change-of-exported-service-delivered")) {
			c.NonTrivial()
		}
		c.Done()
	})
}

// verifC17SReplay runs one saved case of this family (called from TestVerifC17Replay).
func verifC17SReplay(t *testing.T, c *verifkit.Case, ops []verifC17SOp) {
	st := verifC17SNew(t, c)
	defer st.cancel()
	for _, op := range ops {
		c.Op(op)
		verifC17SStep(t, st, op)
	}
}
