package peerstream

// C17 (importing side) — Peering: imports mirror exactly what was exported and touch nothing else.
//
// Code under test: (*Server).handleUpdateService, (*Server).handleUpsertExportedServiceList and
// (*Server).processResponse (replication.go), newHealthSnapshot (health_snapshot.go), and below them the
// catalog write path of the real state store (EnsureRegistration / DeleteService / DeleteCheck / DeleteNode).
//
// A case is a history: seed registrations for the LOCAL catalog and for peerB (and a few local config
// entries / KV pairs / the virtual-IP feature flag), then a sequence of exported-service updates,
// nil/empty updates (= delete) and exported-service-list updates for peerA (sometimes for peerB).
// The Backend is the harness' own: every CatalogRegister/CatalogDeregister is msgpack encoded and decoded
// exactly like the raft round trip (structs.Encode -> fsm decode) and applied with a fresh raft index
// to a real state.Store, as FSM.applyRegister / FSM.applyDeregister do.
//
// ORACLE after every update (peer P, service S, snapshot X) — file verif_c17_import_test.go, func verifC17CheckUpdate:
//  (a) the instances CheckServiceNodes(S, P) returns are exactly those of X (by node name + service ID) and
//      every service definition equals the received one (modulo raft indexes, the PeerName/partition the importer
//      stamps, and the `consul-virtual` tagged address the STORE adds to connect proxies when virtual IPs are
//      enabled — the exporter itself strips that key: "VirtualIPs assigned in this cluster won't make sense on the
//      importing side");
//  (b) the service-level checks of every instance are exactly the received ones (ServiceName/ServiceTags of a
//      check are derived by the store from the service row — ensureCheckTxn "Copy in the service name and tags" —
//      so they are compared with the service's values);
//  (c) the node of every instance equals the received node (ID, name, address, datacenter, tagged addresses, meta);
//  (d) node-level checks: every received node check is stored with equal content and no other node check remains
//      on a node the snapshot mentions ("If the node exists but the check does not then the check was deleted";
//      latest snapshot mentioning the node wins). Three signatures: invented (never stored, not received),
//      left-behind (the service had a stored instance on that node which the snapshot still contains - the case the
//      reconciler handles), left-behind/no-stored-instance-on-node (it had none: the reconciler only sees node
//      checks through stored instances of the service - a finding on the pinned tree, see the report);
//  (e) OTHER services of the same peer: their service rows and service-level check rows are byte-identical
//      (raft indexes included);
//  (f) nodes of P: a node that hosted an instance of S before, is absent from X and hosts nothing afterwards is
//      deleted ("Delete any nodes that do not have any other services registered on them"); a node that still
//      hosts something is kept; node rows not mentioned by X are byte-identical; for a peer whose whole state
//      came through imports every node hosts >= 1 instance;
//  (g) every catalog request the handler issued carries PeerName == P, and no deregistration is issued twice
//      ("this deduplication prevents issuing multiple deregistrations for a single check");
//  (N) NON-INTERFERENCE: the dump of ALL memdb tables (Store.WalkAllTables, rows as JSON with raft indexes)
//      restricted to rows not owned by P is byte-identical before/after. Ownership: PeerName of nodes/services/
//      checks rows, Service.Peer of service-virtual-ips rows, the "peer.<P>:" prefix of index rows. Exempt:
//      the aggregate rows of the index table that are shared by all peers by construction (`nodes`, `services`,
//      `checks`, `service-virtual-ips`, `free-virtual-ips`, `service_kind.<kind>`), the free-virtual-ips table
//      (one allocator shared by everybody) and the Index field of usage rows (ID and Count are compared).
//
// After an exported-service list (verifC17CheckList): no service of P outside the list remains, except
// `<listed>-sidecar-proxy` ("This ensures that we don't delete exported service's sidecars below"); listed
// services and their rows are untouched; (f), (g), (N) as above.
//
// "consistent exporter" mode additionally asserts FULL equality at quiescence (verifC17CheckQuiesce): when every
// exported service has been delivered against one and the same exporter catalog, ServiceList(P), Nodes(P) and
// CheckServiceNodes(S, P) for every S equal the exporter's view exactly, node-level checks included.
//
// Preconditions (what every real exporter guarantees; the importer panics or is undefined otherwise):
// non-empty node names, service IDs, check IDs; a node name maps to one node ID; (node, service ID) and
// (node, check ID) are unique in the exporter's catalog, so an instance ID never changes its service name and
// a check ID never changes between node level and service level; inside ONE snapshot all entries of a node carry
// the same node data and the same node-level checks (it is a CheckServiceNodes result); check ServiceName/
// ServiceTags agree with the service (or are empty, as in the exporter's flattened `overall-check`); no node renames.

import (
	"encoding/json"
	"fmt"
	"os"
	"sort"
	"strings"

	"github.com/hashicorp/go-hclog"
	"github.com/hashicorp/serf/coordinate"
	"google.golang.org/protobuf/types/known/anypb"

	"github.com/hashicorp/consul/acl"
	"github.com/hashicorp/consul/agent/consul/state"
	"github.com/hashicorp/consul/agent/consul/stream"
	"github.com/hashicorp/consul/agent/netutil"
	"github.com/hashicorp/consul/agent/structs"
	"github.com/hashicorp/consul/internal/verifkit"
	"github.com/hashicorp/consul/proto/private/pbpeering"
	"github.com/hashicorp/consul/proto/private/pbpeerstream"
	"github.com/hashicorp/consul/proto/private/pbservice"
	"github.com/hashicorp/consul/types"
)

// ---------------------------------------------------------------------------------------------
// case format

type verifC17Check struct {
	ID     string `json:"id"`
	Name   string `json:"name,omitempty"`
	Status string `json:"status"`
	Output string `json:"output,omitempty"`
	Notes  string `json:"notes,omitempty"`
	// NoSvcName: leave ServiceName empty in the message (only meaningful for service-level checks).
	NoSvcName bool `json:"no_svc_name,omitempty"`
}

type verifC17Node struct {
	Name     string            `json:"name"`
	ID       string            `json:"id,omitempty"`
	Address  string            `json:"address,omitempty"`
	DC       string            `json:"dc,omitempty"`
	TAddr    map[string]string `json:"taddr,omitempty"`
	Meta     map[string]string `json:"meta,omitempty"`
	Locality string            `json:"locality,omitempty"` // only with VERIF_C17_NODE_LOCALITY=1
	Checks   []verifC17Check   `json:"checks,omitempty"`   // node-level checks
}

type verifC17Inst struct {
	Node     string            `json:"node"`
	ID       string            `json:"id"`
	Service  string            `json:"service"`
	Kind     string            `json:"kind,omitempty"` // "" | connect-proxy
	Tags     []string          `json:"tags,omitempty"`
	Address  string            `json:"address,omitempty"`
	Port     int               `json:"port,omitempty"`
	Meta     map[string]string `json:"meta,omitempty"`
	WPass    int               `json:"wpass"`
	WWarn    int               `json:"wwarn"`
	ETO      bool              `json:"eto,omitempty"`
	Locality string            `json:"locality,omitempty"`
	Dest     string            `json:"dest,omitempty"`     // connect-proxy: destination service
	Protocol string            `json:"protocol,omitempty"` // connect-proxy: PeerMeta.Protocol
	Checks   []verifC17Check   `json:"checks,omitempty"`   // service-level checks
}

// verifC17Snap is one ExportedService message: a CheckServiceNodes result of the exporter.
type verifC17Snap struct {
	Nodes []verifC17Node `json:"nodes,omitempty"`
	Insts []verifC17Inst `json:"insts,omitempty"`
}

type verifC17Seed struct {
	Node    verifC17Node  `json:"node"`
	Inst    *verifC17Inst `json:"inst,omitempty"`
	NodeChk bool          `json:"node_chk,omitempty"` // register Node.Checks too
}

type verifC17Op struct {
	Kind string `json:"kind"` // seed | cfg | kv | vip | coord | session | kvlock | pq | update | list | quiesce
	Peer string `json:"peer,omitempty"`

	Seed *verifC17Seed `json:"seed,omitempty"`

	CfgKind string `json:"cfg_kind,omitempty"` // ingress-gateway | terminating-gateway | service-defaults
	CfgName string `json:"cfg_name,omitempty"`

	Key string `json:"key,omitempty"`

	// coord / session / kvlock / pq: LOCAL side data keyed by node NAME only (no peer dimension)
	Node      string   `json:"node,omitempty"`
	Session   string   `json:"session,omitempty"`    // session ID (UUID)
	Checks    []string `json:"sess_checks,omitempty"` // node checks the session is bound to
	Behavior  string   `json:"behavior,omitempty"`   // release | delete

	Svc       string        `json:"svc,omitempty"`
	Snap      *verifC17Snap `json:"snap,omitempty"` // nil => handleUpdateService(nil)
	Via       string        `json:"via,omitempty"`  // direct | process
	Partition string        `json:"partition,omitempty"`

	List []string `json:"list,omitempty"`

	Expect map[string]*verifC17Snap `json:"expect,omitempty"` // quiesce: exporter view per exported service
}

const (
	verifC17PeerA = "peerA"
	verifC17PeerB = "peerB"
)

var verifC17NodeIDs = map[string]string{
	"n1": "11111111-1111-4111-8111-111111111111",
	"n2": "22222222-2222-4222-8222-222222222222",
	"n3": "", // Consul does not require a node ID (health_snapshot.go keys by name for that reason)
}

var verifC17PeerIDs = map[string]string{
	verifC17PeerA: "aaaaaaaa-aaaa-4aaa-8aaa-aaaaaaaaaaaa",
	verifC17PeerB: "bbbbbbbb-bbbb-4bbb-8bbb-bbbbbbbbbbbb",
}

// ---------------------------------------------------------------------------------------------
// backend: what PeeringBackend + raft + FSM do, without the goroutines

type verifC17Req struct {
	Kind string // register | deregister
	Peer string
	Key  string // identity of a deregistration
}

type verifC17Backend struct {
	store *state.Store
	idx   uint64
	reqs  []verifC17Req
}

var _ Backend = (*verifC17Backend)(nil)

func (b *verifC17Backend) next() uint64 { b.idx += 2; return b.idx }

func (b *verifC17Backend) Subscribe(req *stream.SubscribeRequest) (*stream.Subscription, error) {
	return nil, fmt.Errorf("not used")
}
func (b *verifC17Backend) IsLeader() bool                                    { return true }
func (b *verifC17Backend) SetLeaderAddress(string)                           {}
func (b *verifC17Backend) GetLeaderAddress() string                          { return "" }
func (b *verifC17Backend) ValidateProposedPeeringSecret(string) (bool, error) { return true, nil }
func (b *verifC17Backend) PeeringSecretsWrite(req *pbpeering.SecretsWriteRequest) error {
	return b.store.PeeringSecretsWrite(b.next(), req)
}
func (b *verifC17Backend) PeeringTerminateByID(req *pbpeering.PeeringTerminateByIDRequest) error {
	return b.store.PeeringTerminateByID(b.next(), req.ID)
}
func (b *verifC17Backend) PeeringTrustBundleWrite(req *pbpeering.PeeringTrustBundleWriteRequest) error {
	return b.store.PeeringTrustBundleWrite(b.next(), req.PeeringTrustBundle)
}
func (b *verifC17Backend) PeeringWrite(req *pbpeering.PeeringWriteRequest) error {
	return b.store.PeeringWrite(b.next(), req)
}

// CatalogRegister: leaderRaftApply(RegisterRequestType) -> FSM.applyRegister.
func (b *verifC17Backend) CatalogRegister(req *structs.RegisterRequest) error {
	buf, err := structs.Encode(structs.RegisterRequestType, req)
	if err != nil {
		return err
	}
	var dec structs.RegisterRequest
	if err := structs.Decode(buf[1:], &dec); err != nil {
		return err
	}
	b.reqs = append(b.reqs, verifC17Req{Kind: "register", Peer: dec.PeerName})
	return b.store.EnsureRegistration(b.next(), &dec)
}

// CatalogDeregister: leaderRaftApply(DeregisterRequestType) -> FSM.applyDeregister.
func (b *verifC17Backend) CatalogDeregister(req *structs.DeregisterRequest) error {
	buf, err := structs.Encode(structs.DeregisterRequestType, req)
	if err != nil {
		return err
	}
	var dec structs.DeregisterRequest
	if err := structs.Decode(buf[1:], &dec); err != nil {
		return err
	}
	b.reqs = append(b.reqs, verifC17Req{Kind: "deregister", Peer: dec.PeerName,
		Key: fmt.Sprintf("node=%s service=%s check=%s", dec.Node, dec.ServiceID, dec.CheckID)})
	idx := b.next()
	switch {
	case dec.ServiceID != "":
		return b.store.DeleteService(idx, dec.Node, dec.ServiceID, &dec.EnterpriseMeta, dec.PeerName)
	case dec.CheckID != "":
		return b.store.DeleteCheck(idx, dec.Node, dec.CheckID, &dec.EnterpriseMeta, dec.PeerName)
	default:
		return b.store.DeleteNode(idx, dec.Node, &dec.EnterpriseMeta, dec.PeerName)
	}
}

// ---------------------------------------------------------------------------------------------
// per-case state

type verifC17State struct {
	c       *verifkit.Case
	store   *state.Store
	be      *verifC17Backend
	srv     *Server
	mst     map[string]*MutableStatus
	seeded  map[string]bool // peer got rows by direct seeding => the "every node hosts an instance" clause is off
	vip     bool
	noReq   bool // VERIF_C17_NOREQCHECK=1: switch clause (g) off (used to show mutants are caught by (N) alone)
	updates int
	lastDump    []verifC17Row
	lastDumpIdx uint64
	stale   map[string]bool // peer/node/check of node checks reported as left behind (finding) and still there
}

func verifC17NewState(f verifkit.F, c *verifkit.Case) *verifC17State {
	// the store asks netutil whether the agent is dual-stack when it assigns virtual IPs (HTTP to localhost:8500
	// unless stubbed; upstream tests stub it the same way) - server configuration, not behaviour under test
	netutil.GetAgentBindAddrFunc = netutil.GetMockGetAgentBindAddrFunc("0.0.0.0")
	store := state.NewStateStore(nil)
	be := &verifC17Backend{store: store, idx: 10}
	srv := NewServer(Config{
		Backend:        be,
		GetStore:       func() StateStore { return store },
		Logger:         hclog.NewNullLogger(),
		Datacenter:     "dc1",
		ConnectEnabled: true,
		ForwardRPC:     noopForwardRPC,
	})
	st := &verifC17State{c: c, store: store, be: be, srv: srv, mst: map[string]*MutableStatus{}, seeded: map[string]bool{}, stale: map[string]bool{},
		noReq: verifkit.EnvInt("VERIF_C17_NOREQCHECK", 0) == 1}
	for _, p := range []string{verifC17PeerA, verifC17PeerB} {
		if err := store.PeeringWrite(be.next(), &pbpeering.PeeringWriteRequest{
			Peering: &pbpeering.Peering{ID: verifC17PeerIDs[p], Name: p},
		}); err != nil {
			f.Fatalf("harness: PeeringWrite: %v", err)
		}
		m, err := srv.Tracker.Connected(verifC17PeerIDs[p])
		if err != nil {
			f.Fatalf("harness: Tracker.Connected: %v", err)
		}
		st.mst[p] = m
	}
	return st
}

// ---------------------------------------------------------------------------------------------
// building consul structs from the case format

func verifC17Locality(s string) *structs.Locality {
	if s == "" {
		return nil
	}
	return &structs.Locality{Region: s, Zone: s + "-a"}
}

func verifC17TAddr(m map[string]string) map[string]string {
	if len(m) == 0 {
		return nil
	}
	out := map[string]string{}
	for k, v := range m {
		out[k] = v
	}
	return out
}

func (n verifC17Node) toStruct(peer string) *structs.Node {
	return &structs.Node{
		ID: types.NodeID(n.ID), Node: n.Name, Address: n.Address, Datacenter: n.DC,
		TaggedAddresses: verifC17TAddr(n.TAddr), Meta: verifC17TAddr(n.Meta), PeerName: peer,
		Locality: verifC17Locality(n.Locality),
	}
}

func (i verifC17Inst) toStruct(peer string) *structs.NodeService {
	ns := &structs.NodeService{
		Kind: structs.ServiceKind(i.Kind), ID: i.ID, Service: i.Service, Address: i.Address, Port: i.Port,
		Meta: verifC17TAddr(i.Meta), Weights: &structs.Weights{Passing: i.WPass, Warning: i.WWarn},
		EnableTagOverride: i.ETO, Locality: verifC17Locality(i.Locality), PeerName: peer,
		EnterpriseMeta: *acl.DefaultEnterpriseMeta(),
	}
	if len(i.Tags) > 0 {
		ns.Tags = append([]string{}, i.Tags...)
	}
	if i.Kind == string(structs.ServiceKindConnectProxy) {
		// the shape createDiscoChainHealth produces
		ns.Proxy = structs.ConnectProxyConfig{DestinationServiceName: i.Dest, DestinationServiceID: i.Dest}
		ns.Connect = structs.ServiceConnect{PeerMeta: &structs.PeeringServiceMeta{
			SNI:      []string{i.Dest + ".default.default.exp.external.trust.consul"},
			SpiffeID: []string{"spiffe://trust.consul/ns/default/dc/dc-exp/svc/" + i.Dest, "spiffe://trust.consul/gateway/mesh/dc/dc-exp"},
			Protocol: i.Protocol,
		}}
	}
	return ns
}

// svcLevel: inst != nil. fromStore: build what the STORE is expected to hold (derived fields filled in).
func (c verifC17Check) toStruct(peer, node string, inst *verifC17Inst, fromStore bool) *structs.HealthCheck {
	hc := &structs.HealthCheck{
		Node: node, CheckID: types.CheckID(c.ID), Name: c.Name, Status: c.Status, Output: c.Output, Notes: c.Notes,
		PeerName: peer, EnterpriseMeta: *acl.DefaultEnterpriseMeta(),
	}
	if inst != nil {
		hc.ServiceID = inst.ID
		if fromStore {
			hc.ServiceName = inst.Service
			if len(inst.Tags) > 0 {
				hc.ServiceTags = append([]string{}, inst.Tags...)
			}
		} else if !c.NoSvcName {
			hc.ServiceName = inst.Service
			// ServiceTags deliberately left out like flattenChecks does when NoSvcName, else as the exporter's store holds them
			if len(inst.Tags) > 0 {
				hc.ServiceTags = append([]string{}, inst.Tags...)
			}
		}
	}
	return hc
}

func (s *verifC17Snap) node(name string) *verifC17Node {
	for i := range s.Nodes {
		if s.Nodes[i].Name == name {
			return &s.Nodes[i]
		}
	}
	return nil
}

// toProto builds the message as the exporter does: structs (its own catalog, PeerName "") -> pbservice.
func (s *verifC17Snap) toProto() *pbpeerstream.ExportedService {
	out := &pbpeerstream.ExportedService{}
	for idx := range s.Insts {
		inst := s.Insts[idx]
		n := s.node(inst.Node)
		csn := &structs.CheckServiceNode{Node: n.toStruct(""), Service: inst.toStruct("")}
		for _, c := range n.Checks {
			csn.Checks = append(csn.Checks, c.toStruct("", n.Name, nil, false))
		}
		for _, c := range inst.Checks {
			csn.Checks = append(csn.Checks, c.toStruct("", n.Name, &inst, false))
		}
		out.Nodes = append(out.Nodes, pbservice.NewCheckServiceNodeFromStructs(csn))
	}
	return out
}

// wellFormed checks the preconditions of the header comment on a decoded (replayed) snapshot.
func (s *verifC17Snap) wellFormed(svc string) error {
	seenN := map[string]bool{}
	for _, n := range s.Nodes {
		if n.Name == "" || seenN[n.Name] {
			return fmt.Errorf("node name empty or repeated: %q", n.Name)
		}
		seenN[n.Name] = true
		ids := map[string]bool{}
		for _, c := range n.Checks {
			if c.ID == "" || ids[c.ID] {
				return fmt.Errorf("node check id empty or repeated")
			}
			ids[c.ID] = true
		}
	}
	used := map[string]bool{}
	seenI := map[string]bool{}
	for _, i := range s.Insts {
		if !seenN[i.Node] || i.ID == "" || i.Service != svc {
			return fmt.Errorf("instance %+v: unknown node, empty id or foreign service", i)
		}
		k := i.Node + "/" + i.ID
		if seenI[k] {
			return fmt.Errorf("instance repeated: %s", k)
		}
		seenI[k] = true
		used[i.Node] = true
		for _, c := range i.Checks {
			if c.ID == "" {
				return fmt.Errorf("empty check id")
			}
		}
	}
	for n := range seenN {
		if !used[n] {
			return fmt.Errorf("node %s without instance", n)
		}
	}
	return nil
}

// ---------------------------------------------------------------------------------------------
// canonical forms

func verifC17Prune(v any, dropIdx bool) any {
	switch x := v.(type) {
	case map[string]any:
		out := map[string]any{}
		for k, e := range x {
			if dropIdx && (k == "CreateIndex" || k == "ModifyIndex" || k == "RaftIndex") {
				continue
			}
			if p := verifC17Prune(e, dropIdx); p != nil {
				out[k] = p
			}
		}
		if len(out) == 0 {
			return nil
		}
		return out
	case []any:
		if len(x) == 0 {
			return nil
		}
		out := make([]any, len(x))
		for i, e := range x {
			out[i] = verifC17Prune(e, dropIdx)
		}
		return out
	case string:
		if x == "" {
			return nil
		}
	case float64:
		if x == 0 {
			return nil
		}
	case bool:
		if !x {
			return nil
		}
	}
	return v
}

// verifC17Canon: JSON with zero values, empty containers and raft indexes removed (nil == empty, as in Go).
func verifC17Canon(v any) string {
	b, err := json.Marshal(v)
	if err != nil {
		return "MARSHAL-ERROR " + err.Error()
	}
	var g any
	if err := json.Unmarshal(b, &g); err != nil {
		return "UNMARSHAL-ERROR " + err.Error()
	}
	out, _ := json.Marshal(verifC17Prune(g, true))
	return string(out)
}

// ---------------------------------------------------------------------------------------------
// dump of all tables

type verifC17Row struct {
	Table string
	Owner string // peer name ("" = local) for owned rows; "-" = not attributable to a peer; "!" = exempt
	// catalog meta
	Node, ServiceID, ServiceName, CheckID string
	JSON                                  string
}

var verifC17SharedIndexRows = map[string]bool{
	"nodes": true, "services": true, "checks": true, "service-virtual-ips": true, "free-virtual-ips": true,
	"service-virtual-ips.imported": true, // max index over the virtual IPs of ALL imported (peer) services
}

func (st *verifC17State) dump(f verifkit.F) []verifC17Row {
	// the dump taken after the previous handler call is still valid if nothing was written since
	if st.lastDump != nil && st.lastDumpIdx == st.be.idx {
		return st.lastDump
	}
	var rows []verifC17Row
	err := st.store.WalkAllTables(func(table string, item interface{}) bool {
		r := verifC17Row{Table: table, Owner: "-"}
		var js any = item
		switch x := item.(type) {
		case *structs.Node:
			r.Owner, r.Node = x.PeerName, x.Node
		case *structs.ServiceNode:
			r.Owner, r.Node, r.ServiceID, r.ServiceName = x.PeerName, x.Node, x.ServiceID, x.ServiceName
		case *structs.HealthCheck:
			r.Owner, r.Node, r.ServiceID, r.ServiceName, r.CheckID = x.PeerName, x.Node, x.ServiceID, x.ServiceName, string(x.CheckID)
		case *structs.Session:
			r.Node = x.Node // sessions, coordinates: local-only tables keyed by node NAME (owner stays "-": must never change)
		case *structs.Coordinate:
			r.Node = x.Node
		case state.ServiceVirtualIP:
			r.Owner = x.Service.Peer
		case *state.ServiceVirtualIP:
			r.Owner = x.Service.Peer
		case state.FreeVirtualIP, *state.FreeVirtualIP:
			r.Owner = "!" // one allocator shared by all peers and the local catalog
		case *state.IndexEntry:
			switch {
			case strings.HasPrefix(x.Key, "peer."):
				rest := strings.TrimPrefix(x.Key, "peer.")
				p := rest
				if i := strings.Index(rest, ":"); i >= 0 {
					p = rest[:i]
				}
				if p == structs.LocalPeerKeyword {
					p = ""
				}
				r.Owner = p
			case verifC17SharedIndexRows[x.Key] || strings.HasPrefix(x.Key, "service_kind."):
				r.Owner = "!" // table-level / kind-level max-index rows aggregated over all peers
			}
		case *state.UsageEntry:
			js = map[string]any{"ID": x.ID, "Count": x.Count} // Index = last-seen raft index, same nature as the rows above
		}
		b, err := json.Marshal(js)
		if err != nil {
			b = []byte(fmt.Sprintf("UNMARSHALABLE %T %+v", item, item))
		}
		r.JSON = string(b)
		rows = append(rows, r)
		return true
	})
	if err != nil {
		f.Fatalf("harness: WalkAllTables: %v", err)
	}
	sort.Slice(rows, func(i, j int) bool {
		if rows[i].Table != rows[j].Table {
			return rows[i].Table < rows[j].Table
		}
		return rows[i].JSON < rows[j].JSON
	})
	st.lastDump, st.lastDumpIdx = rows, st.be.idx
	return rows
}

func verifC17Filter(rows []verifC17Row, keep func(r verifC17Row) bool) []verifC17Row {
	var out []verifC17Row
	for _, r := range rows {
		if keep(r) {
			out = append(out, r)
		}
	}
	return out
}

// verifC17Diff returns rows only in a and rows only in b (both sorted the same way).
func verifC17Diff(a, b []verifC17Row) (onlyA, onlyB []verifC17Row) {
	cnt := map[string]int{}
	key := func(r verifC17Row) string { return r.Table + "\x00" + r.JSON }
	for _, r := range a {
		cnt[key(r)]++
	}
	for _, r := range b {
		k := key(r)
		if cnt[k] > 0 {
			cnt[k]--
		} else {
			onlyB = append(onlyB, r)
		}
	}
	for _, r := range a {
		k := key(r)
		if cnt[k] > 0 {
			cnt[k]--
			onlyA = append(onlyA, r)
		}
	}
	return
}

func verifC17RowsString(rs []verifC17Row) string {
	var sb strings.Builder
	for i, r := range rs {
		if i == 6 {
			fmt.Fprintf(&sb, "  ... %d more\n", len(rs)-i)
			break
		}
		fmt.Fprintf(&sb, "  [%s owner=%q] %s\n", r.Table, r.Owner, r.JSON)
	}
	return sb.String()
}

func verifC17OwnerClass(o string) string {
	switch o {
	case "":
		return "local"
	case "-":
		return "unowned"
	}
	return "other-peer"
}

// nonInterference: clause (N). Differing rows are grouped by root-cause signature; one report per signature.
func (st *verifC17State) nonInterference(f verifkit.F, peer string, before, after []verifC17Row, what string) {
	keep := func(r verifC17Row) bool { return r.Owner != peer && r.Owner != "!" }
	onlyB, onlyA := verifC17Diff(verifC17Filter(before, keep), verifC17Filter(after, keep))
	if len(onlyB) == 0 && len(onlyA) == 0 {
		return
	}
	// Root cause G: a connect proxy imported from a peer is matched against the LOCAL gateways' wildcard
	// entries (ensureServiceTxn calls checkGatewayWildcardsAndUpdate for every connect proxy, peered or not):
	// a gateway-services row FromWildcard appears for the proxy's destination name, together with the
	// mesh-topology row of that gateway and the max-index rows of both tables.
	const sigG = "C17/interference/gateway-services/peer-proxy-bound-to-local-wildcard-gateway"
	gateways := map[string]bool{}
	for _, r := range onlyA {
		if r.Table == "gateway-services" {
			var g struct {
				Gateway      struct{ Name string }
				FromWildcard bool
			}
			if json.Unmarshal([]byte(r.JSON), &g) == nil && g.FromWildcard {
				gateways[g.Gateway.Name] = true
			}
		}
	}
	sigOf := func(r verifC17Row, isAfter bool) string {
		if len(gateways) > 0 {
			switch r.Table {
			case "gateway-services":
				var g struct {
					Gateway      struct{ Name string }
					FromWildcard bool
				}
				if isAfter && json.Unmarshal([]byte(r.JSON), &g) == nil && g.FromWildcard {
					return sigG
				}
			case "mesh-topology":
				var m struct{ Downstream struct{ Name string } }
				if isAfter && json.Unmarshal([]byte(r.JSON), &m) == nil && gateways[m.Downstream.Name] {
					return sigG
				}
			case "index":
				var e struct{ Key string }
				if json.Unmarshal([]byte(r.JSON), &e) == nil && (e.Key == "gateway-services" || e.Key == "mesh-topology") {
					return sigG
				}
			}
		}
		if r.Table == "index" && r.Owner == "-" {
			// a max-index row of a table without peer dimension: name the table
			var e struct{ Key string }
			if json.Unmarshal([]byte(r.JSON), &e) == nil && e.Key != "" {
				return "C17/interference/index/" + e.Key
			}
		}
		return fmt.Sprintf("C17/interference/%s/%s", r.Table, verifC17OwnerClass(r.Owner))
	}
	type grp struct{ b, a []verifC17Row }
	groups := map[string]*grp{}
	for _, r := range onlyB {
		k := sigOf(r, false)
		if groups[k] == nil {
			groups[k] = &grp{}
		}
		groups[k].b = append(groups[k].b, r)
	}
	for _, r := range onlyA {
		k := sigOf(r, true)
		if groups[k] == nil {
			groups[k] = &grp{}
		}
		groups[k].a = append(groups[k].a, r)
	}
	for _, k := range verifC17Keys(groups) {
		st.violation(f, k,
			"%s for peer %q changed rows that do not belong to that peer.\nrows before (gone or changed):\n%srows after (new or changed):\n%s",
			what, peer, verifC17RowsString(groups[k].b), verifC17RowsString(groups[k].a))
	}
}

// violation: Case.Violation plus a development aid - keys listed in VERIF_C17_TOLERATE are counted and tolerated
// exactly like listed known findings (used only until a finding is entered in KNOWN_FINDINGS.json / fixed).
func (st *verifC17State) violation(f verifkit.F, key, format string, args ...any) bool {
	for _, k := range strings.Split(os.Getenv("VERIF_C17_TOLERATE"), ",") {
		if k != "" && k == key {
			st.c.KnownHit(key)
			return true
		}
	}
	return st.c.Violation(f, key, format, args...)
}

// ---------------------------------------------------------------------------------------------
// reading the peer's catalog

type verifC17View struct {
	// per instance key "node/sid"
	Svc       map[string]string            // canonical service definition
	SvcChecks map[string]map[string]string // check id -> canonical check
	InstNode  map[string]string            // node name
	Nodes     map[string]string            // node name -> canonical node
	NodeChk   map[string]map[string]string // node name -> check id -> canonical check (as attached to the instances)
	nodeChkBy map[string]map[string]bool   // instance -> node check ids attached to it
}

func (st *verifC17State) readSvc(f verifkit.F, peer, svc string) *verifC17View {
	_, csns, err := st.store.CheckServiceNodes(nil, svc, acl.DefaultEnterpriseMeta(), peer)
	if err != nil {
		st.violation(f, "C17/read-error", "CheckServiceNodes(%s, %s): %v", svc, peer, err)
		return verifC17ViewOf(nil, st.vip)
	}
	return verifC17ViewOf(csns, st.vip)
}

func verifC17ViewOf(csns structs.CheckServiceNodes, stripVIP bool) *verifC17View {
	v := &verifC17View{Svc: map[string]string{}, SvcChecks: map[string]map[string]string{}, InstNode: map[string]string{},
		Nodes: map[string]string{}, NodeChk: map[string]map[string]string{}, nodeChkBy: map[string]map[string]bool{}}
	for _, csn := range csns {
		k := csn.Node.Node + "/" + csn.Service.ID
		svc := *csn.Service
		if stripVIP && len(svc.TaggedAddresses) > 0 {
			ta := map[string]structs.ServiceAddress{}
			for a, b := range svc.TaggedAddresses {
				if a != structs.TaggedAddressVirtualIP {
					ta[a] = b
				}
			}
			svc.TaggedAddresses = ta
		}
		v.Svc[k] = verifC17Canon(&svc)
		v.InstNode[k] = csn.Node.Node
		v.Nodes[csn.Node.Node] = verifC17Canon(csn.Node)
		v.SvcChecks[k] = map[string]string{}
		v.nodeChkBy[k] = map[string]bool{}
		if v.NodeChk[csn.Node.Node] == nil {
			v.NodeChk[csn.Node.Node] = map[string]string{}
		}
		for _, c := range csn.Checks {
			if c.ServiceID == "" {
				v.NodeChk[csn.Node.Node][string(c.CheckID)] = verifC17Canon(c)
				v.nodeChkBy[k][string(c.CheckID)] = true
			} else {
				v.SvcChecks[k][string(c.CheckID)] = verifC17Canon(c)
			}
		}
	}
	return v
}

// verifC17Expected: what the store must hold for a snapshot.
func verifC17Expected(peer string, s *verifC17Snap) *verifC17View {
	var csns structs.CheckServiceNodes
	if s != nil {
		for idx := range s.Insts {
			inst := s.Insts[idx]
			n := s.node(inst.Node)
			csn := structs.CheckServiceNode{Node: n.toStruct(peer), Service: inst.toStruct(peer)}
			for _, c := range n.Checks {
				csn.Checks = append(csn.Checks, c.toStruct(peer, n.Name, nil, true))
			}
			for _, c := range inst.Checks {
				csn.Checks = append(csn.Checks, c.toStruct(peer, n.Name, &inst, true))
			}
			csns = append(csns, csn)
		}
	}
	return verifC17ViewOf(csns, false)
}

// verifC17DiffFields names the top-level fields in which two canonical JSON objects differ (root-cause signature).
func verifC17DiffFields(a, b string) string {
	var ma, mb map[string]any
	_ = json.Unmarshal([]byte(a), &ma)
	_ = json.Unmarshal([]byte(b), &mb)
	d := map[string]bool{}
	for k, v := range ma {
		x, _ := json.Marshal(v)
		y, _ := json.Marshal(mb[k])
		if string(x) != string(y) {
			d[k] = true
		}
	}
	for k := range mb {
		if _, ok := ma[k]; !ok {
			d[k] = true
		}
	}
	return strings.Join(verifC17Keys(d), ",")
}

func verifC17Keys[V any](m map[string]V) []string {
	out := make([]string, 0, len(m))
	for k := range m {
		out = append(out, k)
	}
	sort.Strings(out)
	return out
}

func (st *verifC17State) serviceNames(f verifkit.F, peer string) []string {
	wild := acl.NewEnterpriseMetaWithPartition("default", acl.WildcardName)
	_, list, err := st.store.ServiceList(nil, &wild, peer)
	if err != nil {
		f.Fatalf("harness: ServiceList: %v", err)
	}
	var out []string
	for _, sn := range list {
		out = append(out, sn.Name)
	}
	sort.Strings(out)
	return out
}

// ---------------------------------------------------------------------------------------------
// step

func verifC17Step(f verifkit.F, st *verifC17State, op verifC17Op) {
	switch op.Kind {
	case "seed":
		st.seed(f, op)
	case "cfg":
		st.cfg(f, op)
	case "kv":
		if err := st.store.KVSSet(st.be.next(), &structs.DirEntry{Key: op.Key, Value: []byte("v-" + op.Key)}); err != nil {
			f.Fatalf("harness: KVSSet: %v", err)
		}
	case "coord":
		c := coordinate.NewCoordinate(coordinate.DefaultConfig())
		c.Vec[0] = 0.5
		if err := st.store.CoordinateBatchUpdate(st.be.next(), structs.Coordinates{{Node: op.Node, Coord: c}}); err != nil {
			f.Fatalf("harness: CoordinateBatchUpdate: %v", err)
		}
	case "session":
		sess := &structs.Session{ID: op.Session, Node: op.Node, Behavior: structs.SessionBehavior(op.Behavior), NodeChecks: op.Checks}
		if err := st.store.SessionCreate(st.be.next(), sess); err != nil {
			f.Fatalf("harness: SessionCreate: %v", err)
		}
	case "kvlock":
		ok, err := st.store.KVSLock(st.be.next(), &structs.DirEntry{Key: op.Key, Value: []byte("held"), Session: op.Session})
		if err != nil || !ok {
			f.Fatalf("harness: KVSLock: %v %v", ok, err)
		}
	case "pq":
		if err := st.store.PreparedQuerySet(st.be.next(), &structs.PreparedQuery{ID: op.Key, Name: "pq-" + op.Key, Session: op.Session,
			Service: structs.ServiceQuery{Service: "web"}}); err != nil {
			f.Fatalf("harness: PreparedQuerySet: %v", err)
		}
	case "vip":
		if err := st.store.SystemMetadataSet(st.be.next(), &structs.SystemMetadataEntry{Key: structs.SystemMetadataVirtualIPsEnabled, Value: "true"}); err != nil {
			f.Fatalf("harness: SystemMetadataSet: %v", err)
		}
		st.vip = true
	case "update":
		st.update(f, op)
	case "list":
		st.list(f, op)
	case "quiesce":
		st.quiesce(f, op)
	default:
		f.Fatalf("harness: unknown op kind %q", op.Kind)
	}
}

func (st *verifC17State) seed(f verifkit.F, op verifC17Op) {
	s := op.Seed
	n := s.Node.toStruct(op.Peer)
	req := n.ToRegisterRequest()
	req.PeerName = op.Peer
	if s.Inst != nil {
		req.Service = s.Inst.toStruct(op.Peer)
	}
	if s.NodeChk {
		for _, c := range s.Node.Checks {
			req.Checks = append(req.Checks, c.toStruct(op.Peer, n.Node, nil, false))
		}
	}
	if s.Inst != nil {
		for _, c := range s.Inst.Checks {
			req.Checks = append(req.Checks, c.toStruct(op.Peer, n.Node, s.Inst, false))
		}
	}
	if err := st.store.EnsureRegistration(st.be.next(), &req); err != nil {
		f.Fatalf("harness: seed registration rejected: %v", err)
	}
	if op.Peer != "" {
		st.seeded[op.Peer] = true
	}
}

func (st *verifC17State) cfg(f verifkit.F, op verifC17Op) {
	var e structs.ConfigEntry
	switch op.CfgKind {
	case structs.IngressGateway:
		e = &structs.IngressGatewayConfigEntry{Kind: structs.IngressGateway, Name: op.CfgName,
			Listeners: []structs.IngressListener{{Port: 8080, Protocol: "http", Services: []structs.IngressService{{Name: "*"}}}}}
	case structs.TerminatingGateway:
		e = &structs.TerminatingGatewayConfigEntry{Kind: structs.TerminatingGateway, Name: op.CfgName,
			Services: []structs.LinkedService{{Name: "*"}}}
	case structs.ServiceDefaults:
		e = &structs.ServiceConfigEntry{Kind: structs.ServiceDefaults, Name: op.CfgName, Protocol: "http"}
	default:
		f.Fatalf("harness: unknown cfg kind %q", op.CfgKind)
	}
	if err := e.Normalize(); err != nil {
		f.Fatalf("harness: Normalize: %v", err)
	}
	if err := st.store.EnsureConfigEntry(st.be.next(), e); err != nil {
		f.Fatalf("harness: EnsureConfigEntry: %v", err)
	}
}

// peerRows: the catalog rows of one peer from a dump.
func verifC17PeerRows(rows []verifC17Row, peer, table string) []verifC17Row {
	return verifC17Filter(rows, func(r verifC17Row) bool { return r.Table == table && r.Owner == peer })
}

func (st *verifC17State) checkRequests(f verifkit.F, peer, what string) {
	if st.noReq {
		return
	}
	seen := map[string]bool{}
	for _, r := range st.be.reqs {
		if r.Peer != peer {
			st.violation(f, "C17/request-without-peer/"+r.Kind,
				"%s for peer %q issued a catalog %s request with PeerName %q (%s): it addresses another catalog", what, peer, r.Kind, r.Peer, r.Key)
		}
		if r.Kind == "deregister" {
			if seen[r.Key] {
				st.violation(f, "C17/duplicate-deregistration", "%s for peer %q issued the deregistration {%s} twice", what, peer, r.Key)
			}
			seen[r.Key] = true
		}
	}
}

// nodeClauses: clause (f). gone: node names that hosted an instance of the updated/removed service(s) before and are
// absent from the snapshot; mentioned: node names of the snapshot.
func (st *verifC17State) nodeClauses(f verifkit.F, peer string, before, after []verifC17Row, candidates map[string]bool, mentioned map[string]bool, what string) {
	hosts := map[string]int{}
	for _, r := range verifC17PeerRows(after, peer, "services") {
		hosts[r.Node]++
	}
	afterNodes := map[string]string{}
	for _, r := range verifC17PeerRows(after, peer, "nodes") {
		afterNodes[r.Node] = r.JSON
	}
	beforeNodes := map[string]string{}
	for _, r := range verifC17PeerRows(before, peer, "nodes") {
		beforeNodes[r.Node] = r.JSON
	}
	hostedBefore := map[string]int{}
	for _, r := range verifC17PeerRows(before, peer, "services") {
		hostedBefore[r.Node]++
	}
	for _, n := range verifC17Keys(beforeNodes) {
		_, still := afterNodes[n]
		if !still {
			// an imported node goes away while the LOCAL node of the same name owns rows in tables without a peer dimension
			for _, r := range before {
				if r.Node == n && r.Table == "sessions" {
					st.c.Label("twin:imported-node-removed-while-local-twin-has-session")
				}
				if r.Node == n && r.Table == "coordinates" {
					st.c.Label("twin:imported-node-removed-while-local-twin-has-coordinate")
				}
			}
		}
		switch {
		case candidates[n] && hosts[n] == 0:
			if still {
				st.violation(f, "C17/unused-node-left-behind", "%s: node %q of peer %q hosted only instances that were removed and no longer hosts any service, but it is still in the catalog", what, n, peer)
			}
		case !still:
			st.violation(f, "C17/node-deleted-early", "%s: node %q of peer %q was deleted although it %s", what, n, peer,
				map[bool]string{true: "still hosted services", false: "was not part of this update"}[hostedBefore[n] > 0])
		case !mentioned[n] && afterNodes[n] != beforeNodes[n]:
			st.violation(f, "C17/unmentioned-node-modified", "%s: node row %q of peer %q changed although the snapshot does not mention it:\n before %s\n after  %s", what, n, peer, beforeNodes[n], afterNodes[n])
		}
	}
	if !st.seeded[peer] {
		for _, n := range verifC17Keys(afterNodes) {
			if hosts[n] == 0 {
				st.violation(f, "C17/node-without-instance", "%s: imported node %q of peer %q hosts no service instance", what, n, peer)
			}
		}
	}
}

// otherServicesUntouched: clause (e). touched: service names whose rows may change.
func (st *verifC17State) otherServicesUntouched(f verifkit.F, peer string, before, after []verifC17Row, touched map[string]bool, what string) {
	keep := func(r verifC17Row) bool {
		if r.Owner != peer {
			return false
		}
		switch r.Table {
		case "services":
			return !touched[r.ServiceName]
		case "checks":
			return r.ServiceID != "" && !touched[r.ServiceName]
		}
		return false
	}
	onlyB, onlyA := verifC17Diff(verifC17Filter(before, keep), verifC17Filter(after, keep))
	if len(onlyB)+len(onlyA) > 0 {
		r := append(append([]verifC17Row{}, onlyB...), onlyA...)[0]
		st.violation(f, "C17/other-service-of-peer-modified/"+r.Table,
			"%s for peer %q changed rows of another service of that peer (%s).\nrows before (gone or changed):\n%srows after (new or changed):\n%s",
			what, peer, r.ServiceName, verifC17RowsString(onlyB), verifC17RowsString(onlyA))
	}
}

func (st *verifC17State) update(f verifkit.F, op verifC17Op) {
	peer, svc := op.Peer, op.Svc
	what := fmt.Sprintf("update(%s)", svc)
	if op.Snap != nil {
		if err := op.Snap.wellFormed(svc); err != nil {
			f.Fatalf("harness: snapshot violates the exporter preconditions: %v", err)
		}
	}
	before := st.dump(f)
	storedBefore := st.readSvc(f, peer, svc)
	exp := verifC17Expected(peer, op.Snap)
	st.classify(op, storedBefore, exp, before)

	st.be.reqs = nil
	sn := structs.ServiceNameFromString(svc)
	var err error
	switch {
	case op.Via == "process" && op.Snap != nil:
		var a *anypb.Any
		a, err = anypb.New(op.Snap.toProto())
		if err != nil {
			f.Fatalf("harness: anypb: %v", err)
		}
		_, err = st.srv.processResponse(peer, op.Partition, st.mst[peer], &pbpeerstream.ReplicationMessage_Response{
			ResourceURL: pbpeerstream.TypeURLExportedService, ResourceID: sn.String(), Nonce: "1",
			Operation: pbpeerstream.Operation_OPERATION_UPSERT, Resource: a,
		})
	case op.Snap == nil:
		err = st.srv.handleUpdateService(peer, op.Partition, sn, nil)
	default:
		err = st.srv.handleUpdateService(peer, op.Partition, sn, op.Snap.toProto())
	}
	if err != nil {
		st.violation(f, "C17/update-error", "%s for peer %q failed on a well-formed snapshot: %v", what, peer, err)
		return
	}
	st.updates++
	after := st.dump(f)
	got := st.readSvc(f, peer, svc)

	// (a) instances
	for _, k := range verifC17Keys(exp.Svc) {
		if _, ok := got.Svc[k]; !ok {
			st.violation(f, "C17/instance-missing", "%s: instance %s of the snapshot is not in the catalog of peer %q", what, k, peer)
		} else if got.Svc[k] != exp.Svc[k] {
			st.violation(f, "C17/instance-differs/"+verifC17DiffFields(got.Svc[k], exp.Svc[k]), "%s: instance %s of peer %q differs from the snapshot:\n stored   %s\n received %s", what, k, peer, got.Svc[k], exp.Svc[k])
		}
	}
	for _, k := range verifC17Keys(got.Svc) {
		if _, ok := exp.Svc[k]; !ok {
			st.violation(f, "C17/instance-left-behind", "%s: instance %s of peer %q is still in the catalog although the snapshot does not contain it", what, k, peer)
		}
	}
	for _, k := range verifC17Keys(exp.Svc) {
		if _, ok := got.Svc[k]; !ok {
			continue
		}
		// (b) service-level checks
		for _, id := range verifC17Keys(exp.SvcChecks[k]) {
			g, ok := got.SvcChecks[k][id]
			if !ok {
				st.violation(f, "C17/service-check-missing", "%s: check %s of instance %s (peer %q) is not in the catalog", what, id, k, peer)
			} else if g != exp.SvcChecks[k][id] {
				st.violation(f, "C17/service-check-differs/"+verifC17DiffFields(g, exp.SvcChecks[k][id]), "%s: check %s of instance %s (peer %q) differs:\n stored   %s\n received %s", what, id, k, peer, g, exp.SvcChecks[k][id])
			}
		}
		for _, id := range verifC17Keys(got.SvcChecks[k]) {
			if _, ok := exp.SvcChecks[k][id]; !ok {
				st.violation(f, "C17/service-check-left-behind", "%s: check %s of instance %s (peer %q) is still in the catalog although the snapshot does not contain it", what, id, k, peer)
			}
		}
	}
	// (c) nodes, (d) node-level checks
	for _, n := range verifC17Keys(exp.Nodes) {
		g, ok := got.Nodes[n]
		if !ok {
			continue // reported by (a)
		}
		if g != exp.Nodes[n] {
			st.violation(f, "C17/node-differs/"+verifC17DiffFields(g, exp.Nodes[n]), "%s: node %s of peer %q differs from the snapshot:\n stored   %s\n received %s", what, n, peer, g, exp.Nodes[n])
		}
		for _, id := range verifC17Keys(exp.NodeChk[n]) {
			gc, ok := got.NodeChk[n][id]
			if !ok {
				st.violation(f, "C17/node-check-missing", "%s: node check %s/%s (peer %q) is not in the catalog", what, n, id, peer)
			} else if gc != exp.NodeChk[n][id] {
				st.violation(f, "C17/node-check-differs/"+verifC17DiffFields(gc, exp.NodeChk[n][id]), "%s: node check %s/%s (peer %q) differs:\n stored   %s\n received %s", what, n, id, peer, gc, exp.NodeChk[n][id])
			}
		}
		// did the service have a stored instance on n that the snapshot still contains?
		kept := false
		for k, nn := range storedBefore.InstNode {
			if nn == n {
				if _, ok := exp.Svc[k]; ok {
					kept = true
				}
			}
		}
		existedBefore := map[string]bool{}
		for _, r := range verifC17PeerRows(before, peer, "checks") {
			if r.Node == n && r.ServiceID == "" {
				existedBefore[r.CheckID] = true
			}
		}
		for _, id := range verifC17Keys(got.NodeChk[n]) {
			if _, ok := exp.NodeChk[n][id]; ok {
				continue
			}
			switch {
			case !existedBefore[id]:
				st.violation(f, "C17/node-check-invented", "%s: node check %s/%s (peer %q) is neither in the snapshot nor was it stored before", what, n, id, peer)
			case kept:
				st.violation(f, "C17/node-check-left-behind", "%s: node check %s/%s (peer %q) is still stored although the snapshot mentions node %s without it and the service already had an instance there", what, n, id, peer, n)
			default:
				// "If the node exists but the check does not then the check was deleted": the reconciler only looks at
				// node checks through the STORED instances of this service, so a stale node check survives when the
				// service had no instance on that node that is still in the snapshot.
				if st.violation(f, "C17/node-check-left-behind/no-stored-instance-on-node", "%s: node check %s/%s (peer %q) is still stored although the snapshot mentions node %s without it (the service had no stored instance on that node that the snapshot still contains, so the reconciler never looked at it)", what, n, id, peer, n) {
					st.stale[peer+"/"+n+"/"+id] = true
				}
			}
		}
	}

	// (e)
	st.otherServicesUntouched(f, peer, before, after, map[string]bool{svc: true}, what)
	// (f)
	cand, mentioned := map[string]bool{}, map[string]bool{}
	for n := range exp.Nodes {
		mentioned[n] = true
	}
	for _, n := range storedBefore.InstNode {
		if !mentioned[n] {
			cand[n] = true
		}
	}
	st.nodeClauses(f, peer, before, after, cand, mentioned, what)
	// (g)
	st.checkRequests(f, peer, what)
	// (N)
	st.nonInterference(f, peer, before, after, what)
}

func (st *verifC17State) list(f verifkit.F, op verifC17Op) {
	peer := op.Peer
	what := fmt.Sprintf("exported-service-list(%v)", op.List)
	before := st.dump(f)
	namesBefore := st.serviceNames(f, peer)
	allowed := map[string]bool{}
	for _, s := range op.List {
		allowed[s] = true
		allowed[s+structs.SidecarProxySuffix] = true
	}
	viewsBefore := map[string]*verifC17View{}
	removed := map[string]bool{}
	cand := map[string]bool{}
	for _, s := range namesBefore {
		v := st.readSvc(f, peer, s)
		if allowed[s] {
			viewsBefore[s] = v
		} else {
			removed[s] = true
			for _, n := range v.InstNode {
				cand[n] = true
			}
			st.c.Label("list:prunes-service")
			if strings.HasSuffix(s, structs.SidecarProxySuffix) {
				st.c.Label("list:prunes-sidecar")
			}
		}
		if allowed[s] && strings.HasSuffix(s, structs.SidecarProxySuffix) && !verifC17Contains(op.List, s) {
			st.c.Label("list:keeps-sidecar-of-listed")
		}
	}
	if len(removed) == 0 {
		st.c.Label("list:prunes-nothing")
	}

	st.be.reqs = nil
	var err error
	if op.Via == "process" {
		var a *anypb.Any
		a, err = anypb.New(&pbpeerstream.ExportedServiceList{Services: op.List})
		if err != nil {
			f.Fatalf("harness: anypb: %v", err)
		}
		_, err = st.srv.processResponse(peer, op.Partition, st.mst[peer], &pbpeerstream.ReplicationMessage_Response{
			ResourceURL: pbpeerstream.TypeURLExportedServiceList, ResourceID: subExportedServiceList, Nonce: "2",
			Operation: pbpeerstream.Operation_OPERATION_UPSERT, Resource: a,
		})
	} else {
		err = st.srv.handleUpsertExportedServiceList(st.mst[peer], peer, op.Partition, &pbpeerstream.ExportedServiceList{Services: op.List})
	}
	if err != nil {
		st.violation(f, "C17/list-error", "%s for peer %q failed: %v", what, peer, err)
		return
	}
	st.updates++
	after := st.dump(f)
	for _, s := range st.serviceNames(f, peer) {
		if !allowed[s] {
			st.violation(f, "C17/unexported-service-left-behind", "%s: service %q of peer %q is still in the catalog although it is not in the exported list (and is not the sidecar of a listed service)", what, s, peer)
		}
	}
	// listed services are untouched: rows byte-identical, views identical
	st.otherServicesUntouched(f, peer, before, after, removed, what)
	for _, s := range verifC17Keys(viewsBefore) {
		a := st.readSvc(f, peer, s)
		if verifC17Canon(a.Svc) != verifC17Canon(viewsBefore[s].Svc) || verifC17Canon(a.SvcChecks) != verifC17Canon(viewsBefore[s].SvcChecks) ||
			verifC17Canon(a.Nodes) != verifC17Canon(viewsBefore[s].Nodes) || verifC17Canon(a.NodeChk) != verifC17Canon(viewsBefore[s].NodeChk) {
			st.violation(f, "C17/listed-service-modified", "%s: CheckServiceNodes(%s, %q) changed although the service is in the list", what, s, peer)
		}
	}
	// node checks of surviving nodes are untouched
	keepNC := func(r verifC17Row) bool { return r.Table == "checks" && r.Owner == peer && r.ServiceID == "" }
	survive := map[string]bool{}
	for _, r := range verifC17PeerRows(after, peer, "nodes") {
		survive[r.Node] = true
	}
	ob, oa := verifC17Diff(verifC17Filter(before, func(r verifC17Row) bool { return keepNC(r) && survive[r.Node] }), verifC17Filter(after, keepNC))
	if len(ob)+len(oa) > 0 {
		st.violation(f, "C17/list-modified-node-check", "%s for peer %q changed node-level checks of nodes that stay:\nbefore:\n%safter:\n%s", what, peer, verifC17RowsString(ob), verifC17RowsString(oa))
	}
	st.nodeClauses(f, peer, before, after, cand, map[string]bool{}, what)
	st.checkRequests(f, peer, what)
	st.nonInterference(f, peer, before, after, what)
}

func verifC17Contains(l []string, s string) bool {
	for _, x := range l {
		if x == s {
			return true
		}
	}
	return false
}

// quiesce: full equality with the exporter's catalog (consistent-exporter mode).
func (st *verifC17State) quiesce(f verifkit.F, op verifC17Op) {
	peer := op.Peer
	var wantNames []string
	wantNodes := map[string]bool{}
	for _, s := range verifC17Keys(op.Expect) {
		if len(op.Expect[s].Insts) > 0 {
			wantNames = append(wantNames, s)
		}
		for _, i := range op.Expect[s].Insts {
			wantNodes[i.Node] = true
		}
	}
	got := st.serviceNames(f, peer)
	if strings.Join(got, ",") != strings.Join(wantNames, ",") {
		st.violation(f, "C17/quiescent-service-list-differs", "after all exported services were delivered, ServiceList(%q) = %v, exporter has %v", peer, got, wantNames)
	}
	for _, s := range verifC17Keys(op.Expect) {
		exp := verifC17Expected(peer, op.Expect[s])
		g := st.readSvc(f, peer, s)
		// node checks that an earlier update already reported as left behind (tolerated finding) are attributed to it
		staleOnly := true
		gotNC := map[string]map[string]string{}
		for n, cs := range g.NodeChk {
			gotNC[n] = map[string]string{}
			for id, v := range cs {
				if _, ok := exp.NodeChk[n][id]; !ok && st.stale[peer+"/"+n+"/"+id] {
					continue
				}
				gotNC[n][id] = v
			}
		}
		if verifC17Canon(gotNC) != verifC17Canon(exp.NodeChk) {
			staleOnly = false
		}
		for _, part := range []struct {
			name     string
			got, exp any
		}{{"instances", g.Svc, exp.Svc}, {"service-checks", g.SvcChecks, exp.SvcChecks}, {"nodes", g.Nodes, exp.Nodes}, {"node-checks", g.NodeChk, exp.NodeChk}} {
			if a, b := verifC17Canon(part.got), verifC17Canon(part.exp); a != b {
				key := "C17/quiescent-" + part.name + "-differ"
				if part.name == "instances" && verifC17Canon(verifC17Keys(g.Svc)) == verifC17Canon(verifC17Keys(exp.Svc)) {
					// same instances, different content: same signature as the per-update clause
					fields := map[string]bool{}
					for k := range g.Svc {
						if g.Svc[k] != exp.Svc[k] {
							fields[verifC17DiffFields(g.Svc[k], exp.Svc[k])] = true
						}
					}
					key = "C17/instance-differs/" + strings.Join(verifC17Keys(fields), "+")
				}
				if part.name == "node-checks" && staleOnly {
					key = "C17/node-check-left-behind/no-stored-instance-on-node"
				}
				st.violation(f, key, "after all exported services were delivered against one exporter catalog, CheckServiceNodes(%s, %q) %s differ:\n stored   %s\n exporter %s", s, peer, part.name, a, b)
			}
		}
		// node checks are attached to every instance of the node
		for k, ids := range g.nodeChkBy {
			if len(ids) != len(g.NodeChk[g.InstNode[k]]) {
				st.violation(f, "C17/read-error", "instance %s does not carry all node checks of its node", k)
			}
		}
	}
	_, nodes, err := st.store.Nodes(nil, acl.DefaultEnterpriseMeta(), peer)
	if err != nil {
		f.Fatalf("harness: Nodes: %v", err)
	}
	gotNodes := map[string]bool{}
	for _, n := range nodes {
		gotNodes[n.Node] = true
	}
	if a, b := fmt.Sprint(verifC17Keys(gotNodes)), fmt.Sprint(verifC17Keys(wantNodes)); a != b {
		st.violation(f, "C17/quiescent-nodes-differ", "after all exported services were delivered, Nodes(%q) = %s, exporter uses %s", peer, a, b)
	}
}

// classify: labels and the non-triviality rule for one update.
func (st *verifC17State) classify(op verifC17Op, stored, exp *verifC17View, before []verifC17Row) {
	c := st.c
	c.Label("via=" + op.Via)
	if op.Peer == verifC17PeerB {
		c.Label("target=peerB(seeded)")
	}
	switch {
	case op.Snap == nil:
		c.Label("shape:delete-nil")
	case len(op.Snap.Insts) == 0:
		c.Label("shape:delete-empty")
	}
	if strings.HasSuffix(op.Svc, structs.SidecarProxySuffix) {
		c.Label("shape:sidecar-proxy")
	}
	sharesNode, sharesCheck, moved := false, false, false
	peerNodes := map[string]bool{} // nodes the peer's stored state has (under any of its services)
	for _, r := range verifC17PeerRows(before, op.Peer, "nodes") {
		peerNodes[r.Node] = true
	}
	for n := range exp.Nodes {
		if peerNodes[n] {
			sharesNode = true
		}
		if len(exp.NodeChk[n]) > 0 {
			c.Label("shape:node-level-check")
		}
	}
	for k, cs := range exp.SvcChecks {
		if len(cs) > 0 {
			c.Label("shape:service-level-check")
		}
		for id := range cs {
			if _, ok := stored.SvcChecks[k][id]; ok {
				sharesCheck = true
			}
		}
	}
	for n, cs := range exp.NodeChk {
		for id := range cs {
			if _, ok := stored.NodeChk[n][id]; ok {
				sharesCheck = true
			}
		}
	}
	sidOf := func(k string) string { return k[strings.Index(k, "/")+1:] }
	for k := range exp.Svc {
		if _, ok := stored.Svc[k]; ok {
			continue
		}
		for k2 := range stored.Svc {
			if sidOf(k2) == sidOf(k) {
				if _, still := exp.Svc[k2]; !still {
					moved = true
				}
			}
		}
	}
	if moved {
		c.Label("shape:instance-moves-node")
	}
	same := verifC17Canon(stored.Svc) == verifC17Canon(exp.Svc) && verifC17Canon(stored.SvcChecks) == verifC17Canon(exp.SvcChecks) &&
		verifC17Canon(stored.Nodes) == verifC17Canon(exp.Nodes) && verifC17Canon(stored.NodeChk) == verifC17Canon(exp.NodeChk)
	if same && len(exp.Svc) > 0 {
		c.Label("shape:identical-resend")
	}
	if len(stored.Svc) == 0 && len(exp.Svc) > 0 {
		c.Label("shape:first-import")
	}
	// nodes shared with other services of the peer / unused nodes
	hostOther := map[string]bool{}
	for _, r := range verifC17PeerRows(before, op.Peer, "services") {
		if r.ServiceName != op.Svc {
			hostOther[r.Node] = true
		}
	}
	for n := range exp.Nodes {
		if hostOther[n] {
			c.Label("shape:node-shared-with-other-service")
		}
	}
	for _, n := range stored.InstNode {
		if _, ok := exp.Nodes[n]; !ok {
			if hostOther[n] {
				c.Label("shape:dropped-node-kept-for-other-service")
			} else {
				c.Label("shape:dropped-node-becomes-unused")
			}
		}
	}
	// colliding names in local / the other peer
	collide := false
	names := map[string]bool{op.Svc: true}
	for n := range exp.Nodes {
		names["node:"+n] = true
	}
	for n := range stored.Nodes {
		names["node:"+n] = true
	}
	for _, r := range before {
		if r.Owner == op.Peer || (r.Table != "nodes" && r.Table != "services") {
			continue
		}
		if (r.Table == "nodes" && names["node:"+r.Node]) || (r.Table == "services" && names[r.ServiceName]) {
			collide = true
		}
	}
	if collide {
		c.Label("collision:local-or-other-peer")
	}
	if (sharesNode || sharesCheck) && !same && collide {
		c.Label("nontrivial-update")
		c.NonTrivial()
	}
}
