package connect

// Native coverage-guided fuzz target for C12's parser clauses (thorough tier): two arbitrary strings are taken as raw
// SPIFFE URLs and run through the same oracle as TestVerifC12Parser (R2 round trip of whatever parses, R3 parsed
// identity = per-segment decoding of the raw path, R4 no two different identities build the same URI).

import (
	"strings"
	"testing"

	"github.com/hashicorp/consul/internal/verifkit"
)

func FuzzVerifC12URI(f *testing.F) {
	seeds := []string{
		"spiffe://1234.consul/ns/default/dc/dc1/svc/web",
		"spiffe://1234.consul/ns/default/dc/dc1/svc/baz%2Fqux",
		"spiffe://1234.consul/ap/part/ns/default/dc/dc1/svc/web",
		"spiffe://1234.consul/agent/client/dc/dc1/id/n1",
		"spiffe://1234.consul/agent/server/dc/dc1",
		"spiffe://1234.consul/gateway/mesh/dc/dc1",
		"spiffe://1234.consul",
		"spiffe://1234.CONSUL:8443/ns/default/dc/dc1/svc/web?x=1#f",
		"spiffe://u@1234.consul/ns/default/dc/a%2Fsvc%2Fb/svc/c",
		"spiffe://1234.consul/ns/default/dc/dc1/svc/a b{c}\\\"",
		"SPIFFE://1234.consul/NS/default/DC/dc1/SVC/web",
	}
	for i, a := range seeds {
		f.Add(a, seeds[(i+1)%len(seeds)])
		f.Add(a, a)
	}
	rec := verifkit.For("C12")
	f.Fuzz(func(t *testing.T, r1, r2 string) {
		// The independent reader of the oracle (R3) is defined for URLs with an authority, "spiffe://host/path…",
		// which is the shape of a SPIFFE ID; other shapes (no authority, opaque) are outside the oracle's domain.
		for _, r := range []string{r1, r2} {
			if len(r) < 9 || !strings.EqualFold(r[:9], "spiffe://") {
				return
			}
			auth := r[9:]
			if i := strings.IndexAny(auth, "/?#"); i >= 0 {
				auth = auth[:i]
			}
			for _, ch := range []byte(auth) { // plain reg-name authorities only: net/url decodes escapes inside a host, the hand reader does not
				if !(ch >= 'a' && ch <= 'z' || ch >= 'A' && ch <= 'Z' || ch >= '0' && ch <= '9' || ch == '.' || ch == '-' || ch == ':' || ch == '@') {
					return
				}
			}
		}
		c := rec.NewCase()
		defer c.GuardPanic(t, "C12/panic")
		op := verifC12ParserOp{Op: "raw", Raw: []string{r1, r2}}
		c.Op(op)
		verifC12ParserStep(t, c, op)
	})
}
