package connect

// C12 (part b) — identity URIs: what is built, what is parsed and what a verifier reads are the same identity.
//
// Generated: (1) identity structs of every kind (service, agent, server, mesh gateway, signing) whose fields come
// from a pool with reserved characters ("/", "%", "%2F", "..", "?", "#", blank, quotes, unicode, upper case);
// (2) raw SPIFFE URLs from a grammar over the five path shapes (+ garbage) with per-segment escaping styles
// (minimal, over-escaped, lower-case hex, %2F/%2f, raw characters that url.Parse accepts but re-escapes, broken
// escapes) and mutations (keyword case, extra/empty segments, userinfo, port, query, fragment), in PAIRS.
//
// Oracle
//   R1  for every struct X:  ParseCertURI(X.URI()) and ParseCertURIFromString(X.URI().String()) (the form that goes
//       into a certificate) both succeed and give X;
//   R2  for every raw URL r that parses to X:  R1 holds for X;
//   R3  (decoded path names) if r parses to X then X is exactly what the path of r, split at the literal "/" and
//       percent-decoded per segment by the harness' own decoder, names: the fixed keywords are present literally and
//       every name field equals the decoded segment at its position; X.Host is the host written in r;
//   R4  (identity confusion) two raw URLs that parse to DIFFERENT identities never give the same X.URI() string.
//
// "Same identity" is equality of the structs modulo what Consul CE documents as insignificant: the namespace of a
// service is always "default" in CE (acl.NamespaceOrDefault), an empty partition is "default", partitions are
// case-folded (SpiffeIDService.PartitionOrDefault) and do not exist for agents and mesh gateways in CE (their
// uriPath has no /ap/ element); a signing ID is its lower-cased host (SpiffeIDSigning.Host).
// Not asserted: that any particular raw URL is accepted — an error is always an acceptable answer of the parser.

import (
	"encoding/json"
	"fmt"
	"net/url"
	"strings"
	"testing"

	"pgregory.net/rapid"

	"github.com/hashicorp/consul/internal/verifkit"
)

type verifC12Ident struct {
	Kind       string `json:"kind"` // service | agent | server | mesh | signing
	Host       string `json:"host,omitempty"`
	Partition  string `json:"ap,omitempty"`
	Namespace  string `json:"ns,omitempty"`
	Datacenter string `json:"dc,omitempty"`
	Name       string `json:"name,omitempty"`
	ClusterID  string `json:"cluster,omitempty"`
	Domain     string `json:"domain,omitempty"`
}

type verifC12ParserOp struct {
	Op    string         `json:"op"` // struct | raw
	Ident *verifC12Ident `json:"ident,omitempty"`
	Raw   []string       `json:"raw,omitempty"`
}

func (v verifC12Ident) certURI() CertURI {
	switch v.Kind {
	case "service":
		return &SpiffeIDService{Host: v.Host, Partition: v.Partition, Namespace: v.Namespace, Datacenter: v.Datacenter, Service: v.Name}
	case "agent":
		return &SpiffeIDAgent{Host: v.Host, Partition: v.Partition, Datacenter: v.Datacenter, Agent: v.Name}
	case "server":
		return &SpiffeIDServer{Host: v.Host, Datacenter: v.Datacenter}
	case "mesh":
		return &SpiffeIDMeshGateway{Host: v.Host, Partition: v.Partition, Datacenter: v.Datacenter}
	case "signing":
		return &SpiffeIDSigning{ClusterID: v.ClusterID, Domain: v.Domain}
	}
	return nil
}

func verifC12IdentOf(c CertURI) verifC12Ident {
	switch x := c.(type) {
	case *SpiffeIDService:
		return verifC12Ident{Kind: "service", Host: x.Host, Partition: x.Partition, Namespace: x.Namespace, Datacenter: x.Datacenter, Name: x.Service}
	case *SpiffeIDAgent:
		return verifC12Ident{Kind: "agent", Host: x.Host, Partition: x.Partition, Datacenter: x.Datacenter, Name: x.Agent}
	case *SpiffeIDServer:
		return verifC12Ident{Kind: "server", Host: x.Host, Datacenter: x.Datacenter}
	case *SpiffeIDMeshGateway:
		return verifC12Ident{Kind: "mesh", Host: x.Host, Partition: x.Partition, Datacenter: x.Datacenter}
	case *SpiffeIDSigning:
		return verifC12Ident{Kind: "signing", ClusterID: x.ClusterID, Domain: x.Domain}
	}
	return verifC12Ident{Kind: fmt.Sprintf("unknown:%T", c)}
}

// verifC12Norm maps an identity to its CE equivalence class representative (see the header).
func verifC12Norm(v verifC12Ident) verifC12Ident {
	switch v.Kind {
	case "service":
		v.Namespace = "default"
		v.Partition = strings.ToLower(v.Partition)
		if v.Partition == "" {
			v.Partition = "default"
		}
	case "agent", "mesh":
		v.Partition = "default"
	case "signing":
		h := strings.ToLower(v.ClusterID + "." + v.Domain)
		v.ClusterID, v.Domain = h, ""
	}
	return v
}

// verifC12ExtraSlash: the escaped path has more "/" than a well-formed URI of the kind has.
func verifC12ExtraSlash(kind, escapedPath string) bool {
	want := 0
	switch kind {
	case "service":
		want = 6
		if strings.HasPrefix(escapedPath, "/ap/") {
			want = 8
		}
	case "agent":
		want = 6 // CE: no /ap/ element
	case "server", "mesh":
		want = 4
	default:
		return false
	}
	return strings.Count(escapedPath, "/") > want
}

// verifC12RoundTrip is R1/R2 for one identity. what = where X came from (for the message).
func verifC12RoundTrip(f verifkit.F, c *verifkit.Case, x verifC12Ident, what string) {
	cu := x.certURI()
	u := cu.URI()
	want := verifC12Norm(x)
	check := func(how string, got CertURI, err error) {
		key := ""
		detail := ""
		switch {
		case err != nil:
			key, detail = "C12/uri-roundtrip-fails", fmt.Sprintf("does not parse: %v", err)
		case verifC12Norm(verifC12IdentOf(got)) != want:
			key, detail = "C12/uri-roundtrip-differs", fmt.Sprintf("parses to a different identity %+v", verifC12IdentOf(got))
		default:
			return
		}
		if verifC12ExtraSlash(x.Kind, u.EscapedPath()) {
			// root cause visible in the output: the builder wrote a name containing "/" unescaped, so the path has more
			// segments than the kind's grammar
			key = "C12/uri-builder-emits-unescaped-slash"
		}
		c.Violation(f, key, "%s: identity %+v builds URI %q (Path %q RawPath %q) which %s %s", what, x, u.String(), u.Path, u.RawPath, how, detail)
	}
	got, err := ParseCertURI(u)
	check("given to ParseCertURI as built", got, err)
	got, err = ParseCertURIFromString(u.String())
	check("as the string a certificate carries", got, err)
}

// ---- independent reading of a raw URL (R3)

func verifC12Unhex(b byte) int {
	switch {
	case b >= '0' && b <= '9':
		return int(b - '0')
	case b >= 'a' && b <= 'f':
		return int(b-'a') + 10
	case b >= 'A' && b <= 'F':
		return int(b-'A') + 10
	}
	return -1
}

func verifC12PctDecode(s string) (string, bool) {
	var out []byte
	for i := 0; i < len(s); i++ {
		if s[i] != '%' {
			out = append(out, s[i])
			continue
		}
		if i+2 >= len(s) {
			return "", false
		}
		h, l := verifC12Unhex(s[i+1]), verifC12Unhex(s[i+2])
		if h < 0 || l < 0 {
			return "", false
		}
		out = append(out, byte(h<<4|l))
		i += 2
	}
	return string(out), true
}

// verifC12Split cuts "spiffe://[userinfo@]host[:port]/path[?query][#fragment]" by hand: authority as written,
// path segments as written (nil when there is no path at all), and the ?query#fragment tail.
func verifC12Split(raw string) (auth string, segs []string, tail string, ok bool) {
	const pre = "spiffe://"
	if len(raw) < len(pre) || !strings.EqualFold(raw[:len(pre)], pre) { // schemes are case-insensitive (RFC 3986 §3.1)
		return "", nil, "", false
	}
	rest := raw[len(pre):]
	if i := strings.IndexAny(rest, "?#"); i >= 0 {
		rest, tail = rest[:i], rest[i:]
	}
	auth = rest
	path := ""
	if i := strings.IndexByte(rest, '/'); i >= 0 {
		auth, path = rest[:i], rest[i:]
	}
	if path == "" {
		return auth, nil, tail, true
	}
	return auth, strings.Split(path[1:], "/"), tail, true
}

// verifC12ReadRaw: host (userinfo removed) and raw path segments.
func verifC12ReadRaw(raw string) (host string, segs []string, ok bool) {
	auth, segs, _, ok := verifC12Split(raw)
	if !ok {
		return "", nil, false
	}
	if i := strings.LastIndexByte(auth, '@'); i >= 0 {
		auth = auth[i+1:]
	}
	return auth, segs, true
}

// verifC12Expected: the identity the decoded path of raw names, if it has one of the documented shapes.
func verifC12Expected(raw string) (verifC12Ident, bool) {
	host, segs, ok := verifC12ReadRaw(raw)
	if !ok {
		return verifC12Ident{}, false
	}
	dec := make([]string, len(segs))
	for i, s := range segs {
		d, ok := verifC12PctDecode(s)
		if !ok {
			return verifC12Ident{}, false
		}
		dec[i] = d
	}
	ap := "default"
	s, d := segs, dec
	hasAP := false
	if len(s) >= 2 && s[0] == "ap" {
		hasAP = true
		ap = d[1]
		s, d = s[2:], d[2:]
	}
	switch {
	case len(s) == 6 && s[0] == "ns" && s[2] == "dc" && s[4] == "svc":
		return verifC12Ident{Kind: "service", Host: host, Partition: ap, Namespace: d[1], Datacenter: d[3], Name: d[5]}, true
	case len(s) == 6 && s[0] == "agent" && s[1] == "client" && s[2] == "dc" && s[4] == "id":
		return verifC12Ident{Kind: "agent", Host: host, Partition: ap, Datacenter: d[3], Name: d[5]}, true
	case len(s) == 4 && s[0] == "gateway" && s[1] == "mesh" && s[2] == "dc":
		return verifC12Ident{Kind: "mesh", Host: host, Partition: ap, Datacenter: d[3]}, true
	case !hasAP && len(s) == 4 && s[0] == "agent" && s[1] == "server" && s[2] == "dc":
		return verifC12Ident{Kind: "server", Host: host, Datacenter: d[3]}, true
	case !hasAP && len(segs) == 0:
		if i := strings.IndexByte(host, '.'); i > 0 {
			return verifC12Ident{Kind: "signing", ClusterID: host[:i], Domain: host[i+1:]}, true
		}
	}
	return verifC12Ident{}, false
}

// ---- generators

var verifC12Names = []string{
	"web", "web", "api", "db", "Web", "WEB", "web-proxy", "web.v1", "we", "n1", "node-1",
	"a/b", "web/..", "../web", "a/svc/b", "dc1/svc/web", "/", "web/",
	"a%2Fb", "%2F", "%", "100%", "%zz", "a%2fb",
	"..", ".", "...", "web ", " web", "a b", "a\"b", "a?b", "a#b", "a;b", "a:b", "a@b", "a+b", "a&b=c", "a\\b", "a|b", "{a}", "[a]",
	"ü", "wéb", "日本", "default", "dc1", "svc", "ns", "*",
}
var verifC12DCs = []string{"dc1", "dc1", "dc1", "dc2", "DC1", "Dc1", "dc1 ", "dc/1", "dc1/x", "dc%31", "dç1", ".."}
var verifC12Spaces = []string{"default", "default", "default", "Default", "DEFAULT", "foo", "Foo", "ns1", "a/b", "def%61ult"}
var verifC12Hosts = []string{
	"11111111-2222-3333-4444-555555555555.consul", "11111111-2222-3333-4444-555555555555.consul",
	"11111111-2222-3333-4444-555555555555.CONSUL", "11111111-2222-3333-4444-555555555555.Consul",
	"AAAAAAAA-2222-3333-4444-555555555555.consul", "foreign.test", "consul", "", "1234.consul", "a.b.c",
}

func verifC12Pick(t *rapid.T, pool []string, label string) string {
	return pool[rapid.IntRange(0, len(pool)-1).Draw(t, label)]
}

func verifC12GenIdent(t *rapid.T) verifC12Ident {
	k := []string{"service", "service", "service", "agent", "agent", "mesh", "server", "signing"}[rapid.IntRange(0, 7).Draw(t, "kind")]
	v := verifC12Ident{Kind: k}
	if k == "signing" {
		v.ClusterID = []string{"1234", "11111111-2222-3333-4444-555555555555", "ABCD", "x"}[rapid.IntRange(0, 3).Draw(t, "cluster")]
		v.Domain = []string{"consul", "Consul", "a.b", "test"}[rapid.IntRange(0, 3).Draw(t, "domain")]
		return v
	}
	v.Host = verifC12Pick(t, verifC12Hosts, "host")
	v.Datacenter = verifC12Pick(t, verifC12DCs, "dc")
	switch k {
	case "service":
		v.Namespace = verifC12Pick(t, verifC12Spaces, "ns")
		v.Partition = verifC12Pick(t, append([]string{""}, verifC12Spaces...), "ap")
		v.Name = verifC12Pick(t, verifC12Names, "name")
	case "agent":
		v.Partition = verifC12Pick(t, append([]string{""}, verifC12Spaces...), "ap")
		v.Name = verifC12Pick(t, verifC12Names, "name")
	case "mesh":
		v.Partition = verifC12Pick(t, append([]string{""}, verifC12Spaces...), "ap")
	}
	return v
}

const verifC12Upper = "0123456789ABCDEF"
const verifC12Lower = "0123456789abcdef"

// verifC12Escape writes a decoded segment in one of several spellings.
func verifC12Escape(t *rapid.T, s string, label string) string {
	style := rapid.IntRange(0, 9).Draw(t, label+"-style")
	var b strings.Builder
	for i := 0; i < len(s); i++ {
		ch := s[i]
		hex := verifC12Upper
		must := ch == '/' || ch == '%' || ch == '?' || ch == '#' || ch < 0x21 || ch >= 0x7f
		esc := must
		switch style {
		case 0, 1, 2, 3: // minimal
		case 4: // lower-case hex
			hex = verifC12Lower
		case 5: // over-escape everything
			esc = true
		case 6: // over-escape the first character, lower hex
			esc = must || i == 0
			hex = verifC12Lower
		case 7: // leave characters raw that url.Parse tolerates in a path (blank, quote, ...) but String() re-escapes
			if ch == ' ' || ch == '"' || ch == '\\' || ch == '|' || ch == '{' || ch == '}' || ch >= 0x80 {
				esc = false
			}
		case 8: // over-escape the last character
			esc = must || i == len(s)-1
		case 9: // escape "." and letters of keywords
			esc = must || ch == '.' || ch == 'd' || ch == 's'
		}
		if esc {
			b.WriteByte('%')
			b.WriteByte(hex[ch>>4])
			b.WriteByte(hex[ch&15])
		} else {
			b.WriteByte(ch)
		}
	}
	return b.String()
}

// verifC12GenRaw draws one raw URL.
func verifC12GenRaw(t *rapid.T) string {
	host := verifC12Pick(t, verifC12Hosts, "host")
	name := func(l string) string { return verifC12Escape(t, verifC12Pick(t, verifC12Names, l), l) }
	dc := func() string { return verifC12Escape(t, verifC12Pick(t, verifC12DCs, "dc"), "dc") }
	space := func(l string) string { return verifC12Escape(t, verifC12Pick(t, verifC12Spaces, l), l) }
	var segs []string
	switch rapid.IntRange(0, 9).Draw(t, "shape") {
	case 0, 1, 2:
		segs = []string{"ns", space("ns"), "dc", dc(), "svc", name("svc")}
	case 3:
		segs = []string{"ap", space("ap"), "ns", space("ns"), "dc", dc(), "svc", name("svc")}
	case 4, 5:
		segs = []string{"agent", "client", "dc", dc(), "id", name("id")}
		if rapid.IntRange(0, 3).Draw(t, "agent-ap") == 0 {
			segs = append([]string{"ap", space("ap")}, segs...)
		}
	case 6:
		segs = []string{"gateway", "mesh", "dc", dc()}
		if rapid.IntRange(0, 3).Draw(t, "mesh-ap") == 0 {
			segs = append([]string{"ap", space("ap")}, segs...)
		}
	case 7:
		segs = []string{"agent", "server", "dc", dc()}
	case 8:
		segs = nil // signing
	case 9: // garbage
		n := rapid.IntRange(1, 7).Draw(t, "garbage-n")
		for i := 0; i < n; i++ {
			segs = append(segs, verifC12Pick(t, []string{"ns", "dc", "svc", "ap", "agent", "client", "server", "id", "gateway", "mesh", "default", "dc1", "web", "", "%2F", ".."}, "garbage"))
		}
	}
	raw := "spiffe://" + host
	if segs != nil {
		raw += "/" + strings.Join(segs, "/")
	}
	return verifC12Mutate(t, raw, rapid.IntRange(0, 2).Draw(t, "nmut")/2)
}

func verifC12Mutate(t *rapid.T, raw string, n int) string {
	for ; n > 0; n-- {
		auth, segs, tail, ok := verifC12Split(raw)
		if !ok {
			return raw
		}
		m := rapid.IntRange(0, 12).Draw(t, "mut")
		pos := 0
		if len(segs) > 0 {
			pos = rapid.IntRange(0, len(segs)-1).Draw(t, "mutpos")
		}
		switch m {
		case 0:
			tail = "?x=y" + tail
		case 1:
			tail = tail + "#frag"
		case 2:
			auth = "user@" + auth
		case 3:
			auth = auth + ":8443"
		case 4: // change the case of a segment
			if len(segs) > 0 {
				segs[pos] = strings.ToUpper(segs[pos])
			}
		case 5: // drop a segment
			if len(segs) > 0 {
				segs = append(segs[:pos:pos], segs[pos+1:]...)
			}
		case 6: // duplicate a segment
			if len(segs) > 0 {
				segs = append(segs[:pos+1:pos+1], segs[pos:]...)
			}
		case 7: // empty segment / trailing slash
			segs = append(segs, "")
		case 8: // swap an escaped slash for a real one and vice versa
			if len(segs) > 0 {
				if strings.Contains(segs[pos], "%2F") {
					segs[pos] = strings.Replace(segs[pos], "%2F", "/", 1)
				} else {
					segs[pos] = segs[pos] + "%2F" + verifC12Pick(t, []string{"x", "..", "svc", "web"}, "mutextra")
				}
			}
		case 9: // escape a keyword letter
			if len(segs) > 0 && len(segs[pos]) > 0 && segs[pos][0] != '%' {
				ch := segs[pos][0]
				segs[pos] = "%" + string(verifC12Upper[ch>>4]) + string(verifC12Upper[ch&15]) + segs[pos][1:]
			}
		case 10: // broken escape
			if len(segs) > 0 {
				segs[pos] += verifC12Pick(t, []string{"%", "%2", "%zz", "%G0"}, "broken")
			}
		case 12: // write one path separator as %2F (two segments collapse into one)
			if len(segs) > 1 && pos+1 < len(segs) {
				merged := segs[pos] + "%2F" + segs[pos+1]
				segs = append(append(segs[:pos:pos], merged), segs[pos+2:]...)
			}
		case 11: // scheme
			raw = verifC12Pick(t, []string{"SPIFFE", "https", "spiffe2"}, "scheme") + raw[len("spiffe"):]
			return raw
		}
		raw = "spiffe://" + auth
		if segs != nil {
			raw += "/" + strings.Join(segs, "/")
		}
		raw += tail
	}
	return raw
}

func verifC12HasReserved(s string) bool {
	return strings.ContainsAny(s, "/%?# \"\\|{}[];:@+&=.") || s != strings.ToLower(s) || !verifC12ASCII(s)
}

func verifC12ASCII(s string) bool {
	for i := 0; i < len(s); i++ {
		if s[i] >= 0x80 {
			return false
		}
	}
	return true
}

// ---- the property

func verifC12ParserStep(f verifkit.F, c *verifkit.Case, op verifC12ParserOp) {
	switch op.Op {
	case "struct":
		x := *op.Ident
		c.Label("struct:" + x.Kind)
		if verifC12HasReserved(x.Name) || verifC12HasReserved(x.Datacenter) {
			c.Label("struct:reserved-characters")
			c.NonTrivial()
		}
		verifC12RoundTrip(f, c, x, "generated struct")
	case "raw":
		type parsed struct {
			raw string
			x    verifC12Ident
			uri  string
			path string
		}
		var ps []parsed
		for _, raw := range op.Raw {
			cu, err := ParseCertURIFromString(raw)
			if err != nil {
				c.Label("raw:rejected")
				continue
			}
			x := verifC12IdentOf(cu)
			c.Label("raw:parsed:" + x.Kind)
			// R3
			exp, ok := verifC12Expected(raw)
			switch {
			case !ok:
				c.Violation(f, "C12/parser-accepts-path-outside-grammar", "raw URL %q parses to %+v but its path, split at \"/\" and decoded per segment, has none of the documented shapes", raw, x)
			case exp != x:
				key := "C12/parsed-name-differs-from-decoded-path"
				if exp.Kind != x.Kind {
					key = "C12/parsed-kind-differs-from-decoded-path"
				}
				c.Violation(f, key, "raw URL %q parses to %+v but its decoded path names %+v", raw, x, exp)
			}
			canon := x.certURI().URI().String()
			if canon != raw {
				c.Label("raw:non-canonical-accepted")
				c.NonTrivial()
			}
			// R2
			verifC12RoundTrip(f, c, x, fmt.Sprintf("parsed from raw URL %q", raw))
			ps = append(ps, parsed{raw, x, cu.URI().String(), cu.URI().EscapedPath()})
		}
		// R4
		for i := 0; i < len(ps); i++ {
			for j := i + 1; j < len(ps); j++ {
				a, b := ps[i], ps[j]
				if verifC12Norm(a.x) == verifC12Norm(b.x) {
					if a.raw != b.raw {
						c.Label("raw:pair-same-identity-different-spelling")
					}
					continue
				}
				c.Label("raw:pair-different-identities")
				if a.uri == b.uri {
					key := "C12/uri-collision"
					if verifC12ExtraSlash(a.x.Kind, a.path) || verifC12ExtraSlash(b.x.Kind, b.path) {
						key = "C12/uri-builder-emits-unescaped-slash"
					}
					c.Violation(f, key, "raw URLs %q and %q parse to different identities %+v and %+v which both build the URI %q", a.raw, b.raw, a.x, b.x, a.uri)
				}
			}
		}
	default:
		f.Fatalf("unknown op %q", op.Op)
	}
}

func TestVerifC12Parser(t *testing.T) {
	rec := verifkit.For("C12")
	defer rec.Flush()
	rapid.Check(t, func(t *rapid.T) {
		c := rec.NewCase()
		defer c.GuardPanic(t, "C12/panic")
		var op verifC12ParserOp
		if rapid.IntRange(0, 2).Draw(t, "mode") == 0 {
			x := verifC12GenIdent(t)
			op = verifC12ParserOp{Op: "struct", Ident: &x}
		} else {
			r1 := verifC12GenRaw(t)
			var r2 string
			switch rapid.IntRange(0, 3).Draw(t, "pair") {
			case 0:
				r2 = verifC12GenRaw(t)
			case 1: // the canonical respelling of what r1 parses to
				r2 = r1
				if cu, err := ParseCertURIFromString(r1); err == nil {
					r2 = cu.URI().String()
				}
			default:
				r2 = verifC12Mutate(t, r1, 1)
			}
			op = verifC12ParserOp{Op: "raw", Raw: []string{r1, r2}}
		}
		c.Op(op)
		verifC12ParserStep(t, c, op)
		c.Done()
	})
}

func TestVerifC12ParserReplay(t *testing.T) {
	rec := verifkit.For("C12")
	defer rec.Flush()
	for _, path := range verifkit.ReplayFiles("C12") {
		rp, err := verifkit.LoadReplay(path)
		if err != nil {
			t.Fatalf("%v", err)
		}
		c := rec.NewCase()
		c.Label("replay")
		for _, raw := range rp.Ops {
			var op verifC12ParserOp
			if err := json.Unmarshal(raw, &op); err != nil || (op.Op != "struct" && op.Op != "raw") {
				continue // a replay of another part of C12
			}
			if op.Op == "struct" && op.Ident == nil {
				continue
			}
			c.Op(op)
			verifC12ParserStep(t, c, op)
		}
		c.Done()
	}
}

var _ = url.Parse
