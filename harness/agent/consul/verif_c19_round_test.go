package consul

// C19, "round" tier: whole replication rounds through the REAL round functions.
//
//   - Type "acl": Server.replicateACLType (with deleteLocalACLType / updateLocalACLType and their batching by
//     aclBatchDeleteSize / aclBatchUpsertSize) is driven with a minimal Server (only config.ACLReplicationApplyLimit
//     is read) and an in-memory aclTypeReplicator whose primary and secondary are plain maps. diffACLType, the
//     "remote index went backwards" reset, the batching and the returned index are all the real code.
//   - Type "fedstate": IndexReplicator.Replicate (replication.go) is driven with an in-memory
//     IndexReplicatorDelegate whose DiffRemoteAndLocalState is the real FederationStateReplicator's.
//
// A case is a SEQUENCE of 1-3 rounds. The secondary's state and the lastRemoteIndex are carried from round to
// round exactly as Replicator.Run carries them (the index a successful round returns is the next round's
// lastRemoteIndex). Per round the primary is given in full (objects + table index). Between rounds the primary
//   - is unchanged (same index)                      -> the round must not write,
//   - evolves (objects created / modified / touched / deleted at indexes above the previous table index),
//   - is REBUILT with lower indexes (restored from an older backup: table index < lastRemoteIndex, object indexes
//     arbitrary below it). The loop detects this by "remote index < lastRemoteIndex" and must then behave as with
//     lastRemoteIndex = 0; nothing may be assumed about the objects.
//
// The first round starts either inside the ordinary contract (see verif_c19_repl_test.go) or as a rebuilt-primary
// round (lastRemoteIndex stale and higher than the primary's index).
//
// Oracle, after every round: err == nil, exit == false, returned index == the primary's table index, secondary ==
// primary for the replicated subset (empty-ID objects neither deleted nor copied), nothing written when the
// secondary was already equal, no object the last round already covered (ModifyIndex <= lastRemoteIndex, index
// not gone backwards) written again. Sizes are drawn so that upsert batch boundaries (256 KiB of estimated size)
// fall on every element position; bulk objects give rounds of several delete batches (4096 IDs) and many upsert
// batches.
//
// Not drivable this way: Server.replicateConfig / reconcileLocalConfig. They have no delegate seam: the remote
// fetch is s.RPC("ConfigEntry.ListAll"), the local read is s.fsm.State(), every apply is s.leaderRaftApply (raft).
// Their skeleton (fetch, index-backwards reset, diff, deletions then updates, return remote index) is the same
// as IndexReplicator.Replicate, which is driven here; their diff is covered by the pure/store tiers.

import (
	"context"
	"fmt"
	"sort"
	"testing"
	"time"

	"github.com/hashicorp/go-hclog"

	"github.com/hashicorp/consul/agent/structs"
	"github.com/hashicorp/consul/internal/verifkit"
	"pgregory.net/rapid"
)

type verifC19Bulk struct {
	N   int    `json:"n"`
	Sz  int    `json:"sz"`
	C   int    `json:"c"`
	Mod uint64 `json:"mod"`
}

type verifC19Round struct {
	Kind   string        `json:"kind"` // contract | rebuilt | unchanged | evolve (informational; the contract is re-derived)
	Remote []verifC19Obj `json:"remote"`
	Index  uint64        `json:"index"` // the primary's table index (what the list RPC returns)
	Bulk   *verifC19Bulk `json:"bulk,omitempty"`
}

const verifC19RoundIDs = 8

func verifC19RoundID(typ string, id int) string {
	if id < 0 {
		return ""
	}
	if typ == "fedstate" {
		return fmt.Sprintf("dc%02d", id)
	}
	return fmt.Sprintf("k%02d", id)
}

type verifC19Item struct {
	ID  string
	C   int
	Mod uint64
	Sz  int
	PMI uint64 // fedstate: PrimaryModifyIndex
}

func (it verifC19Item) hash() []byte { return []byte{byte(it.C), byte(it.C >> 8), 0x19} }

// verifC19World is the in-memory primary + secondary behind both fake delegates.
type verifC19World struct {
	typ       string
	primary   []verifC19Item // in the order the "RPC" returns them (arbitrary)
	priIndex  uint64
	secondary map[string]verifC19Item
	secOrder  []string       // order FetchLocal returns the secondary's objects in
	secEmpty  []verifC19Item // empty-ID objects of the secondary

	// per round bookkeeping
	upserted      []string
	deleted       []string
	upsertBatches []int
	deleteBatches []int
	emptyWritten  bool

	// aclTypeReplicator working state
	local, remote, updated []verifC19Item
}

func (w *verifC19World) localList() []verifC19Item {
	var out []verifC19Item
	seen := map[string]bool{}
	for _, id := range w.secOrder {
		if it, ok := w.secondary[id]; ok && !seen[id] {
			seen[id] = true
			out = append(out, it)
		}
	}
	var rest []string
	for id := range w.secondary {
		if !seen[id] {
			rest = append(rest, id)
		}
	}
	sort.Sort(sort.Reverse(sort.StringSlice(rest))) // deterministic and not the order the diff needs
	for _, id := range rest {
		out = append(out, w.secondary[id])
	}
	// empty-ID objects in the middle
	if len(w.secEmpty) > 0 {
		mid := len(out) / 2
		out = append(out[:mid:mid], append(append([]verifC19Item{}, w.secEmpty...), out[mid:]...)...)
	}
	return out
}

// ---- aclTypeReplicator

type verifC19ACLRepl struct{ w *verifC19World }

var _ aclTypeReplicator = (*verifC19ACLRepl)(nil)

func (r *verifC19ACLRepl) Type() structs.ACLReplicationType { return structs.ACLReplicatePolicies }
func (r *verifC19ACLRepl) SingularNoun() string             { return "object" }
func (r *verifC19ACLRepl) PluralNoun() string               { return "objects" }
func (r *verifC19ACLRepl) FetchRemote(_ *Server, _ uint64) (int, uint64, error) {
	r.w.remote = append([]verifC19Item(nil), r.w.primary...)
	return len(r.w.remote), r.w.priIndex, nil
}
func (r *verifC19ACLRepl) FetchLocal(_ *Server) (int, uint64, error) {
	r.w.local = r.w.localList()
	return len(r.w.local), 0, nil
}
func (r *verifC19ACLRepl) SortState() (int, int) {
	sort.SliceStable(r.w.local, func(i, j int) bool { return r.w.local[i].ID < r.w.local[j].ID })
	sort.SliceStable(r.w.remote, func(i, j int) bool { return r.w.remote[i].ID < r.w.remote[j].ID })
	return len(r.w.local), len(r.w.remote)
}
func (r *verifC19ACLRepl) LocalMeta(i int) (string, uint64, []byte) {
	return r.w.local[i].ID, r.w.local[i].Mod, r.w.local[i].hash()
}
func (r *verifC19ACLRepl) RemoteMeta(i int) (string, uint64, []byte) {
	return r.w.remote[i].ID, r.w.remote[i].Mod, r.w.remote[i].hash()
}
func (r *verifC19ACLRepl) FetchUpdated(_ *Server, updates []string) (int, error) {
	by := map[string]verifC19Item{}
	for _, it := range r.w.primary {
		if it.ID != "" {
			by[it.ID] = it
		}
	}
	r.w.updated = nil
	for _, id := range updates { // the batch-read endpoints answer in request order
		if it, ok := by[id]; ok {
			r.w.updated = append(r.w.updated, it)
		}
	}
	return len(r.w.updated), nil
}
func (r *verifC19ACLRepl) ensureRemoteConsistent([]string) ([]string, []string, error) {
	return nil, nil, nil
}
func (r *verifC19ACLRepl) LenPendingUpdates() int               { return len(r.w.updated) }
func (r *verifC19ACLRepl) PendingUpdateIsRedacted(int) bool     { return false }
func (r *verifC19ACLRepl) PendingUpdateEstimatedSize(i int) int { return r.w.updated[i].Sz }
func (r *verifC19ACLRepl) UpdateLocalBatch(_ context.Context, _ *Server, start, end int) error {
	r.w.upsertBatches = append(r.w.upsertBatches, end-start)
	for _, it := range r.w.updated[start:end] {
		if it.ID == "" {
			r.w.emptyWritten = true
			continue
		}
		r.w.secondary[it.ID] = it
		r.w.upserted = append(r.w.upserted, it.ID)
	}
	return nil
}
func (r *verifC19ACLRepl) DeleteLocalBatch(_ *Server, batch []string) error {
	r.w.deleteBatches = append(r.w.deleteBatches, len(batch))
	for _, id := range batch {
		if id == "" {
			r.w.emptyWritten = true
			continue
		}
		delete(r.w.secondary, id)
		r.w.deleted = append(r.w.deleted, id)
	}
	return nil
}

// ---- IndexReplicatorDelegate over federation states; the diff is the real one

type verifC19FedDelegate struct{ w *verifC19World }

var _ IndexReplicatorDelegate = (*verifC19FedDelegate)(nil)

func verifC19FedFromItem(it verifC19Item) *structs.FederationState {
	return &structs.FederationState{Datacenter: it.ID, UpdatedAt: time.Unix(int64(1700000000+it.C), 0).UTC(),
		PrimaryModifyIndex: it.PMI, RaftIndex: structs.RaftIndex{CreateIndex: 1, ModifyIndex: it.Mod}}
}
func verifC19ItemFromFed(fs *structs.FederationState) verifC19Item {
	return verifC19Item{ID: fs.Datacenter, C: int(fs.UpdatedAt.Unix() - 1700000000), Mod: fs.ModifyIndex, PMI: fs.PrimaryModifyIndex}
}

func (d *verifC19FedDelegate) SingularNoun() string { return "federation state" }
func (d *verifC19FedDelegate) PluralNoun() string   { return "federation states" }
func (d *verifC19FedDelegate) MetricName() string   { return "verif-c19" }
func (d *verifC19FedDelegate) FetchRemote(uint64) (int, interface{}, uint64, error) {
	var out []*structs.FederationState
	for _, it := range d.w.primary {
		out = append(out, verifC19FedFromItem(it))
	}
	return len(out), out, d.w.priIndex, nil
}
func (d *verifC19FedDelegate) FetchLocal() (int, interface{}, error) {
	var out []*structs.FederationState
	for _, it := range d.w.localList() {
		out = append(out, verifC19FedFromItem(it))
	}
	return len(out), out, nil
}
func (d *verifC19FedDelegate) DiffRemoteAndLocalState(local, remote interface{}, last uint64) (*IndexReplicatorDiff, error) {
	return (&FederationStateReplicator{}).DiffRemoteAndLocalState(local, remote, last)
}
func (d *verifC19FedDelegate) PerformDeletions(_ context.Context, raw interface{}) (bool, error) {
	for _, st := range raw.([]*structs.FederationState) {
		delete(d.w.secondary, st.Datacenter)
		d.w.deleted = append(d.w.deleted, st.Datacenter)
	}
	return false, nil
}
func (d *verifC19FedDelegate) PerformUpdates(_ context.Context, raw interface{}) (bool, error) {
	for _, st := range raw.([]*structs.FederationState) {
		dup := *st // as FederationStateReplicator.PerformUpdates
		dup.PrimaryModifyIndex = st.ModifyIndex
		d.w.secondary[dup.Datacenter] = verifC19ItemFromFed(&dup)
		d.w.upserted = append(d.w.upserted, dup.Datacenter)
	}
	return false, nil
}

// ---- model of what the secondary must hold (independent of the world above)

type verifC19Model struct {
	objs map[int]verifC19Obj // replicated objects by universe index
	bulk *verifC19Bulk       // "y" bulk objects currently replicated
	zN   int                 // "z" local-only bulk objects still present
}

func verifC19BulkEqual(a, b *verifC19Bulk) bool {
	if a == nil || b == nil {
		return (a == nil || a.N == 0) && (b == nil || b.N == 0)
	}
	return a.N == b.N && a.C == b.C
}

// verifC19RoundContract: is round r admissible given the model state and the lastRemoteIndex it is entered with?
func verifC19RoundContract(typ string, m *verifC19Model, rd *verifC19Round, last uint64) error {
	seen := map[int]bool{}
	for _, o := range rd.Remote {
		if o.ID >= verifC19RoundIDs || (o.ID < 0 && typ != "acl") {
			return fmt.Errorf("id %d outside the universe", o.ID)
		}
		if o.ID >= 0 && seen[o.ID] {
			return fmt.Errorf("duplicate remote id %d", o.ID)
		}
		seen[o.ID] = true
		if o.Mod > rd.Index || o.Mod == 0 {
			return fmt.Errorf("object %d has ModifyIndex %d outside (0, table index %d]", o.ID, o.Mod, rd.Index)
		}
		if typ == "acl" && o.Sz <= 0 {
			return fmt.Errorf("object %d without size", o.ID)
		}
	}
	if rd.Bulk != nil && rd.Bulk.N > 0 && (rd.Bulk.Mod > rd.Index || rd.Bulk.Mod == 0 || typ != "acl") {
		return fmt.Errorf("bulk objects outside the table index / type")
	}
	if rd.Index == 0 {
		return fmt.Errorf("table index 0")
	}
	if rd.Index < last {
		return nil // rebuilt primary: lastRemoteIndex is stale, nothing is promised
	}
	for _, o := range rd.Remote {
		if o.ID < 0 || o.Mod > last {
			continue
		}
		if lo, ok := m.objs[o.ID]; !ok || lo.C != o.C {
			return fmt.Errorf("object %d (mod %d <= last %d, index not gone backwards) is not in sync in the secondary", o.ID, o.Mod, last)
		}
	}
	if rd.Bulk != nil && rd.Bulk.N > 0 && rd.Bulk.Mod <= last && !verifC19BulkEqual(rd.Bulk, m.bulk) {
		return fmt.Errorf("bulk objects (mod %d <= last %d) are not in sync in the secondary", rd.Bulk.Mod, last)
	}
	return nil
}

func verifC19BulkID(prefix string, i int) string { return fmt.Sprintf("%s%05d", prefix, i) }

// verifC19RunRounds executes a round-tier case. Also does the labelling and the non-triviality rule of the tier.
func verifC19RunRounds(f verifkit.F, c *verifkit.Case, cs *verifC19Case) {
	typ := cs.Type
	if typ != "acl" && typ != "fedstate" {
		f.Fatalf("harness: round tier: unknown type %q", typ)
	}
	fam := "acl-round"
	if typ == "fedstate" {
		fam = "index-replicator-round"
	}
	c.Label("tier=round")
	c.Label("type=round-" + typ)
	c.Labelf("rounds=%d", len(cs.Rounds))

	w := &verifC19World{typ: typ, secondary: map[string]verifC19Item{}}
	m := &verifC19Model{objs: map[int]verifC19Obj{}, zN: cs.LocalBulk}
	for _, o := range cs.Local {
		it := verifC19Item{ID: verifC19RoundID(typ, o.ID), C: o.C, Mod: o.Mod, Sz: 100, PMI: uint64(o.N)}
		if o.ID < 0 {
			if typ != "acl" {
				f.Fatalf("harness: empty ID in a %s case", typ)
			}
			w.secEmpty = append(w.secEmpty, it)
			continue
		}
		if _, dup := m.objs[o.ID]; dup || o.ID >= verifC19RoundIDs {
			f.Fatalf("harness: bad local id %d", o.ID)
		}
		m.objs[o.ID] = o
		w.secondary[it.ID] = it
		w.secOrder = append(w.secOrder, it.ID)
	}
	for i := 0; i < cs.LocalBulk; i++ {
		id := verifC19BulkID("z", i)
		w.secondary[id] = verifC19Item{ID: id, C: 1, Mod: 7, Sz: 100}
	}
	srv := &Server{config: &Config{ACLReplicationApplyLimit: 1000000}}
	logger := hclog.NewNullLogger()
	ctx := context.Background()

	last := cs.Last
	nontrivial := false
	for ri := range cs.Rounds {
		rd := &cs.Rounds[ri]
		if err := verifC19RoundContract(typ, m, rd, last); err != nil {
			f.Fatalf("harness: round %d outside the replication contract: %v\n%+v", ri, err, cs)
		}
		rebuilt := rd.Index < last
		effLast := last
		if rebuilt {
			effLast = 0
		}
		// ---- the primary of this round
		w.primary = nil
		remoteByID := map[string]verifC19Obj{}
		for _, o := range rd.Remote {
			w.primary = append(w.primary, verifC19Item{ID: verifC19RoundID(typ, o.ID), C: o.C, Mod: o.Mod, Sz: o.Sz, PMI: o.Mod})
			if o.ID >= 0 {
				remoteByID[verifC19RoundID(typ, o.ID)] = o
			}
		}
		if rd.Bulk != nil {
			for i := 0; i < rd.Bulk.N; i++ {
				id := verifC19BulkID("y", i)
				w.primary = append(w.primary, verifC19Item{ID: id, C: rd.Bulk.C, Mod: rd.Bulk.Mod, Sz: rd.Bulk.Sz})
				remoteByID[id] = verifC19Obj{C: rd.Bulk.C, Mod: rd.Bulk.Mod}
			}
		}
		w.priIndex = rd.Index
		w.upserted, w.deleted, w.upsertBatches, w.deleteBatches, w.emptyWritten = nil, nil, nil, nil, false

		// was the secondary already equal (replicated subset)? computed on the model, before the round
		equalBefore := m.zN == 0 && verifC19BulkEqual(rd.Bulk, m.bulk)
		nCommonDiffer := 0
		nReplicated := 0
		allOld := true
		for _, o := range rd.Remote {
			if o.ID < 0 {
				continue
			}
			nReplicated++
			if o.Mod > effLast {
				allOld = false
			}
			lo, ok := m.objs[o.ID]
			if !ok || lo.C != o.C {
				equalBefore = false
			}
			if ok && lo.C != o.C {
				nCommonDiffer++
			}
		}
		if rd.Bulk != nil && rd.Bulk.N > 0 && rd.Bulk.Mod > effLast {
			allOld = false
		}
		if nReplicated != len(m.objs) {
			equalBefore = false
		}

		// ---- the real round
		var (
			idx  uint64
			exit bool
			err  error
		)
		if typ == "acl" {
			idx, exit, err = srv.replicateACLType(ctx, logger, &verifC19ACLRepl{w: w}, last)
		} else {
			ir := &IndexReplicator{Delegate: &verifC19FedDelegate{w: w}, Logger: logger}
			idx, exit, err = ir.Replicate(ctx, last, logger)
		}
		c.Step()
		desc := fmt.Sprintf("round %d (%s, lastRemoteIndex=%d, primary index=%d, upsert batches %v, delete batches %v)", ri, rd.Kind, last, rd.Index, w.upsertBatches, w.deleteBatches)
		if err != nil {
			c.Violation(f, "C19/"+fam+"/round-error", "%s failed: %v", desc, err)
			return
		}
		if exit {
			c.Violation(f, "C19/"+fam+"/exit-set", "%s asks the replicator to stop (exit=true) although the context is live", desc)
			return
		}
		if w.emptyWritten {
			c.Violation(f, "C19/"+fam+"/empty-id-written", "%s deleted or upserted an object with an empty ID", desc)
			return
		}
		// ---- secondary == primary for the replicated subset
		ids := map[string]bool{}
		for id := range w.secondary {
			ids[id] = true
		}
		for id := range remoteByID {
			ids[id] = true
		}
		sorted := make([]string, 0, len(ids))
		for id := range ids {
			sorted = append(sorted, id)
		}
		sort.Strings(sorted)
		for _, id := range sorted {
			got, inS := w.secondary[id]
			want, inP := remoteByID[id]
			switch {
			case inP && !inS:
				c.Violation(f, "C19/"+fam+"/missing-after-round", "%s reports success but %s exists in the primary and not in the secondary", desc, id)
				return
			case inS && !inP:
				c.Violation(f, "C19/"+fam+"/not-deleted-after-round", "%s reports success but %s survives in the secondary and is gone from the primary", desc, id)
				return
			case got.C != want.C:
				c.Violation(f, "C19/"+fam+"/stale-after-round", "%s reports success but %s has content %d in the secondary, %d in the primary (primary mod %d)", desc, id, got.C, want.C, want.Mod)
				return
			case typ == "fedstate" && got.PMI != want.Mod:
				c.Violation(f, "C19/"+fam+"/primary-modify-index", "%s: %s carries PrimaryModifyIndex %d, the primary's ModifyIndex is %d", desc, id, got.PMI, want.Mod)
				return
			}
		}
		if idx != rd.Index {
			c.Violation(f, "C19/"+fam+"/returned-index", "%s returned index %d, the primary's index is %d (the next round relies on it)", desc, idx, rd.Index)
			return
		}
		// ---- no needless writes
		for _, id := range w.upserted {
			if o, ok := remoteByID[id]; ok && o.Mod <= effLast {
				c.Violation(f, "C19/"+fam+"/writes-although-equal", "%s wrote %s again although its ModifyIndex %d <= lastRemoteIndex %d (already applied, in sync)", desc, id, o.Mod, effLast)
				return
			}
		}
		noWrites := equalBefore
		if typ == "fedstate" {
			noWrites = equalBefore && allOld
		}
		if noWrites && len(w.upserted)+len(w.deleted) > 0 {
			c.Violation(f, "C19/"+fam+"/writes-although-equal", "%s: the secondary already equalled the primary but the round deleted %d and upserted %d objects", desc, len(w.deleted), len(w.upserted))
			return
		}

		// ---- labels, model step
		c.Label("round=" + rd.Kind)
		if rebuilt {
			c.Label("round=index-went-backwards")
			if nCommonDiffer > 0 {
				c.Label("index-went-backwards+same-id-diff-content")
				nontrivial = true
			}
		}
		switch n := len(w.upsertBatches); {
		case n >= 3:
			c.Label("upsert-batches>=3")
			nontrivial = true
		case n == 2:
			c.Label("upsert-batches=2")
			nontrivial = true
		case n == 1:
			c.Label("upsert-batches=1")
		}
		if len(w.deleteBatches) >= 2 {
			c.Label("delete-batches>=2")
			nontrivial = true
		}
		if ri > 0 && len(w.upserted)+len(w.deleted) > 0 {
			c.Label("later-round-writes")
			nontrivial = true
		}
		if equalBefore {
			c.Label("round-already-equal")
		}
		m.objs = map[int]verifC19Obj{}
		for _, o := range rd.Remote {
			if o.ID >= 0 {
				m.objs[o.ID] = o
			}
		}
		m.bulk = rd.Bulk
		m.zN = 0
		w.secOrder = nil
		last = idx
	}
	if nontrivial {
		c.NonTrivial()
	}
}

// ---------------------------------------------------------------------------------------------
// generator of round-tier cases

var verifC19Sizes = []int{100, 1500, 30000, 65536, 90000, 131072, 200000, 262143, 262144, 262145, 300000}

func verifC19GenRounds(t *rapid.T) *verifC19Case {
	cs := &verifC19Case{Tier: "round"}
	cs.Type = rapid.SampledFrom([]string{"acl", "acl", "acl", "fedstate"}).Draw(t, "type")
	acl := cs.Type == "acl"
	const n = verifC19RoundIDs
	const maxC = 3
	drawSz := func() int {
		if !acl {
			return 0
		}
		return rapid.SampledFrom(verifC19Sizes).Draw(t, "sz")
	}
	drawBulk := func(mod uint64) *verifC19Bulk {
		if !acl || rapid.IntRange(0, 9).Draw(t, "bulk") != 0 {
			return nil
		}
		return &verifC19Bulk{N: rapid.SampledFrom([]int{3, 63, 64, 65, 130, 300}).Draw(t, "bulk-n"),
			Sz: rapid.SampledFrom([]int{4096, 4160, 2048, 100 * 1024}).Draw(t, "bulk-sz"), C: rapid.IntRange(1, maxC).Draw(t, "bulk-c"), Mod: mod}
	}

	// ---- first round
	var rd verifC19Round
	firstRebuilt := rapid.IntRange(0, 3).Draw(t, "first-rebuilt") == 0
	if firstRebuilt {
		rd.Kind = "rebuilt"
		cs.Last = uint64(rapid.IntRange(3, 40).Draw(t, "last"))
		rd.Index = uint64(rapid.IntRange(1, int(cs.Last)-1).Draw(t, "index"))
	} else {
		rd.Kind = "contract"
		if rapid.IntRange(0, 3).Draw(t, "last-zero") != 0 {
			cs.Last = uint64(rapid.IntRange(1, 9).Draw(t, "last"))
		}
	}
	var maxMod uint64
	for id := 0; id < n; id++ {
		sh := rapid.SampledFrom([]int{verifC19Absent, verifC19Absent, verifC19LocalOnly, verifC19RemoteOnly, verifC19RemoteOnly, verifC19Equal, verifC19Equal, verifC19Differ, verifC19Differ}).Draw(t, "shape")
		if sh == verifC19Absent {
			continue
		}
		lmod := uint64(rapid.IntRange(1, 30).Draw(t, "lmod"))
		c1 := rapid.IntRange(1, maxC).Draw(t, "c")
		var rmod uint64
		switch {
		case firstRebuilt:
			rmod = uint64(rapid.IntRange(1, int(rd.Index)).Draw(t, "rmod"))
		case sh == verifC19Equal:
			rmod = uint64(rapid.IntRange(1, 14).Draw(t, "rmod"))
			if cs.Last > 0 && rapid.IntRange(0, 3).Draw(t, "rmod-at-last") == 0 {
				rmod = cs.Last
			}
		default:
			rmod = cs.Last + uint64(rapid.IntRange(1, 6).Draw(t, "rmod-after"))
		}
		if sh != verifC19LocalOnly && rmod > maxMod {
			maxMod = rmod
		}
		// N of a local federation state: its PrimaryModifyIndex (the version it was copied from)
		pmi := 0
		switch sh {
		case verifC19LocalOnly:
			cs.Local = append(cs.Local, verifC19Obj{ID: id, C: c1, Mod: lmod, N: 1})
		case verifC19RemoteOnly:
			rd.Remote = append(rd.Remote, verifC19Obj{ID: id, C: c1, Mod: rmod, Sz: drawSz()})
		case verifC19Equal:
			if !acl {
				pmi = int(rmod)
				if rmod > cs.Last && !firstRebuilt && rmod > 1 {
					pmi = int(rmod) - 1
				}
				if firstRebuilt {
					pmi = int(cs.Last) // copied before the primary was rebuilt
				}
			}
			cs.Local = append(cs.Local, verifC19Obj{ID: id, C: c1, Mod: lmod, N: pmi})
			rd.Remote = append(rd.Remote, verifC19Obj{ID: id, C: c1, Mod: rmod, Sz: drawSz()})
		case verifC19Differ:
			if !acl {
				pmi = 1
			}
			cs.Local = append(cs.Local, verifC19Obj{ID: id, C: c1%maxC + 1, Mod: lmod, N: pmi})
			rd.Remote = append(rd.Remote, verifC19Obj{ID: id, C: c1, Mod: rmod, Sz: drawSz()})
		}
	}
	if acl {
		for i, k := 0, rapid.IntRange(0, 1).Draw(t, "empty-local"); i < k; i++ {
			cs.Local = append(cs.Local, verifC19Obj{ID: -1, C: 1, Mod: 3})
		}
		if rapid.IntRange(0, 9).Draw(t, "local-bulk") == 0 {
			cs.LocalBulk = rapid.SampledFrom([]int{5, 4095, 4096, 4097, 8192, 8200}).Draw(t, "local-bulk-n")
		}
	}
	if !firstRebuilt {
		rd.Index = maxMod
		if cs.Last > rd.Index {
			rd.Index = cs.Last
		}
		rd.Index += uint64(rapid.IntRange(0, 2).Draw(t, "index-slack"))
		if rd.Index == 0 {
			rd.Index = 1
		}
		rd.Bulk = drawBulk(cs.Last + 1)
		if rd.Bulk != nil && rd.Bulk.Mod > rd.Index {
			rd.Index = rd.Bulk.Mod
		}
	} else {
		rd.Bulk = drawBulk(rd.Index)
	}
	emptyRemote := acl && rapid.IntRange(0, 3).Draw(t, "empty-remote") == 0
	if emptyRemote {
		rd.Remote = append(rd.Remote, verifC19Obj{ID: -1, C: 2, Mod: rd.Index, Sz: 100})
	}
	if len(cs.Local) > 1 {
		cs.Local = rapid.Permutation(cs.Local).Draw(t, "local-order")
	}
	if len(rd.Remote) > 1 {
		rd.Remote = rapid.Permutation(rd.Remote).Draw(t, "remote-order")
	}
	cs.Rounds = append(cs.Rounds, rd)

	// ---- later rounds: the secondary now equals the previous primary
	more := rapid.IntRange(0, 2).Draw(t, "more-rounds")
	for r := 0; r < more; r++ {
		prev := cs.Rounds[len(cs.Rounds)-1]
		kind := rapid.SampledFrom([]string{"evolve", "evolve", "evolve", "rebuilt", "rebuilt", "unchanged"}).Draw(t, "kind")
		if kind == "rebuilt" && prev.Index < 2 {
			kind = "evolve"
		}
		next := verifC19Round{Kind: kind}
		prevBy := map[int]verifC19Obj{}
		for _, o := range prev.Remote {
			prevBy[o.ID] = o
		}
		switch kind {
		case "unchanged":
			next.Index = prev.Index
			next.Remote = append([]verifC19Obj(nil), prev.Remote...)
			next.Bulk = prev.Bulk
		case "evolve":
			next.Index = prev.Index + uint64(rapid.IntRange(1, 6).Draw(t, "advance"))
			newMod := func() uint64 {
				return prev.Index + uint64(rapid.IntRange(1, int(next.Index-prev.Index)).Draw(t, "newmod"))
			}
			for id := 0; id < n; id++ {
				o, ok := prevBy[id]
				if !ok {
					if rapid.IntRange(0, 3).Draw(t, "create") == 0 {
						next.Remote = append(next.Remote, verifC19Obj{ID: id, C: rapid.IntRange(1, maxC).Draw(t, "c"), Mod: newMod(), Sz: drawSz()})
					}
					continue
				}
				switch rapid.SampledFrom([]string{"keep", "keep", "keep", "modify", "modify", "touch", "delete"}).Draw(t, "action") {
				case "keep":
					next.Remote = append(next.Remote, o)
				case "modify":
					next.Remote = append(next.Remote, verifC19Obj{ID: id, C: o.C%maxC + 1, Mod: newMod(), Sz: drawSz()})
				case "touch": // re-written with the same content
					next.Remote = append(next.Remote, verifC19Obj{ID: id, C: o.C, Mod: newMod(), Sz: o.Sz})
				case "delete":
				}
			}
			if o, ok := prevBy[-1]; ok {
				next.Remote = append(next.Remote, o)
			}
			next.Bulk = prev.Bulk
			if acl && rapid.IntRange(0, 11).Draw(t, "bulk-change") == 0 {
				next.Bulk = drawBulk(next.Index)
				if next.Bulk == nil && prev.Bulk != nil {
					next.Bulk = nil
				}
			}
		case "rebuilt":
			next.Index = uint64(rapid.IntRange(1, int(prev.Index)-1).Draw(t, "index"))
			for id := 0; id < n; id++ {
				o, ok := prevBy[id]
				mod := uint64(rapid.IntRange(1, int(next.Index)).Draw(t, "rmod"))
				switch {
				case ok:
					switch rapid.SampledFrom([]string{"older-content", "older-content", "same-content", "gone"}).Draw(t, "restored") {
					case "older-content":
						next.Remote = append(next.Remote, verifC19Obj{ID: id, C: o.C%maxC + 1, Mod: mod, Sz: drawSz()})
					case "same-content":
						next.Remote = append(next.Remote, verifC19Obj{ID: id, C: o.C, Mod: mod, Sz: o.Sz})
					}
				case rapid.IntRange(0, 3).Draw(t, "restored-extra") == 0:
					next.Remote = append(next.Remote, verifC19Obj{ID: id, C: rapid.IntRange(1, maxC).Draw(t, "c"), Mod: mod, Sz: drawSz()})
				}
			}
			if prev.Bulk != nil && rapid.Bool().Draw(t, "bulk-restored") {
				b := *prev.Bulk
				b.Mod = uint64(rapid.IntRange(1, int(next.Index)).Draw(t, "bulk-mod"))
				if rapid.Bool().Draw(t, "bulk-older-content") {
					b.C = b.C%maxC + 1
				}
				next.Bulk = &b
			}
		}
		if len(next.Remote) > 1 {
			next.Remote = rapid.Permutation(next.Remote).Draw(t, "remote-order")
		}
		cs.Rounds = append(cs.Rounds, next)
	}
	return cs
}

func TestVerifC19Round(t *testing.T) {
	rec := verifkit.For("C19")
	defer rec.Flush()
	rapid.Check(t, func(t *rapid.T) {
		c := rec.NewCase()
		defer c.GuardPanic(t, "C19/panic")
		cs := verifC19GenRounds(t)
		c.Op(cs)
		verifC19RunCase(t, c, cs)
		c.Done()
	})
}
