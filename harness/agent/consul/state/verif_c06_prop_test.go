package state_test

// C06 — Blocking-query contract: a change is never missed.
//
// A generated write history (KV, sessions, tombstone reaps, catalog registrations incl. connect proxies, gateways,
// peer-scoped rows and renames, deregistrations, transactions, prepared queries, config entries, coordinates) is
// applied to a real Store. Around EVERY SINGLE WRITE w, for every query q of the panel (verif_c06_panel_test.go):
//
//	(i0, r0, ws0) = q(store) before w        (i1, r1) = q(store) after w
//	indexes clamped to >= 1 exactly as Server.SetQueryMeta does
//
//	r1 != r0  =>  i1 > i0  AND  some channel of ws0 is closed      (a blocked client is woken AND sees a larger index:
//	                                                                blockingquery.Query re-runs on wake-up and returns only
//	                                                                if the new index is greater than the requested one)
//	i1 >= i0  always, except for KV queries when w reaps tombstones (the statement exempts tombstone expiry)
//
// Nothing is asserted when r1 == r0 besides monotonicity (spurious wake-ups and coarse indexes are allowed by the
// blockingquery contract), and nothing is asserted for a query whose pre-state answer is an error (a client cannot
// block on it).
//
// Finding signatures: C06/<query family>/<failure kind>/<write kind>, computed from the failing observation. The one
// recognised root cause with its own key is the gateway link: the index of connect / ingress / gateway lookups is
// the maximum over the gateway-services rows that link the service; when a row disappears its contribution
// disappears with it (upstream: "TODO: How to handle index rolling back when a config entry is deleted that
// references a service?" above serviceGatewayNodes).

import (
	"fmt"
	"os"
	"sort"
	"strings"
	"testing"

	"github.com/hashicorp/consul/agent/consul/state"
	"github.com/hashicorp/consul/agent/structs"
	"github.com/hashicorp/consul/api"
	"github.com/hashicorp/consul/internal/verifkit"
	vs "github.com/hashicorp/consul/internal/verifstate"
	memdb "github.com/hashicorp/go-memdb"
	"pgregory.net/rapid"
)

const verifC06KeyGatewayLink = "C06/gateway-link-removed-index-regress"

type verifC06Eval struct {
	obs verifC06Obs
	ws  memdb.WatchSet
}

// verifC06Snap is a cheap inventory of the entities in the store, used only to classify the write (labels, finding
// signatures) — never to decide whether the property holds.
type verifC06Snap struct {
	kv       map[string]bool
	nodes    map[string]bool
	inst     map[string]string // peer|node|id -> service name
	svcCount map[string]int    // peer|service name -> instances
	nodeSvcs map[string]int    // peer|node -> instances
	checks   map[string]string // peer|node|check -> serviceID \x00 rendering
	ces      map[string]bool
	pqs      map[string]bool
	links    map[string]bool // gateway kind|gateway|service
}

func verifC06TakeSnap(s *state.Store) *verifC06Snap {
	sn := &verifC06Snap{kv: map[string]bool{}, nodes: map[string]bool{}, inst: map[string]string{}, svcCount: map[string]int{},
		nodeSvcs: map[string]int{}, checks: map[string]string{}, ces: map[string]bool{}, pqs: map[string]bool{}, links: map[string]bool{}}
	_ = s.WalkAllTables(func(table string, item interface{}) bool {
		switch table {
		case "kvs":
			sn.kv[item.(*structs.DirEntry).Key] = true
		case "nodes":
			n := item.(*structs.Node)
			sn.nodes[n.PeerName+"|"+strings.ToLower(n.Node)] = true
		case "services":
			x := item.(*structs.ServiceNode)
			sn.inst[x.PeerName+"|"+strings.ToLower(x.Node)+"|"+x.ServiceID] = x.ServiceName
			sn.svcCount[x.PeerName+"|"+x.ServiceName]++
			sn.nodeSvcs[x.PeerName+"|"+strings.ToLower(x.Node)]++
		case "checks":
			c := item.(*structs.HealthCheck)
			sn.checks[c.PeerName+"|"+strings.ToLower(c.Node)+"|"+string(c.CheckID)] = c.ServiceID + "\x00" + c.Status + "|" + c.Output + "|" + c.Name + "|" + c.Type + "|" + c.Notes
		case "config-entries":
			e := item.(structs.ConfigEntry)
			sn.ces[e.GetKind()+"/"+e.GetName()] = true
		case "gateway-services":
			g := item.(*structs.GatewayService)
			sn.links[string(g.GatewayKind)+"|"+g.Gateway.Name+"|"+g.Service.Name] = true
		}
		return true
	})
	_, pqs, _ := s.PreparedQueryList(nil)
	for _, q := range pqs {
		sn.pqs[q.ID] = true
	}
	return sn
}

type verifC06Machine struct {
	f       verifkit.F
	c       *verifkit.Case
	w       *vs.World
	panel   []*verifC06Query
	cur     []verifC06Eval
	snap    *verifC06Snap
	deleted map[string]bool
	ops     []*vs.Op
	loops   int
}

var verifC06PanelCache []*verifC06Query

func verifC06New(f verifkit.F, c *verifkit.Case) *verifC06Machine {
	if verifC06PanelCache == nil {
		verifC06PanelCache = verifC06Panel()
	}
	m := &verifC06Machine{f: f, c: c, w: vs.NewWorld(verifC06NewStore(f)), panel: verifC06PanelCache, deleted: map[string]bool{}}
	m.cur = m.eval("initial")
	m.snap = verifC06TakeSnap(m.w.Store)
	return m
}

// verifC06NewStore: a store as a server has it after establishing leadership — the connect CA configuration exists
// (discovery-chain based lookups such as ServiceTopology refuse to work without one). Server setup, not a history step.
func verifC06NewStore(f verifkit.F) *state.Store {
	vs.StubNet()
	s := state.NewStateStore(nil)
	if err := s.CASetConfig(5, &structs.CAConfiguration{Provider: "consul", ClusterID: "11111111-2222-3333-4444-555555555555"}); err != nil {
		f.Fatalf("CASetConfig: %v", err)
	}
	return s
}

func (m *verifC06Machine) eval(when string) []verifC06Eval {
	out := make([]verifC06Eval, len(m.panel))
	for i, q := range m.panel {
		ws := memdb.NewWatchSet()
		o, err := q.Run(m.w.Store, ws)
		if err != nil {
			m.c.Violation(m.f, "C06/"+q.Fam+"/query-error", "%s (%s): %v", q.Name, when, err)
		}
		out[i] = verifC06Eval{obs: o, ws: ws}
	}
	return out
}

// verifC06Fired reports whether any channel of the watch set is closed (deterministic: no select race with a timer).
func verifC06Fired(ws memdb.WatchSet) bool {
	for ch := range ws {
		select {
		case <-ch:
			return true
		default:
		}
	}
	return false
}

func verifC06Clamp(i uint64) uint64 {
	if i < 1 { // Server.SetQueryMeta: "Always set a non-zero QueryMeta.Index"
		return 1
	}
	return i
}

func verifC06GatewayKindOf(kind string) string {
	switch kind {
	case structs.TerminatingGateway:
		return "terminating"
	case structs.IngressGateway:
		return "ingress"
	}
	return ""
}

// verifC06WriteKind names the write for finding signatures.
func verifC06WriteKind(op *vs.Op) string {
	switch op.Kind {
	case vs.ConfigSet, vs.ConfigDelete:
		return op.Kind + ":" + op.P.ConfigEntry().Entry.GetKind()
	case vs.Register:
		k := op.Kind
		if op.P.Reg.PeerName != "" {
			k += ":peer"
		}
		return k
	case vs.DeregNode, vs.DeregService, vs.DeregCheck:
		if op.P.Peer != "" {
			return op.Kind + ":peer"
		}
	}
	return op.Kind
}

func verifC06Diff(a, b string) string {
	i := 0
	for i < len(a) && i < len(b) && a[i] == b[i] {
		i++
	}
	from := i - 60
	if from < 0 {
		from = 0
	}
	cut := func(s string) string {
		if from >= len(s) {
			return ""
		}
		s = s[from:]
		if len(s) > 260 {
			s = s[:260] + "…"
		}
		return s
	}
	return fmt.Sprintf("first difference at byte %d\n     before: …%s\n     after:  …%s", i, cut(a), cut(b))
}

// removedLinks lists gateway-services rows present before and absent after.
func verifC06RemovedLinks(b, a *verifC06Snap) []string {
	var out []string
	for l := range b.links {
		if !a.links[l] {
			out = append(out, l)
		}
	}
	sort.Strings(out)
	return out
}

// linkRemovalExplains reports whether a removed gateway-services row is one the query's index depended on.
func verifC06LinkRemovalExplains(q *verifC06Query, removed []string) bool {
	if q.Gw == "" {
		return false
	}
	for _, l := range removed {
		p := strings.SplitN(l, "|", 3)
		kind, svc := p[0], p[2]
		kindOK := q.Gw == "any" || (q.Gw == "terminating" && kind == string(structs.ServiceKindTerminatingGateway)) || (q.Gw == "ingress" && kind == string(structs.ServiceKindIngressGateway))
		if kindOK && (q.Svc == "" || svc == q.Svc) {
			return true
		}
	}
	return false
}

// Root causes recognised from the failing observation (each one triaged against the real code, see
// known_findings.d/C06.json). Anything else keeps the generic signature family/failure/write.
const (
	verifC06KeyCheckMoved   = "C06/check-reassigned-old-service-not-notified"
	verifC06KeyPeerDump     = "C06/peer-service-dump-reads-local-index"
	verifC06KeyRootTree     = "C06/kv-delete-whole-tree-old-tombstone-shadows-index"
	verifC06KeyCatalogConn  = "C06/catalog-connect-index-ignores-proxy-services"
)

// verifC06MovedChecks lists checks (peer|node|id) whose ServiceID differs between the two snapshots.
func verifC06MovedChecks(b, a *verifC06Snap) [][3]string {
	var out [][3]string
	for k, v := range b.checks {
		av, ok := a.checks[k]
		if !ok {
			continue
		}
		bs, as := v[:strings.Index(v, "\x00")], av[:strings.Index(av, "\x00")]
		if bs != as {
			p := strings.SplitN(k, "|", 3)
			out = append(out, [3]string{p[1], p[2], bs})
		}
	}
	sort.Slice(out, func(i, j int) bool { return out[i][0]+out[i][1] < out[j][0]+out[j][1] })
	return out
}

func verifC06RootCause(q *verifC06Query, fk string, op *vs.Op, snapB, snapA *verifC06Snap, removed []string, b, a verifC06Obs) string {
	indexFail := fk == "changed-index-regress" || fk == "changed-index-not-advanced" || fk == "unchanged-index-regress"
	// (1) a gateway-services row the lookup depended on went away and took its index contribution with it
	if indexFail && verifC06LinkRemovalExplains(q, removed) {
		return verifC06KeyGatewayLink
	}
	// (2) a check registered again under another ServiceID (or moved between node level and service level): only
	// the NEW service's index is bumped (ensureCheckTxn); lookups that showed the check under the OLD service
	// change without notice
	if fk == "changed-index-not-advanced" || fk == "changed-not-woken" {
		for _, mv := range verifC06MovedChecks(snapB, snapA) {
			if strings.Contains(b.Res, `"CheckID":"`+mv[1]+`"`) && strings.Contains(strings.ToLower(b.Res), `"node":"`+mv[0]+`"`) &&
				strings.Contains(b.Res, `"ServiceID":"`+mv[2]+`"`) {
				return verifC06KeyCheckMoved
			}
		}
	}
	// (3) serviceDumpAllTxn takes index and watch channels from the LOCAL catalog tables also when it dumps a peer
	if q.Fam == "ServiceDumpPeer" && strings.Contains(q.Name, "useKind=false") && fk != "unchanged-index-regress" {
		return verifC06KeyPeerDump
	}
	// (4) delete-tree of the whole keyspace writes no tombstone; a listing under a prefix that still has an OLDER
	// tombstone reports that tombstone's index
	if q.KV && q.Fam != "KVSGet" && indexFail && len(snapB.kv) > 0 && len(snapA.kv) == 0 && verifC06DeletesWholeTree(op) {
		return verifC06KeyRootTree
	}
	// (5) Catalog connect lookup reports the index of the TARGET service name only, although its result consists of
	// proxies / gateways registered under other names
	if q.Fam == "ConnectServiceNodes" && indexFail && fk != "unchanged-index-regress" {
		other := false
		for _, r := range []string{b.Res, a.Res} {
			for _, part := range strings.Split(r, `"ServiceName":"`)[1:] {
				if !strings.HasPrefix(part, q.Svc+`"`) {
					other = true
				}
			}
		}
		if other {
			return verifC06KeyCatalogConn
		}
	}
	return ""
}

func verifC06DeletesWholeTree(op *vs.Op) bool {
	switch op.Kind {
	case vs.KVDeleteTree:
		return op.P.KV.Key == ""
	case vs.Txn:
		for _, t := range op.P.Txn {
			if t.KV != nil && t.KV.Verb == api.KVDeleteTree && t.KV.DirEnt.Key == "" {
				return true
			}
		}
	}
	return false
}

func (m *verifC06Machine) step(op *vs.Op) {
	f, c := m.f, m.c
	before, snapB := m.cur, m.snap
	res := vs.Apply(m.w.Store, op)
	m.ops = append(m.ops, op)
	after := m.eval("after " + op.Desc)
	snapA := verifC06TakeSnap(m.w.Store)
	m.cur, m.snap = after, snapA
	c.Labelf("op=%s", op.Kind)
	if res.Err != nil || len(res.Errors) > 0 {
		c.Label("write-refused")
	}

	removed := verifC06RemovedLinks(snapB, snapA)
	wk := verifC06WriteKind(op)
	nChanged := 0
	var loopCand []int
	for i, q := range m.panel {
		b, a := before[i].obs, after[i].obs
		changed := b.Res != a.Res || b.NoIdx != a.NoIdx
		if changed {
			nChanged++
			c.Labelf("changed:%s", q.Fam)
		}
		if b.NoIdx {
			continue // the pre-state answer was an error: nobody can be blocked on it
		}
		fired := verifC06Fired(before[i].ws)
		i0, i1 := verifC06Clamp(b.Idx), verifC06Clamp(a.Idx)
		var fails []string
		switch {
		case changed && a.NoIdx:
			// the endpoint now answers with an error; the blocked client must still be woken to learn that
			if !fired {
				fails = append(fails, "changed-not-woken")
			}
		case changed:
			if i1 < i0 {
				fails = append(fails, "changed-index-regress")
			} else if i1 == i0 {
				fails = append(fails, "changed-index-not-advanced")
			}
			if !fired {
				fails = append(fails, "changed-not-woken")
			}
		default:
			if i1 < i0 && !(q.KV && op.Kind == vs.Reap) {
				fails = append(fails, "unchanged-index-regress")
			}
		}
		if q.KV && op.Kind == vs.Reap && i1 < i0 {
			c.Label("reap-lowered-kv-index")
		}
		if changed && len(fails) == 0 {
			loopCand = append(loopCand, i)
		}
		for _, fk := range fails {
			key := "C06/" + q.Fam + "/" + fk + "/" + wk
			if rc := verifC06RootCause(q, fk, op, snapB, snapA, removed, b, a); rc != "" {
				key = rc
				c.Label("known:" + strings.TrimPrefix(rc, "C06/"))
			}
			detail := fmt.Sprintf("%s around %q (step %d, raft index %d, result %s): reported index %d -> %d, result changed=%v, watch fired=%v, removed gateway links=%v",
				q.Name, op.Desc, len(m.ops), op.Idx, res, i0, i1, changed, fired, removed)
			if changed {
				detail += "\n   " + verifC06Diff(b.Res, a.Res)
			}
			if os.Getenv("VERIF_C06_SURVEY") != "" { // development aid: count every signature instead of stopping at the first
				c.Label("survey:" + key)
				if verifC06SurveySeen == nil {
					verifC06SurveySeen = map[string]bool{}
				}
				if !verifC06SurveySeen[key] {
					verifC06SurveySeen[key] = true
					fmt.Printf("SURVEY %s\n%s\nHISTORY:\n%s\n", key, detail, verifC06History(m.ops))
				}
				continue
			}
			if !c.Violation(f, key, "%s", detail) {
				return
			}
			if verifkit.Thorough() && fk != "unchanged-index-regress" {
				m.loop(i, op, true)
			}
		}
	}
	if nChanged > 0 {
		c.Label("write-changed-some-result")
	}
	m.shapes(op, snapB, snapA, nChanged, removed)
	if verifkit.Thorough() && len(loopCand) > 0 && m.loops < verifkit.EnvInt("VERIF_C06_LOOPS", 4) {
		m.loops++
		m.loop(loopCand[int(op.Idx)%len(loopCand)], op, false)
	}
}

// shapes classifies the write into the hard shapes the property names (labels + non-triviality).
func (m *verifC06Machine) shapes(op *vs.Op, b, a *verifC06Snap, nChanged int, removedLinks []string) {
	c := m.c
	hard := func(l string) {
		if nChanged > 0 {
			c.Label("shape:" + l)
			c.NonTrivial()
		}
	}
	// last instance of a service removed
	for k, n := range b.svcCount {
		if n > 0 && a.svcCount[k] == 0 {
			hard("last-instance-removed")
			if n > 1 {
				c.Label("shape:last-instances-removed-together")
			}
		}
	}
	// delete under a sibling prefix: a key went away while a listing that must not be disturbed has content
	for k := range b.kv {
		if a.kv[k] {
			continue
		}
		for _, p := range vs.Prefixes {
			if p == "" || strings.HasPrefix(k, p) || p[0] != k[0] {
				continue
			}
			for k2 := range a.kv {
				if strings.HasPrefix(k2, p) {
					hard("kv-delete-sibling-prefix")
				}
			}
		}
		if op.Kind == vs.KVDeleteTree {
			c.Label("shape:kv-delete-tree-removed-keys")
		}
	}
	// node-level check change on a node that carries services
	nodeLevel := func(k, v string, other map[string]string) {
		if !strings.HasPrefix(v, "\x00") {
			return
		}
		if ov, ok := other[k]; ok && ov == v {
			return
		}
		node := k[:strings.LastIndex(k, "|")]
		if b.nodeSvcs[node] > 0 || a.nodeSvcs[node] > 0 {
			hard("node-level-check-change")
		}
	}
	for k, v := range b.checks {
		nodeLevel(k, v, a.checks)
	}
	for k, v := range a.checks {
		nodeLevel(k, v, b.checks)
	}
	// entity re-created after deletion
	track := func(typ string, before, after map[string]bool) {
		for k := range before {
			if !after[k] {
				m.deleted[typ+":"+k] = true
			}
		}
		for k := range after {
			if !before[k] && m.deleted[typ+":"+k] {
				hard("recreate-after-delete")
				c.Label("recreated:" + typ)
			}
		}
	}
	keys := func(mm map[string]string) map[string]bool {
		o := map[string]bool{}
		for k := range mm {
			o[k] = true
		}
		return o
	}
	pos := func(mm map[string]int) map[string]bool {
		o := map[string]bool{}
		for k, n := range mm {
			if n > 0 {
				o[k] = true
			}
		}
		return o
	}
	track("kv", b.kv, a.kv)
	track("node", b.nodes, a.nodes)
	track("service", pos(b.svcCount), pos(a.svcCount))
	track("instance", keys(b.inst), keys(a.inst))
	track("check", keys(b.checks), keys(a.checks))
	track("config-entry", b.ces, a.ces)
	track("prepared-query", b.pqs, a.pqs)
	track("gateway-link", b.links, a.links)
	// gateway config entry delete
	if op.Kind == vs.ConfigDelete {
		e := op.P.ConfigEntry().Entry
		if verifC06GatewayKindOf(e.GetKind()) != "" && b.ces[e.GetKind()+"/"+e.GetName()] && !a.ces[e.GetKind()+"/"+e.GetName()] {
			hard("gateway-config-entry-delete")
		}
	}
	if len(removedLinks) > 0 {
		c.Label("gateway-link-removed")
	}
}

var verifC06SurveySeen map[string]bool

func verifC06History(ops []*vs.Op) string {
	var b strings.Builder
	for _, o := range ops {
		fmt.Fprintf(&b, "   %d %s\n", o.Idx, o.Desc)
	}
	return b.String()
}

func verifC06Run(f verifkit.F, c *verifkit.Case, next func(m *verifC06Machine, i int) *vs.Op) {
	m := verifC06New(f, c)
	defer c.GuardPanic(f, "C06/panic")
	for i := 0; ; i++ {
		op := next(m, i)
		if op == nil {
			break
		}
		c.Op(op)
		m.step(op)
	}
}

func TestVerifC06Blocking(t *testing.T) {
	rec := verifkit.For("C06")
	defer rec.Flush()
	maxSteps := verifkit.EnvInt("VERIF_C06_STEPS", 40)
	rec.SetExtra("panel_queries", int64(len(verifC06Panel())))
	rapid.Check(t, func(t *rapid.T) {
		c := rec.NewCase()
		n := rapid.IntRange(8, maxSteps).Draw(t, "steps")
		verifC06Run(t, c, func(m *verifC06Machine, i int) *vs.Op {
			if i >= n {
				return nil
			}
			return m.w.DrawC06Op(t)
		})
		c.Done()
	})
}

// verifC06Witnesses: fixed minimal histories of the known findings.
func verifC06Witnesses() map[string][]*vs.Op {
	gwReg := func(idx uint64) *vs.Op {
		return vs.NewRegister(idx, &structs.RegisterRequest{Datacenter: "dc1", Node: "n1", ID: vs.NodeIDs["n1"], Address: "10.0.0.1",
			Service: &structs.NodeService{Kind: structs.ServiceKindTerminatingGateway, Service: "term-gw", ID: "term-gw-1", Port: 8444,
				Weights: &structs.Weights{Passing: 1, Warning: 1}}})
	}
	tg := func(svcs ...string) *structs.TerminatingGatewayConfigEntry {
		e := &structs.TerminatingGatewayConfigEntry{Kind: structs.TerminatingGateway, Name: "term-gw"}
		for _, s := range svcs {
			e.Services = append(e.Services, structs.LinkedService{Name: s})
		}
		_ = e.Normalize()
		return e
	}
	return map[string][]*vs.Op{
		// DESIGN §7 H: CheckConnectServiceNodes(db) 1 node @12 -> 0 nodes @11
		"witness-gateway-entry-delete": {
			gwReg(11),
			vs.NewConfig(vs.ConfigSet, 12, structs.ConfigEntryUpsert, tg("db")),
			vs.NewConfig(vs.ConfigDelete, 14, structs.ConfigEntryDelete, tg()),
		},
		// same root cause through an update that drops the link
		"witness-gateway-entry-update": {
			gwReg(11),
			vs.NewConfig(vs.ConfigSet, 12, structs.ConfigEntryUpsert, tg("db")),
			vs.NewConfig(vs.ConfigSet, 14, structs.ConfigEntryUpsert, tg("web")),
		},
	}
}

func TestVerifC06Replay(t *testing.T) {
	rec := verifkit.For("C06")
	defer rec.Flush()
	feed := func(ops []*vs.Op) func(m *verifC06Machine, i int) *vs.Op {
		return func(m *verifC06Machine, i int) *vs.Op {
			if i >= len(ops) {
				return nil
			}
			return ops[i]
		}
	}
	if os.Getenv("VERIF_REPLAY") == "" {
		ws := verifC06Witnesses()
		var names []string
		for n := range ws {
			names = append(names, n)
		}
		sort.Strings(names)
		for _, name := range names {
			c := rec.NewCase()
			c.Label("witness:" + name)
			verifC06Run(t, c, feed(ws[name]))
			if !c.HasLabel("known:gateway-link-removed-index-regress") && rec.IsKnown(verifC06KeyGatewayLink) {
				t.Logf("witness %s no longer reproduces %s", name, verifC06KeyGatewayLink)
				c.Label("witness-no-longer-reproduces")
			}
			c.Done()
		}
	}
	for _, path := range verifkit.ReplayFiles("C06") {
		c := rec.NewCase()
		c.Label("replay")
		verifC06Run(t, c, feed(verifLoadOps(t, path)))
		c.Done()
	}
}
