package state_test

// C06 — Blocking-query contract: a change is never missed.
//
// A generated write history (KV, sessions, tombstone reaps, catalog registrations incl. connect proxies, gateways,
// peer-scoped rows and renames, deregistrations, transactions, prepared queries, config entries, coordinates) is
// applied to a real Store. Around EVERY SINGLE WRITE w, for every query q of the panel (verif_c06_panel_test.go):
//
//	(i0, r0, ws0) = q(store) before w        (i1, r1) = q(store) after w
//	indexes clamped to >= 1 exactly as Server.SetQueryMeta does
//
//	r1 != r0  =>  i1 > i0  AND  some channel of ws0 is closed      (a blocked client is woken AND sees a larger index:
//	                                                                blockingquery.Query re-runs on wake-up and returns only
//	                                                                if the new index is greater than the requested one)
//	i1 >= i0  always, except for KV queries when w reaps tombstones (the statement exempts tombstone expiry)
//
// Nothing is asserted when r1 == r0 besides monotonicity (spurious wake-ups and coarse indexes are allowed by the
// blockingquery contract), and nothing is asserted for a query whose pre-state answer is an error (a client cannot
// block on it).
//
// Finding signatures: C06/<query family>/<failure kind>/<write kind>, computed from the failing observation. The one
// recognised root cause with its own key is the gateway link: the index of connect / ingress / gateway lookups is
// the maximum over the gateway-services rows that link the service; when a row disappears its contribution
// disappears with it (upstream: "TODO: How to handle index rolling back when a config entry is deleted that
// references a service?" above serviceGatewayNodes).

import (
	"encoding/json"
	"fmt"
	"os"
	"path/filepath"
	"sort"
	"strings"
	"testing"

	"github.com/hashicorp/consul/agent/consul/state"
	"github.com/hashicorp/consul/agent/structs"
	"github.com/hashicorp/consul/api"
	"github.com/hashicorp/consul/internal/verifkit"
	kvm "github.com/hashicorp/consul/internal/verifkvm"
	vs "github.com/hashicorp/consul/internal/verifstate"
	memdb "github.com/hashicorp/go-memdb"
	"pgregory.net/rapid"
)

const verifC06KeyGatewayLink = "C06/gateway-link-removed-index-regress"

type verifC06Eval struct {
	obs verifC06Obs
	ws  memdb.WatchSet
}

// verifC06Snap is a cheap inventory of the entities in the store, used only to classify the write (labels, finding
// signatures) — never to decide whether the property holds.
type verifC06Snap struct {
	kv       map[string]bool
	nodes    map[string]bool
	nodeIDs  map[string]string
	inst     map[string]string // peer|node|id -> service name
	connFor  map[string]string // peer|node|id -> service the instance is a connect endpoint of (native: itself, proxy: destination)
	svcCount map[string]int    // peer|service name -> instances
	nodeSvcs map[string]int    // peer|node -> instances
	checks   map[string]string // peer|node|check -> serviceID \x00 rendering
	ces      map[string]bool
	dests    map[string]bool // service-defaults entries that carry a Destination
	pqs      map[string]bool
	links    map[string]bool // gateway kind|gateway|service
	tags     map[string][]string // peer|node|id -> tags
	sessChk  map[string]string   // peer|node|check -> status|output of checks of type "session"
	sessions map[string]bool
}

func verifC06TakeSnap(s *state.Store) *verifC06Snap {
	sn := &verifC06Snap{kv: map[string]bool{}, nodes: map[string]bool{}, nodeIDs: map[string]string{}, inst: map[string]string{}, svcCount: map[string]int{},
		connFor: map[string]string{}, nodeSvcs: map[string]int{}, checks: map[string]string{}, ces: map[string]bool{}, dests: map[string]bool{}, pqs: map[string]bool{}, links: map[string]bool{},
		tags: map[string][]string{}, sessChk: map[string]string{}, sessions: map[string]bool{}}
	_ = s.WalkAllTables(func(table string, item interface{}) bool {
		switch table {
		case "kvs":
			sn.kv[item.(*structs.DirEntry).Key] = true
		case "nodes":
			n := item.(*structs.Node)
			sn.nodes[n.PeerName+"|"+strings.ToLower(n.Node)] = true
			sn.nodeIDs[n.PeerName+"|"+strings.ToLower(n.Node)] = string(n.ID)
		case "services":
			x := item.(*structs.ServiceNode)
			sn.inst[x.PeerName+"|"+strings.ToLower(x.Node)+"|"+x.ServiceID] = x.ServiceName
			sn.svcCount[x.PeerName+"|"+x.ServiceName]++
			sn.tags[x.PeerName+"|"+strings.ToLower(x.Node)+"|"+x.ServiceID] = x.ServiceTags
			if x.ServiceKind == structs.ServiceKindConnectProxy {
				sn.connFor[x.PeerName+"|"+strings.ToLower(x.Node)+"|"+x.ServiceID] = x.ServiceProxy.DestinationServiceName
			} else if x.ServiceConnect.Native {
				sn.connFor[x.PeerName+"|"+strings.ToLower(x.Node)+"|"+x.ServiceID] = x.ServiceName
			}
			sn.nodeSvcs[x.PeerName+"|"+strings.ToLower(x.Node)]++
		case "checks":
			c := item.(*structs.HealthCheck)
			sn.checks[c.PeerName+"|"+strings.ToLower(c.Node)+"|"+string(c.CheckID)] = c.ServiceID + "\x00" + c.Status + "|" + c.Output + "|" + c.Name + "|" + c.Type + "|" + c.Notes
			if c.Type == "session" {
				sn.sessChk[c.PeerName+"|"+strings.ToLower(c.Node)+"|"+string(c.CheckID)] = c.Status + "|" + c.Output
			}
		case "sessions":
			sn.sessions[item.(*structs.Session).ID] = true
		case "config-entries":
			e := item.(structs.ConfigEntry)
			sn.ces[e.GetKind()+"/"+e.GetName()] = true
			if sd, ok := e.(*structs.ServiceConfigEntry); ok && sd.Destination != nil {
				sn.dests[sd.Name] = true
			}
		case "gateway-services":
			g := item.(*structs.GatewayService)
			sn.links[string(g.GatewayKind)+"|"+g.Gateway.Name+"|"+g.Service.Name] = true
		}
		return true
	})
	_, pqs, _ := s.PreparedQueryList(nil)
	for _, q := range pqs {
		sn.pqs[q.ID] = true
	}
	return sn
}

type verifC06Machine struct {
	f       verifkit.F
	c       *verifkit.Case
	w       *vs.World
	panel   []*verifC06Query
	cur     []verifC06Eval
	snap    *verifC06Snap
	deleted map[string]bool
	ops     []*vs.Op
	loops   int
	loopsDeleted int
	confirmed bool
}

var verifC06PanelCache []*verifC06Query

func verifC06New(f verifkit.F, c *verifkit.Case) *verifC06Machine {
	if verifC06PanelCache == nil {
		verifC06PanelCache = verifC06Panel()
	}
	m := &verifC06Machine{f: f, c: c, w: vs.NewWorld(verifC06NewStore(f)), panel: verifC06PanelCache, deleted: map[string]bool{}}
	m.cur = m.eval("initial")
	m.snap = verifC06TakeSnap(m.w.Store)
	return m
}

// verifC06NewStore: a store as a server has it after establishing leadership — the connect CA configuration exists
// (discovery-chain based lookups such as ServiceTopology refuse to work without one). Server setup, not a history step.
func verifC06NewStore(f verifkit.F) *state.Store {
	vs.StubNet()
	s := state.NewStateStore(nil)
	if err := s.CASetConfig(5, &structs.CAConfiguration{Provider: "consul", ClusterID: "11111111-2222-3333-4444-555555555555"}); err != nil {
		f.Fatalf("CASetConfig: %v", err)
	}
	// the leader migrates intentions to config entries at start-up and records it in the system metadata; without the
	// marker the store answers intention queries from the (empty) legacy table
	if err := s.SystemMetadataSet(6, &structs.SystemMetadataEntry{Key: structs.SystemMetadataIntentionFormatKey, Value: structs.SystemMetadataIntentionFormatConfigValue}); err != nil {
		f.Fatalf("SystemMetadataSet: %v", err)
	}
	return s
}

func (m *verifC06Machine) eval(when string) []verifC06Eval {
	out := make([]verifC06Eval, len(m.panel))
	for i, q := range m.panel {
		ws := memdb.NewWatchSet()
		o, err := q.Run(m.w.Store, ws)
		if err != nil {
			m.c.Violation(m.f, "C06/"+q.Fam+"/query-error", "%s (%s): %v", q.Name, when, err)
		}
		out[i] = verifC06Eval{obs: o, ws: ws}
	}
	return out
}

// verifC06Fired reports whether any channel of the watch set is closed (deterministic: no select race with a timer).
func verifC06Fired(ws memdb.WatchSet) bool {
	for ch := range ws {
		select {
		case <-ch:
			return true
		default:
		}
	}
	return false
}

func verifC06Clamp(i uint64) uint64 {
	if i < 1 { // Server.SetQueryMeta: "Always set a non-zero QueryMeta.Index"
		return 1
	}
	return i
}

func verifC06GatewayKindOf(kind string) string {
	switch kind {
	case structs.TerminatingGateway:
		return "terminating"
	case structs.IngressGateway:
		return "ingress"
	}
	return ""
}

// verifC06WriteKind names the write for finding signatures.
func verifC06WriteKind(op *vs.Op) string {
	switch op.Kind {
	case vs.ConfigSet, vs.ConfigDelete:
		return op.Kind + ":" + op.P.ConfigEntry().Entry.GetKind()
	case vs.Register:
		k := op.Kind
		if op.P.Reg.PeerName != "" {
			k += ":peer"
		}
		return k
	case vs.DeregNode, vs.DeregService, vs.DeregCheck:
		if op.P.Peer != "" {
			return op.Kind + ":peer"
		}
	}
	return op.Kind
}

func verifC06Diff(a, b string) string {
	i := 0
	for i < len(a) && i < len(b) && a[i] == b[i] {
		i++
	}
	from := i - 60
	if from < 0 {
		from = 0
	}
	cut := func(s string) string {
		if from >= len(s) {
			return ""
		}
		s = s[from:]
		if len(s) > 260 {
			s = s[:260] + "…"
		}
		return s
	}
	return fmt.Sprintf("first difference at byte %d\n     before: …%s\n     after:  …%s", i, cut(a), cut(b))
}

// removedLinks lists gateway-services rows present before and absent after.
func verifC06RemovedLinks(b, a *verifC06Snap) []string {
	var out []string
	for l := range b.links {
		if !a.links[l] {
			out = append(out, l)
		}
	}
	sort.Strings(out)
	return out
}

// linkRemovalExplains reports whether a removed gateway-services row is one the query's index depended on.
func verifC06LinkRemovalExplains(q *verifC06Query, removed []string) bool {
	if q.Gw == "" {
		return false
	}
	for _, l := range removed {
		p := strings.SplitN(l, "|", 3)
		kind, svc := p[0], p[2]
		kindOK := q.Gw == "any" || (q.Gw == "terminating" && kind == string(structs.ServiceKindTerminatingGateway)) || (q.Gw == "ingress" && kind == string(structs.ServiceKindIngressGateway))
		if kindOK && (q.Svc == "" || svc == q.Svc) {
			return true
		}
	}
	return false
}

// Root causes recognised from the failing observation (each one triaged against the real code, see
// known_findings.d/C06.json). Anything else keeps the generic signature family/failure/write.
const (
	verifC06KeyCheckMoved   = "C06/check-reassigned-old-service-not-notified"
	verifC06KeyPeerDump     = "C06/peer-service-dump-reads-local-index"
	verifC06KeyTreeDelete   = "C06/kv-delete-tree-tombstone-misses-deeper-prefix"
	verifC06KeyConnLeft     = "C06/instance-left-connect-set-without-extinction"
	verifC06KeyConnExtinct  = "C06/connect-result-name-extinct-while-others-remain"
	verifC06KeyIxnDestKind  = "C06/intention-source-match-misses-destination-kind-change"
	verifC06KeyNodeIDGone   = "C06/node-lookup-by-id-after-id-removed-index-regress"
	verifC06KeyCatalogConn  = "C06/catalog-connect-index-ignores-proxy-services"
)

// verifC06MovedChecks lists checks (peer|node|id) whose ServiceID differs between the two snapshots.
func verifC06MovedChecks(b, a *verifC06Snap, op *vs.Op) [][3]string {
	var out [][3]string
	if op.Kind == vs.Txn {
		// a transaction can move a check and remove it (or its new service) in the same step
		for _, t := range op.P.Txn {
			if t.Check == nil || (t.Check.Verb != api.CheckSet && t.Check.Verb != api.CheckCAS) {
				continue
			}
			k := t.Check.Check.PeerName + "|" + strings.ToLower(t.Check.Check.Node) + "|" + string(t.Check.Check.CheckID)
			if v, ok := b.checks[k]; ok {
				if _, still := a.checks[k]; !still && v[:strings.Index(v, "\x00")] != t.Check.Check.ServiceID {
					out = append(out, [3]string{strings.ToLower(t.Check.Check.Node), string(t.Check.Check.CheckID), v[:strings.Index(v, "\x00")]})
				}
			}
		}
	}
	for k, v := range b.checks {
		av, ok := a.checks[k]
		if !ok {
			continue
		}
		bs, as := v[:strings.Index(v, "\x00")], av[:strings.Index(av, "\x00")]
		if bs != as {
			p := strings.SplitN(k, "|", 3)
			out = append(out, [3]string{p[1], p[2], bs})
		}
	}
	sort.Slice(out, func(i, j int) bool { return out[i][0]+out[i][1] < out[j][0]+out[j][1] })
	return out
}

func verifC06RootCause(q *verifC06Query, fk string, op *vs.Op, snapB, snapA *verifC06Snap, removed []string, b, a verifC06Obs) string {
	indexFail := fk == "changed-index-regress" || fk == "changed-index-not-advanced" || fk == "unchanged-index-regress"
	// (1) a gateway-services row the lookup depended on went away and took its index contribution with it
	if indexFail && verifC06LinkRemovalExplains(q, removed) {
		return verifC06KeyGatewayLink
	}
	// (2) a check registered again under another ServiceID (or moved between node level and service level): only
	// the NEW service's index is bumped (ensureCheckTxn); lookups that showed the check under the OLD service
	// change without notice
	if fk == "changed-index-not-advanced" || fk == "changed-not-woken" {
		for _, mv := range verifC06MovedChecks(snapB, snapA, op) {
			if strings.Contains(b.Res, `"CheckID":"`+mv[1]+`"`) && strings.Contains(strings.ToLower(b.Res), `"node":"`+mv[0]+`"`) &&
				strings.Contains(b.Res, `"ServiceID":"`+mv[2]+`"`) {
				return verifC06KeyCheckMoved
			}
		}
	}
	// (3) serviceDumpAllTxn takes index and watch channels from the LOCAL catalog tables also when it dumps a peer
	if q.Fam == "ServiceDumpPeer" && strings.Contains(q.Name, "useKind=false") && fk != "unchanged-index-regress" {
		return verifC06KeyPeerDump
	}
	// (4) a tree delete of prefix P writes ONE tombstone keyed P (none at all for P = ""); a listing of a strictly
	// deeper prefix does not match it (the graveyard is searched by "tombstone key has the listed prefix") and falls
	// back to an older tombstone under the listed prefix
	if q.KV && q.Fam != "KVSGet" && indexFail && verifC06TreeDeleteAbove(op, q.Arg) {
		return verifC06KeyTreeDelete
	}
	// (6) lookup of a node by its ID after a registration without ID stripped the ID from the (still existing) node:
	// nothing is found and the node-extinction index, which only moves when a node is deleted, is reported
	if q.Fam == "NodeServices" && indexFail && len(q.Arg) == 36 {
		had, has := false, false
		for k, id := range snapB.nodeIDs {
			had = had || (id == q.Arg && strings.HasPrefix(k, "|"))
		}
		for k, id := range snapA.nodeIDs {
			has = has || (id == q.Arg && strings.HasPrefix(k, "|"))
		}
		if had && !has && len(snapA.nodes) >= len(snapB.nodes) {
			return verifC06KeyNodeIDGone
		}
	}
	// ServiceTopology embeds the catalog connect lookup of its service (serviceNodesTxn on the connect index) and
	// inherits (7) with an unchanged result
	if (q.Fam == "ConnectServiceNodes" || q.Fam == "CheckConnectServiceNodes" || q.Fam == "ServiceTopology") && indexFail &&
		(fk != "unchanged-index-regress" || q.Fam == "ServiceTopology") {
		peer := ""
		if strings.Contains(q.Name, "peer=peerA") {
			peer = "peerA"
		}
		var extinct []string
		for k, n := range snapB.svcCount {
			if n > 0 && snapA.svcCount[k] == 0 && strings.HasPrefix(k, peer+"|") {
				extinct = append(extinct, strings.TrimPrefix(k, peer+"|"))
			}
		}
		// (7) an instance left the connect set of the service while its service NAME lives on in the catalog, so that no
		// extinction is recorded: a connect-native instance registered again without the flag, a proxy registered again
		// for another destination, or a connect-native instance removed while plain instances of the name remain. Only
		// that name's own index is bumped, and the name is no longer among the names of the result. An empty result
		// then reports the last-extinction index, which did not move; a non-empty one the indexes of what remains
		for k, dest := range snapB.connFor {
			if dest == q.Svc && strings.HasPrefix(k, peer+"|") && snapA.connFor[k] != dest && snapA.svcCount[peer+"|"+snapB.inst[k]] > 0 {
				return verifC06KeyConnLeft
			}
		}
		// (8) a service name of the connect result (a proxy name) lost its last instance while instances under other
		// names (a gateway, another proxy name) remain: the extinction index is only consulted for EMPTY results
		if a.Res != "{}" && q.Fam == "CheckConnectServiceNodes" && fk != "unchanged-index-regress" {
			for _, name := range extinct {
				if strings.Contains(b.Res, `"Service":"`+name+`"`) && !strings.Contains(a.Res, `"Service":"`+name+`"`) {
					return verifC06KeyConnExtinct
				}
			}
		}
	}
	// (9) intention match by SOURCE leaves out intentions whose destination is a "destination" (service-defaults with
	// Destination and no catalog instance); that kind is read without a watch and catalog changes are not covered by
	// the config-entries index the query reports
	if q.Fam == "IntentionMatch" && strings.HasPrefix(q.Arg, "source=") && (fk == "changed-not-woken" || fk == "changed-index-not-advanced") {
		excluded := func(sn *verifC06Snap, name string) bool { return sn.svcCount["|"+name] == 0 && sn.dests[name] }
		for _, name := range append([]string{"consul"}, vs.ServiceNames...) {
			if excluded(snapB, name) != excluded(snapA, name) &&
				(strings.Contains(b.Res, `"DestinationName":"`+name+`"`) || strings.Contains(a.Res, `"DestinationName":"`+name+`"`)) {
				return verifC06KeyIxnDestKind
			}
		}
	}
	// (5b) ServiceTopology embeds that catalog connect lookup (serviceNodesTxn on the connect index of its service):
	// when a proxy registered under ANOTHER name joins or leaves the connect set, the embedded index switches between
	// the last-extinction index (empty set) and service.<target> (non-empty set) instead of following the proxy's
	// own index, so the topology index can stall or fall although (or while) its result is unchanged
	if q.Fam == "ServiceTopology" && indexFail {
		for _, pair := range [][2]map[string]string{{snapB.connFor, snapA.connFor}, {snapA.connFor, snapB.connFor}} {
			for k, dest := range pair[0] {
				if dest != q.Svc || !strings.HasPrefix(k, "|") || pair[1][k] == dest {
					continue
				}
				name := snapA.inst[k]
				if name == "" {
					name = snapB.inst[k]
				}
				if name != q.Svc {
					return verifC06KeyCatalogConn
				}
			}
		}
	}
	// (5) Catalog connect lookup reports the index of the TARGET service name only, although its result consists of
	// proxies / gateways registered under other names
	if q.Fam == "ConnectServiceNodes" && indexFail && fk != "unchanged-index-regress" {
		other := false
		for _, r := range []string{b.Res, a.Res} {
			for _, part := range strings.Split(r, `"ServiceName":"`)[1:] {
				if !strings.HasPrefix(part, q.Svc+`"`) {
					other = true
				}
			}
		}
		if other {
			return verifC06KeyCatalogConn
		}
	}
	return ""
}

// verifC06TreeDeleteAbove: the write contains a tree delete of a proper prefix of the listed prefix.
func verifC06TreeDeleteAbove(op *vs.Op, listed string) bool {
	above := func(p string) bool { return len(p) < len(listed) && strings.HasPrefix(listed, p) }
	switch op.Kind {
	case vs.KVDeleteTree:
		return above(op.P.KV.Key)
	case vs.Txn:
		for _, t := range op.P.Txn {
			if t.KV != nil && t.KV.Verb == api.KVDeleteTree && above(t.KV.DirEnt.Key) {
				return true
			}
		}
	}
	return false
}

func (m *verifC06Machine) step(op *vs.Op) {
	f, c := m.f, m.c
	before, snapB := m.cur, m.snap
	res := vs.C06Apply(m.w.Store, op)
	m.ops = append(m.ops, op)
	after := m.eval("after " + op.Desc)
	snapA := verifC06TakeSnap(m.w.Store)
	m.cur, m.snap = after, snapA
	c.Labelf("op=%s", op.Kind)
	if res.Err != nil || len(res.Errors) > 0 {
		c.Label("write-refused")
	}

	removed := verifC06RemovedLinks(snapB, snapA)
	wk := verifC06WriteKind(op)
	nChanged := 0
	var loopCand []int
	for i, q := range m.panel {
		b, a := before[i].obs, after[i].obs
		changed := b.Res != a.Res || b.NoIdx != a.NoIdx
		if changed {
			nChanged++
			c.Labelf("changed:%s", q.Fam)
		}
		if b.NoIdx {
			continue // the pre-state answer was an error: nobody can be blocked on it
		}
		fired := verifC06Fired(before[i].ws)
		i0, i1 := verifC06Clamp(b.Idx), verifC06Clamp(a.Idx)
		var fails []string
		switch {
		case changed && a.NoIdx:
			// the endpoint now answers with an error; the blocked client must still be woken to learn that
			if !fired {
				fails = append(fails, "changed-not-woken")
			}
		case changed:
			if i1 < i0 {
				fails = append(fails, "changed-index-regress")
			} else if i1 == i0 {
				fails = append(fails, "changed-index-not-advanced")
			}
			if !fired {
				fails = append(fails, "changed-not-woken")
			}
		default:
			if i1 < i0 && !(q.KV && op.Kind == vs.Reap) {
				fails = append(fails, "unchanged-index-regress")
			}
		}
		if q.KV && op.Kind == vs.Reap && i1 < i0 {
			c.Label("reap-lowered-kv-index")
		}
		if changed && len(fails) == 0 {
			loopCand = append(loopCand, i)
		}
		for _, fk := range fails {
			key := "C06/" + q.Fam + "/" + fk + "/" + wk
			if rc := verifC06RootCause(q, fk, op, snapB, snapA, removed, b, a); rc != "" {
				key = rc
				c.Label("known:" + strings.TrimPrefix(rc, "C06/"))
				c.Label("known:" + strings.TrimPrefix(rc, "C06/") + "@" + q.Fam + ":" + fk)
			}
			detail := fmt.Sprintf("%s around %q (step %d, raft index %d, result %s): reported index %d -> %d, result changed=%v, watch fired=%v, removed gateway links=%v",
				q.Name, op.Desc, len(m.ops), op.Idx, res, i0, i1, changed, fired, removed)
			if changed {
				detail += "\n   " + verifC06Diff(b.Res, a.Res)
			}
			if os.Getenv("VERIF_C06_SURVEY") != "" { // development aid: count every signature instead of stopping at the first
				c.Label("survey:" + key)
				if verifC06SurveySeen == nil {
					verifC06SurveySeen = map[string]bool{}
				}
				if !verifC06SurveySeen[key] {
					verifC06SurveySeen[key] = true
					fmt.Printf("SURVEY %s\n%s\nHISTORY:\n%s\n", key, detail, verifC06History(m.ops))
				}
				continue
			}
			if !c.Violation(f, key, "%s", detail) {
				return
			}
			if verifkit.Thorough() && fk != "unchanged-index-regress" && !m.confirmed {
				m.confirmed = true // one confirmation per case through the real loop
				m.loop(i, op, true)
			}
		}
	}
	if nChanged > 0 {
		c.Label("write-changed-some-result")
	}
	m.shapes(op, snapB, snapA, nChanged, removed)
	// sample of (query, write) pairs through the real blockingquery.Query loop (deterministic, synctest): the
	// transitions found -> deleted get their own budget because the loop treats "not found" specially
	maxLoops, maxDeleted := 2, 2
	if verifkit.Thorough() {
		maxLoops, maxDeleted = verifkit.EnvInt("VERIF_C06_LOOPS", 4), 3
	}
	var deleted []int
	for _, i := range loopCand {
		if after[i].obs.NotFound && !before[i].obs.NotFound {
			deleted = append(deleted, i)
		}
	}
	if len(deleted) > 0 && m.loopsDeleted < maxDeleted {
		m.loopsDeleted++
		c.Label("loop:found-to-deleted")
		m.loop(deleted[int(op.Idx)%len(deleted)], op, false)
	} else if len(loopCand) > 0 && m.loops < maxLoops {
		m.loops++
		m.loop(loopCand[int(op.Idx)%len(loopCand)], op, false)
	}
}

// shapes classifies the write into the hard shapes the property names (labels + non-triviality).
func (m *verifC06Machine) shapes(op *vs.Op, b, a *verifC06Snap, nChanged int, removedLinks []string) {
	c := m.c
	hard := func(l string) {
		if nChanged > 0 {
			c.Label("shape:" + l)
			c.NonTrivial()
		}
	}
	// last instance of a service removed
	for k, n := range b.svcCount {
		if n > 0 && a.svcCount[k] == 0 {
			hard("last-instance-removed")
			if n > 1 {
				c.Label("shape:last-instances-removed-together")
			}
		}
	}
	// delete under a sibling prefix: a key went away while a listing that must not be disturbed has content
	for k := range b.kv {
		if a.kv[k] {
			continue
		}
		for _, p := range vs.Prefixes {
			if p == "" || strings.HasPrefix(k, p) || p[0] != k[0] {
				continue
			}
			for k2 := range a.kv {
				if strings.HasPrefix(k2, p) {
					hard("kv-delete-sibling-prefix")
				}
			}
		}
		if op.Kind == vs.KVDeleteTree {
			c.Label("shape:kv-delete-tree-removed-keys")
		}
	}
	// node-level check change on a node that carries services
	nodeLevel := func(k, v string, other map[string]string) {
		if !strings.HasPrefix(v, "\x00") {
			return
		}
		if ov, ok := other[k]; ok && ov == v {
			return
		}
		node := k[:strings.LastIndex(k, "|")]
		if b.nodeSvcs[node] > 0 || a.nodeSvcs[node] > 0 {
			hard("node-level-check-change")
		}
	}
	for k, v := range b.checks {
		nodeLevel(k, v, a.checks)
	}
	for k, v := range a.checks {
		nodeLevel(k, v, b.checks)
	}
	// entity re-created after deletion
	track := func(typ string, before, after map[string]bool) {
		for k := range before {
			if !after[k] {
				m.deleted[typ+":"+k] = true
			}
		}
		for k := range after {
			if !before[k] && m.deleted[typ+":"+k] {
				hard("recreate-after-delete")
				c.Label("recreated:" + typ)
			}
		}
	}
	keys := func(mm map[string]string) map[string]bool {
		o := map[string]bool{}
		for k := range mm {
			o[k] = true
		}
		return o
	}
	pos := func(mm map[string]int) map[string]bool {
		o := map[string]bool{}
		for k, n := range mm {
			if n > 0 {
				o[k] = true
			}
		}
		return o
	}
	track("kv", b.kv, a.kv)
	track("node", b.nodes, a.nodes)
	track("service", pos(b.svcCount), pos(a.svcCount))
	track("instance", keys(b.inst), keys(a.inst))
	track("check", keys(b.checks), keys(a.checks))
	track("config-entry", b.ces, a.ces)
	track("prepared-query", b.pqs, a.pqs)
	track("gateway-link", b.links, a.links)
	// gateway config entry delete
	if op.Kind == vs.ConfigDelete {
		e := op.P.ConfigEntry().Entry
		if verifC06GatewayKindOf(e.GetKind()) != "" && b.ces[e.GetKind()+"/"+e.GetName()] && !a.ces[e.GetKind()+"/"+e.GetName()] {
			hard("gateway-config-entry-delete")
		}
	}
	if len(removedLinks) > 0 {
		c.Label("gateway-link-removed")
	}
	// a tag-filtered lookup of the panel loses its last matching instance while the service keeps instances
	for _, st := range verifC06TagQueries {
		match := func(sn *verifC06Snap) int {
			n := 0
			for k, name := range sn.inst {
				if name != st.svc || !strings.HasPrefix(k, "|") {
					continue
				}
				all := true
				for _, want := range st.tags {
					has := false
					for _, tg := range sn.tags[k] {
						has = has || strings.EqualFold(tg, want)
					}
					all = all && has
				}
				if all {
					n++
				}
			}
			return n
		}
		if match(b) > 0 && match(a) == 0 && a.svcCount["|"+st.svc] > 0 {
			hard("tag-match-emptied-service-remains")
			for k := range m.deleted {
				if strings.HasPrefix(k, "service:|") {
					hard("tag-match-emptied-after-an-extinction")
					break
				}
			}
		}
	}
	// a session coming or going flips a check of type "session" (updateSessionCheck)
	sessionsChanged := len(b.sessions) != len(a.sessions)
	for id := range a.sessions {
		sessionsChanged = sessionsChanged || !b.sessions[id]
	}
	if sessionsChanged {
		for k, v := range b.sessChk {
			if av, ok := a.sessChk[k]; ok && av != v {
				hard("session-driven-check-flip")
			}
		}
	}
}

type verifC06TagQuery struct {
	svc  string
	tags []string
}

// verifC06TagQueries are the tag-filtered lookups of the panel (ServiceTagNodes / CheckServiceTagNodes).
var verifC06TagQueries = []verifC06TagQuery{{"web", []string{"a"}}, {"api", []string{"a", "b"}}, {"db", []string{"b"}}}

var verifC06SurveySeen map[string]bool

func verifC06History(ops []*vs.Op) string {
	var b strings.Builder
	for _, o := range ops {
		fmt.Fprintf(&b, "   %d %s\n", o.Idx, o.Desc)
	}
	return b.String()
}

func verifC06Run(f verifkit.F, c *verifkit.Case, next func(m *verifC06Machine, i int) *vs.Op) {
	m := verifC06New(f, c)
	defer c.GuardPanic(f, "C06/panic")
	for i := 0; ; i++ {
		op := next(m, i)
		if op == nil {
			break
		}
		c.Op(op)
		m.step(op)
	}
}

func TestVerifC06Blocking(t *testing.T) {
	rec := verifkit.For("C06")
	defer rec.Flush()
	maxSteps := verifkit.EnvInt("VERIF_C06_STEPS", 40)
	rec.SetExtra("panel_queries", fmt.Sprint(len(verifC06Panel())))
	rapid.Check(t, func(t *rapid.T) {
		c := rec.NewCase()
		n := rapid.IntRange(8, maxSteps).Draw(t, "steps")
		verifC06Run(t, c, func(m *verifC06Machine, i int) *vs.Op {
			if i >= n {
				return nil
			}
			return m.w.DrawC06Op(t)
		})
		c.Done()
	})
}

// verifC06Witness is a fixed minimal history of one known finding.
type verifC06Witness struct {
	key string
	ops []*vs.Op
}

func verifC06Witnesses() map[string]verifC06Witness {
	w := &structs.Weights{Passing: 1, Warning: 1}
	reg := func(idx uint64, node, peer string, svc *structs.NodeService, checks ...*structs.HealthCheck) *vs.Op {
		req := &structs.RegisterRequest{Datacenter: "dc1", Node: node, ID: vs.NodeIDs[node], Address: "10.0.0." + node[1:], PeerName: peer, Service: svc}
		if svc != nil {
			svc.PeerName = peer
			svc.Weights = w
		}
		for _, c := range checks {
			c.Node, c.PeerName, c.Name = node, peer, string(c.CheckID)
			req.Checks = append(req.Checks, c)
		}
		return vs.NewRegister(idx, req)
	}
	gw := func() *structs.NodeService {
		return &structs.NodeService{Kind: structs.ServiceKindTerminatingGateway, Service: "term-gw", ID: "term-gw-1", Port: 8444}
	}
	plain := func(name string) *structs.NodeService {
		return &structs.NodeService{Service: name, ID: name + "-1", Port: 8080}
	}
	proxy := func(dst string) *structs.NodeService {
		return &structs.NodeService{Kind: structs.ServiceKindConnectProxy, Service: dst + "-proxy", ID: dst + "-proxy-1", Port: 20000,
			Proxy: structs.ConnectProxyConfig{DestinationServiceName: dst}}
	}
	tg := func(svcs ...string) *structs.TerminatingGatewayConfigEntry {
		e := &structs.TerminatingGatewayConfigEntry{Kind: structs.TerminatingGateway, Name: "term-gw"}
		for _, s := range svcs {
			e.Services = append(e.Services, structs.LinkedService{Name: s})
		}
		_ = e.Normalize()
		return e
	}
	ixn := &structs.ServiceIntentionsConfigEntry{Kind: structs.ServiceIntentions, Name: "db",
		Sources: []*structs.SourceIntention{{Name: "api", Action: structs.IntentionActionAllow}}}
	_ = ixn.Normalize()
	destDefaults := &structs.ServiceConfigEntry{Kind: structs.ServiceDefaults, Name: "db", Protocol: "tcp",
		Destination: &structs.DestinationConfig{Addresses: []string{"example.com"}, Port: 443}}
	_ = destDefaults.Normalize()
	native := plain("web")
	native.Connect.Native = true
	native3 := plain("web")
	native3.Connect.Native = true
	native2 := plain("web")
	native2.Connect.Native = true
	noID := reg(12, "n1", "", nil)
	noID.P.Reg.ID = ""
	noID.Desc = ""
	noID.Seal()
	return map[string]verifC06Witness{
		// DESIGN §7 H: CheckConnectServiceNodes(db) 1 node @12 -> 0 nodes @11
		"witness-gateway-entry-delete": {verifC06KeyGatewayLink, []*vs.Op{
			reg(11, "n1", "", gw()),
			vs.NewConfig(vs.ConfigSet, 12, structs.ConfigEntryUpsert, tg("db")),
			vs.NewConfig(vs.ConfigDelete, 14, structs.ConfigEntryDelete, tg()),
		}},
		// same root cause through an update that drops the link
		"witness-gateway-entry-update": {verifC06KeyGatewayLink, []*vs.Op{
			reg(11, "n1", "", gw()),
			vs.NewConfig(vs.ConfigSet, 12, structs.ConfigEntryUpsert, tg("db")),
			vs.NewConfig(vs.ConfigSet, 14, structs.ConfigEntryUpsert, tg("web")),
		}},
		// check c1 of web-1 registered again as a check of api-1: CheckServiceNodes(web) loses it, index 11 -> 11, nobody woken
		"witness-check-reassigned": {verifC06KeyCheckMoved, []*vs.Op{
			reg(11, "n1", "", plain("web"), &structs.HealthCheck{CheckID: "c1", Status: api.HealthPassing, ServiceID: "web-1"}),
			reg(12, "n1", "", plain("api"), &structs.HealthCheck{CheckID: "c1", Status: api.HealthPassing, ServiceID: "api-1"}),
		}},
		// imported service appears: ServiceDump(peer=peerA) 0 -> 1 node, index 1 -> 1, nobody woken
		"witness-peer-service-dump": {verifC06KeyPeerDump, []*vs.Op{
			reg(11, "n1", "peerA", plain("web")),
		}},
		// KVSList("a/b/"): [a/b/c@13] index 13 -> [] index 12
		"witness-kv-delete-tree": {verifC06KeyTreeDelete, []*vs.Op{
			vs.NewKV(vs.KVSet, 11, "a/b/c", []byte("v1"), 0, 0, ""),
			vs.NewKV(vs.KVDelete, 12, "a/b/c", nil, 0, 0, ""),
			vs.NewKV(vs.KVSet, 13, "a/b/c", []byte("v2"), 0, 0, ""),
			vs.NewKV(vs.KVDeleteTree, 14, "a/", nil, 0, 0, ""),
		}},
		// ConnectServiceNodes(web): [] index 11 -> [web-proxy-1] index 11
		"witness-catalog-connect": {verifC06KeyCatalogConn, []*vs.Op{
			reg(11, "n1", "", plain("web")),
			reg(12, "n1", "", proxy("web")),
		}},
		// same root cause with an older extinction: ConnectServiceNodes(db) [] index 13 (extinction of api) -> [db-proxy-1]
		// index 11 (service.db); ServiceTopology(db) embeds the lookup and falls with an unchanged result
		"witness-catalog-connect-extinction-to-target-index": {verifC06KeyCatalogConn, []*vs.Op{
			reg(11, "n1", "", plain("db")),
			reg(12, "n2", "", plain("api")),
			vs.NewDereg(vs.DeregService, 13, "n2", "api-1", ""),
			reg(14, "n3", "", proxy("db")),
		}},
		// NodeServices(<id of n1>): node + services, index 11 -> nothing, index 1
		"witness-node-id-removed": {verifC06KeyNodeIDGone, []*vs.Op{
			reg(11, "n1", "", plain("web")),
			noID,
		}},
		// CheckConnectServiceNodes(web): [web-1 native] index 13 -> [] index 12 (the extinction of api)
		"witness-connect-set-emptied": {verifC06KeyConnLeft, []*vs.Op{
			reg(11, "n1", "", plain("api")),
			vs.NewDereg(vs.DeregService, 12, "n1", "api-1", ""),
			reg(13, "n1", "", native),
			reg(14, "n1", "", plain("web")),
		}},
		// same root cause with a non-empty remainder: CheckConnectServiceNodes(web) [web-1 native, term-gw-1] index 13 ->
		// [term-gw-1] index 13
		"witness-connect-set-left-others-remain": {verifC06KeyConnLeft, []*vs.Op{
			reg(11, "n1", "", gw()),
			reg(12, "n2", "", native2),
			vs.NewConfig(vs.ConfigSet, 13, structs.ConfigEntryUpsert, tg("web")),
			reg(14, "n2", "", plain("web")),
		}},
		// IntentionMatch(source=api): [api->db] -> [] , index 11 -> 12 but no watch fires
		"witness-intention-destination-kind": {verifC06KeyIxnDestKind, []*vs.Op{
			vs.NewConfig(vs.ConfigSet, 11, structs.ConfigEntryUpsert, ixn),
			vs.NewConfig(vs.ConfigSet, 12, structs.ConfigEntryUpsert, destDefaults),
		}},
		// same root cause, the native instance is removed while a plain instance of the name remains:
		// ConnectServiceNodes(web) [web-1@n2 native] index 14 -> [] index 12
		"witness-connect-set-native-removed-plain-remains": {verifC06KeyConnLeft, []*vs.Op{
			reg(11, "n1", "", plain("api")),
			vs.NewDereg(vs.DeregService, 12, "n1", "api-1", ""),
			reg(13, "n1", "", plain("web")),
			reg(14, "n2", "", native3),
			vs.NewDereg(vs.DeregService, 15, "n2", "web-1", ""),
		}},
		// CheckConnectServiceNodes(web): [web-proxy-1, term-gw-1] index 13 -> [term-gw-1] index 12
		"witness-connect-name-extinct": {verifC06KeyConnExtinct, []*vs.Op{
			reg(11, "n1", "", gw()),
			vs.NewConfig(vs.ConfigSet, 12, structs.ConfigEntryUpsert, tg("web")),
			reg(13, "n2", "", proxy("web")),
			vs.NewDereg(vs.DeregService, 14, "n2", "web-proxy-1", ""),
		}},
	}
}

func TestVerifC06Replay(t *testing.T) {
	rec := verifkit.For("C06")
	defer rec.Flush()
	feed := func(ops []*vs.Op) func(m *verifC06Machine, i int) *vs.Op {
		return func(m *verifC06Machine, i int) *vs.Op {
			if i >= len(ops) {
				return nil
			}
			return ops[i]
		}
	}
	if os.Getenv("VERIF_REPLAY") == "" {
		ws := verifC06Witnesses()
		var names []string
		for n := range ws {
			names = append(names, n)
		}
		sort.Strings(names)
		for _, name := range names {
			if dir := os.Getenv("VERIF_C06_DUMP_WITNESSES"); dir != "" { // writes the corpus form of the witnesses
				rp := verifkit.Replay{Property: "C06", Key: ws[name].key, Detail: "fixed witness history of a known finding"}
				for _, op := range ws[name].ops {
					b, _ := json.Marshal(op)
					rp.Ops = append(rp.Ops, b)
				}
				b, _ := json.MarshalIndent(rp, "", " ")
				_ = os.WriteFile(filepath.Join(dir, name+".json"), b, 0o644)
			}
			c := rec.NewCase()
			c.Label("witness:" + name)
			verifC06Run(t, c, feed(ws[name].ops))
			if !c.HasLabel("known:" + strings.TrimPrefix(ws[name].key, "C06/")) {
				// the finding no longer reproduces (fixed tree, or a `fixed` entry): visible in the evidence, not a failure
				t.Logf("witness %s no longer reproduces %s", name, ws[name].key)
				c.Label("witness-no-longer-reproduces:" + name)
			}
			c.Done()
		}
	}
	for _, path := range verifkit.ReplayFiles("C06") {
		c := rec.NewCase()
		c.Label("replay")
		verifC06Run(t, c, feed(kvm.LoadOps(t, path)))
		c.Done()
	}
}
