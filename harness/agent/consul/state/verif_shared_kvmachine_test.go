package state_test

// Shared KV/session model machine used by C03, C04 and C05 (see verif_c03_test.go for the description).
//
// A rapid state machine applies generated histories (KV verbs direct and inside transactions, session
// create/destroy, tombstone reaps, node/check (de)registration that ends sessions) to a real Store and, in
// lock-step, to the 150-line reference model of verifstate.KVModel. After EVERY step: the reported verdict
// equals the model's, every key of the universe reads back equal to the model (all six fields), every prefix
// listing equals the model's prefix view in order, plus the statement's explicit clauses.

import (
	"bytes"
	"encoding/json"
	"fmt"
	"sort"
	"testing"

	"github.com/hashicorp/consul/agent/consul/state"
	"github.com/hashicorp/consul/agent/structs"
	"github.com/hashicorp/consul/api"
	"github.com/hashicorp/consul/internal/verifkit"
	vs "github.com/hashicorp/consul/internal/verifstate"
)

// verifKeyLockIndexReset: a plain set / check-and-set on a key whose lock counter is N > 0 stores counter 0
// (kvsSetTxn keeps the holder but takes LockIndex from the request). Upstream's own unedited test
// TestStateStore_KVSSetCAS pins a ModifyIndex that only results from that reset, so it cannot be repaired
// without editing the suite: recorded as a known finding.
const verifKeyLockIndexResetSuffix = "/plain-write-resets-lock-index"

type verifKVMachine struct {
	p           string // property id: prefix of every finding signature
	f           verifkit.F
	c           *verifkit.Case
	w           *vs.World
	m           *vs.KVModel
	lastDeleted map[string]bool // keys deleted at some point (for the non-triviality rule)
	lockResetKey string
	mixed        bool

	// hooks for the properties that build on this machine
	beforeStep func(x *verifKVMachine, op *vs.Op)
	afterStep  func(x *verifKVMachine, op *vs.Op, res vs.Result)
}

func verifKVNew(p string, f verifkit.F, c *verifkit.Case, s *state.Store) *verifKVMachine {
	if s == nil {
		s = state.NewStateStore(nil)
	}
	m := vs.NewKVModel()
	key := p + verifKeyLockIndexResetSuffix
	if verifkit.For(p).IsKnown(key) {
		// known finding excluded by construction: the model follows the defective behaviour and counts each time it matters
		m.QuirkPlainWriteResetsLockIndex = true
		m.OnQuirk = func() { c.KnownHit(key); c.Label("known:plain-write-resets-lock-index") }
	}
	return &verifKVMachine{p: p, f: f, c: c, w: vs.NewWorld(s), m: m, lastDeleted: map[string]bool{}, lockResetKey: key}
}



// syncSessions makes the model's session set equal to the store's: sessions are an INPUT of the KV model
// (who is alive), their effect on keys (release/delete) is what the model predicts.
func (x *verifKVMachine) syncSessions(idx uint64) (ended []string) {
	live := map[string]*structs.Session{}
	_, ss, _ := x.w.Store.SessionList(nil, nil)
	for _, s := range ss {
		live[s.ID] = s
	}
	var ids []string
	for id := range x.m.Sess {
		if live[id] == nil {
			ids = append(ids, id)
		}
	}
	sort.Strings(ids)
	for _, id := range ids {
		x.m.SessionEnded(idx, id)
		ended = append(ended, id)
	}
	for id, s := range live {
		if x.m.Sess[id] == nil {
			x.m.Sess[id] = &vs.MSess{ID: id, Behavior: string(s.Behavior), Node: s.Node}
		}
	}
	return ended
}

func (x *verifKVMachine) step(op *vs.Op) {
	f, c := x.f, x.c
	before := map[string]*vs.MEntry{}
	for k, e := range x.m.KV {
		ce := *e
		before[k] = &ce
	}
	if x.beforeStep != nil {
		x.beforeStep(x, op)
	}
	res := vs.Apply(x.w.Store, op)
	defer func() {
		if x.afterStep != nil {
			x.afterStep(x, op, res)
		}
	}()
	p := op.P
	idx := op.Idx
	c.Labelf("op=%s", op.Kind)

	check := func(v vs.Verdict) {
		gotErr := res.Err != nil
		if gotErr != v.Err || (!gotErr && res.OK != v.OK) {
			c.Violation(f, x.p+"/verdict/"+op.Kind, "op %s: store reported %s, model expects ok=%v err=%v", op.Desc, res, v.OK, v.Err)
		}
	}
	switch op.Kind {
	case vs.KVSet:
		check(x.m.Set(idx, p.KV.Key, p.KV.Value, p.KV.Flags))
	case vs.KVCAS:
		check(x.m.CAS(idx, p.KV.Key, p.KV.Value, p.KV.Flags, p.KV.ModifyIndex))
	case vs.KVDelete:
		check(x.m.Delete(idx, p.KV.Key))
	case vs.KVDeleteCAS:
		check(x.m.DeleteCAS(idx, p.KV.Key, p.CASIndex))
	case vs.KVDeleteTree:
		check(x.m.DeleteTree(idx, p.KV.Key))
	case vs.KVLock:
		check(x.m.Lock(idx, p.KV.Key, p.KV.Value, p.KV.Flags, p.KV.Session))
	case vs.KVUnlock:
		check(x.m.Unlock(idx, p.KV.Key, p.KV.Value, p.KV.Flags, p.KV.Session))
	case vs.Txn, vs.TxnRO:
		x.stepTxn(op, res)
	case vs.Reap:
		// tombstones are invisible to get/list content
	default:
		// session / catalog ops: no direct KV effect; session endings are picked up below
	}
	if ended := x.syncSessions(idx); len(ended) > 0 {
		c.Label("session-ended")
		if op.Kind != vs.SessDestroy {
			c.Label("session-ended-by-cascade")
		}
	}
	if x.mixed {
		x.mixed = false
		for _, k := range vs.Keys {
			_, got, _ := x.w.Store.KVSGet(nil, k, nil)
			x.m.AdoptEntry(k, got)
		}
		before = nil
	}
	x.compare(op, before)
}

func (x *verifKVMachine) stepTxn(op *vs.Op, res vs.Result) {
	f, c := x.f, x.c
	for _, t := range op.P.Txn {
		if t.KV == nil {
			// A transaction with catalog/session verbs: KV verbs may depend on in-transaction cascades (a node
			// delete ends a session and frees a key for a later lock). The sequential KV model does not predict
			// those; the model is re-synchronised from the store afterwards and the invariants of C04/C05 judge it.
			x.mixed = true
			c.Label("txn-mixed")
			if len(res.Errors) > 0 {
				c.Label("txn-aborted")
			} else {
				c.Label("txn-committed")
			}
			return
		}
	}
	mc := x.m.Clone()
	var failed []int
	var expectReads [][]string
	var expectSnap [][]*vs.MEntry // model entries right after the op ran (results reflect the state at op time)
	for i, t := range op.P.Txn {
		if t.KV == nil {
			// catalog/session verbs inside a txn: not modelled here (C04/C05 cover them); their KV side effects
			// arrive through syncSessions. A failing catalog verb aborts the txn: detect through the result.
			expectReads = append(expectReads, nil)
			expectSnap = append(expectSnap, nil)
			continue
		}
		ok, reads := mc.TxnKV(op.Idx, t.KV)
		if !ok {
			failed = append(failed, i)
		}
		expectReads = append(expectReads, reads)
		var snap []*vs.MEntry
		for _, k := range reads {
			if e := mc.KV[k]; e != nil {
				ce := *e
				snap = append(snap, &ce)
			} else {
				snap = append(snap, nil)
			}
		}
		expectSnap = append(expectSnap, snap)
	}
	hasNonKV := false
	for _, t := range op.P.Txn {
		hasNonKV = hasNonKV || t.KV == nil
	}
	gotFailed := map[int]bool{}
	for _, e := range res.Errors {
		gotFailed[e.OpIndex] = true
	}
	for _, i := range failed {
		if !gotFailed[i] {
			c.Violation(f, x.p+"/txn-verb-should-fail/"+string(op.P.Txn[i].KV.Verb), "txn %s: op #%d (%s) must fail per model but store reported %s", op.Desc, i, vs.DescribeTxnOp(op.P.Txn[i]), res)
			return
		}
	}
	for i := range gotFailed {
		if i < len(op.P.Txn) && op.P.Txn[i].KV != nil {
			isModelFail := false
			for _, j := range failed {
				isModelFail = isModelFail || j == i
			}
			if !isModelFail {
				c.Violation(f, x.p+"/txn-verb-should-succeed/"+string(op.P.Txn[i].KV.Verb), "txn %s: op #%d (%s) failed in store (%s) but model accepts it", op.Desc, i, vs.DescribeTxnOp(op.P.Txn[i]), res)
				return
			}
		}
	}
	if len(res.Errors) > 0 {
		c.Label("txn-aborted")
		return // nothing applied; model unchanged
	}
	if op.Kind == vs.TxnRO {
		c.Label("txn-ro-ok")
	} else {
		c.Label("txn-committed")
		if len(op.P.Txn) > 1 {
			c.Label("txn-multi-committed")
		}
		*x.m = *mc
	}
	// compare KV results with the model for pure-KV transactions (result positions are then predictable)
	if hasNonKV {
		return
	}
	var want []string // expected result keys in order
	var wantE []*vs.MEntry
	var wantVerb []api.KVOp
	for i, t := range op.P.Txn {
		switch t.KV.Verb {
		case api.KVDelete, api.KVDeleteCAS, api.KVDeleteTree, api.KVCheckNotExists:
			continue
		}
		want = append(want, expectReads[i]...)
		wantE = append(wantE, expectSnap[i]...)
		for range expectReads[i] {
			wantVerb = append(wantVerb, t.KV.Verb)
		}
	}
	if len(res.Results) != len(want) {
		c.Violation(f, x.p+"/txn-result-count", "txn %s: %d results, model expects %d (%v)", op.Desc, len(res.Results), len(want), want)
		return
	}
	for i, r := range res.Results {
		if r.KV == nil {
			c.Violation(f, x.p+"/txn-result-kind", "txn %s: result #%d is not a KV result", op.Desc, i)
			return
		}
		if r.KV.Key != want[i] {
			c.Violation(f, x.p+"/txn-result-key", "txn %s: result #%d has key %q, model expects %q", op.Desc, i, r.KV.Key, want[i])
			return
		}
		me := wantE[i]
		if me == nil {
			continue // get-or-empty of an absent key
		}
		bad := r.KV.ModifyIndex != me.Modify || r.KV.CreateIndex != me.Create || r.KV.LockIndex != me.LockIndex || r.KV.Session != me.Session || r.KV.Flags != me.Flags
		switch wantVerb[i] {
		case api.KVGet, api.KVGetOrEmpty, api.KVGetTree:
			bad = bad || !bytes.Equal(r.KV.Value, me.Value)
		}
		if bad {
			if c.Violation(f, x.p+"/txn-result-content", "txn %s: result #%d %s differs from model %+v", op.Desc, i, vs.CanonJSON(r.KV), *me) {
				continue
			}
			return
		}
	}
}

// compare reads every key and every prefix back and checks the statement's explicit clauses.
func (x *verifKVMachine) compare(op *vs.Op, before map[string]*vs.MEntry) {
	f, c := x.f, x.c
	s := x.w.Store
	for _, k := range vs.Keys {
		_, got, err := s.KVSGet(nil, k, nil)
		if err != nil {
			c.Violation(f, x.p+"/get-error", "KVSGet(%q): %v", k, err)
			continue
		}
		if d := x.m.CompareEntry(k, got); d != "" {
			key := x.p+"/state/" + x.m.FirstDiffField(k, got) + "/after=" + op.Kind
			if me := x.m.KV[k]; me != nil && got != nil && got.LockIndex == 0 && me.LockIndex > 0 && got.Session == me.Session &&
				(op.Kind == vs.KVSet || op.Kind == vs.KVCAS || op.Kind == vs.Txn) {
				key = x.lockResetKey
			}
			if c.Violation(f, key, "after %s: %s", op.Desc, d) {
				x.m.AdoptEntry(k, got)
			}
			continue
		}
		// explicit clauses of the statement, asserted directly on the store's data
		if b := before[k]; b != nil && got != nil && op.Kind != vs.Txn {
			if got.CreateIndex != b.Create {
				c.Violation(f, x.p+"/create-index-changed", "after %s: key %q CreateIndex %d -> %d while the key existed", op.Desc, k, b.Create, got.CreateIndex)
			}
			same := bytes.Equal(b.Value, got.Value) && b.Flags == got.Flags && b.Session == got.Session && b.LockIndex == got.LockIndex
			if same && got.ModifyIndex != b.Modify {
				c.Violation(f, x.p+"/noop-advanced-modify-index", "after %s: key %q unchanged but ModifyIndex %d -> %d", op.Desc, k, b.Modify, got.ModifyIndex)
			}
			if !same && got.ModifyIndex != op.Idx {
				c.Violation(f, x.p+"/change-without-modify-index", "after %s: key %q changed but ModifyIndex=%d, step index=%d", op.Desc, k, got.ModifyIndex, op.Idx)
			}
			if got.LockIndex != b.LockIndex {
				fresh := b.Session == "" && got.Session != ""
				quirk := x.m.QuirkPlainWriteResetsLockIndex && got.LockIndex == 0 && (op.Kind == vs.KVSet || op.Kind == vs.KVCAS) // known finding, counted by the model
				if !(fresh && got.LockIndex == b.LockIndex+1) && !quirk {
					c.Violation(f, x.p+"/lock-index", "after %s: key %q LockIndex %d -> %d (holder %q -> %q)", op.Desc, k, b.LockIndex, got.LockIndex, b.Session, got.Session)
				}
			} else if b.Session == "" && got.Session != "" {
				c.Violation(f, x.p+"/lock-index", "after %s: key %q freshly acquired but LockIndex stayed %d", op.Desc, k, got.LockIndex)
			}
		}
	}
	for _, pfx := range vs.Prefixes {
		_, ents, err := s.KVSList(nil, pfx, nil)
		if err != nil {
			c.Violation(f, x.p+"/list-error", "KVSList(%q): %v", pfx, err)
			continue
		}
		want := x.m.Keys(pfx)
		var got []string
		for _, e := range ents {
			got = append(got, e.Key)
		}
		if fmt.Sprint(got) != fmt.Sprint(want) {
			c.Violation(f, x.p+"/list-keys", "after %s: KVSList(%q) keys %q, model %q", op.Desc, pfx, got, want)
			continue
		}
		for _, e := range ents {
			if d := x.m.CompareEntry(e.Key, e); d != "" {
				c.Violation(f, x.p+"/list-content", "after %s: KVSList(%q): %s", op.Desc, pfx, d)
			}
		}
	}
	// non-triviality bookkeeping
	for k := range before {
		if x.m.KV[k] == nil {
			x.lastDeleted[k] = true
		}
	}
	for k := range x.m.KV {
		if before[k] == nil && x.lastDeleted[k] {
			c.Label("recreate-after-delete")
			c.NonTrivial()
		}
	}
	switch op.Kind {
	case vs.KVCAS, vs.KVDeleteCAS:
		if x.lastDeleted[op.P.KV.Key] {
			c.Label("cas-after-delete")
			c.NonTrivial()
		}
	case vs.KVSet:
		if b := before[op.P.KV.Key]; b != nil && b.Session != "" {
			c.Label("set-on-locked-key")
			c.NonTrivial()
		}
	case vs.KVLock:
		if op.P.KV.Session != "" && x.m.Sess[op.P.KV.Session] == nil {
			c.Label("lock-with-dead-session")
			c.NonTrivial()
		}
	}
}

func verifKVRun(p string, f verifkit.F, c *verifkit.Case, setup func(x *verifKVMachine), next func(x *verifKVMachine, i int) *vs.Op) {
	x := verifKVNew(p, f, c, nil)
	if setup != nil {
		setup(x)
	}
	defer c.GuardPanic(f, p+"/panic")
	for i := 0; ; i++ {
		op := next(x, i)
		if op == nil {
			break
		}
		c.Op(op)
		x.step(op)
	}
}

// verifLoadOps decodes the ops of a replay file.
func verifLoadOps(t *testing.T, path string) []*vs.Op {
	rp, err := verifkit.LoadReplay(path)
	if err != nil {
		t.Fatal(err)
	}
	var ops []*vs.Op
	for _, raw := range rp.Ops {
		var op vs.Op
		if err := json.Unmarshal(raw, &op); err != nil {
			t.Fatalf("%s: %v", path, err)
		}
		ops = append(ops, op.Load())
	}
	return ops
}

func verifOpsFeeder(ops []*vs.Op) func(x *verifKVMachine, i int) *vs.Op {
	return func(x *verifKVMachine, i int) *vs.Op {
		if i >= len(ops) {
			return nil
		}
		return ops[i]
	}
}

