package state_test

// C05 — Transactions are all-or-nothing and isolated.
//
// Two stores A and B are driven through the same generated history (catalog, sessions, KV, queries). Every
// read-write transaction is applied to A as ONE transaction. Then:
//
//  (a) if it aborted: the full dump of A (every table, index table, tombstones, usage, VIP pool included) is
//      identical to the dump before, no events were handed to the publisher, no channel of the watch sets taken
//      from a query panel before the transaction fired, the tombstone-GC hint state is unchanged, Results is nil
//      and Errors is non-empty; B is left alone.
//  (b) if it committed: every row of A that changed carries exactly the transaction's index; the same operations
//      are applied to B ONE BY ONE (single-op transactions at the same index) and must all succeed and leave B's
//      dump identical to A's — i.e. the transaction behaved as the sequential composition of its operations, each
//      seeing the effects of the earlier ones. For pure-KV transactions the shared KV model additionally checks
//      results and post-state.
//  (c) read-only transactions leave the dump unchanged (results are checked by the shared KV model).
//
// The failing operation is placed at a drawn position of an otherwise succeeding list.

import (
	"fmt"
	"os"
	"reflect"
	"sort"
	"testing"
	"time"

	"github.com/hashicorp/consul/agent/consul/state"
	"github.com/hashicorp/consul/agent/consul/stream"
	"github.com/hashicorp/consul/agent/structs"
	"github.com/hashicorp/consul/api"
	"github.com/hashicorp/consul/internal/verifkit"
	kvm "github.com/hashicorp/consul/internal/verifkvm"
	vs "github.com/hashicorp/consul/internal/verifstate"
	memdb "github.com/hashicorp/go-memdb"
	"pgregory.net/rapid"
)

var verifC05Cfg = &vs.Cfg{KV: 30, Session: 14, Reap: 1, Catalog: 24, Dereg: 5, PQ: 4, Killer: 3, TxnCatalog: true, Rename: true, SessionChecks: true, Connect: true, SysMeta: 2, MaxTxnOps: 6}

type verifC05Pub struct {
	batches int
	events  int
}

func (p *verifC05Pub) Publish(ev []stream.Event) {
	if len(ev) > 0 {
		p.batches++
		p.events += len(ev)
	}
}
func (p *verifC05Pub) RegisterHandler(stream.Topic, stream.SnapshotFunc, bool) error { return nil }
func (p *verifC05Pub) Subscribe(*stream.SubscribeRequest) (*stream.Subscription, error) {
	return nil, fmt.Errorf("not supported")
}

// verifGCFingerprint reads the pending-hint state of a TombstoneGC (unexported fields, read-only via reflect).
func verifGCFingerprint(gc *state.TombstoneGC) string {
	v := reflect.ValueOf(gc).Elem().FieldByName("expires")
	var idx []uint64
	it := v.MapRange()
	for it.Next() {
		idx = append(idx, it.Value().Elem().FieldByName("maxIndex").Uint())
	}
	sort.Slice(idx, func(i, j int) bool { return idx[i] < idx[j] })
	return fmt.Sprint(idx)
}

type verifC05State struct {
	pub    *verifC05Pub
	gc     *state.TombstoneGC
	b      *state.Store
	dumpA  vs.Dump
	pubBefore verifC05Pub
	gcBefore  string
	ws     memdb.WatchSet
}

// verifC05WatchPanel registers watches of a panel of read queries.
func verifC05WatchPanel(s *state.Store) memdb.WatchSet {
	ws := memdb.NewWatchSet()
	for _, k := range vs.Keys {
		s.KVSGet(ws, k, nil)
	}
	for _, p := range vs.Prefixes {
		s.KVSList(ws, p, nil)
	}
	s.SessionList(ws, nil)
	s.Nodes(ws, nil, "")
	s.Services(ws, nil, "", false)
	s.PreparedQueryList(ws)
	for _, n := range vs.Nodes {
		s.NodeSessions(ws, n, nil)
		s.NodeServices(ws, n, nil, "")
		s.NodeChecks(ws, n, nil, "")
	}
	for _, svc := range append([]string{"web-proxy", "consul", "ingress-gw", "term-gw"}, vs.ServiceNames...) {
		s.CheckServiceNodes(ws, svc, nil, "")
		s.CheckConnectServiceNodes(ws, svc, nil, "")
		s.ServiceChecks(ws, svc, nil, "")
	}
	for _, st := range []string{api.HealthPassing, api.HealthCritical, api.HealthAny} {
		s.ChecksInState(ws, st, nil, "")
	}
	return ws
}

func verifWatchFired(ws memdb.WatchSet) bool {
	// non-blocking scan of every channel: no timer and no select race between a fired channel and a timeout
	for ch := range ws {
		select {
		case <-ch:
			return true
		default:
		}
	}
	return false
}

func verifC05Attach(x *kvm.Machine, st *verifC05State) {
	x.BeforeStep = func(x *kvm.Machine, op *vs.Op) {
		if op.Kind != vs.Txn && op.Kind != vs.TxnRO {
			return
		}
		st.dumpA = vs.TakeDump(x.W.Store)
		st.pubBefore = *st.pub
		st.gcBefore = verifGCFingerprint(st.gc)
		st.ws = verifC05WatchPanel(x.W.Store)
	}
	x.AfterStep = func(x *kvm.Machine, op *vs.Op, res vs.Result) {
		f, c := x.F, x.C
		if op.Kind != vs.Txn && op.Kind != vs.TxnRO {
			// keep B in step with A
			rb := vs.Apply(st.b, op)
			if (rb.Err == nil) != (res.Err == nil) || rb.OK != res.OK {
				c.Violation(f, "C05/harness-twin-diverged", "twin store answered differently for %s: %s vs %s", op.Desc, res, rb)
			}
			return
		}
		after := vs.TakeDump(x.W.Store)
		if op.Kind == vs.TxnRO {
			if diffs := vs.DiffDumps(st.dumpA, after, nil); len(diffs) > 0 {
				c.Violation(f, "C05/read-only-txn-modified-state/"+diffs[0].Signature(), "read-only txn %s changed state: %s", op.Desc, diffs[0])
			}
			if st.pub.batches != st.pubBefore.batches {
				c.Violation(f, "C05/read-only-txn-published-events", "read-only txn %s published events", op.Desc)
			}
			return
		}
		firstFail := -1
		for _, e := range res.Errors {
			if firstFail < 0 || e.OpIndex < firstFail {
				firstFail = e.OpIndex
			}
		}
		isWrite := func(t *structs.TxnOp) bool {
			switch {
			case t.KV != nil:
				return vs.IsKVVerbWrite(t.KV.Verb)
			case t.Node != nil:
				return t.Node.Verb != api.NodeGet
			case t.Service != nil:
				return t.Service.Verb != api.ServiceGet
			case t.Check != nil:
				return t.Check.Verb != api.CheckGet
			}
			return true
		}
		// an operation that can never succeed (unknown node / session / entity, whatever ran before it) must abort the txn
		gotFailed := map[int]bool{}
		for _, e := range res.Errors {
			gotFailed[e.OpIndex] = true
		}
		for i, t := range op.P.Txn {
			if why := verifC05MustFail(t); why != "" {
				c.Label("has-must-fail-op")
				if len(res.Errors) == 0 {
					c.Violation(f, "C05/impossible-op-accepted/"+verifC05VerbName(t), "txn %s committed although op #%d (%s) can never succeed: %s", op.Desc, i, vs.DescribeTxnOp(t), why)
				} else if !gotFailed[i] {
					c.Violation(f, "C05/failing-op-not-reported/"+verifC05VerbName(t), "txn %s aborted (%s) but op #%d (%s), which can never succeed (%s), is not among the reported errors", op.Desc, res, i, vs.DescribeTxnOp(t), why)
				}
			}
		}
		if len(res.Errors) > 0 {
			// ---- (a) abort => nothing observable changed
			c.Labelf("abort-first-failing-pos=%d", min(firstFail, 4))
			wroteBefore := false
			for i := 0; i < firstFail && i < len(op.P.Txn); i++ {
				wroteBefore = wroteBefore || isWrite(op.P.Txn[i])
			}
			if firstFail >= 1 && wroteBefore {
				c.Label("abort-after-earlier-write")
				c.NonTrivial()
			}
			if res.Results != nil {
				c.Violation(f, "C05/abort-returned-results", "txn %s aborted (%s) but returned %d results", op.Desc, res, len(res.Results))
			}
			if diffs := vs.DiffDumps(st.dumpA, after, nil); len(diffs) > 0 {
				c.Violation(f, "C05/abort-changed-state/"+diffs[0].Signature(), "txn %s aborted (%s) but state changed (%d differences), first: %s", op.Desc, res, len(diffs), diffs[0])
			}
			if st.pub.batches != st.pubBefore.batches {
				c.Violation(f, "C05/abort-published-events", "txn %s aborted but %d event batches were published", op.Desc, st.pub.batches-st.pubBefore.batches)
			}
			if verifWatchFired(st.ws) {
				c.Violation(f, "C05/abort-woke-watcher", "txn %s aborted but a watch channel fired", op.Desc)
			}
			if g := verifGCFingerprint(st.gc); g != st.gcBefore {
				c.Violation(f, "C05/abort-hinted-gc", "txn %s aborted but tombstone GC hints changed %s -> %s", op.Desc, st.gcBefore, g)
			}
			return
		}
		// ---- (b) commit
		c.Label("commit")
		verifC05CheckStamps(x, op, st.dumpA, after)
		verifC05CheckEffects(x, op)
		// sequential composition on the twin
		allOK := true
		for i, t := range op.P.Txn {
			single := vs.NewTxn(op.Idx, structs.TxnOps{t})
			rb := vs.Apply(st.b, single)
			if len(rb.Errors) > 0 {
				allOK = false
				if c.Violation(f, "C05/sequential-op-fails/"+verifC05VerbName(t), "txn %s committed as a whole, but applied one by one op #%d (%s) fails on the twin: %s", op.Desc, i, vs.DescribeTxnOp(t), rb) {
					break
				}
			}
		}
		if allOK {
			if len(op.P.Txn) > 1 {
				c.Label("commit-multi-op")
				for i := 1; i < len(op.P.Txn); i++ {
					if isWrite(op.P.Txn[i-1]) {
						c.Label("commit-op-after-write")
						c.NonTrivial()
					}
				}
			}
			bd := vs.TakeDump(st.b)
			// usage rows are written from the NET change of a transaction: a set+delete inside one transaction
			// leaves no row (or an un-restamped row) where two transactions leave a row with count 0 / a newer index — the same count.
			if diffs := vs.DiffDumps(verifDropZeroUsage(after), verifDropZeroUsage(bd), nil); len(diffs) > 0 {
				if c.Violation(f, "C05/txn-differs-from-sequential/"+diffs[0].Signature(), "txn %s: state differs from applying its ops one by one (%d differences), first: %s", op.Desc, len(diffs), diffs[0]) {
					verifC05Resync(x, st)
				}
			}
		} else {
			verifC05Resync(x, st)
		}
	}
}

func verifC05VerbName(t *structs.TxnOp) string {
	switch {
	case t.KV != nil:
		return "kv-" + string(t.KV.Verb)
	case t.Node != nil:
		return "node-" + string(t.Node.Verb)
	case t.Service != nil:
		return "service-" + string(t.Service.Verb)
	case t.Check != nil:
		return "check-" + string(t.Check.Verb)
	case t.Session != nil:
		return "session-" + string(t.Session.Verb)
	}
	return "?"
}

// verifC05Resync: after a tolerated finding the twin cannot be repaired in place; stop comparing (rest of the case
// still checks aborts, which do not need the twin).
func verifC05Resync(x *kvm.Machine, st *verifC05State) {
	x.C.Label("twin-abandoned")
	st.b = nil
}

// verifC05CheckStamps: every row that is new or changed after a committed txn carries exactly the txn index.
func verifC05CheckStamps(x *kvm.Machine, op *vs.Op, before, after vs.Dump) {
	f, c := x.F, x.C
	for _, d := range vs.DiffDumps(before, after, func(t string) bool {
		switch t {
		case "index", "usage", "free-virtual-ips", "session_checks", "kind-service-names", "tombstones", "mesh-topology":
			// bookkeeping tables whose row indexes no read API exposes (mesh-topology: the reference set of a link
			// shrinks when one of several declaring proxy instances goes; queries report the table index)
			return false
		}
		return true
	}) {
		if d.Field == "-row" {
			continue
		}
		// parse d.B directly
		row := vs.ParseRow(d.B)
		mi, ok := row["ModifyIndex"].(float64)
		if !ok {
			continue
		}
		if uint64(mi) != op.Idx {
			c.Violation(f, "C05/changed-row-without-txn-index/table="+d.Table, "txn %s (index %d): changed row in %s has ModifyIndex %d: %s", op.Desc, op.Idx, d.Table, uint64(mi), d.B)
		}
	}
}

func TestVerifC05Atomic(t *testing.T) {
	rec := verifkit.For("C05")
	defer rec.Flush()
	maxPre := verifkit.EnvInt("VERIF_C05_PRE", 14)
	maxTxns := verifkit.EnvInt("VERIF_C05_TXNS", 4)
	rapid.Check(t, func(t *rapid.T) {
		c := rec.NewCase()
		pre := rapid.IntRange(0, maxPre).Draw(t, "pre")
		ntx := rapid.IntRange(1, maxTxns).Draw(t, "ntxn")
		verifC05Run(t, c, func(x *kvm.Machine, i int) *vs.Op {
			switch {
			case i < pre:
				return x.W.DrawOp(t, verifC05Cfg)
			case i < pre+2*ntx:
				if (i-pre)%2 == 1 && rapid.IntRange(0, 2).Draw(t, "between") > 0 {
					return x.W.DrawOp(t, verifC05Cfg)
				}
				if rapid.IntRange(0, 9).Draw(t, "ro") == 0 {
					return x.W.DrawTxnRO(t, verifC05Cfg)
				}
				return x.W.DrawTxnPlan(t, verifC05Cfg)
			}
			return nil
		})
		c.Done()
	})
}

func verifC05Run(f verifkit.F, c *verifkit.Case, next func(x *kvm.Machine, i int) *vs.Op) {
	gc, err := state.NewTombstoneGC(time.Hour, time.Minute)
	if err != nil {
		f.Fatalf("gc: %v", err)
	}
	gc.SetEnabled(true)
	pub := &verifC05Pub{}
	a := state.NewStateStoreWithEventPublisher(gc, pub)
	st := &verifC05State{pub: pub, gc: gc, b: state.NewStateStore(nil)}
	x := kvm.New("C05", f, c, a)
	verifC05Attach(x, st)
	origAfter := x.AfterStep
	x.AfterStep = func(x *kvm.Machine, op *vs.Op, res vs.Result) {
		if st.b == nil && op.Kind != vs.Txn && op.Kind != vs.TxnRO {
			return
		}
		if st.b == nil && op.Kind == vs.Txn && len(res.Errors) == 0 {
			return
		}
		origAfter(x, op, res)
	}
	defer c.GuardPanic(f, "C05/panic")
	for i := 0; ; i++ {
		op := next(x, i)
		if op == nil {
			break
		}
		c.Op(op)
		x.Step(op)
	}
}

// verifC05Witnesses: fixed minimal histories of recorded findings (regression cases once fixed).
func verifC05Witnesses() map[string][]*vs.Op {
	sess := vs.SessionPool(1)[0]
	chk := &structs.HealthCheck{Node: "n1", CheckID: "c1", Name: "c1", Status: api.HealthCritical, Type: "session"}
	chk.Definition.SessionName = "sb"
	reg := &structs.RegisterRequest{Datacenter: "dc1", Node: "n1", ID: vs.NodeIDs["n1"], Address: "10.0.0.1", Checks: structs.HealthChecks{chk}}
	return map[string][]*vs.Op{
		"witness-txn-check-cas-on-missing-node-swallowed": {
			vs.NewRegister(11, &structs.RegisterRequest{Datacenter: "dc1", Node: "n1", ID: vs.NodeIDs["n1"], Address: "10.0.0.1"}),
			vs.NewTxn(14, structs.TxnOps{
				&structs.TxnOp{KV: &structs.TxnKVOp{Verb: api.KVSet, DirEnt: structs.DirEntry{Key: "a", Value: []byte("v1")}}},
				&structs.TxnOp{Check: &structs.TxnCheckOp{Verb: api.CheckCAS, Check: structs.HealthCheck{Node: "n3", CheckID: "c3", Name: "c3", Status: api.HealthPassing}}},
			}),
		},
		"witness-session-check-flip-keeps-old-modify-index": {
			vs.NewRegister(11, reg),
			vs.NewSessCreate(13, &structs.Session{ID: sess, Name: "sb", Node: "n1", Behavior: structs.SessionKeysRelease}),
			vs.NewTxn(17, structs.TxnOps{&structs.TxnOp{Session: &structs.TxnSessionOp{Verb: api.SessionDelete, Session: structs.Session{ID: sess}}}}),
		},
	}
}

func TestVerifC05Replay(t *testing.T) {
	rec := verifkit.For("C05")
	defer rec.Flush()
	if os.Getenv("VERIF_REPLAY") == "" {
		for name, ops := range verifC05Witnesses() {
			c := rec.NewCase()
			c.Label("witness:" + name)
			verifC05Run(t, c, kvm.OpsFeeder(ops))
			c.Done()
		}
	}
	for _, path := range verifkit.ReplayFiles("C05") {
		c := rec.NewCase()
		c.Label("replay")
		verifC05Run(t, c, kvm.OpsFeeder(kvm.LoadOps(t, path)))
		c.Done()
	}
}


func verifDropZeroUsage(d vs.Dump) vs.Dump {
	out := vs.Dump{}
	for t, rows := range d {
		if t != "usage" {
			out[t] = rows
			continue
		}
		for _, r := range rows {
			if m := vs.ParseRow(r); m != nil {
				if cnt, ok := m["Count"].(float64); ok && cnt == 0 {
					continue
				}
				delete(m, "Index") // a row whose net change is zero is not re-stamped; only (ID, Count) is compared
				out[t] = append(out[t], vs.CanonJSON(m))
				continue
			}
			out[t] = append(out[t], r)
		}
	}
	return out
}


const verifNeverSession = "5e55ffff-ffff-4fff-8fff-ffffffffffff" // never created by any generator

// verifC05MustFail: operations whose failure does not depend on the state (names no generator ever creates).
func verifC05MustFail(t *structs.TxnOp) string {
	switch {
	case t.Service != nil && t.Service.Node == "n-missing" && (t.Service.Verb == api.ServiceSet || t.Service.Verb == api.ServiceCAS || t.Service.Verb == api.ServiceGet):
		return "node n-missing never exists"
	case t.Service != nil && t.Service.Verb == api.ServiceGet && t.Service.Service.ID == "nope-1":
		return "service nope-1 never exists"
	case t.Check != nil && t.Check.Check.Node == "n-missing" && (t.Check.Verb == api.CheckSet || t.Check.Verb == api.CheckCAS || t.Check.Verb == api.CheckGet):
		return "node n-missing never exists"
	case t.Session != nil && t.Session.Session.ID == verifNeverSession:
		return "session was never created"
	case t.KV != nil && t.KV.DirEnt.Session == verifNeverSession:
		switch t.KV.Verb {
		case api.KVLock:
			return "lock by a session that was never created"
		case api.KVCheckSession, api.KVUnlock:
			return "no key can be held by a session that was never created"
		}
	}
	return ""
}

// verifC05CheckEffects: after a COMMITTED transaction every catalog/session write verb that is the last writer of
// its entity must be visible ("applies all of its operations").
func verifC05CheckEffects(x *kvm.Machine, op *vs.Op) {
	f, c := x.F, x.C
	s := x.W.Store
	ops := op.P.Txn
	nodeWriteAfter := func(i int) bool {
		for j := i + 1; j < len(ops); j++ {
			if ops[j].Node != nil && ops[j].Node.Verb != api.NodeGet {
				return true
			}
		}
		return false
	}
	entity := func(t *structs.TxnOp) string {
		switch {
		case t.Node != nil:
			return "node:" + t.Node.Node.Node
		case t.Service != nil:
			return "service:" + t.Service.Node + "/" + t.Service.Service.ID
		case t.Check != nil:
			return "check:" + t.Check.Check.Node + "/" + string(t.Check.Check.CheckID)
		case t.Session != nil:
			return "session:" + t.Session.Session.ID
		}
		return ""
	}
	for i, t := range ops {
		e := entity(t)
		if e == "" {
			continue
		}
		last := true
		for j := i + 1; j < len(ops); j++ {
			if entity(ops[j]) == e {
				last = false
			}
			// deleting a service removes its checks; a check of a service is touched by writes to that service
			if t.Check != nil && ops[j].Service != nil && ops[j].Service.Node == t.Check.Check.Node {
				last = false
			}
		}
		if !last || (t.Node == nil && nodeWriteAfter(i)) {
			continue
		}
		bad := func(what string) {
			c.Violation(f, "C05/committed-op-has-no-effect/"+verifC05VerbName(t), "txn %s committed but op #%d (%s): %s", op.Desc, i, vs.DescribeTxnOp(t), what)
		}
		switch {
		case t.Node != nil && nodeWriteAfter(i):
		case t.Node != nil:
			_, n, _ := s.GetNode(t.Node.Node.Node, nil, "")
			switch t.Node.Verb {
			case api.NodeSet, api.NodeCAS:
				if n == nil {
					bad("node does not exist afterwards")
				}
			case api.NodeDelete, api.NodeDeleteCAS:
				if n != nil {
					bad("node still exists afterwards")
				}
			}
		case t.Service != nil:
			var found *structs.NodeService
			for _, sv := range x.W.NodeServices(t.Service.Node, "") {
				if sv.ID == t.Service.Service.ID {
					found = sv
				}
			}
			switch t.Service.Verb {
			case api.ServiceSet, api.ServiceCAS:
				if found == nil {
					bad("service instance does not exist afterwards")
				} else if found.Service != t.Service.Service.Service || found.Port != t.Service.Service.Port {
					bad(fmt.Sprintf("service instance afterwards is %s:%d", found.Service, found.Port))
				}
			case api.ServiceDelete, api.ServiceDeleteCAS:
				if found != nil {
					bad("service instance still exists afterwards")
				}
			}
		case t.Check != nil:
			var found *structs.HealthCheck
			for _, ck := range x.W.NodeChecks(t.Check.Check.Node, "") {
				if ck.CheckID == t.Check.Check.CheckID {
					found = ck
				}
			}
			switch t.Check.Verb {
			case api.CheckSet, api.CheckCAS:
				want := t.Check.Check.Status
				if want == "" {
					want = api.HealthCritical
				}
				if found == nil {
					bad("check does not exist afterwards")
				} else if found.Status != want && t.Check.Check.Type != "session" {
					// (the status of a check of type "session" is owned by its session: any later verb of the same
					// transaction that ends or creates that session — directly or by cascade — legitimately flips it)
					bad(fmt.Sprintf("check status afterwards is %q, written %q", found.Status, want))
				}
			case api.CheckDelete, api.CheckDeleteCAS:
				if found != nil {
					bad("check still exists afterwards")
				}
			}
		case t.Session != nil:
			if _, sess, _ := s.SessionGet(nil, t.Session.Session.ID, nil); sess != nil {
				bad("session still exists afterwards")
			}
		}
	}
}
