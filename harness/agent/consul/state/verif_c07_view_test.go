package state_test

// C07 — view of the store the invariants are evaluated on.
//
// Base data (nodes, services, checks, sessions, coordinates, config entries) is read through the public read
// API (CatalogDump, SessionList, Coordinates, ConfigEntries: plain table walks); the DERIVED tables
// (gateway-services, kind-service-names, mesh-topology, service-virtual-ips, free-virtual-ips, usage) are read
// raw from the canonical dump (Store.WalkAllTables), so that what is judged is what is stored, not what a query
// makes of it.

import (
	"encoding/hex"
	"fmt"
	"net"
	"sort"
	"strings"

	"github.com/hashicorp/consul/agent/consul/state"
	"github.com/hashicorp/consul/agent/structs"
	vs "github.com/hashicorp/consul/internal/verifstate"
)

type verifC07GW struct {
	gateway, service, gwKind, svcKind string
	port                              int
	fromWildcard                      bool
	attrs                             string // the per-link settings copied from the gateway's config entry
}

// verifC07GWAttrs renders the settings of one gateway link that the config entry defines and the row repeats.
func verifC07GWAttrs(protocol string, hosts []string, caFile, certFile, keyFile, sni string) string {
	return fmt.Sprintf("protocol=%q hosts=%q ca=%q cert=%q key=%q sni=%q", protocol, hosts, caFile, certFile, keyFile, sni)
}

func (g verifC07GW) id() string { return fmt.Sprintf("%s|%s|%d", g.gateway, g.service, g.port) }

type verifC07VIP struct {
	peer, name string
	off        string // stored offset, canonical 16-byte form
	real       string // offset + range start, as handed out
	manual     []string
}

type verifC07Free struct {
	off     string
	counter bool
}

type verifC07Coord struct{ node, segment string }

// verifC07GWEntry is a gateway config entry reduced to what links it to services.
type verifC07GWEntry struct {
	kind     string // structs.IngressGateway / structs.TerminatingGateway
	gwKind   string // service kind of the rows it produces
	name     string
	explicit map[string]bool // "service|port"
	wild     map[int]bool    // ports carrying the wildcard
	attrs    map[string]string // "service|port" (service "*" for the wildcard) -> verifC07GWAttrs of the entry
}

type verifC07View struct {
	nodes    map[string]*structs.Node // peer|node
	services []*structs.ServiceNode
	svcByKey map[string]*structs.ServiceNode // peer|node|id
	checks   []*structs.HealthCheck
	coords   []verifC07Coord
	sessions []*structs.Session

	gwEntries map[string]*verifC07GWEntry // gwKind|name
	dests     map[string]bool             // service-defaults with a destination
	cfgByKind map[string]int
	cfgNames  map[string]bool // kind|name of every config entry

	gw    []verifC07GW
	gwIDs map[string]verifC07GW
	ksn   map[string]bool            // kind|name
	topo  map[string]map[string]bool // up>down -> refs
	vips  []verifC07VIP
	vipOf map[string]string // peer|name -> real
	free  []verifC07Free
	usage map[string]int
	flags map[string]bool // system metadata keys with a non-empty value
}

func verifC07NodeKey(peer, node string) string { return peer + "|" + strings.ToLower(node) }
func verifC07SvcKey(peer, node, id string) string {
	return peer + "|" + strings.ToLower(node) + "|" + strings.ToLower(id)
}

func verifC07Sub(m map[string]interface{}, path ...string) interface{} {
	var cur interface{} = m
	for _, p := range path {
		mm, ok := cur.(map[string]interface{})
		if !ok {
			return nil
		}
		cur = mm[p]
	}
	return cur
}

func verifC07Str(m map[string]interface{}, path ...string) string {
	s, _ := verifC07Sub(m, path...).(string)
	return s
}

func verifC07IP(hexed string) string {
	b, err := hex.DecodeString(strings.TrimPrefix(hexed, "0x"))
	if err != nil || len(b) == 0 {
		return "?" + hexed
	}
	ip := net.IP(b).To16()
	if ip == nil {
		return "?" + hexed
	}
	return ip.String()
}

// verifC07IPLess orders stored offsets numerically.
func verifC07IPLess(a, b string) bool {
	x, y := net.ParseIP(a).To16(), net.ParseIP(b).To16()
	for i := range x {
		if x[i] != y[i] {
			return x[i] < y[i]
		}
	}
	return false
}

func verifC07Snapshot(s *state.Store) *verifC07View {
	v := &verifC07View{
		nodes: map[string]*structs.Node{}, svcByKey: map[string]*structs.ServiceNode{},
		gwEntries: map[string]*verifC07GWEntry{}, dests: map[string]bool{}, cfgByKind: map[string]int{}, cfgNames: map[string]bool{},
		gwIDs: map[string]verifC07GW{}, ksn: map[string]bool{}, topo: map[string]map[string]bool{}, vipOf: map[string]string{},
		usage: map[string]int{}, flags: map[string]bool{},
	}
	cat, err := s.CatalogDump()
	if err != nil {
		panic(err)
	}
	for _, n := range cat.Nodes {
		v.nodes[verifC07NodeKey(n.PeerName, n.Node)] = n
	}
	v.services = cat.Services
	for _, sn := range cat.Services {
		v.svcByKey[verifC07SvcKey(sn.PeerName, sn.Node, sn.ServiceID)] = sn
	}
	v.checks = cat.Checks
	_, v.sessions, _ = s.SessionList(nil, nil)
	_, coords, _ := s.Coordinates(nil, nil)
	for _, c := range coords {
		v.coords = append(v.coords, verifC07Coord{c.Node, c.Segment})
	}
	_, entries, err := s.ConfigEntries(nil, nil)
	if err != nil {
		panic(err)
	}
	for _, e := range entries {
		v.cfgByKind[e.GetKind()]++
		v.cfgNames[e.GetKind()+"|"+e.GetName()] = true
		switch c := e.(type) {
		case *structs.IngressGatewayConfigEntry:
			ge := &verifC07GWEntry{kind: c.Kind, gwKind: string(structs.ServiceKindIngressGateway), name: c.Name, explicit: map[string]bool{}, wild: map[int]bool{}, attrs: map[string]string{}}
			for _, l := range c.Listeners {
				for _, svc := range l.Services {
					ge.attrs[fmt.Sprintf("%s|%d", svc.Name, l.Port)] = verifC07GWAttrs(l.Protocol, svc.Hosts, "", "", "", "")
					if svc.Name == structs.WildcardSpecifier {
						ge.wild[l.Port] = true
					} else {
						ge.explicit[fmt.Sprintf("%s|%d", svc.Name, l.Port)] = true
					}
				}
			}
			v.gwEntries[ge.gwKind+"|"+ge.name] = ge
		case *structs.TerminatingGatewayConfigEntry:
			ge := &verifC07GWEntry{kind: c.Kind, gwKind: string(structs.ServiceKindTerminatingGateway), name: c.Name, explicit: map[string]bool{}, wild: map[int]bool{}, attrs: map[string]string{}}
			for _, svc := range c.Services {
				ge.attrs[svc.Name+"|0"] = verifC07GWAttrs("", nil, svc.CAFile, svc.CertFile, svc.KeyFile, svc.SNI)
				if svc.Name == structs.WildcardSpecifier {
					ge.wild[0] = true
				} else {
					ge.explicit[svc.Name+"|0"] = true
				}
			}
			v.gwEntries[ge.gwKind+"|"+ge.name] = ge
		case *structs.ServiceConfigEntry:
			if c.Destination != nil {
				v.dests[c.Name] = true
			}
		}
	}

	// raw rows of the derived tables only (canonical rendering as in vs.TakeDump, the other tables are skipped)
	d := map[string][]map[string]interface{}{}
	nVIPRows := 0
	if err := s.WalkAllTables(func(table string, item interface{}) bool {
		switch table {
		case "gateway-services", "kind-service-names", "mesh-topology", "free-virtual-ips", "usage", "system-metadata":
			d[table] = append(d[table], vs.ParseRow(vs.CanonJSON(item)))
		case "service-virtual-ips":
			nVIPRows++
		}
		return true
	}); err != nil {
		panic(err)
	}
	for _, r := range d["gateway-services"] {
		port, _ := r["Port"].(float64)
		fw, _ := r["FromWildcard"].(bool)
		g := verifC07GW{gateway: verifC07Str(r, "Gateway", "Name"), service: verifC07Str(r, "Service", "Name"), gwKind: verifC07Str(r, "GatewayKind"),
			svcKind: verifC07Str(r, "ServiceKind"), port: int(port), fromWildcard: fw}
		var hosts []string
		if hs, ok := r["Hosts"].([]interface{}); ok {
			for _, h := range hs {
				hosts = append(hosts, fmt.Sprint(h))
			}
		}
		g.attrs = verifC07GWAttrs(verifC07Str(r, "Protocol"), hosts, verifC07Str(r, "CAFile"), verifC07Str(r, "CertFile"), verifC07Str(r, "KeyFile"), verifC07Str(r, "SNI"))
		v.gw = append(v.gw, g)
		v.gwIDs[g.id()] = g
	}
	for _, r := range d["kind-service-names"] {
		v.ksn[verifC07Str(r, "Kind")+"|"+verifC07Str(r, "Service", "Name")] = true
	}
	for _, r := range d["mesh-topology"] {
		refs := map[string]bool{}
		if m, ok := r["Refs"].(map[string]interface{}); ok {
			for k := range m {
				refs[k] = true
			}
		}
		v.topo[verifC07Str(r, "Upstream", "Name")+">"+verifC07Str(r, "Downstream", "Name")] = refs
	}
	_, vips, err := s.ServiceVirtualIPs()
	if err != nil {
		panic(err)
	}
	for _, x := range vips {
		real, err := x.IPWithOffset()
		if err != nil {
			real = "?" + err.Error()
		}
		off := "?"
		if ip := x.IP.To16(); ip != nil {
			off = ip.String()
		}
		v.vips = append(v.vips, verifC07VIP{peer: x.Service.Peer, name: x.Service.ServiceName.Name, off: off, real: real, manual: x.ManualIPs})
		v.vipOf[x.Service.Peer+"|"+x.Service.ServiceName.Name] = real
	}
	sort.Slice(v.vips, func(i, j int) bool {
		return v.vips[i].peer+"|"+v.vips[i].name < v.vips[j].peer+"|"+v.vips[j].name
	})
	if len(v.vips) != nVIPRows {
		panic(fmt.Sprintf("verif C07: ServiceVirtualIPs() lists %d rows, the table holds %d", len(v.vips), nVIPRows))
	}
	for _, r := range d["free-virtual-ips"] {
		c, _ := r["IsCounter"].(bool)
		v.free = append(v.free, verifC07Free{off: verifC07IP(verifC07Str(r, "IP")), counter: c})
	}
	for _, r := range d["usage"] {
		n, _ := r["Count"].(float64)
		v.usage[verifC07Str(r, "ID")] = int(n)
	}
	for _, r := range d["system-metadata"] {
		if verifC07Str(r, "Value") != "" {
			v.flags[verifC07Str(r, "Key")] = true
		}
	}
	return v
}

// ---- from-scratch recomputation of the derived views (independent of the incremental code in catalog.go)

func verifC07IsLocal(sn *structs.ServiceNode) bool { return sn.PeerName == "" }

// verifC07ConnectName: the service name an instance makes connect-enabled ("" if none).
func verifC07ConnectName(sn *structs.ServiceNode) string {
	switch {
	case sn.ServiceKind == structs.ServiceKindConnectProxy:
		return sn.ServiceProxy.DestinationServiceName
	case sn.ServiceConnect.Native:
		return sn.ServiceName
	}
	return ""
}

// verifC07ExpectKSN recomputes kind-service-names: {(kind, name)} of local instances, (connect-enabled, d) for
// every local proxy destination / native service, (destination, n) for every service-defaults with a destination.
func (v *verifC07View) verifC07ExpectKSN() map[string]bool {
	out := map[string]bool{}
	for _, sn := range v.services {
		if !verifC07IsLocal(sn) {
			continue // "Only upsert KindServiceName if service is local" (ensureServiceTxn)
		}
		out[string(sn.ServiceKind)+"|"+sn.ServiceName] = true
		if cn := verifC07ConnectName(sn); cn != "" {
			out[string(structs.ServiceKindConnectEnabled)+"|"+cn] = true
		}
	}
	for n := range v.dests {
		out[string(structs.ServiceKindDestination)+"|"+n] = true
	}
	return out
}

// verifC07ExpectUsage recomputes the usage counters from the base tables.
func (v *verifC07View) verifC07ExpectUsage() map[string]int {
	out := map[string]int{}
	for _, n := range v.nodes {
		if n.PeerName == "" {
			out["nodes"]++
		}
	}
	names := map[string]bool{}
	for _, sn := range v.services {
		if !verifC07IsLocal(sn) {
			continue
		}
		out["services"]++
		names[strings.ToLower(sn.ServiceName)] = true
		if sn.ServiceKind != structs.ServiceKindTypical {
			out["connect-mesh-"+string(sn.ServiceKind)]++
		}
		if sn.ServiceConnect.Native {
			out["connect-mesh-connect-native"]++
		}
		if sn.ServiceKind == structs.ServiceKindTypical && sn.ServiceName != structs.ConsulServiceName {
			out["billable-services"]++
		}
	}
	out["service-names"] = len(names)
	for k, n := range v.cfgByKind {
		out["config-entries-"+k] = n
	}
	return out
}

type verifC07TopoExpect struct {
	must map[string]map[string]bool // pair -> uids of local proxy instances declaring it
	may  map[string]map[string]bool // pair -> uids declaring it through an upstream in another peer (accepted either way)
}

// verifC07ExpectTopo recomputes the proxy part of mesh-topology: for every LOCAL connect-proxy instance with
// destination D and every non-prepared-query upstream U: link U>D referenced by that instance.
func (v *verifC07View) verifC07ExpectTopo() verifC07TopoExpect {
	ex := verifC07TopoExpect{must: map[string]map[string]bool{}, may: map[string]map[string]bool{}}
	for _, sn := range v.services {
		if !verifC07IsLocal(sn) || sn.ServiceKind != structs.ServiceKindConnectProxy {
			continue
		}
		uid := structs.UniqueID(sn.Node, sn.CompoundServiceID().String())
		for _, u := range sn.ServiceProxy.Upstreams {
			if u.DestinationType == structs.UpstreamDestTypePreparedQuery {
				continue
			}
			pair := u.DestinationName + ">" + sn.ServiceProxy.DestinationServiceName
			tgt := ex.must
			if u.DestinationPeer != "" {
				tgt = ex.may // updateMeshTopology is documented as not peering aware: either answer is accepted
			}
			if tgt[pair] == nil {
				tgt[pair] = map[string]bool{}
			}
			tgt[pair][uid] = true
		}
	}
	return ex
}

type verifC07Presence struct {
	typical       map[string]bool // has a local typical-kind instance
	typicalNonNat map[string]bool // has a local typical-kind, non-native instance
	named         map[string]bool // has a local instance of that name (any kind)
	connect       map[string]bool // has a local connect instance (proxy destination / native)
	count         map[string]int  // local instances per service name
}

func (v *verifC07View) verifC07Presence() verifC07Presence {
	p := verifC07Presence{typical: map[string]bool{}, typicalNonNat: map[string]bool{}, named: map[string]bool{}, connect: map[string]bool{}, count: map[string]int{}}
	for _, sn := range v.services {
		if !verifC07IsLocal(sn) {
			continue
		}
		p.named[sn.ServiceName] = true
		p.count[sn.ServiceName]++
		if sn.ServiceKind == structs.ServiceKindTypical {
			p.typical[sn.ServiceName] = true
			if !sn.ServiceConnect.Native {
				p.typicalNonNat[sn.ServiceName] = true
			}
		}
		if cn := verifC07ConnectName(sn); cn != "" {
			p.connect[cn] = true
		}
	}
	return p
}

func verifC07SortedKeys[T any](m map[string]T) []string {
	out := make([]string, 0, len(m))
	for k := range m {
		out = append(out, k)
	}
	sort.Strings(out)
	return out
}
