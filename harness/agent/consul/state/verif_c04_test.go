package state_test

// C04 — Locks: one holder, only live sessions, released whenever the session ends.
//
// The shared KV machine runs generated histories of session create/destroy, KV lock/unlock/set/delete/
// delete-tree, node/service/check register, deregister and status change, node rename by ID, prepared queries
// and transactions mixing these verbs (incl. the txn verb `session delete`). After EVERY committed step the
// whole store is dumped and the invariants are checked:
//
//   I1 every key with a holder names an existing session;
//   I2 every session-check link names an existing session and an existing (node, check);
//   I3 every prepared query bound to a session names an existing session;
//   I4 every session's node exists and none of its bound checks (other than checks of type "session", which
//      the code documents as exempt) is critical;
//   I5 lock/unlock verdicts agree with the sequential model (shared machine, pure-KV steps);
//   I6 same-step clause: a session present before the step and absent after it has, after that SAME step,
//      every key it held released with unchanged content (behaviour release) or removed (behaviour delete).

import (
	"bytes"
	"fmt"
	"os"
	"sort"
	"strings"
	"testing"

	"github.com/hashicorp/consul/agent/structs"
	"github.com/hashicorp/consul/api"
	"github.com/hashicorp/consul/internal/verifkit"
	kvm "github.com/hashicorp/consul/internal/verifkvm"
	vs "github.com/hashicorp/consul/internal/verifstate"
	"pgregory.net/rapid"
)

var verifC04Cfg = &vs.Cfg{KV: 34, Session: 16, Reap: 1, Catalog: 22, Dereg: 6, Txn: 18, PQ: 6, Killer: 10, TxnCatalog: true, Rename: true, SessionChecks: true, MaxTxnOps: 4}

const verifC04KeyTxnSessionDelete = "C04/txn-session-delete-skips-invalidation"

type verifC04Held struct {
	key   string
	entry structs.DirEntry
}

type verifC04State struct {
	sessBefore map[string]*structs.Session
	heldBefore map[string][]verifC04Held
	excused    map[string]bool // sessions removed by the known-finding path: their dangling references are not re-reported
	// status of every check a session is bound to, before the step (node/check id, lower case -> status)
	boundBefore map[string]map[string]string
}

func verifC04Attach(x *kvm.Machine) {
	st := &verifC04State{excused: map[string]bool{}}
	x.BeforeStep = func(x *kvm.Machine, op *vs.Op) {
		st.sessBefore = map[string]*structs.Session{}
		st.heldBefore = map[string][]verifC04Held{}
		_, ss, _ := x.W.Store.SessionList(nil, nil)
		st.boundBefore = map[string]map[string]string{}
		for _, s := range ss {
			st.sessBefore[s.ID] = s
			for _, cid := range s.CheckIDs() {
				if _, hc, _ := x.W.Store.NodeCheck(s.Node, cid, nil, ""); hc != nil {
					if st.boundBefore[s.ID] == nil {
						st.boundBefore[s.ID] = map[string]string{}
					}
					st.boundBefore[s.ID][strings.ToLower(s.Node)+"/"+strings.ToLower(string(cid))] = hc.Status
				}
			}
		}
		_, ents, _ := x.W.Store.KVSList(nil, "", nil)
		for _, e := range ents {
			if e.Session != "" {
				st.heldBefore[e.Session] = append(st.heldBefore[e.Session], verifC04Held{e.Key, *e})
			}
		}
	}
	x.AfterStep = func(x *kvm.Machine, op *vs.Op, res vs.Result) {
		verifC04Invariants(x, st, op, res)
	}
}

func verifC04EndingPath(op *vs.Op, sid string) string {
	switch op.Kind {
	case vs.SessDestroy:
		return "explicit-destroy"
	case vs.DeregNode:
		return "node-dereg"
	case vs.DeregCheck:
		return "check-delete"
	case vs.DeregService:
		return "service-dereg"
	case vs.Register:
		for _, ck := range op.P.Reg.Checks {
			if ck.Status == api.HealthCritical || ck.Status == "" {
				return "check-critical"
			}
		}
		return "rename-or-register"
	case vs.SessCreate:
		return "session-create-cascade"
	case vs.Txn:
		var kinds []string
		for _, t := range op.P.Txn {
			switch {
			case t.Session != nil && t.Session.Session.ID == sid:
				return "txn-session-delete"
			case t.Node != nil && (t.Node.Verb == api.NodeDelete || t.Node.Verb == api.NodeDeleteCAS):
				kinds = append(kinds, "txn-node-delete")
			case t.Node != nil:
				kinds = append(kinds, "txn-node-set")
			case t.Check != nil && (t.Check.Verb == api.CheckDelete || t.Check.Verb == api.CheckDeleteCAS):
				kinds = append(kinds, "txn-check-delete")
			case t.Check != nil:
				kinds = append(kinds, "txn-check-set")
			case t.Service != nil && (t.Service.Verb == api.ServiceDelete || t.Service.Verb == api.ServiceDeleteCAS):
				kinds = append(kinds, "txn-service-delete")
			}
		}
		if len(kinds) > 0 {
			sort.Strings(kinds)
			return kinds[0]
		}
		return "txn-other"
	}
	return "other:" + op.Kind
}

func verifC04Invariants(x *kvm.Machine, st *verifC04State, op *vs.Op, res vs.Result) {
	f, c := x.F, x.C
	s := x.W.Store
	d := vs.TakeDump(s)

	sessions := map[string]map[string]interface{}{}
	for _, r := range d.Rows("sessions") {
		id, _ := r["ID"].(string)
		sessions[id] = r
	}
	nodes := map[string]bool{}
	for _, r := range d.Rows("nodes") {
		if pn, _ := r["PeerName"].(string); pn == "" {
			nodes[strings.ToLower(r["Node"].(string))] = true
		}
	}
	type ck struct{ status, typ string }
	checks := map[string]ck{}
	for _, r := range d.Rows("checks") {
		if pn, _ := r["PeerName"].(string); pn != "" {
			continue
		}
		n, _ := r["Node"].(string)
		id, _ := r["CheckID"].(string)
		stt, _ := r["Status"].(string)
		ty, _ := r["Type"].(string)
		checks[strings.ToLower(n)+"/"+strings.ToLower(id)] = ck{stt, ty}
	}

	// which sessions ended in this step
	var ended []string
	for id := range st.sessBefore {
		if sessions[id] == nil {
			ended = append(ended, id)
		}
	}
	sort.Strings(ended)
	txnSessDelete := map[string]bool{}
	if op.Kind == vs.Txn && len(res.Errors) == 0 {
		for _, t := range op.P.Txn {
			if t.Session != nil {
				txnSessDelete[t.Session.Session.ID] = true
			}
		}
	}

	report := func(generic, sid, format string, args ...interface{}) {
		if st.excused[sid] {
			return
		}
		key := generic
		if txnSessDelete[sid] {
			key = verifC04KeyTxnSessionDelete
		}
		if c.Violation(f, key, format, args...) {
			st.excused[sid] = true
		}
	}

	// I6 same-step clause
	for _, sid := range ended {
		path := verifC04EndingPath(op, sid)
		c.Labelf("ended-by=%s", path)
		held := st.heldBefore[sid]
		if len(held) > 0 {
			c.Labelf("ended-holding-keys-by=%s", path)
			if path != "explicit-destroy" {
				c.NonTrivial()
			}
		}
		behavior := string(st.sessBefore[sid].Behavior)
		for _, h := range held {
			_, got, _ := s.KVSGet(nil, h.key, nil)
			switch {
			case got != nil && got.Session == sid:
				report("C04/I6-key-still-held-after-session-end/by="+path, sid, "after %s: session %s ended (%s) but key %q is still held by it", op.Desc, sid, path, h.key)
			case op.Kind == vs.Txn:
				// other verbs of the same transaction may legitimately have rewritten or removed the key
			case behavior == string(structs.SessionKeysDelete):
				if got != nil {
					report("C04/I6-delete-behaviour-key-survived/by="+path, sid, "after %s: session %s (behaviour delete) ended but key %q still exists: %s", op.Desc, sid, h.key, vs.CanonJSON(got))
				}
			default:
				if got == nil {
					report("C04/I6-release-behaviour-key-removed/by="+path, sid, "after %s: session %s (behaviour release) ended but key %q was removed", op.Desc, sid, h.key)
				} else if !bytes.Equal(got.Value, h.entry.Value) || got.Flags != h.entry.Flags || got.LockIndex != h.entry.LockIndex || got.CreateIndex != h.entry.CreateIndex {
					report("C04/I6-release-changed-content/by="+path, sid, "after %s: session %s released key %q but content changed: before %s after %s", op.Desc, sid, h.key, vs.CanonJSON(h.entry), vs.CanonJSON(got))
				} else if got.ModifyIndex != op.Idx {
					report("C04/I6-release-without-modify-index/by="+path, sid, "after %s: key %q released but ModifyIndex=%d (step %d)", op.Desc, h.key, got.ModifyIndex, op.Idx)
				}
			}
		}
	}

	// I1
	for _, r := range d.Rows("kvs") {
		sid, _ := r["Session"].(string)
		if sid != "" && sessions[sid] == nil {
			report("C04/I1-key-held-by-missing-session/after="+op.Kind, sid, "after %s: key %q is held by session %s which does not exist", op.Desc, r["Key"], sid)
		}
	}
	// I2
	for _, r := range d.Rows("session_checks") {
		sid, _ := r["Session"].(string)
		n, _ := r["Node"].(string)
		cid := ""
		if m, ok := r["CheckID"].(map[string]interface{}); ok {
			cid, _ = m["ID"].(string)
		}
		if sessions[sid] == nil {
			report("C04/I2-check-link-of-missing-session/after="+op.Kind, sid, "after %s: session_checks row %v names missing session", op.Desc, r)
			continue
		}
		if _, ok := checks[strings.ToLower(n)+"/"+strings.ToLower(cid)]; !ok {
			report("C04/I2-check-link-to-missing-check/after="+op.Kind, sid, "after %s: session_checks row %v names a check that does not exist", op.Desc, r)
		}
	}
	// I3
	for _, r := range d.Rows("prepared-queries") {
		sid, _ := r["Session"].(string)
		if sid != "" && sessions[sid] == nil {
			report("C04/I3-query-of-missing-session/after="+op.Kind, sid, "after %s: prepared query %v is bound to missing session %s", op.Desc, r["ID"], sid)
		}
	}
	// I4
	for sid, r := range sessions {
		n, _ := r["Node"].(string)
		if !nodes[strings.ToLower(n)] {
			report("C04/I4-session-on-missing-node/after="+op.Kind, sid, "after %s: session %s lives on node %q which does not exist", op.Desc, sid, n)
			continue
		}
		var bound []string
		if l, ok := r["NodeChecks"].([]interface{}); ok {
			for _, v := range l {
				bound = append(bound, fmt.Sprint(v))
			}
		}
		if l, ok := r["ServiceChecks"].([]interface{}); ok {
			for _, v := range l {
				if m, ok := v.(map[string]interface{}); ok {
					bound = append(bound, fmt.Sprint(m["ID"]))
				}
			}
		}
		for _, cid := range bound {
			k, ok := checks[strings.ToLower(n)+"/"+strings.ToLower(cid)]
			if !ok {
				report("C04/I4-session-bound-to-missing-check/after="+op.Kind, sid, "after %s: session %s is bound to check %q on %s which does not exist", op.Desc, sid, cid, n)
			} else if k.status == api.HealthCritical && k.typ != "session" {
				report("C04/I4-session-bound-to-critical-check/after="+op.Kind, sid, "after %s: session %s is bound to critical check %q on %s", op.Desc, sid, cid, n)
			}
		}
	}
	// I7 (transition form of "a session ends when a check it is bound to goes critical", every check type included:
	// a check of type "session" may be critical when a session is created on it, but when it TURNS critical the
	// sessions bound to it are invalidated like those of any other check)
	for sid, links := range st.boundBefore {
		if sessions[sid] == nil {
			continue
		}
		for key, before := range links {
			if after, ok := checks[key]; ok && before != api.HealthCritical && after.status == api.HealthCritical {
				report("C04/I7-session-survives-bound-check-turning-critical/type="+after.typ+"/after="+op.Kind, sid,
					"after %s: check %s went %s -> critical and session %s, bound to it before the step, still exists", op.Desc, key, before, sid)
			}
		}
	}
	// one-holder is structural (a key has one Session field); acquisition/release rules are I5 (shared machine).
}

func TestVerifC04Locks(t *testing.T) {
	rec := verifkit.For("C04")
	defer rec.Flush()
	maxSteps := verifkit.EnvInt("VERIF_C04_STEPS", 40)
	rapid.Check(t, func(t *rapid.T) {
		c := rec.NewCase()
		n := rapid.IntRange(1, maxSteps).Draw(t, "steps")
		kvm.Run("C04", t, c, verifC04Attach, func(x *kvm.Machine, i int) *vs.Op {
			if i >= n {
				return nil
			}
			return x.W.DrawOp(t, verifC04Cfg)
		})
		c.Done()
	})
}

func verifC04Witnesses() map[string][]*vs.Op {
	sess := vs.SessionPool(1)[0]
	reg := &structs.RegisterRequest{Datacenter: "dc1", Node: "n1", ID: vs.NodeIDs["n1"], Address: "10.0.0.1"}
	return map[string][]*vs.Op{
		"witness-txn-session-delete": {
			vs.NewRegister(11, reg),
			vs.NewSessCreate(12, &structs.Session{ID: sess, Node: "n1", Behavior: structs.SessionKeysRelease}),
			vs.NewKV(vs.KVLock, 13, "a", []byte("v1"), 0, 0, sess),
			vs.NewTxn(14, structs.TxnOps{&structs.TxnOp{Session: &structs.TxnSessionOp{Verb: api.SessionDelete, Session: structs.Session{ID: sess}}}}),
		},
	}
}

func TestVerifC04Replay(t *testing.T) {
	rec := verifkit.For("C04")
	defer rec.Flush()
	if os.Getenv("VERIF_REPLAY") == "" {
		for name, ops := range verifC04Witnesses() {
			c := rec.NewCase()
			c.Label("witness:" + name)
			kvm.Run("C04", t, c, verifC04Attach, kvm.OpsFeeder(ops))
			c.Done()
		}
	}
	for _, path := range verifkit.ReplayFiles("C04") {
		c := rec.NewCase()
		c.Label("replay")
		kvm.Run("C04", t, c, verifC04Attach, kvm.OpsFeeder(kvm.LoadOps(t, path)))
		c.Done()
	}
}
