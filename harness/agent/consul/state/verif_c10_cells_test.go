package state_test

// C10 — Conditional writes are honest: applied iff matched, reported iff applied (Store-method level).
//
// The engine lives in internal/verifc10 (shared with the agent/consul/fsm target, which runs the same commands as
// encoded FSM commands). For every conditional command type x pre-state {absent, present, deleted-and-recreated,
// present-but-another-entity-newer} (singletons: "updated" instead of "recreated") one rapid.Check draws short
// histories that establish the pre-state with non-contiguous indexes, and every case executes ALL supplied-index
// kinds {0, current, current-1, older/previous incarnation, current+1, huge} on fresh stores. Oracle per cell:
// matched (computed from the dump taken before, per the condition each command documents) <=> applied (dump after
// != dump before) <=> reported (returned bool / absence of the CAS error); on a mismatch the ENTIRE dump, index
// table included, is unchanged.

import (
	"testing"

	"github.com/hashicorp/consul/internal/verifc10"
	"pgregory.net/rapid"
)

func verifC10Check(t verifc10.T, name string, prop func(*rapid.T)) {
	t.(*testing.T).Run(name, func(t *testing.T) { rapid.Check(t, prop) })
}

func TestVerifC10Cells(t *testing.T) {
	verifc10.RunCells(t, verifc10.StoreExec{}, verifC10Check)
}

func TestVerifC10Replay(t *testing.T) {
	verifc10.RunReplay(t, verifc10.StoreExec{})
}
