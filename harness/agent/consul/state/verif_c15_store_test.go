package state

// C15 (store mode) — a config entry write that would make an affected discovery chain uncompilable is rejected
// and leaves the stored entries unchanged; whatever is accepted compiles.
//
// Generated: histories of upserts and deletes of service-defaults / proxy-defaults / service-resolver /
// service-splitter / service-router entries over the services {web, api, db, cache} (grammar and generators:
// internal/verifc15; mutual references and cycles are likely), applied one by one through
// Store.EnsureConfigEntry / Store.DeleteConfigEntry with the write-time graph validation active. Entries are
// shaped as the ConfigEntry.Apply endpoint shapes them before the raft apply (Normalize, then Validate); an
// entry the endpoint refuses never reaches the store and is skipped.
//
// Oracle, after every step:
//   accepted write/delete  => every service of the universe compiles without error IN THE VALIDATOR'S OWN CONTEXT
//                             (exactly what testCompileDiscoveryChain does: ReadDiscoveryChainConfigEntries for the
//                             service + discoverychain.Compile with datacenter "dc1", default namespace/partition,
//                             the validator's trust domain, no overrides); the compiled chain is closed
//                             (verifc15.CheckChain) and compiling it a second time from a second read gives the same
//                             canonical JSON;
//   rejected write/delete  => the config-entries table (rows incl. raft indexes and hashes), the whole index table and
//                             the row count of every other table are unchanged;
//   either                 => the call returns (watchdog) and does not panic.
//
// Deliberately NOT asserted: that a rejection was necessary (the store may refuse for reasons outside this
// property); compilability under other datacenters, trust domains or overrides (legal errors there).

import (
	"encoding/json"
	"fmt"
	"sort"
	"strings"
	"sync"
	"testing"

	"github.com/hashicorp/consul/agent/consul/discoverychain"
	"github.com/hashicorp/consul/agent/netutil"
	"github.com/hashicorp/consul/agent/structs"
	"github.com/hashicorp/consul/internal/verifc15"
	"github.com/hashicorp/consul/internal/verifkit"
	"pgregory.net/rapid"
)

type verifC15StoreOp struct {
	Mode  string         `json:"mode"` // "store"
	Op    string         `json:"op"`   // "init" | "upsert" | "delete"
	VIPs  bool           `json:"vips,omitempty"` // init: virtual IPs enabled in system metadata (as a leader does)
	Svcs  []string       `json:"svcs,omitempty"` // init: the universe compiled after every accepted step
	Entry verifc15.Entry `json:"entry"`
}

type verifC15StoreState struct {
	s      *Store
	idx    uint64
	svcs   []string
	stored map[string]verifc15.Entry // model of what the store accepted, by kind/name
	broken map[string]string         // service -> error, only behind a tolerated known finding
	all    []verifc15.Entry          // every entry ever offered (for the shape labels)
	dump   []string                  // dump of the current state, nil when not yet taken
}

var verifC15Once sync.Once

func verifC15NewState(init verifC15StoreOp) *verifC15StoreState {
	verifC15Once.Do(func() {
		// server configuration, not behaviour under test: without it the virtual-IP code does HTTP to a local agent
		netutil.GetAgentBindAddrFunc = netutil.GetMockGetAgentBindAddrFunc("0.0.0.0")
	})
	st := &verifC15StoreState{s: NewStateStore(nil), idx: 10, svcs: init.Svcs, stored: map[string]verifc15.Entry{}, broken: map[string]string{}}
	if len(st.svcs) == 0 {
		st.svcs = verifc15.Services
	}
	if init.VIPs {
		st.idx++
		_ = st.s.SystemMetadataSet(st.idx, &structs.SystemMetadataEntry{Key: structs.SystemMetadataVirtualIPsEnabled, Value: "true"})
	}
	return st
}

// verifC15Dump is the canonical content of the config-entries table and the index table, plus the row count of
// every other table.
func verifC15Dump(s *Store) []string {
	tx := s.db.ReadTxn()
	defer tx.Abort()
	var out []string
	it, err := tx.Get(tableConfigEntries, indexID)
	if err != nil {
		return []string{"ERR " + err.Error()}
	}
	for raw := it.Next(); raw != nil; raw = it.Next() {
		ce := raw.(structs.ConfigEntry)
		b, jerr := json.Marshal(ce)
		if jerr != nil {
			b = []byte(fmt.Sprintf("%#v", ce))
		}
		out = append(out, fmt.Sprintf("config-entries %s/%s %s", ce.GetKind(), ce.GetName(), b))
	}
	it, err = tx.Get(tableIndex, indexID)
	if err != nil {
		return []string{"ERR " + err.Error()}
	}
	for raw := it.Next(); raw != nil; raw = it.Next() {
		ie := raw.(*IndexEntry)
		out = append(out, fmt.Sprintf("index %s=%d", ie.Key, ie.Value))
	}
	var tables []string
	for name := range s.schema.Tables {
		if name != tableConfigEntries && name != tableIndex {
			tables = append(tables, name)
		}
	}
	sort.Strings(tables)
	for _, name := range tables {
		n := 0
		if it, err := tx.Get(name, indexID); err == nil {
			for raw := it.Next(); raw != nil; raw = it.Next() {
				n++
			}
		}
		if n > 0 {
			out = append(out, fmt.Sprintf("rows %s=%d", name, n))
		}
	}
	sort.Strings(out)
	return out
}

func verifC15DumpDiff(a, b []string) string {
	am := map[string]bool{}
	for _, x := range a {
		am[x] = true
	}
	bm := map[string]bool{}
	for _, x := range b {
		bm[x] = true
	}
	var d []string
	for _, x := range a {
		if !bm[x] {
			d = append(d, "- "+x)
		}
	}
	for _, x := range b {
		if !am[x] {
			d = append(d, "+ "+x)
		}
	}
	return strings.Join(d, "\n")
}

// verifC15ValidatorCompile is the call testCompileDiscoveryChain makes, against the committed state.
func verifC15ValidatorCompile(s *Store, svc string) (*structs.CompiledDiscoveryChain, error) {
	entMeta := structs.DefaultEnterpriseMetaInDefaultPartition()
	_, entries, err := s.ReadDiscoveryChainConfigEntries(nil, svc, entMeta)
	if err != nil {
		return nil, fmt.Errorf("ReadDiscoveryChainConfigEntries: %w", err)
	}
	return discoverychain.Compile(discoverychain.CompileRequest{
		ServiceName:           svc,
		EvaluateInNamespace:   entMeta.NamespaceOrDefault(),
		EvaluateInPartition:   entMeta.PartitionOrDefault(),
		EvaluateInDatacenter:  "dc1",
		EvaluateInTrustDomain: "b6fc9da3-03d4-4b5a-9134-c045e9b20152.consul",
		Entries:               entries,
	})
}

// verifC15Relation classifies how the service whose chain broke relates to the entry that was written:
// the root-cause part of the signature (self / direct-referrer / transitive-referrer / unrelated / proxy-defaults).
func verifC15Relation(stored map[string]verifc15.Entry, before map[string]verifc15.Entry, failing string, op verifC15StoreOp) string {
	if op.Entry.Kind == structs.ProxyDefaults {
		return "proxy-defaults-written"
	}
	written := op.Entry.Name
	if failing == written {
		return "written-service"
	}
	// references as they are after the step, plus (for deletes / rewrites) as they were before it
	reach := func(m map[string]verifc15.Entry) (direct, trans bool) {
		var es []verifc15.Entry
		for _, e := range m {
			es = append(es, e)
		}
		model := verifc15.NewModel(es)
		adj := func(s string) []string { h, so := model.Edges(s); return append(h, so...) }
		for _, d := range adj(failing) {
			if d == written {
				direct = true
			}
		}
		seen := map[string]bool{failing: true}
		queue := []string{failing}
		for len(queue) > 0 {
			cur := queue[0]
			queue = queue[1:]
			for _, d := range adj(cur) {
				if d == written {
					trans = true
				}
				if !seen[d] {
					seen[d] = true
					queue = append(queue, d)
				}
			}
		}
		return
	}
	d1, t1 := reach(stored)
	d2, t2 := reach(before)
	switch {
	case d1 || d2:
		return "direct-referrer-of-written-service"
	case t1 || t2:
		return "transitive-referrer-of-written-service"
	}
	return "unrelated-service"
}

// verifC15Step applies one op and runs the oracle. Shared by the rapid property, the exhaustive block and replay.
func verifC15Step(f verifkit.F, c *verifkit.Case, st *verifC15StoreState, op verifC15StoreOp) {
	var ce structs.ConfigEntry
	switch op.Op {
	case "upsert":
		st.all = append(st.all, op.Entry)
		var err error
		if ce, err = verifc15.Build(op.Entry); err != nil {
			c.Label("op-refused-by-endpoint-validate(skipped)")
			return
		}
	case "delete":
	default:
		return
	}
	if st.dump == nil {
		st.dump = verifC15Dump(st.s)
	}
	before := st.dump
	beforeModel := map[string]verifc15.Entry{}
	for k, v := range st.stored {
		beforeModel[k] = v
	}
	st.idx += 2
	o := verifc15.Run(f, c, func() string { return fmt.Sprintf("%s %s (write-time validation)", op.Op, op.Entry.Key()) }, func() (*structs.CompiledDiscoveryChain, error) {
		if op.Op == "upsert" {
			return nil, st.s.EnsureConfigEntry(st.idx, ce)
		}
		return nil, st.s.DeleteConfigEntry(st.idx, op.Entry.Kind, op.Entry.Name, structs.DefaultEnterpriseMetaInDefaultPartition())
	})
	if o.Panic != "" {
		st.dump = nil
		c.Violation(f, "C15/panic/"+o.Site, "%s %s panicked: %s", op.Op, op.Entry.Key(), o.Panic)
		return
	}
	if o.Err != nil {
		c.Label(op.Op + "-rejected")
		c.Label("reject=" + verifc15.ErrKind(o.Err))
		after := verifC15Dump(st.s)
		st.dump = after
		if d := verifC15DumpDiff(before, after); d != "" {
			c.Violation(f, "C15/rejected-write-changed-store", "%s %s was rejected (%v) but the store changed:\n%s", op.Op, op.Entry.Key(), o.Err, d)
		}
		return
	}
	st.dump = nil
	c.Label(op.Op + "-accepted")
	_, existed := st.stored[op.Entry.Key()]
	if op.Op == "upsert" {
		if existed {
			c.Label("rewrite-accepted")
		}
		st.stored[op.Entry.Key()] = op.Entry
	} else {
		if existed {
			c.Label("delete-of-existing-accepted")
		}
		delete(st.stored, op.Entry.Key())
	}
	for _, svc := range st.svcs {
		svc := svc
		run := func() verifc15.Outcome {
			o := verifc15.Run(f, c, func() string {
				return fmt.Sprintf("compile of %q in the validator's context after accepted %s %s", svc, op.Op, op.Entry.Key())
			}, func() (*structs.CompiledDiscoveryChain, error) { return verifC15ValidatorCompile(st.s, svc) })
			c.Step()
			if o.Panic != "" {
				c.Violation(f, "C15/panic/"+o.Site, "compile of %q after accepted %s %s panicked: %s", svc, op.Op, op.Entry.Key(), o.Panic)
			}
			return o
		}
		o1 := run()
		if o1.Panic != "" {
			continue
		}
		if o1.Err != nil {
			if _, pre := st.broken[svc]; pre {
				c.Label("chain-still-broken-behind-known-finding")
				continue
			}
			rel := verifC15Relation(st.stored, beforeModel, svc, op)
			// The signature names the relation between the broken chain and the written entry (which is what tells
			// the root causes apart); the kind of compile error is incidental and only labelled.
			c.Label("accepted-write-breaks-chain:" + rel + ":" + verifc15.ErrKind(o1.Err))
			if c.Violation(f, "C15/accepted-write-breaks-chain/"+rel,
				"%s %s was ACCEPTED at index %d, but afterwards the chain of %q does not compile in the validator's own context: %v\nstored entries: %s",
				op.Op, op.Entry.Key(), st.idx, svc, o1.Err, verifC15StoredJSON(st.stored)) {
				st.broken[svc] = o1.Err.Error()
			}
			continue
		}
		delete(st.broken, svc)
		if p := verifc15.CheckChain(o1.Chain); p != nil {
			c.Violation(f, p.Key, "chain of %q after accepted %s %s: %s", svc, op.Op, op.Entry.Key(), p.Detail)
			continue
		}
		switch o1.Chain.Nodes[o1.Chain.StartNode].Type {
		case structs.DiscoveryGraphNodeTypeRouter:
			c.Label("stored-chain:start=router")
		case structs.DiscoveryGraphNodeTypeSplitter:
			c.Label("stored-chain:start=splitter")
		}
		if len(o1.Chain.Nodes) >= 4 {
			c.Label("stored-chain:nodes>=4")
		}
		c1 := verifc15.Canon(o1.Chain, nil)
		o2 := run()
		if c2 := verifc15.Canon(o2.Chain, o2.Err); o2.Panic == "" && c2 != c1 {
			c.Violation(f, "C15/nondeterministic/"+verifc15.DiffPath(c1, c2), "chain of %q compiled twice from the same stored entries differs; %s", svc, verifc15.FirstDiff(c1, c2))
		}
	}
}

func verifC15StoredJSON(m map[string]verifc15.Entry) string {
	keys := make([]string, 0, len(m))
	for k := range m {
		keys = append(keys, k)
	}
	sort.Strings(keys)
	var es []verifc15.Entry
	for _, k := range keys {
		es = append(es, m[k])
	}
	b, _ := json.Marshal(es)
	return string(b)
}

// verifC15Finish puts the shape labels / non-triviality on the case.
func verifC15Finish(c *verifkit.Case, st *verifC15StoreState) {
	model := verifc15.NewModel(st.all)
	chain2, cyc, hard := model.Shape()
	if chain2 || cyc {
		c.NonTrivial()
		if c.HasLabel("mode=store") {
			c.Label("non-trivial(mode=store)")
		}
	}
	if chain2 {
		c.Label("shape:ref-chain>=2")
	}
	if cyc {
		c.Label("has-cycle")
	}
	if hard {
		c.Label("has-cycle:router/splitter/redirect")
	}
}

func TestVerifC15Store(t *testing.T) {
	rec := verifkit.For("C15")
	defer rec.Flush()
	verifc15.TuneGC()
	rapid.Check(t, func(t *rapid.T) {
		c := rec.NewCase()
		c.Label("mode=store")
		init := verifC15StoreOp{Mode: "store", Op: "init", Svcs: verifc15.Services, VIPs: rapid.Bool().Draw(t, "vips")}
		c.Op(init)
		st := verifC15NewState(init)
		plan := verifc15.GenPlan(t, verifc15.Services)
		var ops []verifC15StoreOp
		for _, e := range verifc15.GenSet(t, plan) {
			ops = append(ops, verifC15StoreOp{Mode: "store", Op: "upsert", Entry: e})
		}
		extra := rapid.IntRange(0, 8).Draw(t, "extra-ops")
		i := 0
		apply := func(op verifC15StoreOp) {
			c.Op(op) // recorded before it is executed
			verifC15Step(t, c, st, op)
		}
		for ; i < len(ops); i++ {
			apply(ops[i])
		}
		for j := 0; j < extra; j++ {
			if rapid.IntRange(0, 99).Draw(t, "delete?") < 35 {
				var k string
				if keys := verifC15Keys(st.stored); len(keys) > 0 && rapid.IntRange(0, 99).Draw(t, "del-existing?") < 85 {
					k = rapid.SampledFrom(keys).Draw(t, "del-key")
				} else {
					kind, name := verifc15.GenKindName(t, plan)
					k = kind + "/" + name
				}
				parts := strings.SplitN(k, "/", 2)
				apply(verifC15StoreOp{Mode: "store", Op: "delete", Entry: verifc15.Entry{Kind: parts[0], Name: parts[1]}})
				continue
			}
			kind, name := verifc15.GenKindName(t, plan)
			apply(verifC15StoreOp{Mode: "store", Op: "upsert", Entry: verifc15.GenEntry(t, plan, kind, name)})
		}
		verifC15Finish(c, st)
		c.Done()
	})
}

func verifC15Keys(m map[string]verifc15.Entry) []string {
	keys := make([]string, 0, len(m))
	for k := range m {
		keys = append(keys, k)
	}
	sort.Strings(keys)
	return keys
}

// TestVerifC15StoreExhaustive writes EVERY set of <= 3 entries of the reduced grammar over two services in EVERY
// order, then deletes the entries again in the same order, through the same step oracle. The thorough tier adds
// every set of 4 entries in 5 orders (the rotations and the reversal).
func TestVerifC15StoreExhaustive(t *testing.T) {
	rec := verifkit.For("C15")
	defer rec.Flush()
	verifc15.TuneGC()
	max := verifkit.EnvInt("VERIF_C15_EXH_MAX", 3)
	if verifkit.Thorough() {
		max = verifkit.EnvInt("VERIF_C15_EXH_MAX", 4)
	}
	shard, nshards := verifc15.ShardOf()
	slots := verifc15.SmallSlots("web", "api")
	perms := map[int][][]int{}
	for n := 1; n <= max; n++ {
		if n <= 3 {
			perms[n] = verifc15.Permutations(n) // every write order
			continue
		}
		// larger sets (thorough tier): the n rotations and the reversal
		for r := 0; r < n; r++ {
			var p []int
			for i := 0; i < n; i++ {
				p = append(p, (i+r)%n)
			}
			perms[n] = append(perms[n], p)
		}
		var rev []int
		for i := n - 1; i >= 0; i-- {
			rev = append(rev, i)
		}
		perms[n] = append(perms[n], rev)
	}
	var sets, histories int64
	total := verifc15.EnumSets(slots, max, func(idx int, set []verifc15.Entry) {
		if idx%nshards != shard {
			return
		}
		sets++
		for _, perm := range perms[len(set)] {
			histories++
			c := rec.NewCase()
			c.Label("mode=store-exhaustive")
			init := verifC15StoreOp{Mode: "store", Op: "init", Svcs: []string{"web", "api"}, VIPs: idx%2 == 0}
			c.Op(init)
			st := verifC15NewState(init)
			for _, what := range []string{"upsert", "delete"} {
				for _, i := range perm {
					op := verifC15StoreOp{Mode: "store", Op: what, Entry: set[i]}
					if what == "delete" {
						op.Entry = verifc15.Entry{Kind: set[i].Kind, Name: set[i].Name}
					}
					c.Op(op)
					verifC15Step(t, c, st, op)
				}
			}
			verifC15Finish(c, st)
			c.Done()
		}
	})
	rec.AddExtraInt("exhaustive_small_sets_store", sets)
	rec.SetExtra("exhaustive_small_sets_store_max_entries", fmt.Sprint(max))
	rec.AddExtraInt("exhaustive_small_set_write_orders", histories)
	t.Logf("exhaustive: %d of %d sets (<= %d entries), %d write orders, shard %d/%d", sets, total, max, histories, shard, nshards)
}

// TestVerifC15Replay re-executes saved store-mode histories without rapid.
func TestVerifC15Replay(t *testing.T) {
	rec := verifkit.For("C15")
	defer rec.Flush()
	verifc15.TuneGC()
	for _, path := range verifkit.ReplayFiles("C15") {
		rp, err := verifkit.LoadReplay(path)
		if err != nil {
			t.Fatalf("%v", err)
		}
		var st *verifC15StoreState
		var c *verifkit.Case
		for _, raw := range rp.Ops {
			var op verifC15StoreOp
			if err := json.Unmarshal(raw, &op); err != nil || op.Mode != "store" {
				continue // a direct-mode replay: executed by the replay test of agent/consul/discoverychain
			}
			if op.Op == "init" || st == nil {
				if c != nil {
					verifC15Finish(c, st)
					c.Done()
				}
				c = rec.NewCase()
				c.Label("replay")
				init := op
				if op.Op != "init" {
					init = verifC15StoreOp{Mode: "store", Op: "init"}
				}
				st = verifC15NewState(init)
			}
			c.Op(op)
			verifC15Step(t, c, st, op)
		}
		if c != nil {
			verifC15Finish(c, st)
			c.Done()
		}
	}
}
