package state

// C13 — Intention decisions follow precedence, independent of write order.
//
// This file: the op/plan encoding and the INDEPENDENT reference model (no consul code is used to decide
// anything here): which intentions are candidates for a (source, source-peer, destination) pair, which one
// wins, what the verdict is, what the documented precedence number is and how match/list results must be
// ordered.
//
// Grounding of every rule:
//   - candidates / winner: property statement ("the single most specific intention matching the pair - exact
//     names before wildcards, destination specificity before source specificity - and the default policy when
//     none matches"); source peer must be equal: structs.Intention.SourcePeer doc + connect.IntentionMatch.
//   - verdict: Store.IntentionDecision doc: action allow/deny; if the winner carries L7 permissions the
//     result is AllowPermissions ("allowPermissions determines whether the presence of L7 permissions leads
//     to a DENY decision") and HasPermissions is reported.
//   - precedence numbers 9/8/6/5 (CE, one namespace): Intention.UpdatePrecedence / computeIntentionPrecedence docs.
//   - list order: IntentionPrecedenceSorter doc: precedence descending, tie-break lexicographic on
//     (SrcSamenessGroup, SrcPeer, SrcPxn, SrcNS, Src, DstPxn, DstNS, Dst); in CE only SrcPeer, Src, Dst vary.

import (
	"encoding/json"
	"fmt"
	"sort"
	"strings"
)

const verifC13Wild = "*"

// verifC13Perm is one L7 permission of a generated intention.
type verifC13Perm struct {
	Action     string   `json:"action"`
	PathPrefix string   `json:"path_prefix,omitempty"`
	PathExact  string   `json:"path_exact,omitempty"`
	Methods    []string `json:"methods,omitempty"`
}

// verifC13Ixn is one generated intention. Exactly one of Action / Perms is set.
type verifC13Ixn struct {
	Src    string         `json:"src"`
	Peer   string         `json:"peer,omitempty"`
	Dst    string         `json:"dst"`
	Action string         `json:"action,omitempty"`
	Perms  []verifC13Perm `json:"perms,omitempty"`
}

func (x verifC13Ixn) key() string { return x.Peer + "|" + x.Src + "->" + x.Dst }

// class is the verdict class used by the non-triviality rule.
func (x verifC13Ixn) class() string {
	if len(x.Perms) > 0 {
		return "l7"
	}
	return x.Action
}

func (x verifC13Ixn) body() string {
	b, _ := json.Marshal(struct {
		A string
		P []verifC13Perm
	}{x.Action, x.Perms})
	return string(b)
}

func (x verifC13Ixn) String() string {
	p := ""
	if x.Peer != "" {
		p = "@" + x.Peer
	}
	return fmt.Sprintf("%s%s->%s[%s]", x.Src, p, x.Dst, x.class())
}

// localL4 reports whether the intention is expressible through the legacy APIs (no peer, no permissions).
func (x verifC13Ixn) localL4() bool { return x.Peer == "" && len(x.Perms) == 0 }

// verifC13WOp is one write against a store.
type verifC13WOp struct {
	Kind string      `json:"kind"` // put | del
	Ixn  verifC13Ixn `json:"ixn"`
	// From (legacy family only): the put is an update BY ID of the existing intention From, which thereby
	// becomes Ixn (the pre-1.9 API allowed changing source and destination of an intention; the ID-based
	// update of the config-entry-backed legacy API still allows changing the source).
	From *verifC13Ixn `json:"rename_of,omitempty"`
}

// verifC13Set is the first recorded op of a case: the final intention set every plan must end in.
type verifC13Set struct {
	Kind string        `json:"kind"` // "set"
	Ixns []verifC13Ixn `json:"ixns"`
}

// verifC13Plan is one way of writing the set into a fresh store.
//
// Modes (family "config": the full set; family "legacy": its local-L4 projection):
//
//	entry-bulk   config  one EnsureConfigEntry per destination, sources in plan order
//	entry-incr   config  read-modify-write of the destination's entry per op (Prepend: new sources go first)
//	mutation     config  Store.IntentionMutation upsert/delete BY NAME for local sources (what Intention.Apply
//	                     builds); peer sources, which that API cannot address, go through entry-incr
//	legacy-id    legacy  Store.IntentionMutation create/update/delete by legacy ID (config-entry backed)
//	legacy-table legacy  Store.LegacyIntentionSet / LegacyIntentionDelete on a store without the
//	                     intention-format system metadata (pre-1.9 representation)
type verifC13Plan struct {
	Kind    string        `json:"kind"` // "plan"
	Mode    string        `json:"mode"`
	Prepend bool          `json:"prepend,omitempty"`
	Ops     []verifC13WOp `json:"ops"`
}

func (p *verifC13Plan) family() string {
	if strings.HasPrefix(p.Mode, "legacy") {
		return "legacy"
	}
	return "config"
}

// ---- model

func verifC13Project(set []verifC13Ixn) []verifC13Ixn {
	var out []verifC13Ixn
	for _, x := range set {
		if x.localL4() {
			out = append(out, x)
		}
	}
	return out
}

// verifC13Final replays write ops on a map: the state a plan must leave behind.
func verifC13Final(ops []verifC13WOp) (map[string]verifC13Ixn, error) {
	m := map[string]verifC13Ixn{}
	for i, op := range ops {
		switch op.Kind {
		case "put":
			if op.From != nil {
				if _, ok := m[op.From.key()]; !ok {
					return nil, fmt.Errorf("op %d renames %s which does not exist", i, op.From.key())
				}
				if _, ok := m[op.Ixn.key()]; ok {
					return nil, fmt.Errorf("op %d renames onto %s which exists", i, op.Ixn.key())
				}
				delete(m, op.From.key())
			}
			m[op.Ixn.key()] = op.Ixn
		case "del":
			if _, ok := m[op.Ixn.key()]; !ok {
				return nil, fmt.Errorf("op %d deletes %s which does not exist", i, op.Ixn.key())
			}
			delete(m, op.Ixn.key())
		default:
			return nil, fmt.Errorf("op %d: unknown kind %q", i, op.Kind)
		}
	}
	return m, nil
}

func verifC13SetMap(set []verifC13Ixn) map[string]verifC13Ixn {
	m := map[string]verifC13Ixn{}
	for _, x := range set {
		m[x.key()] = x
	}
	return m
}

func verifC13SameSet(a, b map[string]verifC13Ixn) bool {
	if len(a) != len(b) {
		return false
	}
	for k, x := range a {
		y, ok := b[k]
		if !ok || x.body() != y.body() {
			return false
		}
	}
	return true
}

// verifC13Valid: structural validity every real writer enforces (ServiceIntentionsConfigEntry.validate).
func verifC13Valid(x verifC13Ixn) error {
	if x.Src == "" || x.Dst == "" {
		return fmt.Errorf("empty name")
	}
	if (x.Action == "") == (len(x.Perms) == 0) {
		return fmt.Errorf("exactly one of action/perms")
	}
	if x.Dst == verifC13Wild && len(x.Perms) > 0 {
		return fmt.Errorf("permissions on a wildcard destination")
	}
	return nil
}

// verifC13Cands: intentions covering the pair.
func verifC13Cands(set []verifC13Ixn, src, peer, dst string) []verifC13Ixn {
	var out []verifC13Ixn
	for _, x := range set {
		if x.Peer != peer {
			continue
		}
		if x.Dst != dst && x.Dst != verifC13Wild {
			continue
		}
		if x.Src != src && x.Src != verifC13Wild {
			continue
		}
		out = append(out, x)
	}
	return out
}

// verifC13Winner: destination exact before wildcard, then source exact before wildcard.
func verifC13Winner(cands []verifC13Ixn) *verifC13Ixn {
	var best *verifC13Ixn
	for i := range cands {
		x := &cands[i]
		if best == nil {
			best = x
			continue
		}
		xd, bd := x.Dst != verifC13Wild, best.Dst != verifC13Wild
		if xd != bd {
			if xd {
				best = x
			}
			continue
		}
		xs, bs := x.Src != verifC13Wild, best.Src != verifC13Wild
		if xs != bs && xs {
			best = x
		}
	}
	return best
}

type verifC13Verdict struct {
	Matched  bool
	Allowed  bool
	HasPerms bool
	HasExact bool
	Winner   string
}

func verifC13Expect(set []verifC13Ixn, src, peer, dst string, defaultAllow, allowPerms bool) verifC13Verdict {
	w := verifC13Winner(verifC13Cands(set, src, peer, dst))
	if w == nil {
		return verifC13Verdict{Allowed: defaultAllow, Winner: "none(default)"}
	}
	v := verifC13Verdict{Matched: true, Winner: w.String()}
	if len(w.Perms) > 0 {
		v.Allowed = allowPerms
		v.HasPerms = true
	} else {
		v.Allowed = w.Action == "allow"
	}
	v.HasExact = w.Src != verifC13Wild && w.Dst != verifC13Wild
	return v
}

// verifC13Prec: documented precedence number (single namespace).
func verifC13Prec(src, dst string) int {
	p := 9
	if dst == verifC13Wild {
		p = 6
	}
	if src == verifC13Wild {
		p--
	}
	return p
}

// verifC13RowLess: independent comparator for result lists.
// ok=false when the two rows are the same intention (a duplicate in a list).
func verifC13RowCmp(a, b verifC13Row) (less bool, tie bool, equal bool) {
	pa, pb := verifC13Prec(a.Src, a.Dst), verifC13Prec(b.Src, b.Dst)
	if pa != pb {
		return pa > pb, false, false
	}
	for _, p := range [][2]string{{a.SG, b.SG}, {a.Peer, b.Peer}, {a.SrcPart, b.SrcPart}, {a.SrcNS, b.SrcNS}, {a.Src, b.Src},
		{a.DstPart, b.DstPart}, {a.DstNS, b.DstNS}, {a.Dst, b.Dst}} {
		if p[0] != p[1] {
			return p[0] < p[1], true, false
		}
	}
	return false, true, true
}

// verifC13ExpectList: which intentions a match / list query must return (as a key set; order is checked separately).
//
//	kind "all"  every intention
//	kind "dst"  destination match for name: intentions whose destination is name or * (all source peers);
//	            name "*" itself: only wildcard destinations (intentionMatchGetParams: "If we have a wildcard
//	            name, then we're done")
//	kind "src"  source match for name: LOCAL sources only ("Intention queries cannot use a peered service as a
//	            source", ServiceIntentionSourceIndex.FromArgs) whose source is name or *
func verifC13ExpectList(set []verifC13Ixn, kind, name string) map[string]verifC13Ixn {
	out := map[string]verifC13Ixn{}
	for _, x := range set {
		switch kind {
		case "all":
		case "dst":
			if x.Dst != verifC13Wild && (name == verifC13Wild || x.Dst != name) {
				continue
			}
		case "src", "src-any-peer":
			if x.Peer != "" && kind == "src" {
				continue
			}
			if x.Src != verifC13Wild && (name == verifC13Wild || x.Src != name) {
				continue
			}
		}
		out[x.key()] = x
	}
	return out
}

func verifC13Keys(m map[string]verifC13Ixn) []string {
	ks := make([]string, 0, len(m))
	for k := range m {
		ks = append(ks, k)
	}
	sort.Strings(ks)
	return ks
}
