package state

// C17 (exporting side) — a service is offered to a peer only if an exported-services entry names that peer as a
// consumer of it.
//
// Code under test: Store.ExportedServicesForPeer / exportedServicesForPeerTxn, ExportedServicesForAllPeersByName,
// ResolvedExportedServices (peering.go, config_entry_exported_services*.go) over a real state store.
//
// A case is a history: peerings p1..p3, then exported-services config-entry writes/deletes interleaved with local
// catalog registrations (typical services, connect proxies, connect-native, the `consul` service, services IMPORTED from a
// peer under the same names), discovery-chain config entries (resolver / splitter / router, which make a name
// exportable without instances) and a terminating gateway. After EVERY op, for EVERY peering P:
//
//   (1) soundness: every name in ExportedServicesForPeer(P).Services is justified by a service entry that names P
//       as a peer consumer — the exact name, or `*` together with a LOCAL typical service of that name
//       ("If all services in the namespace are exported by the wildcard, query those service names");
//       every key of .DiscoChains is justified the same way, or by `*` + a discovery-chain config entry of that name;
//       `consul` is never exported ("Prevent exporting the \"consul\" service"), exactly named or by wildcard;
//   (2) completeness: every exactly named export (other than `consul`) with consumer P is in .Services, and under
//       a wildcard naming P every local typical service name is;
//   (3) non-interference: a write of the exported-services entry that does not change what the entry says about
//       peer Q (its exact names, its wildcard flag) leaves ExportedServicesForPeer(Q) unchanged;
//   (4) ExportedServicesForAllPeersByName agrees with the per-peer results; an unknown peer ID gets nothing;
//   (5) every (service, peer) pair of ResolvedExportedServices is justified by the entry.
//
// Partition consumers (CE admits only `default`/empty), consumers naming a peer without peering, entries with
// several consumers and repeated service names are generated; none of them may leak a name to another peer.
// Each service name keeps one kind for the whole case (the kind-service-names table is C07's business).

import (
	"encoding/json"
	"fmt"
	"path/filepath"
	"sort"
	"strings"
	"testing"

	"github.com/hashicorp/consul/acl"
	"github.com/hashicorp/consul/agent/connect"
	"github.com/hashicorp/consul/agent/netutil"
	"github.com/hashicorp/consul/agent/structs"
	"github.com/hashicorp/consul/internal/verifkit"
	"github.com/hashicorp/consul/proto/private/pbpeering"
	"github.com/hashicorp/consul/types"
	"pgregory.net/rapid"
)

type verifC17XConsumer struct {
	Peer      string `json:"peer,omitempty"`
	Partition string `json:"partition,omitempty"`
}

type verifC17XSvc struct {
	Name      string              `json:"name"`
	Consumers []verifC17XConsumer `json:"consumers"`
}

type verifC17XOp struct {
	Kind string `json:"kind"` // x-peering | x-export | x-export-delete | x-reg | x-dereg | x-dereg-node | x-chain | x-tgw

	Peer string `json:"peer,omitempty"` // x-peering: name; x-reg: "" local or the peer the instance was imported from

	Export []verifC17XSvc `json:"export,omitempty"`

	Node    string `json:"node,omitempty"`
	Service string `json:"service,omitempty"`
	ID      string `json:"id,omitempty"`

	ChainKind string `json:"chain_kind,omitempty"` // service-resolver | service-splitter | service-router | service-defaults
	Name      string `json:"name,omitempty"`
	Delete    bool   `json:"delete,omitempty"`

	Linked []string `json:"linked,omitempty"` // x-tgw
}

var (
	verifC17XPeerIDs = map[string]string{
		"p1": "a1a1a1a1-a1a1-4a1a-8a1a-a1a1a1a1a1a1",
		"p2": "b2b2b2b2-b2b2-4b2b-8b2b-b2b2b2b2b2b2",
		"p3": "c3c3c3c3-c3c3-4c3c-8c3c-c3c3c3c3c3c3",
	}
	verifC17XNames = []string{"web", "api", "db", "consul", "ghost"} // service / chain names
	// name -> (kind, destination): one kind per name
	verifC17XKinds = map[string][2]string{
		"web": {"", ""}, "api": {"", ""}, "db": {"", ""}, "consul": {"", ""}, "native": {"native", ""},
		"web-proxy": {string(structs.ServiceKindConnectProxy), "web"}, "consul-proxy": {string(structs.ServiceKindConnectProxy), "consul"},
		"mesh-gw": {string(structs.ServiceKindMeshGateway), ""},
	}
)

type verifC17XState struct {
	c     *verifkit.Case
	s     *Store
	idx   uint64
	peers []string // peering names in creation order
	// model
	export []verifC17XSvc
	has    bool
	insts  map[string]string // local: node/id -> service name
	chains map[string]bool   // kind/name
}

func (st *verifC17XState) next() uint64 { st.idx += 2; return st.idx }

func verifC17XNewState(c *verifkit.Case) *verifC17XState {
	netutil.GetAgentBindAddrFunc = netutil.GetMockGetAgentBindAddrFunc("0.0.0.0")
	st := &verifC17XState{c: c, s: NewStateStore(nil), idx: 10, insts: map[string]string{}, chains: map[string]bool{}}
	// every server has a CA configuration once bootstrapped; discovery-chain compilation needs its trust domain
	if err := st.s.CASetConfig(st.next(), &structs.CAConfiguration{Provider: "consul", ClusterID: connect.TestClusterID}); err != nil {
		panic(err)
	}
	return st
}

type verifC17XView struct {
	exact map[string]bool
	wild  bool
}

func (v verifC17XView) String() string {
	k := make([]string, 0, len(v.exact))
	for n := range v.exact {
		k = append(k, n)
	}
	sort.Strings(k)
	return fmt.Sprintf("exact=%v wildcard=%v", k, v.wild)
}

// view: what the entry says about one peer.
func verifC17XViewOf(export []verifC17XSvc, peer string) verifC17XView {
	v := verifC17XView{exact: map[string]bool{}}
	for _, s := range export {
		named := false
		for _, c := range s.Consumers {
			if c.Peer == peer && peer != "" {
				named = true
			}
		}
		if !named {
			continue
		}
		if s.Name == structs.WildcardSpecifier {
			v.wild = true
		} else {
			v.exact[s.Name] = true
		}
	}
	return v
}

func (st *verifC17XState) typicalNames() map[string]bool {
	out := map[string]bool{}
	for _, n := range st.insts {
		if verifC17XKinds[n][0] == "" || verifC17XKinds[n][0] == "native" {
			out[n] = true
		}
	}
	return out
}

func (st *verifC17XState) chainNames() map[string]bool {
	out := map[string]bool{}
	for k := range st.chains {
		p := strings.SplitN(k, "/", 2)
		if p[0] != structs.ServiceDefaults {
			out[p[1]] = true
		}
	}
	return out
}

type verifC17XResult struct {
	Services    []string
	DiscoChains []string
	Canon       string
}

func (st *verifC17XState) read(f verifkit.F, peer string) verifC17XResult {
	_, list, err := st.s.ExportedServicesForPeer(nil, verifC17XPeerIDs[peer], "dc1")
	if err != nil {
		st.c.Violation(f, "C17/export-read-error", "ExportedServicesForPeer(%s): %v", peer, err)
		return verifC17XResult{}
	}
	var r verifC17XResult
	for _, sn := range list.Services {
		r.Services = append(r.Services, sn.Name)
	}
	for sn := range list.DiscoChains {
		r.DiscoChains = append(r.DiscoChains, sn.Name)
	}
	sort.Strings(r.DiscoChains)
	type dc struct {
		Name string
		Info structs.ExportedDiscoveryChainInfo
	}
	var dcs []dc
	for sn, info := range list.DiscoChains {
		dcs = append(dcs, dc{sn.Name, info})
	}
	sort.Slice(dcs, func(i, j int) bool { return dcs[i].Name < dcs[j].Name })
	b, _ := json.Marshal(struct {
		S []string
		D []dc
	}{r.Services, dcs})
	r.Canon = string(b)
	return r
}

// oracle: clauses (1), (2), (4), (5) for the current state.
func (st *verifC17XState) oracle(f verifkit.F, what string) {
	typical, chains := st.typicalNames(), st.chainNames()
	var export []verifC17XSvc
	if st.has {
		export = st.export
	}
	allByName := map[string][]string{}
	for _, p := range st.peers {
		v := verifC17XViewOf(export, p)
		r := st.read(f, p)
		inSvc := map[string]bool{}
		for _, n := range r.Services {
			inSvc[n] = true
			switch {
			case n == structs.ConsulServiceName:
				st.c.Violation(f, "C17/export-consul-service", "%s: the consul service is exported to peer %s (entry says about it: %s)", what, p, v)
			case v.exact[n]:
			case v.wild && typical[n]:
			case v.wild:
				st.c.Violation(f, "C17/export-unjustified-service/wildcard-without-local-typical-service", "%s: %q is exported to peer %s under the wildcard, but no local typical service of that name exists (local typical names: %v)", what, n, p, verifC17XKeys(typical))
			default:
				st.c.Violation(f, "C17/export-unjustified-service/peer-not-consumer", "%s: %q is exported to peer %s, but no exported-services entry names %s as a consumer of it (entry says about it: %s; entry: %+v)", what, n, p, p, v, export)
			}
		}
		for _, n := range r.DiscoChains {
			switch {
			case n == structs.ConsulServiceName:
				st.c.Violation(f, "C17/export-consul-service", "%s: a discovery chain for the consul service is exported to peer %s", what, p)
			case v.exact[n], v.wild && typical[n], v.wild && chains[n]:
			default:
				st.c.Violation(f, "C17/export-unjustified-discochain", "%s: discovery chain %q is exported to peer %s, which the entry does not justify (entry says about it: %s; chains %v)", what, n, p, v, verifC17XKeys(chains))
			}
		}
		for _, n := range verifC17XKeys(v.exact) {
			if n != structs.ConsulServiceName && !inSvc[n] {
				st.c.Violation(f, "C17/export-exact-missing", "%s: the entry exports %q to peer %s by name, but ExportedServicesForPeer does not list it: %v", what, n, p, r.Services)
			}
		}
		if v.wild {
			for _, n := range verifC17XKeys(typical) {
				if n != structs.ConsulServiceName && !inSvc[n] {
					st.c.Violation(f, "C17/export-wildcard-missing", "%s: the entry exports * to peer %s and %q is a local typical service, but it is not listed: %v", what, p, n, r.Services)
				}
			}
		}
		// labels
		if len(v.exact) > 0 {
			st.c.Label("x:exact")
		}
		if v.wild {
			st.c.Label("x:wildcard")
			if typical[structs.ConsulServiceName] {
				st.c.Label("x:wildcard+consul-registered")
			}
			for n := range chains {
				if !typical[n] {
					st.c.Label("x:wildcard+chain-without-instances")
				}
			}
		}
		if v.exact[structs.ConsulServiceName] {
			st.c.Label("x:consul-named-exactly")
		}
		if len(r.DiscoChains) > 0 {
			st.c.Label("x:discochains-exported")
		}
		// ListAllDiscoveryChains = union of Services and DiscoChains
		union := map[string]bool{}
		for _, n := range append(append([]string{}, r.Services...), r.DiscoChains...) {
			union[n] = true
		}
		if len(union) > 0 {
			allByName[p] = verifC17XKeys(union)
		}
		if len(v.exact) > 0 || v.wild {
			for _, q := range st.peers {
				if w := verifC17XViewOf(export, q); q != p && len(w.exact) == 0 && !w.wild {
					st.c.Label("x:one-peer-named-other-not")
					if len(st.insts) > 0 {
						st.c.NonTrivial()
					}
				}
			}
		}
	}
	// (4)
	_, byName, err := st.s.ExportedServicesForAllPeersByName(nil, "dc1", *acl.DefaultEnterpriseMeta())
	if err != nil {
		st.c.Violation(f, "C17/export-read-error", "ExportedServicesForAllPeersByName: %v", err)
	} else {
		got := map[string][]string{}
		for p, l := range byName {
			for _, sn := range l {
				got[p] = append(got[p], sn.Name)
			}
			sort.Strings(got[p])
		}
		a, _ := json.Marshal(got)
		b, _ := json.Marshal(allByName)
		if string(a) != string(b) {
			st.c.Violation(f, "C17/export-allpeers-inconsistent", "%s: ExportedServicesForAllPeersByName = %s, per-peer results give %s", what, a, b)
		}
	}
	if _, l, err := st.s.ExportedServicesForPeer(nil, "dddddddd-dddd-4ddd-8ddd-dddddddddddd", "dc1"); err != nil || len(l.Services)+len(l.DiscoChains) > 0 {
		st.c.Violation(f, "C17/export-unknown-peer", "%s: an unknown peer ID is offered %+v (err %v)", what, l, err)
	}
	// (5)
	_, resolved, err := st.s.ResolvedExportedServices(nil, acl.DefaultEnterpriseMeta())
	if err != nil {
		st.c.Violation(f, "C17/export-read-error", "ResolvedExportedServices: %v", err)
	}
	for _, rs := range resolved {
		if rs.Service == structs.ConsulServiceName {
			st.c.Violation(f, "C17/export-consul-service", "%s: ResolvedExportedServices lists the consul service", what)
		}
		for _, p := range rs.GetConsumers().GetPeers() {
			v := verifC17XViewOf(export, p)
			if !(v.exact[rs.Service] || (v.wild && typical[rs.Service])) {
				st.c.Violation(f, "C17/resolved-unjustified-consumer", "%s: ResolvedExportedServices says %q is exported to peer %q, which the entry does not justify (%s)", what, rs.Service, p, v)
			}
		}
	}
}

func verifC17XKeys(m map[string]bool) []string {
	out := make([]string, 0, len(m))
	for k := range m {
		out = append(out, k)
	}
	sort.Strings(out)
	return out
}

func (st *verifC17XState) entry(export []verifC17XSvc) *structs.ExportedServicesConfigEntry {
	e := &structs.ExportedServicesConfigEntry{Name: "default"}
	for _, s := range export {
		es := structs.ExportedService{Name: s.Name}
		for _, c := range s.Consumers {
			es.Consumers = append(es.Consumers, structs.ServiceConsumer{Peer: c.Peer, Partition: c.Partition})
		}
		e.Services = append(e.Services, es)
	}
	return e
}

func verifC17XStep(f verifkit.F, st *verifC17XState, op verifC17XOp) {
	what := op.Kind
	switch op.Kind {
	case "x-peering":
		if err := st.s.PeeringWrite(st.next(), &pbpeering.PeeringWriteRequest{Peering: &pbpeering.Peering{ID: verifC17XPeerIDs[op.Peer], Name: op.Peer}}); err != nil {
			f.Fatalf("harness: PeeringWrite: %v", err)
		}
		st.peers = append(st.peers, op.Peer)
	case "x-export", "x-export-delete":
		before := map[string]verifC17XResult{}
		var oldExport []verifC17XSvc
		if st.has {
			oldExport = st.export
		}
		for _, p := range st.peers {
			before[p] = st.read(f, p)
		}
		var err error
		var newExport []verifC17XSvc
		if op.Kind == "x-export" {
			e := st.entry(op.Export)
			if err = e.Normalize(); err == nil {
				if err = e.Validate(); err != nil {
					f.Fatalf("harness: generated an invalid exported-services entry: %v", err)
				}
				err = st.s.EnsureConfigEntry(st.next(), e)
			}
			newExport = op.Export
		} else {
			err = st.s.DeleteConfigEntry(st.next(), structs.ExportedServices, "default", acl.DefaultEnterpriseMeta())
		}
		if err != nil {
			st.c.Label("x:export-write-rejected")
			newExport = oldExport
		} else {
			st.export, st.has = newExport, op.Kind == "x-export"
		}
		what = fmt.Sprintf("%s %+v", op.Kind, op.Export)
		// (3)
		changedSome := false
		for _, p := range st.peers {
			a, b := verifC17XViewOf(oldExport, p), verifC17XViewOf(newExport, p)
			if a.String() != b.String() {
				changedSome = true
				continue
			}
			after := st.read(f, p)
			if after.Canon != before[p].Canon {
				st.c.Violation(f, "C17/export-other-peer-affected", "%s: what the entry says about peer %s did not change (%s), but its export set did:\n before %s\n after  %s", what, p, a, before[p].Canon, after.Canon)
			}
			if changedSome || len(a.exact) > 0 || a.wild {
				st.c.Label("x:edit-leaves-a-named-peer-unchanged")
			}
		}
	case "x-reg":
		kd := verifC17XKinds[op.Service]
		ns := &structs.NodeService{ID: op.ID, Service: op.Service, Port: 8080, PeerName: op.Peer, EnterpriseMeta: *acl.DefaultEnterpriseMeta(),
			Weights: &structs.Weights{Passing: 1, Warning: 1}}
		switch kd[0] {
		case "native":
			ns.Connect.Native = true
		case "":
		default:
			ns.Kind = structs.ServiceKind(kd[0])
			if ns.Kind == structs.ServiceKindConnectProxy {
				ns.Proxy.DestinationServiceName = kd[1]
			}
		}
		req := &structs.RegisterRequest{Node: op.Node, Address: "10.0.0.1", PeerName: op.Peer, Service: ns,
			ID: types.NodeID(map[string]string{"n1": "11111111-1111-4111-8111-111111111111", "n2": "22222222-2222-4222-8222-222222222222"}[op.Node])}
		if err := st.s.EnsureRegistration(st.next(), req); err != nil {
			f.Fatalf("harness: EnsureRegistration: %v", err)
		}
		if op.Peer == "" {
			st.insts[op.Node+"/"+op.ID] = op.Service
		} else {
			st.c.Label("x:imported-service-registered")
		}
	case "x-dereg":
		if err := st.s.DeleteService(st.next(), op.Node, op.ID, acl.DefaultEnterpriseMeta(), op.Peer); err != nil {
			f.Fatalf("harness: DeleteService: %v", err)
		}
		if op.Peer == "" {
			delete(st.insts, op.Node+"/"+op.ID)
		}
	case "x-dereg-node":
		if err := st.s.DeleteNode(st.next(), op.Node, acl.DefaultEnterpriseMeta(), op.Peer); err != nil {
			f.Fatalf("harness: DeleteNode: %v", err)
		}
		if op.Peer == "" {
			for k := range st.insts {
				if strings.HasPrefix(k, op.Node+"/") {
					delete(st.insts, k)
				}
			}
		}
	case "x-chain":
		var err error
		if op.Delete {
			err = st.s.DeleteConfigEntry(st.next(), op.ChainKind, op.Name, acl.DefaultEnterpriseMeta())
		} else {
			var e structs.ConfigEntry
			switch op.ChainKind {
			case structs.ServiceResolver:
				e = &structs.ServiceResolverConfigEntry{Kind: structs.ServiceResolver, Name: op.Name}
			case structs.ServiceSplitter:
				e = &structs.ServiceSplitterConfigEntry{Kind: structs.ServiceSplitter, Name: op.Name, Splits: []structs.ServiceSplit{{Weight: 100}}}
			case structs.ServiceRouter:
				e = &structs.ServiceRouterConfigEntry{Kind: structs.ServiceRouter, Name: op.Name}
			case structs.ServiceDefaults:
				e = &structs.ServiceConfigEntry{Kind: structs.ServiceDefaults, Name: op.Name, Protocol: "http"}
			default:
				f.Fatalf("harness: chain kind %q", op.ChainKind)
			}
			if err = e.Normalize(); err == nil {
				err = st.s.EnsureConfigEntry(st.next(), e)
			}
		}
		if err != nil {
			st.c.Label("x:chain-write-rejected")
		} else if op.Delete {
			delete(st.chains, op.ChainKind+"/"+op.Name)
		} else {
			st.chains[op.ChainKind+"/"+op.Name] = true
		}
	case "x-tgw":
		e := &structs.TerminatingGatewayConfigEntry{Kind: structs.TerminatingGateway, Name: "term-gw"}
		for _, l := range op.Linked {
			e.Services = append(e.Services, structs.LinkedService{Name: l})
		}
		if err := e.Normalize(); err != nil {
			f.Fatalf("harness: Normalize: %v", err)
		}
		if err := st.s.EnsureConfigEntry(st.next(), e); err != nil {
			st.c.Label("x:chain-write-rejected")
		} else {
			st.c.Label("x:terminating-gateway-links")
		}
	default:
		f.Fatalf("harness: unknown op %q", op.Kind)
	}
	st.oracle(f, what)
}

// ---------------------------------------------------------------------------------------------
// generator

func verifC17XGenConsumers(t *rapid.T) []verifC17XConsumer {
	var cs []verifC17XConsumer
	for _, p := range []string{"p1", "p2", "p3"} {
		if rapid.IntRange(0, 9).Draw(t, "consumer-"+p) < 3 {
			cs = append(cs, verifC17XConsumer{Peer: p})
		}
	}
	switch rapid.IntRange(0, 9).Draw(t, "other-consumer") {
	case 0:
		cs = append(cs, verifC17XConsumer{Partition: "default"})
	case 1:
		cs = append(cs, verifC17XConsumer{Peer: "nopeering"})
	case 2:
		cs = append(cs, verifC17XConsumer{}) // consumer without peer/partition: admitted by Validate in CE (= default partition)
	}
	if len(cs) == 0 {
		cs = append(cs, verifC17XConsumer{Peer: rapid.SampledFrom([]string{"p1", "p2", "p3", "nopeering"}).Draw(t, "the-consumer")})
	}
	return rapid.Permutation(cs).Draw(t, "consumer-order")
}

func verifC17XGenExport(t *rapid.T, prev []verifC17XSvc, c *verifkit.Case) []verifC17XSvc {
	if len(prev) > 0 && rapid.IntRange(0, 9).Draw(t, "edit-prev") < 5 {
		// an edit that names only ONE peer: toggle it as consumer of one service entry, or add / drop an entry for it alone
		c.Label("x:edit-naming-one-peer")
		p := rapid.SampledFrom([]string{"p1", "p2", "p3"}).Draw(t, "edit-peer")
		b, _ := json.Marshal(prev)
		var cp []verifC17XSvc
		_ = json.Unmarshal(b, &cp)
		switch rapid.IntRange(0, 2).Draw(t, "edit-kind") {
		case 0:
			i := rapid.IntRange(0, len(cp)-1).Draw(t, "edit-entry")
			pos := -1
			for j, cns := range cp[i].Consumers {
				if cns.Peer == p {
					pos = j
				}
			}
			if pos >= 0 {
				cp[i].Consumers = append(cp[i].Consumers[:pos], cp[i].Consumers[pos+1:]...)
				if len(cp[i].Consumers) == 0 {
					cp = append(cp[:i], cp[i+1:]...)
				}
			} else {
				cp[i].Consumers = append(cp[i].Consumers, verifC17XConsumer{Peer: p})
			}
		case 1:
			cp = append(cp, verifC17XSvc{Name: rapid.SampledFrom(append([]string{"*", "*"}, verifC17XNames...)).Draw(t, "edit-name"), Consumers: []verifC17XConsumer{{Peer: p}}})
		case 2:
			for i, s := range cp {
				if len(s.Consumers) == 1 && s.Consumers[0].Peer == p {
					cp = append(cp[:i], cp[i+1:]...)
					break
				}
			}
		}
		if len(cp) > 0 {
			return cp
		}
	}
	n := rapid.IntRange(1, 4).Draw(t, "nentries")
	var out []verifC17XSvc
	for i := 0; i < n; i++ {
		name := rapid.SampledFrom(append([]string{"*", "*"}, verifC17XNames...)).Draw(t, "export-name")
		out = append(out, verifC17XSvc{Name: name, Consumers: verifC17XGenConsumers(t)})
	}
	return out
}

func verifC17XGenOp(t *rapid.T, st *verifC17XState) verifC17XOp {
	k := rapid.IntRange(0, 19).Draw(t, "opkind")
	switch {
	case k < 7:
		var prev []verifC17XSvc
		if st.has {
			prev = st.export
		}
		return verifC17XOp{Kind: "x-export", Export: verifC17XGenExport(t, prev, st.c)}
	case k < 8:
		return verifC17XOp{Kind: "x-export-delete"}
	case k < 13:
		names := make([]string, 0, len(verifC17XKinds))
		for n := range verifC17XKinds {
			names = append(names, n)
		}
		sort.Strings(names)
		svc := rapid.SampledFrom(names).Draw(t, "svc")
		peer := ""
		if rapid.IntRange(0, 5).Draw(t, "imported") == 0 {
			peer = rapid.SampledFrom([]string{"p1", "p2"}).Draw(t, "from-peer")
		}
		return verifC17XOp{Kind: "x-reg", Peer: peer, Node: rapid.SampledFrom([]string{"n1", "n2"}).Draw(t, "node"), Service: svc,
			ID: svc + "-" + rapid.SampledFrom([]string{"1", "2"}).Draw(t, "idn")}
	case k < 15:
		keys := make([]string, 0, len(st.insts))
		for key := range st.insts {
			keys = append(keys, key)
		}
		sort.Strings(keys)
		if len(keys) == 0 {
			return verifC17XOp{Kind: "x-dereg-node", Node: "n1"}
		}
		key := rapid.SampledFrom(keys).Draw(t, "inst")
		p := strings.SplitN(key, "/", 2)
		if rapid.IntRange(0, 4).Draw(t, "whole-node") == 0 {
			return verifC17XOp{Kind: "x-dereg-node", Node: p[0]}
		}
		return verifC17XOp{Kind: "x-dereg", Node: p[0], ID: p[1]}
	case k < 19:
		kind := rapid.SampledFrom([]string{structs.ServiceResolver, structs.ServiceResolver, structs.ServiceSplitter, structs.ServiceRouter, structs.ServiceDefaults}).Draw(t, "chain-kind")
		name := rapid.SampledFrom(verifC17XNames).Draw(t, "chain-name")
		return verifC17XOp{Kind: "x-chain", ChainKind: kind, Name: name, Delete: st.chains[kind+"/"+name] && rapid.Bool().Draw(t, "chain-delete")}
	default:
		return verifC17XOp{Kind: "x-tgw", Linked: rapid.SliceOfDistinct(rapid.SampledFrom([]string{"db", "api", "consul"}), func(s string) string { return s }).Draw(t, "linked")}
	}
}

func TestVerifC17Export(t *testing.T) {
	rec := verifkit.For("C17")
	defer rec.Flush()
	maxOps := 14
	if verifkit.Thorough() {
		maxOps = 24
	}
	rapid.Check(t, func(t *rapid.T) {
		c := rec.NewCase()
		defer c.GuardPanic(t, "C17/panic")
		c.Label("side=export")
		st := verifC17XNewState(c)
		run := func(op verifC17XOp) {
			c.Op(op)
			verifC17XStep(t, st, op)
		}
		run(verifC17XOp{Kind: "x-peering", Peer: "p1"})
		run(verifC17XOp{Kind: "x-peering", Peer: "p2"})
		if rapid.Bool().Draw(t, "third-peering") {
			run(verifC17XOp{Kind: "x-peering", Peer: "p3"})
		}
		// a small local catalog first, so that wildcards and exact names meet existing services
		for i, k := 0, rapid.IntRange(0, 3).Draw(t, "nearly"); i < k; i++ {
			svc := rapid.SampledFrom([]string{"web", "api", "db", "consul", "web-proxy"}).Draw(t, "early-svc")
			run(verifC17XOp{Kind: "x-reg", Node: rapid.SampledFrom([]string{"n1", "n2"}).Draw(t, "node"), Service: svc, ID: svc + "-1"})
		}
		n := rapid.IntRange(3, maxOps).Draw(t, "nops")
		for i := 0; i < n; i++ {
			run(verifC17XGenOp(t, st))
		}
		c.Done()
	})
}

func TestVerifC17ExportReplay(t *testing.T) {
	rec := verifkit.For("C17")
	defer rec.Flush()
	for _, path := range verifkit.ReplayFiles("C17") {
		rp, err := verifkit.LoadReplay(path)
		if err != nil {
			t.Fatalf("%v", err)
		}
		if len(rp.Ops) == 0 {
			continue
		}
		var probe struct {
			Kind string `json:"kind"`
		}
		if err := json.Unmarshal(rp.Ops[0], &probe); err != nil || !strings.HasPrefix(probe.Kind, "x-") {
			continue // a replay of the importing-side check (package peerstream)
		}
		t.Run(filepath.Base(path), func(t *testing.T) {
			t.Logf("replaying %s (%d ops)", path, len(rp.Ops))
			c := rec.NewCase()
			c.Label("replay")
			defer c.GuardPanic(t, "C17/panic")
			st := verifC17XNewState(c)
			for _, raw := range rp.Ops {
				var op verifC17XOp
				if err := json.Unmarshal(raw, &op); err != nil {
					t.Fatalf("%s: %v", path, err)
				}
				c.Op(op)
				verifC17XStep(t, st, op)
			}
			c.Done()
		})
	}
}
