package state_test

// C06 — thorough tier only: a sample of (query, write) pairs is additionally driven through the REAL
// blockingquery.Query loop with a stub FSMServer. The history prefix is replayed on a fresh store, the query is
// started with MinQueryIndex = i0 (the index it reported before the write), the harness waits until the loop has
// evaluated the query once (so it is blocked, or about to block, on the pre-state watch set), applies the write and
// waits for the loop to return.
//
// Verdicts: a loop that returns must carry an index > i0 and the post-write result (deterministic, no timing).
// A loop that does NOT return within 200 ms is only classified: it confirms a store-level failure that was already
// reported (label loop:confirms-missed-change) or it is logged (loop:timeout-unconfirmed); no verdict depends on the
// timeout alone.

import (
	"fmt"
	"time"

	"github.com/hashicorp/consul/agent/blockingquery"
	"github.com/hashicorp/consul/agent/consul/state"
	"github.com/hashicorp/consul/agent/structs"
	vs "github.com/hashicorp/consul/internal/verifstate"
	memdb "github.com/hashicorp/go-memdb"
)

type verifC06FSM struct {
	s        *state.Store
	shutdown chan struct{}
	blocking uint64
}

func (x *verifC06FSM) ConsistentRead() error                 { return nil }
func (x *verifC06FSM) DecrementBlockingQueries() uint64      { x.blocking--; return x.blocking }
func (x *verifC06FSM) IncrementBlockingQueries() uint64      { x.blocking++; return x.blocking }
func (x *verifC06FSM) GetShutdownChannel() chan struct{}     { return x.shutdown }
func (x *verifC06FSM) GetState() *state.Store                { return x.s }
func (x *verifC06FSM) RPCQueryTimeout(time.Duration) time.Duration { return 10 * time.Minute }
func (x *verifC06FSM) SetQueryMeta(m blockingquery.ResponseMeta, _ string) {
	// agent/consul/rpc.go Server.SetQueryMeta (leader part): always a non-zero index
	m.SetLastContact(0)
	m.SetKnownLeader(true)
	if m.GetIndex() < 1 {
		m.SetIndex(1)
	}
}

func (m *verifC06Machine) loop(qi int, op *vs.Op, storeLevelFailed bool) {
	f, c := m.f, m.c
	if storeLevelFailed {
		// a confirmation costs the full 200 ms wait: one per case, in a tenth of the steps (deterministic choice)
		if m.confirmed || op.Idx%10 != 0 {
			return
		}
		m.confirmed = true
	}
	q := m.panel[qi]
	s2 := verifC06NewStore(f)
	for _, o := range m.ops[:len(m.ops)-1] {
		vs.Apply(s2, o)
	}
	o0, err := q.Run(s2, memdb.NewWatchSet())
	if err != nil || o0.NoIdx {
		return
	}
	i0 := verifC06Clamp(o0.Idx)
	srv := &verifC06FSM{s: s2, shutdown: make(chan struct{})}
	opts := &structs.QueryOptions{MinQueryIndex: i0, MaxQueryTime: 10 * time.Minute}
	meta := &structs.QueryMeta{}
	ranOnce := make(chan struct{})
	runs := 0
	var last verifC06Obs
	done := make(chan error, 1)
	go func() {
		done <- blockingquery.Query(srv, opts, meta, func(ws memdb.WatchSet, s *state.Store) error {
			o, err := q.Run(s, ws)
			runs++
			last = o
			if runs == 1 {
				close(ranOnce)
			}
			if err != nil {
				return err
			}
			if o.NoIdx {
				return structs.ErrQueryNotFound
			}
			meta.Index = o.Idx
			if o.NotFound {
				return blockingquery.ErrNotFound
			}
			return nil
		})
	}()
	select {
	case <-ranOnce:
	case <-time.After(20 * time.Second):
		c.Label("loop:never-started")
		close(srv.shutdown)
		return
	}
	vs.Apply(s2, op)
	want := m.cur[qi].obs
	select {
	case err := <-done:
		switch {
		case want.NoIdx:
			c.Label("loop:returned-error-on-change")
			if err == nil {
				c.Violation(f, "C06/loop/"+q.Fam+"/no-error-after-change", "%s around %q: the endpoint answer became an error but the blocking query returned index %d without one", q.Name, op.Desc, meta.Index)
			}
		case err != nil:
			c.Violation(f, "C06/loop/"+q.Fam+"/error", "%s around %q: blocking query failed: %v", q.Name, op.Desc, err)
		case meta.Index <= i0:
			c.Violation(f, "C06/loop/"+q.Fam+"/returned-without-larger-index", "%s around %q: blocking query at index %d returned with index %d", q.Name, op.Desc, i0, meta.Index)
		case last.Res != want.Res:
			c.Violation(f, "C06/loop/"+q.Fam+"/returned-other-result", "%s around %q: blocking query returned a result that is not the post-write result\n   %s", q.Name, op.Desc, verifC06Diff(want.Res, last.Res))
		default:
			c.Label("loop:returned-on-change")
		}
	case <-time.After(200 * time.Millisecond):
		if storeLevelFailed {
			c.Label("loop:confirms-missed-change")
		} else {
			c.Label("loop:timeout-unconfirmed")
			fmt.Printf("C06 loop (not a verdict): %s around %q did not return within 200ms although the store-level implication held\n", q.Name, op.Desc)
		}
		close(srv.shutdown)
		<-done
	}
}
