package state_test

// C06 — a sample of (query, write) pairs is additionally driven through the REAL blockingquery.Query loop with a
// stub FSMServer, deterministically: the whole experiment runs inside a testing/synctest bubble.
//
// The history prefix is replayed on a fresh store (created inside the bubble, so that every memdb watch channel
// belongs to it). Goroutine G calls blockingquery.Query with MinQueryIndex = i0 (the index the query reported
// before the write) and a huge MaxQueryTime. synctest.Wait() returns when every goroutine of the bubble is durably
// blocked, i.e. G sits in WatchSet.WatchCtx on the pre-write watch set (or has already returned). The harness
// applies the write and calls synctest.Wait() again: now "G has not returned" is an exact observation, not a
// timeout. Then the stub's shutdown channel is closed (it is the parent context of the loop) and G is collected.
//
// Verdicts (all deterministic):
//   - result changed, the store-level implication held, G still blocked  => C06/blocked-query-not-woken/<family>/<write>
//   - G returned without error but with index <= i0, or with a result that is not the post-write result
//   - the endpoint answer became an error and G returned without one
// A G that stays blocked where the store-level implication already failed (reported / known) only confirms it.
//
// Queries that answer "not found" return the sentinel the endpoints use (blockingquery.ErrNotFound with the index
// set), so the transitions found -> deleted and missing -> created go through the loop's not-found bookkeeping.

import (
	"testing"
	"testing/synctest"
	"time"

	"github.com/hashicorp/consul/agent/blockingquery"
	"github.com/hashicorp/consul/agent/consul/state"
	"github.com/hashicorp/consul/agent/structs"
	"github.com/hashicorp/consul/internal/verifkit"
	vs "github.com/hashicorp/consul/internal/verifstate"
	memdb "github.com/hashicorp/go-memdb"
	"pgregory.net/rapid"
)

type verifC06FSM struct {
	s        *state.Store
	shutdown chan struct{}
	blocking uint64
}

func (x *verifC06FSM) ConsistentRead() error                       { return nil }
func (x *verifC06FSM) DecrementBlockingQueries() uint64            { x.blocking--; return x.blocking }
func (x *verifC06FSM) IncrementBlockingQueries() uint64            { x.blocking++; return x.blocking }
func (x *verifC06FSM) GetShutdownChannel() chan struct{}           { return x.shutdown }
func (x *verifC06FSM) GetState() *state.Store                      { return x.s }
func (x *verifC06FSM) RPCQueryTimeout(time.Duration) time.Duration { return 1000 * time.Hour }
func (x *verifC06FSM) SetQueryMeta(m blockingquery.ResponseMeta, _ string) {
	// agent/consul/rpc.go Server.SetQueryMeta (leader part): always a non-zero index
	m.SetLastContact(0)
	m.SetKnownLeader(true)
	if m.GetIndex() < 1 {
		m.SetIndex(1)
	}
}

// verifC06InBubble runs body inside a synctest bubble, whatever kind of test drives the machine.
func verifC06InBubble(f verifkit.F, body func(f verifkit.F)) {
	switch t := f.(type) {
	case *rapid.T:
		rapid.SyncTest(t, func(rt *rapid.T) { body(rt) })
	case *testing.T:
		synctest.Test(t, func(st *testing.T) { body(st) })
	default:
		f.Fatalf("C06 loop: unsupported test driver %T", f)
	}
}

// loop drives query qi around the last applied write through blockingquery.Query.
func (m *verifC06Machine) loop(qi int, op *vs.Op, storeLevelFailed bool) {
	c := m.c
	q := m.panel[qi]
	want := m.cur[qi].obs // post-write observation on the main store
	wk := verifC06WriteKind(op)
	prefix := m.ops[:len(m.ops)-1]
	verifC06InBubble(m.f, func(f verifkit.F) {
		s2 := verifC06NewStore(f)
		for _, o := range prefix {
			vs.C06Apply(s2, o)
		}
		o0, err := q.Run(s2, memdb.NewWatchSet())
		if err != nil || o0.NoIdx {
			return
		}
		i0 := verifC06Clamp(o0.Idx)
		srv := &verifC06FSM{s: s2, shutdown: make(chan struct{})}
		opts := &structs.QueryOptions{MinQueryIndex: i0, MaxQueryTime: 1000 * time.Hour}
		meta := &structs.QueryMeta{}
		var last verifC06Obs
		done := make(chan error, 1)
		go func() {
			done <- blockingquery.Query(srv, opts, meta, func(ws memdb.WatchSet, s *state.Store) error {
				o, err := q.Run(s, ws)
				last = o
				if err != nil {
					return err
				}
				if o.NoIdx {
					return structs.ErrQueryNotFound
				}
				meta.Index = o.Idx
				if o.NotFound {
					return blockingquery.ErrNotFound
				}
				return nil
			})
		}()
		synctest.Wait() // G evaluated the pre-write state and is parked on its watch set
		select {
		case err := <-done:
			// nothing changed yet: a return here means the loop does not block on an unchanged index
			c.Violation(f, "C06/loop/"+q.Fam+"/returned-before-write", "%s: blocking query at index %d returned before any write (index %d, err %v)", q.Name, i0, meta.Index, err)
			return
		default:
		}
		vs.C06Apply(s2, op)
		synctest.Wait() // every goroutine of the bubble is durably blocked: G returned, or it will not without another write
		transition := "changed"
		if want.NotFound && !o0.NotFound {
			transition = "found-to-deleted"
		} else if !want.NotFound && o0.NotFound {
			transition = "missing-to-created"
		}
		select {
		case err := <-done:
			switch {
			case want.NoIdx:
				c.Label("loop:returned-error-on-change")
				if err == nil {
					c.Violation(f, "C06/loop/"+q.Fam+"/no-error-after-change", "%s around %q: the endpoint answer became an error but the blocking query returned index %d without one", q.Name, op.Desc, meta.Index)
				}
			case err != nil:
				c.Violation(f, "C06/loop/"+q.Fam+"/error", "%s around %q: blocking query failed: %v", q.Name, op.Desc, err)
			case meta.Index <= i0:
				c.Violation(f, "C06/loop/"+q.Fam+"/returned-without-larger-index", "%s around %q: blocking query at index %d returned with index %d", q.Name, op.Desc, i0, meta.Index)
			case last.Res != want.Res:
				c.Violation(f, "C06/loop/"+q.Fam+"/returned-other-result", "%s around %q: blocking query returned a result that is not the post-write result\n   %s", q.Name, op.Desc, verifC06Diff(want.Res, last.Res))
			default:
				c.Label("loop:returned-on-change")
				c.Label("loop:returned:" + transition)
			}
		default:
			// G is still blocked although the result changed
			close(srv.shutdown)
			<-done
			if storeLevelFailed {
				c.Label("loop:confirms-missed-change")
				return
			}
			c.Violation(f, "C06/blocked-query-not-woken/"+q.Fam+"/"+wk,
				"%s around %q (%s): the store-level contract held (index %d -> %d, watch fired) but a client blocked in blockingquery.Query with MinQueryIndex=%d is not answered; last index seen by the loop %d",
				q.Name, op.Desc, transition, i0, verifC06Clamp(want.Idx), i0, meta.Index)
		}
	})
}
