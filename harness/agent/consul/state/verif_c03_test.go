package state_test

// C03 — The KV store behaves as a sequential versioned map.
//
// A rapid state machine (verif_shared_kvmachine_test.go) applies generated histories (KV verbs direct and
// inside transactions, session create/destroy, tombstone reaps, node/check (de)registration that ends
// sessions) to a real Store and, in lock-step, to the reference model verifstate.KVModel. After EVERY step:
// the reported verdict equals the model's, every key of the universe reads back equal to the model (all six
// fields), every prefix listing equals the model's prefix view in order, plus the statement's explicit clauses.

import (
	"os"
	"testing"

	"github.com/hashicorp/consul/agent/structs"
	"github.com/hashicorp/consul/internal/verifkit"
	vs "github.com/hashicorp/consul/internal/verifstate"
	"pgregory.net/rapid"
)

var verifC03Cfg = &vs.Cfg{KV: 50, Session: 14, Reap: 4, Catalog: 10, Dereg: 5, Txn: 30, TxnRO: 3, SessionChecks: true, MaxTxnOps: 5}

func TestVerifC03Model(t *testing.T) {
	rec := verifkit.For("C03")
	defer rec.Flush()
	maxSteps := verifkit.EnvInt("VERIF_C03_STEPS", 40)
	rapid.Check(t, func(t *rapid.T) {
		c := rec.NewCase()
		n := rapid.IntRange(1, maxSteps).Draw(t, "steps")
		verifKVRun("C03", t, c, nil, func(x *verifKVMachine, i int) *vs.Op {
			if i >= n {
				return nil
			}
			return x.w.DrawOp(t, verifC03Cfg)
		})
		c.Done()
	})
}

// verifC03Witnesses are fixed minimal histories of the recorded findings (run in the replay tier).
func verifC03Witnesses() map[string][]*vs.Op {
	sess := vs.SessionPool(1)[0]
	reg := &structs.RegisterRequest{Datacenter: "dc1", Node: "n1", ID: vs.NodeIDs["n1"], Address: "10.0.0.1"}
	return map[string][]*vs.Op{
		"witness-plain-write-resets-lock-index": {
			vs.NewRegister(11, reg),
			vs.NewSessCreate(12, &structs.Session{ID: sess, Node: "n1", Behavior: structs.SessionKeysRelease}),
			vs.NewKV(vs.KVLock, 13, "a", []byte("v1"), 0, 0, sess),
			vs.NewKV(vs.KVSet, 14, "a", []byte("v2"), 0, 0, ""),
			vs.NewKV(vs.KVUnlock, 15, "a", []byte("v2"), 0, 0, sess),
			vs.NewKV(vs.KVLock, 16, "a", []byte("v2"), 0, 0, sess),
		},
	}
}

// TestVerifC03Replay re-executes saved histories (and the fixed witnesses) without rapid.
func TestVerifC03Replay(t *testing.T) {
	rec := verifkit.For("C03")
	defer rec.Flush()
	if os.Getenv("VERIF_REPLAY") == "" {
		for name, ops := range verifC03Witnesses() {
			c := rec.NewCase()
			c.Label("witness:" + name)
			verifKVRun("C03", t, c, nil, verifOpsFeeder(ops))
			c.Done()
		}
	}
	for _, path := range verifkit.ReplayFiles("C03") {
		c := rec.NewCase()
		c.Label("replay")
		verifKVRun("C03", t, c, nil, verifOpsFeeder(verifLoadOps(t, path)))
		c.Done()
	}
}
