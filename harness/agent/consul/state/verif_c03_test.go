package state_test

// C03 — The KV store behaves as a sequential versioned map.
//
// A rapid state machine applies generated histories (KV verbs direct and inside transactions, session
// create/destroy, tombstone reaps, node/check (de)registration that ends sessions) to a real Store and, in
// lock-step, to the 150-line reference model of verifstate.KVModel. After EVERY step: the reported verdict
// equals the model's, every key of the universe reads back equal to the model (all six fields), every prefix
// listing equals the model's prefix view in order, plus the statement's explicit clauses.

import (
	"bytes"
	"encoding/json"
	"fmt"
	"os"
	"sort"
	"testing"

	"github.com/hashicorp/consul/agent/consul/state"
	"github.com/hashicorp/consul/agent/structs"
	"github.com/hashicorp/consul/api"
	"github.com/hashicorp/consul/internal/verifkit"
	vs "github.com/hashicorp/consul/internal/verifstate"
	"pgregory.net/rapid"
)

// verifC03KeyLockIndexReset: a plain set / check-and-set on a key whose lock counter is N > 0 stores counter 0
// (kvsSetTxn keeps the holder but takes LockIndex from the request). Upstream's own unedited test
// TestStateStore_KVSSetCAS pins a ModifyIndex that only results from that reset, so it cannot be repaired
// without editing the suite: recorded as a known finding.
const verifC03KeyLockIndexReset = "C03/plain-write-resets-lock-index"

type verifC03Machine struct {
	f     verifkit.F
	c     *verifkit.Case
	w     *vs.World
	m     *vs.KVModel
	lastDeleted map[string]bool // keys deleted at some point (for the non-triviality rule)
}

func verifC03New(f verifkit.F, c *verifkit.Case) *verifC03Machine {
	s := state.NewStateStore(nil)
	m := vs.NewKVModel()
	if verifkit.For("C03").IsKnown(verifC03KeyLockIndexReset) {
		// known finding excluded by construction: the model follows the defective behaviour and counts each time it matters
		m.QuirkPlainWriteResetsLockIndex = true
		m.OnQuirk = func() { c.KnownHit(verifC03KeyLockIndexReset); c.Label("known:plain-write-resets-lock-index") }
	}
	return &verifC03Machine{f: f, c: c, w: vs.NewWorld(s), m: m, lastDeleted: map[string]bool{}}
}

var verifC03Cfg = &vs.Cfg{KV: 50, Session: 14, Reap: 4, Catalog: 10, Dereg: 5, Txn: 30, TxnRO: 3, SessionChecks: true, MaxTxnOps: 5}

// syncSessions makes the model's session set equal to the store's: sessions are an INPUT of the KV model
// (who is alive), their effect on keys (release/delete) is what the model predicts.
func (x *verifC03Machine) syncSessions(idx uint64) (ended []string) {
	live := map[string]*structs.Session{}
	_, ss, _ := x.w.Store.SessionList(nil, nil)
	for _, s := range ss {
		live[s.ID] = s
	}
	var ids []string
	for id := range x.m.Sess {
		if live[id] == nil {
			ids = append(ids, id)
		}
	}
	sort.Strings(ids)
	for _, id := range ids {
		x.m.SessionEnded(idx, id)
		ended = append(ended, id)
	}
	for id, s := range live {
		if x.m.Sess[id] == nil {
			x.m.Sess[id] = &vs.MSess{ID: id, Behavior: string(s.Behavior), Node: s.Node}
		}
	}
	return ended
}

func (x *verifC03Machine) step(op *vs.Op) {
	f, c := x.f, x.c
	before := map[string]*vs.MEntry{}
	for k, e := range x.m.KV {
		ce := *e
		before[k] = &ce
	}
	res := vs.Apply(x.w.Store, op)
	p := op.P
	idx := op.Idx
	c.Labelf("op=%s", op.Kind)

	check := func(v vs.Verdict) {
		gotErr := res.Err != nil
		if gotErr != v.Err || (!gotErr && res.OK != v.OK) {
			c.Violation(f, "C03/verdict/"+op.Kind, "op %s: store reported %s, model expects ok=%v err=%v", op.Desc, res, v.OK, v.Err)
		}
	}
	switch op.Kind {
	case vs.KVSet:
		check(x.m.Set(idx, p.KV.Key, p.KV.Value, p.KV.Flags))
	case vs.KVCAS:
		check(x.m.CAS(idx, p.KV.Key, p.KV.Value, p.KV.Flags, p.KV.ModifyIndex))
	case vs.KVDelete:
		check(x.m.Delete(idx, p.KV.Key))
	case vs.KVDeleteCAS:
		check(x.m.DeleteCAS(idx, p.KV.Key, p.CASIndex))
	case vs.KVDeleteTree:
		check(x.m.DeleteTree(idx, p.KV.Key))
	case vs.KVLock:
		check(x.m.Lock(idx, p.KV.Key, p.KV.Value, p.KV.Flags, p.KV.Session))
	case vs.KVUnlock:
		check(x.m.Unlock(idx, p.KV.Key, p.KV.Value, p.KV.Flags, p.KV.Session))
	case vs.Txn, vs.TxnRO:
		x.stepTxn(op, res)
	case vs.Reap:
		// tombstones are invisible to get/list content
	default:
		// session / catalog ops: no direct KV effect; session endings are picked up below
	}
	if ended := x.syncSessions(idx); len(ended) > 0 {
		c.Label("session-ended")
		if op.Kind != vs.SessDestroy {
			c.Label("session-ended-by-cascade")
		}
	}
	x.compare(op, before)
}

func (x *verifC03Machine) stepTxn(op *vs.Op, res vs.Result) {
	f, c := x.f, x.c
	mc := x.m.Clone()
	var failed []int
	var expectReads [][]string
	var expectSnap [][]*vs.MEntry // model entries right after the op ran (results reflect the state at op time)
	for i, t := range op.P.Txn {
		if t.KV == nil {
			// catalog/session verbs inside a txn: not modelled here (C04/C05 cover them); their KV side effects
			// arrive through syncSessions. A failing catalog verb aborts the txn: detect through the result.
			expectReads = append(expectReads, nil)
			expectSnap = append(expectSnap, nil)
			continue
		}
		ok, reads := mc.TxnKV(op.Idx, t.KV)
		if !ok {
			failed = append(failed, i)
		}
		expectReads = append(expectReads, reads)
		var snap []*vs.MEntry
		for _, k := range reads {
			if e := mc.KV[k]; e != nil {
				ce := *e
				snap = append(snap, &ce)
			} else {
				snap = append(snap, nil)
			}
		}
		expectSnap = append(expectSnap, snap)
	}
	hasNonKV := false
	for _, t := range op.P.Txn {
		hasNonKV = hasNonKV || t.KV == nil
	}
	gotFailed := map[int]bool{}
	for _, e := range res.Errors {
		gotFailed[e.OpIndex] = true
	}
	for _, i := range failed {
		if !gotFailed[i] {
			c.Violation(f, "C03/txn-verb-should-fail/"+string(op.P.Txn[i].KV.Verb), "txn %s: op #%d (%s) must fail per model but store reported %s", op.Desc, i, vs.DescribeTxnOp(op.P.Txn[i]), res)
			return
		}
	}
	for i := range gotFailed {
		if i < len(op.P.Txn) && op.P.Txn[i].KV != nil {
			isModelFail := false
			for _, j := range failed {
				isModelFail = isModelFail || j == i
			}
			if !isModelFail {
				c.Violation(f, "C03/txn-verb-should-succeed/"+string(op.P.Txn[i].KV.Verb), "txn %s: op #%d (%s) failed in store (%s) but model accepts it", op.Desc, i, vs.DescribeTxnOp(op.P.Txn[i]), res)
				return
			}
		}
	}
	if len(res.Errors) > 0 {
		c.Label("txn-aborted")
		return // nothing applied; model unchanged
	}
	if op.Kind == vs.TxnRO {
		c.Label("txn-ro-ok")
	} else {
		c.Label("txn-committed")
		if len(op.P.Txn) > 1 {
			c.Label("txn-multi-committed")
		}
		*x.m = *mc
	}
	// compare KV results with the model for pure-KV transactions (result positions are then predictable)
	if hasNonKV {
		return
	}
	var want []string // expected result keys in order
	var wantE []*vs.MEntry
	var wantVerb []api.KVOp
	for i, t := range op.P.Txn {
		switch t.KV.Verb {
		case api.KVDelete, api.KVDeleteCAS, api.KVDeleteTree, api.KVCheckNotExists:
			continue
		}
		want = append(want, expectReads[i]...)
		wantE = append(wantE, expectSnap[i]...)
		for range expectReads[i] {
			wantVerb = append(wantVerb, t.KV.Verb)
		}
	}
	if len(res.Results) != len(want) {
		c.Violation(f, "C03/txn-result-count", "txn %s: %d results, model expects %d (%v)", op.Desc, len(res.Results), len(want), want)
		return
	}
	for i, r := range res.Results {
		if r.KV == nil {
			c.Violation(f, "C03/txn-result-kind", "txn %s: result #%d is not a KV result", op.Desc, i)
			return
		}
		if r.KV.Key != want[i] {
			c.Violation(f, "C03/txn-result-key", "txn %s: result #%d has key %q, model expects %q", op.Desc, i, r.KV.Key, want[i])
			return
		}
		me := wantE[i]
		if me == nil {
			continue // get-or-empty of an absent key
		}
		bad := r.KV.ModifyIndex != me.Modify || r.KV.CreateIndex != me.Create || r.KV.LockIndex != me.LockIndex || r.KV.Session != me.Session || r.KV.Flags != me.Flags
		switch wantVerb[i] {
		case api.KVGet, api.KVGetOrEmpty, api.KVGetTree:
			bad = bad || !bytes.Equal(r.KV.Value, me.Value)
		}
		if bad {
			if c.Violation(f, "C03/txn-result-content", "txn %s: result #%d %s differs from model %+v", op.Desc, i, vs.CanonJSON(r.KV), *me) {
				continue
			}
			return
		}
	}
}

// compare reads every key and every prefix back and checks the statement's explicit clauses.
func (x *verifC03Machine) compare(op *vs.Op, before map[string]*vs.MEntry) {
	f, c := x.f, x.c
	s := x.w.Store
	for _, k := range vs.Keys {
		_, got, err := s.KVSGet(nil, k, nil)
		if err != nil {
			c.Violation(f, "C03/get-error", "KVSGet(%q): %v", k, err)
			continue
		}
		if d := x.m.CompareEntry(k, got); d != "" {
			key := "C03/state/" + x.m.FirstDiffField(k, got) + "/after=" + op.Kind
			if me := x.m.KV[k]; me != nil && got != nil && got.LockIndex == 0 && me.LockIndex > 0 && got.Session == me.Session &&
				(op.Kind == vs.KVSet || op.Kind == vs.KVCAS || op.Kind == vs.Txn) {
				key = verifC03KeyLockIndexReset
			}
			if c.Violation(f, key, "after %s: %s", op.Desc, d) {
				x.m.AdoptEntry(k, got)
			}
			continue
		}
		// explicit clauses of the statement, asserted directly on the store's data
		if b := before[k]; b != nil && got != nil && op.Kind != vs.Txn {
			if got.CreateIndex != b.Create {
				c.Violation(f, "C03/create-index-changed", "after %s: key %q CreateIndex %d -> %d while the key existed", op.Desc, k, b.Create, got.CreateIndex)
			}
			same := bytes.Equal(b.Value, got.Value) && b.Flags == got.Flags && b.Session == got.Session && b.LockIndex == got.LockIndex
			if same && got.ModifyIndex != b.Modify {
				c.Violation(f, "C03/noop-advanced-modify-index", "after %s: key %q unchanged but ModifyIndex %d -> %d", op.Desc, k, b.Modify, got.ModifyIndex)
			}
			if !same && got.ModifyIndex != op.Idx {
				c.Violation(f, "C03/change-without-modify-index", "after %s: key %q changed but ModifyIndex=%d, step index=%d", op.Desc, k, got.ModifyIndex, op.Idx)
			}
			if got.LockIndex != b.LockIndex {
				fresh := b.Session == "" && got.Session != ""
				quirk := x.m.QuirkPlainWriteResetsLockIndex && got.LockIndex == 0 && (op.Kind == vs.KVSet || op.Kind == vs.KVCAS) // known finding, counted by the model
				if !(fresh && got.LockIndex == b.LockIndex+1) && !quirk {
					c.Violation(f, "C03/lock-index", "after %s: key %q LockIndex %d -> %d (holder %q -> %q)", op.Desc, k, b.LockIndex, got.LockIndex, b.Session, got.Session)
				}
			} else if b.Session == "" && got.Session != "" {
				c.Violation(f, "C03/lock-index", "after %s: key %q freshly acquired but LockIndex stayed %d", op.Desc, k, got.LockIndex)
			}
		}
	}
	for _, pfx := range vs.Prefixes {
		_, ents, err := s.KVSList(nil, pfx, nil)
		if err != nil {
			c.Violation(f, "C03/list-error", "KVSList(%q): %v", pfx, err)
			continue
		}
		want := x.m.Keys(pfx)
		var got []string
		for _, e := range ents {
			got = append(got, e.Key)
		}
		if fmt.Sprint(got) != fmt.Sprint(want) {
			c.Violation(f, "C03/list-keys", "after %s: KVSList(%q) keys %q, model %q", op.Desc, pfx, got, want)
			continue
		}
		for _, e := range ents {
			if d := x.m.CompareEntry(e.Key, e); d != "" {
				c.Violation(f, "C03/list-content", "after %s: KVSList(%q): %s", op.Desc, pfx, d)
			}
		}
	}
	// non-triviality bookkeeping
	for k := range before {
		if x.m.KV[k] == nil {
			x.lastDeleted[k] = true
		}
	}
	for k := range x.m.KV {
		if before[k] == nil && x.lastDeleted[k] {
			c.Label("recreate-after-delete")
			c.NonTrivial()
		}
	}
	switch op.Kind {
	case vs.KVCAS, vs.KVDeleteCAS:
		if x.lastDeleted[op.P.KV.Key] {
			c.Label("cas-after-delete")
			c.NonTrivial()
		}
	case vs.KVSet:
		if b := before[op.P.KV.Key]; b != nil && b.Session != "" {
			c.Label("set-on-locked-key")
			c.NonTrivial()
		}
	case vs.KVLock:
		if op.P.KV.Session != "" && x.m.Sess[op.P.KV.Session] == nil {
			c.Label("lock-with-dead-session")
			c.NonTrivial()
		}
	}
}

func verifC03Run(f verifkit.F, c *verifkit.Case, next func(x *verifC03Machine, i int) *vs.Op) {
	x := verifC03New(f, c)
	defer c.GuardPanic(f, "C03/panic")
	for i := 0; ; i++ {
		op := next(x, i)
		if op == nil {
			break
		}
		c.Op(op)
		x.step(op)
	}
}

func TestVerifC03Model(t *testing.T) {
	rec := verifkit.For("C03")
	defer rec.Flush()
	maxSteps := verifkit.EnvInt("VERIF_C03_STEPS", 40)
	rapid.Check(t, func(t *rapid.T) {
		c := rec.NewCase()
		n := rapid.IntRange(1, maxSteps).Draw(t, "steps")
		verifC03Run(t, c, func(x *verifC03Machine, i int) *vs.Op {
			if i >= n {
				return nil
			}
			return x.w.DrawOp(t, verifC03Cfg)
		})
		c.Done()
	})
}

// verifC03Witnesses are fixed minimal histories of the recorded findings (run in the replay tier).
func verifC03Witnesses() map[string][]*vs.Op {
	sess := vs.SessionPool(1)[0]
	reg := &structs.RegisterRequest{Datacenter: "dc1", Node: "n1", ID: vs.NodeIDs["n1"], Address: "10.0.0.1"}
	return map[string][]*vs.Op{
		"witness-plain-write-resets-lock-index": {
			vs.NewRegister(11, reg),
			vs.NewSessCreate(12, &structs.Session{ID: sess, Node: "n1", Behavior: structs.SessionKeysRelease}),
			vs.NewKV(vs.KVLock, 13, "a", []byte("v1"), 0, 0, sess),
			vs.NewKV(vs.KVSet, 14, "a", []byte("v2"), 0, 0, ""),
			vs.NewKV(vs.KVUnlock, 15, "a", []byte("v2"), 0, 0, sess),
			vs.NewKV(vs.KVLock, 16, "a", []byte("v2"), 0, 0, sess),
		},
	}
}

// TestVerifC03Replay re-executes saved histories without rapid.
func TestVerifC03Replay(t *testing.T) {
	rec := verifkit.For("C03")
	defer rec.Flush()
	if len(verifkit.ReplayFiles("C03")) == 0 || os.Getenv("VERIF_REPLAY") == "" {
		for name, ops := range verifC03Witnesses() {
			c := rec.NewCase()
			c.Label("witness:" + name)
			verifC03Run(t, c, func(x *verifC03Machine, i int) *vs.Op {
				if i >= len(ops) {
					return nil
				}
				return ops[i]
			})
			c.Done()
		}
	}
	for _, path := range verifkit.ReplayFiles("C03") {
		rp, err := verifkit.LoadReplay(path)
		if err != nil {
			t.Fatal(err)
		}
		var ops []*vs.Op
		for _, raw := range rp.Ops {
			var op vs.Op
			if err := json.Unmarshal(raw, &op); err != nil {
				t.Fatalf("%s: %v", path, err)
			}
			ops = append(ops, op.Load())
		}
		c := rec.NewCase()
		c.Label("replay")
		verifC03Run(t, c, func(x *verifC03Machine, i int) *vs.Op {
			if i >= len(ops) {
				return nil
			}
			return ops[i]
		})
		c.Done()
	}
}
