package state_test

// C03 — The KV store behaves as a sequential versioned map.
//
// A rapid state machine (verif_shared_kvmachine_test.go) applies generated histories (KV verbs direct and
// inside transactions, session create/destroy, tombstone reaps, node/check (de)registration that ends
// sessions) to a real Store and, in lock-step, to the reference model verifstate.KVModel. After EVERY step:
// the reported verdict equals the model's, every key of the universe reads back equal to the model (all six
// fields), every prefix listing equals the model's prefix view in order, plus the statement's explicit clauses.

import (
	"os"
	"testing"

	"github.com/hashicorp/consul/agent/structs"
	"github.com/hashicorp/consul/internal/verifkit"
	kvm "github.com/hashicorp/consul/internal/verifkvm"
	vs "github.com/hashicorp/consul/internal/verifstate"
	"pgregory.net/rapid"
)

var verifC03Cfg = &vs.Cfg{KV: 50, Session: 14, Reap: 4, Catalog: 10, Dereg: 5, Txn: 30, TxnRO: 3, SessionChecks: true, MaxTxnOps: 5}

func TestVerifC03Model(t *testing.T) {
	rec := verifkit.For("C03")
	defer rec.Flush()
	maxSteps := verifkit.EnvInt("VERIF_C03_STEPS", 40)
	rapid.Check(t, func(t *rapid.T) {
		c := rec.NewCase()
		n := rapid.IntRange(1, maxSteps).Draw(t, "steps")
		kvm.Run("C03", t, c, nil, func(x *kvm.Machine, i int) *vs.Op {
			if i >= n {
				return nil
			}
			return x.W.DrawOp(t, verifC03Cfg)
		})
		c.Done()
	})
}

// verifC03Witnesses are fixed minimal histories of the recorded findings (run in the replay tier).
func verifC03Witnesses() map[string][]*vs.Op {
	sess := vs.SessionPool(1)[0]
	reg := &structs.RegisterRequest{Datacenter: "dc1", Node: "n1", ID: vs.NodeIDs["n1"], Address: "10.0.0.1"}
	return map[string][]*vs.Op{
		"witness-plain-write-resets-lock-index": {
			vs.NewRegister(11, reg),
			vs.NewSessCreate(12, &structs.Session{ID: sess, Node: "n1", Behavior: structs.SessionKeysRelease}),
			vs.NewKV(vs.KVLock, 13, "a", []byte("v1"), 0, 0, sess),
			vs.NewKV(vs.KVSet, 14, "a", []byte("v2"), 0, 0, ""),
			vs.NewKV(vs.KVUnlock, 15, "a", []byte("v2"), 0, 0, sess),
			vs.NewKV(vs.KVLock, 16, "a", []byte("v2"), 0, 0, sess),
		},
	}
}

// TestVerifC03Replay re-executes saved histories (and the fixed witnesses) without rapid.
func TestVerifC03Replay(t *testing.T) {
	rec := verifkit.For("C03")
	defer rec.Flush()
	if os.Getenv("VERIF_REPLAY") == "" {
		for name, ops := range verifC03Witnesses() {
			c := rec.NewCase()
			c.Label("witness:" + name)
			kvm.Run("C03", t, c, nil, kvm.OpsFeeder(ops))
			c.Done()
		}
	}
	for _, path := range verifkit.ReplayFiles("C03") {
		c := rec.NewCase()
		c.Label("replay")
		kvm.Run("C03", t, c, nil, kvm.OpsFeeder(kvm.LoadOps(t, path)))
		c.Done()
	}
}

// TestVerifC03Exhaustive enumerates EVERY history of up to VERIF_C03_EXH_LEN (default 4) operations from a
// symbolic alphabet over 3 prefix-related keys (set two values, create-only cas, cas/delete-cas with the current
// and with a stale index, delete, delete-tree of two prefixes, lock/unlock by two sessions, destroy of a session
// with release and with delete behaviour), resolved against the store at execution time, and runs each through
// the same model comparison. Sharded by the first operation.
func TestVerifC03Exhaustive(t *testing.T) {
	rec := verifkit.For("C03")
	defer rec.Flush()
	maxLen := verifkit.EnvInt("VERIF_C03_EXH_LEN", 4)
	shard, nshards := verifkit.EnvInt("VERIF_SHARD", 0), verifkit.EnvInt("VERIF_NSHARDS", 1)
	keys := []string{"a", "a/b", "ab"}
	pool := vs.SessionPool(2)
	type sym struct {
		name string
		mk   func(x *kvm.Machine, idx uint64) *vs.Op
	}
	var alphabet []sym
	cur := func(x *kvm.Machine, k string) uint64 {
		if e := x.W.KVEntry(k); e != nil {
			return e.ModifyIndex
		}
		return 0
	}
	for _, k := range keys {
		k := k
		alphabet = append(alphabet,
			sym{"set1:" + k, func(x *kvm.Machine, i uint64) *vs.Op { return vs.NewKV(vs.KVSet, i, k, []byte("v1"), 0, 0, "") }},
			sym{"set2:" + k, func(x *kvm.Machine, i uint64) *vs.Op { return vs.NewKV(vs.KVSet, i, k, []byte("v2"), 1, 0, "") }},
			sym{"cas0:" + k, func(x *kvm.Machine, i uint64) *vs.Op { return vs.NewKV(vs.KVCAS, i, k, []byte("v1"), 0, 0, "") }},
			sym{"cascur:" + k, func(x *kvm.Machine, i uint64) *vs.Op { return vs.NewKV(vs.KVCAS, i, k, []byte("v2"), 0, cur(x, k), "") }},
			sym{"casstale:" + k, func(x *kvm.Machine, i uint64) *vs.Op { return vs.NewKV(vs.KVCAS, i, k, []byte("v2"), 0, cur(x, k)+1, "") }},
			sym{"del:" + k, func(x *kvm.Machine, i uint64) *vs.Op { return vs.NewKV(vs.KVDelete, i, k, nil, 0, 0, "") }},
			sym{"delcascur:" + k, func(x *kvm.Machine, i uint64) *vs.Op { return vs.NewKV(vs.KVDeleteCAS, i, k, nil, 0, cur(x, k), "") }},
			sym{"lock0:" + k, func(x *kvm.Machine, i uint64) *vs.Op { return vs.NewKV(vs.KVLock, i, k, []byte("v1"), 0, 0, pool[0]) }},
			sym{"lock1:" + k, func(x *kvm.Machine, i uint64) *vs.Op { return vs.NewKV(vs.KVLock, i, k, []byte("v1"), 0, 0, pool[1]) }},
			sym{"unlock0:" + k, func(x *kvm.Machine, i uint64) *vs.Op { return vs.NewKV(vs.KVUnlock, i, k, []byte("v1"), 0, 0, pool[0]) }},
		)
	}
	alphabet = append(alphabet,
		sym{"deltree:a", func(x *kvm.Machine, i uint64) *vs.Op { return vs.NewKV(vs.KVDeleteTree, i, "a", nil, 0, 0, "") }},
		sym{"deltree:a/", func(x *kvm.Machine, i uint64) *vs.Op { return vs.NewKV(vs.KVDeleteTree, i, "a/", nil, 0, 0, "") }},
		sym{"destroy0", func(x *kvm.Machine, i uint64) *vs.Op { return vs.NewSessDestroy(i, pool[0]) }},
		sym{"destroy1", func(x *kvm.Machine, i uint64) *vs.Op { return vs.NewSessDestroy(i, pool[1]) }},
	)
	reg := &structs.RegisterRequest{Datacenter: "dc1", Node: "n1", ID: vs.NodeIDs["n1"], Address: "10.0.0.1"}
	prelude := []*vs.Op{
		vs.NewRegister(11, reg),
		vs.NewSessCreate(12, &structs.Session{ID: pool[0], Node: "n1", Behavior: structs.SessionKeysRelease}),
		vs.NewSessCreate(13, &structs.Session{ID: pool[1], Node: "n1", Behavior: structs.SessionKeysDelete}),
	}
	n := len(alphabet)
	var total int64
	seq := make([]int, 0, maxLen)
	var run func()
	run = func() {
		if len(seq) > 0 {
			c := rec.NewCase()
			names := make([]string, len(seq))
			for i, s := range seq {
				names[i] = alphabet[s].name
			}
			c.Op(names)
			c.Label("exhaustive")
			x := kvm.New("C03", t, c, nil)
			for _, op := range prelude {
				x.Step(op)
			}
			for i, s := range seq {
				x.Step(alphabet[s].mk(x, uint64(20+2*i)))
			}
			c.NonTrivial()
			c.Done()
			total++
		}
		if len(seq) == maxLen {
			return
		}
		for s := 0; s < n; s++ {
			if len(seq) == 0 && s%nshards != shard {
				continue
			}
			seq = append(seq, s)
			run()
			seq = seq[:len(seq)-1]
		}
	}
	run()
	rec.AddExtraInt("exhaustive_histories", total)
	rec.SetExtra("exhaustive_alphabet", n)
	rec.SetExtra("exhaustive_max_len", maxLen)
}
