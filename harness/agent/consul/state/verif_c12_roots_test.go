package state_test

// C12 (part c) — "At all times exactly one root is active and the root set is replaced atomically."
//
// Generated: histories of 3-10 CA commands on a fresh store: Store.CARootSetCAS called directly, and the raft commands
// CAOpSetRoots, CAOpSetRootsAndConfig, CAOpSetConfig through fsm.ApplyConnectCAOperationFromRequest (what the FSM runs
// for a committed ConnectCARequestType log entry). Root sets are either shaped as the leader shapes a rotation (copy
// of the stored roots, the active one retired, a new active root appended) or arbitrary sets over five IDs with 0, 1
// or 2 active roots (sometimes an empty ID); the supplied index is the current roots index, an earlier one, 0, or a
// future one; configuration updates carry the current, a stale or no ModifyIndex.
//
// Oracle after EVERY command (whole-store dumps taken before and after):
//   I1 the roots table is empty (only before the first accepted set) or holds exactly one root with Active == true;
//   I2 a set that is invalid (not exactly one active root, an empty ID) returns an error and changes nothing;
//   I3 a valid set whose index does not match changes NOTHING in the store (for the composite command: not the
//      configuration either) and does not report success;
//   I4 a valid, matching set reports success and the roots table is exactly the given set (IDs, Active flags,
//      certificates; Create/ModifyIndex as documented), the table index is the command's index;
//   I5 a command that is rejected (error or false) leaves the root set unchanged — this includes the composite command
//      whose configuration part is refused;
//   I6 CAOpSetConfig never touches the roots; a refused conditional configuration update changes nothing.
// Assumption: the IDs inside one submitted set are distinct (every caller derives the ID from the certificate and
// appends the new root to the stored ones).

import (
	"encoding/json"
	"fmt"
	"sort"
	"testing"

	"pgregory.net/rapid"

	"github.com/hashicorp/consul/agent/consul/fsm"
	"github.com/hashicorp/consul/agent/consul/state"
	"github.com/hashicorp/consul/agent/structs"
	"github.com/hashicorp/consul/internal/verifkit"
	vs "github.com/hashicorp/consul/internal/verifstate"
)

type verifC12Root struct {
	ID     string `json:"id"`
	Active bool   `json:"active,omitempty"`
	Cert   string `json:"cert,omitempty"`
}

type verifC12RootOp struct {
	Op       string         `json:"op"`              // cas | set-roots | set-roots-config | set-config | serial | snapshot-restore
	Step     uint64         `json:"step"`            // raft index increment (1-3)
	Supplied string         `json:"supplied"`        // roots index: current | stale | zero | future
	Back     int            `json:"back,omitempty"`  // stale: how many earlier roots indexes to go back
	Shape    string         `json:"shape,omitempty"` // rotate | prune | arbitrary
	Roots    []verifC12Root `json:"roots,omitempty"` // arbitrary: the set; rotate: one element = the new active root
	CfgIdx   string         `json:"cfg_idx,omitempty"` // config ModifyIndex: current | stale | zero | future
	Provider string         `json:"provider,omitempty"`
}

type verifC12RootsState struct {
	s          *state.Store
	idx        uint64
	rootsIdxes []uint64 // every value the roots table index has had (0 first)
	cfgIdxes   []uint64
	everSet    bool
	maxSerial  uint64 // largest provider serial handed out so far in this history
	// non-triviality: successful rotation, then a failed conditional update, then another successful rotation
	phase int
}

func verifC12RootsSnapshot(s *state.Store) (idx uint64, roots map[string]verifC12Root, list structs.CARoots) {
	idx, list, _ = s.CARoots(nil)
	roots = map[string]verifC12Root{}
	for _, r := range list {
		roots[r.ID] = verifC12Root{ID: r.ID, Active: r.Active, Cert: r.RootCert}
	}
	return
}

// verifC12SerialOrRestore handles the two ops that concern "a serial never used before" across a snapshot restore:
//   serial            CAOpIncrementProviderSerialNumber: the returned serial is larger than every serial returned before
//                     in this history, whatever happened in between, and the root set is untouched;
//   snapshot-restore  the CA tables and the whole index table are copied into a fresh store through the calls the FSM
//                     makes on restore (Snapshot.Indexes -> Restore.IndexRestore, CARoots -> Restore.CARoot, CAConfig ->
//                     Restore.CAConfig); the history continues on the restored store, which must hold the same state.
func verifC12SerialOrRestore(f verifkit.F, c *verifkit.Case, st *verifC12RootsState, op verifC12RootOp) {
	s := st.s
	switch op.Op {
	case "serial":
		st.idx += op.Step
		_, rootsBefore, _ := verifC12RootsSnapshot(s)
		var serial uint64
		switch v := fsm.ApplyConnectCAOperationFromRequest(s, &structs.CARequest{Op: structs.CAOpIncrementProviderSerialNumber}, st.idx).(type) {
		case uint64:
			serial = v
		default:
			c.Violation(f, "C12/provider-serial-allocation-failed", "increment-provider-serial at raft index %d answered %T %v", st.idx, v, v)
			return
		}
		c.Label("serial:allocated")
		if serial <= st.maxSerial {
			c.Violation(f, "C12/provider-serial-reused", "increment-provider-serial at raft index %d returned %d; %d was already handed out in this history", st.idx, serial, st.maxSerial)
		} else {
			st.maxSerial = serial
		}
		if _, rootsAfter, _ := verifC12RootsSnapshot(s); fmt.Sprint(verifC12Sorted(rootsBefore)) != fmt.Sprint(verifC12Sorted(rootsAfter)) {
			c.Violation(f, "C12/serial-allocation-changes-roots", "roots before %v after %v", verifC12Sorted(rootsBefore), verifC12Sorted(rootsAfter))
		}
	case "snapshot-restore":
		before := vs.TakeDump(s)
		snap := s.Snapshot()
		fresh := state.NewStateStore(nil)
		r := fresh.Restore()
		fail := func(err error) {
			r.Abort()
			snap.Close()
			c.Violation(f, "C12/snapshot-restore-fails", "restore: %v", err)
		}
		it, err := snap.Indexes()
		if err != nil {
			fail(err)
			return
		}
		for raw := it.Next(); raw != nil; raw = it.Next() {
			e := *raw.(*state.IndexEntry)
			if err := r.IndexRestore(&e); err != nil {
				fail(err)
				return
			}
		}
		roots, err := snap.CARoots()
		if err != nil {
			fail(err)
			return
		}
		for _, root := range roots {
			cp := *root
			if err := r.CARoot(&cp); err != nil {
				fail(err)
				return
			}
		}
		if cfg, err := snap.CAConfig(); err != nil {
			fail(err)
			return
		} else if cfg != nil {
			cp := *cfg
			if err := r.CAConfig(&cp); err != nil {
				fail(err)
				return
			}
		}
		snap.Close()
		if err := r.Commit(); err != nil {
			c.Violation(f, "C12/snapshot-restore-fails", "commit: %v", err)
			return
		}
		c.Label("roots:snapshot-restore")
		if st.maxSerial > 0 {
			c.Label("serial:restore-after-allocation")
		}
		if diffs := vs.DiffDumps(before, vs.TakeDump(fresh), nil); len(diffs) > 0 {
			c.Violation(f, "C12/snapshot-restore-changes-state/"+diffs[0].Signature(), "the restored store differs from the snapshotted one: %s (%d differences)", diffs[0].String(), len(diffs))
		}
		st.s = fresh
	}
}

func verifC12RootsStep(f verifkit.F, c *verifkit.Case, st *verifC12RootsState, op verifC12RootOp) {
	if op.Op == "serial" || op.Op == "snapshot-restore" {
		verifC12SerialOrRestore(f, c, st, op)
		return
	}
	s := st.s
	st.idx += op.Step
	idx := st.idx
	before := vs.TakeDump(s)
	curRootsIdx, rootsBefore, listBefore := verifC12RootsSnapshot(s)
	_, cfgBefore, _ := s.CAConfig(nil)

	// resolve the supplied roots index
	var supplied uint64
	switch op.Supplied {
	case "current":
		supplied = curRootsIdx
	case "stale":
		k := len(st.rootsIdxes) - 1 - op.Back
		if k < 0 {
			k = 0
		}
		supplied = st.rootsIdxes[k]
		if supplied == curRootsIdx {
			supplied = curRootsIdx + 1000 // no earlier value exists yet: use a mismatching one anyway
		}
	case "zero":
		supplied = 0
	case "future":
		supplied = idx
	}
	// resolve the root set
	var set structs.CARoots
	mk := func(r verifC12Root) *structs.CARoot {
		return &structs.CARoot{ID: r.ID, Name: "root " + r.ID, RootCert: r.Cert, Active: r.Active, ExternalTrustDomain: "td"}
	}
	switch op.Shape {
	case "rotate": // as persistNewRootAndConfig / primaryUpdateRootCA build it
		for _, r := range listBefore {
			if len(op.Roots) > 0 && r.ID == op.Roots[0].ID {
				continue // IDs stay distinct: the leader never re-adds a stored root
			}
			cp := *r
			cp.Active = false
			set = append(set, &cp)
		}
		if len(op.Roots) > 0 {
			nr := op.Roots[0]
			nr.Active = true
			set = append(set, mk(nr))
		}
	case "prune": // as pruneCARoots builds it: inactive roots dropped, the rest copied
		for _, r := range listBefore {
			if !r.Active && len(op.Roots) > 0 && r.ID != op.Roots[0].ID {
				continue
			}
			cp := *r
			set = append(set, &cp)
		}
	default:
		for _, r := range op.Roots {
			set = append(set, mk(r))
		}
	}
	given := map[string]verifC12Root{}
	nActive, emptyID := 0, false
	for _, r := range set {
		given[r.ID] = verifC12Root{ID: r.ID, Active: r.Active, Cert: r.RootCert}
		if r.Active {
			nActive++
		}
		if r.ID == "" {
			emptyID = true
		}
	}
	valid := nActive == 1 && !emptyID
	matched := supplied == curRootsIdx

	// resolve the configuration
	var cfg *structs.CAConfiguration
	cfgMatched := true
	if op.Op == "set-roots-config" || op.Op == "set-config" {
		cfg = &structs.CAConfiguration{Provider: op.Provider, ClusterID: "cluster", Config: map[string]interface{}{"k": op.Provider}}
		var cur uint64
		if cfgBefore != nil {
			cur = cfgBefore.ModifyIndex
		}
		switch op.CfgIdx {
		case "current":
			cfg.ModifyIndex = cur
		case "stale":
			cfg.ModifyIndex = cur + 7
			if len(st.cfgIdxes) > 1 {
				cfg.ModifyIndex = st.cfgIdxes[len(st.cfgIdxes)-2]
			}
			if cfg.ModifyIndex == cur {
				cfg.ModifyIndex = cur + 7
			}
		case "zero":
			cfg.ModifyIndex = 0
		case "future":
			cfg.ModifyIndex = idx
		}
		cfgMatched = cfg.ModifyIndex == cur
		if op.Op == "set-config" && cfg.ModifyIndex == 0 {
			cfgMatched = true // documented: no ModifyIndex = unconditional set
		}
	}

	cfgDesc := verifC12CfgDesc(cfg, cfgBefore)

	// execute
	var reported bool
	var rerr error
	switch op.Op {
	case "cas":
		reported, rerr = s.CARootSetCAS(idx, supplied, set)
	default:
		req := &structs.CARequest{Index: supplied, Roots: set, Config: cfg}
		switch op.Op {
		case "set-roots":
			req.Op = structs.CAOpSetRoots
		case "set-roots-config":
			req.Op = structs.CAOpSetRootsAndConfig
		case "set-config":
			req.Op = structs.CAOpSetConfig
			req.Roots = nil
		}
		switch v := fsm.ApplyConnectCAOperationFromRequest(s, req, idx).(type) {
		case error:
			rerr = v
		case bool:
			reported = v
		case nil:
			reported = true // CASetConfig without index returns a nil error
		default:
			f.Fatalf("harness: unexpected result %T", v)
		}
	}

	after := vs.TakeDump(s)
	newRootsIdx, rootsAfter, _ := verifC12RootsSnapshot(s)
	_, cfgAfter, _ := s.CAConfig(nil)
	diffs := vs.DiffDumps(before, after, nil)
	changed := len(diffs) > 0
	rootsChanged := fmt.Sprint(verifC12Sorted(rootsBefore)) != fmt.Sprint(verifC12Sorted(rootsAfter)) || newRootsIdx != curRootsIdx
	cfgChanged := vs.CanonJSON(cfgBefore) != vs.CanonJSON(cfgAfter)
	first := ""
	if changed {
		first = "; first difference: " + diffs[0].String()
	}
	desc := fmt.Sprintf("%s at raft index %d: supplied roots index %d (stored %d), set %v (%d active), config index %s -> reported=%v err=%v%s",
		op.Op, idx, supplied, curRootsIdx, verifC12Sorted(given), nActive, cfgDesc, reported, rerr, first)

	failedCAS := false
	switch op.Op {
	case "set-config":
		// I6
		if rootsChanged {
			c.Violation(f, "C12/set-config-changes-roots", "%s", desc)
		}
		if !cfgMatched {
			failedCAS = true
			if changed {
				c.Violation(f, "C12/refused-config-update-changes-state", "%s", desc)
			}
			if rerr == nil && reported {
				c.Violation(f, "C12/config-cas-reports-true-on-mismatch", "%s", desc)
			}
		} else if rerr != nil || !reported {
			c.Violation(f, "C12/config-update-refused-on-match", "%s", desc)
		}
	default:
		switch {
		case !valid:
			// I2
			c.Label("roots:invalid-set")
			switch {
			case rootsChanged:
				c.Violation(f, "C12/invalid-root-set-changes-state", "%s", desc)
			case (changed || (rerr == nil && reported)) && !matched:
				// the index check comes before the empty-ID check: same root cause as I3 below
				c.Violation(f, "C12/ca-roots-cas-reports-true-on-mismatch", "%s", desc)
			case changed:
				c.Violation(f, "C12/invalid-root-set-changes-state", "%s", desc)
			case rerr == nil && reported:
				c.Violation(f, "C12/invalid-root-set-accepted", "%s", desc)
			}
		case !matched:
			// I3
			failedCAS = true
			c.Label("roots:index-mismatch")
			switch {
			case rootsChanged:
				c.Violation(f, "C12/ca-roots-replaced-on-index-mismatch", "%s", desc)
			case changed || (rerr == nil && reported):
				// one root cause (state.caRootSetCASTxn answers nil on a mismatch): CARootSetCAS reports true although nothing
				// was replaced, and the composite command then goes on to write the configuration
				c.Violation(f, "C12/ca-roots-cas-reports-true-on-mismatch", "%s", desc)
			}
		default:
			// I4
			c.Label("roots:index-match")
			rootsOK := fmt.Sprint(verifC12Sorted(rootsAfter)) == fmt.Sprint(verifC12Sorted(given)) && newRootsIdx == idx
			if op.Op == "set-roots-config" && !cfgMatched {
				// I5: the command as a whole is refused (the configuration index does not match)
				failedCAS = true
				c.Label("roots:composite-config-mismatch")
				if rerr == nil && reported {
					c.Violation(f, "C12/composite-reports-true-on-config-mismatch", "%s", desc)
				}
				if cfgChanged {
					c.Violation(f, "C12/refused-config-update-changes-state", "%s", desc)
				}
				if rootsChanged {
					c.Violation(f, "C12/ca-roots-and-config-applies-roots-without-config", "%s", desc)
				}
			} else {
				if rerr != nil || !reported {
					c.Violation(f, "C12/ca-roots-set-refused-on-match", "%s", desc)
				} else if !rootsOK {
					c.Violation(f, "C12/ca-roots-set-not-exactly-the-given-set", "%s; roots now %v index %d", desc, verifC12Sorted(rootsAfter), newRootsIdx)
				}
				if op.Op == "set-roots-config" && rerr == nil && reported && (cfgAfter == nil || cfgAfter.Provider != op.Provider || cfgAfter.ModifyIndex != idx) {
					c.Violation(f, "C12/composite-config-not-written", "%s; config now %s", desc, vs.CanonJSON(cfgAfter))
				}
				for _, r := range set {
					wantCreate := idx
					for _, o := range listBefore {
						if o.ID == r.ID {
							wantCreate = o.CreateIndex
						}
					}
					if rerr == nil && reported {
						for _, a := range verifC12List(s) {
							if a.ID == r.ID && (a.CreateIndex != wantCreate || a.ModifyIndex != idx) {
								c.Violation(f, "C12/ca-root-indexes-wrong", "%s; root %s has create/modify %d/%d, want %d/%d", desc, a.ID, a.CreateIndex, a.ModifyIndex, wantCreate, idx)
							}
						}
					}
				}
			}
		}
		// I5 in general: rejected => roots unchanged
		if (rerr != nil || !reported) && rootsChanged && !(op.Op == "set-roots-config" && valid && matched && !cfgMatched) {
			c.Violation(f, "C12/rejected-update-changes-roots", "%s", desc)
		}
	}

	// I1
	_, rootsNow, _ := verifC12RootsSnapshot(s)
	act := 0
	for _, r := range rootsNow {
		if r.Active {
			act++
		}
	}
	if len(rootsNow) > 0 {
		st.everSet = true
	}
	if (len(rootsNow) > 0 || st.everSet) && act != 1 {
		c.Violation(f, "C12/not-exactly-one-active-root", "%s; roots now %v: %d active", desc, verifC12Sorted(rootsNow), act)
	}

	// bookkeeping
	if newRootsIdx != curRootsIdx {
		st.rootsIdxes = append(st.rootsIdxes, newRootsIdx)
	}
	if cfgAfter != nil && (cfgBefore == nil || cfgAfter.ModifyIndex != cfgBefore.ModifyIndex) {
		st.cfgIdxes = append(st.cfgIdxes, cfgAfter.ModifyIndex)
	}
	activeBefore, activeAfter := "", ""
	for _, r := range rootsBefore {
		if r.Active {
			activeBefore = r.ID
		}
	}
	for _, r := range rootsNow {
		if r.Active {
			activeAfter = r.ID
		}
	}
	rotated := activeAfter != "" && activeAfter != activeBefore
	switch {
	case rotated && (st.phase == 0 || st.phase == 2):
		st.phase++
		c.Label("roots:rotation")
	case rotated:
		c.Label("roots:rotation")
	case failedCAS && st.phase == 1:
		st.phase = 2
	}
	if failedCAS {
		c.Label("roots:failed-conditional-update")
	}
	if st.phase == 3 {
		c.Label("roots:failed-cas-between-two-rotations")
		c.NonTrivial()
	}
}

func verifC12List(s *state.Store) structs.CARoots {
	_, l, _ := s.CARoots(nil)
	return l
}

func verifC12Sorted(m map[string]verifC12Root) []verifC12Root {
	out := make([]verifC12Root, 0, len(m))
	for _, r := range m {
		out = append(out, r)
	}
	sort.Slice(out, func(i, j int) bool { return out[i].ID < out[j].ID })
	return out
}

func verifC12CfgDesc(cfg, cur *structs.CAConfiguration) string {
	if cfg == nil {
		return "-"
	}
	var c uint64
	if cur != nil {
		c = cur.ModifyIndex
	}
	return fmt.Sprintf("%d (stored %d)", cfg.ModifyIndex, c)
}

func verifC12W(t *rapid.T, label string, w ...int) int {
	sum := 0
	for _, x := range w {
		sum += x
	}
	r := rapid.IntRange(0, sum-1).Draw(t, label)
	for i, x := range w {
		if r < x {
			return i
		}
		r -= x
	}
	return len(w) - 1
}

func verifC12GenRootOp(t *rapid.T, n int) verifC12RootOp {
	ids := []string{"r1", "r2", "r3", "r4", "r5"}
	op := verifC12RootOp{
		Op:       []string{"set-roots-config", "set-roots", "cas", "set-config", "serial", "snapshot-restore"}[verifC12W(t, "op", 30, 20, 20, 12, 12, 6)],
		Step:     uint64(rapid.IntRange(1, 3).Draw(t, "step")),
		Supplied: []string{"current", "stale", "zero", "future"}[verifC12W(t, "supplied", 60, 22, 9, 9)],
		Back:     rapid.IntRange(0, 2).Draw(t, "back"),
	}
	if op.Op == "serial" || op.Op == "snapshot-restore" {
		return verifC12RootOp{Op: op.Op, Step: op.Step}
	}
	if op.Op == "set-roots-config" || op.Op == "set-config" {
		op.CfgIdx = []string{"current", "stale", "zero", "future"}[verifC12W(t, "cfgidx", 70, 15, 10, 5)]
		op.Provider = []string{"consul", "vault", "aws-pca"}[rapid.IntRange(0, 2).Draw(t, "provider")]
	}
	if op.Op == "set-config" {
		op.Supplied = "current"
		return op
	}
	op.Shape = []string{"rotate", "arbitrary", "prune"}[verifC12W(t, "shape", 55, 35, 10)]
	cert := func() string { return fmt.Sprintf("cert-%d-%d", n, rapid.IntRange(0, 2).Draw(t, "cert")) }
	switch op.Shape {
	case "rotate", "prune":
		op.Roots = []verifC12Root{{ID: ids[rapid.IntRange(0, 4).Draw(t, "new-id")], Cert: cert()}}
	default:
		k := rapid.IntRange(1, 4).Draw(t, "nroots")
		perm := rapid.Permutation(ids).Draw(t, "ids")
		nact := []int{1, 0, 2}[verifC12W(t, "nactive", 72, 12, 16)]
		for i := 0; i < k; i++ {
			r := verifC12Root{ID: perm[i], Cert: cert(), Active: i < nact}
			op.Roots = append(op.Roots, r)
		}
		if nact > k {
			// fewer roots than wanted active ones: all active
		}
		if verifC12W(t, "empty-id", 94, 6) == 1 {
			op.Roots[rapid.IntRange(0, k-1).Draw(t, "empty-pos")].ID = ""
		}
		// the active root is not always first
		if k > 1 && rapid.Bool().Draw(t, "rev") {
			for i, j := 0, k-1; i < j; i, j = i+1, j-1 {
				op.Roots[i], op.Roots[j] = op.Roots[j], op.Roots[i]
			}
		}
	}
	return op
}

func TestVerifC12Roots(t *testing.T) {
	rec := verifkit.For("C12")
	defer rec.Flush()
	rapid.Check(t, func(t *rapid.T) {
		c := rec.NewCase()
		defer c.GuardPanic(t, "C12/panic")
		st := &verifC12RootsState{s: state.NewStateStore(nil), idx: 10, rootsIdxes: []uint64{0}}
		n := rapid.IntRange(3, 10).Draw(t, "nops")
		for i := 0; i < n; i++ {
			op := verifC12GenRootOp(t, i)
			c.Op(op)
			verifC12RootsStep(t, c, st, op)
		}
		c.Done()
	})
}

func TestVerifC12RootsReplay(t *testing.T) {
	rec := verifkit.For("C12")
	defer rec.Flush()
	for _, path := range verifkit.ReplayFiles("C12") {
		rp, err := verifkit.LoadReplay(path)
		if err != nil {
			t.Fatalf("%v", err)
		}
		c := rec.NewCase()
		c.Label("replay")
		st := &verifC12RootsState{s: state.NewStateStore(nil), idx: 10, rootsIdxes: []uint64{0}}
		for _, raw := range rp.Ops {
			var op verifC12RootOp
			if err := json.Unmarshal(raw, &op); err != nil {
				continue
			}
			switch op.Op {
			case "cas", "set-roots", "set-roots-config", "set-config", "serial", "snapshot-restore":
			default:
				continue // a replay of another part of C12
			}
			c.Op(op)
			verifC12RootsStep(t, c, st, op)
		}
		c.Done()
	}
}
