package state

// C13 — generators, the rapid property and the replay test.
//
// A case = one intention set (0..8 over sources/destinations {web, api, db, *}, source peers {"", peerA, peerB},
// action allow/deny or 1-2 L7 permissions) + 2..4 write plans of the config-entry family (full set) + 1..2 plans
// of the legacy family (the local-L4 projection). A plan is a drawn permutation of the set, optionally with churn
// (delete + re-create, transient intentions that are deleted again, early writes that are overwritten) — every
// plan ends in the same final set. Each plan runs against its own fresh store; afterwards the whole query panel
// is compared with the model, and all plans of a family with each other.

import (
	"encoding/json"
	"testing"

	"github.com/hashicorp/consul/internal/verifkit"
	"pgregory.net/rapid"
)

var (
	verifC13GenNames = []string{"web", "api", "db", verifC13Wild}
	verifC13GenPeers = []string{"", "", "", "", "peerA", "peerA", "peerB"}
)

func verifC13GenPerms(t *rapid.T) []verifC13Perm {
	n := rapid.IntRange(1, 2).Draw(t, "nperms")
	var out []verifC13Perm
	for i := 0; i < n; i++ {
		p := verifC13Perm{Action: rapid.SampledFrom([]string{"allow", "deny"}).Draw(t, "paction")}
		switch rapid.IntRange(0, 2).Draw(t, "pkind") {
		case 0:
			p.PathPrefix = rapid.SampledFrom([]string{"/", "/v1", "/admin"}).Draw(t, "prefix")
		case 1:
			p.PathExact = rapid.SampledFrom([]string{"/health", "/v1/x"}).Draw(t, "exact")
		case 2:
			p.Methods = []string{rapid.SampledFrom([]string{"GET", "POST", "DELETE"}).Draw(t, "method")}
		}
		out = append(out, p)
	}
	return out
}

// verifC13GenBody draws the verdict part of an intention.
func verifC13GenBody(t *rapid.T, x *verifC13Ixn, l4only bool) {
	x.Action, x.Perms = "", nil
	if !l4only && x.Dst != verifC13Wild && rapid.IntRange(0, 9).Draw(t, "l7?") < 3 {
		x.Perms = verifC13GenPerms(t)
		return
	}
	x.Action = rapid.SampledFrom([]string{"allow", "deny"}).Draw(t, "action")
}

func verifC13GenIxn(t *rapid.T, focusSrc, focusDst string, l4only bool) verifC13Ixn {
	pick := func(label, focus string) string {
		// the focus name and the wildcard are drawn more often so that several intentions cover one pair
		switch rapid.IntRange(0, 9).Draw(t, label+"-w") {
		case 0, 1, 2, 3:
			return focus
		case 4, 5, 6:
			return verifC13Wild
		}
		return rapid.SampledFrom(verifC13GenNames).Draw(t, label)
	}
	x := verifC13Ixn{Src: pick("src", focusSrc), Dst: pick("dst", focusDst)}
	if !l4only {
		x.Peer = rapid.SampledFrom(verifC13GenPeers).Draw(t, "peer")
	}
	verifC13GenBody(t, &x, l4only)
	return x
}

func verifC13GenSet(t *rapid.T) []verifC13Ixn {
	focusSrc := rapid.SampledFrom(verifC13GenNames[:3]).Draw(t, "focus-src")
	focusDst := rapid.SampledFrom(verifC13GenNames[:3]).Draw(t, "focus-dst")
	// sizes 0..8 (rapid favours the head of the list; duplicates of one key are dropped, so sets shrink anyway)
	n := rapid.SampledFrom([]int{6, 5, 7, 4, 8, 3, 8, 2, 7, 1, 6, 0}).Draw(t, "n")
	var set []verifC13Ixn
	seen := map[string]bool{}
	for i := 0; i < n; i++ {
		for try := 0; try < 3; try++ { // a (source, peer, destination) triple exists once; redraw on collision
			x := verifC13GenIxn(t, focusSrc, focusDst, false)
			if seen[x.key()] {
				continue
			}
			seen[x.key()] = true
			set = append(set, x)
			break
		}
	}
	return set
}

// verifC13Variant: same key, other verdict.
func verifC13Variant(t *rapid.T, x verifC13Ixn, l4only bool) verifC13Ixn {
	y := x
	if len(x.Perms) == 0 && (l4only || x.Dst == verifC13Wild || rapid.Bool().Draw(t, "flip")) {
		y.Perms = nil
		if x.Action == "allow" {
			y.Action = "deny"
		} else {
			y.Action = "allow"
		}
		return y
	}
	if len(x.Perms) > 0 {
		y.Perms, y.Action = nil, rapid.SampledFrom([]string{"allow", "deny"}).Draw(t, "vaction")
		return y
	}
	y.Action, y.Perms = "", verifC13GenPerms(t)
	return y
}

func verifC13Insert(ops []verifC13WOp, at int, op verifC13WOp) []verifC13WOp {
	ops = append(ops, verifC13WOp{})
	copy(ops[at+1:], ops[at:])
	ops[at] = op
	return ops
}

// verifC13GenPlan: a permutation of `set` plus churn that keeps the final state equal to `set`.
func verifC13GenPlan(t *rapid.T, set []verifC13Ixn, modes []string, l4only bool, forceChurn bool) verifC13Plan {
	p := verifC13Plan{Kind: "plan", Mode: rapid.SampledFrom(modes).Draw(t, "mode")}
	if p.Mode == "entry-incr" || p.Mode == "mutation" {
		p.Prepend = rapid.Bool().Draw(t, "prepend")
	}
	var perm []verifC13Ixn
	if len(set) > 0 {
		perm = rapid.Permutation(set).Draw(t, "perm")
	}
	for _, x := range perm {
		p.Ops = append(p.Ops, verifC13WOp{Kind: "put", Ixn: x})
	}
	if p.Mode == "entry-bulk" {
		return p
	}
	nchurn := rapid.IntRange(0, 3).Draw(t, "nchurn")
	if forceChurn && nchurn == 0 {
		nchurn = 1
	}
	touched := map[string]bool{}
	inSet := verifC13SetMap(set)
	for k := 0; k < nchurn; k++ {
		kinds := []string{"del-recreate", "overwrite", "transient"}
		if l4only {
			kinds = append(kinds, "rename", "rename")
		}
		kind := rapid.SampledFrom(kinds).Draw(t, "churn")
		if kind != "transient" && len(set) == 0 {
			kind = "transient"
		}
		if kind == "transient" {
			y := verifC13GenIxn(t, "web", "db", l4only)
			if _, ok := inSet[y.key()]; ok || touched[y.key()] {
				continue
			}
			touched[y.key()] = true
			a := rapid.IntRange(0, len(p.Ops)).Draw(t, "ta")
			p.Ops = verifC13Insert(p.Ops, a, verifC13WOp{Kind: "put", Ixn: y})
			b := rapid.IntRange(a+1, len(p.Ops)).Draw(t, "tb")
			p.Ops = verifC13Insert(p.Ops, b, verifC13WOp{Kind: "del", Ixn: y})
			continue
		}
		x := rapid.SampledFrom(set).Draw(t, "victim")
		if touched[x.key()] {
			continue
		}
		touched[x.key()] = true
		final := -1
		for i, op := range p.Ops {
			if op.Kind == "put" && op.Ixn.key() == x.key() {
				final = i
			}
		}
		if kind == "rename" {
			// the intention is first written under another name y and later updated BY ID to its final name
			y := verifC13GenIxn(t, "web", "db", true)
			if p.Mode == "legacy-id" {
				y.Dst = x.Dst // Intention.Apply: "Cannot modify Destination ... for an intention once it exists"
			}
			if _, ok := inSet[y.key()]; ok || touched[y.key()] {
				continue
			}
			touched[y.key()] = true
			a := rapid.IntRange(0, final).Draw(t, "ra")
			p.Ops = verifC13Insert(p.Ops, a, verifC13WOp{Kind: "put", Ixn: y})
			p.Ops[final+1].From = &y
			continue
		}
		early := x
		if kind == "overwrite" || rapid.Bool().Draw(t, "early-variant") {
			early = verifC13Variant(t, x, l4only)
		}
		a := rapid.IntRange(0, final).Draw(t, "ca")
		p.Ops = verifC13Insert(p.Ops, a, verifC13WOp{Kind: "put", Ixn: early})
		final++
		if kind == "del-recreate" {
			b := rapid.IntRange(a+1, final).Draw(t, "cb")
			p.Ops = verifC13Insert(p.Ops, b, verifC13WOp{Kind: "del", Ixn: early})
		}
	}
	return p
}

func verifC13GenPlans(t *rapid.T, set []verifC13Ixn) []verifC13Plan {
	var plans []verifC13Plan
	ncfg := rapid.IntRange(2, 4).Draw(t, "ncfg")
	for i := 0; i < ncfg; i++ {
		modes := []string{"entry-bulk", "entry-incr", "entry-incr", "mutation", "mutation"}
		if i == 0 {
			modes = []string{"entry-bulk", "entry-incr"} // at least one plain permutation through the config-entry API
		}
		plans = append(plans, verifC13GenPlan(t, set, modes, false, i == 1))
	}
	proj := verifC13Project(set)
	nleg := rapid.IntRange(1, 2).Draw(t, "nleg")
	for i := 0; i < nleg; i++ {
		modes := []string{"legacy-table", "legacy-id"}
		if nleg == 2 {
			modes = modes[i : i+1]
		}
		plans = append(plans, verifC13GenPlan(t, proj, modes, true, false))
	}
	return plans
}

func TestVerifC13(t *testing.T) {
	rec := verifkit.For("C13")
	defer rec.Flush()
	rapid.Check(t, func(t *rapid.T) {
		c := rec.NewCase()
		defer c.GuardPanic(t, "C13/panic")
		set := verifC13Set{Kind: "set", Ixns: verifC13GenSet(t)}
		plans := verifC13GenPlans(t, set.Ixns)
		c.Op(set)
		for _, p := range plans {
			c.Op(p)
		}
		verifC13RunCase(t, c, set, plans)
		c.Done()
	})
}

// TestVerifC13Replay re-executes saved cases (ops[0] = the set, ops[1..] = plans) without rapid.
func TestVerifC13Replay(t *testing.T) {
	rec := verifkit.For("C13")
	defer rec.Flush()
	for _, path := range verifkit.ReplayFiles("C13") {
		rp, err := verifkit.LoadReplay(path)
		if err != nil {
			t.Fatalf("%v", err)
		}
		if len(rp.Ops) == 0 {
			continue
		}
		var set verifC13Set
		if err := json.Unmarshal(rp.Ops[0], &set); err != nil || set.Kind != "set" {
			t.Fatalf("%s: first op is not a set: %v", path, err)
		}
		var plans []verifC13Plan
		for _, raw := range rp.Ops[1:] {
			var p verifC13Plan
			if err := json.Unmarshal(raw, &p); err != nil || p.Kind != "plan" {
				t.Fatalf("%s: op is not a plan: %v", path, err)
			}
			plans = append(plans, p)
		}
		c := rec.NewCase()
		c.Label("replay")
		c.Op(set)
		for _, p := range plans {
			c.Op(p)
		}
		func() {
			defer c.GuardPanic(t, "C13/panic")
			verifC13RunCase(t, c, set, plans)
		}()
		c.Done()
	}
}
