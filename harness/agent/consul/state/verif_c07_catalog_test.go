package state_test

// C07 — Catalog integrity: no orphans, complete cascades, derived views agree.
//
// A rapid machine applies generated histories (node/service/check register and deregister for typical,
// connect-proxy, connect-native and gateway kinds, local and peer-imported; node renames by ID; ingress and
// terminating gateway entries with explicit and wildcard services; service-defaults with and without
// destination, resolvers; virtual-IP feature flags; coordinates; sessions; transactions with node/service/check
// verbs) to a real Store. After EVERY step the store is read back and:
//
//   R1 referential integrity: every service and check row names an existing node of the same peer, every
//      service-scoped check an existing service instance, every coordinate an existing local node;
//   R2 cascade: a node that disappeared in this step has no service, check, coordinate or session left; a
//      service instance that disappeared has no check left; a node / instance deleted and re-created within
//      the step kept nothing from before (everything on it carries the step's CreateIndex);
//   R3 derived views are recomputed FROM SCRATCH (verif_c07_view_test.go) and compared:
//      kind-service-names  = equality with {(kind,name) of local instances} ∪ {(connect-enabled, d)} ∪ {(destination, n)};
//      usage               = equality with counts over base tables and config entries;
//      mesh-topology       = equality of links AND of the reference sets with what local proxy instances
//                            declare (upstreams in another peer: accepted either way) plus one link per
//                            non-wildcard ingress gateway-services row;
//      gateway-services    = soundness + completeness BOUNDS (equality is deliberately not demanded: for names
//                            that exist only as a proxy destination or destination entry the code is knowingly
//                            order dependent): every row is justified by the gateway's config entry (explicitly
//                            listed, or wildcard at that port plus some local presence of the name: instance,
//                            connect instance or destination entry; `consul` never); every explicitly listed
//                            service has its row, every wildcard has its marker row, and every non-consul name
//                            with a local typical instance of the right connect-ness has its wildcard row;
//   R4 virtual IPs: no IP in two service-virtual-ips rows, none both assigned and free, no duplicate free
//      entry, counter >= every IP handed out, and every instance advertising `consul-virtual` advertises
//      exactly VirtualIPForService of its (destination) service; terminating-gateway instances advertising
//      `consul-virtual:<svc>` advertise that service's current assignment.
//
// NOT asserted: leaks (a VIP or a derived row that outlives its last user is only reported where a clause above
// covers it), RaftIndex fields of derived rows, FromWildcard/ServiceKind flags of gateway rows, anything about
// peer-imported entries beyond R1/R2/R4 (they take no part in gateway, kind-name, topology or usage logic).

import (
	"encoding/json"
	"fmt"
	"os"
	"path/filepath"
	"sort"
	"strings"
	"testing"

	"github.com/hashicorp/consul/agent/consul/state"
	"github.com/hashicorp/consul/agent/structs"
	"github.com/hashicorp/consul/api"
	"github.com/hashicorp/consul/internal/verifkit"
	kvm "github.com/hashicorp/consul/internal/verifkvm"
	vs "github.com/hashicorp/consul/internal/verifstate"
	"pgregory.net/rapid"
)

// Root-cause signatures of the defects confirmed on the pinned tree (see known_findings.d/C07.json).
const (
	// freeServiceVirtualIP is keyed by the deleted instance's own name and only looks at instances of that
	// name: the assignment of a service is freed while proxies targeting it still advertise it.
	verifC07KeyVIPFreed = "C07/vip-freed-under-instance-name"
	// an instance registered again under the same node and service ID with ANOTHER service name or kind: the store
	// overwrites the row and adds what the new shape implies, but retracts nothing the old shape contributed except the
	// connect-enabled marker (kind-service-names row of the old (kind, name), ServiceName of the instance's checks)
	verifC07KeyInPlaceRename = "C07/in-place-name-or-kind-change-keeps-old-name-rows"
	// updateMeshTopology: `mapping := existing.DeepCopy()` shadows the outer variable; the row is replaced by
	// one that references only the registering instance.
	verifC07KeyRefsLost = "C07/mesh-topology-refs-lost"
	// updateMeshTopology deletes the whole link when ONE instance stops declaring the upstream.
	verifC07KeyLinkDroppedOnEdit = "C07/mesh-topology-link-dropped-on-upstream-edit"
	// ensureServiceTxn runs the gateway wildcard logic for peer-imported proxies (cleanup is local only).
	verifC07KeyPeerProxyWildcard = "C07/gateway-wildcard-row-for-peer-imported-proxy"
	// ensureServiceTxn never retracts (connect-enabled, name) when an instance is updated IN PLACE and stops
	// being connect-native; only deleteServiceTxn cleans up.
	verifC07KeyConnectEnabledStale = "C07/connect-enabled-name-survives-in-place-update"
	// insertConfigEntryWithTxn does nothing when a service-defaults entry that had a destination is rewritten
	// without one: (destination, name) and the destination's wildcard gateway rows stay (and deleting the
	// entry later does not clean up either, because the stored entry has no destination any more).
	verifC07KeyDestinationStale = "C07/destination-name-survives-defaults-rewrite"
	// deleteGatewayServiceTopologyMapping removes the ingress link service>gateway when ONE gateway-services row of
	// the pair goes away, although another listener of the same gateway still routes to the service.
	verifC07KeyIngressLinkDropped = "C07/ingress-topology-link-dropped-with-one-of-several-rows"
	// checkGatewayWildcardsAndUpdate clones the wildcard row over the row of a service that the same gateway entry
	// lists EXPLICITLY (same id for terminating gateways): the explicit link becomes FromWildcard, takes the
	// wildcard's TLS settings, and is deleted when the service's last instance goes away.
	verifC07KeyExplicitOverwritten = "C07/explicit-gateway-link-overwritten-by-wildcard"
	// deleteConfigEntryTxn removes a terminating gateway's gateway-services rows but leaves the
	// `consul-virtual:<svc>` tagged addresses on the gateway's instances; without the rows nothing protects the
	// services' assignments any more, so the instances end up advertising freed (and re-assigned) addresses.
	verifC07KeyGatewayTagStale = "C07/gateway-vip-tag-survives-entry-deletion"
)

var verifC07Cfg = &vs.C07Cfg{
	Shared: &vs.Cfg{Session: 3, Catalog: 36, Dereg: 22, Txn: 12, Config: 14, Coord: 5, SysMeta: 1, Killer: 3,
		TxnCatalog: true, Peers: true, Connect: true, Rename: true, SessionChecks: true, MaxTxnOps: 4},
	SharedW: 46, ProxyW: 12, LastW: 14, GatewayW: 11, RenameW: 6, PeerW: 6, DestW: 5, MultiGwW: 4, MorphW: 6,
}

type verifC07Machine struct {
	f       verifkit.F
	c       *verifkit.Case
	w       *vs.World
	view    *verifC07View
	excused map[string]bool // entities already reported under a known finding: their consequences are not re-reported
	renamed []*structs.ServiceNode // local instances this step registers again with another name / kind (their OLD rows)
	// what such instances contributed under their old shape, kept for the rest of the case: the leftovers may only show
	// once the last regular contributor of the same row goes away
	taintKSN map[string]bool // kind|name
	taintUID map[string]bool // node/service-id of the instance
}

func verifC07New(f verifkit.F, c *verifkit.Case) *verifC07Machine {
	s := state.NewStateStore(nil)
	m := &verifC07Machine{f: f, c: c, w: vs.NewWorld(s), excused: map[string]bool{}}
	m.view = verifC07Snapshot(s)
	return m
}

// report files a violation for an entity. Under a known finding the entity is excused from then on.
func (m *verifC07Machine) report(key, entity, format string, args ...interface{}) {
	if entity != "" && m.excused[entity] {
		return
	}
	if m.c.Violation(m.f, key, format, args...) {
		m.c.Label("known:" + key)
		if entity != "" {
			m.excused[entity] = true
		}
	}
}

// verifC07RegisteredServices lists (node, service id, service name, kind) of the LOCAL service registrations an op carries.
func verifC07RegisteredServices(op *vs.Op) [][5]string {
	var out [][5]string
	switch op.Kind {
	case vs.Register:
		if r := op.P.Reg; r.PeerName == "" && r.Service != nil {
			id := r.Service.ID
			if id == "" {
				id = r.Service.Service
			}
			out = append(out, [5]string{r.Node, id, r.Service.Service, string(r.Service.Kind), r.Service.Proxy.DestinationServiceName})
		}
	case vs.Txn:
		for _, t := range op.P.Txn {
			if t.Service != nil && t.Service.Service.PeerName == "" && (t.Service.Verb == api.ServiceSet || t.Service.Verb == api.ServiceCAS) {
				id := t.Service.Service.ID
				if id == "" {
					id = t.Service.Service.Service
				}
				out = append(out, [5]string{t.Service.Node, id, t.Service.Service.Service, string(t.Service.Service.Kind), t.Service.Service.Proxy.DestinationServiceName})
			}
		}
	}
	return out
}

func verifC07OpClass(op *vs.Op) string {
	switch op.Kind {
	case vs.Register:
		if op.P.Reg.PeerName != "" {
			return "register-peer"
		}
		return "register"
	case vs.DeregNode, vs.DeregService, vs.DeregCheck:
		if op.P.Peer != "" {
			return op.Kind + "-peer"
		}
		return op.Kind
	case vs.ConfigSet, vs.ConfigDelete:
		return op.Kind + "/" + op.P.ConfigEntry().Entry.GetKind()
	}
	return op.Kind
}

func (m *verifC07Machine) step(op *vs.Op) {
	prev := m.view
	m.renamed = nil
	for _, r := range verifC07RegisteredServices(op) {
		if old := prev.svcByKey[verifC07SvcKey("", r[0], r[1])]; old != nil && (old.ServiceName != r[2] || string(old.ServiceKind) != r[3] || old.ServiceProxy.DestinationServiceName != r[4]) {
			m.renamed = append(m.renamed, old)
			if m.taintKSN == nil {
				m.taintKSN, m.taintUID = map[string]bool{}, map[string]bool{}
			}
			m.taintKSN[old.ServiceName] = true // by name: instances of several kinds under one name leave rows of either kind behind
			m.taintUID[structs.UniqueID(old.Node, old.CompoundServiceID().String())] = true
		}
	}
	res := vs.Apply(m.w.Store, op)
	cur := verifC07Snapshot(m.w.Store)
	m.view = cur
	m.classify(prev, cur, op, res)
	m.checkR1R2(prev, cur, op)
	m.checkKSN(cur, op)
	m.checkUsage(cur, op)
	m.checkTopo(prev, cur, op)
	m.checkGateways(prev, cur, op)
	m.checkVIPs(prev, cur, op)
}

// ---- labels and the non-triviality rule

func (m *verifC07Machine) classify(prev, cur *verifC07View, op *vs.Op, res vs.Result) {
	c := m.c
	c.Labelf("op=%s", verifC07OpClass(op))
	if res.Err != nil || len(res.Errors) > 0 {
		c.Labelf("refused=%s", op.Kind)
	}
	pp, cp := prev.verifC07Presence(), cur.verifC07Presence()

	// registered service shapes
	var regs []*structs.NodeService
	switch op.Kind {
	case vs.Register:
		if s := op.P.Reg.Service; s != nil && res.Err == nil {
			regs = append(regs, s)
			if op.P.Reg.PeerName != "" {
				c.Label("peer-import")
				if s.Kind == structs.ServiceKindConnectProxy {
					c.Label("peer-import-proxy")
				}
			}
		}
	case vs.Txn:
		if len(res.Errors) == 0 {
			for _, t := range op.P.Txn {
				if t.Service != nil && (t.Service.Verb == api.ServiceSet || t.Service.Verb == api.ServiceCAS) {
					s := t.Service.Service
					regs = append(regs, &s)
				}
				if t.Node != nil || t.Service != nil || t.Check != nil {
					c.Label("txn-catalog-committed")
				}
			}
		}
	}
	prevWild := false
	for _, g := range prev.gw {
		prevWild = prevWild || g.service == structs.WildcardSpecifier
	}
	for _, s := range regs {
		k := string(s.Kind)
		if k == "" {
			k = "typical"
			if s.Connect.Native {
				k = "native"
			}
		}
		c.Labelf("svc-kind=%s", k)
		if s.PeerName == "" && prevWild && s.Service != structs.ConsulServiceName &&
			(s.Kind == structs.ServiceKindTypical || s.Kind == structs.ServiceKindConnectProxy) {
			c.Label("register-under-wildcard-gateway")
			c.NonTrivial()
		}
	}

	// last instance of a service name removed while it still has a proxy or gateway link
	prevLinked := map[string]bool{}
	for _, g := range prev.gw {
		prevLinked[g.service] = true
	}
	for _, name := range verifC07SortedKeys(pp.count) {
		if cp.count[name] > 0 {
			continue
		}
		c.Label("last-instance-removed")
		if cp.connect[name] && !cp.named[name] {
			stillProxy := false
			for _, sn := range cur.services {
				stillProxy = stillProxy || (verifC07IsLocal(sn) && sn.ServiceKind == structs.ServiceKindConnectProxy && sn.ServiceProxy.DestinationServiceName == name)
			}
			if stillProxy {
				c.Label("last-instance-removed/proxy-link")
				c.NonTrivial()
			}
		}
		if prevLinked[name] {
			c.Label("last-instance-removed/gateway-link")
			c.NonTrivial()
		}
	}
	// a service linked by several gateways (one of them terminating, with an instance advertising the service's
	// virtual IP) loses its last instance / its last VIP-holding config entry
	if prev.flags[structs.SystemMetadataVirtualIPsEnabled] && prev.flags[structs.SystemMetadataTermGatewayVirtualIPsEnabled] {
		advertised := map[string]bool{}
		for _, sn := range prev.services {
			if verifC07IsLocal(sn) && sn.ServiceKind == structs.ServiceKindTerminatingGateway {
				for tag := range sn.ServiceTaggedAddresses {
					if strings.HasPrefix(tag, structs.TaggedAddressVirtualIP+":") {
						advertised[sn.ServiceName+"|"+strings.TrimPrefix(tag, structs.TaggedAddressVirtualIP+":")] = true
					}
				}
			}
		}
		gwsOf := map[string]map[string]bool{}
		termOf := map[string]string{}
		for _, g := range prev.gw {
			if gwsOf[g.service] == nil {
				gwsOf[g.service] = map[string]bool{}
			}
			gwsOf[g.service][g.gateway] = true
			if g.gwKind == string(structs.ServiceKindTerminatingGateway) && advertised[g.gateway+"|"+g.service] {
				termOf[g.service] = g.gateway
			}
		}
		vipKinds := []string{structs.ServiceResolver, structs.ServiceRouter, structs.ServiceSplitter, structs.ServiceDefaults, structs.ServiceIntentions}
		holders := func(v *verifC07View, name string) int {
			n := 0
			for _, k := range vipKinds {
				if v.cfgNames[k+"|"+name] {
					n++
				}
			}
			return n
		}
		for _, name := range verifC07SortedKeys(termOf) {
			if len(gwsOf[name]) < 2 {
				continue
			}
			c.Label("service-linked-by-several-gateways")
			if pp.count[name] > 0 && cp.count[name] == 0 {
				c.Label("service-linked-by-several-gateways-loses-last-instance")
				c.NonTrivial()
			}
			if holders(prev, name) > 0 && holders(cur, name) == 0 {
				c.Label("service-linked-by-several-gateways-loses-last-config-entry")
				c.NonTrivial()
			}
		}
	}
	// proxy removed after its service
	for k, sn := range prev.svcByKey {
		if cur.svcByKey[k] != nil || !verifC07IsLocal(sn) || sn.ServiceKind != structs.ServiceKindConnectProxy {
			continue
		}
		if !pp.named[sn.ServiceProxy.DestinationServiceName] {
			c.Label("proxy-removed-after-its-service")
		}
	}

	// rename by ID
	if op.Kind == vs.Register && res.Err == nil && op.P.Reg.ID != "" {
		for k, n := range prev.nodes {
			if n.ID != op.P.Reg.ID || n.PeerName != op.P.Reg.PeerName || strings.EqualFold(n.Node, op.P.Reg.Node) || cur.nodes[k] != nil {
				continue
			}
			c.Label("rename")
			for _, sn := range prev.services {
				if verifC07NodeKey(sn.PeerName, sn.Node) == k {
					c.Label("rename-with-services")
					c.NonTrivial()
					break
				}
			}
			for _, ss := range prev.sessions {
				if n.PeerName == "" && strings.EqualFold(ss.Node, n.Node) {
					c.Label("rename-with-sessions")
					c.NonTrivial()
					break
				}
			}
		}
	}

	// cascades
	for k, n := range prev.nodes {
		if cur.nodes[k] != nil {
			continue
		}
		c.Label("node-removed")
		for _, sn := range prev.services {
			if verifC07NodeKey(sn.PeerName, sn.Node) == k {
				c.Label("node-removed-with-services")
			}
		}
		for _, ck := range prev.checks {
			if verifC07NodeKey(ck.PeerName, ck.Node) == k {
				c.Label("node-removed-with-checks")
			}
		}
		if n.PeerName == "" {
			for _, co := range prev.coords {
				if strings.EqualFold(co.node, n.Node) {
					c.Label("node-removed-with-coordinates")
				}
			}
			for _, ss := range prev.sessions {
				if strings.EqualFold(ss.Node, n.Node) {
					c.Label("node-removed-with-sessions")
				}
			}
		}
	}
	for k, sn := range prev.svcByKey {
		if cur.svcByKey[k] != nil {
			continue
		}
		for _, ck := range prev.checks {
			if ck.ServiceID != "" && verifC07SvcKey(ck.PeerName, ck.Node, ck.ServiceID) == k {
				c.Label("service-removed-with-checks")
			}
		}
		_ = sn
	}

	// topology shapes
	pt, ct := prev.verifC07ExpectTopo(), cur.verifC07ExpectTopo()
	for _, uids := range ct.must {
		if len(uids) >= 2 {
			c.Label("link-declared-by-several-instances")
		}
	}
	for pair, uids := range pt.must {
		if len(uids) >= 2 && len(ct.must[pair]) >= 1 && len(ct.must[pair]) < len(uids) {
			c.Label("shared-link-lost-one-declarer")
			c.NonTrivial()
		}
	}

	// gateway / destination config shapes
	for _, ge := range cur.gwEntries {
		if len(ge.wild) > 0 {
			c.Labelf("wildcard-entry=%s", ge.kind)
		}
	}
	if len(cur.dests) > 0 {
		c.Label("destination-defaults")
	}

	// virtual IPs
	if cur.flags[structs.SystemMetadataVirtualIPsEnabled] {
		c.Label("vips-enabled")
	}
	prevFree := map[string]bool{}
	for _, fr := range prev.free {
		if !fr.counter {
			prevFree[fr.off] = true
		}
	}
	prevAssigned := map[string]string{}
	for _, x := range prev.vips {
		prevAssigned[x.peer+"|"+x.name] = x.off
	}
	for _, x := range cur.vips {
		if prevFree[x.off] && prevAssigned[x.peer+"|"+x.name] != x.off {
			c.Label("vip-reused-from-free-list")
		}
	}
	if len(cur.free) > len(prev.free) && len(prev.free) > 0 {
		c.Label("vip-freed")
	}
}

// ---- R1 / R2

func (m *verifC07Machine) checkR1R2(prev, cur *verifC07View, op *vs.Op) {
	after := verifC07OpClass(op)
	// R2: nodes that disappeared
	for _, k := range verifC07SortedKeys(prev.nodes) {
		if cur.nodes[k] != nil {
			continue
		}
		n := prev.nodes[k]
		for _, sn := range cur.services {
			if verifC07NodeKey(sn.PeerName, sn.Node) == k {
				m.report("C07/R2/removed-node-leaves-service/after="+after, "svc:"+verifC07SvcKey(sn.PeerName, sn.Node, sn.ServiceID), "after %s: node %q (peer %q) was removed but service instance %s is still there", op.Desc, n.Node, n.PeerName, sn.ServiceID)
			}
		}
		for _, ck := range cur.checks {
			if verifC07NodeKey(ck.PeerName, ck.Node) == k {
				m.report("C07/R2/removed-node-leaves-check/after="+after, "chk:"+k+"|"+string(ck.CheckID), "after %s: node %q (peer %q) was removed but check %s is still there", op.Desc, n.Node, n.PeerName, ck.CheckID)
			}
		}
		if n.PeerName != "" {
			continue
		}
		for _, co := range cur.coords {
			if strings.EqualFold(co.node, n.Node) {
				m.report("C07/R2/removed-node-leaves-coordinate/after="+after, "coord:"+co.node+"|"+co.segment, "after %s: node %q was removed but its coordinate (segment %q) is still there", op.Desc, n.Node, co.segment)
			}
		}
		for _, ss := range cur.sessions {
			if strings.EqualFold(ss.Node, n.Node) {
				m.report("C07/R2/removed-node-leaves-session/after="+after, "sess:"+ss.ID, "after %s: node %q was removed but session %s is still there", op.Desc, n.Node, ss.ID)
			}
		}
	}
	// R2: node deleted and re-created within the step
	for _, k := range verifC07SortedKeys(cur.nodes) {
		n, p := cur.nodes[k], prev.nodes[k]
		if p == nil || n.CreateIndex != op.Idx || p.CreateIndex == op.Idx {
			continue
		}
		m.c.Label("node-recreated-in-step")
		for _, sn := range cur.services {
			if verifC07NodeKey(sn.PeerName, sn.Node) == k && sn.CreateIndex != op.Idx {
				m.report("C07/R2/recreated-node-keeps-service/after="+after, "svc:"+verifC07SvcKey(sn.PeerName, sn.Node, sn.ServiceID), "after %s: node %q was deleted and re-created in this step but service instance %s (CreateIndex %d) survived", op.Desc, n.Node, sn.ServiceID, sn.CreateIndex)
			}
		}
		for _, ck := range cur.checks {
			if verifC07NodeKey(ck.PeerName, ck.Node) == k && ck.CreateIndex != op.Idx {
				m.report("C07/R2/recreated-node-keeps-check/after="+after, "chk:"+k+"|"+string(ck.CheckID), "after %s: node %q was deleted and re-created in this step but check %s (CreateIndex %d) survived", op.Desc, n.Node, ck.CheckID, ck.CreateIndex)
			}
		}
		if n.PeerName == "" {
			for _, ss := range cur.sessions {
				if strings.EqualFold(ss.Node, n.Node) && ss.CreateIndex != op.Idx {
					m.report("C07/R2/recreated-node-keeps-session/after="+after, "sess:"+ss.ID, "after %s: node %q was deleted and re-created in this step but session %s survived", op.Desc, n.Node, ss.ID)
				}
			}
		}
	}
	// R2: service instances that disappeared / were re-created
	for _, k := range verifC07SortedKeys(prev.svcByKey) {
		p, n := prev.svcByKey[k], cur.svcByKey[k]
		if n != nil && (n.CreateIndex != op.Idx || p.CreateIndex == op.Idx) {
			continue
		}
		for _, ck := range cur.checks {
			if ck.ServiceID == "" || verifC07SvcKey(ck.PeerName, ck.Node, ck.ServiceID) != k {
				continue
			}
			ent := "chk:" + verifC07NodeKey(ck.PeerName, ck.Node) + "|" + string(ck.CheckID)
			if n == nil {
				m.report("C07/R2/removed-service-leaves-check/after="+after, ent, "after %s: service instance %s on %q was removed but its check %s is still there", op.Desc, p.ServiceID, p.Node, ck.CheckID)
			} else if ck.CreateIndex != op.Idx {
				m.report("C07/R2/recreated-service-keeps-check/after="+after, ent, "after %s: service instance %s on %q was deleted and re-created in this step but its check %s (CreateIndex %d) survived", op.Desc, p.ServiceID, p.Node, ck.CheckID, ck.CreateIndex)
			}
		}
	}
	// R1
	for _, sn := range cur.services {
		if cur.nodes[verifC07NodeKey(sn.PeerName, sn.Node)] == nil {
			m.report("C07/R1/service-without-node", "svc:"+verifC07SvcKey(sn.PeerName, sn.Node, sn.ServiceID), "after %s: service instance %s/%s (peer %q) names a node that does not exist", op.Desc, sn.Node, sn.ServiceID, sn.PeerName)
		}
	}
	for _, ck := range cur.checks {
		nk := verifC07NodeKey(ck.PeerName, ck.Node)
		ent := "chk:" + nk + "|" + string(ck.CheckID)
		if cur.nodes[nk] == nil {
			m.report("C07/R1/check-without-node", ent, "after %s: check %s/%s (peer %q) names a node that does not exist", op.Desc, ck.Node, ck.CheckID, ck.PeerName)
			continue
		}
		if ck.ServiceID != "" {
			sn := cur.svcByKey[verifC07SvcKey(ck.PeerName, ck.Node, ck.ServiceID)]
			if sn == nil {
				m.report("C07/R1/check-without-service", ent, "after %s: check %s/%s is scoped to service instance %q which does not exist", op.Desc, ck.Node, ck.CheckID, ck.ServiceID)
			} else if ck.ServiceName != sn.ServiceName {
				key := "C07/R1/check-service-name-differs"
				for _, old := range m.renamed {
					if ck.PeerName == "" && strings.EqualFold(old.Node, ck.Node) && old.ServiceID == ck.ServiceID && ck.ServiceName == old.ServiceName {
						key = verifC07KeyInPlaceRename
					}
				}
				m.report(key, ent, "after %s: check %s/%s says service name %q, instance %s is %q", op.Desc, ck.Node, ck.CheckID, ck.ServiceName, sn.ServiceID, sn.ServiceName)
			}
		}
	}
	for _, co := range cur.coords {
		if cur.nodes[verifC07NodeKey("", co.node)] == nil {
			m.report("C07/R1/coordinate-without-node", "coord:"+co.node+"|"+co.segment, "after %s: coordinate of %q (segment %q) names a node that does not exist", op.Desc, co.node, co.segment)
		}
	}
}

// ---- R3 kind-service-names

func (m *verifC07Machine) checkKSN(cur *verifC07View, op *vs.Op) {
	after := verifC07OpClass(op)
	want := cur.verifC07ExpectKSN()
	for _, k := range verifC07SortedKeys(want) {
		if !cur.ksn[k] {
			kind := k[:strings.Index(k, "|")]
			m.report("C07/R3/kind-service-names/missing/kind="+kind+"/after="+after, "ksn:"+k, "after %s: kind-service-names lacks %q although the base tables imply it", op.Desc, k)
		}
	}
	for _, k := range verifC07SortedKeys(cur.ksn) {
		if !want[k] {
			kind := k[:strings.Index(k, "|")]
			key := "C07/R3/kind-service-names/stale/kind=" + kind + "/after=" + after
			switch {
			case kind == string(structs.ServiceKindConnectEnabled) && (op.Kind == vs.Register || op.Kind == vs.Txn):
				key = verifC07KeyConnectEnabledStale // nothing was deleted in this step: an in-place update dropped the last connect-enabled instance
			case kind == string(structs.ServiceKindDestination) && after == vs.ConfigSet+"/"+structs.ServiceDefaults:
				key = verifC07KeyDestinationStale
			}
			if m.taintKSN[k[strings.Index(k, "|")+1:]] && kind != string(structs.ServiceKindConnectEnabled) && kind != string(structs.ServiceKindDestination) {
				key = verifC07KeyInPlaceRename
			}
			m.report(key, "ksn:"+k, "after %s: kind-service-names holds %q which nothing in the base tables or config entries implies", op.Desc, k)
		}
	}
}

// ---- R3 usage

func (m *verifC07Machine) checkUsage(cur *verifC07View, op *vs.Op) {
	want := cur.verifC07ExpectUsage()
	ids := map[string]bool{}
	for k := range want {
		ids[k] = true
	}
	for k := range cur.usage {
		if k == "kvs" || k == "peering" {
			continue // not catalog data
		}
		ids[k] = true
	}
	for _, id := range verifC07SortedKeys(ids) {
		if cur.usage[id] != want[id] {
			m.report("C07/R3/usage/"+id, "usage:"+id, "after %s: usage[%s] = %d, counting the base tables gives %d", op.Desc, id, cur.usage[id], want[id])
		}
	}
	// the public getters must say the same as the table
	_, su, err := m.w.Store.ServiceUsage(nil, false)
	if err != nil {
		m.report("C07/R3/usage/getter-error", "", "ServiceUsage: %v", err)
		return
	}
	_, nu, _ := m.w.Store.NodeUsage()
	if su.ServiceInstances != want["services"] || su.Services != want["service-names"] || su.Nodes != want["nodes"] || nu.Nodes != want["nodes"] ||
		su.BillableServiceInstances != want["billable-services"] || su.ConnectServiceInstances[string(structs.ServiceKindConnectProxy)] != want["connect-mesh-connect-proxy"] ||
		su.ConnectServiceInstances["connect-native"] != want["connect-mesh-connect-native"] {
		m.report("C07/R3/usage/getter", "usage:getter", "after %s: ServiceUsage() = %+v NodeUsage() = %+v, counting the base tables gives %v", op.Desc, su, nu, want)
	}
}

// ---- R3 mesh-topology

func (m *verifC07Machine) checkTopo(prev, cur *verifC07View, op *vs.Op) {
	after := verifC07OpClass(op)
	ex := cur.verifC07ExpectTopo()
	gwLinks := map[string]bool{}
	for _, g := range cur.gw {
		if g.gwKind == string(structs.ServiceKindIngressGateway) && g.service != structs.WildcardSpecifier {
			gwLinks[g.service+">"+g.gateway] = true
		}
	}
	isRegister := op.Kind == vs.Register || op.Kind == vs.Txn
	for _, pair := range verifC07SortedKeys(ex.must) {
		ent := "topo:" + pair
		refs, ok := cur.topo[pair]
		if !ok {
			key := "C07/R3/mesh-topology/missing-link/after=" + after
			if _, had := prev.topo[pair]; had {
				switch {
				case op.Kind == vs.Register && op.P.Reg.PeerName == "":
					// the link existed, instances still declare it, and this step only (re-)registered something:
					// an in-place edit of ANOTHER instance's upstream list removed the whole row
					key = verifC07KeyLinkDroppedOnEdit
				case op.Kind == vs.Txn:
					// same inside a transaction; if the transaction also deletes a service or node, the other way to
					// lose a declared link is at work: a service:set replaced the row's references (refs-lost) and the
					// delete of that instance then removed the row. The intermediate state is not observable, the
					// verbs decide which of the two known signatures is used.
					key = verifC07KeyLinkDroppedOnEdit
					for _, t := range op.P.Txn {
						if (t.Service != nil && (t.Service.Verb == api.ServiceDelete || t.Service.Verb == api.ServiceDeleteCAS)) ||
							(t.Node != nil && (t.Node.Verb == api.NodeDelete || t.Node.Verb == api.NodeDeleteCAS)) {
							key = verifC07KeyRefsLost
						}
					}
				}
			}
			m.report(key, ent, "after %s: mesh-topology lacks link %s although %v declare(s) it", op.Desc, pair, verifC07SortedKeys(ex.must[pair]))
			continue
		}
		for _, uid := range verifC07SortedKeys(ex.must[pair]) {
			if refs[uid] {
				continue
			}
			key := "C07/R3/mesh-topology/missing-ref/after=" + after
			if isRegister {
				// the instance declares the link and the step registered (another) instance: the row was replaced
				// instead of extended (both registrations may be verbs of one transaction)
				key = verifC07KeyRefsLost
			}
			m.report(key, ent, "after %s: link %s is declared by %s but references only %v", op.Desc, pair, uid, verifC07SortedKeys(refs))
		}
	}
	for _, pair := range verifC07SortedKeys(gwLinks) {
		if _, ok := cur.topo[pair]; !ok {
			key := "C07/R3/mesh-topology/missing-gateway-link/after=" + after
			if _, had := prev.topo[pair]; had {
				lost := 0
				for _, g := range prev.gw {
					if g.gwKind == string(structs.ServiceKindIngressGateway) && g.service+">"+g.gateway == pair {
						if _, still := cur.gwIDs[g.id()]; !still {
							lost++
						}
					}
				}
				if lost > 0 || (op.Kind != vs.ConfigSet && op.Kind != vs.ConfigDelete) {
					// the link went away together with ONE of the pair's rows while another row is still there; the row
					// may have been created and removed within this very step (transaction): outside config entry writes
					// deleteGatewayServiceTopologyMapping is the only code that removes a single gateway link
					key = verifC07KeyIngressLinkDropped
				}
			}
			m.report(key, "topo:"+pair, "after %s: gateway-services links %s but mesh-topology has no such link", op.Desc, pair)
		}
	}
	for _, pair := range verifC07SortedKeys(cur.topo) {
		refs := cur.topo[pair]
		ent := "topo:" + pair
		if gwLinks[pair] && len(ex.must[pair]) == 0 && len(ex.may[pair]) == 0 {
			if len(refs) > 0 {
				m.report("C07/R3/mesh-topology/stale-ref/after="+after, ent, "after %s: gateway link %s carries proxy references %v", op.Desc, pair, verifC07SortedKeys(refs))
			}
			continue
		}
		// references left behind by an instance that this step (or an earlier, already counted one) registered again in
		// place as something that is no proxy any more / a proxy for another destination
		renamedRef := func(uid string) bool { return m.taintUID[uid] }
		if len(ex.must[pair]) == 0 && len(ex.may[pair]) == 0 {
			key := "C07/R3/mesh-topology/stale-link/after=" + after
			all := len(refs) > 0
			for uid := range refs {
				all = all && renamedRef(uid)
			}
			if all {
				key = verifC07KeyInPlaceRename
			}
			m.report(key, ent, "after %s: mesh-topology holds link %s (refs %v) which no local proxy instance and no ingress gateway link declares", op.Desc, pair, verifC07SortedKeys(refs))
			continue
		}
		for _, uid := range verifC07SortedKeys(refs) {
			if !ex.must[pair][uid] && !ex.may[pair][uid] {
				key := "C07/R3/mesh-topology/stale-ref/after=" + after
				if renamedRef(uid) {
					key = verifC07KeyInPlaceRename
				}
				m.report(key, ent, "after %s: link %s references %s which does not declare it (any more)", op.Desc, pair, uid)
			}
		}
	}
}

// ---- R3 gateway-services (bounds)

func (m *verifC07Machine) checkGateways(prev, cur *verifC07View, op *vs.Op) {
	after := verifC07OpClass(op)
	pres := cur.verifC07Presence()
	present := func(name string) bool {
		return name != structs.ConsulServiceName && (pres.named[name] || pres.connect[name] || cur.dests[name])
	}
	// soundness
	for _, g := range cur.gw {
		ent := "gs:" + g.id()
		ge := cur.gwEntries[g.gwKind+"|"+g.gateway]
		if ge == nil {
			m.report("C07/R3/gateway-services/row-of-missing-gateway-entry/gwkind="+g.gwKind+"/after="+after, ent, "after %s: gateway-services row %+v but there is no %s config entry %q", op.Desc, g, g.gwKind, g.gateway)
			continue
		}
		if g.service == structs.WildcardSpecifier {
			if !ge.wild[g.port] {
				m.report("C07/R3/gateway-services/unjustified-wildcard-marker/gwkind="+g.gwKind+"/after="+after, ent, "after %s: wildcard marker row %+v but the entry has no wildcard at that port", op.Desc, g)
			} else if want := ge.attrs[fmt.Sprintf("%s|%d", g.service, g.port)]; g.attrs != want {
				m.report("C07/R3/gateway-services/row-settings-differ-from-entry/gwkind="+g.gwKind+"/after="+after, ent, "after %s: wildcard marker row of %s carries %s, its config entry says %s", op.Desc, g.gateway, g.attrs, want)
			}
			continue
		}
		if ge.explicit[fmt.Sprintf("%s|%d", g.service, g.port)] {
			// the row repeats the link's settings (hosts, protocol, TLS files, SNI): it is what the proxy configuration
			// of the gateway is generated from, so it must say what the entry says
			if want := ge.attrs[fmt.Sprintf("%s|%d", g.service, g.port)]; !g.fromWildcard && g.attrs != want {
				m.report("C07/R3/gateway-services/row-settings-differ-from-entry/gwkind="+g.gwKind+"/after="+after, ent, "after %s: row %s -> %s (port %d) carries %s, the gateway's config entry says %s", op.Desc, g.gateway, g.service, g.port, g.attrs, want)
			}
			continue
		}
		if ge.wild[g.port] && present(g.service) {
			continue
		}
		key := "C07/R3/gateway-services/unjustified-row/gwkind=" + g.gwKind + "/after=" + after
		if _, had := prev.gwIDs[g.id()]; !had && op.Kind == vs.Register && op.P.Reg.PeerName != "" && op.P.Reg.Service != nil && op.P.Reg.Service.Kind == structs.ServiceKindConnectProxy {
			key = verifC07KeyPeerProxyWildcard
		}
		if _, had := prev.gwIDs[g.id()]; had && after == vs.ConfigSet+"/"+structs.ServiceDefaults && prev.dests[g.service] && !cur.dests[g.service] {
			key = verifC07KeyDestinationStale // the row was justified by the destination entry that this step rewrote without destination
		}
		m.report(key, ent, "after %s: gateway-services row %+v is justified neither by an explicit service of the entry nor by a wildcard plus a local instance / connect instance / destination entry of %q", op.Desc, g, g.service)
	}
	// completeness
	for _, gk := range verifC07SortedKeys(cur.gwEntries) {
		ge := cur.gwEntries[gk]
		for _, e := range verifC07SortedKeys(ge.explicit) {
			id := ge.name + "|" + e
			if row, ok := cur.gwIDs[id]; !ok {
				key := "C07/R3/gateway-services/missing-explicit-row/gwkind=" + ge.gwKind + "/after=" + after
				if pe := prev.gwEntries[gk]; pe != nil && pe.explicit[e] && len(pe.wild) > 0 {
					if _, had := prev.gwIDs[id]; had && op.Kind != vs.ConfigSet && op.Kind != vs.ConfigDelete {
						// the entry listed the service before and after, the row was there and no config entry was written:
						// only cleanupGatewayWildcards removes single rows, and only rows marked FromWildcard, so the
						// explicit row was overwritten by the wildcard copy and removed within this step
						key = verifC07KeyExplicitOverwritten
					}
				}
				m.report(key, "gs:"+id, "after %s: %s entry %q lists %q (service|port) but gateway-services has no such row", op.Desc, ge.kind, ge.name, e)
			} else if row.fromWildcard {
				// "Since this service was specified on its own, and not with a wildcard, if there is an existing entry,
				// we overwrite it. The service entry is the source of truth." (updateGatewayServices)
				m.report(verifC07KeyExplicitOverwritten, "gs:"+id, "after %s: %s entry %q lists %q explicitly but its gateway-services row is marked FromWildcard (it will be removed with the service's last instance): %+v", op.Desc, ge.kind, ge.name, e, row)
			}
		}
		var ports []int
		for p := range ge.wild {
			ports = append(ports, p)
		}
		sort.Ints(ports)
		for _, p := range ports {
			id := fmt.Sprintf("%s|*|%d", ge.name, p)
			if _, ok := cur.gwIDs[id]; !ok {
				m.report("C07/R3/gateway-services/missing-wildcard-marker/gwkind="+ge.gwKind+"/after="+after, "gs:"+id, "after %s: %s entry %q has a wildcard at port %d but no marker row", op.Desc, ge.kind, ge.name, p)
			}
			for _, name := range verifC07SortedKeys(pres.typical) {
				if name == structs.ConsulServiceName {
					continue
				}
				eligible := false
				switch ge.gwKind {
				case string(structs.ServiceKindIngressGateway):
					eligible = pres.connect[name]
				case string(structs.ServiceKindTerminatingGateway):
					eligible = pres.typicalNonNat[name]
				}
				if !eligible {
					continue
				}
				id := fmt.Sprintf("%s|%s|%d", ge.name, name, p)
				if _, ok := cur.gwIDs[id]; !ok {
					m.report("C07/R3/gateway-services/missing-wildcard-row/gwkind="+ge.gwKind+"/after="+after, "gs:"+id, "after %s: %s entry %q has a wildcard at port %d and %q has an eligible local instance, but gateway-services has no row for it", op.Desc, ge.kind, ge.name, p, name)
				}
			}
		}
	}
}

// ---- R4 virtual IPs

func (m *verifC07Machine) checkVIPs(prev, cur *verifC07View, op *vs.Op) {
	after := verifC07OpClass(op)
	byIP := map[string]string{}
	for _, x := range cur.vips {
		who := x.peer + "|" + x.name
		if other, dup := byIP[x.off]; dup {
			m.report("C07/R4/ip-assigned-to-two-services", "ip:"+x.off, "after %s: virtual IP %s (offset %s) is assigned to %q and to %q", op.Desc, x.real, x.off, other, who)
		}
		byIP[x.off] = who
	}
	var counter *verifC07Free
	seenFree := map[string]bool{}
	for i, fr := range cur.free {
		if fr.counter {
			if counter != nil {
				m.report("C07/R4/two-counters", "", "after %s: free-virtual-ips holds two counter rows (%s, %s)", op.Desc, counter.off, fr.off)
			}
			counter = &cur.free[i]
			continue
		}
		if seenFree[fr.off] {
			m.report("C07/R4/ip-free-twice", "ip:"+fr.off, "after %s: offset %s is in the free list twice", op.Desc, fr.off)
		}
		seenFree[fr.off] = true
		if who, ok := byIP[fr.off]; ok {
			m.report("C07/R4/ip-assigned-and-free", "ip:"+fr.off, "after %s: offset %s is assigned to %q and also in the free list", op.Desc, fr.off, who)
		}
	}
	for off := range byIP {
		if counter == nil || verifC07IPLess(counter.off, off) {
			m.report("C07/R4/counter-below-assigned-ip", "ip:"+off, "after %s: offset %s is assigned but the counter is %v", op.Desc, off, counter)
		}
	}
	for off := range seenFree {
		if counter == nil || verifC07IPLess(counter.off, off) {
			m.report("C07/R4/counter-below-free-ip", "ip:"+off, "after %s: offset %s is in the free list but the counter is %v", op.Desc, off, counter)
		}
	}
	// advertised addresses
	for _, sn := range cur.services {
		if adv, ok := sn.ServiceTaggedAddresses[structs.TaggedAddressVirtualIP]; ok {
			dest := verifC07ConnectName(sn)
			if dest == "" {
				dest = sn.ServiceName
			}
			ent := "vip:" + sn.PeerName + "|" + dest
			got, err := m.w.Store.VirtualIPForService(structs.PeeredServiceName{Peer: sn.PeerName, ServiceName: structs.NewServiceName(dest, nil)})
			switch {
			case err != nil:
				m.report("C07/R4/lookup-error", ent, "VirtualIPForService(%q,%q): %v", sn.PeerName, dest, err)
			case got == "":
				m.report(m.vipFreedKey(prev, cur, op, sn.PeerName, dest, after), ent, "after %s: instance %s/%s (peer %q) advertises consul-virtual=%s for service %q, which has NO assignment (row freed while still advertised; free list %v)", op.Desc, sn.Node, sn.ServiceID, sn.PeerName, adv.Address, dest, cur.free)
			case got != adv.Address && prev.vipOf[sn.PeerName+"|"+dest] == adv.Address:
				// the advertisement was right before this step and the service's assignment changed under it: rows
				// are only ever removed by freeServiceVirtualIP, so it was freed while advertised and re-assigned
				// (from the free list) within the same step
				m.report(m.vipFreedKey(prev, cur, op, sn.PeerName, dest, after), ent, "after %s: instance %s/%s (peer %q) advertises consul-virtual=%s for service %q, whose assignment was freed and re-made as %s within this step", op.Desc, sn.Node, sn.ServiceID, sn.PeerName, adv.Address, dest, got)
			case got != adv.Address:
				m.report("C07/R4/advertised-ip-differs/after="+after, ent, "after %s: instance %s/%s (peer %q) advertises consul-virtual=%s, service %q is assigned %s", op.Desc, sn.Node, sn.ServiceID, sn.PeerName, adv.Address, dest, got)
			}
		}
		if sn.ServiceKind != structs.ServiceKindTerminatingGateway || !verifC07IsLocal(sn) {
			continue
		}
		for _, tag := range verifC07SortedKeys(sn.ServiceTaggedAddresses) {
			if !strings.HasPrefix(tag, structs.TaggedAddressVirtualIP+":") {
				continue
			}
			name := strings.TrimPrefix(tag, structs.TaggedAddressVirtualIP+":")
			// an entity of its own (per gateway and service): excusing a proxy's advertisement of the same service
			// (vip-freed-under-instance-name) must not swallow what the gateway instance advertises, and vice versa
			ent := "gwvip:" + sn.ServiceName + "|" + name
			got := cur.vipOf["|"+name]
			adv := sn.ServiceTaggedAddresses[tag].Address
			if got == adv {
				delete(m.excused, ent) // consistent again (tags rebuilt from a rewritten entry): later divergence is news
				continue
			}
			ge := cur.gwEntries[string(structs.ServiceKindTerminatingGateway)+"|"+sn.ServiceName]
			listed := ge != nil && (ge.explicit[name+"|0"] || (name == structs.WildcardSpecifier && ge.wild[0]))
			key := "C07/R4/gateway-advertised-ip-differs/after=" + after
			switch {
			case !listed:
				// the tag outlived the config entry (or the entry's mention of the service) it was derived from
				key = verifC07KeyGatewayTagStale
			case m.excused["gs:"+sn.ServiceName+"|"+name+"|0"]:
				continue // consequence of the explicit row having been overwritten and removed (reported there)
			case got == "":
				// the entry lists the service, the gateway-services row is what protects the assignment
				// (freeServiceVirtualIP): it was released although a terminating gateway still links the service
				key = "C07/R4/gateway-advertises-unassigned-ip/after=" + after
				if _, linked := cur.gwIDs[sn.ServiceName+"|"+name+"|0"]; linked {
					key = "C07/R4/gateway-vip-tag-names-unassigned-ip/linked-by-terminating-gateway/after=" + after
				}
			}
			m.report(key, ent, "after %s: gateway instance %s/%s advertises %s=%s, service %q is assigned %q (listed by the gateway's entry: %v)", op.Desc, sn.Node, sn.ServiceID, tag, adv, name, got, listed)
		}
	}
}

// ---- running cases

func verifC07Run(f verifkit.F, c *verifkit.Case, next func(m *verifC07Machine, i int) *vs.Op) {
	m := verifC07New(f, c)
	defer c.GuardPanic(f, "C07/panic")
	for i := 0; ; i++ {
		op := next(m, i)
		if op == nil {
			break
		}
		c.Op(op)
		m.step(op)
	}
}

func TestVerifC07Catalog(t *testing.T) {
	rec := verifkit.For("C07")
	defer rec.Flush()
	maxSteps := verifkit.EnvInt("VERIF_C07_STEPS", 44)
	rapid.Check(t, func(t *rapid.T) {
		c := rec.NewCase()
		n := rapid.IntRange(8, maxSteps).Draw(t, "steps")
		flags := rapid.IntRange(0, 9).Draw(t, "flags") // 0: none, 1: VIPs only, else both
		cfg := verifC07Cfg
		if rapid.IntRange(0, 9).Draw(t, "mode") < 2 {
			// every fifth case dwells on one service linked by two gateways (the shape needs 6-7 aimed ops in a row)
			focused := *verifC07Cfg
			focused.MultiGwW = 60
			cfg = &focused
			c.Label("mode=multi-gateway")
		}
		verifC07Run(t, c, func(m *verifC07Machine, i int) *vs.Op {
			switch {
			case i == 0 && flags >= 1:
				m.w.Idx++
				return vs.NewSysMeta(m.w.Idx, structs.SystemMetadataVirtualIPsEnabled, "true")
			case i == 1 && flags >= 2:
				m.w.Idx++
				return vs.NewSysMeta(m.w.Idx, structs.SystemMetadataTermGatewayVirtualIPsEnabled, "true")
			case i >= n+2:
				return nil
			}
			return m.w.C07DrawOp(t, cfg)
		})
		c.Done()
	})
}

func verifC07Feeder(ops []*vs.Op) func(m *verifC07Machine, i int) *vs.Op {
	return func(m *verifC07Machine, i int) *vs.Op {
		if i >= len(ops) {
			return nil
		}
		return ops[i]
	}
}

// verifC07Witnesses are fixed minimal histories of the known findings (run through the same step function).
// vipFreedKey names the root cause of "an instance advertises an address its service no longer owns". The listed
// finding (the address is assigned under the proxy's destination name but released under the removed instance's own
// name) has one shape: THIS step removed a catalog instance that carries the destination's own name. An address
// released by anything else - a gateway entry rewrite, a config entry write or delete, a registration - is a different
// defect and is reported under its own key.
func (m *verifC07Machine) vipFreedKey(prev, cur *verifC07View, op *vs.Op, peer, dest, after string) string {
	// an instance named like the destination was removed by this step (it may have come back within the same step:
	// a node taking over another node's ID deletes that node with its services before the new registration is stored)
	for k, sn := range prev.svcByKey {
		if sn.PeerName != peer || !strings.EqualFold(sn.ServiceName, dest) {
			continue
		}
		if n, still := cur.svcByKey[k]; !still || !strings.EqualFold(n.ServiceName, dest) || n.ModifyIndex != sn.ModifyIndex && n.CreateIndex != sn.CreateIndex {
			return verifC07KeyVIPFreed
		}
	}
	// ... or a transaction stored such an instance and removed it again, so that neither view shows it
	if op.Kind == vs.Txn && peer == "" {
		set := map[string]bool{}
		for _, t := range op.P.Txn {
			switch {
			case t.Service != nil && (t.Service.Verb == api.ServiceSet || t.Service.Verb == api.ServiceCAS) && strings.EqualFold(t.Service.Service.Service, dest):
				set[strings.ToLower(t.Service.Node)] = true
			case t.Service != nil && (t.Service.Verb == api.ServiceDelete || t.Service.Verb == api.ServiceDeleteCAS) && set[strings.ToLower(t.Service.Node)]:
				return verifC07KeyVIPFreed
			case t.Node != nil && (t.Node.Verb == api.NodeDelete || t.Node.Verb == api.NodeDeleteCAS) && set[strings.ToLower(t.Node.Node.Node)]:
				return verifC07KeyVIPFreed
			}
		}
	}
	return "C07/R4/advertised-ip-released-by-other-path/after=" + after
}

func verifC07Witnesses() map[string][]*vs.Op {
	em := *structs.DefaultEnterpriseMetaInDefaultPartition()
	reg := func(idx uint64, node, peer string, svc *structs.NodeService) *vs.Op {
		r := &structs.RegisterRequest{Datacenter: "dc1", Node: node, ID: vs.NodeIDs[node], Address: "10.0.0." + node[1:], PeerName: peer, EnterpriseMeta: em}
		if svc != nil {
			svc.PeerName = peer
			svc.EnterpriseMeta = em
			svc.Weights = &structs.Weights{Passing: 1, Warning: 1}
			r.Service = svc
		}
		return vs.NewRegister(idx, r)
	}
	typical := func(name string) *structs.NodeService {
		return &structs.NodeService{Service: name, ID: name + "-1", Port: 8080}
	}
	proxy := func(dst string, ups ...string) *structs.NodeService {
		s := &structs.NodeService{Kind: structs.ServiceKindConnectProxy, Service: dst + "-proxy", ID: dst + "-proxy-1", Port: 20000,
			Proxy: structs.ConnectProxyConfig{DestinationServiceName: dst}}
		for i, u := range ups {
			s.Proxy.Upstreams = append(s.Proxy.Upstreams, structs.Upstream{DestinationType: structs.UpstreamDestTypeService, DestinationName: u, LocalBindPort: 9000 + i})
		}
		return s
	}
	vipsOn := vs.NewSysMeta(11, structs.SystemMetadataVirtualIPsEnabled, "true")
	peerUp := func(s *structs.NodeService) *structs.NodeService {
		for i := range s.Proxy.Upstreams {
			s.Proxy.Upstreams[i].DestinationPeer = "peerA"
		}
		return s
	}
	native := func(name string) *structs.NodeService {
		s := typical(name)
		s.Connect.Native = true
		return s
	}
	cfg := func(idx uint64, e structs.ConfigEntry) *vs.Op {
		if err := e.Normalize(); err != nil {
			panic(err)
		}
		if err := e.Validate(); err != nil {
			panic(err)
		}
		return vs.NewConfig(vs.ConfigSet, idx, structs.ConfigEntryUpsert, e)
	}
	ingress := func(ls ...structs.IngressListener) structs.ConfigEntry {
		return &structs.IngressGatewayConfigEntry{Kind: structs.IngressGateway, Name: "ingress-gw", Listeners: ls}
	}
	wildListener := structs.IngressListener{Port: 8000, Protocol: "http", Services: []structs.IngressService{{Name: "*"}}}
	return map[string][]*vs.Op{
		// J: web + web-proxy->web get 240.0.0.1; deregistering the `web` instance frees web's assignment while
		// web-proxy still advertises it; api-proxy then receives the same address.
		"witness-vip-freed-under-instance-name": {
			vipsOn,
			reg(12, "n1", "", typical("web")),
			reg(13, "n1", "", proxy("web")),
			vs.NewDereg(vs.DeregService, 14, "n1", "web-1", ""),
			reg(15, "n1", "", proxy("api")),
		},
		// K: two instances of web-proxy declare upstream api; the second registration replaces the row (only its
		// own reference survives); deregistering the second then deletes the link the first still declares.
		"witness-mesh-topology-refs-lost": {
			reg(12, "n1", "", proxy("web", "api")),
			reg(13, "n2", "", proxy("web", "api")),
			vs.NewDereg(vs.DeregService, 14, "n2", "web-proxy-1", ""),
		},
		// L: n2/web-proxy-1 stops declaring upstream api: the whole link is deleted although n1/web-proxy-1 still
		// declares it. n2's upstream points into peerA so that K's loss of n2's reference at step 13 is not itself a
		// finding (references of peer upstreams are accepted either way) and L shows on a tree that still has K.
		"witness-mesh-topology-link-dropped-on-upstream-edit": {
			reg(12, "n2", "", peerUp(proxy("web", "api"))),
			reg(13, "n1", "", proxy("web", "api")),
			reg(14, "n2", "", proxy("web")),
		},
		// C17's finding seen through C07: a peer-imported proxy registers under an ingress wildcard and leaves a
		// gateway-services row for a name that has no local presence (never cleaned up).
		"witness-gateway-wildcard-row-for-peer-imported-proxy": {
			cfg(12, ingress(wildListener)),
			reg(13, "n1", "peerA", proxy("web")),
		},
		// web-1 stops being connect-native in place: (connect-enabled, web) stays.
		"witness-connect-enabled-name-survives-in-place-update": {
			reg(12, "n1", "", native("web")),
			reg(13, "n1", "", typical("web")),
		},
		// service-defaults db loses its destination in place: (destination, db) stays, also after the entry is deleted.
		"witness-destination-name-survives-defaults-rewrite": {
			cfg(12, &structs.ServiceConfigEntry{Kind: structs.ServiceDefaults, Name: "db", Protocol: "tcp", Destination: &structs.DestinationConfig{Addresses: []string{"1.2.3.4"}, Port: 443}}),
			cfg(13, &structs.ServiceConfigEntry{Kind: structs.ServiceDefaults, Name: "db", Protocol: "tcp"}),
			vs.NewConfig(vs.ConfigDelete, 14, structs.ConfigEntryDelete, &structs.ServiceConfigEntry{Kind: structs.ServiceDefaults, Name: "db"}),
		},
		// ingress-gw routes to api on 8001 explicitly and on 8000 through the wildcard; when api's proxy goes away
		// the wildcard row is removed and with it the topology link api>ingress-gw, although 8001 still routes to api.
		"witness-ingress-topology-link-dropped": {
			cfg(12, ingress(wildListener, structs.IngressListener{Port: 8001, Protocol: "tcp", Services: []structs.IngressService{{Name: "api"}}})),
			reg(13, "n1", "", typical("api")),
			reg(14, "n1", "", proxy("api")),
			vs.NewDereg(vs.DeregService, 15, "n1", "api-proxy-1", ""),
		},
		// term-gw-1 advertises consul-virtual:web from its entry; the entry is deleted (tag stays); web's last instance
		// goes away and nothing protects the assignment any more.
		"witness-gateway-vip-tag-survives-entry-deletion": {
			vipsOn,
			vs.NewSysMeta(12, structs.SystemMetadataTermGatewayVirtualIPsEnabled, "true"),
			cfg(13, &structs.TerminatingGatewayConfigEntry{Kind: structs.TerminatingGateway, Name: "term-gw", Services: []structs.LinkedService{{Name: "web"}}}),
			reg(14, "n1", "", &structs.NodeService{Kind: structs.ServiceKindTerminatingGateway, Service: "term-gw", ID: "term-gw-1", Port: 8444}),
			vs.NewConfig(vs.ConfigDelete, 15, structs.ConfigEntryDelete, &structs.TerminatingGatewayConfigEntry{Kind: structs.TerminatingGateway, Name: "term-gw"}),
			reg(16, "n1", "", typical("web")),
			vs.NewDereg(vs.DeregService, 17, "n1", "web-1", ""),
		},
		// term-gw lists api explicitly (with SNI) and a wildcard; registering api replaces the explicit row with a copy
		// of the wildcard, deregistering it removes the link although the entry still lists api.
		// web-1 is registered again under the same ID as service db: (typical, web) stays in kind-service-names and the
		// instance's check keeps saying ServiceName web.
		"witness-in-place-rename-keeps-old-name-rows": {
			func() *vs.Op {
				op := reg(12, "n1", "", typical("web"))
				op.P.Reg.Checks = structs.HealthChecks{{Node: "n1", CheckID: "c1", Name: "c1", Status: api.HealthPassing, ServiceID: "web-1", ServiceName: "web"}}
				op.Desc = ""
				return op.Seal()
			}(),
			reg(13, "n1", "", &structs.NodeService{Service: "db", ID: "web-1", Port: 8080}),
		},
		"witness-explicit-gateway-link-overwritten-by-wildcard": {
			cfg(12, &structs.TerminatingGatewayConfigEntry{Kind: structs.TerminatingGateway, Name: "term-gw", Services: []structs.LinkedService{{Name: "*"}, {Name: "api", SNI: "api.example"}}}),
			reg(13, "n1", "", typical("api")),
			vs.NewDereg(vs.DeregService, 14, "n1", "api-1", ""),
		},
	}
}

// verifC07WitnessKeys: the finding each witness demonstrates (key of the corpus file written from it).
var verifC07WitnessKeys = map[string]string{
	"witness-vip-freed-under-instance-name":                 verifC07KeyVIPFreed,
	"witness-mesh-topology-refs-lost":                       verifC07KeyRefsLost,
	"witness-mesh-topology-link-dropped-on-upstream-edit":   verifC07KeyLinkDroppedOnEdit,
	"witness-gateway-wildcard-row-for-peer-imported-proxy":  verifC07KeyPeerProxyWildcard,
	"witness-connect-enabled-name-survives-in-place-update": verifC07KeyConnectEnabledStale,
	"witness-destination-name-survives-defaults-rewrite":    verifC07KeyDestinationStale,
	"witness-ingress-topology-link-dropped":                 verifC07KeyIngressLinkDropped,
	"witness-explicit-gateway-link-overwritten-by-wildcard": verifC07KeyExplicitOverwritten,
	"witness-gateway-vip-tag-survives-entry-deletion":       verifC07KeyGatewayTagStale,
	"witness-in-place-rename-keeps-old-name-rows":           verifC07KeyInPlaceRename,
}

func TestVerifC07Replay(t *testing.T) {
	rec := verifkit.For("C07")
	defer rec.Flush()
	if dir := os.Getenv("VERIF_C07_WRITE_CORPUS"); dir != "" {
		// maintenance aid: write the witnesses as replay files (/verif/corpus/C07/witness-*.json are produced this way)
		ws := verifC07Witnesses()
		for _, name := range verifC07SortedKeys(ws) {
			rp := verifkit.Replay{Property: "C07", Key: verifC07WitnessKeys[name], Detail: "fixed minimal history of a finding on the pinned tree (written from verifC07Witnesses)"}
			for _, op := range ws[name] {
				b, err := json.Marshal(op)
				if err != nil {
					t.Fatal(err)
				}
				rp.Ops = append(rp.Ops, b)
			}
			b, _ := json.MarshalIndent(rp, "", " ")
			if err := os.WriteFile(filepath.Join(dir, name+".json"), b, 0o644); err != nil {
				t.Fatal(err)
			}
		}
		return
	}
	files := verifkit.ReplayFiles("C07")
	haveCorpusWitnesses := false
	for _, path := range files {
		haveCorpusWitnesses = haveCorpusWitnesses || strings.HasPrefix(filepath.Base(path), "witness-")
	}
	if os.Getenv("VERIF_REPLAY") == "" && !haveCorpusWitnesses {
		// no corpus at hand: run the witnesses from their definition
		ws := verifC07Witnesses()
		for _, name := range verifC07SortedKeys(ws) {
			c := rec.NewCase()
			c.Label("witness:" + name)
			verifC07Run(t, c, verifC07Feeder(ws[name]))
			c.Done()
		}
	}
	for _, path := range files {
		c := rec.NewCase()
		if base := filepath.Base(path); strings.HasPrefix(base, "witness-") {
			c.Label("witness:" + strings.TrimSuffix(base, ".json"))
		} else {
			c.Label("replay")
		}
		verifC07Run(t, c, verifC07Feeder(kvm.LoadOps(t, path)))
		c.Done()
	}
}
