package state

// C13 — executing write plans against real stores and comparing every query of the panel with the model.

import (
	"encoding/json"
	"fmt"
	"sort"
	"strings"
	"sync"
	"time"

	"github.com/hashicorp/consul/agent/netutil"
	"github.com/hashicorp/consul/agent/structs"
	"github.com/hashicorp/consul/internal/verifkit"
)

const verifC13NS = "default"

var (
	// query universe: the three generated names, one name no intention ever mentions, and (lists only) "*"
	verifC13QueryNames = []string{"web", "api", "db", "cache"}
	verifC13QueryPeers = []string{"", "peerA", "peerB", "peerC"} // peerC: no intention ever mentions it
	verifC13Once       sync.Once
	verifC13Time       = time.Date(2020, 1, 2, 3, 4, 5, 0, time.UTC)
)

// verifC13Row is the comparable projection of a returned *structs.Intention (volatile fields dropped:
// ID, timestamps, hash, raft indexes, meta).
type verifC13Row struct {
	SG, Peer, SrcPart, SrcNS, Src string
	DstPart, DstNS, Dst           string
	Type, Action, Perms, Desc     string
	Prec                          int
}

func (r verifC13Row) key() string { return r.Peer + "|" + r.Src + "->" + r.Dst }

func verifC13RowOf(x *structs.Intention) verifC13Row {
	r := verifC13Row{
		SG: x.SourceSamenessGroup, Peer: x.SourcePeer, SrcPart: x.SourcePartition, SrcNS: x.SourceNS, Src: x.SourceName,
		DstPart: x.DestinationPartition, DstNS: x.DestinationNS, Dst: x.DestinationName,
		Type: string(x.SourceType), Action: string(x.Action), Desc: x.Description, Prec: x.Precedence,
	}
	if len(x.Permissions) > 0 {
		b, _ := json.Marshal(verifC13PermsBack(x.Permissions))
		r.Perms = string(b)
	}
	return r
}

func verifC13Rows(ixns structs.Intentions) []verifC13Row {
	out := make([]verifC13Row, 0, len(ixns))
	for _, x := range ixns {
		out = append(out, verifC13RowOf(x))
	}
	return out
}

func verifC13PermsBack(ps []*structs.IntentionPermission) []verifC13Perm {
	var out []verifC13Perm
	for _, p := range ps {
		q := verifC13Perm{Action: string(p.Action)}
		if p.HTTP != nil {
			q.PathExact, q.PathPrefix = p.HTTP.PathExact, p.HTTP.PathPrefix
			q.Methods = append([]string(nil), p.HTTP.Methods...)
		}
		out = append(out, q)
	}
	return out
}

func verifC13PermsOf(x verifC13Ixn) []*structs.IntentionPermission {
	var out []*structs.IntentionPermission
	for _, p := range x.Perms {
		out = append(out, &structs.IntentionPermission{
			Action: structs.IntentionAction(p.Action),
			HTTP: &structs.IntentionHTTPPermission{PathExact: p.PathExact, PathPrefix: p.PathPrefix,
				Methods: append([]string(nil), p.Methods...)},
		})
	}
	return out
}

// rowBody is what must equal verifC13Ixn.body() for the same intention.
func (r verifC13Row) body() string {
	var ps []verifC13Perm
	if r.Perms != "" {
		_ = json.Unmarshal([]byte(r.Perms), &ps)
	}
	b, _ := json.Marshal(struct {
		A string
		P []verifC13Perm
	}{r.Action, ps})
	return string(b)
}

// ---- executor

type verifC13Exec struct {
	f       verifkit.F
	c       *verifkit.Case
	s       *Store
	plan    *verifC13Plan
	pi      int
	idx     uint64
	shadow  map[string]verifC13Ixn
	ids     map[string]string
	nextID  int
	tainted bool // a tolerated known finding hit this store: its remaining comparisons are skipped
}

func verifC13NewExec(f verifkit.F, c *verifkit.Case, pi int, plan *verifC13Plan) *verifC13Exec {
	verifC13Once.Do(func() {
		netutil.GetAgentBindAddrFunc = netutil.GetMockGetAgentBindAddrFunc("0.0.0.0")
	})
	e := &verifC13Exec{f: f, c: c, plan: plan, pi: pi, idx: 10, shadow: map[string]verifC13Ixn{}, ids: map[string]string{}}
	e.s = NewStateStore(nil)
	if plan.Mode != "legacy-table" {
		// the store is told that intentions live in config entries (what the leader does after migration;
		// state tests: disableLegacyIntentions)
		if err := e.s.SystemMetadataSet(1, &structs.SystemMetadataEntry{
			Key: structs.SystemMetadataIntentionFormatKey, Value: structs.SystemMetadataIntentionFormatConfigValue,
		}); err != nil {
			f.Fatalf("harness: system metadata: %v", err)
		}
		// L7 permissions are only accepted for HTTP-like destinations: make every service http.
		pd := &structs.ProxyConfigEntry{Kind: structs.ProxyDefaults, Name: structs.ProxyConfigGlobal,
			Config: map[string]interface{}{"protocol": "http"}}
		if err := pd.Normalize(); err != nil {
			f.Fatalf("harness: proxy-defaults normalize: %v", err)
		}
		if err := pd.Validate(); err != nil {
			f.Fatalf("harness: proxy-defaults validate: %v", err)
		}
		if err := e.s.EnsureConfigEntry(2, pd); err != nil {
			f.Fatalf("harness: proxy-defaults: %v", err)
		}
	}
	return e
}

func (e *verifC13Exec) fail(key, format string, args ...any) {
	e.f.Helper()
	detail := fmt.Sprintf("plan #%d mode=%s: ", e.pi, e.plan.Mode) + fmt.Sprintf(format, args...)
	if e.c.Violation(e.f, key, "%s", detail) {
		e.tainted = true
	}
}

func (e *verifC13Exec) next() uint64 { e.idx++; return e.idx }

func verifC13Source(x verifC13Ixn) *structs.SourceIntention {
	return &structs.SourceIntention{
		Name: x.Src, Peer: x.Peer, Action: structs.IntentionAction(x.Action), Permissions: verifC13PermsOf(x),
	}
}

// verifC13APIIntention is the structs.Intention the Intention.Apply endpoint holds after
// FillPartitionAndNamespace / defaulting, before it builds a mutation.
func verifC13APIIntention(x verifC13Ixn) *structs.Intention {
	return &structs.Intention{
		SourceNS: verifC13NS, SourceName: x.Src, DestinationNS: verifC13NS, DestinationName: x.Dst,
		SourceType: structs.IntentionSourceConsul, Action: structs.IntentionAction(x.Action), Permissions: verifC13PermsOf(x),
	}
}

func (e *verifC13Exec) writeEntry(entry *structs.ServiceIntentionsConfigEntry, what string) {
	// what ConfigEntry.Apply does before the raft apply
	if err := entry.Normalize(); err != nil {
		e.fail("C13/valid-write-rejected/normalize", "%s: Normalize: %v", what, err)
		return
	}
	if err := entry.Validate(); err != nil {
		e.fail("C13/valid-write-rejected/validate", "%s: Validate: %v", what, err)
		return
	}
	if err := e.s.EnsureConfigEntry(e.next(), entry); err != nil {
		e.fail("C13/valid-write-rejected/ensure", "%s: EnsureConfigEntry: %v", what, err)
	}
}

func (e *verifC13Exec) currentEntry(dst string) *structs.ServiceIntentionsConfigEntry {
	_, raw, err := e.s.ConfigEntry(nil, structs.ServiceIntentions, dst, structs.DefaultEnterpriseMetaInDefaultPartition())
	if err != nil {
		e.f.Fatalf("harness: ConfigEntry(%s): %v", dst, err)
	}
	if raw == nil {
		return nil
	}
	return raw.(*structs.ServiceIntentionsConfigEntry).Clone() // never edit the stored object
}

func (e *verifC13Exec) entryIncr(op verifC13WOp) {
	x := op.Ixn
	cur := e.currentEntry(x.Dst)
	switch op.Kind {
	case "put":
		if cur == nil {
			cur = &structs.ServiceIntentionsConfigEntry{Kind: structs.ServiceIntentions, Name: x.Dst}
		}
		replaced := false
		for i, s := range cur.Sources {
			if s.Name == x.Src && s.Peer == x.Peer {
				cur.Sources[i] = verifC13Source(x)
				replaced = true
			}
		}
		if !replaced {
			if e.plan.Prepend {
				cur.Sources = append([]*structs.SourceIntention{verifC13Source(x)}, cur.Sources...)
			} else {
				cur.Sources = append(cur.Sources, verifC13Source(x))
			}
		}
		e.writeEntry(cur, "put "+x.String())
	case "del":
		if cur == nil {
			e.fail("C13/stored-set-diverged/entry-missing", "del %s: the destination's config entry does not exist", x)
			return
		}
		var keep []*structs.SourceIntention
		for _, s := range cur.Sources {
			if !(s.Name == x.Src && s.Peer == x.Peer) {
				keep = append(keep, s)
			}
		}
		cur.Sources = keep
		if len(keep) == 0 {
			if err := e.s.DeleteConfigEntry(e.next(), structs.ServiceIntentions, x.Dst, structs.DefaultEnterpriseMetaInDefaultPartition()); err != nil {
				e.fail("C13/valid-write-rejected/delete", "del %s: DeleteConfigEntry: %v", x, err)
			}
			return
		}
		e.writeEntry(cur, "del "+x.String())
	}
}

// peerTwinStored: the destination's stored entry holds a source of the same name from a peer.
func (e *verifC13Exec) peerTwinStored(x verifC13Ixn) bool {
	cur := e.currentEntry(x.Dst)
	if cur == nil {
		return false
	}
	for _, s := range cur.Sources {
		if s.Name == x.Src && s.Peer != "" {
			return true
		}
	}
	return false
}

func (e *verifC13Exec) newID() string {
	e.nextID++
	return fmt.Sprintf("c1300000-0000-4000-8000-%012d", e.nextID)
}

func (e *verifC13Exec) apply(op verifC13WOp) {
	x := op.Ixn
	_, existed := e.shadow[x.key()]
	if op.From != nil {
		// update by ID of another intention: the ID moves to the new name
		e.ids[x.key()] = e.ids[op.From.key()]
		delete(e.ids, op.From.key())
		existed = true
	}
	switch e.plan.Mode {
	case "entry-incr":
		e.entryIncr(op)
	case "mutation":
		if x.Peer != "" {
			// Intention.Apply refuses SourcePeer: peer sources can only be edited through the config entry
			e.entryIncr(op)
			break
		}
		ixn := verifC13APIIntention(x)
		mut := &structs.IntentionMutation{Destination: ixn.DestinationServiceName(), Source: ixn.SourceServiceName()}
		if op.Kind == "put" {
			mut.Value = ixn.ToSourceIntention(false)
			if err := e.s.IntentionMutation(e.next(), structs.IntentionOpUpsert, mut); err != nil {
				key := "C13/valid-write-rejected/mutation-upsert"
				if strings.Contains(err.Error(), "more than once") && e.peerTwinStored(x) {
					// same root cause as the silent variant: the by-name upsert replaced the PEER source of that
					// name with the local value, which now collides with the local source already present
					key = "C13/mutation-by-name-hits-peer-source"
				}
				e.fail(key, "upsert %s: %v", x, err)
			}
		} else {
			// pre-flight of computeApplyChangesDelete: by-name deletions are idempotent
			_, _, found, err := e.s.IntentionGetExact(nil, ixn.ToExact())
			if err != nil {
				e.f.Fatalf("harness: IntentionGetExact: %v", err)
			}
			if found == nil {
				e.fail("C13/get-exact-misses-existing", "IntentionGetExact(%s) found nothing although the intention was written", x)
				break
			}
			if err := e.s.IntentionMutation(e.next(), structs.IntentionOpDelete, mut); err != nil {
				e.fail("C13/valid-write-rejected/mutation-delete", "delete %s: %v", x, err)
			}
		}
	case "legacy-id":
		ixn := verifC13APIIntention(x)
		ixn.CreatedAt, ixn.UpdatedAt = verifC13Time, verifC13Time
		if op.Kind == "put" {
			if existed {
				ixn.ID = e.ids[x.key()]
				mut := &structs.IntentionMutation{ID: ixn.ID, Value: ixn.ToSourceIntention(true)}
				if err := e.s.IntentionMutation(e.next(), structs.IntentionOpUpdate, mut); err != nil {
					e.fail("C13/valid-write-rejected/legacy-update", "update %s: %v", x, err)
				}
			} else {
				ixn.ID = e.newID()
				e.ids[x.key()] = ixn.ID
				mut := &structs.IntentionMutation{Destination: ixn.DestinationServiceName(), Value: ixn.ToSourceIntention(true)}
				if err := e.s.IntentionMutation(e.next(), structs.IntentionOpCreate, mut); err != nil {
					e.fail("C13/valid-write-rejected/legacy-create", "create %s: %v", x, err)
				}
			}
		} else {
			if err := e.s.IntentionMutation(e.next(), structs.IntentionOpDelete, &structs.IntentionMutation{ID: e.ids[x.key()]}); err != nil {
				e.fail("C13/valid-write-rejected/legacy-delete", "delete %s: %v", x, err)
			}
			delete(e.ids, x.key())
		}
	case "legacy-table":
		if op.Kind == "put" {
			ixn := verifC13APIIntention(x)
			ixn.CreatedAt, ixn.UpdatedAt = verifC13Time, verifC13Time
			if existed {
				ixn.ID = e.ids[x.key()]
			} else {
				ixn.ID = e.newID()
				e.ids[x.key()] = ixn.ID
			}
			//nolint:staticcheck
			if err := ixn.Validate(); err != nil { // the pre-1.9 endpoint validated before the raft apply
				e.f.Fatalf("harness: generated legacy intention invalid: %v", err)
			}
			if err := e.s.LegacyIntentionSet(e.next(), ixn); err != nil {
				e.fail("C13/valid-write-rejected/legacy-set", "set %s: %v", x, err)
			}
		} else {
			if err := e.s.LegacyIntentionDelete(e.next(), e.ids[x.key()]); err != nil {
				e.fail("C13/valid-write-rejected/legacy-table-delete", "delete %s: %v", x, err)
			}
			delete(e.ids, x.key())
		}
	default:
		e.f.Fatalf("harness: unknown mode %q", e.plan.Mode)
	}
	if op.Kind == "put" {
		if op.From != nil {
			delete(e.shadow, op.From.key())
		}
		e.shadow[x.key()] = x
	} else {
		delete(e.shadow, x.key())
	}
}

// bulk writes the final set with one EnsureConfigEntry per destination.
func (e *verifC13Exec) bulk() {
	var order []string
	by := map[string][]*structs.SourceIntention{}
	for _, op := range e.plan.Ops {
		if op.Kind != "put" {
			e.f.Fatalf("harness: entry-bulk plans hold puts only")
		}
		x := op.Ixn
		if _, ok := by[x.Dst]; !ok {
			order = append(order, x.Dst)
		}
		by[x.Dst] = append(by[x.Dst], verifC13Source(x))
		e.shadow[x.key()] = x
	}
	for _, dst := range order {
		e.writeEntry(&structs.ServiceIntentionsConfigEntry{Kind: structs.ServiceIntentions, Name: dst, Sources: by[dst]}, "entry "+dst)
	}
}

// checkStored compares the complete stored intention set with the shadow after a write.
func (e *verifC13Exec) checkStored(after string, op *verifC13WOp) {
	if e.tainted {
		return
	}
	_, ixns, _, err := e.s.Intentions(nil, structs.WildcardEnterpriseMetaInDefaultPartition())
	if err != nil {
		e.f.Fatalf("harness: Intentions: %v", err)
	}
	got := map[string]verifC13Row{}
	for _, r := range verifC13Rows(ixns) {
		got[r.key()] = r
	}
	var missing, extra, changed []string
	for k, x := range e.shadow {
		r, ok := got[k]
		if !ok {
			missing = append(missing, k)
		} else if r.body() != x.body() {
			changed = append(changed, fmt.Sprintf("%s: stored %s, written %s", k, r.body(), x.body()))
		}
	}
	for k := range got {
		if _, ok := e.shadow[k]; !ok {
			extra = append(extra, k)
		}
	}
	if len(missing)+len(extra)+len(changed) == 0 {
		return
	}
	sort.Strings(missing)
	sort.Strings(extra)
	sort.Strings(changed)
	key := "C13/stored-set-diverged/" + e.plan.Mode
	if op != nil && e.plan.Mode == "mutation" && op.Ixn.Peer == "" {
		// root cause signature: a by-name mutation of the LOCAL source touched a PEER source of the same name
		for _, k := range append(append([]string{}, missing...), changed...) {
			if strings.Contains(k, "|"+op.Ixn.Src+"->"+op.Ixn.Dst) && !strings.HasPrefix(k, "|") {
				key = "C13/mutation-by-name-hits-peer-source"
			}
		}
	}
	e.fail(key, "after %s the stored intentions differ from what was written: missing=%v unexpected=%v changed=%v", after, missing, extra, changed)
}

func (e *verifC13Exec) run() {
	if e.plan.Mode == "entry-bulk" {
		e.bulk()
		e.checkStored("bulk write", nil)
		return
	}
	for i := range e.plan.Ops {
		op := e.plan.Ops[i]
		e.apply(op)
		if e.tainted {
			return
		}
		e.checkStored(fmt.Sprintf("op %d (%s %s)", i, op.Kind, op.Ixn), &op)
		if e.tainted {
			return
		}
	}
}

// ---- observation + oracle

type verifC13Obs struct {
	lists     map[string][]verifC13Row // "all", "dst:<name>", "src:<name>", "mdst:<name>", "msrc:<name>"
	decisions []byte                   // one code per panel query in panel order, for cross-plan equality
}

func verifC13ListNames() []string { return append(append([]string{}, verifC13QueryNames...), verifC13Wild) }

// checkList: content (against the model), documented precedence numbers, and order (independent comparator).
func (e *verifC13Exec) checkList(set []verifC13Ixn, name string, rows []verifC13Row) {
	if e.tainted {
		return
	}
	fam := e.plan.family()
	parts := strings.SplitN(name, ":", 2)
	kind, arg := parts[0], ""
	if len(parts) > 1 {
		arg = parts[1]
	}
	mk := strings.TrimPrefix(kind, "m") // mdst/msrc are the IntentionMatch (multi-entry) flavours
	want := verifC13ExpectList(set, mk, arg)
	loose := want
	if mk == "src" {
		loose = verifC13ExpectList(set, "src-any-peer", arg)
	}
	tolerated := 0
	seen := map[string]bool{}
	for _, r := range rows {
		if seen[r.key()] {
			e.fail("C13/list-content/"+mk+"/"+fam, "%s: %s returned twice; list=%v", name, r.key(), verifC13RowKeys(rows))
			return
		}
		seen[r.key()] = true
		x, ok := want[r.key()]
		if !ok && mk == "src" && r.Peer != "" {
			// Source-type matches are documented to look up LOCAL sources only, but the statement does not say
			// what a source match contains, and the real code additionally returns a peer source of the same
			// name when the same config entry also holds the local twin (readSourceIntentionsFromConfigEntries-
			// ForServiceTxn filters the entry's sources by name only). Tolerated, counted as a label: the row
			// must still be a written intention whose source name fits the query, and is order-checked.
			if y, ok2 := loose[r.key()]; ok2 && r.body() == y.body() {
				tolerated++
				e.c.Label("obs:source-match-returned-peer-source")
				continue
			}
		}
		if !ok {
			e.fail("C13/list-content/"+mk+"/"+fam, "%s: unexpected %s; got %v want %v", name, r.key(), verifC13RowKeys(rows), verifC13Keys(want))
			return
		}
		if r.body() != x.body() {
			e.fail("C13/list-content/"+mk+"/"+fam, "%s: %s carries %s, written %s", name, r.key(), r.body(), x.body())
			return
		}
		if p := verifC13Prec(r.Src, r.Dst); r.Prec != p {
			e.fail("C13/precedence-value/"+fam, "%s: %s has Precedence %d, documented value is %d", name, r.key(), r.Prec, p)
			return
		}
	}
	if len(rows)-tolerated != len(want) {
		e.fail("C13/list-content/"+mk+"/"+fam, "%s: got %v want %v", name, verifC13RowKeys(rows), verifC13Keys(want))
		return
	}
	for i := 1; i < len(rows); i++ {
		less, tie, _ := verifC13RowCmp(rows[i], rows[i-1])
		if less {
			if tie {
				e.fail("C13/list-tiebreak/"+mk+"/"+fam, "%s: equal-precedence entries out of the documented tie-break order at %d: %v", name, i, verifC13RowKeys(rows))
			} else {
				e.fail("C13/list-order/"+mk+"/"+fam, "%s: not sorted by precedence (descending) at %d: %v", name, i, verifC13RowKeysPrec(rows))
			}
			return
		}
	}
}

func verifC13RowKeys(rows []verifC13Row) []string {
	out := make([]string, 0, len(rows))
	for _, r := range rows {
		out = append(out, r.key())
	}
	return out
}

func verifC13RowKeysPrec(rows []verifC13Row) []string {
	out := make([]string, 0, len(rows))
	for _, r := range rows {
		out = append(out, fmt.Sprintf("%s(p%d)", r.key(), r.Prec))
	}
	return out
}

func (e *verifC13Exec) matchOne(name string, mt structs.IntentionMatchType) structs.SimplifiedIntentions {
	entry := structs.IntentionMatchEntry{Partition: "default", Namespace: verifC13NS, Name: name}
	_, ixns, err := e.s.IntentionMatchOne(nil, entry, mt, structs.IntentionTargetService)
	if err != nil {
		e.f.Fatalf("harness: IntentionMatchOne(%s,%s): %v", name, mt, err)
	}
	return ixns
}

// observe runs the whole query panel on the store and checks it against the model of `set`.
func (e *verifC13Exec) observe(set []verifC13Ixn) *verifC13Obs {
	o := &verifC13Obs{lists: map[string][]verifC13Row{}}
	fam := e.plan.family()

	// (1) the full list
	_, all, fromCE, err := e.s.Intentions(nil, structs.WildcardEnterpriseMetaInDefaultPartition())
	if err != nil {
		e.f.Fatalf("harness: Intentions: %v", err)
	}
	if fromCE != (e.plan.Mode != "legacy-table") {
		e.f.Fatalf("harness: store representation flag %v unexpected for mode %s", fromCE, e.plan.Mode)
	}
	o.lists["all"] = verifC13Rows(all)

	// (2) single-entry matches, both match types
	srcMatch := map[string]structs.SimplifiedIntentions{}
	dstMatch := map[string]structs.SimplifiedIntentions{}
	for _, n := range verifC13ListNames() {
		srcMatch[n] = e.matchOne(n, structs.IntentionMatchSource)
		dstMatch[n] = e.matchOne(n, structs.IntentionMatchDestination)
		o.lists["src:"+n] = verifC13Rows(structs.Intentions(srcMatch[n]))
		o.lists["dst:"+n] = verifC13Rows(structs.Intentions(dstMatch[n]))
	}

	// (3) multi-entry IntentionMatch, both match types: "the list of intentions in the same order as the entries in args"
	for _, mt := range []structs.IntentionMatchType{structs.IntentionMatchSource, structs.IntentionMatchDestination} {
		args := &structs.IntentionQueryMatch{Type: mt}
		for _, n := range verifC13ListNames() {
			args.Entries = append(args.Entries, structs.IntentionMatchEntry{Partition: "default", Namespace: verifC13NS, Name: n})
		}
		_, res, err := e.s.IntentionMatch(nil, args)
		if err != nil {
			e.f.Fatalf("harness: IntentionMatch(%s): %v", mt, err)
		}
		if len(res) != len(args.Entries) {
			e.fail("C13/list-content/match-arity/"+fam, "IntentionMatch(%s) returned %d lists for %d entries", mt, len(res), len(args.Entries))
			return o
		}
		pfx := "msrc:"
		if mt == structs.IntentionMatchDestination {
			pfx = "mdst:"
		}
		for i, n := range verifC13ListNames() {
			o.lists[pfx+n] = verifC13Rows(res[i])
		}
	}
	// (4) decisions (checked first). Two real paths:
	//   check-path (Intention.Check, ServiceTopology upstreams): match by SOURCE, decide on DESTINATION — local sources only
	//   dest-path  (agent authorize, ServiceTopology downstreams, xDS): match by DESTINATION, decide on SOURCE (+ source peer)
	for _, dst := range verifC13QueryNames {
		for _, src := range verifC13QueryNames {
			for _, peer := range verifC13QueryPeers {
				for _, da := range []bool{false, true} {
					for _, ap := range []bool{false, true} {
						want := verifC13Expect(set, src, peer, dst, da, ap)
						paths := []string{"dest-path"}
						if peer == "" {
							paths = append(paths, "check-path")
						}
						for _, path := range paths {
							opts := IntentionDecisionOpts{Namespace: verifC13NS, Partition: "default", DefaultAllow: da, AllowPermissions: ap}
							if path == "dest-path" {
								opts.Target, opts.Peer, opts.Intentions, opts.MatchType = src, peer, dstMatch[dst], structs.IntentionMatchSource
							} else {
								opts.Target, opts.Intentions, opts.MatchType = dst, srcMatch[src], structs.IntentionMatchDestination
							}
							got, err := e.s.IntentionDecision(opts)
							if err != nil {
								e.f.Fatalf("harness: IntentionDecision: %v", err)
							}
							code := byte('0')
							if got.Allowed {
								code |= 1
							}
							if got.HasPermissions {
								code |= 2
							}
							if got.HasExact {
								code |= 4
							}
							o.decisions = append(o.decisions, code)
							if e.tainted {
								continue
							}
							if got.Allowed == want.Allowed && got.HasPermissions == want.HasPerms && got.HasExact == want.HasExact && got.DefaultAllow == da {
								continue
							}
							q := fmt.Sprintf("%s: %s (peer %q) -> %s, default-allow=%v allow-permissions=%v; candidates %v, model winner %s",
								path, src, peer, dst, da, ap, verifC13Cands(set, src, peer, dst), want.Winner)
							switch {
							case got.Allowed != want.Allowed:
								e.fail("C13/decision/"+path+"/"+fam, "%s: Allowed=%v, want %v", q, got.Allowed, want.Allowed)
							case got.HasPermissions != want.HasPerms:
								e.fail("C13/decision-has-permissions/"+path+"/"+fam, "%s: HasPermissions=%v, want %v", q, got.HasPermissions, want.HasPerms)
							case got.HasExact != want.HasExact:
								e.fail("C13/decision-has-exact/"+path+"/"+fam, "%s: HasExact=%v, want %v", q, got.HasExact, want.HasExact)
							case got.DefaultAllow != da:
								e.fail("C13/decision-default-echo/"+path+"/"+fam, "%s: DefaultAllow=%v", q, got.DefaultAllow)
							}
						}
					}
				}
			}
		}
	}
	// (5) lists: content, precedence numbers, order (after the decisions so that a wrong decision is reported as such)
	names := make([]string, 0, len(o.lists))
	for n := range o.lists {
		names = append(names, n)
	}
	sort.Strings(names)
	for _, n := range names {
		e.checkList(set, n, o.lists[n])
		if e.tainted {
			return o
		}
	}
	return o
}

// verifC13CrossCheck: order independence — every plan of a family yields identical lists and decisions.
func verifC13CrossCheck(f verifkit.F, c *verifkit.Case, fam string, execs []*verifC13Exec, obs []*verifC13Obs) {
	base := -1
	for i, e := range execs {
		if e.tainted || obs[i] == nil {
			continue
		}
		if base < 0 {
			base = i
			continue
		}
		a, b := obs[base], obs[i]
		names := make([]string, 0, len(a.lists))
		for n := range a.lists {
			names = append(names, n)
		}
		sort.Strings(names)
		for _, n := range names {
			ra, rb := a.lists[n], b.lists[n]
			same := len(ra) == len(rb)
			for j := 0; same && j < len(ra); j++ {
				same = ra[j] == rb[j]
			}
			if !same {
				kind := strings.SplitN(n, ":", 2)[0]
				c.Violation(f, "C13/order-dependence/list/"+kind+"/"+fam,
					"plans #%d (%s) and #%d (%s) end in the same set but %s differs:\n %v\n %v", base, execs[base].plan.Mode, i, e.plan.Mode, n, ra, rb)
				return
			}
		}
		if string(a.decisions) != string(b.decisions) {
			c.Violation(f, "C13/order-dependence/decision/"+fam,
				"plans #%d (%s) and #%d (%s) end in the same set but decide differently (panel codes allowed|hasPermissions<<1|hasExact<<2):\n %s\n %s",
				base, execs[base].plan.Mode, i, e.plan.Mode, a.decisions, b.decisions)
			return
		}
	}
}

// verifC13RunCase is the single entry point used by the rapid property and by the replay test.
func verifC13RunCase(f verifkit.F, c *verifkit.Case, set verifC13Set, plans []verifC13Plan) {
	full := set.Ixns
	proj := verifC13Project(full)
	seen := map[string]bool{}
	for _, x := range full {
		if err := verifC13Valid(x); err != nil {
			f.Fatalf("harness: invalid intention %s in set: %v", x, err)
		}
		if seen[x.key()] {
			f.Fatalf("harness: duplicate intention %s in set", x.key())
		}
		seen[x.key()] = true
	}
	// every plan must end in the set (its projection for the legacy family)
	for i := range plans {
		p := &plans[i]
		fin, err := verifC13Final(p.Ops)
		if err != nil {
			f.Fatalf("harness: plan #%d: %v", i, err)
		}
		want := full
		if p.family() == "legacy" {
			want = proj
		}
		if !verifC13SameSet(fin, verifC13SetMap(want)) {
			f.Fatalf("harness: plan #%d (%s) ends in %v, not in the case's set %v", i, p.Mode, verifC13Keys(fin), verifC13Keys(verifC13SetMap(want)))
		}
		for _, op := range p.Ops {
			if err := verifC13Valid(op.Ixn); err != nil {
				f.Fatalf("harness: plan #%d: invalid intention %s: %v", i, op.Ixn, err)
			}
			if p.family() == "legacy" && !op.Ixn.localL4() {
				f.Fatalf("harness: plan #%d: %s is not expressible through the legacy APIs", i, op.Ixn)
			}
			if op.From != nil {
				if p.family() != "legacy" || op.Kind != "put" {
					f.Fatalf("harness: plan #%d: update-by-ID renames exist only in the legacy family", i)
				}
				if p.Mode == "legacy-id" && op.From.Dst != op.Ixn.Dst {
					f.Fatalf("harness: plan #%d: Intention.Apply refuses to change the destination of an intention", i)
				}
			}
		}
	}
	verifC13Classify(c, full, proj, plans)

	byFam := map[string][]*verifC13Exec{}
	obsFam := map[string][]*verifC13Obs{}
	for i := range plans {
		p := &plans[i]
		e := verifC13NewExec(f, c, i, p)
		e.run()
		var o *verifC13Obs
		if !e.tainted {
			want := full
			if p.family() == "legacy" {
				want = proj
			}
			o = e.observe(want)
		}
		e.s.Abandon()
		byFam[p.family()] = append(byFam[p.family()], e)
		obsFam[p.family()] = append(obsFam[p.family()], o)
	}
	for _, fam := range []string{"config", "legacy"} {
		verifC13CrossCheck(f, c, fam, byFam[fam], obsFam[fam])
	}
}

// verifC13Classify: labels and the non-triviality rule (>= 2 intentions match one queried pair with different verdicts).
func verifC13Classify(c *verifkit.Case, full, proj []verifC13Ixn, plans []verifC13Plan) {
	switch n := len(full); {
	case n == 0:
		c.Label("set=0")
	case n <= 2:
		c.Label("set=1-2")
	case n <= 5:
		c.Label("set=3-5")
	default:
		c.Label("set=6-8")
	}
	for _, x := range full {
		if x.Peer != "" {
			c.Label("has-peer-source")
			if x.Src == verifC13Wild {
				c.Label("has-peer-wildcard-source")
			}
		}
		if len(x.Perms) > 0 {
			c.Label("has-l7")
		}
		if x.Src == verifC13Wild && x.Dst == verifC13Wild {
			c.Label("has-wild-wild")
		}
	}
	if len(proj) > 0 {
		c.Label("legacy-projection-nonempty")
	}
	for _, p := range plans {
		c.Label("mode=" + p.Mode)
		puts := map[string]int{}
		for _, op := range p.Ops {
			if op.Kind == "del" {
				c.Label("churn=delete")
			} else {
				if op.From != nil {
					c.Label("churn=rename-by-id")
				}
				puts[op.Ixn.key()]++
				if puts[op.Ixn.key()] > 1 {
					c.Label("churn=rewrite")
				}
			}
		}
	}
	nt := false
	for _, dst := range verifC13QueryNames {
		for _, src := range verifC13QueryNames {
			for _, peer := range verifC13QueryPeers {
				for fi, set := range [][]verifC13Ixn{full, proj} {
					cands := verifC13Cands(set, src, peer, dst)
					if len(cands) < 2 {
						continue
					}
					classes := map[string]bool{}
					var dstWildSrcExact, dstExactSrcWild *verifC13Ixn
					for i := range cands {
						x := &cands[i]
						classes[x.class()] = true
						if x.Dst == verifC13Wild && x.Src != verifC13Wild {
							dstWildSrcExact = x
						}
						if x.Dst != verifC13Wild && x.Src == verifC13Wild {
							dstExactSrcWild = x
						}
					}
					if len(classes) < 2 {
						continue
					}
					fam := "config"
					if fi == 1 {
						fam = "legacy"
					}
					nt = true
					c.Label("pair-with-conflicting-candidates/" + fam)
					if len(cands) >= 3 {
						c.Label("pair-with-3+-candidates/" + fam)
					}
					if peer != "" {
						c.Label("peer-pair-with-conflicting-candidates")
					}
					if dstWildSrcExact != nil && dstExactSrcWild != nil && dstWildSrcExact.class() != dstExactSrcWild.class() {
						// the pair that separates "destination first" from "source first"
						c.Label("dst-exact-vs-src-exact-conflict/" + fam)
					}
					if classes["l7"] {
						c.Label("l7-among-conflicting-candidates")
					}
				}
			}
		}
	}
	// equal precedence, different peer inside one destination list: exercises the tie-break
	for _, n := range verifC13ListNames() {
		m := verifC13ExpectList(full, "dst", n)
		byPrec := map[int]int{}
		for _, x := range m {
			byPrec[verifC13Prec(x.Src, x.Dst)]++
		}
		for _, k := range byPrec {
			if k >= 2 {
				c.Label("list-with-equal-precedence-entries")
			}
		}
	}
	if nt {
		c.NonTrivial()
	}
}
