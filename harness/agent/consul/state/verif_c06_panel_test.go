package state_test

// C06 — query panel.
//
// Every entry is one read a blocking client can issue, evaluated exactly as the RPC endpoint evaluates it:
// the Store method is called with a fresh memdb.WatchSet (the one the endpoint hands to blockingquery.Query), the
// index is post-processed as the endpoint does before SetQueryMeta (KVS.Get reports the entry's ModifyIndex,
// KVS.List/ListKeys substitute 1 for 0, composite endpoints take the maximum over their parts) and the result is
// rendered as the client sees it (ListServices as name -> tag set, Coordinate.Node as a list built from a map, ...).
// Results are canonical strings (verifstate.CanonJSON: every exported field, maps sorted); top-level lists are
// compared as multisets — where memdb defines the order it is a function of the content anyway, and several
// lists are built from Go maps.

import (
	"fmt"
	"sort"
	"strings"

	"github.com/hashicorp/consul/acl"
	"github.com/hashicorp/consul/agent/consul/state"
	"github.com/hashicorp/consul/agent/structs"
	"github.com/hashicorp/consul/api"
	vs "github.com/hashicorp/consul/internal/verifstate"
	memdb "github.com/hashicorp/go-memdb"
)

// verifC06Obs is what one evaluation of a panel query shows to a client.
type verifC06Obs struct {
	Idx   uint64 // as reported by the endpoint BEFORE the SetQueryMeta clamp (the oracle applies the clamp)
	Res   string // canonical result
	NoIdx bool   // the endpoint answers with an error (no index is reported; a client cannot block on it)
	NotFound bool // the endpoint reports the index but returns errNotFound to the blocking loop
}

type verifC06Query struct {
	Name string
	Fam  string
	Arg  string // first argument (key, prefix, node, ...)
	KV   bool   // index may legitimately fall when tombstones are reaped
	Gw   string // set for the lookups whose index comes from serviceGatewayNodes: kind of gateway link ("terminating", "ingress")
	Svc  string // service the gateway-linked query is about ("" = all)
	Run  func(s *state.Store, ws memdb.WatchSet) (verifC06Obs, error)
}

func verifC06Bag[T any](xs []T) string {
	ss := make([]string, len(xs))
	for i, x := range xs {
		ss[i] = vs.CanonJSON(x)
	}
	sort.Strings(ss)
	return "{" + strings.Join(ss, ",") + "}"
}

func verifC06Seq[T any](xs []T) string {
	ss := make([]string, len(xs))
	for i, x := range xs {
		ss[i] = vs.CanonJSON(x)
	}
	return "[" + strings.Join(ss, ",") + "]"
}

func verifC06Max(a uint64, bs ...uint64) uint64 {
	for _, b := range bs {
		if b > a {
			a = b
		}
	}
	return a
}

var verifC06DefaultEM = structs.DefaultEnterpriseMetaInDefaultPartition()

// verifC06Panel builds the fixed panel over the name universe of verifstate.
func verifC06Panel() []*verifC06Query {
	var qs []*verifC06Query
	add := func(fam, arg string, run func(s *state.Store, ws memdb.WatchSet) (verifC06Obs, error)) *verifC06Query {
		q := &verifC06Query{Name: fam + "(" + arg + ")", Fam: fam, Arg: strings.SplitN(arg, ",", 2)[0], Run: run}
		qs = append(qs, q)
		return q
	}
	obs := func(idx uint64, res string, err error) (verifC06Obs, error) {
		return verifC06Obs{Idx: idx, Res: res}, err
	}
	em := func() *acl.EnterpriseMeta { e := *verifC06DefaultEM; return &e }

	// ---- KV (agent/consul/kvs_endpoint.go)
	for _, k := range vs.Keys {
		k := k
		add("KVSGet", k, func(s *state.Store, ws memdb.WatchSet) (verifC06Obs, error) {
			idx, ent, err := s.KVSGet(ws, k, em())
			if ent != nil {
				idx = ent.ModifyIndex // KVS.Get: reply.Index = ent.ModifyIndex
			}
			o, err := obs(idx, vs.CanonJSON(ent), err)
			o.NotFound = ent == nil
			return o, err
		}).KV = true
	}
	for _, p := range vs.Prefixes {
		p := p
		add("KVSList", p, func(s *state.Store, ws memdb.WatchSet) (verifC06Obs, error) {
			idx, ents, err := s.KVSList(ws, p, em())
			if idx == 0 {
				idx = 1 // KVS.List: "Must provide non-zero index to prevent blocking"
			}
			return obs(idx, verifC06Seq(ents), err)
		}).KV = true
	}
	for _, p := range []string{"", "a", "a/", "a/b/"} {
		p := p
		add("KVSListKeys", p, func(s *state.Store, ws memdb.WatchSet) (verifC06Obs, error) {
			idx, ents, err := s.KVSList(ws, p, em())
			if idx == 0 {
				idx = 1
			}
			// KVS.ListKeys with separator "/"
			var keys []string
			seen := map[string]bool{}
			for _, e := range ents {
				after := e.Key[len(p):]
				if i := strings.Index(after, "/"); i > -1 {
					key := e.Key[:len(p)+i+1]
					if !seen[key] {
						keys = append(keys, key)
						seen[key] = true
					}
				} else {
					keys = append(keys, e.Key)
				}
			}
			return obs(idx, verifC06Seq(keys), err)
		}).KV = true
	}

	// ---- sessions (session_endpoint.go): store index verbatim
	for _, id := range vs.SessionPool(4) {
		id := id
		add("SessionGet", id[len(id)-2:], func(s *state.Store, ws memdb.WatchSet) (verifC06Obs, error) {
			idx, sess, err := s.SessionGet(ws, id, em())
			o, err := obs(idx, vs.CanonJSON(sess), err)
			o.NotFound = sess == nil
			return o, err
		})
	}
	add("SessionList", "", func(s *state.Store, ws memdb.WatchSet) (verifC06Obs, error) {
		idx, ss, err := s.SessionList(ws, em())
		return obs(idx, verifC06Bag(ss), err)
	})
	for _, n := range vs.Nodes {
		n := n
		add("NodeSessions", n, func(s *state.Store, ws memdb.WatchSet) (verifC06Obs, error) {
			idx, ss, err := s.NodeSessions(ws, n, em())
			return obs(idx, verifC06Bag(ss), err)
		})
	}

	// ---- catalog (catalog_endpoint.go)
	for _, peer := range vs.Peers {
		peer := peer
		add("Nodes", "peer="+peer, func(s *state.Store, ws memdb.WatchSet) (verifC06Obs, error) {
			idx, ns, err := s.Nodes(ws, em(), peer)
			return obs(idx, verifC06Bag(ns), err)
		})
		add("ServiceList", "peer="+peer, func(s *state.Store, ws memdb.WatchSet) (verifC06Obs, error) {
			idx, l, err := s.ServiceList(ws, em(), peer)
			return obs(idx, verifC06Bag(l), err)
		})
	}
	add("ListServices", "", func(s *state.Store, ws memdb.WatchSet) (verifC06Obs, error) {
		idx, sns, err := s.Services(ws, em(), "", false)
		// Catalog.ListServices -> servicesTagsByName: name -> set of tags
		m := map[string]map[string]bool{}
		for _, sn := range sns {
			if m[sn.ServiceName] == nil {
				m[sn.ServiceName] = map[string]bool{}
			}
			for _, t := range sn.ServiceTags {
				m[sn.ServiceName][t] = true
			}
		}
		var names []string
		for n := range m {
			var tags []string
			for t := range m[n] {
				tags = append(tags, t)
			}
			sort.Strings(tags)
			names = append(names, fmt.Sprintf("%q:%q", n, tags))
		}
		sort.Strings(names)
		return obs(idx, strings.Join(names, ";"), err)
	})
	type svcPeer struct{ svc, peer string }
	for _, sp := range []svcPeer{{"web", ""}, {"api", ""}, {"db", ""}, {"web-proxy", ""}, {"term-gw", ""}, {"consul", ""}, {"web", "peerA"}, {"db", "peerA"}} {
		sp := sp
		add("ServiceNodes", sp.svc+",peer="+sp.peer, func(s *state.Store, ws memdb.WatchSet) (verifC06Obs, error) {
			idx, sns, err := s.ServiceNodes(ws, sp.svc, em(), sp.peer)
			return obs(idx, verifC06Bag(sns), err)
		})
	}
	for _, sp := range []svcPeer{{"web", ""}, {"api", ""}, {"db", ""}, {"web", "peerA"}} {
		sp := sp
		q := add("ConnectServiceNodes", sp.svc+",peer="+sp.peer, func(s *state.Store, ws memdb.WatchSet) (verifC06Obs, error) {
			idx, sns, err := s.ConnectServiceNodes(ws, sp.svc, em(), sp.peer)
			return obs(idx, verifC06Bag(sns), err)
		})
		q.Svc = sp.svc
		if sp.peer == "" {
			q.Gw = "terminating"
		}
	}
	type svcTags struct {
		svc  string
		tags []string
	}
	for _, tq := range verifC06TagQueries {
		st := svcTags{tq.svc, tq.tags}
		add("ServiceTagNodes", st.svc+","+strings.Join(st.tags, "+"), func(s *state.Store, ws memdb.WatchSet) (verifC06Obs, error) {
			idx, sns, err := s.ServiceTagNodes(ws, st.svc, st.tags, em(), "")
			return obs(idx, verifC06Bag(sns), err)
		})
	}
	type nodePeer struct{ node, peer string }
	nodeArgs := []nodePeer{{"n1", ""}, {"n2", ""}, {"n3", ""}, {"n1", "peerA"}, {string(vs.NodeIDs["n1"]), ""}}
	for _, np := range nodeArgs {
		np := np
		add("NodeServices", np.node+",peer="+np.peer, func(s *state.Store, ws memdb.WatchSet) (verifC06Obs, error) {
			idx, ns, err := s.NodeServices(ws, np.node, em(), np.peer)
			return obs(idx, vs.CanonJSON(ns), err) // Services is a map: canonical rendering sorts it
		})
	}
	for _, np := range nodeArgs[:4] {
		np := np
		add("NodeServiceList", np.node+",peer="+np.peer, func(s *state.Store, ws memdb.WatchSet) (verifC06Obs, error) {
			idx, nsl, err := s.NodeServiceList(ws, np.node, em(), np.peer)
			if nsl == nil {
				return obs(idx, "null", err)
			}
			return obs(idx, vs.CanonJSON(nsl.Node)+verifC06Bag(nsl.Services), err)
		})
	}

	// ---- health (health_endpoint.go): store index verbatim
	for _, np := range nodeArgs[:4] {
		np := np
		add("NodeChecks", np.node+",peer="+np.peer, func(s *state.Store, ws memdb.WatchSet) (verifC06Obs, error) {
			idx, cs, err := s.NodeChecks(ws, np.node, em(), np.peer)
			return obs(idx, verifC06Bag(cs), err)
		})
	}
	for _, sp := range []svcPeer{{"web", ""}, {"api", ""}, {"db", ""}, {"web-proxy", ""}, {"web", "peerA"}} {
		sp := sp
		add("ServiceChecks", sp.svc+",peer="+sp.peer, func(s *state.Store, ws memdb.WatchSet) (verifC06Obs, error) {
			idx, cs, err := s.ServiceChecks(ws, sp.svc, em(), sp.peer)
			return obs(idx, verifC06Bag(cs), err)
		})
	}
	for _, sp := range []svcPeer{{api.HealthAny, ""}, {api.HealthPassing, ""}, {api.HealthWarning, ""}, {api.HealthCritical, ""}, {api.HealthAny, "peerA"}} {
		sp := sp
		add("ChecksInState", sp.svc+",peer="+sp.peer, func(s *state.Store, ws memdb.WatchSet) (verifC06Obs, error) {
			idx, cs, err := s.ChecksInState(ws, sp.svc, em(), sp.peer)
			return obs(idx, verifC06Bag(cs), err)
		})
	}
	for _, sp := range []svcPeer{{"web", ""}, {"api", ""}, {"db", ""}, {"web-proxy", ""}, {"term-gw", ""}, {"ingress-gw", ""}, {"consul", ""}, {"web", "peerA"}, {"api", "peerA"}} {
		sp := sp
		add("CheckServiceNodes", sp.svc+",peer="+sp.peer, func(s *state.Store, ws memdb.WatchSet) (verifC06Obs, error) {
			idx, csn, err := s.CheckServiceNodes(ws, sp.svc, em(), sp.peer)
			return obs(idx, verifC06Bag(csn), err)
		})
	}
	for _, sp := range []svcPeer{{"web", ""}, {"api", ""}, {"db", ""}, {"web", "peerA"}} {
		sp := sp
		q := add("CheckConnectServiceNodes", sp.svc+",peer="+sp.peer, func(s *state.Store, ws memdb.WatchSet) (verifC06Obs, error) {
			idx, csn, err := s.CheckConnectServiceNodes(ws, sp.svc, em(), sp.peer)
			return obs(idx, verifC06Bag(csn), err)
		})
		if sp.peer == "" {
			q.Gw, q.Svc = "terminating", sp.svc
		}
	}
	for _, tq := range verifC06TagQueries {
		st := svcTags{tq.svc, tq.tags}
		add("CheckServiceTagNodes", st.svc+","+strings.Join(st.tags, "+"), func(s *state.Store, ws memdb.WatchSet) (verifC06Obs, error) {
			idx, csn, err := s.CheckServiceTagNodes(ws, st.svc, st.tags, em(), "")
			return obs(idx, verifC06Bag(csn), err)
		})
	}
	for _, svc := range vs.ServiceNames {
		svc := svc
		q := add("CheckIngressServiceNodes", svc, func(s *state.Store, ws memdb.WatchSet) (verifC06Obs, error) {
			idx, csn, err := s.CheckIngressServiceNodes(ws, svc, em())
			return obs(idx, verifC06Bag(csn), err)
		})
		q.Gw, q.Svc = "ingress", svc
	}

	// ---- internal (internal_endpoint.go)
	for _, n := range vs.Nodes {
		n := n
		add("NodeInfo", n, func(s *state.Store, ws memdb.WatchSet) (verifC06Obs, error) {
			idx, d, err := s.NodeInfo(ws, n, em(), "")
			return obs(idx, verifC06Bag(d), err)
		})
	}
	add("NodeDump", "endpoint", func(s *state.Store, ws memdb.WatchSet) (verifC06Obs, error) {
		// Internal.NodeDump: local dump + peering list + one dump per peering, index = max
		idx, dump, err := s.NodeDump(ws, em(), structs.DefaultPeerKeyword)
		if err != nil {
			return verifC06Obs{}, err
		}
		pidx, peerings, err := s.PeeringList(ws, *em())
		if err != nil {
			return verifC06Obs{}, err
		}
		idx = verifC06Max(idx, pidx)
		var imported structs.NodeDump
		for _, p := range peerings {
			i, d, err := s.NodeDump(ws, em(), p.Name)
			if err != nil {
				return verifC06Obs{}, err
			}
			imported = append(imported, d...)
			idx = verifC06Max(idx, i)
		}
		return obs(idx, verifC06Bag(dump)+verifC06Bag(imported), nil)
	})
	add("NodeDump", "store,peer=peerA", func(s *state.Store, ws memdb.WatchSet) (verifC06Obs, error) {
		idx, d, err := s.NodeDump(ws, em(), "peerA")
		return obs(idx, verifC06Bag(d), err)
	})
	type dumpArg struct {
		kind    structs.ServiceKind
		useKind bool
	}
	for _, da := range []dumpArg{{"", false}, {structs.ServiceKindTypical, true}, {structs.ServiceKindConnectProxy, true}, {structs.ServiceKindTerminatingGateway, true}} {
		da := da
		q := add("ServiceDump", fmt.Sprintf("endpoint,kind=%q,useKind=%v", da.kind, da.useKind), func(s *state.Store, ws memdb.WatchSet) (verifC06Obs, error) {
			// Internal.ServiceDump without a peer name: local dump + peering list + imported dumps + all gateway services
			idx, nodes, err := s.ServiceDump(ws, da.kind, da.useKind, em(), structs.DefaultPeerKeyword)
			if err != nil {
				return verifC06Obs{}, err
			}
			pidx, peerings, err := s.PeeringList(ws, *em())
			if err != nil {
				return verifC06Obs{}, err
			}
			idx = verifC06Max(idx, pidx)
			var imported structs.CheckServiceNodes
			for _, p := range peerings {
				i, n, err := s.ServiceDump(ws, da.kind, da.useKind, structs.WildcardEnterpriseMetaInDefaultPartition(), p.Name)
				if err != nil {
					return verifC06Obs{}, err
				}
				idx = verifC06Max(idx, i)
				imported = append(imported, n...)
			}
			gidx, gws, err := s.DumpGatewayServices(ws)
			if err != nil {
				return verifC06Obs{}, err
			}
			idx = verifC06Max(idx, gidx)
			return obs(idx, verifC06Bag(nodes)+verifC06Bag(imported)+verifC06Bag(gws), nil)
		})
		_ = q
	}
	for _, da := range []dumpArg{{"", false}, {structs.ServiceKindTypical, true}} {
		da := da
		add("ServiceDumpPeer", fmt.Sprintf("peerA,kind=%q,useKind=%v", da.kind, da.useKind), func(s *state.Store, ws memdb.WatchSet) (verifC06Obs, error) {
			// Internal.ServiceDump with args.PeerName = "peerA"
			idx, nodes, err := s.ServiceDump(ws, da.kind, da.useKind, structs.WildcardEnterpriseMetaInDefaultPartition(), "peerA")
			return obs(idx, verifC06Bag(nodes), err)
		})
	}
	for _, gw := range []string{"term-gw", "ingress-gw"} {
		gw := gw
		kind := "terminating"
		if gw == "ingress-gw" {
			kind = "ingress"
		}
		q := add("GatewayServices", gw, func(s *state.Store, ws memdb.WatchSet) (verifC06Obs, error) {
			idx, gss, err := s.GatewayServices(ws, gw, em())
			return obs(idx, verifC06Bag(gss), err)
		})
		_, _ = q, kind // index = gateway-services table index: not subject to the gateway-link finding
		q = add("GatewayServiceDump", gw, func(s *state.Store, ws memdb.WatchSet) (verifC06Obs, error) {
			// Internal.GatewayServiceDump
			maxIdx, gss, err := s.GatewayServices(ws, gw, em())
			if err != nil {
				return verifC06Obs{}, err
			}
			var result structs.ServiceDump
			for _, gs := range gss {
				idx, instances, err := s.CheckServiceNodes(ws, gs.Service.Name, &gs.Service.EnterpriseMeta, "")
				if err != nil {
					return verifC06Obs{}, err
				}
				maxIdx = verifC06Max(maxIdx, idx)
				for _, n := range instances {
					result = append(result, &structs.ServiceInfo{Node: n.Node, Service: n.Service, Checks: n.Checks, GatewayService: gs})
				}
				if len(instances) == 0 {
					result = append(result, &structs.ServiceInfo{GatewayService: gs})
				}
			}
			return obs(maxIdx, verifC06Bag(result), nil)
		})
	}
	for _, svc := range []string{"web", "db"} {
		svc := svc
		q := add("ServiceGateways", svc+",terminating", func(s *state.Store, ws memdb.WatchSet) (verifC06Obs, error) {
			idx, csn, err := s.ServiceGateways(ws, svc, structs.ServiceKindTerminatingGateway, *em())
			return obs(idx, verifC06Bag(csn), err)
		})
		q.Gw, q.Svc = "terminating", svc
	}
	for _, svc := range []string{"web", "db"} {
		svc := svc
		q := add("ServiceTopology", svc, func(s *state.Store, ws memdb.WatchSet) (verifC06Obs, error) {
			// Internal.ServiceTopology; ACLs disabled => default allow
			idx, topo, err := s.ServiceTopology(ws, "dc1", svc, structs.ServiceKindTypical, true, em())
			if err != nil || topo == nil {
				return obs(idx, "null", err)
			}
			r := "proto=" + topo.MetricsProtocol + fmt.Sprintf(",tproxy=%v", topo.TransparentProxy) +
				",up=" + verifC06Bag(topo.Upstreams) + ",down=" + verifC06Bag(topo.Downstreams) +
				",updec=" + vs.CanonJSON(topo.UpstreamDecisions) + ",downdec=" + vs.CanonJSON(topo.DownstreamDecisions) +
				",upsrc=" + vs.CanonJSON(topo.UpstreamSources) + ",downsrc=" + vs.CanonJSON(topo.DownstreamSources)
			return obs(idx, r, nil)
		})
		q.Svc = svc
	}

	// ---- config entries (config_endpoint.go): store index verbatim
	type kindName struct{ kind, name string }
	ces := []kindName{{structs.IngressGateway, "ingress-gw"}, {structs.TerminatingGateway, "term-gw"}, {structs.ProxyDefaults, structs.ProxyConfigGlobal}}
	for _, n := range vs.ServiceNames {
		ces = append(ces, kindName{structs.ServiceDefaults, n}, kindName{structs.ServiceResolver, n}, kindName{structs.ServiceIntentions, n})
	}
	ces = append(ces, kindName{structs.ServiceIntentions, "*"})
	for _, kn := range ces {
		kn := kn
		add("ConfigEntry", kn.kind+"/"+kn.name, func(s *state.Store, ws memdb.WatchSet) (verifC06Obs, error) {
			idx, e, err := s.ConfigEntry(ws, kn.kind, kn.name, em())
			o, err := obs(idx, vs.CanonJSON(e), err)
			o.NotFound = e == nil
			return o, err
		})
	}
	for _, kind := range []string{"", structs.IngressGateway, structs.TerminatingGateway, structs.ServiceDefaults, structs.ServiceResolver, structs.ServiceIntentions} {
		kind := kind
		add("ConfigEntriesByKind", kind, func(s *state.Store, ws memdb.WatchSet) (verifC06Obs, error) {
			idx, es, err := s.ConfigEntriesByKind(ws, kind, em())
			return obs(idx, verifC06Bag(es), err)
		})
	}

	// ---- intentions (intention_endpoint.go Match): store index verbatim; precedence order is part of the result
	type matchArg struct {
		typ  structs.IntentionMatchType
		name string
	}
	for _, ma := range []matchArg{{structs.IntentionMatchDestination, "web"}, {structs.IntentionMatchDestination, "api"}, {structs.IntentionMatchDestination, "db"},
		{structs.IntentionMatchSource, "web"}, {structs.IntentionMatchSource, "api"}} {
		ma := ma
		add("IntentionMatch", string(ma.typ)+"="+ma.name, func(s *state.Store, ws memdb.WatchSet) (verifC06Obs, error) {
			idx, ms, err := s.IntentionMatch(ws, &structs.IntentionQueryMatch{Type: ma.typ,
				Entries: []structs.IntentionMatchEntry{{Partition: "default", Namespace: "default", Name: ma.name}}})
			return obs(idx, verifC06Seq(ms), err)
		})
	}

	// ---- prepared queries (prepared_query_endpoint.go)
	for _, id := range vs.PQIDs {
		id := id
		add("PreparedQueryGet", id[len(id)-1:], func(s *state.Store, ws memdb.WatchSet) (verifC06Obs, error) {
			idx, q, err := s.PreparedQueryGet(ws, id)
			if q == nil {
				// PreparedQuery.Get returns structs.ErrQueryNotFound: an error, no index
				return verifC06Obs{NoIdx: true, Res: "error: query not found"}, err
			}
			return obs(idx, vs.CanonJSON(q), err)
		})
	}
	add("PreparedQueryList", "", func(s *state.Store, ws memdb.WatchSet) (verifC06Obs, error) {
		idx, l, err := s.PreparedQueryList(ws)
		return obs(idx, verifC06Bag(l), err)
	})

	// ---- coordinates (coordinate_endpoint.go)
	add("Coordinates", "", func(s *state.Store, ws memdb.WatchSet) (verifC06Obs, error) {
		idx, cs, err := s.Coordinates(ws, em())
		return obs(idx, verifC06Bag(cs), err)
	})
	for _, n := range vs.Nodes {
		n := n
		add("Coordinate", n, func(s *state.Store, ws memdb.WatchSet) (verifC06Obs, error) {
			idx, set, err := s.Coordinate(ws, n, em())
			return obs(idx, vs.CanonJSON(set), err) // Coordinate.Node builds a list from this map
		})
	}
	// ---- lookups filtered by node metadata (catalog_endpoint.go ListNodes / ListServices, health_endpoint.go
	// ChecksInState / ServiceChecks with NodeMetaFilters): store index verbatim
	for _, rack := range []string{"r1", "r2"} {
		filt := map[string]string{"rack": rack}
		add("NodesByMeta", "rack="+rack, func(s *state.Store, ws memdb.WatchSet) (verifC06Obs, error) {
			idx, ns, err := s.NodesByMeta(ws, filt, em(), "")
			return obs(idx, verifC06Bag(ns), err)
		})
		add("ServicesByNodeMeta", "rack="+rack, func(s *state.Store, ws memdb.WatchSet) (verifC06Obs, error) {
			idx, sns, err := s.ServicesByNodeMeta(ws, filt, em(), "")
			// Catalog.ListServices -> servicesTagsByName
			m := map[string]map[string]bool{}
			for _, sn := range sns {
				if m[sn.ServiceName] == nil {
					m[sn.ServiceName] = map[string]bool{}
				}
				for _, t := range sn.ServiceTags {
					m[sn.ServiceName][t] = true
				}
			}
			var names []string
			for n := range m {
				var tags []string
				for t := range m[n] {
					tags = append(tags, t)
				}
				sort.Strings(tags)
				names = append(names, fmt.Sprintf("%q:%q", n, tags))
			}
			sort.Strings(names)
			return obs(idx, strings.Join(names, ";"), err)
		})
		for _, svc := range []string{"web", "db"} {
			svc := svc
			add("ServiceChecksByNodeMeta", svc+",rack="+rack, func(s *state.Store, ws memdb.WatchSet) (verifC06Obs, error) {
				idx, cs, err := s.ServiceChecksByNodeMeta(ws, svc, filt, em(), "")
				return obs(idx, verifC06Bag(cs), err)
			})
		}
		for _, st := range []string{api.HealthAny, api.HealthCritical} {
			st := st
			add("ChecksInStateByNodeMeta", st+",rack="+rack, func(s *state.Store, ws memdb.WatchSet) (verifC06Obs, error) {
				idx, cs, err := s.ChecksInStateByNodeMeta(ws, st, filt, em(), "")
				return obs(idx, verifC06Bag(cs), err)
			})
		}
	}

	// ---- Connect CA roots (connect_ca_endpoint.go Roots -> Server.getCARoots): index = max(roots, config)
	add("CARoots", "", func(s *state.Store, ws memdb.WatchSet) (verifC06Obs, error) {
		idx, roots, config, err := s.CARootsAndConfig(ws)
		if err != nil {
			return verifC06Obs{}, err
		}
		if config == nil || config.ClusterID == "" {
			return verifC06Obs{NoIdx: true, Res: "error: CA has not finished initializing"}, nil
		}
		active := ""
		for _, r := range roots {
			if r.Active {
				active = r.ID
			}
		}
		return obs(idx, "cluster="+config.ClusterID+",active="+active+","+verifC06Seq(roots), nil)
	})
	add("CAConfig", "", func(s *state.Store, ws memdb.WatchSet) (verifC06Obs, error) {
		idx, config, err := s.CAConfig(ws)
		return obs(idx, vs.CanonJSON(config), err)
	})

	// ---- peering reads (rpc/peering service.go PeeringRead / PeeringList / TrustBundleRead / TrustBundleListByService,
	// proxycfg-glue ServerPeeringList / ServerTrustBundle / ServerTrustBundleList / ServerExportedPeeredServices, the
	// peerstream subscription set-up): store index verbatim
	for _, name := range []string{"peerA", "peerB"} {
		name := name
		add("PeeringRead", name, func(s *state.Store, ws memdb.WatchSet) (verifC06Obs, error) {
			idx, p, err := s.PeeringRead(ws, state.Query{Value: name})
			o, err := obs(idx, vs.CanonJSON(p), err)
			o.NotFound = p == nil
			return o, err
		})
		add("PeeringReadByID", name, func(s *state.Store, ws memdb.WatchSet) (verifC06Obs, error) {
			idx, p, err := s.PeeringReadByID(ws, vs.C06PeerIDs[name])
			o, err := obs(idx, vs.CanonJSON(p), err)
			o.NotFound = p == nil
			return o, err
		})
		add("PeeringTrustBundleRead", name, func(s *state.Store, ws memdb.WatchSet) (verifC06Obs, error) {
			idx, tb, err := s.PeeringTrustBundleRead(ws, state.Query{Value: name})
			o, err := obs(idx, vs.CanonJSON(tb), err)
			o.NotFound = tb == nil
			return o, err
		})
		add("ExportedServicesForPeer", name, func(s *state.Store, ws memdb.WatchSet) (verifC06Obs, error) {
			idx, l, err := s.ExportedServicesForPeer(ws, vs.C06PeerIDs[name], "dc1")
			return obs(idx, vs.CanonJSON(l), err)
		})
	}
	add("PeeringList", "", func(s *state.Store, ws memdb.WatchSet) (verifC06Obs, error) {
		idx, ps, err := s.PeeringList(ws, *em())
		return obs(idx, verifC06Bag(ps), err)
	})
	add("PeeringTrustBundleList", "", func(s *state.Store, ws memdb.WatchSet) (verifC06Obs, error) {
		idx, tbs, err := s.PeeringTrustBundleList(ws, *em())
		return obs(idx, verifC06Bag(tbs), err)
	})
	add("ExportedServicesForAllPeersByName", "", func(s *state.Store, ws memdb.WatchSet) (verifC06Obs, error) {
		idx, m, err := s.ExportedServicesForAllPeersByName(ws, "dc1", *em())
		return obs(idx, vs.CanonJSON(m), err)
	})
	for _, svc := range []string{"web", "db"} {
		svc := svc
		add("PeeringsForService", svc, func(s *state.Store, ws memdb.WatchSet) (verifC06Obs, error) {
			idx, ps, err := s.PeeringsForService(ws, svc, *em())
			return obs(idx, verifC06Bag(ps), err)
		})
		add("TrustBundleListByService", svc, func(s *state.Store, ws memdb.WatchSet) (verifC06Obs, error) {
			idx, tbs, err := s.TrustBundleListByService(ws, svc, "dc1", *em())
			return obs(idx, verifC06Bag(tbs), err)
		})
	}
	return qs
}
