package state_test

// C10 — conditional writes inside a BATCH (ACLTokenBatchSet with CAS, what the FSM's ACLTokenSetRequestType applies):
// every token of the batch is its own conditional write. Oracle per trial: each token of the batch is applied iff ITS
// condition matched — whatever the outcome of the tokens before and after it in the same batch —, tokens that are not
// in the batch are untouched, and when nothing matched the entire store (index table included) is unchanged.
//
// matched(token) as ACLTokenSetOptions.CAS documents it: supplied ModifyIndex 0 and the accessor absent, or supplied
// ModifyIndex equal to the stored token's ModifyIndex.
//
// One rapid case = 60 independent trials (the target runs few rapid cases per shard because the cell enumeration in
// the same package is heavy); every random choice comes from rapid, so a failing case shrinks to its failing trial.

import (
	"fmt"
	"testing"

	"github.com/hashicorp/consul/agent/consul/state"
	"github.com/hashicorp/consul/agent/structs"
	"github.com/hashicorp/consul/internal/verifkit"
	vs "github.com/hashicorp/consul/internal/verifstate"
	"pgregory.net/rapid"
)

var verifC10BatchAccessors = []string{
	"c10b0000-0000-4000-8000-0000000000a1", "c10b0000-0000-4000-8000-0000000000a2",
	"c10b0000-0000-4000-8000-0000000000a3", "c10b0000-0000-4000-8000-0000000000a4",
}

func verifC10BatchToken(acc string, v int) *structs.ACLToken {
	return &structs.ACLToken{AccessorID: acc, SecretID: "5ec" + acc[3:], Description: fmt.Sprintf("c10 batch token v%d", v),
		EnterpriseMeta: *structs.DefaultEnterpriseMetaInDefaultPartition()}
}

type verifC10BatchItem struct {
	Acc     string `json:"acc"`
	Pre     string `json:"pre"`  // absent | present | recreated
	Cas     string `json:"cas"`  // which index the batch supplies for it
	Supplied uint64 `json:"supplied"`
	Matched bool   `json:"matched"`
}

func verifC10BatchTrial(t *rapid.T, f verifkit.F, c *verifkit.Case, trial int) {
	s := state.NewStateStore(nil)
	idx := uint64(10)
	next := func() uint64 { idx += uint64(rapid.IntRange(1, 3).Draw(t, "gap")); return idx }
	// pre-state of every accessor
	pre := map[string]string{}
	for i, acc := range verifC10BatchAccessors {
		p := rapid.SampledFrom([]string{"absent", "present", "present", "recreated"}).Draw(t, "pre")
		pre[acc] = p
		if p == "absent" {
			continue
		}
		if err := s.ACLTokenSet(next(), verifC10BatchToken(acc, i)); err != nil {
			f.Fatalf("harness: ACLTokenSet: %v", err)
		}
		if p == "recreated" {
			if err := s.ACLTokenDeleteByAccessor(next(), acc, nil); err != nil {
				f.Fatalf("harness: ACLTokenDeleteByAccessor: %v", err)
			}
			if err := s.ACLTokenSet(next(), verifC10BatchToken(acc, 10+i)); err != nil {
				f.Fatalf("harness: ACLTokenSet: %v", err)
			}
		}
	}
	// the batch: 2-4 distinct accessors in a drawn order
	order := rapid.Permutation(verifC10BatchAccessors).Draw(t, "order")
	n := rapid.IntRange(2, 4).Draw(t, "batchsize")
	var items []verifC10BatchItem
	var batch structs.ACLTokens
	nMatch := 0
	for _, acc := range order[:n] {
		_, cur, err := s.ACLTokenGetByAccessor(nil, acc, nil)
		if err != nil {
			f.Fatalf("harness: ACLTokenGetByAccessor: %v", err)
		}
		it := verifC10BatchItem{Acc: acc[len(acc)-2:], Pre: pre[acc]}
		tok := verifC10BatchToken(acc, 100+trial)
		if cur == nil {
			it.Cas = rapid.SampledFrom([]string{"zero", "zero", "nonzero"}).Draw(t, "casabsent")
			if it.Cas == "nonzero" {
				it.Supplied = idx // a plausible stale index of an earlier incarnation
			}
			it.Matched = it.Supplied == 0
		} else {
			it.Cas = rapid.SampledFrom([]string{"current", "current", "current", "stale", "future", "zero"}).Draw(t, "caspresent")
			switch it.Cas {
			case "current":
				it.Supplied = cur.ModifyIndex
			case "stale":
				it.Supplied = cur.ModifyIndex - 1
			case "future":
				it.Supplied = cur.ModifyIndex + 1
			}
			it.Matched = it.Supplied == cur.ModifyIndex
		}
		if it.Matched {
			nMatch++
		}
		tok.ModifyIndex = it.Supplied
		batch = append(batch, tok)
		items = append(items, it)
	}
	c.Op(items)
	mixed := nMatch > 0 && nMatch < len(items)
	if mixed {
		c.NonTrivial()
		c.Label("batch:mixed-outcome")
		if !items[0].Matched {
			c.Label("batch:mismatch-first")
		}
		if !items[len(items)-1].Matched {
			c.Label("batch:mismatch-last")
		}
	} else if nMatch == 0 {
		c.Label("batch:nothing-matches")
	} else {
		c.Label("batch:everything-matches")
	}

	before := vs.TakeDump(s)
	beforeTok := map[string]*structs.ACLToken{}
	for _, acc := range verifC10BatchAccessors {
		_, cur, _ := s.ACLTokenGetByAccessor(nil, acc, nil)
		beforeTok[acc] = cur
	}
	writeIdx := next()
	what := fmt.Sprintf("CAS batch %+v at index %d", items, writeIdx)
	if err := s.ACLTokenBatchSet(writeIdx, batch, state.ACLTokenSetOptions{CAS: true}); err != nil {
		// the batch API has no per-token verdict: a mismatch is documented as "skipped", not as an error
		c.Violation(f, "C10/acl-token-cas-batch-error", "%s: error %v", what, err)
		return
	}
	inBatch := map[string]verifC10BatchItem{}
	for i, tok := range batch {
		inBatch[tok.AccessorID] = items[i]
	}
	for _, acc := range verifC10BatchAccessors {
		_, cur, _ := s.ACLTokenGetByAccessor(nil, acc, nil)
		it, in := inBatch[acc]
		if !in {
			if vs.CanonJSON(cur) != vs.CanonJSON(beforeTok[acc]) {
				c.Violation(f, "C10/acl-token-cas-batch-touches-other-token", "%s: token %s is not in the batch and changed: %s -> %s", what, acc[len(acc)-2:], vs.CanonJSON(beforeTok[acc]), vs.CanonJSON(cur))
				return
			}
			continue
		}
		applied := cur != nil && cur.ModifyIndex == writeIdx && cur.Description == fmt.Sprintf("c10 batch token v%d", 100+trial)
		switch {
		case it.Matched && !applied:
			c.Violation(f, "C10/acl-token-cas-batch-skips-matching-token", "%s: token %s matched (supplied %d) and was not applied: stored %s", what, it.Acc, it.Supplied, vs.CanonJSON(cur))
			return
		case !it.Matched && applied:
			c.Violation(f, "C10/acl-token-cas-applies-on-mismatch", "%s: token %s did not match (supplied %d) and was applied", what, it.Acc, it.Supplied)
			return
		case !it.Matched && vs.CanonJSON(cur) != vs.CanonJSON(beforeTok[acc]):
			c.Violation(f, "C10/acl-token-cas-batch-changes-mismatching-token", "%s: token %s did not match and changed: %s -> %s", what, it.Acc, vs.CanonJSON(beforeTok[acc]), vs.CanonJSON(cur))
			return
		}
	}
	if nMatch == 0 {
		if diffs := vs.DiffDumps(before, vs.TakeDump(s), nil); len(diffs) > 0 {
			c.Violation(f, "C10/acl-token-cas-batch-changes-state-although-nothing-matched", "%s: %v", what, diffs[0])
		}
	}
}

func TestVerifC10Batch(t *testing.T) {
	rec := verifkit.For("C10")
	defer rec.Flush()
	rapid.Check(t, func(rt *rapid.T) {
		for trial := 0; trial < 60; trial++ {
			c := rec.NewCase()
			c.Label("family=acl-token-cas-batch")
			verifC10BatchTrial(rt, rt, c, trial)
			c.Done()
		}
	})
}
