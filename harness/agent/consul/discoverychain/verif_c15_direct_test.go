package discoverychain

// C15 (direct mode) — discovery-chain compilation is closed, terminating and deterministic.
//
// Generated: sets of service-defaults / proxy-defaults / service-resolver / service-splitter / service-router
// entries over the services {web, api, db, cache} with mutual references and cycles made likely
// (grammar and generators: internal/verifc15). Every entry is shaped as the ConfigEntry.Apply endpoint
// shapes it (Normalize, then Validate; refused entries are dropped) and the set is handed to Compile through
// configentry.DiscoveryChainSet, once per service of the universe, each with a drawn evaluation context
// (datacenter, trust domain, protocol / mesh-gateway / connect-timeout overrides).
//
// Oracle, per compile request:
//   (a) Compile returns: no panic, and a result within the watchdog bound (60 s or 2 GiB of heap against a normal
//       cost of < 5 ms and kilobytes);
//   (b) on success the chain is closed (verifc15.CheckChain): start node present, every NextNode / resolver
//       target / failover target exists, the graph is acyclic, nothing unreachable or unused is retained,
//       split legs end at resolvers;
//   (c) where the independent reference model is CERTAIN that the compiler must walk into a splitter or
//       redirect cycle (verifc15.Model.MustError) the result is an error (of any kind);
//   (d) determinism: compiling the same set again, and compiling fresh copies of the same entries inserted
//       in a drawn different order into fresh sets, gives the same canonical JSON (errors: same kind).
//
// Deliberately NOT asserted: that a compile succeeds (protocol mismatches, missing subsets, L7 features on a
// tcp chain, external-SNI conflicts are legal errors; in direct mode nothing has validated the graph);
// anything about failover "cycles" (failover is resolved one level deep and never followed); the text of
// error messages; split weights adding up to 100 after flattening.

import (
	"encoding/json"
	"fmt"
	"testing"
	"time"

	"github.com/hashicorp/consul/agent/configentry"
	"github.com/hashicorp/consul/agent/structs"
	"github.com/hashicorp/consul/internal/verifc15"
	"github.com/hashicorp/consul/internal/verifkit"
	"pgregory.net/rapid"
)

type verifC15Req struct {
	Service    string `json:"service"`
	DC         string `json:"dc"`
	Trust      string `json:"trust"`
	OProto     string `json:"override_protocol,omitempty"`
	OMgw       string `json:"override_mgw,omitempty"`
	OTimeoutMs int    `json:"override_connect_timeout_ms,omitempty"`
}

type verifC15DirectOp struct {
	Mode    string           `json:"mode"` // "direct"
	Entries []verifc15.Entry `json:"entries"`
	Peers   []string         `json:"peers,omitempty"`
	Orders  [][]int          `json:"orders"` // insertion orders of the re-inserted sets
	Reqs    []verifC15Req    `json:"reqs"`
}

func verifC15Request(r verifC15Req) CompileRequest {
	return CompileRequest{
		ServiceName:            r.Service,
		EvaluateInNamespace:    "default",
		EvaluateInPartition:    "default",
		EvaluateInDatacenter:   r.DC,
		EvaluateInTrustDomain:  r.Trust,
		OverrideProtocol:       r.OProto,
		OverrideMeshGateway:    structs.MeshGatewayConfig{Mode: structs.MeshGatewayMode(r.OMgw)},
		OverrideConnectTimeout: time.Duration(r.OTimeoutMs) * time.Millisecond,
	}
}

// verifC15RunDirect executes one direct-mode case through the oracle. Used by the rapid property, the
// exhaustive block and the replay test alike.
func verifC15RunDirect(f verifkit.F, c *verifkit.Case, op verifC15DirectOp) {
	validity := verifc15.Valid(op.Entries)
	model := verifc15.NewModelValid(op.Entries, validity)
	chain2, cyc, hard := model.Shape()
	if chain2 || cyc {
		c.NonTrivial()
		if c.HasLabel("mode=direct") {
			c.Label("non-trivial(mode=direct)")
		}
	}
	if chain2 {
		c.Label("shape:ref-chain>=2")
	}
	if cyc {
		c.Label("has-cycle")
	}
	if hard {
		c.Label("has-cycle:router/splitter/redirect")
	}
	valid := 0
	for i, e := range op.Entries {
		if !validity[i] {
			c.Label("entry-refused-by-validate(dropped)")
		} else {
			valid++
			c.Label("entry:" + e.Kind)
		}
	}
	c.Labelf("valid-entries=%s", verifC15Bucket(valid))

	// One set in natural order plus one per drawn insertion order, each made of freshly built entries. The sets
	// are shared by the requests of the case, as the entries of a real server are shared by all compilations
	// (memdb hands out the same objects), so a compilation that damages its input shows up as well.
	base := verifc15.BuildSet(op.Entries, nil, op.Peers)
	reinserted := make([]*configentry.DiscoveryChainSet, len(op.Orders))
	for i, ord := range op.Orders {
		reinserted[i] = verifc15.BuildSet(op.Entries, ord, op.Peers)
	}
	compile := func(r verifC15Req, set *configentry.DiscoveryChainSet) verifc15.Outcome {
		req := verifC15Request(r)
		req.Entries = set
		o := verifc15.Run(f, c, func() string { return fmt.Sprintf("Compile(%+v)", r) },
			func() (*structs.CompiledDiscoveryChain, error) { return Compile(req) })
		c.Step()
		if o.Panic != "" {
			c.Violation(f, "C15/panic/"+o.Site, "Compile(%+v) panicked: %s", r, o.Panic)
		}
		return o
	}

	for _, r := range op.Reqs {
		advanced := r.OProto == "" || structs.IsProtocolHTTPLike(r.OProto)
		o1 := compile(r, base)
		c.Label("compile=" + verifc15.ErrKind(o1.Err))
		if r.OProto != "" || r.OMgw != "" || r.OTimeoutMs != 0 {
			c.Label("ctx:overrides")
		}
		if o1.Err == nil {
			if p := verifc15.CheckChain(o1.Chain); p != nil {
				if c.Violation(f, p.Key, "Compile(%+v): %s", r, p.Detail) {
					continue
				}
			}
			if o1.Chain.ServiceName != r.Service || o1.Chain.Datacenter != r.DC {
				c.Violation(f, "C15/chain-identity", "Compile(%+v) returned a chain for %s in %s", r, o1.Chain.ServiceName, o1.Chain.Datacenter)
			}
			switch o1.Chain.Nodes[o1.Chain.StartNode].Type {
			case structs.DiscoveryGraphNodeTypeRouter:
				c.Label("start=router")
			case structs.DiscoveryGraphNodeTypeSplitter:
				c.Label("start=splitter")
			}
			if d := model.SplitterDepth(r.Service); d >= 2 && advanced && model.Routers[r.Service] == nil {
				c.Labelf("compiled-splitter-nesting=%d", d)
			}
			if len(o1.Chain.Nodes) >= 4 {
				c.Label("chain-nodes>=4")
			}
			for _, n := range o1.Chain.Nodes {
				if n.Resolver != nil && n.Resolver.Failover != nil {
					c.Label("chain-has-failover")
				}
			}
		}
		if must, why := model.MustError(r.Service, advanced); must {
			c.Label("model:cycle-on-compile-path")
			if o1.Err == nil {
				c.Violation(f, "C15/cycle-not-reported", "Compile(%+v) succeeded although the entries contain a %s on the path the compiler must walk", r, why)
			}
		}
		c1 := verifc15.Canon(o1.Chain, o1.Err)
		same := func(o verifc15.Outcome, how string) {
			cn := verifc15.Canon(o.Chain, o.Err)
			if cn == c1 {
				return
			}
			if o.Err != nil && o1.Err != nil {
				// both are errors: only the KIND must agree (message texts are not part of the property)
				if verifc15.ErrKind(o.Err) == verifc15.ErrKind(o1.Err) {
					c.Label("error-text-differs-between-compiles(tolerated)")
					return
				}
			}
			c.Violation(f, "C15/nondeterministic/"+verifc15.DiffPath(c1, cn), "Compile(%+v) %s gave a different result; %s", r, how, verifc15.FirstDiff(c1, cn))
		}
		same(compile(r, base), "on the same set a second time")
		for i, ord := range op.Orders {
			same(compile(r, reinserted[i]), fmt.Sprintf("after re-inserting the entries in order %v into a fresh set", ord))
		}
	}
}

func verifC15Bucket(n int) string {
	switch {
	case n <= 2:
		return "0-2"
	case n <= 5:
		return "3-5"
	}
	return "6+"
}

func verifC15GenReq(t *rapid.T, svc string) verifC15Req {
	r := verifC15Req{
		Service: svc,
		DC:      rapid.SampledFrom([]string{"dc1", "dc1", "dc2"}).Draw(t, "evaldc"),
		Trust:   rapid.SampledFrom([]string{"trustdomain.consul", "b6fc9da3-03d4-4b5a-9134-c045e9b20152.consul"}).Draw(t, "trust"),
	}
	if rapid.IntRange(0, 99).Draw(t, "overrides?") < 40 {
		r.OProto = rapid.SampledFrom([]string{"", "", "tcp", "http", "grpc", "http2"}).Draw(t, "oproto")
		r.OMgw = rapid.SampledFrom([]string{"", "local", "remote", "none"}).Draw(t, "omgw")
		r.OTimeoutMs = rapid.SampledFrom([]int{0, 3000, 5000}).Draw(t, "otimeout")
	}
	return r
}

func TestVerifC15Direct(t *testing.T) {
	rec := verifkit.For("C15")
	defer rec.Flush()
	verifc15.TuneGC()
	extraOrders := 1
	if verifkit.Thorough() {
		extraOrders = 3
	}
	rapid.Check(t, func(t *rapid.T) {
		c := rec.NewCase()
		c.Label("mode=direct")
		plan := verifc15.GenPlan(t, verifc15.Services)
		op := verifC15DirectOp{Mode: "direct", Entries: verifc15.GenSet(t, plan)}
		if rapid.IntRange(0, 99).Draw(t, "peers?") < 50 {
			op.Peers = verifc15.Peers
		}
		nOrders := extraOrders
		splitters := 0
		for _, e := range op.Entries {
			if e.Kind == structs.ServiceSplitter {
				splitters++
			}
		}
		if splitters >= 2 {
			nOrders += 2 // map-order effects in splitter flattening need a few more throws of the dice
		}
		for i := 0; i < nOrders; i++ {
			op.Orders = append(op.Orders, rapid.Permutation(verifC15Iota(len(op.Entries))).Draw(t, "order"))
		}
		for _, s := range verifc15.Services {
			op.Reqs = append(op.Reqs, verifC15GenReq(t, s))
		}
		c.Op(op) // recorded (and, on a violation, written to the replay file) before anything is compiled
		verifC15RunDirect(t, c, op)
		c.Done()
	})
}

func verifC15Iota(n int) []int {
	out := make([]int, n)
	for i := range out {
		out[i] = i
	}
	return out
}

// TestVerifC15DirectExhaustive compiles EVERY set of <= 3 (thorough: <= 5) entries of the reduced grammar over
// two services, for both services, without and with a tcp protocol override, through the same oracle.
func TestVerifC15DirectExhaustive(t *testing.T) {
	rec := verifkit.For("C15")
	defer rec.Flush()
	verifc15.TuneGC()
	max := verifkit.EnvInt("VERIF_C15_EXH_MAX", 3)
	if verifkit.Thorough() {
		max = verifkit.EnvInt("VERIF_C15_EXH_MAX", 5)
	}
	shard, nshards := verifc15.ShardOf()
	slots := verifc15.SmallSlots("web", "api")
	var mine int64
	total := verifc15.EnumSets(slots, max, func(idx int, set []verifc15.Entry) {
		if idx%nshards != shard {
			return
		}
		mine++
		c := rec.NewCase()
		c.Label("mode=direct-exhaustive")
		op := verifC15DirectOp{Mode: "direct", Entries: set}
		rev := verifC15Iota(len(set))
		for i, j := 0, len(rev)-1; i < j; i, j = i+1, j-1 {
			rev[i], rev[j] = rev[j], rev[i]
		}
		op.Orders = [][]int{rev}
		for _, s := range []string{"web", "api"} {
			op.Reqs = append(op.Reqs,
				verifC15Req{Service: s, DC: "dc1", Trust: "trustdomain.consul"},
				verifC15Req{Service: s, DC: "dc1", Trust: "trustdomain.consul", OProto: "tcp"})
		}
		c.Op(op)
		verifC15RunDirect(t, c, op)
		c.Done()
	})
	rec.AddExtraInt("exhaustive_small_sets", mine)
	rec.SetExtra("exhaustive_small_sets_max_entries", fmt.Sprint(max))
	t.Logf("exhaustive: %d of %d sets (<= %d entries) in shard %d/%d", mine, total, max, shard, nshards)
}

// TestVerifC15Replay re-executes saved direct-mode cases without rapid.
func TestVerifC15Replay(t *testing.T) {
	rec := verifkit.For("C15")
	defer rec.Flush()
	verifc15.TuneGC()
	for _, path := range verifkit.ReplayFiles("C15") {
		rp, err := verifkit.LoadReplay(path)
		if err != nil {
			t.Fatalf("%v", err)
		}
		for _, raw := range rp.Ops {
			var op verifC15DirectOp
			if err := json.Unmarshal(raw, &op); err != nil || op.Mode != "direct" {
				continue // a store-mode replay: executed by the replay test of agent/consul/state
			}
			c := rec.NewCase()
			c.Label("replay")
			c.Op(op)
			verifC15RunDirect(t, c, op)
			c.Done()
		}
	}
}
