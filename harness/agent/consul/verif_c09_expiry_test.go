package consul

// C09 (part b) — "expired tokens never honoured" and the key/txn result filters of agent/consul/filter.go.
//
// Expiry: inside rapid.SyncTest (testing/synctest fake clock) a real ACLResolver (identity / policy / authorizer
// caches, TTLs, down policies) is driven by generated sequences  resolve / advance clock / RPC failure on|off  over
// tokens whose expiration lies {1h before, 1ns before, 1ms after, 1h after} the start of the case, or never.
// The backend is the package's ACLResolverTestDelegate, which — unlike a real server — hands out expired tokens
// (remote datacenter with a skewed clock, or a token that expired after it was cached), so the resolver's own check
// is what is tested. Oracle: once now > ExpirationTime, ResolveToken returns acl.ErrNotFound whatever the cache
// state; while now < ExpirationTime (and the backend answers) the token resolves to its own identity and policy.
// Not asserted: the outcome at now == ExpirationTime exactly (the statement says "past"); the outcome while the
// token RPC is failing and the identity is not available (the documented down policy applies; the result must then
// carry the missing-identity placeholder, never the expired token's identity).

import (
	"encoding/json"
	"fmt"
	"testing"
	"testing/synctest"
	"time"

	"github.com/hashicorp/go-hclog"
	"pgregory.net/rapid"

	"github.com/hashicorp/consul/acl"
	"github.com/hashicorp/consul/agent/structs"
	"github.com/hashicorp/consul/internal/verifkit"
)

type verifC09ExpStep struct {
	Kind string `json:"kind"` // resolve | advance | rpcfail | rpcok
	Tok  int    `json:"tok,omitempty"`
	Dur  int64  `json:"dur_ns,omitempty"`
}

type verifC09ExpCase struct {
	Op            string            `json:"op"` // "expiry"
	LocalTokens   bool              `json:"local_tokens"`
	LocalPolicies bool              `json:"local_policies"`
	Down          string            `json:"down"`
	TokenTTL      int64             `json:"token_ttl_ns"`
	Offsets       []string          `json:"offsets"` // per token: -1h | -1ns | +1ms | +1h | none
	Steps         []verifC09ExpStep `json:"steps"`
}

var verifC09Offsets = map[string]time.Duration{"-1h": -time.Hour, "-1ns": -time.Nanosecond, "+1ms": time.Millisecond, "+1h": time.Hour}

func verifC09U(t *rapid.T, n int, label string) int {
	if n <= 1 {
		return 0
	}
	v := 0
	for i := 0; (1 << i) < n*8; i++ {
		v <<= 1
		if rapid.Bool().Draw(t, label) {
			v |= 1
		}
	}
	return v % n
}

func verifC09GenExpiry(t *rapid.T) *verifC09ExpCase {
	cs := &verifC09ExpCase{Op: "expiry",
		LocalTokens:   verifC09U(t, 3, "localtokens") == 0,
		LocalPolicies: rapid.Bool().Draw(t, "localpolicies"),
		Down:          []string{"extend-cache", "extend-cache", "async-cache", "deny", "allow"}[verifC09U(t, 5, "down")],
		TokenTTL:      int64([]time.Duration{30 * time.Second, 30 * time.Second, 0, 2 * time.Hour}[verifC09U(t, 4, "ttl")]),
	}
	offs := []string{"-1h", "-1ns", "+1ms", "+1ms", "+1h", "+1h", "none"}
	nt := 1 + verifC09U(t, 5, "ntok")
	for i := 0; i < nt; i++ {
		cs.Offsets = append(cs.Offsets, offs[verifC09U(t, len(offs), "offset")])
	}
	durs := []time.Duration{1, 999999, time.Millisecond, time.Millisecond + 1, time.Second, 29 * time.Second, 31 * time.Second,
		time.Hour - time.Millisecond, time.Hour, 2 * time.Hour}
	if rapid.Bool().Draw(t, "skeleton") {
		// forced shape: resolve while valid, let the token expire (possibly still inside the identity-cache TTL), resolve again
		var ds []time.Duration
		if rapid.Bool().Draw(t, "skel-ms") {
			cs.Offsets[0] = "+1ms"
			ds = []time.Duration{time.Millisecond + 1, time.Second, 29 * time.Second, 31 * time.Second, 2 * time.Hour}
		} else {
			cs.Offsets[0] = "+1h"
			ds = []time.Duration{time.Hour + 1, 2 * time.Hour}
		}
		cs.Steps = append(cs.Steps, verifC09ExpStep{Kind: "resolve", Tok: 0},
			verifC09ExpStep{Kind: "advance", Dur: int64(ds[verifC09U(t, len(ds), "skel-dur")])},
			verifC09ExpStep{Kind: "resolve", Tok: 0})
	}
	n := 3 + verifC09U(t, 10, "nsteps")
	for i := 0; i < n; i++ {
		switch k := verifC09U(t, 12, "step"); {
		case k < 6:
			cs.Steps = append(cs.Steps, verifC09ExpStep{Kind: "resolve", Tok: verifC09U(t, nt, "tok")})
		case k < 10:
			cs.Steps = append(cs.Steps, verifC09ExpStep{Kind: "advance", Dur: int64(durs[verifC09U(t, len(durs), "dur")])})
		case k == 10:
			cs.Steps = append(cs.Steps, verifC09ExpStep{Kind: "rpcfail"})
		default:
			cs.Steps = append(cs.Steps, verifC09ExpStep{Kind: "rpcok"})
		}
	}
	return cs
}

// verifC09RunExpiry must be called inside a synctest bubble.
func verifC09RunExpiry(f verifkit.F, c *verifkit.Case, cs *verifC09ExpCase) {
	t0 := time.Now()
	type tok struct {
		secret string
		exp    *time.Time
		// bookkeeping for labels
		okBefore   bool
		lastOK     time.Time
		everCached bool
	}
	toks := make([]*tok, len(cs.Offsets))
	var data []interface{}
	for i, off := range cs.Offsets {
		tk := &tok{secret: fmt.Sprintf("secret-%d", i)}
		at := &structs.ACLToken{AccessorID: fmt.Sprintf("accessor-%d", i), SecretID: tk.secret, Description: off,
			Policies: []structs.ACLTokenPolicyLink{{ID: fmt.Sprintf("pol-%d", i)}}, CreateTime: t0.Add(-2 * time.Hour)}
		if off != "none" {
			d, ok := verifC09Offsets[off]
			if !ok {
				f.Fatalf("C09 harness: unknown offset %q", off)
			}
			e := t0.Add(d)
			tk.exp = &e
			at.ExpirationTime = &e
		}
		at.SetHash(false)
		pol := &structs.ACLPolicy{ID: fmt.Sprintf("pol-%d", i), Name: fmt.Sprintf("pol-%d", i),
			Rules: fmt.Sprintf(`key "tok-%d" { policy = "write" }`, i), RaftIndex: structs.RaftIndex{CreateIndex: 1, ModifyIndex: 2}}
		pol.SetHash(false)
		data = append(data, at, pol)
		toks[i] = tk
	}
	rpcFail := false
	delegate := &ACLResolverTestDelegate{enabled: true, datacenter: "dc1", localTokens: cs.LocalTokens, localPolicies: cs.LocalPolicies, localRoles: true}
	delegate.UseTestLocalData(data)
	delegate.tokenReadFn = func(args *structs.ACLTokenGetRequest, reply *structs.ACLTokenResponse) error {
		if rpcFail {
			return fmt.Errorf("induced RPC error")
		}
		return delegate.plainTokenReadFn(args, reply)
	}
	delegate.policyResolveFn = delegate.plainPolicyResolveFn
	delegate.roleResolveFn = delegate.plainRoleResolveFn
	r, err := NewACLResolver(&ACLResolverConfig{
		Config: ACLResolverSettings{ACLsEnabled: true, Datacenter: "dc1", NodeName: "verif-node",
			ACLPolicyTTL: 30 * time.Second, ACLTokenTTL: time.Duration(cs.TokenTTL), ACLRoleTTL: 30 * time.Second,
			ACLDownPolicy: cs.Down, ACLDefaultPolicy: "deny"},
		Logger:      hclog.NewNullLogger(),
		CacheConfig: &structs.ACLCachesConfig{Identities: 3, Policies: 3, ParsedPolicies: 3, Authorizers: 3, Roles: 3},
		Backend:     delegate,
	})
	if err != nil {
		f.Fatalf("C09 harness: NewACLResolver: %v", err)
	}
	c.Labelf("down=%s", cs.Down)
	c.Labelf("local-tokens=%v", cs.LocalTokens)
	c.Labelf("token-ttl=%s", time.Duration(cs.TokenTTL))

	for si, st := range cs.Steps {
		switch st.Kind {
		case "advance":
			time.Sleep(time.Duration(st.Dur))
		case "rpcfail":
			rpcFail = true
		case "rpcok":
			rpcFail = false
		case "resolve":
			if st.Tok < 0 || st.Tok >= len(toks) {
				continue
			}
			tk := toks[st.Tok]
			now := time.Now()
			expired := tk.exp != nil && now.After(*tk.exp)
			boundary := tk.exp != nil && now.Equal(*tk.exp)
			res, err := r.ResolveToken(tk.secret)
			synctest.Wait() // let a background (async-cache) refresh finish before the next step: deterministic cache state
			_, missing := res.ACLIdentity.(*missingIdentity)
			state := fmt.Sprintf("step %d, token %d (expiry offset %s), now=t0+%s, rpcFail=%v, localTokens=%v, down=%s, ttl=%s, resolved-ok-before=%v",
				si, st.Tok, cs.Offsets[st.Tok], now.Sub(t0), rpcFail, cs.LocalTokens, cs.Down, time.Duration(cs.TokenTTL), tk.okBefore)
			switch {
			case expired:
				c.Label("resolve-after-expiry")
				if tk.okBefore {
					c.Label("resolved-before-and-after-expiry")
					c.NonTrivial()
					if !cs.LocalTokens && now.Sub(tk.lastOK) <= time.Duration(cs.TokenTTL) {
						c.Label("expired-while-identity-cached-within-ttl")
					}
				}
				switch {
				case err == nil && missing && rpcFail && !cs.LocalTokens:
					c.Label("expired+rpc-down=>down-policy")
				case err == nil:
					c.Violation(f, "C09/expired-token-honoured", "ResolveToken succeeded for a token past its expiration time: %s; identity=%T", state, res.ACLIdentity)
				case !acl.IsErrNotFound(err) && !rpcFail:
					c.Violation(f, "C09/expired-token-wrong-error", "expired token: want acl.ErrNotFound, got %v; %s", err, state)
				}
			case boundary:
				c.Label("resolve-at-exact-expiry-instant(not-asserted)")
			default:
				if rpcFail && !cs.LocalTokens {
					c.Label("valid+rpc-down(not-asserted)")
					if err == nil && !missing {
						tk.okBefore, tk.lastOK = true, now
					}
					break
				}
				if err != nil {
					c.Violation(f, "C09/valid-token-rejected", "token not yet expired but ResolveToken failed: %v; %s", err, state)
					break
				}
				own := acl.Allow == res.Authorizer.KeyWrite(fmt.Sprintf("tok-%d", st.Tok), nil)
				other := acl.Allow == res.Authorizer.KeyWrite(fmt.Sprintf("tok-%d", (st.Tok+1)%7+10), nil)
				if res.ACLIdentity == nil || res.ACLIdentity.SecretToken() != tk.secret || !own || other {
					c.Violation(f, "C09/valid-token-wrong-authorizer", "token resolved to the wrong identity/authorizer (own key writable=%v, foreign key writable=%v); %s", own, other, state)
					break
				}
				tk.okBefore, tk.lastOK = true, now
				c.Label("resolve-valid")
			}
		}
		c.Step()
	}
	synctest.Wait()
}

func TestVerifC09Expiry(t *testing.T) {
	rec := verifkit.For("C09")
	defer rec.Flush()
	rapid.Check(t, func(t *rapid.T) {
		c := rec.NewCase()
		cs := verifC09GenExpiry(t)
		c.Op(cs)
		c.Label("part=expiry")
		rapid.SyncTest(t, func(t *rapid.T) {
			defer c.GuardPanic(t, "C09/panic")
			verifC09RunExpiry(t, c, cs)
		})
		c.Done()
	})
}

// TestVerifC09ConsulReplay re-executes the agent/consul ops of saved C09 cases without rapid.
func TestVerifC09ConsulReplay(t *testing.T) {
	rec := verifkit.For("C09")
	defer rec.Flush()
	for _, path := range verifkit.ReplayFiles("C09") {
		rp, err := verifkit.LoadReplay(path)
		if err != nil {
			t.Fatalf("%v", err)
		}
		for _, raw := range rp.Ops {
			var probe struct {
				Op string `json:"op"`
			}
			if json.Unmarshal(raw, &probe) != nil {
				continue
			}
			switch probe.Op {
			case "expiry":
				var cs verifC09ExpCase
				if err := json.Unmarshal(raw, &cs); err != nil {
					t.Fatalf("%s: %v", path, err)
				}
				c := rec.NewCase()
				c.Op(&cs)
				c.Label("replay")
				synctest.Test(t, func(st *testing.T) {
					defer c.GuardPanic(st, "C09/panic")
					verifC09RunExpiry(st, c, &cs)
				})
				c.Done()
			case "keys":
				var ks verifC09KeyCase
				if err := json.Unmarshal(raw, &ks); err != nil {
					t.Fatalf("%s: %v", path, err)
				}
				c := rec.NewCase()
				c.Op(&ks)
				c.Label("replay")
				verifC09RunKeys(t, c, &ks)
				c.Done()
			}
		}
	}
}
