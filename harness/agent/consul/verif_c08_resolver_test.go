package consul

// C08 (c) — the same purity property through a real ACLResolver (server-style backend: tokens, policies and
// roles resolved locally, as on a server of the primary datacenter).
//
// Generated: a pool of policies (rule text), roles (policy links + service identities), tokens (policy links,
// role links, service / node identities), a default policy, cache sizes; a history of
//     resolve <token> | update-policy <policy> | update-role <role>
// through ONE ACLResolver. Oracle: the decision vector of ResolveToken(token).Authorizer equals the vector a
// brand-new resolver (fresh caches, fresh copies of every object) gives for the same token in the same data.
// On a mismatch the shared parsed-policy cache is probed to name the root cause.

import (
	"encoding/json"
	"fmt"
	"os"
	"reflect"
	"sort"
	"strings"
	"testing"
	"time"

	"github.com/hashicorp/go-hclog"
	"pgregory.net/rapid"

	"github.com/hashicorp/consul/acl"
	"github.com/hashicorp/consul/agent/structs"
	"github.com/hashicorp/consul/internal/verifkit"
)

func verifC08Recorder() *verifkit.Rec {
	if s := os.Getenv("VERIF_SHARD"); !strings.HasPrefix(s, "resolver") {
		os.Setenv("VERIF_SHARD", "resolver"+s)
	}
	return verifkit.For("C08")
}

type verifC08Rule struct {
	Kind       string `json:"k"`
	Prefix     bool   `json:"p,omitempty"`
	Name       string `json:"n"`
	Access     string `json:"a"`
	Intentions string `json:"i,omitempty"`
}

type verifC08Policy struct {
	ID    string         `json:"id"`
	Rules []verifC08Rule `json:"rules"`
}

// verifC08SID: a service identity, optionally scoped to datacenters (none = valid everywhere).
type verifC08SID struct {
	Name string   `json:"n"`
	DCs  []string `json:"dcs,omitempty"`
}

// UnmarshalJSON also accepts the older plain-string form ("web").
func (s *verifC08SID) UnmarshalJSON(b []byte) error {
	if len(b) > 0 && b[0] == '"' {
		s.DCs = nil
		return json.Unmarshal(b, &s.Name)
	}
	type plain verifC08SID
	return json.Unmarshal(b, (*plain)(s))
}

// verifC08NID: a node identity; its datacenter is mandatory ("" in old files = dc1, the resolver's own).
type verifC08NID struct {
	Name string `json:"n"`
	DC   string `json:"dc,omitempty"`
}

func (n *verifC08NID) UnmarshalJSON(b []byte) error {
	if len(b) > 0 && b[0] == '"' {
		n.DC = "dc1"
		return json.Unmarshal(b, &n.Name)
	}
	type plain verifC08NID
	return json.Unmarshal(b, (*plain)(n))
}

type verifC08Role struct {
	ID       string        `json:"id"`
	Policies []string      `json:"policies,omitempty"`
	SIDs     []verifC08SID `json:"sids,omitempty"`
	NIDs     []verifC08NID `json:"nids,omitempty"`
}

type verifC08Token struct {
	Secret   string        `json:"secret"`
	Policies []string      `json:"policies,omitempty"`
	Roles    []string      `json:"roles,omitempty"`
	SIDs     []verifC08SID `json:"sids,omitempty"`
	NIDs     []verifC08NID `json:"nids,omitempty"`
}

type verifC08Op struct {
	Kind          string           `json:"kind"` // resolver-init | resolve | update-policy | update-role
	Policies      []verifC08Policy `json:"policies,omitempty"`
	Roles         []verifC08Role   `json:"roles,omitempty"`
	Tokens        []verifC08Token  `json:"tokens,omitempty"`
	DefaultPolicy string           `json:"default_policy,omitempty"`
	CacheParsed   int              `json:"cache_parsed,omitempty"`
	CacheAuthz    int              `json:"cache_authz,omitempty"`
	Token         string           `json:"token,omitempty"`
	Policy        *verifC08Policy  `json:"policy,omitempty"`
	Role          *verifC08Role    `json:"role,omitempty"`
}

var (
	verifC08Names = []string{"", "w", "we", "web", "web-", "web-api", "x"}
	verifC08Kinds = []string{"agent", "event", "key", "node", "query", "service", "session"}
	verifC08SIDs  = []string{"web", "web-api", "x"}
)

func verifC08Render(p verifC08Policy) string {
	var b strings.Builder
	for _, r := range p.Rules {
		kw := r.Kind
		if r.Prefix {
			kw += "_prefix"
		}
		fmt.Fprintf(&b, "%s %q {\n  policy = %q\n", kw, r.Name, r.Access)
		if r.Intentions != "" {
			fmt.Fprintf(&b, "  intentions = %q\n", r.Intentions)
		}
		b.WriteString("}\n")
	}
	return b.String()
}

type verifC08Q struct {
	Method string
	Arg    string
}

// verifC08Vector calls every method of acl.Authorizer (by reflection, so none can be missed) on every query name.
func verifC08Queries(f verifkit.F) []verifC08Q {
	it := reflect.TypeOf((*acl.Authorizer)(nil)).Elem()
	names := append([]string{}, verifC08Names...)
	for _, n := range verifC08Names {
		names = append(names, n+"~")
	}
	names = append(names, "web-sidecar-proxy", "*")
	var qs []verifC08Q
	for i := 0; i < it.NumMethod(); i++ {
		m := it.Method(i)
		switch {
		case m.Name == "ToAllowAuthorizer":
		case m.Type.NumIn() == 1:
			qs = append(qs, verifC08Q{Method: m.Name})
		case m.Type.NumIn() == 2 && m.Type.In(0).Kind() == reflect.String:
			for _, n := range names {
				qs = append(qs, verifC08Q{Method: m.Name, Arg: n})
			}
		default:
			f.Fatalf("harness: Authorizer method %s has a shape the C08 check does not know", m.Name)
		}
	}
	sort.Slice(qs, func(i, j int) bool {
		if qs[i].Method != qs[j].Method {
			return qs[i].Method < qs[j].Method
		}
		return qs[i].Arg < qs[j].Arg
	})
	return qs
}

func verifC08Vector(a acl.Authorizer, qs []verifC08Q) []acl.EnforcementDecision {
	v := reflect.ValueOf(a)
	var nilCtx *acl.AuthorizerContext
	ctx := reflect.ValueOf(nilCtx)
	out := make([]acl.EnforcementDecision, len(qs))
	for i, q := range qs {
		m := v.MethodByName(q.Method)
		var res []reflect.Value
		if m.Type().NumIn() == 1 {
			res = m.Call([]reflect.Value{ctx})
		} else {
			res = m.Call([]reflect.Value{reflect.ValueOf(q.Arg), ctx})
		}
		out[i] = res[0].Interface().(acl.EnforcementDecision)
	}
	return out
}

type verifC08World struct {
	f        verifkit.F
	init     verifC08Op
	policies map[string]verifC08Policy
	polIx    map[string]uint64
	roles    map[string]verifC08Role
	roleIx   map[string]uint64
	tokens   map[string]verifC08Token
}

// backend builds a delegate holding FRESH objects for the current data.
func (w *verifC08World) backend() *ACLResolverTestDelegate {
	d := &ACLResolverTestDelegate{enabled: true, datacenter: "dc1", localTokens: true, localPolicies: true, localRoles: true,
		testTokens: map[string]*structs.ACLToken{}, testPolicies: map[string]*structs.ACLPolicy{}, testRoles: map[string]*structs.ACLRole{}}
	for id := range w.policies {
		d.testPolicies[id] = w.policyRow(id)
	}
	for id := range w.roles {
		d.testRoles[id] = w.roleRow(id)
	}
	for s := range w.tokens {
		d.testTokens[s] = w.tokenRow(s)
	}
	return d
}

func verifC08DCs(dcs []string) []string {
	if len(dcs) == 0 {
		return nil
	}
	return append([]string{}, dcs...)
}

func (w *verifC08World) tokenRow(s string) *structs.ACLToken {
	t := w.tokens[s]
	tok := &structs.ACLToken{AccessorID: "acc-" + s, SecretID: s, RaftIndex: structs.RaftIndex{CreateIndex: 5, ModifyIndex: 5}}
	for _, p := range t.Policies {
		tok.Policies = append(tok.Policies, structs.ACLTokenPolicyLink{ID: p})
	}
	for _, r := range t.Roles {
		tok.Roles = append(tok.Roles, structs.ACLTokenRoleLink{ID: r})
	}
	for _, n := range t.SIDs {
		tok.ServiceIdentities = append(tok.ServiceIdentities, &structs.ACLServiceIdentity{ServiceName: n.Name, Datacenters: verifC08DCs(n.DCs)})
	}
	for _, n := range t.NIDs {
		dc := n.DC
		if dc == "" {
			dc = "dc1"
		}
		tok.NodeIdentities = append(tok.NodeIdentities, &structs.ACLNodeIdentity{NodeName: n.Name, Datacenter: dc})
	}
	tok.SetHash(true)
	return tok
}

func (w *verifC08World) policyRow(id string) *structs.ACLPolicy {
	p := w.policies[id]
	text := verifC08Render(p)
	if _, err := acl.NewPolicyFromSource(text, &acl.Config{}, nil); err != nil {
		w.f.Fatalf("harness: generated rules rejected by the strict parser: %v\n%s", err, text)
	}
	row := &structs.ACLPolicy{ID: id, Name: "policy-" + id, Rules: text, RaftIndex: structs.RaftIndex{CreateIndex: 1, ModifyIndex: w.polIx[id]}}
	row.SetHash(true)
	return row
}

func (w *verifC08World) roleRow(id string) *structs.ACLRole {
	r := w.roles[id]
	row := &structs.ACLRole{ID: id, Name: "role-" + id, RaftIndex: structs.RaftIndex{CreateIndex: 1, ModifyIndex: w.roleIx[id]}}
	for _, p := range r.Policies {
		row.Policies = append(row.Policies, structs.ACLRolePolicyLink{ID: p})
	}
	for _, n := range r.SIDs {
		row.ServiceIdentities = append(row.ServiceIdentities, &structs.ACLServiceIdentity{ServiceName: n.Name, Datacenters: verifC08DCs(n.DCs)})
	}
	for _, n := range r.NIDs {
		dc := n.DC
		if dc == "" {
			dc = "dc1"
		}
		row.NodeIdentities = append(row.NodeIdentities, &structs.ACLNodeIdentity{NodeName: n.Name, Datacenter: dc})
	}
	row.SetHash(true)
	return row
}

func (w *verifC08World) resolver(d *ACLResolverTestDelegate, parsed, authz int) *ACLResolver {
	r, err := NewACLResolver(&ACLResolverConfig{
		Config: ACLResolverSettings{ACLsEnabled: true, Datacenter: "dc1", NodeName: "node1", ACLPolicyTTL: 30 * time.Second,
			ACLTokenTTL: 30 * time.Second, ACLRoleTTL: 30 * time.Second, ACLDownPolicy: "extend-cache", ACLDefaultPolicy: w.init.DefaultPolicy},
		Logger:      hclog.NewNullLogger(),
		CacheConfig: &structs.ACLCachesConfig{Identities: 8, Policies: 8, ParsedPolicies: parsed, Authorizers: authz, Roles: 8},
		Backend:     d,
	})
	if err != nil {
		w.f.Fatalf("harness: NewACLResolver: %v", err)
	}
	return r
}

// effective policy ids of a token (for labels and the root-cause probe)
func (w *verifC08World) effective(secret string) (pols []string, sids []string) {
	t := w.tokens[secret]
	seenP, seenS := map[string]bool{}, map[string]bool{}
	addP := func(p string) {
		if !seenP[p] {
			seenP[p] = true
			pols = append(pols, p)
		}
	}
	addS := func(s string) {
		if !seenS[s] {
			seenS[s] = true
			sids = append(sids, s)
		}
	}
	for _, p := range t.Policies {
		addP(p)
	}
	for _, s := range t.SIDs {
		addS(fmt.Sprintf("%s@%v", s.Name, s.DCs))
	}
	for _, r := range t.Roles {
		for _, p := range w.roles[r].Policies {
			addP(p)
		}
		for _, s := range w.roles[r].SIDs {
			addS(fmt.Sprintf("%s@%v(%s)", s.Name, s.DCs, r))
		}
	}
	return
}

func verifC08ScopeKey(dcs []string) string {
	cp := append([]string{}, dcs...)
	sort.Strings(cp)
	return strings.Join(cp, ",")
}

// scopeConflictRoles: roles of the token that carry a service identity whose name also occurs, under a different
// datacenter scope, in another source (another role or the token itself) of the same token.
func (w *verifC08World) scopeConflictRoles(secret string) []string {
	t := w.tokens[secret]
	type src struct{ role, scope string }
	by := map[string][]src{}
	for _, s := range t.SIDs {
		by[s.Name] = append(by[s.Name], src{"", verifC08ScopeKey(s.DCs)})
	}
	for _, r := range t.Roles {
		for _, s := range w.roles[r].SIDs {
			by[s.Name] = append(by[s.Name], src{r, verifC08ScopeKey(s.DCs)})
		}
	}
	seen := map[string]bool{}
	var out []string
	for _, r := range t.Roles { // deterministic order
		for _, s := range w.roles[r].SIDs {
			for _, o := range by[s.Name] {
				if o.role != r && o.scope != verifC08ScopeKey(s.DCs) && !seen[r] {
					seen[r] = true
					out = append(out, r)
				}
			}
		}
	}
	return out
}

// checkSharedObjects deep-compares every role / token / policy object held by the live backend with a freshly built
// copy of the same data. Returns true when a tolerated (known) finding was hit (caller re-synchronises).
func (w *verifC08World) checkSharedObjects(c *verifkit.Case, live *ACLResolverTestDelegate, resolved string) bool {
	ids := make([]string, 0, len(w.roles))
	for id := range w.roles {
		ids = append(ids, id)
	}
	sort.Strings(ids)
	for _, id := range ids {
		if want := w.roleRow(id); !reflect.DeepEqual(live.testRoles[id], want) {
			gj, _ := json.Marshal(live.testRoles[id])
			wj, _ := json.Marshal(want)
			return c.Violation(w.f, "C08/shared-role-mutated-by-resolution",
				"resolving token %s changed the shared role object %q (every token linked to that role is resolved from it):\n now    %s\n before %s", resolved, id, gj, wj)
		}
	}
	ids = ids[:0]
	for s := range w.tokens {
		ids = append(ids, s)
	}
	sort.Strings(ids)
	for _, s := range ids {
		if want := w.tokenRow(s); !reflect.DeepEqual(live.testTokens[s], want) {
			gj, _ := json.Marshal(live.testTokens[s])
			wj, _ := json.Marshal(want)
			return c.Violation(w.f, "C08/shared-token-mutated-by-resolution", "resolving token %s changed the shared token object %q:\n now    %s\n before %s", resolved, s, gj, wj)
		}
	}
	ids = ids[:0]
	for p := range w.policies {
		ids = append(ids, p)
	}
	sort.Strings(ids)
	for _, p := range ids {
		if want := w.policyRow(p); !reflect.DeepEqual(live.testPolicies[p], want) {
			gj, _ := json.Marshal(live.testPolicies[p])
			wj, _ := json.Marshal(want)
			return c.Violation(w.f, "C08/shared-policy-row-mutated-by-resolution", "resolving token %s changed the shared policy row %q:\n now    %s\n before %s", resolved, p, gj, wj)
		}
	}
	return false
}

func verifC08Conflict(a, b verifC08Policy) bool {
	for _, x := range a.Rules {
		for _, y := range b.Rules {
			if x.Kind == y.Kind && x.Prefix == y.Prefix && x.Name == y.Name && (x.Access != y.Access || x.Intentions != y.Intentions) {
				return true
			}
		}
	}
	return false
}

func verifC08RunResolver(f verifkit.F, rec *verifkit.Rec, qs []verifC08Q, ops []verifC08Op, replay bool) {
	c := rec.NewCase()
	defer c.GuardPanic(f, "C08/panic")
	if len(ops) == 0 || ops[0].Kind != "resolver-init" {
		f.Fatalf("harness: history must start with resolver-init")
	}
	w := &verifC08World{f: f, init: ops[0], policies: map[string]verifC08Policy{}, polIx: map[string]uint64{}, roles: map[string]verifC08Role{},
		roleIx: map[string]uint64{}, tokens: map[string]verifC08Token{}}
	c.Op(ops[0])
	c.Label("target=resolver")
	c.Label("default-policy=" + w.init.DefaultPolicy)
	if replay {
		c.Label("replay")
	}
	ix := uint64(10)
	for _, p := range w.init.Policies {
		w.policies[p.ID], w.polIx[p.ID] = p, ix
	}
	for _, r := range w.init.Roles {
		w.roles[r.ID], w.roleIx[r.ID] = r, ix
	}
	for _, t := range w.init.Tokens {
		w.tokens[t.Secret] = t
	}
	live := w.backend()
	shared := w.resolver(live, w.init.CacheParsed, w.init.CacheAuthz)
	defer func() { shared.Close() }()
	var earlier [][]string
	nt := false
	scopeMerged := map[string]string{} // role id -> first token whose resolution merged differently scoped same-named identities involving it
	for _, op := range ops[1:] {
		c.Op(op)
		switch op.Kind {
		case "update-policy":
			ix++
			w.policies[op.Policy.ID], w.polIx[op.Policy.ID] = *op.Policy, ix
			live.testPolicies[op.Policy.ID] = w.policyRow(op.Policy.ID) // a new row object, as a state-store write produces
			c.Label("op=policy-update")
		case "update-role":
			ix++
			w.roles[op.Role.ID], w.roleIx[op.Role.ID] = *op.Role, ix
			live.testRoles[op.Role.ID] = w.roleRow(op.Role.ID)
			c.Label("op=role-update")
		case "resolve":
			pols, sids := w.effective(op.Token)
			if len(w.tokens[op.Token].Roles) > 0 {
				c.Label("token=with-role")
			}
			if len(sids) > 0 || len(w.tokens[op.Token].NIDs) > 0 {
				c.Label("token=with-identity")
			}
			set := map[string]bool{}
			for _, p := range pols {
				set[p] = true
			}
			for _, prev := range earlier {
				sharedPol, differs, conflict := false, len(prev) != len(pols), false
				all := append(append([]string{}, prev...), pols...)
				for _, p := range prev {
					if set[p] {
						sharedPol = true
					} else {
						differs = true
					}
				}
				for i := range all {
					for j := i + 1; j < len(all); j++ {
						if verifC08Conflict(w.policies[all[i]], w.policies[all[j]]) {
							conflict = true
						}
					}
				}
				if sharedPol && differs {
					c.Label("history=earlier-token-shares-a-policy")
					if conflict {
						c.Label("history=earlier-sharing-token-with-conflicting-rules")
						nt = true
					}
				}
			}
			earlier = append(earlier, pols)
			// datacenter scopes: the same identity name under different scopes from different sources of this token
			scopeRoles := w.scopeConflictRoles(op.Token)
			if len(scopeRoles) > 0 {
				c.Label("same-identity-name-different-datacenter-scopes-across-roles")
			}
			for _, r := range w.tokens[op.Token].Roles {
				if by, ok := scopeMerged[r]; ok && by != op.Token {
					c.Label("history=role-shared-with-earlier-scope-merging-token")
					nt = true
				}
			}
			for _, r := range scopeRoles {
				if _, ok := scopeMerged[r]; !ok {
					scopeMerged[r] = op.Token
				}
			}
			res, err := shared.ResolveToken(op.Token)
			if err != nil {
				f.Fatalf("harness: ResolveToken(%s) through the shared resolver failed: %v", op.Token, err)
			}
			warm := verifC08Vector(res.Authorizer, qs)
			// the objects the backend hands out are shared by every resolution (state-store rows on servers, cache
			// entries on clients): a resolution must leave them exactly as they were
			if w.checkSharedObjects(c, live, op.Token) {
				live = w.backend()
				shared.Close()
				shared = w.resolver(live, w.init.CacheParsed, w.init.CacheAuthz)
				continue
			}
			coldR := w.resolver(w.backend(), 64, 64)
			cres, err := coldR.ResolveToken(op.Token)
			if err != nil {
				f.Fatalf("harness: ResolveToken(%s) through a fresh resolver failed: %v", op.Token, err)
			}
			cold := verifC08Vector(cres.Authorizer, qs)
			coldR.Close()
			var ds []string
			for i, q := range qs {
				if warm[i] != cold[i] {
					ds = append(ds, fmt.Sprintf("%s(%q): shared=%s fresh=%s", q.Method, q.Arg, warm[i], cold[i]))
				}
			}
			if len(ds) == 0 {
				continue
			}
			if len(ds) > 8 {
				ds = append(ds[:8], fmt.Sprintf("... %d more", len(ds)-8))
			}
			// root-cause probe: is a parsed policy of this token, as held in the shared cache, no longer its rule text?
			key := "C08/resolver-decision-depends-on-history"
			cause := ""
			for _, p := range pols {
				row := live.testPolicies[p]
				if e := shared.cache.GetParsedPolicy(fmt.Sprintf("%x", row.Hash)); e != nil {
					pristine, _ := acl.NewPolicyFromSource(row.Rules, &acl.Config{WarnOnDuplicateKey: true}, nil)
					if !reflect.DeepEqual(e.Policy, pristine) {
						key = "C08/shared-policy-mutated-by-merge"
						cj, _ := json.Marshal(e.Policy.PolicyRules.Services)
						cp, _ := json.Marshal(e.Policy.PolicyRules.ServicePrefixes)
						cause = fmt.Sprintf("\n the parsed object of policy %q in the shared parsed-policy cache no longer matches its rule text %q: services %s service_prefixes %s",
							p, strings.ReplaceAll(row.Rules, "\n", " "), cj, cp)
					}
				}
			}
			if c.Violation(f, key, "token %s (policies %v, identities %v) resolved through the long-lived resolver decides differently from a brand-new resolver over the same data: %s%s",
				op.Token, pols, sids, strings.Join(ds, "; "), cause) {
				c.Label("known=" + key)
				shared.cache.Purge()
			}
		default:
			f.Fatalf("harness: unknown op kind %q", op.Kind)
		}
	}
	if nt {
		c.NonTrivial()
	}
	c.Done()
}

func verifC08GenRules(t *rapid.T, pool *[]verifC08Rule) []verifC08Rule {
	rules := []verifC08Rule{}
	n := rapid.IntRange(1, 5).Draw(t, "nrules")
	for i := 0; i < n; i++ {
		r := verifC08Rule{}
		if len(*pool) > 0 && rapid.IntRange(0, 1).Draw(t, "reuse") == 0 {
			e := rapid.SampledFrom(*pool).Draw(t, "slot")
			r.Kind, r.Prefix, r.Name = e.Kind, e.Prefix, e.Name
		} else {
			r.Kind = rapid.SampledFrom([]string{"service", "service", "service", "node", "key", "agent", "event", "query", "session"}).Draw(t, "kind")
			r.Prefix = rapid.Bool().Draw(t, "prefix")
			r.Name = rapid.SampledFrom(verifC08Names).Draw(t, "name")
		}
		dup := false
		for _, e := range rules {
			if e.Kind == r.Kind && e.Prefix == r.Prefix && e.Name == r.Name {
				dup = true
			}
		}
		if dup {
			continue
		}
		if r.Kind == "key" {
			r.Access = rapid.SampledFrom([]string{"deny", "read", "list", "write"}).Draw(t, "access")
		} else {
			r.Access = rapid.SampledFrom([]string{"deny", "read", "write"}).Draw(t, "access")
		}
		if r.Kind == "service" {
			r.Intentions = rapid.SampledFrom([]string{"", "", "", "deny", "read", "write"}).Draw(t, "intentions")
		}
		rules = append(rules, r)
	}
	*pool = append(*pool, rules...)
	return rules
}

var verifC08Scopes = [][]string{nil, nil, {"dc1"}, {"dc2"}, {"dc1", "dc2"}, {"dc2", "dc1"}}

func verifC08GenSIDs(t *rapid.T, max int, label string) []verifC08SID {
	var out []verifC08SID
	for _, n := range verifC08Subset(t, verifC08SIDs, max, label) {
		out = append(out, verifC08SID{Name: n, DCs: rapid.SampledFrom(verifC08Scopes).Draw(t, label+"-dcs")})
	}
	return out
}

func verifC08GenNIDs(t *rapid.T, max int, label string) []verifC08NID {
	var out []verifC08NID
	for _, n := range verifC08Subset(t, []string{"web", "x"}, max, label) {
		out = append(out, verifC08NID{Name: n, DC: rapid.SampledFrom([]string{"dc1", "dc1", "dc2"}).Draw(t, label+"-dc")})
	}
	return out
}

func verifC08Subset(t *rapid.T, from []string, max int, label string) []string {
	n := rapid.IntRange(0, max).Draw(t, label+"-n")
	if n > len(from) {
		n = len(from)
	}
	if n == 0 {
		return nil
	}
	return append([]string{}, rapid.Permutation(from).Draw(t, label)[:n]...)
}

func verifC08GenResolverHistory(t *rapid.T) []verifC08Op {
	sizes := []int{2, 2, 4, 8, 128}
	init := verifC08Op{Kind: "resolver-init", DefaultPolicy: rapid.SampledFrom([]string{"deny", "allow"}).Draw(t, "default"),
		CacheParsed: rapid.SampledFrom(sizes).Draw(t, "cache_parsed"), CacheAuthz: rapid.SampledFrom(sizes).Draw(t, "cache_authz")}
	pool := []verifC08Rule{{Kind: "service", Name: "web"}, {Kind: "service", Prefix: true, Name: ""}, {Kind: "node", Prefix: true, Name: ""}}
	var pids, rids, secrets []string
	np := rapid.IntRange(2, 4).Draw(t, "npolicies")
	for i := 0; i < np; i++ {
		id := fmt.Sprintf("p%d", i)
		pids = append(pids, id)
		init.Policies = append(init.Policies, verifC08Policy{ID: id, Rules: verifC08GenRules(t, &pool)})
	}
	nr := rapid.IntRange(0, 3).Draw(t, "nroles")
	for i := 0; i < nr; i++ {
		id := fmt.Sprintf("r%d", i)
		rids = append(rids, id)
		init.Roles = append(init.Roles, verifC08Role{ID: id, Policies: verifC08Subset(t, pids, 2, "role-policies"),
			SIDs: verifC08GenSIDs(t, 2, "role-sids"), NIDs: verifC08GenNIDs(t, 1, "role-nids")})
	}
	nt := rapid.IntRange(2, 4).Draw(t, "ntokens")
	for i := 0; i < nt; i++ {
		s := fmt.Sprintf("secret-%d", i)
		secrets = append(secrets, s)
		tok := verifC08Token{Secret: s, Policies: verifC08Subset(t, pids, 3, "token-policies"), Roles: verifC08Subset(t, rids, 3, "token-roles")}
		if rapid.IntRange(0, 3).Draw(t, "ident") == 0 {
			tok.SIDs = verifC08GenSIDs(t, 2, "token-sids")
			tok.NIDs = verifC08GenNIDs(t, 1, "token-nids")
		}
		init.Tokens = append(init.Tokens, tok)
	}
	ops := []verifC08Op{init}
	n := rapid.IntRange(2, 8).Draw(t, "nops")
	for i := 0; i < n; i++ {
		switch k := rapid.IntRange(0, 9).Draw(t, "opkind"); {
		case k == 0:
			p := verifC08Policy{ID: rapid.SampledFrom(pids).Draw(t, "update-id"), Rules: verifC08GenRules(t, &pool)}
			ops = append(ops, verifC08Op{Kind: "update-policy", Policy: &p})
		case k == 1 && len(rids) > 0:
			r := verifC08Role{ID: rapid.SampledFrom(rids).Draw(t, "update-role"), Policies: verifC08Subset(t, pids, 2, "role-policies"),
				SIDs: verifC08GenSIDs(t, 2, "role-sids"), NIDs: verifC08GenNIDs(t, 1, "role-nids")}
			ops = append(ops, verifC08Op{Kind: "update-role", Role: &r})
		default:
			ops = append(ops, verifC08Op{Kind: "resolve", Token: rapid.SampledFrom(secrets).Draw(t, "token")})
		}
	}
	return ops
}

// TestVerifC08Resolver: generated resolution histories through one long-lived ACLResolver.
func TestVerifC08Resolver(t *testing.T) {
	rec := verifC08Recorder()
	defer rec.Flush()
	qs := verifC08Queries(t)
	rec.SetExtra("resolver_queries_per_authorizer", fmt.Sprint(len(qs)))
	rapid.Check(t, func(t *rapid.T) {
		verifC08RunResolver(t, rec, qs, verifC08GenResolverHistory(t), false)
	})
}

// TestVerifC08Replay re-executes saved histories (ops[0].kind == "resolver-init") without rapid.
func TestVerifC08Replay(t *testing.T) {
	rec := verifC08Recorder()
	defer rec.Flush()
	qs := verifC08Queries(t)
	for _, path := range verifkit.ReplayFiles("C08") {
		rp, err := verifkit.LoadReplay(path)
		if err != nil {
			t.Fatalf("%v", err)
		}
		var ops []verifC08Op
		for _, raw := range rp.Ops {
			var op verifC08Op
			if err := json.Unmarshal(raw, &op); err != nil {
				ops = nil
				break
			}
			ops = append(ops, op)
		}
		if len(ops) == 0 || ops[0].Kind != "resolver-init" {
			continue // a case of another C08 target
		}
		t.Logf("replaying %s", path)
		verifC08RunResolver(t, rec, qs, ops, true)
	}
}
