package consul

// C19, "store" tier: primary and secondary are real FSMs (fsm.FSM over state.Store).
//
//   - the primary's objects are written the way its endpoints write them (hash set, raft request through
//     FSM.Apply at the object's ModifyIndex);
//   - the secondary's pre-existing objects are written through the REPLICATION write path (they are earlier
//     replication results), at the secondary's own raft indexes;
//   - `remote` / `local` are read with the store calls the list endpoints / FetchLocal use, re-ordered into the
//     case's arbitrary order, and handed to the real diff function;
//   - the two lists are applied as replicateACLType / replicateConfig / IndexReplicator.Replicate apply them:
//     deletions first, then upserts (objects fetched from the primary store with the call the batch-read
//     endpoint uses), each as the raft request the replicator builds, through FSM.Apply of the secondary;
//   - then the secondary's list must equal the primary's, field by field.
//
// Exempt from the comparison: RaftIndex.CreateIndex / ModifyIndex (the secondary's store stamps its own raft
// indexes; FederationState.PrimaryModifyIndex is the field that carries the primary's index and IS compared).
// What the harness mirrors instead of calling (needs a *Server with raft): the request construction inside
// DeleteLocalBatch/UpdateLocalBatch, reconcileLocalConfig (incl. its exported-services skip), PerformDeletions/
// PerformUpdates. Rate limiting, size batching and the RPC transport are not exercised.

import (
	"fmt"
	"regexp"
	"sort"
	"strings"
	"testing"
	"time"

	"github.com/google/go-cmp/cmp"
	"github.com/google/go-cmp/cmp/cmpopts"
	"github.com/hashicorp/go-hclog"
	"github.com/hashicorp/raft"

	"github.com/hashicorp/consul/acl"
	consulfsm "github.com/hashicorp/consul/agent/consul/fsm"
	"github.com/hashicorp/consul/agent/consul/state"
	"github.com/hashicorp/consul/agent/netutil"
	"github.com/hashicorp/consul/agent/structs"
	"github.com/hashicorp/consul/internal/verifkit"
	"pgregory.net/rapid"
)

const verifC19BgPolicyID = "0b0b0b0b-0b0b-4b0b-8b0b-0b0b0b0b0b0b"

var verifC19LocalTokenUUIDs = []string{
	"e1e1e1e1-e1e1-4e1e-8e1e-e1e1e1e1e1e1",
	"e2e2e2e2-e2e2-4e2e-8e2e-e2e2e2e2e2e2",
	"e3e3e3e3-e3e3-4e3e-8e3e-e3e3e3e3e3e3",
}

var verifC19Names = []string{"alpha", "bravo", "charlie", "delta", "echo", "foxtrot", "golf"}

var verifC19Rules = []string{"", `key_prefix "a/" { policy = "read" }`, `key_prefix "a/" { policy = "write" }`, `service_prefix "" { policy = "read" }`}

var verifC19CreateTime = time.Date(2024, 3, 1, 12, 0, 0, 0, time.UTC)

type verifC19Node struct {
	fsm  *consulfsm.FSM
	next uint64
}

func verifC19NewNode() *verifC19Node {
	netutil.GetAgentBindAddrFunc = netutil.GetMockGetAgentBindAddrFunc("0.0.0.0")
	return &verifC19Node{
		fsm: consulfsm.NewFromDeps(consulfsm.Deps{
			Logger:         hclog.NewNullLogger(),
			NewStateStore:  func() *state.Store { return state.NewStateStore(nil) },
			StorageBackend: consulfsm.NullStorageBackend,
		}),
		next: 1000,
	}
}

// apply encodes the request as raftApply does and runs it through FSM.Apply at the given raft index.
func (n *verifC19Node) apply(idx uint64, t structs.MessageType, req any) error {
	buf, err := structs.Encode(t, req)
	if err != nil {
		return fmt.Errorf("encode: %w", err)
	}
	res := n.fsm.Apply(&raft.Log{Index: idx, Term: 1, Type: raft.LogCommand, Data: buf})
	if e, ok := res.(error); ok && e != nil {
		return e
	}
	return nil
}

// applyNext applies at the node's next own raft index (replication writes of the round under test).
func (n *verifC19Node) applyNext(t structs.MessageType, req any) error {
	n.next++
	return n.apply(n.next, t, req)
}

func verifC19BgLink(c int) bool { return c == 3 }

func verifC19Policy(o verifC19Obj) *structs.ACLPolicy {
	p := &structs.ACLPolicy{
		ID:          verifC19UUIDs[o.ID],
		Name:        verifC19Names[o.N],
		Description: fmt.Sprintf("policy variant %d", o.C),
		Rules:       verifC19Rules[o.C],
	}
	if o.C == 2 {
		p.Datacenters = []string{"dc1"}
	}
	p.SetHash(true)
	return p
}

func verifC19Role(o verifC19Obj) *structs.ACLRole {
	r := &structs.ACLRole{
		ID:          verifC19UUIDs[o.ID],
		Name:        "role-" + verifC19Names[o.N],
		Description: fmt.Sprintf("role variant %d", o.C),
	}
	if o.C == 2 {
		r.ServiceIdentities = structs.ACLServiceIdentities{{ServiceName: "web"}}
	}
	if verifC19BgLink(o.C) {
		r.Policies = []structs.ACLRolePolicyLink{{ID: verifC19BgPolicyID}}
	}
	r.SetHash(true)
	return r
}

func verifC19Token(o verifC19Obj) *structs.ACLToken {
	tk := &structs.ACLToken{
		AccessorID:  verifC19UUIDs[o.ID],
		SecretID:    fmt.Sprintf("5ec2e7%d0-0000-4000-8000-0000000%d00%d0", (o.ID*3+1)%5, o.ID, o.N), // not ordered like the AccessorIDs
		Description: fmt.Sprintf("token variant %d", o.C),
		CreateTime:  verifC19CreateTime,
	}
	if o.C == 2 {
		tk.ServiceIdentities = structs.ACLServiceIdentities{{ServiceName: "web"}}
	}
	if verifC19BgLink(o.C) {
		tk.Policies = []structs.ACLTokenPolicyLink{{ID: verifC19BgPolicyID}}
	}
	tk.SetHash(true)
	return tk
}

func verifC19LocalToken(o verifC19Obj, where string) *structs.ACLToken {
	tk := &structs.ACLToken{
		AccessorID:  verifC19LocalTokenUUIDs[o.ID],
		SecretID:    fmt.Sprintf("10ca1000-0000-4000-8000-00000000%s0%d", map[string]string{"sec": "aa", "pri": "bb"}[where], o.ID),
		Description: fmt.Sprintf("%s-local token variant %d", where, o.C),
		Local:       true,
		CreateTime:  verifC19CreateTime,
	}
	tk.SetHash(true)
	return tk
}

func verifC19ConfigEntry(f verifkit.F, o verifC19Obj) structs.ConfigEntry {
	kn := verifC19ConfigIDs[o.ID]
	var e structs.ConfigEntry
	switch kn.Kind {
	case structs.ExportedServices:
		e = &structs.ExportedServicesConfigEntry{Name: kn.Name,
			Services: []structs.ExportedService{{Name: fmt.Sprintf("svc%d", o.C), Consumers: []structs.ServiceConsumer{{Peer: "peer-a"}}}}}
	case structs.ProxyDefaults:
		pe := &structs.ProxyConfigEntry{Kind: kn.Kind, Name: kn.Name, Meta: map[string]string{"variant": fmt.Sprint(o.C)}}
		if o.C == 2 {
			pe.MeshGateway = structs.MeshGatewayConfig{Mode: structs.MeshGatewayModeLocal}
		}
		e = pe
	case structs.ServiceDefaults:
		e = &structs.ServiceConfigEntry{Kind: kn.Kind, Name: kn.Name, Protocol: []string{"", "tcp", "http", "grpc"}[o.C],
			Meta: map[string]string{"variant": fmt.Sprint(o.C)}}
	case structs.ServiceResolver:
		e = &structs.ServiceResolverConfigEntry{Kind: kn.Kind, Name: kn.Name, ConnectTimeout: time.Duration(o.C) * time.Second}
	}
	if err := e.Normalize(); err != nil { // what ConfigEntry.Apply does before the raft append; sets the hash
		f.Fatalf("harness: Normalize(%s/%s): %v", kn.Kind, kn.Name, err)
	}
	if err := e.Validate(); err != nil {
		f.Fatalf("harness: generated config entry %s/%s is invalid: %v", kn.Kind, kn.Name, err)
	}
	if o.Z {
		e.SetHash(0) // written by a server that predates content hashes
	}
	return e
}

func verifC19FedState(o verifC19Obj) *structs.FederationState {
	fs := &structs.FederationState{
		Datacenter: verifC19DCs[o.ID],
		UpdatedAt:  time.Unix(int64(1700000000+o.C), 0).UTC(),
	}
	if o.C == 3 {
		fs.MeshGateways = structs.CheckServiceNodes{{
			Node:    &structs.Node{Node: "gw-node", Address: "10.0.0.9", Datacenter: verifC19DCs[o.ID]},
			Service: &structs.NodeService{Kind: structs.ServiceKindMeshGateway, ID: "mesh-gateway", Service: "mesh-gateway", Port: 8443},
		}}
	}
	return fs
}

var verifC19ErrClasses = []struct {
	re  *regexp.Regexp
	key string
}{
	{regexp.MustCompile(`with name ".*" already exists`), "name-already-exists"},
	{regexp.MustCompile(`SecretID field is immutable`), "secret-id-immutable"},
	{regexp.MustCompile(`AccessorID field is immutable`), "accessor-id-immutable"},
	{regexp.MustCompile(`Cannot replicate local tokens`), "local-token"},
	{regexp.MustCompile(`[Dd]eletion of the builtin`), "builtin-delete"},
}

func verifC19ErrClass(err error) string {
	for _, c := range verifC19ErrClasses {
		if c.re.MatchString(err.Error()) {
			return c.key
		}
	}
	s := regexp.MustCompile(`[^a-zA-Z]+`).ReplaceAllString(err.Error(), "-")
	if len(s) > 40 {
		s = s[:40]
	}
	return strings.Trim(s, "-")
}

// verifC19FieldReporter collects the top-level struct fields in which two objects differ.
type verifC19FieldReporter struct {
	path   cmp.Path
	fields map[string]bool
}

func (r *verifC19FieldReporter) PushStep(ps cmp.PathStep) { r.path = append(r.path, ps) }
func (r *verifC19FieldReporter) PopStep()                 { r.path = r.path[:len(r.path)-1] }
func (r *verifC19FieldReporter) Report(rs cmp.Result) {
	if rs.Equal() {
		return
	}
	for _, ps := range r.path {
		if sf, ok := ps.(cmp.StructField); ok {
			r.fields[sf.Name()] = true
			return
		}
	}
	r.fields["value"] = true
}

// verifC19Differs compares two store objects modulo the secondary's own raft stamps. Returns differing fields + a diff.
func verifC19Differs(want, got any) ([]string, string) {
	opts := []cmp.Option{
		cmpopts.EquateEmpty(),
		cmpopts.IgnoreFields(structs.RaftIndex{}, "CreateIndex", "ModifyIndex"),
		cmp.AllowUnexported(acl.EnterpriseMeta{}),
	}
	rep := &verifC19FieldReporter{fields: map[string]bool{}}
	if cmp.Equal(want, got, append(opts, cmp.Reporter(rep))...) {
		return nil, ""
	}
	var fs []string
	for k := range rep.fields {
		fs = append(fs, k)
	}
	sort.Strings(fs)
	return fs, cmp.Diff(want, got, opts...)
}

func verifC19RunStore(f verifkit.F, c *verifkit.Case, cs *verifC19Case, shape verifC19Shape) {
	typ := cs.Type
	pri, sec := verifC19NewNode(), verifC19NewNode()
	meta := structs.ReplicationEnterpriseMeta()
	must := func(what string, err error) {
		if err != nil {
			f.Fatalf("harness: %s: %v (case %+v)", what, err, cs)
		}
	}
	remoteBy := map[int]verifC19Obj{}
	for _, o := range cs.Remote {
		remoteBy[o.ID] = o
	}
	if typ == "role" || typ == "token" {
		for _, n := range []*verifC19Node{pri, sec} {
			bg := &structs.ACLPolicy{ID: verifC19BgPolicyID, Name: "bg", Rules: verifC19Rules[1]}
			bg.SetHash(true)
			must("bg policy", n.apply(1, structs.ACLPolicySetRequestType, &structs.ACLPolicyBatchSetRequest{Policies: structs.ACLPolicies{bg}}))
		}
	}

	// ---- populate: primary through its endpoints' raft requests, secondary through the replication write path
	for _, o := range cs.Remote {
		switch typ {
		case "policy":
			must("primary policy", pri.apply(o.Mod, structs.ACLPolicySetRequestType, &structs.ACLPolicyBatchSetRequest{Policies: structs.ACLPolicies{verifC19Policy(o)}}))
		case "role":
			must("primary role", pri.apply(o.Mod, structs.ACLRoleSetRequestType, &structs.ACLRoleBatchSetRequest{Roles: structs.ACLRoles{verifC19Role(o)}}))
		case "token":
			must("primary token", pri.apply(o.Mod, structs.ACLTokenSetRequestType, &structs.ACLTokenBatchSetRequest{Tokens: structs.ACLTokens{verifC19Token(o)}, CAS: false}))
		case "config":
			must("primary config entry", pri.apply(o.Mod, structs.ConfigEntryRequestType, &structs.ConfigEntryRequest{Op: structs.ConfigEntryUpsert, Datacenter: "dc1", Entry: verifC19ConfigEntry(f, o)}))
		case "fedstate":
			must("primary federation state", pri.apply(o.Mod, structs.FederationStateRequestType, &structs.FederationStateRequest{Op: structs.FederationStateUpsert, Datacenter: "dc1", State: verifC19FedState(o)}))
		}
	}
	for _, o := range cs.PriLocalTokens {
		must("primary local token", pri.apply(o.Mod, structs.ACLTokenSetRequestType, &structs.ACLTokenBatchSetRequest{Tokens: structs.ACLTokens{verifC19LocalToken(o, "pri")}}))
	}
	for _, o := range cs.Local {
		switch typ {
		case "policy":
			must("secondary policy", sec.apply(o.Mod, structs.ACLPolicySetRequestType, &structs.ACLPolicyBatchSetRequest{Policies: structs.ACLPolicies{verifC19Policy(o)}}))
		case "role":
			must("secondary role", sec.apply(o.Mod, structs.ACLRoleSetRequestType, &structs.ACLRoleBatchSetRequest{Roles: structs.ACLRoles{verifC19Role(o)}, AllowMissingLinks: true}))
		case "token":
			must("secondary token", sec.apply(o.Mod, structs.ACLTokenSetRequestType, &structs.ACLTokenBatchSetRequest{Tokens: structs.ACLTokens{verifC19Token(o)}, CAS: false, AllowMissingLinks: true, FromReplication: true}))
		case "config":
			must("secondary config entry", sec.apply(o.Mod, structs.ConfigEntryRequestType, &structs.ConfigEntryRequest{Op: structs.ConfigEntryUpsert, Datacenter: "dc2", Entry: verifC19ConfigEntry(f, o)}))
		case "fedstate":
			st := verifC19FedState(o)
			// an earlier replication result: PrimaryModifyIndex is the primary's index of the version it was copied from
			st.PrimaryModifyIndex = 1
			if ro, ok := remoteBy[o.ID]; ok {
				switch {
				case ro.C == o.C && ro.Mod <= cs.Last:
					st.PrimaryModifyIndex = ro.Mod // this very version
				case ro.Mod > 1:
					st.PrimaryModifyIndex = ro.Mod - 1 // an older version
				}
			}
			must("secondary federation state", sec.apply(o.Mod, structs.FederationStateRequestType, &structs.FederationStateRequest{Op: structs.FederationStateUpsert, Datacenter: "dc2", State: st}))
		}
	}
	for _, o := range cs.SecLocalTokens {
		must("secondary local token", sec.apply(o.Mod, structs.ACLTokenSetRequestType, &structs.ACLTokenBatchSetRequest{Tokens: structs.ACLTokens{verifC19LocalToken(o, "sec")}}))
	}

	ps, ss := pri.fsm.State(), sec.fsm.State()
	orderOf := func(objs []verifC19Obj) map[string]int {
		m := map[string]int{}
		for i, o := range objs {
			m[verifC19IDString(typ, o.ID)] = i
		}
		return m
	}
	lo, ro := orderOf(cs.Local), orderOf(cs.Remote)

	// untouched objects: snapshot before the round
	var secLocalBefore structs.ACLTokens
	var secExportedBefore structs.ConfigEntry
	if typ == "token" {
		_, secLocalBefore, _ = ss.ACLTokenList(nil, true, false, "", "", "", nil, meta)
	}
	if typ == "config" {
		_, secExportedBefore, _ = ss.ConfigEntry(nil, structs.ExportedServices, "default", meta)
	}

	// ---- fetch both lists, diff with the real function, apply deletions then upserts
	var d verifC19Diff
	var applyErrs []error
	fam := verifC19Family(typ)
	switch typ {
	case "policy":
		_, remoteFull, err := ps.ACLPolicyList(nil, meta)
		must("primary ACLPolicyList", err)
		_, local, err := ss.ACLPolicyList(nil, meta)
		must("secondary ACLPolicyList", err)
		tr := &aclPolicyReplicator{}
		for _, p := range remoteFull {
			tr.remote = append(tr.remote, p.Stub()) // ACL.PolicyList returns stubs
		}
		tr.local = append(tr.local, local...)
		sort.SliceStable(tr.remote, func(i, j int) bool { return ro[tr.remote[i].ID] < ro[tr.remote[j].ID] })
		sort.SliceStable(tr.local, func(i, j int) bool { return lo[tr.local[i].ID] < lo[tr.local[j].ID] })
		res := diffACLType(tr, cs.Last)
		d = verifC19Diff{Deletes: res.LocalDeletes, Upserts: res.LocalUpserts}
		if !verifC19CheckLists(f, c, cs, d) {
			return
		}
		if len(d.Upserts) > 0 {
			_, tr.updated, err = ps.ACLPolicyBatchGet(nil, d.Upserts) // ACL.PolicyBatchRead
			must("primary ACLPolicyBatchGet", err)
			if _, _, err := tr.ensureRemoteConsistent(d.Upserts); err != nil {
				c.Violation(f, "C19/"+fam+"/consistent-fetch-rejected", "ensureRemoteConsistent rejects a consistent fetch of %v: %v", d.Upserts, err)
				return
			}
		}
		if len(d.Deletes) > 0 {
			if err := sec.applyNext(structs.ACLPolicyDeleteRequestType, &structs.ACLPolicyBatchDeleteRequest{PolicyIDs: d.Deletes}); err != nil {
				applyErrs = append(applyErrs, err)
			}
		}
		if len(d.Upserts) > 0 && len(applyErrs) == 0 {
			if err := sec.applyNext(structs.ACLPolicySetRequestType, &structs.ACLPolicyBatchSetRequest{Policies: tr.updated[0:tr.LenPendingUpdates()]}); err != nil {
				applyErrs = append(applyErrs, err)
			}
		}
	case "role":
		_, remote, err := ps.ACLRoleList(nil, "", meta)
		must("primary ACLRoleList", err)
		_, local, err := ss.ACLRoleList(nil, "", meta)
		must("secondary ACLRoleList", err)
		tr := &aclRoleReplicator{}
		tr.remote = append(tr.remote, remote...)
		tr.local = append(tr.local, local...)
		sort.SliceStable(tr.remote, func(i, j int) bool { return ro[tr.remote[i].ID] < ro[tr.remote[j].ID] })
		sort.SliceStable(tr.local, func(i, j int) bool { return lo[tr.local[i].ID] < lo[tr.local[j].ID] })
		res := diffACLType(tr, cs.Last)
		d = verifC19Diff{Deletes: res.LocalDeletes, Upserts: res.LocalUpserts}
		if !verifC19CheckLists(f, c, cs, d) {
			return
		}
		if len(d.Upserts) > 0 {
			if _, err := tr.FetchUpdated(nil, d.Upserts); err != nil { // the real code: roles come from the cached remote list
				c.Violation(f, "C19/"+fam+"/fetch-updated-error", "FetchUpdated(%v): %v", d.Upserts, err)
				return
			}
		}
		if len(d.Deletes) > 0 {
			if err := sec.applyNext(structs.ACLRoleDeleteRequestType, &structs.ACLRoleBatchDeleteRequest{RoleIDs: d.Deletes}); err != nil {
				applyErrs = append(applyErrs, err)
			}
		}
		if len(d.Upserts) > 0 && len(applyErrs) == 0 {
			if err := sec.applyNext(structs.ACLRoleSetRequestType, &structs.ACLRoleBatchSetRequest{Roles: tr.updated[0:tr.LenPendingUpdates()], AllowMissingLinks: true}); err != nil {
				applyErrs = append(applyErrs, err)
			}
		}
	case "token":
		// ACL.TokenList with IncludeLocal=false, IncludeGlobal=true (fetchACLTokens); FetchLocal: ACLTokenList(nil, false, true, ...)
		_, remoteFull, err := ps.ACLTokenList(nil, false, true, "", "", "", nil, meta)
		must("primary ACLTokenList", err)
		_, local, err := ss.ACLTokenList(nil, false, true, "", "", "", nil, meta)
		must("secondary ACLTokenList", err)
		tr := &aclTokenReplicator{}
		for _, tk := range remoteFull {
			tr.remote = append(tr.remote, tk.Stub())
		}
		tr.local = append(tr.local, local...)
		sort.SliceStable(tr.remote, func(i, j int) bool { return ro[tr.remote[i].AccessorID] < ro[tr.remote[j].AccessorID] })
		sort.SliceStable(tr.local, func(i, j int) bool { return lo[tr.local[i].AccessorID] < lo[tr.local[j].AccessorID] })
		res := diffACLType(tr, cs.Last)
		d = verifC19Diff{Deletes: res.LocalDeletes, Upserts: res.LocalUpserts}
		if !verifC19CheckLists(f, c, cs, d) {
			return
		}
		if len(d.Upserts) > 0 {
			_, tr.updated, err = ps.ACLTokenBatchGet(nil, d.Upserts) // ACL.TokenBatchRead
			must("primary ACLTokenBatchGet", err)
		}
		if len(d.Deletes) > 0 {
			if err := sec.applyNext(structs.ACLTokenDeleteRequestType, &structs.ACLTokenBatchDeleteRequest{TokenIDs: d.Deletes}); err != nil {
				applyErrs = append(applyErrs, err)
			}
		}
		if len(d.Upserts) > 0 && len(applyErrs) == 0 {
			req := &structs.ACLTokenBatchSetRequest{Tokens: tr.updated[0:tr.LenPendingUpdates()], CAS: false, AllowMissingLinks: true, FromReplication: true}
			if err := sec.applyNext(structs.ACLTokenSetRequestType, req); err != nil {
				applyErrs = append(applyErrs, err)
			}
		}
	case "config":
		_, remote, err := ps.ConfigEntries(nil, meta)
		must("primary ConfigEntries", err)
		_, local, err := ss.ConfigEntries(nil, meta)
		must("secondary ConfigEntries", err)
		key := func(e structs.ConfigEntry) string { return e.GetKind() + "/" + e.GetName() }
		sort.SliceStable(remote, func(i, j int) bool { return ro[key(remote[i])] < ro[key(remote[j])] })
		sort.SliceStable(local, func(i, j int) bool { return lo[key(local[i])] < lo[key(local[j])] })
		dels, ups := diffConfigEntries(local, remote, cs.Last)
		for _, e := range dels {
			d.Deletes = append(d.Deletes, key(e))
		}
		for _, e := range ups {
			d.Upserts = append(d.Upserts, key(e))
		}
		if !verifC19CheckLists(f, c, cs, d) {
			return
		}
		// reconcileLocalConfig, deletions then upserts; every entry is its own raft request; errors are collected
		for _, pass := range []struct {
			op      structs.ConfigEntryOp
			entries []structs.ConfigEntry
		}{{structs.ConfigEntryDelete, dels}, {structs.ConfigEntryUpsert, ups}} {
			for _, entry := range pass.entries {
				if entry.GetKind() == structs.ExportedServices {
					continue // "Exported services only apply to the primary datacenter."
				}
				req := &structs.ConfigEntryRequest{Op: pass.op, Datacenter: "dc2", Entry: entry}
				if err := sec.applyNext(structs.ConfigEntryRequestType, req); err != nil {
					applyErrs = append(applyErrs, err)
				}
			}
		}
	case "fedstate":
		_, remote, err := ps.FederationStateList(nil)
		must("primary FederationStateList", err)
		_, local, err := ss.FederationStateList(nil)
		must("secondary FederationStateList", err)
		remote = append([]*structs.FederationState(nil), remote...)
		local = append([]*structs.FederationState(nil), local...)
		sort.SliceStable(remote, func(i, j int) bool { return ro[remote[i].Datacenter] < ro[remote[j].Datacenter] })
		sort.SliceStable(local, func(i, j int) bool { return lo[local[i].Datacenter] < lo[local[j].Datacenter] })
		res, err := (&FederationStateReplicator{}).DiffRemoteAndLocalState(local, remote, cs.Last)
		if err != nil {
			c.Violation(f, "C19/"+fam+"/diff-error", "DiffRemoteAndLocalState: %v", err)
			return
		}
		dels := res.Deletions.([]*structs.FederationState)
		ups := res.Updates.([]*structs.FederationState)
		for _, e := range dels {
			d.Deletes = append(d.Deletes, e.Datacenter)
		}
		for _, e := range ups {
			d.Upserts = append(d.Upserts, e.Datacenter)
		}
		if res.NumDeletions != len(dels) || res.NumUpdates != len(ups) {
			c.Violation(f, "C19/"+fam+"/count-mismatch", "NumDeletions=%d/%d NumUpdates=%d/%d", res.NumDeletions, len(dels), res.NumUpdates, len(ups))
			return
		}
		if !verifC19CheckLists(f, c, cs, d) {
			return
		}
		for _, st := range dels { // PerformDeletions
			req := &structs.FederationStateRequest{Op: structs.FederationStateDelete, Datacenter: "dc2", State: st}
			if err := sec.applyNext(structs.FederationStateRequestType, req); err != nil {
				applyErrs = append(applyErrs, err)
				break
			}
		}
		if len(applyErrs) == 0 {
			for _, st := range ups { // PerformUpdates
				dup := *st
				st2 := &dup
				st2.PrimaryModifyIndex = st.ModifyIndex
				req := &structs.FederationStateRequest{Op: structs.FederationStateUpsert, Datacenter: "dc2", State: st2}
				if err := sec.applyNext(structs.FederationStateRequestType, req); err != nil {
					applyErrs = append(applyErrs, err)
					break
				}
			}
		}
	}
	if len(applyErrs) > 0 {
		// the round fails; Replicator.Run resets lastRemoteIndex and retries with the same inputs
		c.Violation(f, "C19/"+typ+"-apply-rejected/"+verifC19ErrClass(applyErrs[0]),
			"applying deletes=%v upserts=%v to the secondary fails: %v", d.Deletes, d.Upserts, applyErrs)
		return
	}

	// ---- secondary == primary ?
	type pair struct{ want, got any }
	objs := map[string]*pair{}
	add := func(id string, want, got any) {
		p := objs[id]
		if p == nil {
			p = &pair{}
			objs[id] = p
		}
		if want != nil {
			p.want = want
		}
		if got != nil {
			p.got = got
		}
	}
	switch typ {
	case "policy":
		_, a, _ := ps.ACLPolicyList(nil, meta)
		_, b, _ := ss.ACLPolicyList(nil, meta)
		for _, x := range a {
			add(x.ID, x, nil)
		}
		for _, x := range b {
			add(x.ID, nil, x)
		}
	case "role":
		_, a, _ := ps.ACLRoleList(nil, "", meta)
		_, b, _ := ss.ACLRoleList(nil, "", meta)
		for _, x := range a {
			add(x.ID, x, nil)
		}
		for _, x := range b {
			add(x.ID, nil, x)
		}
	case "token":
		_, a, _ := ps.ACLTokenList(nil, false, true, "", "", "", nil, meta)
		_, b, _ := ss.ACLTokenList(nil, false, true, "", "", "", nil, meta)
		for _, x := range a {
			add(x.AccessorID, x, nil)
		}
		for _, x := range b {
			add(x.AccessorID, nil, x)
		}
	case "config":
		_, a, _ := ps.ConfigEntries(nil, meta)
		_, b, _ := ss.ConfigEntries(nil, meta)
		for _, x := range a {
			if x.GetKind() != structs.ExportedServices {
				add(x.GetKind()+"/"+x.GetName(), x, nil)
			}
		}
		for _, x := range b {
			if x.GetKind() != structs.ExportedServices {
				add(x.GetKind()+"/"+x.GetName(), nil, x)
			}
		}
	case "fedstate":
		_, a, _ := ps.FederationStateList(nil)
		_, b, _ := ss.FederationStateList(nil)
		for _, x := range a {
			// in the primary PrimaryModifyIndex == ModifyIndex; the replica must carry the primary's ModifyIndex there
			w := *x
			w.PrimaryModifyIndex = x.ModifyIndex
			add(x.Datacenter, &w, nil)
		}
		for _, x := range b {
			add(x.Datacenter, nil, x)
		}
	}
	ids := make([]string, 0, len(objs))
	for id := range objs {
		ids = append(ids, id)
	}
	sort.Strings(ids)
	for _, id := range ids {
		p := objs[id]
		switch {
		case p.got == nil:
			c.Violation(f, "C19/"+fam+"/missing-after-round", "[store] %s %s exists in the primary but not in the secondary after the round (deletes=%v upserts=%v)", typ, id, d.Deletes, d.Upserts)
			return
		case p.want == nil:
			c.Violation(f, "C19/"+fam+"/not-deleted-after-round", "[store] %s %s no longer exists in the primary but survives in the secondary (deletes=%v upserts=%v)", typ, id, d.Deletes, d.Upserts)
			return
		}
		if fields, diff := verifC19Differs(p.want, p.got); len(fields) > 0 {
			// root cause: the content (what the hash covers) is stale  vs.  the hashed content is equal and some
			// other field differs (then the fields name the cause)
			key := "C19/" + typ + "-differs-after-round/" + strings.Join(fields, "+")
			for _, fl := range fields {
				if fl == "Hash" || (typ == "fedstate" && (fl == "UpdatedAt" || fl == "MeshGateways")) {
					key = "C19/" + fam + "/stale-after-round"
				}
			}
			c.Violation(f, key,
				"[store] %s %s differs from the primary's after the round in %v (deletes=%v upserts=%v), -primary +secondary:\n%s", typ, id, fields, d.Deletes, d.Upserts, diff)
			return
		}
	}

	// ---- objects replication must not touch
	if typ == "token" {
		_, after, _ := ss.ACLTokenList(nil, true, false, "", "", "", nil, meta)
		if len(after) != len(secLocalBefore) {
			c.Violation(f, "C19/token/local-token-touched", "secondary's local-scoped tokens: %d before, %d after the round", len(secLocalBefore), len(after))
			return
		}
		byID := map[string]*structs.ACLToken{}
		for _, tk := range secLocalBefore {
			byID[tk.AccessorID] = tk
		}
		for _, tk := range after {
			b := byID[tk.AccessorID]
			if b == nil || !cmp.Equal(b, tk, cmp.AllowUnexported(acl.EnterpriseMeta{})) {
				c.Violation(f, "C19/token/local-token-touched", "secondary's local-scoped token %s changed by the round:\n%s", tk.AccessorID, cmp.Diff(b, tk, cmp.AllowUnexported(acl.EnterpriseMeta{})))
				return
			}
		}
		for _, o := range cs.PriLocalTokens {
			if _, tk, _ := ss.ACLTokenGetByAccessor(nil, verifC19LocalTokenUUIDs[o.ID], nil); tk != nil {
				c.Violation(f, "C19/token/primary-local-token-replicated", "the primary's local-scoped token %s was copied to the secondary", tk.AccessorID)
				return
			}
		}
	}
	if typ == "config" {
		_, after, _ := ss.ConfigEntry(nil, structs.ExportedServices, "default", meta)
		if (after == nil) != (secExportedBefore == nil) || (after != nil && !cmp.Equal(secExportedBefore, after, cmp.AllowUnexported(acl.EnterpriseMeta{}))) {
			c.Violation(f, "C19/config/exported-services-touched", "exported-services entry of the secondary changed by the round: before=%+v after=%+v", secExportedBefore, after)
			return
		}
	}

	// ---- already applied by the last round => not written again; already equal => no writes
	if !verifC19CheckNotNewerNotUpserted(f, c, cs, d.Upserts) {
		return
	}
	noWritesExpected := shape.setsEqual && (!shape.anyZeroHash || shape.allRemoteOld)
	if typ == "fedstate" {
		noWritesExpected = shape.setsEqual && shape.allRemoteOld
	}
	if noWritesExpected {
		var w []string
		for _, id := range append(append([]string{}, d.Deletes...), d.Upserts...) {
			if !strings.HasPrefix(id, structs.ExportedServices+"/") {
				w = append(w, id)
			}
		}
		if len(w) > 0 {
			c.Violation(f, "C19/"+fam+"/writes-although-equal", "[store] secondary already equals the primary but the round writes: deletes=%v upserts=%v", d.Deletes, d.Upserts)
			return
		}
	}
}

func TestVerifC19Store(t *testing.T) {
	rec := verifkit.For("C19")
	defer rec.Flush()
	rapid.Check(t, func(t *rapid.T) {
		c := rec.NewCase()
		defer c.GuardPanic(t, "C19/panic")
		cs := verifC19Gen(t, "store")
		c.Op(cs)
		verifC19RunCase(t, c, cs)
		c.Done()
	})
}

// TestVerifC19ExhaustiveStore: the same small space through the real stores (unordered lists: the order
// dimension is covered by the pure block). VERIF_C19_EXH_STORE_IDS=2 shrinks it.
func TestVerifC19ExhaustiveStore(t *testing.T) {
	rec := verifkit.For("C19")
	defer rec.Flush()
	nIDs := verifkit.EnvInt("VERIF_C19_EXH_STORE_IDS", 3)
	if nIDs < 1 || nIDs > 3 {
		nIDs = 3
	}
	shard, n := verifC19Shard()
	total := verifC19Exhaustive(t, rec, "store", verifC19Types, shard, n, false, nIDs)
	if nIDs == 3 {
		rec.AddExtraInt("exhaustive_small_pairs", total)
	}
	rec.AddExtraInt(fmt.Sprintf("exhaustive_small_pairs_store_%dids", nIDs), total)
	t.Logf("exhaustive store cases on shard %d/%d: %d", shard, n, total)
}
