package consul

// C09 (part b, continued) — the slice filters of agent/consul/filter.go: FilterDirEnt (KV listings: KVS.List and
// KVS.ListKeys both go through it), FilterTxnResults and the generic in-place compaction FilterEntries.
//
// Oracles: K1 allow-all => identity; K2 deny-all => empty; K3 arrangement independence: filter(list) equals the
// concatenation of the filtered singletons, order preserved; K4 (keys only) rule from the ACL documentation: an entry
// is returned iff key:read on its key, evaluated with the same authorizer; K5 the *DirEntry / result objects are not
// written through; E: FilterEntries with an arbitrary keep-mask returns exactly the kept elements in order.
// Not asserted: the rule table of FilterTxnResults (its per-verb rules are only documented in the code), and the
// contents of the caller's slice beyond the returned length (in-place API).

import (
	"fmt"
	"reflect"
	"strings"
	"testing"
	"time"

	"github.com/hashicorp/go-hclog"
	"pgregory.net/rapid"

	"github.com/hashicorp/consul/acl"
	"github.com/hashicorp/consul/agent/structs"
	"github.com/hashicorp/consul/internal/verifkit"
)

type verifC09KRule struct {
	Res    string `json:"res"` // key | node | service
	Prefix bool   `json:"prefix,omitempty"`
	Name   string `json:"name"`
	Access string `json:"access"`
}

type verifC09TxnItem struct {
	Kind string `json:"kind"` // kv | node | svc | check
	Key  string `json:"key,omitempty"`
	Node string `json:"node,omitempty"`
	Svc  string `json:"svc,omitempty"`
	Tag  int    `json:"tag"`
}

type verifC09KeyCase struct {
	Op      string            `json:"op"` // "keys"
	Default string            `json:"default"`
	Rules   []verifC09KRule   `json:"rules"`
	Keys    []string          `json:"keys"`
	Txn     []verifC09TxnItem `json:"txn"`
	Mask    []bool            `json:"mask"` // FilterEntries: true = filter out
	// maskResultsFilteredByACLs: token presented (blank | anonymous | valid | unknown) and the flag before masking
	MaskTok  string `json:"mask_tok"`
	MaskFlag bool   `json:"mask_flag"`
}

var verifC09KeyUniverse = []string{"", "a", "a/", "a/b", "a/b/", "a/bc", "a/b/c", "ab", "é/ü", "b"}

func verifC09KeyAuthz(ks *verifC09KeyCase) (acl.Authorizer, error) {
	var sb strings.Builder
	for _, r := range ks.Rules {
		kw := r.Res
		if r.Prefix {
			kw += "_prefix"
		}
		fmt.Fprintf(&sb, "%s %q { policy = %q }\n", kw, r.Name, r.Access)
	}
	p, err := acl.NewPolicyFromSource(sb.String(), nil, nil)
	if err != nil {
		return nil, fmt.Errorf("%s: %w", sb.String(), err)
	}
	def := acl.DenyAll()
	if ks.Default == "allow" {
		def = acl.AllowAll()
	}
	return acl.NewPolicyAuthorizerWithDefaults(def, []*acl.Policy{p}, nil)
}

func verifC09GenKeys(t *rapid.T) *verifC09KeyCase {
	ks := &verifC09KeyCase{Op: "keys", Default: []string{"deny", "deny", "allow"}[verifC09U(t, 3, "default")]}
	seen := map[string]bool{}
	add := func(r verifC09KRule) {
		k := fmt.Sprintf("%s/%v/%s", r.Res, r.Prefix, r.Name)
		if !seen[k] {
			seen[k] = true
			ks.Rules = append(ks.Rules, r)
		}
	}
	access := func(key bool) string {
		a := []string{"read", "read", "write", "deny", "deny"}
		if key {
			a = append(a, "list")
		}
		return a[verifC09U(t, len(a), "access")]
	}
	density := 1 + verifC09U(t, 6, "density")
	for _, k := range verifC09KeyUniverse {
		if verifC09U(t, 8, "has") < density {
			add(verifC09KRule{Res: "key", Name: k, Access: access(true)})
		}
	}
	for _, k := range []string{"", "a", "a/", "a/b"} {
		if verifC09U(t, 8, "hasp") < 2 {
			add(verifC09KRule{Res: "key", Prefix: true, Name: k, Access: access(true)})
		}
	}
	for _, n := range []string{"n1", "n2"} {
		if verifC09U(t, 2, "hasn") == 0 {
			add(verifC09KRule{Res: "node", Name: n, Access: access(false)})
		}
	}
	for _, n := range []string{"web", "api"} {
		if verifC09U(t, 2, "hass") == 0 {
			add(verifC09KRule{Res: "service", Name: n, Access: access(false)})
		}
	}
	nk := verifC09U(t, 9, "nkeys")
	for i := 0; i < nk; i++ {
		ks.Keys = append(ks.Keys, verifC09KeyUniverse[verifC09U(t, len(verifC09KeyUniverse), "key")])
	}
	nx := verifC09U(t, 9, "ntxn")
	for i := 0; i < nx; i++ {
		it := verifC09TxnItem{Kind: []string{"kv", "kv", "node", "svc", "check", "check"}[verifC09U(t, 6, "kind")], Tag: i}
		it.Key = verifC09KeyUniverse[verifC09U(t, len(verifC09KeyUniverse), "tkey")]
		it.Node = []string{"n1", "n2", "n3"}[verifC09U(t, 3, "tnode")]
		it.Svc = []string{"web", "api", "db", ""}[verifC09U(t, 4, "tsvc")]
		if it.Kind == "svc" && it.Svc == "" {
			it.Svc = "db"
		}
		ks.Txn = append(ks.Txn, it)
	}
	nm := verifC09U(t, 10, "nmask")
	for i := 0; i < nm; i++ {
		ks.Mask = append(ks.Mask, rapid.Bool().Draw(t, "mask"))
	}
	ks.MaskTok = []string{"blank", "anonymous", "valid", "unknown"}[verifC09U(t, 4, "masktok")]
	ks.MaskFlag = rapid.Bool().Draw(t, "maskflag")
	return ks
}

// verifC09RunMask: maskResultsFilteredByACLs at function level on a stub server (doc comment of the function: the flag is
// blanked for unauthenticated callers — blank or anonymous token, or a token that does not resolve — and otherwise left
// as the filter set it; it is never raised).
func verifC09RunMask(f verifkit.F, c *verifkit.Case, ks *verifC09KeyCase) {
	if ks.MaskTok == "" {
		return
	}
	delegate := &ACLResolverTestDelegate{enabled: true, datacenter: "dc1", localTokens: true, localPolicies: true, localRoles: true}
	delegate.UseTestLocalData([]interface{}{
		&structs.ACLToken{AccessorID: anonymousAccessorID, SecretID: anonymousSecretID},
		&structs.ACLToken{AccessorID: "5f3a0f0e-0000-0000-0000-000000000001", SecretID: "valid-secret"},
	})
	r, err := NewACLResolver(&ACLResolverConfig{
		Config: ACLResolverSettings{ACLsEnabled: true, Datacenter: "dc1", NodeName: "verif-node", ACLPolicyTTL: 30 * time.Second,
			ACLTokenTTL: 30 * time.Second, ACLRoleTTL: 30 * time.Second, ACLDownPolicy: "extend-cache", ACLDefaultPolicy: "deny"},
		Logger:      hclog.NewNullLogger(),
		CacheConfig: &structs.ACLCachesConfig{Identities: 3, Policies: 3, ParsedPolicies: 3, Authorizers: 3, Roles: 3},
		Backend:     delegate,
	})
	if err != nil {
		f.Fatalf("C09 harness: NewACLResolver: %v", err)
	}
	s := &Server{ACLResolver: r, loggers: newLoggerStore(hclog.NewNullLogger())}
	tok := map[string]string{"blank": "", "anonymous": anonymousSecretID, "valid": "valid-secret", "unknown": "no-such-secret"}[ks.MaskTok]
	qm := &structs.QueryMeta{ResultsFilteredByACLs: ks.MaskFlag}
	maskResultsFilteredByACLs(tok, qm, s)
	want := ks.MaskFlag && ks.MaskTok == "valid"
	if qm.ResultsFilteredByACLs != want {
		c.Violation(f, "C09/maskResultsFilteredByACLs/"+ks.MaskTok, "token kind %s, flag before=%v: flag after=%v, want %v", ks.MaskTok, ks.MaskFlag, qm.ResultsFilteredByACLs, want)
	}
	c.Labelf("mask=%s/%v", ks.MaskTok, ks.MaskFlag)
}

func verifC09MkEnts(keys []string) structs.DirEntries {
	out := make(structs.DirEntries, 0, len(keys))
	for i, k := range keys {
		out = append(out, &structs.DirEntry{Key: k, Value: []byte(fmt.Sprintf("v%d", i)), Flags: uint64(i), RaftIndex: structs.RaftIndex{CreateIndex: uint64(10 + i), ModifyIndex: uint64(20 + i)}})
	}
	return out
}

func verifC09MkTxn(items []verifC09TxnItem) structs.TxnResults {
	out := make(structs.TxnResults, 0, len(items))
	for _, it := range items {
		r := &structs.TxnResult{}
		switch it.Kind {
		case "kv":
			r.KV = &structs.DirEntry{Key: it.Key, Flags: uint64(it.Tag)}
		case "node":
			r.Node = &structs.Node{Node: it.Node, Address: fmt.Sprintf("10.0.0.%d", it.Tag)}
		case "svc":
			r.Service = &structs.NodeService{ID: it.Svc + "-1", Service: it.Svc, Port: 8000 + it.Tag}
		case "check":
			r.Check = &structs.HealthCheck{Node: it.Node, CheckID: "c1", ServiceName: it.Svc, Notes: fmt.Sprintf("t%d", it.Tag)}
		}
		out = append(out, r)
	}
	return out
}

type verifC09IntFilter struct {
	xs   []int
	mask []bool
}

func (f *verifC09IntFilter) Len() int          { return len(f.xs) }
func (f *verifC09IntFilter) Filter(i int) bool { return f.mask[f.xs[i]] }
func (f *verifC09IntFilter) Move(dst, src, span int) {
	copy(f.xs[dst:dst+span], f.xs[src:src+span])
}

func verifC09RunKeys(f verifkit.F, c *verifkit.Case, ks *verifC09KeyCase) {
	az, err := verifC09KeyAuthz(ks)
	if err != nil {
		f.Fatalf("C09 harness: generated policy rejected: %v", err)
	}
	c.Label("part=keys")
	// ---- FilterDirEnt
	{
		pristine := verifC09MkEnts(ks.Keys)
		if got := FilterDirEnt(acl.ManageAll(), verifC09MkEnts(ks.Keys)); !reflect.DeepEqual([]*structs.DirEntry(got), []*structs.DirEntry(pristine)) && len(ks.Keys) > 0 {
			c.Violation(f, "C09/FilterDirEnt/K1-content", "allow-all changed the listing: %d of %d entries", len(got), len(pristine))
		}
		if got := FilterDirEnt(acl.DenyAll(), verifC09MkEnts(ks.Keys)); len(got) != 0 {
			c.Violation(f, "C09/FilterDirEnt/K2-content", "deny-all left %d entries", len(got))
		}
		var wantSingles structs.DirEntries
		for i := range ks.Keys {
			one := structs.DirEntries{pristine[i]}
			cp := *pristine[i]
			res := FilterDirEnt(az, structs.DirEntries{&cp})
			readable := acl.Allow == az.KeyRead(ks.Keys[i], &acl.AuthorizerContext{})
			switch {
			case len(res) == 1 && reflect.DeepEqual(res[0], one[0]):
				wantSingles = append(wantSingles, pristine[i])
				if !readable {
					c.Violation(f, "C09/FilterDirEnt/K4-leak", "key %q returned although key:read is not allowed (rules %+v default %s)", ks.Keys[i], ks.Rules, ks.Default)
				}
			case len(res) == 0:
				if readable {
					c.Violation(f, "C09/FilterDirEnt/K4-overdrop", "key %q dropped although key:read is allowed (rules %+v default %s)", ks.Keys[i], ks.Rules, ks.Default)
				}
			default:
				c.Violation(f, "C09/FilterDirEnt/singleton-shape", "filtering one entry returned %d entries / a changed entry", len(res))
			}
		}
		in := verifC09MkEnts(ks.Keys)
		ptrs := append(structs.DirEntries(nil), in...)
		got := FilterDirEnt(az, in)
		if !verifC09SameEnts(got, wantSingles) {
			c.Violation(f, "C09/FilterDirEnt/K3-content", "filter(list) != concat(filter(singletons)): got keys %v want %v (input %v)", verifC09EntKeys(got), verifC09EntKeys(wantSingles), ks.Keys)
		}
		for i := range ptrs {
			if !reflect.DeepEqual(ptrs[i], pristine[i]) {
				c.Violation(f, "C09/FilterDirEnt/K5-entry-mutated", "entry %d (%q) was written through", i, ks.Keys[i])
				break
			}
		}
		verifC09ArrLabels(c, "dirent", len(ks.Keys), func(i int) bool {
			return acl.Allow != az.KeyRead(ks.Keys[i], &acl.AuthorizerContext{})
		})
	}
	// ---- FilterTxnResults
	{
		pristine := verifC09MkTxn(ks.Txn)
		if got := FilterTxnResults(acl.ManageAll(), verifC09MkTxn(ks.Txn)); !reflect.DeepEqual([]*structs.TxnResult(got), []*structs.TxnResult(pristine)) && len(ks.Txn) > 0 {
			c.Violation(f, "C09/FilterTxnResults/K1-content", "allow-all changed the results: %d of %d", len(got), len(pristine))
		}
		if got := FilterTxnResults(acl.DenyAll(), verifC09MkTxn(ks.Txn)); len(got) != 0 {
			c.Violation(f, "C09/FilterTxnResults/K2-content", "deny-all left %d results", len(got))
		}
		var want structs.TxnResults
		dropped := make([]bool, len(ks.Txn))
		for i := range ks.Txn {
			res := FilterTxnResults(az, verifC09MkTxn(ks.Txn[i:i+1]))
			switch {
			case len(res) == 1 && reflect.DeepEqual(res[0], pristine[i]):
				want = append(want, pristine[i])
			case len(res) == 0:
				dropped[i] = true
			default:
				c.Violation(f, "C09/FilterTxnResults/singleton-shape", "filtering one result returned %d results / a changed result", len(res))
			}
		}
		got := FilterTxnResults(az, verifC09MkTxn(ks.Txn))
		if !reflect.DeepEqual([]*structs.TxnResult(got), []*structs.TxnResult(want)) && !(len(got) == 0 && len(want) == 0) {
			c.Violation(f, "C09/FilterTxnResults/K3-content", "filter(list) != concat(filter(singletons)): got %d results want %d (input %+v)", len(got), len(want), ks.Txn)
		}
		verifC09ArrLabels(c, "txn", len(ks.Txn), func(i int) bool { return dropped[i] })
	}
	// ---- FilterEntries with an arbitrary mask
	{
		xs := make([]int, len(ks.Mask))
		var want []int
		for i := range xs {
			xs[i] = i
			if !ks.Mask[i] {
				want = append(want, i)
			}
		}
		n := FilterEntries(&verifC09IntFilter{xs: xs, mask: ks.Mask})
		if n != len(want) || !reflect.DeepEqual(append([]int(nil), xs[:min(n, len(xs))]...), append([]int(nil), want...)) && n > 0 {
			c.Violation(f, "C09/FilterEntries/compaction", "mask %v: got n=%d prefix %v, want %v", ks.Mask, n, xs[:min(max(n, 0), len(xs))], want)
		}
		verifC09ArrLabels(c, "entries", len(ks.Mask), func(i int) bool { return ks.Mask[i] })
	}
	verifC09RunMask(f, c, ks)
}

func verifC09ArrLabels(c *verifkit.Case, what string, n int, removed func(i int) bool) {
	prev := false
	for i := 0; i < n; i++ {
		r := removed(i)
		if r && prev {
			c.Label(what + ":adjacent-removals")
			c.NonTrivial()
		}
		if r && n > 1 && i == 0 {
			c.Label(what + ":removal-first")
			c.NonTrivial()
		}
		if r && n > 1 && i == n-1 {
			c.Label(what + ":removal-last")
			c.NonTrivial()
		}
		prev = r
	}
}

func verifC09EntKeys(e structs.DirEntries) []string {
	out := make([]string, 0, len(e))
	for _, x := range e {
		out = append(out, x.Key)
	}
	return out
}

func verifC09SameEnts(a, b structs.DirEntries) bool {
	if len(a) != len(b) {
		return false
	}
	for i := range a {
		if !reflect.DeepEqual(a[i], b[i]) {
			return false
		}
	}
	return true
}

func TestVerifC09Keys(t *testing.T) {
	rec := verifkit.For("C09")
	defer rec.Flush()
	rapid.Check(t, func(t *rapid.T) {
		c := rec.NewCase()
		defer c.GuardPanic(t, "C09/panic")
		ks := verifC09GenKeys(t)
		c.Op(ks)
		verifC09RunKeys(t, c, ks)
		c.Done()
	})
}
