package consul

// C12 (part a) — the Connect CA issues only authorized, verifiable identities.
//
// ONE real single-server cluster per process (built-in CA provider, CSR rate limits off). Every case is one CSR built
// from generated parts and one generated authorizer, submitted to CAManager.AuthorizeAndSignCertificate exactly as the
// two Sign endpoints do (PEM -> connect.ParseCSR -> authorizer), optionally followed by a RETRY of the byte-identical
// CSR. The CSR is assembled below the convenience API: the subjectAltName extension is marshalled by the harness so
// that the URI strings reach the server verbatim (escaped, case-varied, with raw characters url.Parse tolerates).
//
// Oracle, when a certificate comes back (an error is always acceptable):
//   S1 the CSR carried exactly one URI SAN and no e-mail SAN;
//   S2 connect.ParseCertURI of that URI is a service, agent, server or mesh-gateway identity (never signing/other);
//   S3 its host is the cluster's trust domain under ASCII case folding (SpiffeIDSigning.CanSign documents the folding);
//      agents are exempt: SignCertificate documents that an agent's trust domain is REWRITTEN to the cluster's
//      (auto-encrypt / auto-config clients do not know it yet);
//   S4 its datacenter is exactly the server's for service / mesh-gateway / server identities (the code documents the
//      restriction for these three; it makes no datacenter statement about agent identities, so none is asserted);
//      in CE a service identity is in namespace "default" and partition "default", a gateway in partition "default"
//      (validateSupportedIdentityScopesInCertificate: anything else is Enterprise only);
//   S5 an authorizer built AGAIN from the same rules by the harness grants, asked directly: service:write on exactly the
//      decoded service name / node:write on exactly the agent's node name / mesh:write for a mesh gateway / acl:write
//      for a server identity ("the authorizer passed in should have unlimited permissions");
//   S6 the leaf, parsed with crypto/x509: exactly one URI SAN which re-parses with ParseCertURI to the IDENTICAL
//      identity struct (for a rewritten agent: the same struct with Host = trust domain; the partition of an agent does
//      not exist in CE and is not compared after a rewrite), IsCA false, no e-mail SAN, the CSR's public key, and the
//      reply's URI field of the identity's kind equals the SAN;
//   S7 it verifies (x509.Verify, now) against the ACTIVE root of Store.CARoots with the intermediates of that root and
//      of the returned bundle, for client-auth and for server-auth;
//   S8 its serial number was never returned before in this process (also across refused requests and retries).
// Not asserted: DNS / IP SANs (the statement does not restrict them; they are copied from the CSR), the CSR signature
// (ParseCSR does not check it), validity periods, rate limiting, providers other than the built-in one.

import (
	"bytes"
	"crypto/ecdsa"
	"crypto/elliptic"
	"crypto/rand"
	"crypto/x509"
	"crypto/x509/pkix"
	"encoding/asn1"
	"encoding/json"
	"encoding/pem"
	"fmt"
	"net"
	"os"
	"reflect"
	"sort"
	"strings"
	"sync"
	"testing"
	"time"

	"pgregory.net/rapid"

	"github.com/hashicorp/consul/acl"
	"github.com/hashicorp/consul/agent/connect"
	"github.com/hashicorp/consul/agent/structs"
	"github.com/hashicorp/consul/internal/verifkit"
	"github.com/hashicorp/consul/sdk/testutil"
	"github.com/hashicorp/consul/types"
	"github.com/hashicorp/go-uuid"
	"github.com/hashicorp/memberlist"
)

// verifC12CSR is one submission: everything needed to rebuild the CSR and the authorizer byte for byte (keys aside).
type verifC12CSR struct {
	Op      string   `json:"op"`             // "csr"
	URIs    []string `json:"uris"`           // raw URI SANs; {TD} {TDU} {TDM} stand for the trust domain (exact / upper / mixed case)
	DNS     []string `json:"dns,omitempty"`
	IPs     []string `json:"ips,omitempty"`
	Emails  []string `json:"emails,omitempty"`
	CN      string   `json:"cn,omitempty"`
	Key     int      `json:"key"`
	CAExt   bool     `json:"ca_ext,omitempty"` // CSR asks for basicConstraints CA:TRUE
	Rules   string   `json:"rules,omitempty"`  // ACL policy rules (JSON syntax); empty = no policy
	Default string   `json:"default"`          // deny | allow | manage : what the policy authorizer is chained with
	Mode    string   `json:"mode,omitempty"`   // how the rules relate to the request (label only)
	Retry   bool     `json:"retry,omitempty"`  // submit the identical CSR a second time

	// Op "rotate": a sequence of CA configuration updates (CAManager.UpdateConfiguration, what ConnectCA.ConfigurationSet
	// calls), each followed by a plain CSR (service web, allow-all) so that S7/S8 are judged right after the update.
	Rotate []verifC12Rotation `json:"rotate,omitempty"`
	// The server lives for the whole process, so a rotation case starts from whatever earlier cases left behind. Pre
	// records that starting point (which pairs are listed in the root set, which one is active; -1 = the server's own
	// initial root) so that a replay on a fresh server can establish it first.
	PreListed []int `json:"pre_listed,omitempty"`
	PreActive int   `json:"pre_active,omitempty"`
}

// verifC12Rotation configures the built-in provider with the explicit key/certificate pair number To of the process.
type verifC12Rotation struct {
	To    int  `json:"to"`
	Force bool `json:"force,omitempty"` // ForceWithoutCrossSigning
	// Fault "apply-fails": the raft apply of the update's CA request is made to fail at the delegate (leadership lost
	// while the request is in flight, enqueue timeout): the update must report the error and leave the root set as it was.
	Fault string `json:"fault,omitempty"`
}

// verifC12Delegate sits between the CAManager and the server (CAManager.delegate is the seam upstream's own tests
// use). It lets the harness own the one point of a configuration update that matters to "the root set is replaced
// atomically": the moment the CA request is handed to raft. `observe` runs right before every ApplyCARequest (a reader
// looking at the store at that moment); `fail`, when set, is returned instead of applying the next root-set request.
type verifC12Delegate struct {
	caServerDelegate
	mu      sync.Mutex
	observe func(req *structs.CARequest)
	fail    error
}

func (d *verifC12Delegate) ApplyCARequest(req *structs.CARequest) (interface{}, error) {
	d.mu.Lock()
	observe, fail := d.observe, d.fail
	if req.Op == structs.CAOpSetRootsAndConfig || req.Op == structs.CAOpSetRoots {
		d.fail = nil
	} else {
		fail = nil
	}
	d.mu.Unlock()
	if observe != nil {
		observe(req)
	}
	if fail != nil {
		return nil, fail
	}
	return d.caServerDelegate.ApplyCARequest(req)
}

func (d *verifC12Delegate) arm(observe func(req *structs.CARequest), fail error) {
	d.mu.Lock()
	d.observe, d.fail = observe, fail
	d.mu.Unlock()
}

type verifC12Env struct {
	srv  *Server
	dc   string
	td   string // canonical (lower-case) trust domain
	keys []*ecdsa.PrivateKey
	cas  []*structs.CARoot // externally supplied roots (key + certificate) the rotation cases switch between
	dlg  *verifC12Delegate
	mu   sync.Mutex
	seen map[string]string // serial -> what it was issued for
	// root ID -> true for every root that has been observed active in this process
	wasActive map[string]bool
}

func verifC12NewEnv(t *testing.T) *verifC12Env {
	t.Helper()
	// The upstream testServerConfig with two changes: the CSR rate limits are off, and the ports do not come from
	// sdk/freeport. freeport reserves one of only 15 machine-wide port blocks per PROCESS and panics when none is free
	// — which happens as soon as a dozen test binaries that start servers run side by side (16 shards of this check,
	// other checks, the upstream suite). The RPC listener binds to port 0; Serf needs real numbers (the server refuses
	// a dynamic WAN port), so two ports that are free for TCP and UDP right now are probed, and the start is retried.
	var (
		dir string
		srv *Server
	)
	for attempt := 1; ; attempt++ {
		var config *Config
		dir, config = verifC12ServerConfig(t)
		config.CAConfig.Config["CSRMaxPerSecond"] = 0
		config.CAConfig.Config["CSRMaxConcurrent"] = 0
		config.ACLResolverSettings.ACLsEnabled = config.ACLsEnabled
		config.ACLResolverSettings.NodeName = config.NodeName
		config.ACLResolverSettings.Datacenter = config.Datacenter
		config.ACLResolverSettings.EnterpriseMeta = *config.AgentEnterpriseMeta()
		var err error
		srv, err = newServerWithDeps(t, config, newDefaultDeps(t, config))
		if err == nil {
			break
		}
		os.RemoveAll(dir)
		if attempt == 10 {
			t.Fatalf("harness: cannot start the test server: %v", err)
		}
		time.Sleep(200 * time.Millisecond) // most likely one of the probed ports was taken in between
	}
	t.Cleanup(func() {
		srv.Shutdown()
		os.RemoveAll(dir)
	})
	// Wait for leadership and an initialised CA. The machine may be heavily loaded: be far more patient than the
	// 7 s of testrpc.WaitForLeader (a slow start is not a verdict).
	var conf *structs.CAConfiguration
	deadline := time.Now().Add(3 * time.Minute)
	for {
		var err error
		_, conf, err = srv.fsm.State().CAConfig(nil)
		_, root, _ := srv.fsm.State().CARootActive(nil)
		provider, provRoot := srv.caManager.getCAProvider()
		if err == nil && conf != nil && root != nil && provider != nil && provRoot != nil && srv.IsLeader() {
			break
		}
		if time.Now().After(deadline) {
			t.Fatalf("harness: the test server did not become leader with an initialised CA within 3 minutes (config=%v root=%v leader=%v err=%v)", conf != nil, root != nil, srv.IsLeader(), err)
		}
		time.Sleep(50 * time.Millisecond)
	}
	env := &verifC12Env{srv: srv, dc: "dc1", td: connect.SpiffeIDSigningForCluster(conf.ClusterID).Host(), seen: map[string]string{}}
	env.dlg = &verifC12Delegate{caServerDelegate: srv.caManager.delegate}
	srv.caManager.delegate = env.dlg
	for i := 0; i < 4; i++ {
		k, err := ecdsa.GenerateKey(elliptic.P256(), rand.Reader)
		if err != nil {
			t.Fatalf("harness: key: %v", err)
		}
		env.keys = append(env.keys, k)
	}
	env.wasActive = map[string]bool{}
	for i := 0; i < 3; i++ {
		env.cas = append(env.cas, connect.TestCA(t, nil)) // trust domain = connect.TestClusterID, the server's
	}
	return env
}

// verifC12ProbePort returns a port that is free on 127.0.0.1 for TCP and UDP at the moment of the call.
func verifC12ProbePort(t *testing.T) int {
	for i := 0; i < 200; i++ {
		l, err := net.ListenTCP("tcp", &net.TCPAddr{IP: net.IPv4(127, 0, 0, 1)})
		if err != nil {
			continue
		}
		port := l.Addr().(*net.TCPAddr).Port
		u, err := net.ListenUDP("udp", &net.UDPAddr{IP: net.IPv4(127, 0, 0, 1), Port: port})
		l.Close()
		if err != nil {
			continue
		}
		u.Close()
		return port
	}
	t.Fatalf("harness: no free port found")
	return 0
}

// verifC12ServerConfig is server_test.go's testServerConfig with all ports 0 (see verifC12NewEnv).
func verifC12ServerConfig(t *testing.T) (string, *Config) {
	dir := testutil.TempDir(t, "consul")
	config := DefaultConfig()
	config.NodeName = uniqueNodeName(t.Name())
	config.Bootstrap = true
	config.Datacenter = "dc1"
	config.PrimaryDatacenter = "dc1"
	config.DataDir = dir
	config.RPCAddr = &net.TCPAddr{IP: []byte{127, 0, 0, 1}, Port: 0}
	nodeID, err := uuid.GenerateUUID()
	if err != nil {
		t.Fatal(err)
	}
	config.NodeID = types.NodeID(nodeID)
	for _, mc := range []*memberlist.Config{config.SerfLANConfig.MemberlistConfig, config.SerfWANConfig.MemberlistConfig} {
		port := verifC12ProbePort(t)
		mc.BindAddr = "127.0.0.1"
		mc.BindPort = port
		mc.AdvertisePort = port
		mc.SuspicionMult = 2
		mc.ProbeTimeout = 50 * time.Millisecond
		mc.ProbeInterval = 100 * time.Millisecond
		mc.GossipInterval = 100 * time.Millisecond
		mc.DeadNodeReclaimTime = 100 * time.Millisecond
	}
	config.RaftConfig.LeaderLeaseTimeout = 100 * time.Millisecond
	config.RaftConfig.HeartbeatTimeout = 200 * time.Millisecond
	config.RaftConfig.ElectionTimeout = 200 * time.Millisecond
	config.ReconcileInterval = 300 * time.Millisecond
	config.AutopilotConfig.ServerStabilizationTime = 100 * time.Millisecond
	config.ServerHealthInterval = 50 * time.Millisecond
	config.AutopilotInterval = 100 * time.Millisecond
	config.CoordinateUpdatePeriod = 100 * time.Millisecond
	config.LeaveDrainTime = 1 * time.Millisecond
	config.RPCHoldTimeout = 10 * time.Second
	config.GRPCPort = 0
	config.ConnectEnabled = true
	config.CAConfig = &structs.CAConfiguration{
		ClusterID: connect.TestClusterID,
		Provider:  structs.ConsulCAProvider,
		Config: map[string]interface{}{
			"PrivateKey":          "",
			"RootCert":            "",
			"LeafCertTTL":         "72h",
			"IntermediateCertTTL": "288h",
		},
	}
	config.PeeringEnabled = true
	return dir, config
}

func (e *verifC12Env) subst(raw string) string {
	up := strings.ToUpper(e.td)
	mixed := []byte(e.td)
	for i := range mixed {
		if i%2 == 0 && mixed[i] >= 'a' && mixed[i] <= 'z' {
			mixed[i] -= 32
		}
	}
	r := strings.NewReplacer("{TDU}", up, "{TDM}", string(mixed), "{TD}", e.td)
	return r.Replace(raw)
}

// ---- CSR assembly

var verifC12OidSAN = asn1.ObjectIdentifier{2, 5, 29, 17}
var verifC12OidBC = asn1.ObjectIdentifier{2, 5, 29, 19}

func verifC12BuildCSR(e *verifC12Env, s verifC12CSR) (string, error) {
	var names []asn1.RawValue
	for _, m := range s.Emails {
		names = append(names, asn1.RawValue{Tag: 1, Class: 2, Bytes: []byte(m)})
	}
	for _, d := range s.DNS {
		names = append(names, asn1.RawValue{Tag: 2, Class: 2, Bytes: []byte(d)})
	}
	for _, u := range s.URIs {
		names = append(names, asn1.RawValue{Tag: 6, Class: 2, Bytes: []byte(e.subst(u))})
	}
	for _, ip := range s.IPs {
		p := net.ParseIP(ip)
		if p4 := p.To4(); p4 != nil {
			p = p4
		}
		names = append(names, asn1.RawValue{Tag: 7, Class: 2, Bytes: p})
	}
	tmpl := &x509.CertificateRequest{SignatureAlgorithm: x509.ECDSAWithSHA256}
	if s.CN != "" {
		tmpl.Subject = pkix.Name{CommonName: s.CN}
	}
	if len(names) > 0 {
		der, err := asn1.Marshal(names)
		if err != nil {
			return "", err
		}
		tmpl.ExtraExtensions = append(tmpl.ExtraExtensions, pkix.Extension{Id: verifC12OidSAN, Critical: s.CN == "", Value: der})
	}
	if s.CAExt {
		ext, err := connect.CreateCAExtension()
		if err != nil {
			return "", err
		}
		tmpl.ExtraExtensions = append(tmpl.ExtraExtensions, ext)
	}
	der, err := x509.CreateCertificateRequest(rand.Reader, tmpl, e.keys[s.Key%len(e.keys)])
	if err != nil {
		return "", err
	}
	var buf bytes.Buffer
	if err := pem.Encode(&buf, &pem.Block{Type: "CERTIFICATE REQUEST", Bytes: der}); err != nil {
		return "", err
	}
	return buf.String(), nil
}

func verifC12Authz(s verifC12CSR) (acl.Authorizer, error) {
	var def acl.Authorizer
	switch s.Default {
	case "allow":
		def = acl.AllowAll()
	case "manage":
		def = acl.ManageAll()
	default:
		def = acl.DenyAll()
	}
	if s.Rules == "" {
		return def, nil
	}
	p, err := acl.NewPolicyFromSource(s.Rules, nil, nil)
	if err != nil {
		return nil, err
	}
	return acl.NewPolicyAuthorizerWithDefaults(def, []*acl.Policy{p}, nil)
}

// ---- the step: submit + oracle

type verifC12Ident struct {
	Kind, Host, Partition, Namespace, Datacenter, Name string
}

func verifC12IdentOf(c connect.CertURI) verifC12Ident {
	switch x := c.(type) {
	case *connect.SpiffeIDService:
		return verifC12Ident{"service", x.Host, x.Partition, x.Namespace, x.Datacenter, x.Service}
	case *connect.SpiffeIDAgent:
		return verifC12Ident{"agent", x.Host, x.Partition, "", x.Datacenter, x.Agent}
	case *connect.SpiffeIDServer:
		return verifC12Ident{"server", x.Host, "", "", x.Datacenter, ""}
	case *connect.SpiffeIDMeshGateway:
		return verifC12Ident{"mesh", x.Host, x.Partition, "", x.Datacenter, ""}
	case *connect.SpiffeIDSigning:
		return verifC12Ident{Kind: "signing", Host: x.Host()}
	}
	return verifC12Ident{Kind: fmt.Sprintf("other:%T", c)}
}

func verifC12Step(f verifkit.F, c *verifkit.Case, e *verifC12Env, s verifC12CSR) {
	pemCSR, err := verifC12BuildCSR(e, s)
	if err != nil {
		// the parts cannot be encoded as a CSR at all (e.g. a non-ASCII e-mail): nothing was submitted
		c.Label("outcome=csr-not-encodable")
		return
	}
	n := 1
	if s.Retry {
		n = 2
		c.Label("retry")
	}
	for i := 0; i < n; i++ {
		verifC12Submit(f, c, e, s, pemCSR, i == 1)
	}
}

func verifC12Submit(f verifkit.F, c *verifkit.Case, e *verifC12Env, s verifC12CSR, pemCSR string, isRetry bool) (issuedOK bool) {
	rec := verifkit.For("C12")
	csr, err := connect.ParseCSR(pemCSR)
	if err != nil {
		c.Label("outcome=csr-unparseable")
		rec.AddExtraInt("csr_unparseable", 1)
		return
	}
	authz, err := verifC12Authz(s)
	if err != nil {
		f.Fatalf("harness: rules do not compile: %v\n%s", err, s.Rules)
	}
	nURIs, nEmails := len(csr.URIs), len(csr.EmailAddresses)
	var rawURI string
	if nURIs > 0 {
		rawURI = e.subst(s.URIs[0])
	}
	pub := csr.PublicKey

	issued, err := e.srv.caManager.AuthorizeAndSignCertificate(csr, authz)
	rec.AddExtraInt("csr_submitted", 1)
	if err != nil {
		if acl.IsErrPermissionDenied(err) {
			c.Label("outcome=refused-by-acl")
			rec.AddExtraInt("csr_refused_by_acl", 1)
			if s.Mode == "neighbour" || s.Mode == "spelling" {
				c.Label("refused-by-acl:neighbouring-grants-only")
				c.NonTrivial()
			}
		} else if connect.IsInvalidCSRError(err) || strings.Contains(err.Error(), "SPIFFE") || strings.HasPrefix(err.Error(), "Invalid ") {
			c.Label("outcome=refused-by-shape")
			rec.AddExtraInt("csr_refused_by_shape", 1)
		} else {
			// not a judgement on the request: the server could not serve it (leadership, rate limit, provider error)
			c.Label("outcome=server-error")
			rec.AddExtraInt("csr_server_error", 1)
			f.Logf("server error (not judged): %v", err)
		}
		return
	}
	c.Label("outcome=issued")
	rec.AddExtraInt("csr_issued", 1)
	issuedOK = issued != nil
	if issued == nil {
		c.Violation(f, "C12/nil-cert-without-error", "AuthorizeAndSignCertificate returned (nil, nil)")
		return
	}

	// S1
	if nURIs != 1 {
		c.Violation(f, "C12/issued-for-csr-without-exactly-one-uri", "a certificate was issued for a CSR with %d URI SANs %q", nURIs, s.URIs)
		return
	}
	if nEmails > 0 {
		c.Violation(f, "C12/issued-for-csr-with-email-san", "a certificate was issued for a CSR with e-mail SANs %q", s.Emails)
	}
	// S2
	req, perr := connect.ParseCertURIFromString(rawURI)
	if perr != nil {
		c.Violation(f, "C12/issued-for-unparseable-identity", "a certificate was issued for URI %q which ParseCertURI rejects: %v", rawURI, perr)
		return
	}
	id := verifC12IdentOf(req)
	c.Label("issued:" + id.Kind)
	switch id.Kind {
	case "service", "agent", "server", "mesh":
	default:
		c.Violation(f, "C12/issued-for-unsupported-identity-kind", "a certificate was issued for URI %q, a %s identity", rawURI, id.Kind)
		return
	}
	// S3
	rewritten := false
	if id.Kind == "agent" {
		if id.Host != e.td {
			rewritten = true
			c.Label("issued:agent-trust-domain-rewritten")
			c.NonTrivial()
		}
	} else if !strings.EqualFold(id.Host, e.td) {
		c.Violation(f, "C12/issued-for-foreign-trust-domain", "a certificate was issued for %s identity %q whose host %q is not the trust domain %q", id.Kind, rawURI, id.Host, e.td)
	} else if id.Host != e.td {
		c.Label("issued:host-case-varied")
		c.NonTrivial()
	}
	// S4
	if id.Kind != "agent" && id.Datacenter != e.dc {
		c.Violation(f, "C12/issued-for-other-datacenter", "a certificate was issued for %s identity %q in datacenter %q; this server is %q", id.Kind, rawURI, id.Datacenter, e.dc)
	}
	if id.Kind == "service" && (id.Namespace != "default" || id.Partition != "default") || id.Kind == "mesh" && id.Partition != "default" {
		c.Violation(f, "C12/issued-for-non-default-namespace-or-partition", "a certificate was issued for %s identity %q in namespace %q partition %q (CE)", id.Kind, rawURI, id.Namespace, id.Partition)
	}
	// S5 — a second authorizer instance from the same rules
	own, err := verifC12Authz(s)
	if err != nil {
		f.Fatalf("harness: %v", err)
	}
	var dec acl.EnforcementDecision
	var scope string
	switch id.Kind {
	case "service":
		dec, scope = own.ServiceWrite(id.Name, nil), fmt.Sprintf("service:write on %q", id.Name)
	case "agent":
		dec, scope = own.NodeWrite(id.Name, nil), fmt.Sprintf("node:write on %q", id.Name)
	case "mesh":
		dec, scope = own.MeshWrite(nil), "mesh:write"
	case "server":
		dec, scope = own.ACLWrite(nil), "acl:write"
	}
	if dec != acl.Allow {
		c.Violation(f, "C12/issued-without-"+id.Kind+"-write", "a certificate was issued for %q but the authorizer (default %s, rules %s) answers %v for %s", rawURI, s.Default, s.Rules, dec, scope)
	}

	// S6
	certs, err := verifC12ParseBundle(issued.CertPEM)
	if err != nil || len(certs) == 0 {
		c.Violation(f, "C12/issued-bundle-unparseable", "the issued bundle does not parse: %v", err)
		return
	}
	leaf := certs[0]
	what := fmt.Sprintf("CSR URI %q -> leaf serial %s", rawURI, leaf.SerialNumber)
	if len(leaf.URIs) != 1 {
		c.Violation(f, "C12/leaf-without-exactly-one-uri", "%s: the leaf has %d URI SANs", what, len(leaf.URIs))
		return
	}
	sanStr := leaf.URIs[0].String()
	got, gerr := connect.ParseCertURI(leaf.URIs[0])
	switch {
	case gerr != nil && rewritten:
		c.Violation(f, "C12/rewritten-agent-san-does-not-reparse", "%s: authorized agent identity %+v (trust domain to be rewritten to %q), but the leaf's URI SAN %q is rejected by ParseCertURI: %v", what, id, e.td, sanStr, gerr)
	case gerr != nil:
		c.Violation(f, "C12/issued-san-does-not-reparse", "%s: authorized identity %+v, but the leaf's URI SAN %q is rejected by ParseCertURI: %v", what, id, sanStr, gerr)
	case id.Kind == "agent":
		// documented rewrite: the leaf of an agent carries the cluster's trust domain whatever the CSR said. A host that
		// differs from the trust domain only by case may be kept or rewritten (both are the trust domain).
		g, want := verifC12IdentOf(got), id
		if !strings.EqualFold(g.Host, e.td) {
			c.Violation(f, "C12/agent-leaf-carries-foreign-trust-domain", "%s: the agent's trust domain %q was to be rewritten to %q, but the leaf's URI SAN is %q", what, id.Host, e.td, sanStr)
		}
		if g.Host != id.Host {
			g.Partition, want.Partition = "", "" // rewritten through SpiffeIDAgent.URI(): CE has no agent partitions
		}
		g.Host, want.Host = "", ""
		if g != want {
			c.Violation(f, "C12/issued-san-reparses-to-other-identity", "%s: authorized identity %+v, but the leaf's URI SAN %q re-parses to %+v", what, id, sanStr, verifC12IdentOf(got))
		}
	default:
		if g := verifC12IdentOf(got); g != id {
			c.Violation(f, "C12/issued-san-reparses-to-other-identity", "%s: authorized identity %+v, but the leaf's URI SAN %q re-parses to %+v", what, id, sanStr, g)
		}
	}
	if sanStr != rawURI && !rewritten {
		c.Label("issued:san-respelled")
	}
	if canon := req.URI().String(); canon != rawURI {
		c.Label("issued:non-canonical-uri")
		c.NonTrivial()
	}
	if leaf.IsCA || leaf.KeyUsage&x509.KeyUsageCertSign != 0 {
		c.Violation(f, "C12/leaf-is-ca", "%s: IsCA=%v keyUsage=%b (CSR asked for CA: %v)", what, leaf.IsCA, leaf.KeyUsage, s.CAExt)
	}
	if len(leaf.EmailAddresses) > 0 {
		c.Violation(f, "C12/leaf-has-email-san", "%s: e-mail SANs %q", what, leaf.EmailAddresses)
	}
	if !reflect.DeepEqual(leaf.PublicKey, pub) {
		c.Violation(f, "C12/leaf-carries-other-public-key", "%s: the leaf's public key is not the CSR's", what)
	}
	var replyURI string
	switch id.Kind {
	case "service":
		replyURI = issued.ServiceURI
	case "agent":
		replyURI = issued.AgentURI
	case "server":
		replyURI = issued.ServerURI
	case "mesh":
		replyURI = issued.KindURI
	}
	if replyURI != sanStr {
		c.Violation(f, "C12/reply-uri-differs-from-san", "%s: the reply names %q, the leaf's SAN is %q", what, replyURI, sanStr)
	}
	if id.Kind == "service" && issued.Service != id.Name || id.Kind == "agent" && issued.Agent != id.Name {
		c.Violation(f, "C12/reply-name-differs-from-authorized", "%s: the reply names service %q agent %q, authorized was %q", what, issued.Service, issued.Agent, id.Name)
	}

	// S7
	_, roots, err := e.srv.fsm.State().CARoots(nil)
	if err != nil {
		f.Fatalf("harness: CARoots: %v", err)
	}
	active := 0
	rootPool, inter := x509.NewCertPool(), x509.NewCertPool()
	for _, r := range roots {
		if !r.Active {
			continue
		}
		active++
		rootPool.AppendCertsFromPEM([]byte(r.RootCert))
		for _, ic := range r.IntermediateCerts {
			inter.AppendCertsFromPEM([]byte(ic))
		}
	}
	if active != 1 {
		c.Violation(f, "C12/not-exactly-one-active-root", "the store holds %d active roots of %d", active, len(roots))
	}
	for _, ic := range certs[1:] {
		inter.AddCert(ic)
	}
	for _, ku := range []x509.ExtKeyUsage{x509.ExtKeyUsageClientAuth, x509.ExtKeyUsageServerAuth} {
		if _, err := leaf.Verify(x509.VerifyOptions{Roots: rootPool, Intermediates: inter, CurrentTime: time.Now(), KeyUsages: []x509.ExtKeyUsage{ku}}); err != nil {
			c.Violation(f, "C12/leaf-does-not-verify", "%s: verification against the active root for usage %v fails: %v", what, ku, err)
		}
	}

	// S8
	serial := leaf.SerialNumber.String()
	e.mu.Lock()
	prev, dup := e.seen[serial]
	e.seen[serial] = what
	e.mu.Unlock()
	if dup {
		c.Violation(f, "C12/serial-reused", "%s (retry=%v): serial %s was already returned for: %s", what, isRetry, serial, prev)
	}
	if issued.SerialNumber != connect.EncodeSerialNumber(leaf.SerialNumber) {
		c.Violation(f, "C12/reply-serial-differs-from-leaf", "%s: reply says %q", what, issued.SerialNumber)
	}
	if isRetry {
		c.Label("issued:retry-of-identical-csr")
	}
	return
}

// ---- CA configuration updates (root rotations) on the live server
//
// Oracle after EVERY CAManager.UpdateConfiguration (statement: "At all times exactly one root is active and the root
// set is replaced atomically"; "chains to the currently active root"):
//   T1 Store.CARoots holds exactly one root with Active == true;
//   T2 after a successful update the active root is the certificate that was just configured; after a refused update
//      the active root is the one that was active before;
//   T3 every root that was active earlier in this process is still in the set (roots are only pruned 2 x LeafCertTTL
//      = 144 h after rotation) and, unless it is the active one, is inactive with RotatedOutAt set;
//   T4 a leaf signed right afterwards passes S1-S8 (S7: it verifies against the ACTIVE root, S8: fresh serial).
// Not asserted: that an update is accepted, or that signing succeeds right after it (counted as a label).

func verifC12RootsNow(f verifkit.F, e *verifC12Env) (all structs.CARoots, active []*structs.CARoot) {
	_, all, err := e.srv.fsm.State().CARoots(nil)
	if err != nil {
		f.Fatalf("harness: CARoots: %v", err)
	}
	for _, r := range all {
		if r.Active {
			active = append(active, r)
		}
	}
	return all, active
}

// verifC12RootsString renders a root set completely (the stored objects by value, in store order).
func verifC12RootsString(rs structs.CARoots) string {
	var out []string
	for _, r := range rs {
		if r == nil {
			out = append(out, "<nil>")
			continue
		}
		out = append(out, fmt.Sprintf("%+v", *r))
	}
	return "[" + strings.Join(out, " | ") + "]"
}

func verifC12SameCert(pemA, pemB string) bool {
	a, errA := connect.ParseCert(pemA)
	b, errB := connect.ParseCert(pemB)
	return errA == nil && errB == nil && bytes.Equal(a.Raw, b.Raw)
}

func (e *verifC12Env) rotationConfig(pair int, force bool) *structs.CARequest {
	target := e.cas[((pair%len(e.cas))+len(e.cas))%len(e.cas)]
	return &structs.CARequest{
		Datacenter: e.dc,
		Config: &structs.CAConfiguration{
			Provider: structs.ConsulCAProvider,
			Config: map[string]interface{}{
				"PrivateKey":          target.SigningKey,
				"RootCert":            target.RootCert,
				"LeafCertTTL":         "72h",
				"IntermediateCertTTL": "288h",
				"CSRMaxPerSecond":     0,
				"CSRMaxConcurrent":    0,
			},
			ForceWithoutCrossSigning: force,
		},
	}
}

// rotationState reports which pairs are listed in the root set and which one is active (-1: none of the pairs).
func (e *verifC12Env) rotationState(f verifkit.F) (listed []int, active int) {
	all, _ := verifC12RootsNow(f, e)
	active = -1
	for _, r := range all {
		for j, ca := range e.cas {
			if verifC12SameCert(ca.RootCert, r.RootCert) {
				listed = append(listed, j)
				if r.Active {
					active = j
				}
			}
		}
	}
	sort.Ints(listed)
	return listed, active
}

// establish brings a (fresh) server to the recorded starting point of a rotation case. A no-op in a generated run,
// where the starting point was read off the server itself.
func (e *verifC12Env) establish(f verifkit.F, s verifC12CSR) {
	listed, active := e.rotationState(f)
	has := map[int]bool{}
	for _, p := range listed {
		has[p] = true
	}
	for _, p := range s.PreListed {
		if !has[p] {
			if err := e.srv.caManager.UpdateConfiguration(e.rotationConfig(p, false)); err != nil {
				f.Logf("harness: establishing the starting point: rotation to pair %d refused: %v", p, err)
			}
			active = p
		}
	}
	if s.PreActive >= 0 && active != s.PreActive && len(s.PreListed) > 0 {
		if err := e.srv.caManager.UpdateConfiguration(e.rotationConfig(s.PreActive, false)); err != nil {
			f.Logf("harness: establishing the starting point: rotation to pair %d refused: %v", s.PreActive, err)
		}
	}
}

func verifC12RotateStep(f verifkit.F, c *verifkit.Case, e *verifC12Env, s verifC12CSR) {
	c.Label("rotation-case")
	e.establish(f, s)
	for i, r := range s.Rotate {
		target := e.cas[((r.To%len(e.cas))+len(e.cas))%len(e.cas)]
		rootsBefore, activeBefore := verifC12RootsNow(f, e)
		for _, a := range activeBefore {
			e.wasActive[a.ID] = true
		}
		kind := "rotate:to-a-root-never-seen"
		for _, old := range rootsBefore {
			if verifC12SameCert(old.RootCert, target.RootCert) {
				if old.Active {
					kind = "rotate:same-root-resubmitted"
				} else {
					kind = "rotate-back-to-previous-root"
					c.NonTrivial()
				}
			}
		}
		c.Label(kind)
		if r.Force {
			c.Label("rotate:force-without-cross-signing")
		}
		args := e.rotationConfig(r.To, r.Force)
		// T5 (atomic replacement, with the schedule / fault point owned by the harness): whoever looks at the store at
		// the moment a CA request of this update is handed to raft still sees the root set exactly as it was before the
		// update (nothing is changed outside the replicated command); and when that apply fails, the update reports
		// an error and the root set is, afterwards, still exactly what it was.
		snapBefore := verifC12RootsString(rootsBefore)
		var seenAtApply []string
		var injected error
		if r.Fault == "apply-fails" {
			injected = fmt.Errorf("verif: leadership lost while committing log")
			c.Label("rotate:fault:apply-fails")
		}
		e.dlg.arm(func(req *structs.CARequest) {
			if req.Op != structs.CAOpSetRootsAndConfig && req.Op != structs.CAOpSetRoots {
				return
			}
			_, now, _ := e.srv.fsm.State().CARoots(nil)
			seenAtApply = append(seenAtApply, verifC12RootsString(now))
		}, injected)
		uerr := e.srv.caManager.UpdateConfiguration(args)
		e.dlg.arm(nil, nil)
		verifkit.For("C12").AddExtraInt("ca_config_updates", 1)
		what := fmt.Sprintf("configuration update %d of %v (pair %d, %s, force=%v, fault=%q) -> err=%v", i+1, s.Rotate, r.To, kind, r.Force, r.Fault, uerr)
		for _, seen := range seenAtApply {
			c.Label("rotate:reader-at-apply-point")
			if seen != snapBefore {
				c.Violation(f, "C12/root-set-changed-before-the-update-was-applied", "%s: a reader at the moment the root-set request was handed to raft saw %s; the set before the update was %s", what, seen, snapBefore)
				return
			}
		}
		if injected != nil && len(seenAtApply) > 0 {
			c.NonTrivial()
			if uerr == nil {
				c.Violation(f, "C12/config-update-reports-success-although-apply-failed", "%s", what)
				return
			}
			if _, now, _ := e.srv.fsm.State().CARoots(nil); verifC12RootsString(now) != snapBefore {
				c.Violation(f, "C12/failed-config-update-changes-root-set", "%s: root set before %s; after the failed update %s", what, snapBefore, verifC12RootsString(now))
				return
			}
			c.Label("rotate:fault:root-set-unchanged")
		}

		rootsAfter, activeAfter := verifC12RootsNow(f, e)
		desc := func(rs structs.CARoots) string {
			var out []string
			for _, x := range rs {
				pair := "initial"
				for j, ca := range e.cas {
					if verifC12SameCert(ca.RootCert, x.RootCert) {
						pair = fmt.Sprintf("pair%d", j)
					}
				}
				out = append(out, fmt.Sprintf("%s(active=%v rotatedOut=%v)", pair, x.Active, !x.RotatedOutAt.IsZero()))
			}
			return strings.Join(out, " ")
		}
		// T1
		if len(activeAfter) != 1 {
			c.Violation(f, "C12/config-update-leaves-not-exactly-one-active-root", "%s: the store holds %d active roots of %d; before: %s; after: %s",
				what, len(activeAfter), len(rootsAfter), desc(rootsBefore), desc(rootsAfter))
			return
		}
		for _, a := range activeAfter {
			e.wasActive[a.ID] = true
		}
		// T2
		if uerr == nil {
			if !verifC12SameCert(activeAfter[0].RootCert, target.RootCert) {
				c.Violation(f, "C12/active-root-is-not-the-configured-one", "%s: before: %s; after: %s", what, desc(rootsBefore), desc(rootsAfter))
			}
		} else {
			c.Label("rotate:refused")
			f.Logf("configuration update refused (not judged): %v", uerr)
			if len(activeBefore) == 1 && activeBefore[0].ID != activeAfter[0].ID {
				c.Violation(f, "C12/refused-config-update-changes-active-root", "%s: before: %s; after: %s", what, desc(rootsBefore), desc(rootsAfter))
			}
		}
		// T3
		for id := range e.wasActive {
			var found *structs.CARoot
			for _, x := range rootsAfter {
				if x.ID == id {
					found = x
				}
			}
			switch {
			case found == nil:
				c.Violation(f, "C12/previously-active-root-dropped", "%s: root %s was active earlier and is gone; before: %s; after: %s", what, id, desc(rootsBefore), desc(rootsAfter))
			case found.ID != activeAfter[0].ID && (found.Active || found.RotatedOutAt.IsZero()):
				c.Violation(f, "C12/rotated-out-root-not-marked", "%s: root %s was active earlier: Active=%v RotatedOutAt=%v; after: %s", what, id, found.Active, found.RotatedOutAt, desc(rootsAfter))
			}
		}
		// T4
		probe := verifC12CSR{Op: "csr", URIs: []string{"spiffe://{TD}/ns/default/dc/" + e.dc + "/svc/web"}, Key: i, Default: "allow", Mode: "allow-all"}
		pemCSR, err := verifC12BuildCSR(e, probe)
		if err != nil {
			f.Fatalf("harness: %v", err)
		}
		if verifC12Submit(f, c, e, probe, pemCSR, false) {
			c.Label("rotate:leaf-signed-and-verified-afterwards")
		} else {
			c.Label("rotate:signing-failed-afterwards")
		}
	}
}

func verifC12GenRotation(t *rapid.T) verifC12CSR {
	s := verifC12CSR{Op: "rotate"}
	n := rapid.IntRange(2, 4).Draw(t, "nrotations")
	for i := 0; i < n; i++ {
		r := verifC12Rotation{To: rapid.IntRange(0, 2).Draw(t, "to"), Force: verifC12Weighted(t, "force", 70, 30) == 1}
		if verifC12Weighted(t, "fault", 70, 30) == 1 {
			r.Fault = "apply-fails"
		}
		// aim: X, Y, X — back to a root that is still listed as rotated out
		if i >= 2 && verifC12Weighted(t, "back", 35, 65) == 1 {
			r.To = s.Rotate[i-2].To
		}
		s.Rotate = append(s.Rotate, r)
	}
	return s
}

func verifC12ParseBundle(p string) ([]*x509.Certificate, error) {
	var out []*x509.Certificate
	rest := []byte(p)
	for {
		var b *pem.Block
		b, rest = pem.Decode(rest)
		if b == nil {
			break
		}
		c, err := x509.ParseCertificate(b.Bytes)
		if err != nil {
			return nil, err
		}
		out = append(out, c)
	}
	return out, nil
}

// ---- generator

var verifC12Names = []string{
	"web", "web", "web", "api", "db", "Web", "WEB", "web-proxy", "web.v1", "we", "n1", "n1", "node-1",
	"a/b", "web/..", "../web", "a/svc/b", "web/", "a/b c", "a/b\"c",
	"a%2Fb", "%", "100%", "a%2fb",
	"..", ".", "web ", "a b", "a\"b", "a?b", "a#b", "a;b", "a:b", "a@b", "a+b", "a\\b", "{a}",
	"ü", "wéb", "default", "dc1", "*",
}

const verifC12Upper = "0123456789ABCDEF"
const verifC12Lower = "0123456789abcdef"

func verifC12Pick(t *rapid.T, pool []string, label string) string {
	return pool[rapid.IntRange(0, len(pool)-1).Draw(t, label)]
}

// verifC12Weighted draws an index with the given integer weights.
func verifC12Weighted(t *rapid.T, label string, w ...int) int {
	sum := 0
	for _, x := range w {
		sum += x
	}
	r := rapid.IntRange(0, sum-1).Draw(t, label)
	for i, x := range w {
		if r < x {
			return i
		}
		r -= x
	}
	return len(w) - 1
}

func verifC12Escape(t *rapid.T, s string, label string) string {
	style := verifC12Weighted(t, label+"-style", 8, 2, 2, 2, 2, 2, 2)
	var b strings.Builder
	for i := 0; i < len(s); i++ {
		ch := s[i]
		hex := verifC12Upper
		must := ch == '/' || ch == '%' || ch == '?' || ch == '#' || ch < 0x21 || ch >= 0x7f || ch == '"' || ch == '\\' || ch == '{' || ch == '}'
		esc := must
		switch style {
		case 0: // minimal, upper-case hex
		case 1: // lower-case hex
			hex = verifC12Lower
		case 2: // everything escaped
			esc = true
		case 3: // first character over-escaped, lower hex
			esc = must || i == 0
			hex = verifC12Lower
		case 4: // raw characters url.Parse tolerates in a path but URL.String() re-escapes
			if ch == ' ' || ch == '"' || ch == '\\' || ch == '{' || ch == '}' {
				esc = false
			}
		case 5: // last character over-escaped
			esc = must || i == len(s)-1
		case 6: // dots and some letters escaped
			esc = must || ch == '.' || ch == 'e' || ch == '1'
		}
		if esc {
			b.WriteByte('%')
			b.WriteByte(hex[ch>>4])
			b.WriteByte(hex[ch&15])
		} else {
			b.WriteByte(ch)
		}
	}
	return b.String()
}

type verifC12GenURI struct {
	raw  string
	kind string // service | agent | mesh | server | signing | garbage
	name string // decoded name the identity asks for (service / node)
	seg  string // the name segment as spelled in the URI
}

func verifC12GenOneURI(t *rapid.T) verifC12GenURI {
	host := []string{"{TD}", "{TDU}", "{TDM}", "foreign.test", "evil-{TD}", "{TD}.evil.test", "", "{TD}:8443", "user@{TD}", "99999999-2222-3333-4444-555555555555.consul"}[verifC12Weighted(t, "host", 50, 9, 9, 8, 3, 3, 3, 3, 4, 8)]
	dc := func() string {
		return []string{"dc1", "dc%31", "%64c1", "dc2", "DC1", "Dc1", "dc1%20", "dc1%2Fx", "dc"}[verifC12Weighted(t, "dc", 70, 7, 5, 6, 4, 2, 2, 2, 2)]
	}
	ns := func() string {
		return []string{"default", "def%61ult", "Default", "foo", "DEFAULT"}[verifC12Weighted(t, "ns", 84, 5, 4, 5, 2)]
	}
	ap := func() string {
		return []string{"", "/ap/default", "/ap/foo", "/ap/Default", "/ap/def%61ult"}[verifC12Weighted(t, "ap", 84, 6, 5, 2, 3)]
	}
	g := verifC12GenURI{}
	g.kind = []string{"service", "agent", "mesh", "server", "signing", "garbage"}[verifC12Weighted(t, "kind", 46, 24, 10, 8, 4, 8)]
	path := ""
	switch g.kind {
	case "service":
		g.name = verifC12Pick(t, verifC12Names, "svc")
		g.seg = verifC12Escape(t, g.name, "svc")
		path = ap() + "/ns/" + ns() + "/dc/" + dc() + "/svc/" + g.seg
	case "agent":
		g.name = verifC12Pick(t, verifC12Names, "node")
		g.seg = verifC12Escape(t, g.name, "node")
		path = ap() + "/agent/client/dc/" + dc() + "/id/" + g.seg
	case "mesh":
		path = ap() + "/gateway/mesh/dc/" + dc()
	case "server":
		path = "/agent/server/dc/" + dc()
	case "signing":
		path = ""
	case "garbage":
		path = verifC12Pick(t, []string{"/", "/ns/default/dc/dc1/svc", "/ns/default/dc/dc1/svc/", "/ns/default/dc/dc1/svc/web/x", "/NS/default/dc/dc1/svc/web",
			"/ns/default/dc/dc1/SVC/web", "/agent/Client/dc/dc1/id/n1", "/agent/server/dc/dc1/id/n1", "/gateway/mesh/dc", "/ns//dc/dc1/svc/web",
			"/ns/default/dc/dc1/svc/web%2", "/ns/default/svc/web", "/%6Es/default/dc/dc1/svc/web", "//ns/default/dc/dc1/svc/web", "/ap/default/agent/server/dc/dc1"}, "garbage")
	}
	raw := "spiffe://" + host + path
	switch verifC12Weighted(t, "tail", 90, 3, 3, 2, 2) {
	case 1:
		raw += "?x=y"
	case 2:
		raw += "#frag"
	case 3:
		raw = "SPIFFE" + raw[len("spiffe"):]
	case 4:
		raw = "https" + raw[len("spiffe"):]
	}
	g.raw = raw
	return g
}

func verifC12Rule(kind, name, level string) [3]string { return [3]string{kind, name, level} }

// verifC12RulesJSON renders rules as the JSON form of the ACL policy language. Scalar rules use kind with empty name.
func verifC12RulesJSON(rules [][3]string) string {
	blocks := map[string]map[string]any{}
	scalars := map[string]string{}
	for _, r := range rules {
		switch r[0] {
		case "mesh", "acl", "operator":
			scalars[r[0]] = r[2]
		default:
			if blocks[r[0]] == nil {
				blocks[r[0]] = map[string]any{}
			}
			blocks[r[0]][r[1]] = map[string]string{"policy": r[2]}
		}
	}
	top := map[string]any{}
	for k, v := range blocks {
		top[k] = v
	}
	for k, v := range scalars {
		top[k] = v
	}
	b, _ := json.Marshal(top) // encoding/json sorts map keys: deterministic text
	return string(b)
}

func verifC12Neighbours(name, seg, cn string) []string {
	out := []string{name + "x", name + "-", strings.ToUpper(name), strings.ToLower(name), seg, cn, "x" + name, name + "/", strings.TrimSuffix(name, "/")}
	if len(name) > 1 {
		out = append(out, name[:len(name)-1], name[1:])
	}
	if i := strings.IndexByte(name, '/'); i >= 0 {
		out = append(out, name[:i], name[i+1:])
	}
	var res []string
	seen := map[string]bool{name: true}
	for _, o := range out {
		if o != "" && !seen[o] {
			seen[o] = true
			res = append(res, o)
		}
	}
	sort.Strings(res)
	return res
}

func verifC12Gen(t *rapid.T) verifC12CSR {
	s := verifC12CSR{Op: "csr", Key: rapid.IntRange(0, 3).Draw(t, "key")}
	nURIs := []int{1, 0, 2, 3}[verifC12Weighted(t, "nuris", 84, 4, 9, 3)]
	var first verifC12GenURI
	for i := 0; i < nURIs; i++ {
		g := verifC12GenOneURI(t)
		if i == 0 {
			first = g
		} else if rapid.IntRange(0, 3).Draw(t, "dup-uri") == 0 {
			g = first
		}
		s.URIs = append(s.URIs, g.raw)
	}
	for i, n := 0, []int{0, 1, 2}[verifC12Weighted(t, "ndns", 60, 25, 15)]; i < n; i++ {
		if rapid.Bool().Draw(t, "dns-or-ip") {
			s.DNS = append(s.DNS, verifC12Pick(t, []string{"web.service.consul", "localhost", "server.dc1.consul", "*.consul", "web"}, "dns"))
		} else {
			s.IPs = append(s.IPs, verifC12Pick(t, []string{"127.0.0.1", "10.0.0.1", "::1"}, "ip"))
		}
	}
	if verifC12Weighted(t, "email", 92, 8) == 1 {
		s.Emails = []string{verifC12Pick(t, []string{"root@example.com", "web@consul"}, "email")}
	}
	s.CN = []string{"", "web", "api", "n1", "admin", first.name}[verifC12Weighted(t, "cn", 50, 12, 8, 8, 6, 16)]
	s.CAExt = verifC12Weighted(t, "caext", 90, 10) == 1
	s.Retry = verifC12Weighted(t, "retry", 75, 25) == 1

	// the authorizer, relative to what the first URI asks for
	kind, name := first.kind, first.name
	if kind != "service" && kind != "agent" && kind != "mesh" && kind != "server" {
		kind, name = "service", "web"
	}
	ruleKind := map[string]string{"service": "service", "agent": "node"}[kind]
	var rules [][3]string
	s.Default = "deny"
	s.Mode = []string{"exact", "neighbour", "spelling", "prefix", "allow-all", "deny-all", "manage", "wrong-level"}[verifC12Weighted(t, "mode", 36, 18, 12, 7, 8, 4, 4, 11)]
	switch s.Mode {
	case "exact":
		switch kind {
		case "service", "agent":
			rules = append(rules, verifC12Rule(ruleKind, name, "write"))
		case "mesh":
			if rapid.IntRange(0, 3).Draw(t, "mesh-via-operator") == 0 {
				rules = append(rules, verifC12Rule("operator", "", "write")) // mesh falls back to operator (documented)
			} else {
				rules = append(rules, verifC12Rule("mesh", "", "write"))
			}
		case "server":
			rules = append(rules, verifC12Rule("acl", "", "write"))
		}
	case "neighbour":
		// everything around the requested scope, but not the scope itself
		switch kind {
		case "service", "agent":
			nb := verifC12Neighbours(name, first.seg, s.CN)
			k := rapid.IntRange(1, len(nb)).Draw(t, "n-neighbours")
			off := rapid.IntRange(0, len(nb)-1).Draw(t, "neighbour-off")
			for i := 0; i < k && i < 4; i++ {
				rules = append(rules, verifC12Rule(ruleKind, nb[(off+i)%len(nb)], "write"))
			}
			other := map[string]string{"service": "node", "agent": "service"}[kind]
			rules = append(rules, verifC12Rule(other, name, "write")) // the right name, the wrong resource
			if rapid.Bool().Draw(t, "mesh-too") {
				rules = append(rules, verifC12Rule("mesh", "", "write"))
			}
		case "mesh":
			rules = append(rules, verifC12Rule("mesh", "", "read"), verifC12Rule("service_prefix", "", "write"), verifC12Rule("node_prefix", "", "write"),
				verifC12Rule("service", "mesh-gateway", "write"), verifC12Rule("acl", "", "read"))
		case "server":
			rules = append(rules, verifC12Rule("acl", "", "read"), verifC12Rule("operator", "", "write"), verifC12Rule("mesh", "", "write"),
				verifC12Rule("service_prefix", "", "write"), verifC12Rule("node_prefix", "", "write"), verifC12Rule("node", "server", "write"))
		}
	case "spelling":
		// grants on other spellings of the request: the escaped segment, the common name, case variants
		if ruleKind == "" {
			ruleKind = "service"
		}
		for _, n := range []string{first.seg, s.CN, strings.ToUpper(name), strings.ToLower(name), first.raw} {
			if n != name {
				rules = append(rules, verifC12Rule(ruleKind, n, "write"))
			}
		}
		if len(rules) == 0 {
			rules = append(rules, verifC12Rule(ruleKind, name+"x", "write"))
		}
	case "prefix":
		if ruleKind == "" {
			rules = append(rules, verifC12Rule("service_prefix", "", "write"))
		} else {
			k := rapid.IntRange(0, len(name)).Draw(t, "prefix-len")
			rules = append(rules, verifC12Rule(ruleKind+"_prefix", name[:k], "write"))
			if rapid.IntRange(0, 2).Draw(t, "prefix-but-exact-lower") == 0 {
				rules = append(rules, verifC12Rule(ruleKind, name, []string{"read", "deny"}[rapid.IntRange(0, 1).Draw(t, "lower")]))
			}
		}
	case "allow-all":
		s.Default = "allow"
	case "deny-all":
	case "manage":
		s.Default = "manage"
	case "wrong-level":
		switch kind {
		case "service", "agent":
			rules = append(rules, verifC12Rule(ruleKind, name, []string{"read", "deny"}[rapid.IntRange(0, 1).Draw(t, "lower")]))
			if rapid.Bool().Draw(t, "default-allow") {
				s.Default = "allow" // explicit deny/read beats the allowing default
			}
		case "mesh":
			rules = append(rules, verifC12Rule("mesh", "", []string{"read", "deny"}[rapid.IntRange(0, 1).Draw(t, "lower")]))
			if rapid.Bool().Draw(t, "default-allow") {
				s.Default = "allow"
			}
		case "server":
			s.Default = "allow" // allow-all does not grant acl:write
		}
	}
	if len(rules) > 0 {
		s.Rules = verifC12RulesJSON(rules)
	}
	return s
}

// ---- tests

func verifC12Classify(c *verifkit.Case, s verifC12CSR) {
	c.Labelf("uris=%d", len(s.URIs))
	if s.CN != "" {
		c.Label("csr-has-common-name")
	}
	c.Label("authz=" + s.Mode)
	if len(s.Emails) > 0 {
		c.Label("email-san")
	}
	if s.CAExt {
		c.Label("csr-asks-for-ca")
	}
	if len(s.URIs) > 0 {
		u := s.URIs[0]
		switch {
		case strings.Contains(u, "{TDU}") || strings.Contains(u, "{TDM}"):
			c.Label("host=trust-domain-case-varied")
		case strings.Contains(u, "//{TD}/") || strings.HasSuffix(u, "//{TD}"):
			c.Label("host=trust-domain")
		default:
			c.Label("host=other")
		}
	}
}

func TestVerifC12Sign(t *testing.T) {
	rec := verifkit.For("C12")
	defer rec.Flush()
	env := verifC12NewEnv(t)
	rapid.Check(t, func(t *rapid.T) {
		c := rec.NewCase()
		defer c.GuardPanic(t, "C12/panic")
		// one case in 16 is a rotation case; drawn from four fair bits because rapid's integer generators favour small
		// values heavily (IntRange(0,99) < 6 comes up a third of the time)
		fam := 0
		for i := 0; i < 4; i++ {
			fam <<= 1
			if rapid.Bool().Draw(t, "family") {
				fam |= 1
			}
		}
		if fam == 15 {
			s := verifC12GenRotation(t)
			s.PreListed, s.PreActive = env.rotationState(t)
			c.Op(s)
			verifC12RotateStep(t, c, env, s)
			c.Done()
			return
		}
		s := verifC12Gen(t)
		c.Op(s)
		verifC12Classify(c, s)
		verifC12Step(t, c, env, s)
		c.Done()
	})
}

func TestVerifC12SignReplay(t *testing.T) {
	rec := verifkit.For("C12")
	defer rec.Flush()
	var env *verifC12Env
	for _, path := range verifkit.ReplayFiles("C12") {
		rp, err := verifkit.LoadReplay(path)
		if err != nil {
			t.Fatalf("%v", err)
		}
		c := rec.NewCase()
		c.Label("replay")
		for _, raw := range rp.Ops {
			var s verifC12CSR
			if err := json.Unmarshal(raw, &s); err != nil || (s.Op != "csr" && s.Op != "rotate") {
				continue // a replay of another part of C12
			}
			if env == nil {
				env = verifC12NewEnv(t)
			}
			c.Op(s)
			if s.Op == "rotate" {
				verifC12RotateStep(t, c, env, s)
				continue
			}
			verifC12Step(t, c, env, s)
		}
		c.Done()
	}
}

var _ = structs.CAOpSetRoots
