//go:build verif

package stream

// This file is NOT part of consul. It is injected by build overlay (as zz_verif_hook.go) only when the
// /verif property harness builds with -tags verif, adds code only and changes no tracked file. It lets a
// harness that never starts EventPublisher.Run own the publication schedule (property C11): the hand-off of a
// committed transaction's events from publishCh to the topic buffers happens exactly when the harness says so.

// VerifDrainOne receives ONE queued batch from publishCh without blocking and publishes it exactly as the
// Run loop would (publishEvent). It returns false if nothing is queued.
func (e *EventPublisher) VerifDrainOne() bool {
	select {
	case update := <-e.publishCh:
		e.publishEvent(update)
		return true
	default:
		return false
	}
}

// VerifQueued returns the number of committed batches that have been handed to Publish but not yet
// published to the topic buffers.
func (e *EventPublisher) VerifQueued() int {
	return len(e.publishCh)
}
