package fsm

// C02 query panel (own copy; see DESIGN §3): a fixed list of read queries over the harness' name universe. Each
// returns the index the query reports and its result. Results are rendered canonically; lists are compared as
// multisets (several of these APIs build their lists from maps and define no order).

import (
	"encoding/json"
	"fmt"
	"reflect"
	"time"

	"github.com/hashicorp/consul/acl"
	"github.com/hashicorp/consul/agent/consul/state"
	"github.com/hashicorp/consul/agent/structs"
	"github.com/hashicorp/consul/api"
	vs "github.com/hashicorp/consul/internal/verifstate"
)

type verifQuery struct {
	name string // query family (part of finding keys)
	arg  string
	run  func(s *state.Store) (uint64, interface{}, error)
}

type verifAnswer struct {
	name, arg string
	index     uint64
	result    interface{} // generic JSON value with sorted lists
	err       string
}

var (
	verifPanelServices = []string{"web", "api", "db", "web-proxy", "api-proxy", "db-proxy", "ingress-gw", "term-gw", "mesh-gw", "consul"}
	verifPanelPeers    = []string{"", "peerA"}
)

func verifPanel() []verifQuery {
	var qs []verifQuery
	add := func(name, arg string, run func(s *state.Store) (uint64, interface{}, error)) {
		qs = append(qs, verifQuery{name, arg, run})
	}
	wild := structs.WildcardEnterpriseMetaInDefaultPartition()
	defEM := *structs.DefaultEnterpriseMetaInDefaultPartition()
	for _, k := range vs.Keys {
		k := k
		add("KVSGet", k, func(s *state.Store) (uint64, interface{}, error) { return verifWrap3(s.KVSGet(nil, k, nil)) })
	}
	for _, p := range vs.Prefixes {
		p := p
		add("KVSList", p, func(s *state.Store) (uint64, interface{}, error) { return verifWrap3(s.KVSList(nil, p, nil)) })
	}
	add("SessionList", "", func(s *state.Store) (uint64, interface{}, error) { return verifWrap3(s.SessionList(nil, nil)) })
	for _, id := range vs.SessionPool(8) {
		id := id
		add("SessionGet", id, func(s *state.Store) (uint64, interface{}, error) { return verifWrap3(s.SessionGet(nil, id, nil)) })
	}
	add("PreparedQueryList", "", func(s *state.Store) (uint64, interface{}, error) { return verifWrap3(s.PreparedQueryList(nil)) })
	add("Coordinates", "", func(s *state.Store) (uint64, interface{}, error) { return verifWrap3(s.Coordinates(nil, nil)) })
	for _, peer := range verifPanelPeers {
		peer := peer
		add("Nodes", peer, func(s *state.Store) (uint64, interface{}, error) { return verifWrap3(s.Nodes(nil, nil, peer)) })
		add("Services", peer, func(s *state.Store) (uint64, interface{}, error) { return verifWrap3(s.Services(nil, nil, peer, false)) })
		add("ServiceList", peer, func(s *state.Store) (uint64, interface{}, error) { return verifWrap3(s.ServiceList(nil, nil, peer)) })
		add("NodeDump", peer, func(s *state.Store) (uint64, interface{}, error) { return verifWrap3(s.NodeDump(nil, nil, peer)) })
		add("ServiceDump", peer, func(s *state.Store) (uint64, interface{}, error) { return verifWrap3(s.ServiceDump(nil, "", false, nil, peer)) })
		for _, st := range []string{api.HealthAny, api.HealthPassing, api.HealthCritical} {
			st := st
			add("ChecksInState", peer+"/"+st, func(s *state.Store) (uint64, interface{}, error) { return verifWrap3(s.ChecksInState(nil, st, nil, peer)) })
		}
		for _, n := range vs.Nodes {
			n := n
			add("NodeServices", peer+"/"+n, func(s *state.Store) (uint64, interface{}, error) { return verifWrap3(s.NodeServices(nil, n, nil, peer)) })
			add("NodeChecks", peer+"/"+n, func(s *state.Store) (uint64, interface{}, error) { return verifWrap3(s.NodeChecks(nil, n, nil, peer)) })
		}
		for _, svc := range verifPanelServices {
			svc := svc
			add("ServiceNodes", peer+"/"+svc, func(s *state.Store) (uint64, interface{}, error) { return verifWrap3(s.ServiceNodes(nil, svc, nil, peer)) })
			add("CheckServiceNodes", peer+"/"+svc, func(s *state.Store) (uint64, interface{}, error) { return verifWrap3(s.CheckServiceNodes(nil, svc, nil, peer)) })
			add("CheckConnectServiceNodes", peer+"/"+svc, func(s *state.Store) (uint64, interface{}, error) {
				return verifWrap3(s.CheckConnectServiceNodes(nil, svc, nil, peer))
			})
			add("ServiceChecks", peer+"/"+svc, func(s *state.Store) (uint64, interface{}, error) { return verifWrap3(s.ServiceChecks(nil, svc, nil, peer)) })
		}
	}
	for _, n := range vs.Nodes {
		n := n
		add("NodeSessions", n, func(s *state.Store) (uint64, interface{}, error) { return verifWrap3(s.NodeSessions(nil, n, nil)) })
		add("Coordinate", n, func(s *state.Store) (uint64, interface{}, error) { return verifWrap3(s.Coordinate(nil, n, nil)) })
	}
	for _, svc := range verifPanelServices {
		svc := svc
		add("ConnectServiceNodes", svc, func(s *state.Store) (uint64, interface{}, error) { return verifWrap3(s.ConnectServiceNodes(nil, svc, nil, "")) })
		add("CheckIngressServiceNodes", svc, func(s *state.Store) (uint64, interface{}, error) { return verifWrap3(s.CheckIngressServiceNodes(nil, svc, nil)) })
		add("ServiceGateways", svc, func(s *state.Store) (uint64, interface{}, error) {
			return verifWrap3(s.ServiceGateways(nil, svc, structs.ServiceKindTerminatingGateway, defEM))
		})
		for _, kind := range []structs.ServiceKind{structs.ServiceKindTypical, structs.ServiceKindConnectProxy} {
			kind := kind
			add("ServiceTopology", svc+"/"+string(kind), func(s *state.Store) (uint64, interface{}, error) {
				return verifWrap3(s.ServiceTopology(nil, "dc1", svc, kind, true, nil))
			})
		}
		for _, peer := range verifPanelPeers {
			peer := peer
			add("VirtualIPForService", peer+"/"+svc, func(s *state.Store) (uint64, interface{}, error) {
				ip, err := s.VirtualIPForService(structs.PeeredServiceName{Peer: peer, ServiceName: structs.NewServiceName(svc, nil)})
				return 0, ip, err
			})
		}
		add("ServiceManualVIPs", svc, func(s *state.Store) (uint64, interface{}, error) {
			v, err := s.ServiceManualVIPs(structs.PeeredServiceName{ServiceName: structs.NewServiceName(svc, nil)})
			return 0, v, err
		})
		add("IntentionMatch", "dst/"+svc, func(s *state.Store) (uint64, interface{}, error) {
			return verifWrap3(s.IntentionMatch(nil, &structs.IntentionQueryMatch{Type: structs.IntentionMatchDestination, Entries: []structs.IntentionMatchEntry{{Namespace: "default", Name: svc}}}))
		})
	}
	for _, gw := range []string{"ingress-gw", "term-gw", "mesh-gw", "web"} {
		gw := gw
		add("GatewayServices", gw, func(s *state.Store) (uint64, interface{}, error) { return verifWrap3(s.GatewayServices(nil, gw, nil)) })
	}
	add("DumpGatewayServices", "", func(s *state.Store) (uint64, interface{}, error) { return verifWrap3(s.DumpGatewayServices(nil)) })
	// ServiceNamesOfKind has no caller outside the state store (kind-service-names is a derived table judged through
	// ServiceTopology / the intention queries): not part of the panel.
	add("VirtualIPsForAllImportedServices", "", func(s *state.Store) (uint64, interface{}, error) { return verifWrap3(s.VirtualIPsForAllImportedServices(nil, defEM)) })
	add("ConfigEntries", "", func(s *state.Store) (uint64, interface{}, error) { return verifWrap3(s.ConfigEntries(nil, wild)) })
	for _, kind := range []string{structs.ServiceDefaults, structs.ProxyDefaults, structs.ServiceResolver, structs.IngressGateway, structs.TerminatingGateway, structs.ServiceIntentions} {
		kind := kind
		add("ConfigEntriesByKind", kind, func(s *state.Store) (uint64, interface{}, error) { return verifWrap3(s.ConfigEntriesByKind(nil, kind, wild)) })
	}
	add("Intentions", "", func(s *state.Store) (uint64, interface{}, error) {
		idx, ixns, fromCE, err := s.Intentions(nil, wild)
		return idx, map[string]interface{}{"Intentions": ixns, "FromConfigEntries": fromCE}, err
	})
	add("LegacyIntentions", "", func(s *state.Store) (uint64, interface{}, error) { return verifWrap3(s.LegacyIntentions(nil, wild)) })
	add("CARoots", "", func(s *state.Store) (uint64, interface{}, error) { return verifWrap3(s.CARoots(nil)) })
	add("CAConfig", "", func(s *state.Store) (uint64, interface{}, error) { return verifWrap3(s.CAConfig(nil)) })
	for _, id := range []string{"prov-1", "prov-2"} {
		id := id
		add("CAProviderState", id, func(s *state.Store) (uint64, interface{}, error) { return verifWrap3(s.CAProviderState(id)) })
	}
	add("PeeringList", "", func(s *state.Store) (uint64, interface{}, error) { return verifWrap3(s.PeeringList(nil, defEM)) })
	add("PeeringTrustBundleList", "", func(s *state.Store) (uint64, interface{}, error) { return verifWrap3(s.PeeringTrustBundleList(nil, defEM)) })
	add("PeeringListDeleted", "", func(s *state.Store) (uint64, interface{}, error) { return verifWrap3(s.PeeringListDeleted(nil)) })
	add("PeeringSecrets", "", func(s *state.Store) (uint64, interface{}, error) {
		_, ps, err := s.PeeringList(nil, defEM)
		var out []interface{}
		for _, p := range ps {
			sec, _ := s.PeeringSecretsRead(nil, p.ID)
			out = append(out, sec)
		}
		return 0, out, err
	})
	add("ExportedServicesForAllPeersByName", "", func(s *state.Store) (uint64, interface{}, error) {
		return verifWrap3(s.ExportedServicesForAllPeersByName(nil, "dc1", defEM))
	})
	add("ACLTokenList", "", func(s *state.Store) (uint64, interface{}, error) {
		return verifWrap3(s.ACLTokenList(nil, true, true, "", "", "", nil, nil))
	})
	for _, local := range []bool{false, true} {
		local := local
		add("ACLTokenListExpired", fmt.Sprint("local=", local), func(s *state.Store) (uint64, interface{}, error) {
			toks, _, err := s.ACLTokenListExpired(local, verifFarFuture, 1000)
			return 0, toks, err
		})
		add("ACLTokenMinExpirationTime", fmt.Sprint("local=", local), func(s *state.Store) (uint64, interface{}, error) {
			tm, err := s.ACLTokenMinExpirationTime(local)
			return 0, tm, err
		})
	}
	add("ACLPolicyList", "", func(s *state.Store) (uint64, interface{}, error) { return verifWrap3(s.ACLPolicyList(nil, nil)) })
	add("ACLRoleList", "", func(s *state.Store) (uint64, interface{}, error) { return verifWrap3(s.ACLRoleList(nil, "", nil)) })
	add("ACLBindingRuleList", "", func(s *state.Store) (uint64, interface{}, error) { return verifWrap3(s.ACLBindingRuleList(nil, "", nil)) })
	add("ACLAuthMethodList", "", func(s *state.Store) (uint64, interface{}, error) { return verifWrap3(s.ACLAuthMethodList(nil, nil)) })
	add("CanBootstrapACLToken", "", func(s *state.Store) (uint64, interface{}, error) {
		ok, idx, err := s.CanBootstrapACLToken()
		return idx, ok, err
	})
	add("FederationStateList", "", func(s *state.Store) (uint64, interface{}, error) { return verifWrap3(s.FederationStateList(nil)) })
	add("AutopilotConfig", "", func(s *state.Store) (uint64, interface{}, error) { return verifWrap3(s.AutopilotConfig()) })
	add("SystemMetadataList", "", func(s *state.Store) (uint64, interface{}, error) { return verifWrap3(s.SystemMetadataList(nil)) })
	add("FeatureGatePolicyAndStatus", "", func(s *state.Store) (uint64, interface{}, error) {
		idx, p, st, err := s.FeatureGatePolicyAndStatus(nil)
		return idx, []interface{}{p, st}, err
	})
	// The node/peering/KV/config-entry usage getters feed the usage-metrics reporter only (no watch set, no client
	// API): their counts are compared, their index is not. ServiceUsage backs the blocking /v1/operator/usage query.
	noIdx := func(_ uint64, v interface{}, err error) (uint64, interface{}, error) { return 0, v, err }
	add("NodeUsage", "", func(s *state.Store) (uint64, interface{}, error) { return noIdx(verifWrap3(s.NodeUsage())) })
	add("PeeringUsage", "", func(s *state.Store) (uint64, interface{}, error) { return noIdx(verifWrap3(s.PeeringUsage())) })
	add("KVUsage", "", func(s *state.Store) (uint64, interface{}, error) { return noIdx(verifWrap3(s.KVUsage())) })
	add("ConfigEntryUsage", "", func(s *state.Store) (uint64, interface{}, error) { return noIdx(verifWrap3(s.ConfigEntryUsage())) })
	add("ServiceUsage", "", func(s *state.Store) (uint64, interface{}, error) { return verifWrap3(s.ServiceUsage(nil, false)) })
	return qs
}

func verifWrap3[T any](idx uint64, v T, err error) (uint64, interface{}, error) { return idx, v, err }

var verifFarFuture = time.Date(2200, 1, 1, 0, 0, 0, 0, time.UTC)

var verifPanelQueries = verifPanel()

// verifAsk runs the whole panel.
func verifAsk(s *state.Store) []verifAnswer {
	out := make([]verifAnswer, 0, len(verifPanelQueries))
	for _, q := range verifPanelQueries {
		idx, res, err := q.run(s)
		a := verifAnswer{name: q.name, arg: q.arg, index: idx}
		if err != nil {
			// presence only: some queries (ServiceTopology) walk a map and report whichever element failed first
			a.err = "error"
		}
		var g interface{}
		if json.Unmarshal([]byte(vs.CanonJSON(res)), &g) == nil {
			a.result = verifSortLists(g)
		} else {
			a.result = fmt.Sprintf("%v", res)
		}
		out = append(out, a)
	}
	return out
}

// verifPanelDiff compares two runs of the panel; for each difference it returns the query family, the argument and
// the differing field ("index", "error" or a result path).
type verifPanelDelta struct {
	name, arg, field string
	a, b             string
}

func verifPanelDiff(x, y []verifAnswer) []verifPanelDelta {
	var out []verifPanelDelta
	for i := range x {
		a, b := x[i], y[i]
		if a.err != b.err {
			out = append(out, verifPanelDelta{a.name, a.arg, "error", a.err, b.err})
			continue
		}
		if !reflect.DeepEqual(a.result, b.result) {
			ja, _ := json.Marshal(a.result)
			jb, _ := json.Marshal(b.result)
			out = append(out, verifPanelDelta{a.name, a.arg, verifDiffPath("", a.result, b.result), string(ja), string(jb)})
		}
		if a.index != b.index {
			out = append(out, verifPanelDelta{a.name, a.arg, "index", fmt.Sprint(a.index), fmt.Sprint(b.index)})
		}
	}
	return out
}

var _ = acl.EnterpriseMeta{}
