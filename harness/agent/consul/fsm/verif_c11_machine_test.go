package fsm

// C11 — Streaming subscribers materialize exactly the server's state.
//
// The harness OWNS THE SCHEDULE: a real stream.EventPublisher whose Run loop is never started is wired into a real
// FSM (NewFromDeps registers the real snapshot handlers) and into every state store the FSM creates. A commit
// computes its events and QUEUES them (publishCh); only the harness action `drain` (hook VerifDrainOne) hands one
// queued batch to the topic buffers. Subscriptions, consumption, ACL changes, snapshot/restore and the passage of
// (fake, testing/synctest) time are further actions of the same single-threaded schedule.
//
// The reference subscriber is the REAL client code path: every stream.Event returned by Subscription.Next is
// converted with Payload.ToSubscriptionEvent and fed to the real view (health.HealthView, configentry views) by a
// handler state machine that mirrors agent/submatview/handler.go (snapshot accumulated until end-of-snapshot, then
// one Update per event, NewSnapshotToFollow resets), tracking the delivered index as materializer.updateView does.
//
// Oracle (see verifC11World.onSnapshot / onEvent / quiescent / consume):
//   O1 snapshot delivered with index q: view == direct query evaluated on the store as it was when the snapshot was
//      built (now, or — snapshot cache — at an earlier subscription to the same topic/subject within the TTL), and q
//      is the index that query reported (0 is published as 1, as appendAndSplice documents);
//   O2 event delivered with raft index i: view == the direct query as recorded right after the commit with raft
//      index i, and i >= the last delivered index (equal indexes are accepted: snapshot@i followed by the batch i);
//   O3 quiescence (publish queue empty and Next has nothing more for s): view == direct query now — no committed
//      change was skipped;
//   O4 after a published ACL change touching s's token, or a restore, the next Next of s returns ErrACLChanged /
//      ErrSubForceClosed and never a further event;
//   O5 (mechanism, memdb.go) at the time a batch is handed to Publish the store already contains its commit.

import (
	"bytes"
	"context"
	"encoding/json"
	"errors"
	"fmt"
	"os"
	"sort"
	"strings"
	"time"

	"github.com/hashicorp/go-hclog"

	"github.com/hashicorp/consul/acl"
	"github.com/hashicorp/consul/agent/consul/state"
	"github.com/hashicorp/consul/agent/consul/stream"
	"github.com/hashicorp/consul/agent/structs"
	"github.com/hashicorp/consul/agent/submatview"
	raftstorage "github.com/hashicorp/consul/internal/storage/raft"
	"github.com/hashicorp/consul/internal/verifkit"
	vs "github.com/hashicorp/consul/internal/verifstate"
	"github.com/hashicorp/consul/proto/private/pbsubscribe"
)

const (
	verifC11TTL       = 10 * time.Second // what agent/setup.go passes to NewEventPublisher
	verifC11QueueHigh = 40               // publishCh holds 64 batches: never let a commit block on it
	verifC11Poll      = time.Millisecond // fake time: a Next that is still blocked after this has nothing to deliver

	verifC11KeyStale       = "C11/stale-batch-after-snapshot"
	verifC11KeyPreRestoreQ = "C11/pre-restore-batch-published-after-restore"
	verifC11KeyPreRestoreB = "C11/pre-restore-event-replayed-from-topic-buffer"
	verifC11KeyResumeRest  = "C11/resume-across-restore-keeps-pre-restore-view"
	verifC11KeyKinds       = "C11/service-list-topic-mixes-service-kinds"
	verifC11KeyNativeOff   = "C11/connect-topic-keeps-instance-that-stopped-being-connect-native"
	verifC11KeyGwGone      = "C11/connect-topic-keeps-gateway-instance-deleted-together-with-its-link"
)

// verifC11Act is one action of the schedule (JSON = replay file content).
type verifC11Act struct {
	A     string     `json:"a"` // commit | drain | sub | resume | consume | detach | bounce | acl | snap | restore | sleep
	Op    *vs.Op     `json:"op,omitempty"`
	Sub   int        `json:"sub,omitempty"`
	Q     *verifC11Q `json:"q,omitempty"`
	Token string     `json:"token,omitempty"`
	Authz string     `json:"authz,omitempty"` // sub: what the subscriber's token may read (verifC11Authz); "" = everything
	ACL   string     `json:"acl,omitempty"`   // token:TA | token-del:TA | policy:P1 | policy:P2 | role:R1
	Idx   uint64     `json:"idx,omitempty"`
	N     int        `json:"n,omitempty"` // drain: batches; consume: deliveries; sleep: seconds; restore: 1 = publish every queued batch first
}

func (a verifC11Act) String() string {
	switch a.A {
	case "commit":
		return fmt.Sprintf("commit@%d %s", a.Op.Idx, a.Op.Desc)
	case "sub":
		return fmt.Sprintf("sub#%d %s token=%s authz=%s", a.Sub, a.Q.id(), a.Token, a.Authz)
	case "resume", "detach", "bounce":
		return fmt.Sprintf("%s#%d", a.A, a.Sub)
	case "consume":
		return fmt.Sprintf("consume#%d x%d", a.Sub, a.N)
	case "acl":
		return fmt.Sprintf("acl@%d %s", a.Idx, a.ACL)
	case "drain", "sleep":
		return fmt.Sprintf("%s x%d", a.A, a.N)
	}
	return a.A
}

// ---- the small ACL universe: TA -> policy P1; TB -> role R1 -> policy P2; TC -> nothing

type verifC11Tok struct{ accessor, secret string }

var (
	verifC11Tokens = map[string]verifC11Tok{
		"TA": {"aaaaaaaa-0000-4000-8000-00000000000a", "5ec0000a-0000-4000-8000-00000000000a"},
		"TB": {"aaaaaaaa-0000-4000-8000-00000000000b", "5ec0000b-0000-4000-8000-00000000000b"},
		"TC": {"aaaaaaaa-0000-4000-8000-00000000000c", "5ec0000c-0000-4000-8000-00000000000c"},
	}
	verifC11Policies = map[string]string{"P1": "b0000000-0000-4000-8000-000000000001", "P2": "b0000000-0000-4000-8000-000000000002"}
	verifC11RoleR1   = "c0000000-0000-4000-8000-000000000001"
)

func verifC11Secret(name string) string {
	if t, ok := verifC11Tokens[name]; ok {
		return t.secret
	}
	return "" // anonymous
}

// ---- what a subscriber may read. The real consumers (grpc-internal/services/subscribe, submatview's local
// materializer) resolve the token to an authorizer and drop every event whose Payload.HasReadPermission(authz) is
// false before handing it on; the direct read endpoints filter their result entry by entry with the same authorizer
// (CheckServiceNode.CanRead = node:read AND service:read; config entries = service:read / intention:read of the
// entry's name; service list = service:read of the name). Authorizers are built from real policy sources.

var verifC11AuthzRules = map[string]string{
	"svc:web+api":   `node_prefix "" { policy = "read" } service "web" { policy = "read" } service "api" { policy = "read" } service "web-proxy" { policy = "read" }`,
	"svc:db+gw":     `node_prefix "" { policy = "read" } service "db" { policy = "read" } service "term-gw" { policy = "read" } service "ingress-gw" { policy = "read" } service "sidecar" { policy = "read" }`,
	"node:n1":       `service_prefix "" { policy = "read" } node "n1" { policy = "read" }`,
	"node:n2+n3":    `service_prefix "" { policy = "read" } node "n2" { policy = "read" } node "n3" { policy = "read" }`,
	"web@n1+n3":     `service "web" { policy = "read" } service "api" { policy = "write" } node "n1" { policy = "read" } node "n3" { policy = "read" }`,
	"svcprefix:web": `node_prefix "n" { policy = "read" } service_prefix "web" { policy = "read" }`,
}

var verifC11AuthzNames = []string{"svc:web+api", "svc:db+gw", "node:n1", "node:n2+n3", "web@n1+n3", "svcprefix:web"}

var verifC11AuthzCache = map[string]acl.Authorizer{}

func verifC11Authz(name string) acl.Authorizer {
	switch name {
	case "", "all":
		return acl.ManageAll()
	case "none":
		return acl.DenyAll()
	}
	if a, ok := verifC11AuthzCache[name]; ok {
		return a
	}
	rules, ok := verifC11AuthzRules[name]
	if !ok {
		panic("verif C11: unknown authorizer " + name)
	}
	pol, err := acl.NewPolicyFromSource(rules, nil, nil)
	if err != nil {
		panic(err)
	}
	a, err := acl.NewPolicyAuthorizerWithDefaults(acl.DenyAll(), []*acl.Policy{pol}, nil)
	if err != nil {
		panic(err)
	}
	verifC11AuthzCache[name] = a
	return a
}

// verifC11Visible filters canonical result lines of q entry by entry for the authorizer, as the RPC endpoints do.
func verifC11Visible(q verifC11Q, authz acl.Authorizer, items []string) []string {
	var out []string
	for _, line := range items {
		ok := false
		switch {
		case q.isHealth():
			_, js, _ := strings.Cut(line, " => ")
			var v struct {
				Node    struct{ Node string }
				Service struct{ Service, PeerName string }
			}
			if err := json.Unmarshal([]byte(js), &v); err != nil {
				panic(err)
			}
			// CheckServiceNode.CanRead: the context carries the peer the instance was imported from
			ctx := &acl.AuthorizerContext{Peer: v.Service.PeerName}
			ok = authz.NodeRead(v.Node.Node, ctx) == acl.Allow && authz.ServiceRead(v.Service.Service, ctx) == acl.Allow
		case q.isServiceList():
			ok = authz.ServiceRead(line, nil) == acl.Allow
		case q.Topic == "ServiceIntentions":
			kn, _, _ := strings.Cut(line, " => ")
			_, name, _ := strings.Cut(kn, "/")
			ok = authz.IntentionRead(name, nil) == acl.Allow
		case q.Topic == "MeshConfig":
			ok = true // "reading a mesh config entry requires no specific privileges"
		case q.Topic == "ExportedServices":
			ok = authz.MeshRead(nil) == acl.Allow
		case q.Topic == "JWTProvider":
			// mesh:read, or service:write on any service (sidecar proxies read the providers with their service identity)
			ok = authz.MeshRead(nil) == acl.Allow || authz.ServiceWriteAny(nil) == acl.Allow
		default:
			kn, _, _ := strings.Cut(line, " => ")
			_, name, _ := strings.Cut(kn, "/")
			ok = authz.ServiceRead(name, nil) == acl.Allow
		}
		if ok {
			out = append(out, line)
		}
	}
	return out
}

// ---- versions of the store, the model of the publish queue, subscribers

type verifC11Version struct {
	seq   int
	idx   uint64 // raft index of the commit that produced it; 0 for the initial and for restored versions
	epoch int    // number of restores before it
	res   map[string]verifC11QRes
	multi bool // the commit queued more than one batch: its events describe intermediate states
}

type verifC11Batch struct {
	idx     uint64
	epoch   int
	tokens  []string // secret IDs an ACL batch must close
	changed []string // query ids whose direct result changed at this commit (aims the generator, not the oracle)
}

type verifC11Cand struct {
	ver    *verifC11Version
	at     time.Time
	queued []uint64 // raft indexes of the batches that were committed but unpublished when the snapshot was built
}

type verifC11Sub struct {
	id        int
	q         verifC11Q
	token     string
	authzName string
	authz     acl.Authorizer
	sub       *stream.Subscription
	view      submatview.View
	open      bool // false = detached (the client keeps view and index, as RPCMaterializer does on a transport error)

	// handler state (mirror of submatview/handler.go)
	awaitFirst bool // resumed: the first event may be NewSnapshotToFollow
	inSnapshot bool
	pending    []*pbsubscribe.Event

	lastIdx   uint64
	hasView   bool
	baseEpoch int // epoch of the snapshot the view was built from

	this        verifC11Cand   // the store as it was at Subscribe
	hinted      bool           // the cache model predicts that the snapshot comes from the snapshot cache
	cands       []verifC11Cand // store versions the next snapshot may legitimately show
	matched     []verifC11Cand // those it did show
	oldEpochKey string         // set once an event of a pre-restore commit (one the restored snapshot contains) was applied to a view built from the restored store
	served      []verifC11Cand // every snapshot that may have been served to it (for naming the root cause of later anomalies)
	subEpoch    int
	pendingSub  int
	resumed     bool
	mustClose   string // "acl" | "restore": the next Next must return the close error
	after       int    // deliveries after the snapshot / after the resume
	eligible    bool   // meets the first half of the non-triviality rule
	excused     bool   // a tolerated known finding was counted for it (ServiceList kinds): compared modulo taint
}

type verifC11World struct {
	f   verifkit.F
	c   *verifkit.Case
	pub *stream.EventPublisher
	fsm *FSM
	gen *vs.World // generator bookkeeping (raft index, store handle for aiming)

	universe        []verifC11Q
	epoch           int
	seq             int
	cur             *verifC11Version
	all             []*verifC11Version
	byIdx           map[uint64]*verifC11Version
	queue           []verifC11Batch
	atRestoreQueued map[uint64]bool // batches that were still queued when a restore happened

	subs    map[int]*verifC11Sub
	order   []int
	nextSub int
	refs    map[string]int            // live (not yet unsubscribed) subscriptions per query id
	hist    map[string][]verifC11Cand // snapshots that may sit in the snapshot cache, per query id
	hint    map[string]*verifC11Cand  // model of the cache entry (tie-breaking and labels only)

	snap       []byte
	snapVer    *verifC11Version         // the store version the held snapshot was taken of
	restoredOf map[int]*verifC11Version // epoch -> the version whose state the restore brought back
	aclSeq     int
	tokLive    map[string]bool
	taint      map[string]bool // service names that ever had a non-typical kind-service-names row
	pubErr     string
	batches    map[*stream.Event]*verifC11Shared // shared buffer items seen so far, by the address of their first event
	deliveries int
	closedSubs int
}

// verifC11Pub is the state.EventPublisher the stores get: it forwards to the real publisher and checks O5.
type verifC11Pub struct {
	w *verifC11World
}

func (p *verifC11Pub) Publish(events []stream.Event) {
	w := p.w
	var max uint64
	for _, e := range events {
		if e.Index > max {
			max = e.Index
		}
	}
	if max > 0 && w.fsm != nil {
		snap := w.fsm.State().Snapshot()
		last := snap.LastIndex()
		snap.Close()
		if last < max && w.pubErr == "" {
			w.pubErr = fmt.Sprintf("a batch with event index %d was handed to Publish while the store's last index was still %d", max, last)
		}
	}
	w.pub.Publish(events)
}

func (p *verifC11Pub) RegisterHandler(t stream.Topic, fn stream.SnapshotFunc, wild bool) error {
	return p.w.pub.RegisterHandler(t, fn, wild)
}

func (p *verifC11Pub) Subscribe(req *stream.SubscribeRequest) (*stream.Subscription, error) {
	return p.w.pub.Subscribe(req)
}

func verifC11NewWorld(f verifkit.F, c *verifkit.Case) *verifC11World {
	vs.StubNet()
	w := &verifC11World{
		f: f, c: c,
		pub:             stream.NewEventPublisher(verifC11TTL),
		universe:        verifC11Universe(),
		byIdx:           map[uint64]*verifC11Version{},
		atRestoreQueued: map[uint64]bool{},
		subs:            map[int]*verifC11Sub{},
		refs:            map[string]int{},
		hist:            map[string][]verifC11Cand{},
		hint:            map[string]*verifC11Cand{},
		tokLive:         map[string]bool{},
		taint:           map[string]bool{},
		batches:         map[*stream.Event]*verifC11Shared{},
		restoredOf:      map[int]*verifC11Version{},
		nextSub:         1,
	}
	logger := hclog.NewNullLogger()
	backend, err := raftstorage.NewBackend(nil, logger) // Snapshot/Restore need a real backend; its Run loop is not needed
	if err != nil {
		f.Fatalf("verif C11: storage backend: %v", err)
	}
	wrap := &verifC11Pub{w: w}
	w.fsm = NewFromDeps(Deps{
		Logger:         logger,
		NewStateStore:  func() *state.Store { return state.NewStateStoreWithEventPublisher(nil, wrap) },
		Publisher:      w.pub,
		StorageBackend: backend,
	})
	w.gen = vs.NewWorld(w.fsm.State())

	// fixed ACL setup (policies, role, tokens), published before anything subscribes
	st := w.fsm.State()
	must := func(err error) {
		if err != nil {
			f.Fatalf("verif C11: ACL setup: %v", err)
		}
	}
	must(st.ACLPolicySet(2, &structs.ACLPolicy{ID: verifC11Policies["P1"], Name: "p1", Rules: `service_prefix "" { policy = "read" }`}))
	must(st.ACLPolicySet(3, &structs.ACLPolicy{ID: verifC11Policies["P2"], Name: "p2", Rules: `node_prefix "" { policy = "read" }`}))
	must(st.ACLRoleSet(4, &structs.ACLRole{ID: verifC11RoleR1, Name: "r1", Policies: []structs.ACLRolePolicyLink{{ID: verifC11Policies["P2"]}}}))
	for i, name := range []string{"TA", "TB", "TC"} {
		must(st.ACLTokenSet(uint64(5+i), w.token(name, "setup")))
		w.tokLive[name] = true
	}
	for w.pub.VerifDrainOne() {
	}
	w.record(0)
	return w
}

func (w *verifC11World) token(name, desc string) *structs.ACLToken {
	t := verifC11Tokens[name]
	tok := &structs.ACLToken{AccessorID: t.accessor, SecretID: t.secret, Description: desc}
	switch name {
	case "TA":
		tok.Policies = []structs.ACLTokenPolicyLink{{ID: verifC11Policies["P1"]}}
	case "TB":
		tok.Roles = []structs.ACLTokenRoleLink{{ID: verifC11RoleR1}}
	}
	tok.SetHash(true)
	return tok
}

// close releases everything the case holds (subscriptions; the publisher has no goroutine).
func (w *verifC11World) close() {
	for _, id := range w.order {
		if s := w.subs[id]; s != nil && s.sub != nil {
			s.sub.Unsubscribe()
		}
	}
}

// record evaluates every query of the universe on the current store and makes the result the current version.
func (w *verifC11World) record(idx uint64) []string {
	st := w.fsm.State()
	v := &verifC11Version{seq: w.seq, idx: idx, epoch: w.epoch, res: make(map[string]verifC11QRes, len(w.universe))}
	w.seq++
	var changed []string
	for _, q := range w.universe {
		r, err := q.direct(st)
		if err != nil {
			w.f.Fatalf("verif C11: direct query %s: %v", q.id(), err)
		}
		v.res[q.id()] = r
		if w.cur != nil && w.cur.res[q.id()].canon() != r.canon() {
			changed = append(changed, q.id())
		}
	}
	for _, k := range []structs.ServiceKind{structs.ServiceKindConnectProxy, structs.ServiceKindConnectEnabled, structs.ServiceKindTerminatingGateway,
		structs.ServiceKindIngressGateway, structs.ServiceKindMeshGateway, structs.ServiceKindAPIGateway, structs.ServiceKindDestination} {
		if _, names, err := st.ServiceNamesOfKind(nil, k); err == nil {
			for _, n := range names {
				w.taint[n.Service.Name] = true
			}
		}
	}
	w.cur = v
	w.all = append(w.all, v)
	if idx > 0 {
		w.byIdx[idx] = v
	}
	return changed
}

func (w *verifC11World) queuedIdx() []uint64 {
	out := make([]uint64, 0, len(w.queue))
	for _, b := range w.queue {
		out = append(out, b.idx)
	}
	return out
}

// afterWrite reconciles the model of the publish queue with the real one after a store write at raft index idx.
func (w *verifC11World) afterWrite(idx uint64, tokens []string, what string) {
	if w.pubErr != "" {
		detail := w.pubErr
		w.pubErr = ""
		w.c.Violation(w.f, "C11/published-before-commit", "%s: %s", what, detail)
	}
	n := w.pub.VerifQueued() - len(w.queue)
	if n < 0 {
		w.f.Fatalf("verif C11: harness bug: publish queue shrank without a drain")
	}
	if n == 0 {
		return // nothing committed (refused write): the store did not change
	}
	changed := w.record(idx)
	w.cur.multi = n > 1
	for i := 0; i < n; i++ {
		w.queue = append(w.queue, verifC11Batch{idx: idx, epoch: w.epoch, tokens: tokens, changed: changed})
	}
}

// ---- actions

func (w *verifC11World) step(a *verifC11Act) {
	if verifC11Trace {
		w.f.Logf("TRACE step %s (queued %d)", a.String(), len(w.queue))
	}
	switch a.A {
	case "commit":
		res := vs.Apply(w.fsm.State(), a.Op)
		_ = res
		w.afterWrite(a.Op.Idx, nil, a.String())
	case "acl":
		w.doACL(a)
	case "drain":
		for i := 0; i < a.N; i++ {
			w.drainOne()
		}
	case "sub":
		w.subscribe(a.Sub, *a.Q, a.Token, a.Authz, nil)
	case "resume":
		if s := w.subs[a.Sub]; s != nil && !s.open {
			w.subscribe(a.Sub, s.q, s.token, s.authzName, s)
		}
	case "consume":
		if s := w.subs[a.Sub]; s != nil && s.open {
			w.consume(s, a.N)
		}
	case "detach":
		if s := w.subs[a.Sub]; s != nil && s.open {
			w.detach(s)
		}
	case "bounce":
		// a client that is up to date loses its connection and reconnects at once with its last index
		if s := w.subs[a.Sub]; s != nil && s.open {
			w.consume(s, 1<<20)
			if s2 := w.subs[a.Sub]; s2 == s && s.open && s.hasView && !s.inSnapshot {
				w.detach(s)
				w.subscribe(a.Sub, s.q, s.token, s.authzName, s)
			}
		}
	case "snap":
		w.takeSnapshot()
	case "restore":
		if a.N == 1 { // the publisher caught up before the restore (the usual case in production)
			for len(w.queue) > 0 {
				w.drainOne()
			}
		}
		w.restore()
	case "sleep":
		time.Sleep(time.Duration(a.N) * time.Second)
	default:
		w.f.Fatalf("verif C11: unknown action %q", a.A)
	}
}

func (w *verifC11World) doACL(a *verifC11Act) {
	st := w.fsm.State()
	kind, target, _ := strings.Cut(a.ACL, ":")
	w.aclSeq++
	desc := fmt.Sprintf("rev-%d", w.aclSeq)
	var (
		tokens []string
		err    error
	)
	add := func(name string) {
		if w.tokLive[name] {
			tokens = append(tokens, verifC11Secret(name))
		}
	}
	switch kind {
	case "token":
		err = st.ACLTokenSet(a.Idx, w.token(target, desc))
		w.tokLive[target] = true
		add(target)
	case "token-del":
		add(target)
		err = st.ACLTokenDeleteByAccessor(a.Idx, verifC11Tokens[target].accessor, nil)
		if w.tokLive[target] {
			w.tokLive[target] = false
		} else {
			err = nil // deleting a missing token is refused or a no-op: nothing to close
		}
	case "policy":
		rules := `service_prefix "" { policy = "read" }`
		if w.aclSeq%2 == 0 {
			rules = `service_prefix "" { policy = "write" }`
		}
		err = st.ACLPolicySet(a.Idx, &structs.ACLPolicy{ID: verifC11Policies[target], Name: strings.ToLower(target), Description: desc, Rules: rules})
		if target == "P1" {
			add("TA")
		} else {
			add("TB")
		}
	case "role":
		err = st.ACLRoleSet(a.Idx, &structs.ACLRole{ID: verifC11RoleR1, Name: "r1", Description: desc, Policies: []structs.ACLRolePolicyLink{{ID: verifC11Policies["P2"]}}})
		add("TB")
	default:
		w.f.Fatalf("verif C11: unknown acl action %q", a.ACL)
	}
	if err != nil {
		w.f.Fatalf("verif C11: acl write %s refused: %v", a.ACL, err)
	}
	w.afterWrite(a.Idx, tokens, a.String())
}

func (w *verifC11World) drainOne() {
	if len(w.queue) == 0 {
		if w.pub.VerifDrainOne() {
			w.f.Fatalf("verif C11: harness bug: a batch was queued that the model does not know")
		}
		return
	}
	if !w.pub.VerifDrainOne() {
		w.f.Fatalf("verif C11: harness bug: model queue has %d batches, real queue is empty", len(w.queue))
	}
	b := w.queue[0]
	w.queue = w.queue[1:]
	for _, secret := range b.tokens {
		for _, id := range w.order {
			if s := w.subs[id]; s != nil && s.open && verifC11Secret(s.token) == secret && s.mustClose == "" {
				s.mustClose = "acl"
			}
		}
	}
}

func (w *verifC11World) subscribe(id int, q verifC11Q, token, authz string, old *verifC11Sub) {
	var index uint64
	s := old
	if s == nil {
		view, err := q.newView()
		if err != nil {
			w.f.Fatalf("verif C11: %v", err)
		}
		s = &verifC11Sub{id: id, q: q, token: token, authzName: authz, authz: verifC11Authz(authz), view: view, inSnapshot: true}
		w.subs[id] = s
		w.order = append(w.order, id)
		if id >= w.nextSub {
			w.nextSub = id + 1
		}
	} else {
		// RPCMaterializer.Run: req := Request(currentIndex()); handler = initialHandler(req.Index)
		index = s.lastIdx
		s.resumed = index > 0
		s.awaitFirst = index > 0
		s.inSnapshot = index == 0
		s.pending = nil
		s.mustClose = ""
		s.after = 0
		s.matched = nil
		s.served = nil
		s.oldEpochKey = ""
	}
	pbreq := q.pbRequest(verifC11Secret(token), index)
	sreq, err := state.PBToStreamSubscribeRequest(pbreq, pbreq.EnterpriseMeta())
	if err != nil {
		w.f.Fatalf("verif C11: subscribe request %s: %v", q.id(), err)
	}
	if got := w.pub.VerifQueued(); got != len(w.queue) {
		w.f.Fatalf("verif C11: harness bug: queue model %d != real %d", len(w.queue), got)
	}
	sub, err := w.pub.Subscribe(sreq)
	if err != nil {
		w.c.Violation(w.f, "C11/subscribe-error", "Subscribe(%s, index=%d): %v", q.id(), index, err)
		delete(w.subs, id)
		return
	}
	s.sub, s.open = sub, true
	s.subEpoch = w.epoch
	s.pendingSub = len(w.queue)
	w.refs[q.id()]++

	// which store versions may a snapshot of this subscription show?
	now := time.Now()
	this := verifC11Cand{ver: w.cur, at: now, queued: w.queuedIdx()}
	s.cands = nil
	s.this = this
	cachedHint := false
	if h := w.hint[q.id()]; h != nil && now.Sub(h.at) < verifC11TTL && h.ver.epoch == w.epoch {
		s.cands = append(s.cands, *h)
		cachedHint = true
	}
	s.hinted = cachedHint
	s.cands = append(s.cands, this)
	for i := len(w.hist[q.id()]) - 1; i >= 0; i-- {
		h := w.hist[q.id()][i]
		if h.ver.epoch == w.epoch && now.Sub(h.at) <= verifC11TTL {
			s.cands = append(s.cands, h)
		}
	}
	w.hist[q.id()] = append(w.hist[q.id()], this)
	if !cachedHint {
		w.hint[q.id()] = &this
	}

	switch {
	case s.pendingSub == 0:
		w.c.Label("pending-at-subscribe=0")
	case s.pendingSub == 1:
		w.c.Label("pending-at-subscribe=1")
	default:
		w.c.Label("pending-at-subscribe=2+")
	}
	w.c.Label("topic=" + q.Topic)
	if q.HF != 0 {
		w.c.Labelf("health-filter=%d", q.HF)
	}
	switch {
	case q.Wild:
		w.c.Label("subject=wildcard")
	case q.Peer != "":
		w.c.Label("subject=peer")
	default:
		w.c.Label("subject=named")
	}
	if !s.resumed {
		w.c.Label("mode=fresh")
	}
	switch s.authzName {
	case "", "all":
		w.c.Label("authz=all")
	case "none":
		w.c.Label("authz=none")
	default:
		w.c.Label("authz=restricted")
	}
	s.eligible = s.pendingSub >= 1
}

// unsubscribe frees the server-side resources of s (refcount of the topic buffer; cached snapshot when it hits 0).
func (w *verifC11World) unsubscribe(s *verifC11Sub) {
	if s.sub == nil {
		return
	}
	s.sub.Unsubscribe()
	s.sub = nil
	s.open = false
	w.refs[s.q.id()]--
	if w.refs[s.q.id()] == 0 {
		delete(w.hint, s.q.id())
		delete(w.hist, s.q.id()) // freeBuf evicts the cached snapshot together with the topic buffer
	}
}

func (w *verifC11World) drop(s *verifC11Sub) {
	w.unsubscribe(s)
	delete(w.subs, s.id)
}

func (w *verifC11World) detach(s *verifC11Sub) {
	w.unsubscribe(s)
	if !s.hasView || s.inSnapshot {
		// currentIndex() is still 0: the client starts over
		s.view.Reset()
		s.lastIdx, s.hasView = 0, false
	}
	w.c.Label("detached")
}

func (w *verifC11World) consume(s *verifC11Sub, n int) {
	for done := 0; done < n; {
		ctx, cancel := context.WithTimeout(context.Background(), verifC11Poll)
		ev, err := s.sub.Next(ctx)
		cancel()
		switch {
		case err == nil:
		case errors.Is(err, context.DeadlineExceeded):
			if s.mustClose != "" {
				if w.c.Violation(w.f, "C11/missing-force-close/reason="+s.mustClose, "sub#%d %s: after %s the subscription is still open and blocks in Next", s.id, s.q.id(), s.mustClose) {
					w.drop(s)
				}
				return
			}
			if s.awaitFirst {
				// a stale resume has its NewSnapshotToFollow ready at once: this one was spliced onto the live buffer
				w.c.Label("mode=resume-in-buffer")
				s.eligible = true
			}
			w.quiescent(s)
			return
		case errors.Is(err, stream.ErrSubForceClosed), errors.Is(err, stream.ErrACLChanged):
			if s.mustClose != "" {
				w.c.Label("closed=" + s.mustClose)
			} else {
				w.c.Label("closed=unrequested") // always allowed: the client simply resubscribes
			}
			w.closedSubs++
			w.drop(s) // client resets its state and resubscribes (a later `sub` action)
			return
		default:
			if w.c.Violation(w.f, "C11/unexpected-next-error", "sub#%d %s: Next: %v", s.id, s.q.id(), err) {
				w.drop(s)
			}
			return
		}
		if s.mustClose != "" {
			if w.c.Violation(w.f, "C11/missing-force-close/reason="+s.mustClose, "sub#%d %s: Next returned an event (index %d) after %s; it must return the close error", s.id, s.q.id(), ev.Index, s.mustClose) {
				w.drop(s)
			}
			return
		}
		if !w.sharedBatchIntact(s, ev) {
			return
		}
		// filterByAuth, exactly as Server.Subscribe and LocalMaterializer.subscribeOnce do it
		if !ev.Payload.HasReadPermission(s.authz) {
			w.c.Label("event-denied")
			continue
		}
		delivered, ok := w.deliver(s, ev)
		if !ok {
			return // s was dropped behind a tolerated finding
		}
		if delivered {
			done++
		}
	}
}

var (
	verifC11Trace          = os.Getenv("VERIF_C11_TRACE") != ""
	verifC11SubscriberSkip = os.Getenv("VERIF_C11_SUBSCRIBER_SKIP") != ""
)

func verifC11DescribeEvent(e *pbsubscribe.Event) string {
	var parts []string
	for _, x := range verifC11EventsFromEvent(e) {
		switch {
		case x.GetEndOfSnapshot():
			parts = append(parts, "end-of-snapshot")
		case x.GetNewSnapshotToFollow():
			parts = append(parts, "new-snapshot-to-follow")
		case x.GetServiceHealth() != nil:
			sh := x.GetServiceHealth()
			st := ""
			for _, c := range sh.CheckServiceNode.GetChecks() {
				st += " " + c.CheckID + "=" + c.Status
			}
			parts = append(parts, fmt.Sprintf("%s %s [%s]", sh.Op, sh.CheckServiceNode.UniqueID(), strings.TrimSpace(st)))
		case x.GetService() != nil:
			parts = append(parts, fmt.Sprintf("%s %s", x.GetService().Op, x.GetService().Name))
		case x.GetConfigEntry() != nil:
			parts = append(parts, fmt.Sprintf("%s %s/%s", x.GetConfigEntry().Op, x.GetConfigEntry().ConfigEntry.GetKind(), x.GetConfigEntry().ConfigEntry.GetName()))
		default:
			parts = append(parts, fmt.Sprintf("%T", x.GetPayload()))
		}
	}
	return fmt.Sprintf("@%d {%s}", e.Index, strings.Join(parts, "; "))
}

// verifC11Shared remembers what a multi-event buffer item looked like when it was first returned by Next and who
// read it. Subscription.Next wraps bufferItem.Events of the SHARED topic/snapshot buffer in a PayloadEvents without
// copying; event.go documents that subscribers must not mutate it, and HasReadPermission must filter into a copy.
type verifC11Shared struct {
	print   string
	partial bool // a restricted subscriber was denied an event that precedes an allowed one
	byAuthz string
	bySub   int
}

func verifC11BatchPrint(items []stream.Event) string {
	var b strings.Builder
	for _, it := range items {
		fmt.Fprintf(&b, "%s;", verifC11DescribeEvent(it.Payload.ToSubscriptionEvent(it.Index)))
	}
	return b.String()
}

// sharedBatchIntact checks, BEFORE this subscriber's own filter runs, that the batch is still what the first reader
// saw (O6), and records the shape "restricted reader first, then a reader that may see more".
func (w *verifC11World) sharedBatchIntact(s *verifC11Sub, ev stream.Event) bool {
	pe, ok := ev.Payload.(*stream.PayloadEvents)
	if !ok || len(pe.Items) < 2 {
		return true
	}
	key := &pe.Items[0]
	print := verifC11BatchPrint(pe.Items)
	sh := w.batches[key]
	if sh == nil {
		sh = &verifC11Shared{print: print, byAuthz: s.authzName, bySub: s.id}
		w.batches[key] = sh
		denied, partial, allowed := false, false, false
		for _, it := range pe.Items {
			if it.Payload.HasReadPermission(s.authz) {
				allowed = true
				if denied {
					partial = true
				}
			} else {
				denied = true
			}
		}
		sh.partial = partial && allowed
		if sh.partial {
			w.c.Label("batch-partially-denied-with-denied-event-first")
		}
		return true
	}
	if sh.partial && sh.bySub != s.id && sh.byAuthz != s.authzName {
		w.c.Label("shared-batch-consumed-by-restricted-then-privileged")
	}
	if sh.print != print {
		return w.tolerate(s, "C11/shared-batch-mutated-by-filter", "sub#%d %s (authz %q): the buffer item at index %d is shared with sub#%d (authz %q), which read it first; since then its events changed\n  first read: %s\n  now       : %s",
			s.id, s.q.id(), s.authzName, ev.Index, sh.bySub, sh.byAuthz, sh.print, print)
	}
	return true
}

func verifC11EventsFromEvent(e *pbsubscribe.Event) []*pbsubscribe.Event {
	if batch := e.GetEventBatch(); batch != nil {
		return batch.Events
	}
	return []*pbsubscribe.Event{e}
}

// deliver feeds one stream event to the view exactly as submatview's handlers do. delivered reports whether the
// view was updated (a "delivery" in the sense of the property); ok=false means s no longer exists.
func (w *verifC11World) deliver(s *verifC11Sub, ev stream.Event) (delivered, ok bool) {
	e := ev.Payload.ToSubscriptionEvent(ev.Index)
	if verifC11Trace {
		w.f.Logf("TRACE sub#%d %s <- %s", s.id, s.q.id(), verifC11DescribeEvent(e))
	}
	first := s.awaitFirst
	s.awaitFirst = false
	switch {
	case first && e.GetNewSnapshotToFollow():
		// resumeStreamHandler: state.reset(); next = snapshotHandler
		s.view.Reset()
		s.lastIdx, s.hasView = 0, false
		s.inSnapshot, s.pending = true, nil
		w.c.Label("mode=resume-stale")
		return false, true
	case s.inSnapshot:
		if !e.GetEndOfSnapshot() {
			s.pending = append(s.pending, verifC11EventsFromEvent(e)...)
			return false, true
		}
		if err := s.view.Update(s.pending); err != nil {
			w.f.Fatalf("verif C11: view.Update(snapshot): %v", err)
		}
		s.inSnapshot, s.pending = false, nil
		return true, w.onSnapshot(s, e.Index)
	default:
		if first {
			w.c.Label("mode=resume-in-buffer")
			s.eligible = true
		}
		if verifC11SubscriberSkip && e.Index < s.lastIdx {
			// evaluation aid (VERIF_C11_SUBSCRIBER_SKIP=1): mirror of fixes/C11-materializer-ignores-stale-batches.diff
			return false, true
		}
		if err := s.view.Update(verifC11EventsFromEvent(e)); err != nil {
			w.f.Fatalf("verif C11: view.Update(event): %v", err)
		}
		return true, w.onEvent(s, e.Index)
	}
}

func verifC11Diff(got, want []string) string {
	g, m := map[string]bool{}, map[string]bool{}
	for _, x := range got {
		g[x] = true
	}
	for _, x := range want {
		m[x] = true
	}
	var b strings.Builder
	for _, x := range got {
		if !m[x] {
			fmt.Fprintf(&b, "\n  view only : %s", verifC11Short(x))
		}
	}
	for _, x := range want {
		if !g[x] {
			fmt.Fprintf(&b, "\n  query only: %s", verifC11Short(x))
		}
	}
	return b.String()
}

func verifC11Short(s string) string {
	if len(s) > 700 {
		return s[:700] + "…"
	}
	return s
}

// expected is the direct query of s's (topic, subject) as recorded for version ver, filtered entry by entry for s's
// authorizer as the read endpoints filter their results.
func (w *verifC11World) expected(s *verifC11Sub, ver *verifC11Version) verifC11QRes {
	r := ver.res[s.q.id()]
	if s.restricted() {
		r.Items = verifC11Visible(s.q, s.authz, r.Items)
	}
	if s.q.HF != 0 && s.q.isHealth() {
		r.Items = verifC11HealthFiltered(s.q.HF, r.Items)
	}
	return r
}

// verifC11HealthFiltered applies the health filter of the direct query (Health.ServiceNodes: CheckServiceNodes.Filter):
// an instance is left out when ANY of its checks is critical (filter 1) / is not passing (filter 2).
func verifC11HealthFiltered(hf int, items []string) []string {
	var out []string
	for _, line := range items {
		_, js, _ := strings.Cut(line, " => ")
		var v struct {
			Checks []struct{ Status string }
		}
		if err := json.Unmarshal([]byte(js), &v); err != nil {
			panic(err)
		}
		drop := false
		for _, c := range v.Checks {
			drop = drop || (hf == 1 && c.Status == "critical") || (hf == 2 && c.Status != "passing")
		}
		if !drop {
			out = append(out, line)
		}
	}
	return out
}

func (s *verifC11Sub) restricted() bool { return s.authzName != "" && s.authzName != "all" }

// mismatchKey: a difference seen by a subscriber with a restricted token is reported under its own key.
func (s *verifC11Sub) mismatchKey(base string) string {
	if s.restricted() {
		return "C11/view-differs-from-filtered-query/" + s.q.Topic
	}
	return base
}

// sameItems compares view and query; for the ServiceList topic of an excused subscriber names in the taint set
// are left out (known finding verifC11KeyKinds already counted for it).
func (w *verifC11World) sameItems(s *verifC11Sub, got, want []string) bool {
	if s.excused {
		got, want = w.untainted(got), w.untainted(want)
	}
	return strings.Join(got, "\n") == strings.Join(want, "\n")
}

func (w *verifC11World) untainted(xs []string) []string {
	var out []string
	for _, x := range xs {
		if !w.taint[x] {
			out = append(out, x)
		}
	}
	return out
}

// kindsOnly reports whether a ServiceList mismatch is confined to names that have (or had) a kind-service-names
// row of a non-typical kind: the topic's snapshot lists typical services only while its events are emitted for
// rows of every kind, so neither agrees with Store.ServiceList for such names.
func (w *verifC11World) kindsOnly(s *verifC11Sub, got, want []string) bool {
	if !s.q.isServiceList() {
		return false
	}
	g, m := map[string]bool{}, map[string]bool{}
	for _, x := range got {
		g[x] = true
	}
	for _, x := range want {
		m[x] = true
	}
	n := 0
	for _, x := range got {
		if !m[x] {
			if !w.taint[x] {
				return false
			}
			n++
		}
	}
	for _, x := range want {
		if !g[x] {
			if !w.taint[x] {
				return false
			}
			n++
		}
	}
	return n > 0
}

// nativeOffOnly reports whether a ServiceHealthConnect mismatch consists only of instances the view still holds as
// connect-native although the store, at some version after the copy the view holds and not later than ver, had the
// same instance as a plain, non-native service: the update that turns Connect.Native off is published on the
// ServiceHealth topic only, nothing removes the instance from the Connect topic (nor does its later deregistration,
// which is no longer connect-relevant either).
func (w *verifC11World) nativeOffOnly(s *verifC11Sub, got, want []string, ver *verifC11Version) bool {
	if s.q.Topic != "ServiceHealthConnect" {
		return false
	}
	m := map[string]bool{}
	for _, x := range want {
		m[x] = true
	}
	hq := verifC11Q{Topic: "ServiceHealth", Name: s.q.Name, Peer: s.q.Peer}.id()
	wasPlainAfter := func(id string, modify uint64) bool {
		for _, v := range w.all {
			if v.seq > ver.seq {
				break
			}
			if v.idx != 0 && v.idx <= modify {
				continue
			}
			for _, line := range v.res[hq].Items {
				if pid, native, kind, _, ok := verifC11ParseCSN(line); ok && pid == id && !native && kind == "" {
					return true
				}
			}
		}
		return false
	}
	g := map[string]bool{}
	n := 0
	for _, x := range got {
		g[x] = true
		if m[x] {
			continue
		}
		id, native, _, modify, ok := verifC11ParseCSN(x)
		if !ok || !native || !wasPlainAfter(id, modify) {
			return false
		}
		n++
	}
	for _, x := range want {
		if !g[x] {
			return false
		}
	}
	return n > 0
}

// gatewayGoneOnly reports whether a ServiceHealthConnect mismatch consists only of terminating-gateway instances the
// view still holds although the store (version ver) no longer has that instance at all: when one transaction removes
// both the gateway instance and the gateway's link to the subscribed service (e.g. the node that ran the gateway and
// the last instance of a wildcard-linked service is deregistered), no deregistration reaches the Connect topic.
func (w *verifC11World) gatewayGoneOnly(s *verifC11Sub, got, want []string, ver *verifC11Version) bool {
	if s.q.Topic != "ServiceHealthConnect" {
		return false
	}
	m := map[string]bool{}
	for _, x := range want {
		m[x] = true
	}
	g := map[string]bool{}
	n := 0
	for _, x := range got {
		g[x] = true
		if m[x] {
			continue
		}
		id, js, _ := strings.Cut(x, " => ")
		var v struct {
			Service struct{ Kind, Service string }
		}
		if err := json.Unmarshal([]byte(js), &v); err != nil || v.Service.Kind != string(structs.ServiceKindTerminatingGateway) {
			return false
		}
		rec, ok := ver.res[verifC11Q{Topic: "ServiceHealth", Name: v.Service.Service, Peer: s.q.Peer}.id()]
		if !ok {
			return false
		}
		for _, line := range rec.Items {
			if strings.HasPrefix(line, id+" => ") {
				return false // the instance still exists: something else is wrong
			}
		}
		n++
	}
	for _, x := range want {
		if !g[x] {
			return false
		}
	}
	return n > 0
}

func verifC11ParseCSN(line string) (id string, native bool, kind string, modify uint64, ok bool) {
	id, js, found := strings.Cut(line, " => ")
	if !found {
		return "", false, "", 0, false
	}
	var v struct {
		Service struct {
			Kind        string
			ModifyIndex uint64
			Connect     struct{ Native bool }
		}
	}
	if err := json.Unmarshal([]byte(js), &v); err != nil {
		return "", false, "", 0, false
	}
	return id, v.Service.Connect.Native, v.Service.Kind, v.Service.ModifyIndex, true
}

// explained names the listed root cause that fully accounts for a view/query difference, or returns fallback.
func (w *verifC11World) explained(s *verifC11Sub, got, want []string, ver *verifC11Version, fallback string) string {
	switch {
	case w.kindsOnly(s, got, want):
		return verifC11KeyKinds
	case w.nativeOffOnly(s, got, want, ver):
		return verifC11KeyNativeOff
	case w.gatewayGoneOnly(s, got, want, ver):
		return verifC11KeyGwGone
	}
	return fallback
}

// tolerate handles the outcome of Violation for subscriber s: a listed finding drops s so that the search goes on.
func (w *verifC11World) tolerate(s *verifC11Sub, key, format string, args ...any) bool {
	if w.c.Violation(w.f, key, format, args...) {
		if key == verifC11KeyKinds {
			s.excused = true
			return true
		}
		w.drop(s)
		return false
	}
	return false
}

func (w *verifC11World) onSnapshot(s *verifC11Sub, idx uint64) bool {
	w.deliveries++
	got, err := s.q.viewItems(s.view, idx)
	if err != nil {
		w.f.Fatalf("verif C11: %v", err)
	}
	s.matched = nil
	contentOnly := false
	for _, cand := range s.cands {
		exp := w.expected(s, cand.ver)
		if !w.sameItems(s, got, exp.Items) {
			continue
		}
		want := exp.Idx
		if want == 0 {
			want = 1
		}
		// the ServiceList snapshot takes its index from the kind-service-names table, Store.ServiceList from the
		// services table: only the content is comparable there.
		if s.q.isServiceList() || idx == want {
			s.matched = append(s.matched, cand)
		} else {
			contentOnly = true
		}
	}
	if len(s.matched) == 0 {
		exp := w.expected(s, s.cands[0].ver)
		key := s.mismatchKey("C11/snapshot-differs-from-query/topic=" + s.q.Topic)
		switch {
		case contentOnly:
			key = "C11/snapshot-index-differs-from-query/topic=" + s.q.Topic
		default:
			for _, cand := range s.cands {
				if w.kindsOnly(s, got, w.expected(s, cand.ver).Items) {
					key = verifC11KeyKinds
				}
			}
		}
		if !w.tolerate(s, key, "sub#%d %s: snapshot delivered with index %d; direct query at subscription reported index %d; diff:%s",
			s.id, s.q.id(), idx, exp.Idx, verifC11Diff(got, exp.Items)) {
			return false
		}
		s.matched = append([]verifC11Cand(nil), s.cands...) // which snapshot it was cannot be told: keep every candidate for the classification of later anomalies
	}
	fromOlder := true
	for _, m := range s.matched {
		if m.ver == s.this.ver {
			fromOlder = false
		}
	}
	switch {
	case fromOlder:
		w.c.Label("mode=cached-snapshot(older-version)") // observed: the snapshot shows an earlier store version
		s.eligible = true
	case s.hinted:
		w.c.Label("mode=cached-snapshot(same-version)") // predicted by the cache model; indistinguishable from a fresh one
		s.eligible = true
	}
	// Which of the candidate snapshots was served cannot always be told (ServiceList content is compared modulo the
	// kinds finding, a cached snapshot may equal a fresh one): anomalies are attributed with all of them in mind.
	s.served = append([]verifC11Cand(nil), s.cands...)
	s.lastIdx, s.hasView = idx, true
	s.baseEpoch = s.matched[0].ver.epoch
	s.oldEpochKey = ""
	s.after = 0
	return true
}

// classify names the root cause of an anomaly seen at the delivery of the batch with raft index i.
func (w *verifC11World) classify(s *verifC11Sub, i uint64, ver *verifC11Version, fallback string) string {
	// the batch was committed but unpublished, together with at least one other, when the snapshot was built
	for _, m := range s.served {
		if len(m.queued) >= 2 {
			for _, qi := range m.queued {
				if qi == i {
					return verifC11KeyStale
				}
			}
		}
	}
	switch {
	case ver != nil && ver.epoch < s.baseEpoch && w.atRestoreQueued[i]:
		return verifC11KeyPreRestoreQ // committed before a restore, published after it, to a subscription of the restored store
	case ver != nil && ver.epoch < s.baseEpoch:
		return verifC11KeyPreRestoreB // published before a restore, still reachable from the topic buffer afterwards
	case s.baseEpoch < s.subEpoch && s.resumed:
		return verifC11KeyResumeRest // resumed onto the live buffer although the store was replaced in between
	}
	return fallback
}

// inHistory reports whether the commit that produced v is part of the history the store of the given epoch
// descends from (a restore discards every commit made after its snapshot was taken).
func (w *verifC11World) inHistory(v *verifC11Version, epoch int) bool {
	for epoch > v.epoch {
		from := w.restoredOf[epoch]
		if from == nil || v.seq > from.seq {
			return false
		}
		epoch = from.epoch
	}
	return epoch == v.epoch
}

func (w *verifC11World) onEvent(s *verifC11Sub, i uint64) bool {
	w.deliveries++
	s.after++
	if s.eligible {
		w.c.NonTrivial()
	}
	ver := w.byIdx[i]
	if ver == nil {
		return w.tolerate(s, "C11/event-with-unknown-index", "sub#%d %s: event delivered with index %d, which is not the raft index of any commit", s.id, s.q.id(), i)
	}
	got, err := s.q.viewItems(s.view, i)
	if err != nil {
		w.f.Fatalf("verif C11: %v", err)
	}
	if !w.inHistory(ver, s.baseEpoch) {
		key := verifC11KeyPreRestoreB
		if w.atRestoreQueued[i] {
			key = verifC11KeyPreRestoreQ
		}
		return w.tolerate(s, key, "sub#%d %s: its view was built from the restored store, yet it is sent the event of commit %d, which was made before the restore and is not part of the restored state",
			s.id, s.q.id(), i)
	}
	if ver.epoch < s.baseEpoch {
		// The commit is part of the restored history, so its events normally describe the restored state too. But a
		// restore re-derives denormalised fields (e.g. HealthCheck.ServiceTags, which the live store refreshes only
		// when the check itself is written): from here on a difference between view and restored store has the
		// known mechanism "batch/buffer item of the old store delivered to a subscription of the restored store".
		s.oldEpochKey = verifC11KeyPreRestoreB
		if w.atRestoreQueued[i] {
			s.oldEpochKey = verifC11KeyPreRestoreQ
		}
	}
	if i < s.lastIdx {
		key := w.classify(s, i, ver, "C11/index-regress")
		return w.tolerate(s, key, "sub#%d %s: event with index %d delivered after index %d (batches unpublished when its snapshot was built: %v); view vs query@%d:%s",
			s.id, s.q.id(), i, s.lastIdx, verifC11QueuedOf(s), i, verifC11Diff(got, w.expected(s, ver).Items))
	}
	s.lastIdx = i
	if ver.multi {
		return true
	}
	exp := w.expected(s, ver)
	if !w.sameItems(s, got, exp.Items) {
		fallback := s.mismatchKey("C11/view-differs-from-query-at-index/topic=" + s.q.Topic)
		key := w.explained(s, got, exp.Items, ver, fallback)
		if key == fallback {
			key = w.classify(s, i, ver, fallback)
		}
		if key == fallback && s.oldEpochKey != "" && ver.epoch >= s.baseEpoch {
			key = s.oldEpochKey
		}
		return w.tolerate(s, key, "sub#%d %s: after the event with index %d the view differs from the direct query as of raft index %d (unpublished at snapshot: %v):%s",
			s.id, s.q.id(), i, i, verifC11QueuedOf(s), verifC11Diff(got, exp.Items))
	}
	return true
}

func verifC11QueuedOf(s *verifC11Sub) []uint64 {
	var out []uint64
	seen := map[uint64]bool{}
	for _, m := range s.served {
		for _, q := range m.queued {
			if !seen[q] {
				seen[q] = true
				out = append(out, q)
			}
		}
	}
	sort.Slice(out, func(i, j int) bool { return out[i] < out[j] })
	return out
}

// quiescent is O3: s has nothing more to read; if every committed batch has been published its view must be the
// current direct query.
func (w *verifC11World) quiescent(s *verifC11Sub) {
	if len(w.queue) > 0 || s.inSnapshot || !s.hasView {
		return
	}
	w.c.Label("quiescent-check")
	got, err := s.q.viewItems(s.view, s.lastIdx)
	if err != nil {
		w.f.Fatalf("verif C11: %v", err)
	}
	exp := w.expected(s, w.cur)
	if w.sameItems(s, got, exp.Items) {
		return
	}
	key := s.mismatchKey("C11/view-differs-after-full-drain/topic=" + s.q.Topic)
	switch {
	case s.baseEpoch < s.subEpoch && s.resumed:
		key = verifC11KeyResumeRest
	default:
		fallback := key
		key = w.explained(s, got, exp.Items, w.cur, key)
		if key == fallback && s.oldEpochKey != "" {
			key = s.oldEpochKey
		}
	}
	w.tolerate(s, key, "sub#%d %s: every committed batch is published and the subscription has nothing more to deliver (last index %d), but the view differs from the direct query (index %d):%s",
		s.id, s.q.id(), s.lastIdx, exp.Idx, verifC11Diff(got, exp.Items))
}

// ---- snapshot / restore

type verifC11Sink struct {
	bytes.Buffer
}

func (s *verifC11Sink) ID() string    { return "verif-c11" }
func (s *verifC11Sink) Cancel() error { return nil }
func (s *verifC11Sink) Close() error  { return nil }

func (w *verifC11World) takeSnapshot() {
	snap, err := w.fsm.Snapshot()
	if err != nil {
		w.f.Fatalf("verif C11: FSM.Snapshot: %v", err)
	}
	defer snap.Release()
	sink := &verifC11Sink{}
	if err := snap.Persist(sink); err != nil {
		w.f.Fatalf("verif C11: Persist: %v", err)
	}
	w.snap = append([]byte(nil), sink.Bytes()...)
	w.snapVer = w.cur
	w.c.Label("snapshot-taken")
}

type verifC11ReadCloser struct{ *bytes.Reader }

func (verifC11ReadCloser) Close() error { return nil }

func (w *verifC11World) restore() {
	if w.snap == nil {
		return
	}
	if err := w.fsm.Restore(verifC11ReadCloser{bytes.NewReader(w.snap)}); err != nil {
		w.f.Fatalf("verif C11: FSM.Restore: %v", err)
	}
	if got := w.pub.VerifQueued(); got != len(w.queue) {
		w.f.Fatalf("verif C11: harness bug: restore changed the publish queue (%d -> %d)", len(w.queue), got)
	}
	w.epoch++
	w.restoredOf[w.epoch] = w.snapVer
	for _, b := range w.queue {
		w.atRestoreQueued[b.idx] = true
	}
	w.gen.Store = w.fsm.State()
	w.record(0)
	for _, id := range w.order {
		if s := w.subs[id]; s != nil && s.open {
			s.mustClose = "restore"
		}
	}
	w.hint = map[string]*verifC11Cand{} // RefreshAllTopics evicts every cached snapshot
	w.hist = map[string][]verifC11Cand{}
	// tokens are whatever the snapshot held
	st := w.fsm.State()
	for name, t := range verifC11Tokens {
		_, tok, _ := st.ACLTokenGetBySecret(nil, t.secret, nil)
		w.tokLive[name] = tok != nil
	}
	if len(w.queue) > 0 {
		w.c.Label("restore-with-pending-batches")
	}
	w.c.Label("restore")
}

// finish drains everything, lets every open subscriber read to the end (each delivery checked) and applies O3.
func (w *verifC11World) finish() {
	for len(w.queue) > 0 {
		w.drainOne()
	}
	for _, id := range append([]int(nil), w.order...) {
		if s := w.subs[id]; s != nil && s.open {
			w.consume(s, 1<<20)
		}
	}
	switch {
	case w.deliveries == 0:
		w.c.Label("deliveries=0")
	case w.deliveries <= 5:
		w.c.Label("deliveries=1-5")
	case w.deliveries <= 20:
		w.c.Label("deliveries=6-20")
	default:
		w.c.Label("deliveries=21+")
	}
}
