package fsm

// C11 — the query side: for every (topic, subject) a subscriber may name, the equivalent DIRECT query against the
// state store and the REAL client-side view code that materializes the event stream, both rendered canonically so
// that they can be compared.
//
//   ServiceHealth / ServiceHealthConnect   Store.CheckServiceNodes / CheckConnectServiceNodes   health.HealthView
//   config-entry topic, named subject      Store.ConfigEntry                                    configentry.ConfigEntryView
//   config-entry topic, wildcard subject   Store.ConfigEntriesByKind                            configentry.ConfigEntryListView
//   ServiceList (wildcard only)            Store.ServiceList                                    mirror of proxycfg-glue's
//                                                                                               unexported serviceListView
//
// The direct result goes through the same structs -> protobuf -> structs conversion the wire imposes on events, so
// a difference is a difference of content, not of nil-vs-empty encodings. Check lists are compared as sets (their
// order is an artefact of the index that was walked).

import (
	"fmt"
	"sort"
	"strings"

	"github.com/hashicorp/consul/acl"
	"github.com/hashicorp/consul/agent/consul/adapter"
	"github.com/hashicorp/consul/agent/consul/state"
	"github.com/hashicorp/consul/agent/rpcclient/configentry"
	"github.com/hashicorp/consul/agent/rpcclient/health"
	"github.com/hashicorp/consul/agent/structs"
	"github.com/hashicorp/consul/agent/submatview"
	vs "github.com/hashicorp/consul/internal/verifstate"
	"github.com/hashicorp/consul/proto/private/pbcommon"
	"github.com/hashicorp/consul/proto/private/pbconfigentry"
	"github.com/hashicorp/consul/proto/private/pbservice"
	"github.com/hashicorp/consul/proto/private/pbsubscribe"
)

// verifC11Q names one subscribable (topic, subject).
type verifC11Q struct {
	Topic string `json:"topic"` // pbsubscribe.Topic name
	Name  string `json:"name,omitempty"`
	Peer  string `json:"peer,omitempty"`
	Wild  bool   `json:"wild,omitempty"`
	// HF is the client-side health filter of a health view (structs.HealthFilterType: 0 all, 1 exclude critical, 2 only
	// passing — ?passing and the proxies' exclude-critical views). It is not part of the subject: subscribers with
	// different filters share the topic buffer, only their views differ.
	HF int `json:"hf,omitempty"`
}

func (q verifC11Q) id() string {
	n := q.Name
	if q.Wild {
		n = "*WILD*"
	}
	return q.Topic + "|" + q.Peer + "|" + n
}

func (q verifC11Q) topic() pbsubscribe.Topic {
	v, ok := pbsubscribe.Topic_value[q.Topic]
	if !ok {
		panic("verif C11: unknown topic " + q.Topic)
	}
	return pbsubscribe.Topic(v)
}

func (q verifC11Q) isHealth() bool {
	return q.Topic == "ServiceHealth" || q.Topic == "ServiceHealthConnect"
}

func (q verifC11Q) isServiceList() bool { return q.Topic == "ServiceList" }

var verifC11ConfigKinds = map[string]string{
	"ServiceResolver":   structs.ServiceResolver,
	"ServiceDefaults":   structs.ServiceDefaults,
	"IngressGateway":    structs.IngressGateway,
	"ServiceIntentions": structs.ServiceIntentions,
	"MeshConfig":        structs.MeshConfig,
	"ExportedServices":  structs.ExportedServices,
	"JWTProvider":       structs.JWTProvider,
}

func (q verifC11Q) configKind() string { return verifC11ConfigKinds[q.Topic] }

// pbRequest builds the wire request exactly as the client-side request types do (health.NewMaterializerRequest,
// configEntryRequest.Request, serviceListRequest.Request).
func (q verifC11Q) pbRequest(token string, index uint64) *pbsubscribe.SubscribeRequest {
	req := &pbsubscribe.SubscribeRequest{Topic: q.topic(), Token: token, Index: index, Datacenter: "dc1"}
	if q.Wild {
		req.Subject = &pbsubscribe.SubscribeRequest_WildcardSubject{WildcardSubject: true}
	} else {
		req.Subject = &pbsubscribe.SubscribeRequest_NamedSubject{NamedSubject: &pbsubscribe.NamedSubject{Key: q.Name, PeerName: q.Peer}}
	}
	return req
}

// newView returns the real view implementation a client of this (topic, subject) uses.
func (q verifC11Q) newView() (submatview.View, error) {
	switch {
	case q.isHealth():
		return health.NewHealthView(structs.ServiceSpecificRequest{
			Datacenter:  "dc1",
			ServiceName: q.Name,
			PeerName:    q.Peer,
			Connect:     q.Topic == "ServiceHealthConnect",
			HealthFilterType: structs.HealthFilterType(q.HF),
		})
	case q.isServiceList():
		return verifC11NewServiceListView(), nil
	case q.configKind() != "":
		if q.Wild {
			return configentry.NewConfigEntryListView(q.configKind(), *structs.DefaultEnterpriseMetaInDefaultPartition()), nil
		}
		return &configentry.ConfigEntryView{}, nil
	}
	return nil, fmt.Errorf("no view for %s", q.id())
}

// verifC11QRes is a canonical query result: the index the query reported and one line per item, sorted.
type verifC11QRes struct {
	Idx   uint64
	Items []string
}

func (r verifC11QRes) canon() string { return strings.Join(r.Items, "\n") }

func verifC11CanonCSN(csn *structs.CheckServiceNode) (string, string) {
	cp := *csn
	cp.Checks = append(structs.HealthChecks(nil), csn.Checks...)
	sort.SliceStable(cp.Checks, func(i, j int) bool { return cp.Checks[i].CheckID < cp.Checks[j].CheckID })
	id := pbservice.NewCheckServiceNodeFromStructs(&cp).UniqueID()
	return id, id + " => " + vs.CanonJSON(cp)
}

func verifC11CanonCE(e structs.ConfigEntry) string {
	return e.GetKind() + "/" + e.GetName() + " => " + vs.CanonJSON(e)
}

// direct evaluates the equivalent direct query on the store as it is now.
func (q verifC11Q) direct(st *state.Store) (verifC11QRes, error) {
	var res verifC11QRes
	switch {
	case q.isHealth():
		var (
			idx   uint64
			nodes structs.CheckServiceNodes
			err   error
		)
		if q.Topic == "ServiceHealthConnect" {
			idx, nodes, err = st.CheckConnectServiceNodes(nil, q.Name, nil, q.Peer)
		} else {
			idx, nodes, err = st.CheckServiceNodes(nil, q.Name, nil, q.Peer)
		}
		if err != nil {
			return res, err
		}
		res.Idx = idx
		for i := range nodes {
			n := nodes[i] // copy of the struct; the service is copied below before the port adapter touches it
			if n.Service != nil {
				sc := *n.Service
				n.Service = &sc
			}
			adapter.PopulateLegacyCheckServiceNodePorts(structs.CheckServiceNodes{n})
			rt, err := pbservice.CheckServiceNodeToStructs(pbservice.NewCheckServiceNodeFromStructs(&n))
			if err != nil {
				return res, err
			}
			_, line := verifC11CanonCSN(rt)
			res.Items = append(res.Items, line)
		}
	case q.isServiceList():
		idx, list, err := st.ServiceList(nil, structs.DefaultEnterpriseMetaInDefaultPartition(), "")
		if err != nil {
			return res, err
		}
		res.Idx = idx
		for _, sn := range list {
			res.Items = append(res.Items, sn.String())
		}
	case q.configKind() != "":
		if q.Wild {
			idx, entries, err := st.ConfigEntriesByKind(nil, q.configKind(), structs.WildcardEnterpriseMetaInPartition(structs.WildcardSpecifier))
			if err != nil {
				return res, err
			}
			res.Idx = idx
			for _, e := range entries {
				res.Items = append(res.Items, verifC11CanonCE(pbconfigentry.ConfigEntryToStructs(pbconfigentry.ConfigEntryFromStructs(e))))
			}
		} else {
			idx, e, err := st.ConfigEntry(nil, q.configKind(), q.Name, structs.DefaultEnterpriseMetaInDefaultPartition())
			if err != nil {
				return res, err
			}
			res.Idx = idx
			if e != nil {
				res.Items = append(res.Items, verifC11CanonCE(pbconfigentry.ConfigEntryToStructs(pbconfigentry.ConfigEntryFromStructs(e))))
			}
		}
	default:
		return res, fmt.Errorf("no direct query for %s", q.id())
	}
	sort.Strings(res.Items)
	return res, nil
}

// viewItems renders what the view holds in the same canonical form.
func (q verifC11Q) viewItems(v submatview.View, index uint64) ([]string, error) {
	var items []string
	switch r := v.Result(index).(type) {
	case *structs.IndexedCheckServiceNodes:
		for i := range r.Nodes {
			_, line := verifC11CanonCSN(&r.Nodes[i])
			items = append(items, line)
		}
	case *structs.IndexedServiceList:
		for _, sn := range r.Services {
			items = append(items, sn.String())
		}
	case *structs.ConfigEntryResponse:
		if r.Entry != nil {
			items = append(items, verifC11CanonCE(r.Entry))
		}
	case *structs.IndexedConfigEntries:
		for _, e := range r.Entries {
			items = append(items, verifC11CanonCE(e))
		}
	default:
		return nil, fmt.Errorf("unexpected view result %T", r)
	}
	sort.Strings(items)
	return items, nil
}

// verifC11Universe is every (topic, subject) the generator may subscribe to; all of them are evaluated after each
// commit so that "the direct query at raft index i" is a recorded fact.
func verifC11Universe() []verifC11Q {
	var qs []verifC11Q
	for _, n := range vs.ServiceNames {
		qs = append(qs, verifC11Q{Topic: "ServiceHealth", Name: n})
		qs = append(qs, verifC11Q{Topic: "ServiceHealth", Name: n, Peer: "peerA"})
		qs = append(qs, verifC11Q{Topic: "ServiceHealthConnect", Name: n})
		qs = append(qs, verifC11Q{Topic: "ServiceResolver", Name: n})
		qs = append(qs, verifC11Q{Topic: "ServiceDefaults", Name: n})
		qs = append(qs, verifC11Q{Topic: "ServiceIntentions", Name: n})
	}
	qs = append(qs,
		verifC11Q{Topic: "ServiceHealth", Name: "web-proxy"},
		verifC11Q{Topic: "ServiceHealth", Name: "term-gw"},
		verifC11Q{Topic: "ServiceIntentions", Name: "*"},
		verifC11Q{Topic: "IngressGateway", Name: "ingress-gw"},
		verifC11Q{Topic: "ServiceList", Wild: true},
		verifC11Q{Topic: "ServiceResolver", Wild: true},
		verifC11Q{Topic: "ServiceDefaults", Wild: true},
		verifC11Q{Topic: "ServiceIntentions", Wild: true},
		verifC11Q{Topic: "IngressGateway", Wild: true},
		verifC11Q{Topic: "MeshConfig", Name: structs.MeshConfigMesh},
		verifC11Q{Topic: "ExportedServices", Name: "default"},
		verifC11Q{Topic: "ExportedServices", Wild: true},
		verifC11Q{Topic: "JWTProvider", Name: "okta"},
		verifC11Q{Topic: "JWTProvider", Wild: true},
	)
	return qs
}

// ---- ServiceList view: a line-by-line mirror of agent/proxycfg-glue/service_list.go (serviceListView is unexported
// and its package cannot be imported here): Register adds the name, Deregister removes it, Result lists the names.

type verifC11ServiceListView struct {
	entMeta acl.EnterpriseMeta
	state   map[string]structs.ServiceName
}

func verifC11NewServiceListView() *verifC11ServiceListView {
	v := &verifC11ServiceListView{entMeta: *structs.DefaultEnterpriseMetaInDefaultPartition()}
	v.Reset()
	return v
}

func (v *verifC11ServiceListView) Reset() { v.state = make(map[string]structs.ServiceName) }

func (v *verifC11ServiceListView) Update(events []*pbsubscribe.Event) error {
	for _, event := range events {
		update := event.GetService()
		if update == nil {
			continue
		}
		var entMeta acl.EnterpriseMeta
		pbcommon.EnterpriseMetaToStructs(update.EnterpriseMeta, &entMeta)
		name := structs.NewServiceName(update.Name, &entMeta)
		switch update.Op {
		case pbsubscribe.CatalogOp_Register:
			v.state[name.String()] = name
		case pbsubscribe.CatalogOp_Deregister:
			delete(v.state, name.String())
		}
	}
	return nil
}

func (v *verifC11ServiceListView) Result(index uint64) any {
	list := make(structs.ServiceList, 0, len(v.state))
	for _, n := range v.state {
		list = append(list, n)
	}
	sort.Slice(list, func(a, b int) bool { return list[a].String() < list[b].String() })
	return &structs.IndexedServiceList{Services: list, QueryMeta: structs.QueryMeta{Backend: structs.QueryBackendStreaming, Index: index}}
}
