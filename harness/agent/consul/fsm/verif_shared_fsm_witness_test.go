package fsm

// Fixed minimal histories of the recorded C01/C02 findings. `VERIF_MAKE_WITNESS=<corpus dir> go test -run
// TestVerifC01MakeWitnesses` (re)writes them as replay files under <dir>/C01 and <dir>/C02; the Replay tests run them.

import (
	"encoding/json"
	"os"
	"path/filepath"
	"testing"

	"github.com/hashicorp/consul/agent/structs"
	"github.com/hashicorp/consul/api"
	"github.com/hashicorp/consul/internal/verifkit"
	vs "github.com/hashicorp/consul/internal/verifstate"
)

type verifWitness struct {
	property, name, key, note string
	plan                      *vs.FCmd
	cmds                      []*vs.FCmd
}

func verifWitnesses() []verifWitness {
	vipOn := func(idx uint64) *vs.FCmd { return vs.WSysMeta(idx, structs.SystemMetadataVirtualIPsEnabled, "true") }
	end := func(n int) *vs.FCmd { return &vs.FCmd{Kind: "plan", Cuts: []int{n}} }
	var out []verifWitness
	// ---- C01
	out = append(out, verifWitness{"C01", "witness-manual-vip-result-order", "C01/result-order-differs/UpdateVirtualIP/field=UnassignedFrom[].ServiceName.Name",
		"reassigning manual VIPs held by two other services: UnassignedFrom comes back in map iteration order", &vs.FCmd{Kind: "plan", SkewNS: 1e9, Reps: 16}, []*vs.FCmd{
			vipOn(11),
			vs.WRegister(12, "n1", "", vs.WService("web-proxy", "web-proxy-1", "web", nil)),
			vs.WRegister(13, "n1", "", vs.WService("api-proxy", "api-proxy-1", "api", nil)),
			vs.WRegister(14, "n1", "", vs.WService("db-proxy", "db-proxy-1", "db", nil)),
			vs.WManualVIP(15, "web", "10.77.0.1"),
			vs.WManualVIP(16, "api", "10.77.0.2"),
			vs.WManualVIP(17, "db", "10.77.0.1", "10.77.0.2"),
		}})
	out = append(out, verifWitness{"C01", "witness-config-graph-error-text", "C01/result-differs/ConfigEntry/field=error-text",
		"a rejected config entry write reports whichever broken discovery chain the map iteration reaches first", &vs.FCmd{Kind: "plan", SkewNS: 1e9, Reps: 16}, []*vs.FCmd{
			vs.WConfig(11, &structs.ProxyConfigEntry{Kind: structs.ProxyDefaults, Name: structs.ProxyConfigGlobal, Config: map[string]interface{}{"protocol": "http"}}),
			vs.WConfig(12, &structs.ServiceRouterConfigEntry{Kind: structs.ServiceRouter, Name: "db", Routes: []structs.ServiceRoute{{
				Match: &structs.ServiceRouteMatch{HTTP: &structs.ServiceRouteHTTPMatch{PathPrefix: "/v1"}}, Destination: &structs.ServiceRouteDestination{Service: "web"}}}}),
			vs.WConfig(13, &structs.ServiceSplitterConfigEntry{Kind: structs.ServiceSplitter, Name: "web", Splits: []structs.ServiceSplit{{Weight: 100, Service: "api"}}}),
			vs.WConfig(14, &structs.ServiceSplitterConfigEntry{Kind: structs.ServiceSplitter, Name: "api", Splits: []structs.ServiceSplit{{Weight: 100, Service: "web"}}}),
		}})
	// ---- C02
	out = append(out, verifWitness{"C02", "witness-manual-vips-lost", "C02/query=ServiceManualVIPs/field=ManualIPs",
		"manual virtual IPs are not restored", end(3), []*vs.FCmd{
			vipOn(11),
			vs.WRegister(12, "n1", "", vs.WService("web-proxy", "web-proxy-1", "web", nil)),
			vs.WManualVIP(13, "web", "10.77.0.1"),
		}})
	out = append(out, verifWitness{"C02", "witness-usage-index-restamped", "C02/query=ServiceUsage/field=index",
		"usage rows are stamped with the snapshot's last index", end(3), []*vs.FCmd{
			vs.WRegister(11, "n1", "", vs.WService("web", "web-1", "", nil)),
			vs.WKVSet(12, "a", "v1"),
			vs.WKVSet(15, "b", "v1"),
		}})
	out = append(out, verifWitness{"C02", "witness-peering-index-regress", "C02/table=index/key=peering",
		"Restore.Peering overwrites the table index with the index of the peering restored last", end(3), []*vs.FCmd{
			vs.WPeeringGenerateToken(11, "2a000000-0000-4000-8000-000000000001", "peerA", "3a000000-0000-4000-8000-000000000001"),
			vs.WPeeringGenerateToken(12, "2a000000-0000-4000-8000-000000000002", "peerB", "3a000000-0000-4000-8000-000000000002"),
			vs.WPeeringGenerateToken(15, "2a000000-0000-4000-8000-000000000001", "peerA", "3a000000-0000-4000-8000-000000000003"),
		}})
	out = append(out, verifWitness{"C02", "witness-mesh-topology-peer-orphan", "C02/query=ServiceTopology/field=UpstreamDecisions",
		"mesh-topology link of an imported proxy survives its deregistration online, not a restore", end(3), []*vs.FCmd{
			vs.WCASetConfig(10),
			vs.WRegister(11, "n1", "peerA", vs.WService("web-proxy", "web-proxy-1", "web", nil, "api")),
			vs.WDeregNode(12, "n1", "peerA"),
		}})
	out = append(out, verifWitness{"C02", "witness-check-service-tags-stale", "C02/table=checks/field=ServiceTags",
		"a check's denormalised ServiceTags is not refreshed online when the service is re-registered with other tags", end(2), []*vs.FCmd{
			vs.WRegister(11, "n1", "", vs.WService("web", "web-1", "", []string{"b"}), vs.WCheck("c3", "web-1", "web", api.HealthPassing)),
			vs.WRegister(12, "n1", "", vs.WService("web", "web-1", "", []string{"a", "b"})),
		}})
	out = append(out, verifWitness{"C02", "witness-gateway-services-rederived-terminating", "C02/query=GatewayServices/field=CreateIndex",
		"wildcard terminating-gateway links come back with the config entry's index and without ServiceKind", end(3), []*vs.FCmd{
			vs.WConfig(11, &structs.TerminatingGatewayConfigEntry{Kind: structs.TerminatingGateway, Name: "term-gw", Services: []structs.LinkedService{{Name: "*"}}}),
			vs.WRegister(13, "n1", "", vs.WService("db", "db-1", "", nil)),
			vs.WKVSet(15, "a", "v1"),
		}})
	out = append(out, verifWitness{"C02", "witness-gateway-services-rederived-ingress", "C02/query=CheckIngressServiceNodes/field=index",
		"wildcard ingress link for a proxy-only destination is not rebuilt; explicit links lose ServiceKind and ModifyIndex", end(4), []*vs.FCmd{
			vs.WConfig(11, &structs.IngressGatewayConfigEntry{Kind: structs.IngressGateway, Name: "ingress-gw", Listeners: []structs.IngressListener{
				{Port: 8000, Protocol: "http", Services: []structs.IngressService{{Name: "*"}}}, {Port: 8001, Protocol: "tcp", Services: []structs.IngressService{{Name: "api"}}}}}),
			vs.WRegister(13, "n1", "", vs.WService("web-proxy", "web-proxy-1", "web", nil)),
			vs.WRegister(14, "n1", "", vs.WService("api", "api-1", "", nil)),
			vs.WRegister(16, "n1", "", vs.WService("ingress-gw", "ingress-gw-1", "", nil)),
		}})
	return out
}

func TestVerifC01MakeWitnesses(t *testing.T) {
	dir := os.Getenv("VERIF_MAKE_WITNESS")
	if dir == "" {
		t.Skip("VERIF_MAKE_WITNESS not set")
	}
	for _, w := range verifWitnesses() {
		rp := verifkit.Replay{Property: w.property, Key: w.key, Detail: "fixed witness", Note: w.note}
		for _, c := range append([]*vs.FCmd{w.plan}, w.cmds...) {
			b, err := json.Marshal(c)
			if err != nil {
				t.Fatal(err)
			}
			rp.Ops = append(rp.Ops, b)
		}
		b, _ := json.MarshalIndent(rp, "", " ")
		p := filepath.Join(dir, w.property, w.name+".json")
		_ = os.MkdirAll(filepath.Dir(p), 0o755)
		if err := os.WriteFile(p, b, 0o644); err != nil {
			t.Fatal(err)
		}
		t.Logf("wrote %s", p)
	}
}
