package fsm

// C01 — Replicas that apply the same committed log hold the same state.
//
// A log of commands over EVERY message type registered by commands_ce.go (accepted and rejected ones, shaped as
// the RPC endpoints shape them before raftApply) is generated while it is applied to replica A. Then, inside a
// testing/synctest bubble, the fake clock is advanced by a drawn amount (1 ms … 400 days) and the SAME byte
// slices are applied to one or more fresh replicas B. Oracle:
//
//   (i)   per entry, FSM.Apply returned the same thing on both: errors by type and text, values by canonical
//         JSON with lists compared AS ORDERED LISTS (the statement names iteration order);
//   (ii)  the canonical dumps of all memdb tables (index table included) and of the resource store are equal;
//   (iii) the input byte slices are unchanged after apply.
//
// Deliberately not compared: the lock-delay map (unreplicated by design), tombstone-GC hints, log output, metrics.
// A panic of the FSM on an endpoint-valid command is a violation (endpoint-invalid commands are never generated).

import (
	"fmt"
	"testing"
	"testing/synctest"
	"time"

	"github.com/hashicorp/consul/agent/structs"
	"github.com/hashicorp/consul/api"
	"github.com/hashicorp/consul/internal/verifkit"
	vs "github.com/hashicorp/consul/internal/verifstate"
	"pgregory.net/rapid"
)

var verifC01Skews = []time.Duration{time.Millisecond, time.Second, 90 * time.Minute, 26 * time.Hour, 31 * 24 * time.Hour, 400 * 24 * time.Hour}

func verifSkewLabel(d time.Duration) string {
	switch {
	case d < time.Second:
		return "skew<1s"
	case d < time.Hour:
		return "skew<1h"
	case d < 48*time.Hour:
		return "skew<2d"
	case d < 60*24*time.Hour:
		return "skew<60d"
	}
	return "skew>=60d"
}

// verifC01Run executes one case: plan, log on A, skew, log on B (plan.Reps times), comparison.
func verifC01Run(f verifkit.F, c *verifkit.Case, cov *verifCoverage, plan *vs.FCmd, next func(a *verifReplica, i int) *vs.FCmd) {
	defer c.GuardPanic(f, "C01/panic")
	c.Op(plan)
	a := verifNewReplica(f)
	var closers []*verifReplica
	closers = append(closers, a)
	defer func() {
		for _, r := range closers {
			r.close()
		}
	}()
	var cmds []*vs.FCmd
	var resA []verifResult
	var fams verifFamilies
	accepted, rejected := 0, 0
	delayed := map[string]verifDelayed{} // keys force-released (or deleted) when a session carrying a lock-delay ended
	var elapsedA, elapsedB int64
	paced := false
	for i := 0; ; i++ {
		cmd := next(a, i)
		if cmd == nil {
			break
		}
		c.Op(cmd)
		if cmd.GapA > 0 {
			time.Sleep(time.Duration(cmd.GapA)) // wall-clock pacing of replica A (fake clock)
		}
		before := verifLockDelayHolders(a)
		res := a.apply(f, c, "C01", cmd)
		elapsedA += cmd.GapA
		elapsedB += cmd.GapB
		if key := verifLockKey(cmd); key != "" {
			if d, ok := delayed[key]; ok {
				c.Label("lock-after-lockdelay-session-ended")
				// does the delay still run on one replica and not on the other when the lock entry is applied?
				if (elapsedA-d.atA < d.delay) != (elapsedB-d.atB < d.delay) {
					c.Label("lock-after-lockdelay-session-ended/pacing-straddles-the-delay")
				}
			}
		}
		for sess, h := range before {
			if _, s, _ := a.fsm.State().SessionGet(nil, sess, nil); s == nil {
				for _, k := range h.keys {
					delayed[k] = verifDelayed{delay: int64(h.delay), atA: elapsedA, atB: elapsedB}
				}
			}
		}
		if cmd.GapA != cmd.GapB {
			paced = true
		}
		cmds = append(cmds, cmd)
		resA = append(resA, res)
		fams.note(cmd, res)
		if cov != nil {
			cov.add(cmd, res.Class)
			cov.reason(cmd, res)
		}
		c.Labelf("type=%s", vs.FTypeName(cmd.MsgType()))
		if res.Class == "accepted" {
			accepted++
			c.Labelf("accepted:%s", vs.FTypeName(cmd.MsgType()))
		} else {
			rejected++
			c.Labelf("rejected:%s", vs.FTypeName(cmd.MsgType()))
		}
		if r, ok := res.Raw.(structs.AssignServiceManualVIPsResponse); ok {
			switch n := len(r.UnassignedFrom); {
			case n >= 2:
				c.Label("vip-moved-from>=2-services")
			case n == 1:
				c.Label("vip-moved-from-1-service")
			}
		}
	}
	dumpA := a.dump()

	// labels and the non-triviality rule
	c.Labelf("families-accepted=%d", min(len(fams.fam), 8))
	if rejected > 0 && accepted > 0 {
		c.Label("mixed-accepted-and-rejected")
	}
	if tot := accepted + rejected; tot > 0 {
		c.Labelf("rejected-share=%d%%", (rejected*100/tot)/20*20)
	}
	skew := time.Duration(plan.SkewNS)
	c.Label(verifSkewLabel(skew))
	if paced {
		c.Label("replicas-paced-differently")
	}
	if len(fams.fam) >= 3 && fams.multi {
		c.NonTrivial()
	}

	reps := plan.Reps
	if reps < 1 {
		reps = 1
	}
	for rep := 0; rep < reps; rep++ {
		time.Sleep(skew) // fake clock inside the synctest bubble
		b := verifNewReplica(f)
		closers = append(closers, b)
		for i, cmd := range cmds {
			if cmd.GapB > 0 {
				time.Sleep(time.Duration(cmd.GapB)) // this replica's own pacing
			}
			rb := b.apply(f, c, "C01", cmd)
			if rb.Canon != resA[i].Canon {
				path, orderOnly := verifJSONDiff(resA[i].Canon, rb.Canon)
				key := fmt.Sprintf("C01/result-differs/%s/field=%s", vs.FTypeName(cmd.MsgType()), path)
				if orderOnly {
					key = fmt.Sprintf("C01/result-order-differs/%s/field=%s", vs.FTypeName(cmd.MsgType()), path)
				}
				c.Violation(f, key, "entry #%d (index %d) %s [%s]: replica A returned\n   %s\nreplica B (clock +%s) returned\n   %s", i, cmd.Idx, cmd.Kind, cmd.Desc, resA[i].Canon, skew, rb.Canon)
			}
		}
		dumpB := b.dump()
		if diffs := vs.DiffDumps(dumpA, dumpB, nil); len(diffs) > 0 {
			seen := map[string]bool{}
			for _, d := range diffs {
				if seen[d.Signature()] {
					continue
				}
				seen[d.Signature()] = true
				c.Violation(f, "C01/state-differs/"+d.Signature(), "after the same %d entries replica B (clock +%s) differs from replica A (%d differences), first of this kind: %s", len(cmds), skew, len(diffs), d)
			}
		}
	}
}

func TestVerifC01Replicas(t *testing.T) {
	verifCheckCommandTable(t)
	rec := verifkit.For("C01")
	defer rec.Flush()
	cov := verifNewCoverage(rec)
	maxCmds := verifkit.EnvInt("VERIF_C01_CMDS", 60)
	reps := verifkit.EnvInt("VERIF_C01_REPS", 1)
	var cases int64
	rapid.Check(t, func(t *rapid.T) {
		c := rec.NewCase()
		rapid.SyncTest(t, func(t *rapid.T) {
			n := rapid.IntRange(5, maxCmds).Draw(t, "ncmds")
			skew := verifC01Skews[rapid.IntRange(0, len(verifC01Skews)-1).Draw(t, "skewbucket")]
			if rapid.IntRange(0, 3).Draw(t, "skewfree") == 0 {
				skew = time.Duration(rapid.Int64Range(int64(time.Millisecond), int64(400*24*time.Hour)).Draw(t, "skewns"))
			}
			plan := &vs.FCmd{Kind: "plan", SkewNS: int64(skew), Reps: reps}
			var g *verifLogGen
			verifC01Run(t, c, cov, plan, func(a *verifReplica, i int) *vs.FCmd {
				if g == nil {
					g = verifNewLogGen(t, a)
				}
				if i >= n {
					return nil
				}
				cmd := g.next(t)
				cmd.GapA, cmd.GapB = verifDrawGap(t, "gapA"), verifDrawGap(t, "gapB")
				return cmd
			})
		})
		c.Done()
		cases++
	})
	cov.dumpReasons(t)
	cov.assertAllTypes(t, cases)
}

// TestVerifC01Coverage is the loud failure for a command table that grew without the harness.
func TestVerifC01Coverage(t *testing.T) {
	verifCheckCommandTable(t)
}

func verifC01Feeder(cmds []*vs.FCmd) func(a *verifReplica, i int) *vs.FCmd {
	return func(_ *verifReplica, i int) *vs.FCmd {
		if i >= len(cmds) {
			return nil
		}
		return cmds[i]
	}
}

// TestVerifC01Replay re-executes saved logs (and the fixed witnesses of recorded findings) without rapid. Because
// the findings of this property can depend on Go's map iteration order, a replay applies the log to 16 replicas B.
func TestVerifC01Replay(t *testing.T) {
	rec := verifkit.For("C01")
	defer rec.Flush()
	run := func(label string, plan *vs.FCmd, cmds []*vs.FCmd) {
		c := rec.NewCase()
		c.Label(label)
		if plan.Reps < 16 {
			plan.Reps = 16
		}
		synctest.Test(t, func(st *testing.T) {
			verifC01Run(st, c, nil, plan, verifC01Feeder(cmds))
		})
		c.Done()
	}
	files := verifkit.ReplayFiles("C01")
	for _, path := range files {
		plan, cmds := verifLoadCmds(t, path)
		run("replay", plan, cmds)
	}
}


// verifDrawGap draws the wall-clock time that passes on one replica before an entry: mostly none, sometimes a
// millisecond to a minute (the range of lock delays and timers), sometimes hours.
func verifDrawGap(t *rapid.T, label string) int64 {
	switch k := rapid.IntRange(0, 19).Draw(t, label); {
	case k <= 12:
		return 0
	case k <= 14:
		return int64(time.Duration(rapid.IntRange(1, 5000).Draw(t, label+"ms")) * time.Millisecond)
	case k <= 17:
		return int64(time.Duration(rapid.IntRange(5, 90).Draw(t, label+"s")) * time.Second)
	}
	return int64(time.Duration(rapid.IntRange(1, 48).Draw(t, label+"h")) * time.Hour)
}

type verifDelayed struct{ delay, atA, atB int64 }

type verifDelayHolder struct {
	delay time.Duration
	keys  []string
}

// verifLockDelayHolders lists, per live session that carries a lock-delay, the keys it holds.
func verifLockDelayHolders(r *verifReplica) map[string]*verifDelayHolder {
	out := map[string]*verifDelayHolder{}
	st := r.fsm.State()
	_, sessions, _ := st.SessionList(nil, nil)
	for _, s := range sessions {
		if s.LockDelay > 0 {
			d := s.LockDelay
			if d > structs.MaxLockDelay {
				d = structs.MaxLockDelay
			}
			out[s.ID] = &verifDelayHolder{delay: d}
		}
	}
	if len(out) == 0 {
		return out
	}
	_, ents, _ := st.KVSList(nil, "", nil)
	for _, e := range ents {
		if h := out[e.Session]; h != nil {
			h.keys = append(h.keys, e.Key)
		}
	}
	return out
}

// verifLockKey returns the key a KVS lock command (or the first lock verb of a transaction) is about, else "".
func verifLockKey(cmd *vs.FCmd) string {
	switch cmd.MsgType() {
	case structs.KVSRequestType:
		var req structs.KVSRequest
		if structs.Decode(cmd.Bytes()[1:], &req) == nil && req.Op == api.KVLock {
			return req.DirEnt.Key
		}
	case structs.TxnRequestType:
		var req structs.TxnRequest
		if structs.Decode(cmd.Bytes()[1:], &req) == nil {
			for _, op := range req.Ops {
				if op.KV != nil && op.KV.Verb == api.KVLock {
					return op.KV.DirEnt.Key
				}
			}
		}
	}
	return ""
}
