package fsm_test

// C10 — Conditional writes are honest (FSM level): the commands of internal/verifc10 are encoded exactly as
// raftApply encodes them (structs.Encode(msgType, request)) and applied with FSM.Apply(&raft.Log{Index, Data}).
// This target additionally covers the composite CAOpSetRootsAndConfig (it exists only as an FSM command): after
// the command either both the roots and the configuration changed, or neither.
//
// See agent/consul/state/verif_c10_cells_test.go and internal/verifc10 for the oracle.

import (
	"fmt"
	"testing"

	"github.com/hashicorp/go-hclog"
	"github.com/hashicorp/raft"
	"pgregory.net/rapid"

	"github.com/hashicorp/consul/agent/consul/fsm"
	"github.com/hashicorp/consul/agent/consul/state"
	"github.com/hashicorp/consul/agent/structs"
	"github.com/hashicorp/consul/internal/verifc10"
	vs "github.com/hashicorp/consul/internal/verifstate"
)

type verifC10FSMExec struct{}

func (verifC10FSMExec) Name() string         { return "fsm" }
func (verifC10FSMExec) Supports(string) bool { return true }

func (verifC10FSMExec) New() (*state.Store, func(b *verifc10.Built) verifc10.Outcome, func()) {
	vs.StubNet()
	f := fsm.NewFromDeps(fsm.Deps{
		Logger:         hclog.NewNullLogger(),
		NewStateStore:  func() *state.Store { return state.NewStateStore(nil) },
		StorageBackend: fsm.NullStorageBackend,
	})
	return f.State(), func(b *verifc10.Built) verifc10.Outcome { return verifC10Apply(f, b) }, func() {}
}

func verifC10Apply(f *fsm.FSM, b *verifc10.Built) verifc10.Outcome {
	var (
		mt  structs.MessageType
		req interface{}
	)
	switch b.Type {
	case verifc10.TKVCAS, verifc10.TKVDeleteCAS:
		mt, req = structs.KVSRequestType, &structs.KVSRequest{Datacenter: "dc1", Op: b.KVOp, DirEnt: *b.KV}
	case verifc10.TTxnKVCAS, verifc10.TTxnKVDeleteCAS, verifc10.TTxnNodeCAS, verifc10.TTxnNodeDelCAS,
		verifc10.TTxnSvcCAS, verifc10.TTxnSvcDelCAS, verifc10.TTxnCheckCAS, verifc10.TTxnCheckDelCAS:
		mt, req = structs.TxnRequestType, &structs.TxnRequest{Datacenter: "dc1", Ops: b.Txn}
	case verifc10.TCfgUpsertCAS, verifc10.TCfgStatusCAS, verifc10.TCfgDeleteCAS:
		mt, req = structs.ConfigEntryRequestType, &structs.ConfigEntryRequest{Datacenter: "dc1", Op: b.CEOp, Entry: b.CE}
	case verifc10.TCAConfigCAS, verifc10.TCARootsCAS, verifc10.TCAComposite:
		mt, req = structs.ConnectCARequestType, b.CA
	case verifc10.TAutopilotCAS:
		mt, req = structs.AutopilotRequestType, b.AP
	case verifc10.TFeatureGate:
		mt, req = structs.FeatureGateRequestType, b.FG
	case verifc10.TTokenCAS:
		mt, req = structs.ACLTokenSetRequestType, b.Tok
	default:
		panic("verif C10: fsm executor cannot run " + b.Type)
	}
	buf, err := structs.Encode(mt, req)
	if err != nil {
		panic(fmt.Sprintf("verif C10: cannot encode %s: %v", b.Type, err))
	}
	resp := f.Apply(&raft.Log{Index: b.Idx, Data: buf})
	switch r := resp.(type) {
	case structs.TxnResponse:
		return verifc10.TxnOutcome(r.Errors)
	case bool:
		return verifc10.Outcome{Observable: true, Reported: r, Verdict: !r}
	case error:
		switch b.Type {
		case verifc10.TCAConfigCAS, verifc10.TCAComposite:
			return verifc10.CAConfigOutcome(false, r)
		}
		return verifc10.Outcome{Observable: b.Type != verifc10.TTokenCAS, Err: r.Error()}
	case nil:
		switch b.Type {
		case verifc10.TTokenCAS:
			return verifc10.Outcome{} // ACLTokenBatchSet: error only, no applied-indicator
		case verifc10.TCAConfigCAS:
			// CAOpSetConfig with ModifyIndex 0 = unconditional CASetConfig: nil error = written
			return verifc10.Outcome{Observable: true, Reported: true}
		}
	}
	panic(fmt.Sprintf("verif C10: unexpected FSM response %T %v for %s", resp, resp, b.Type))
}

func verifC10Check(t verifc10.T, name string, prop func(*rapid.T)) {
	t.(*testing.T).Run(name, func(t *testing.T) { rapid.Check(t, prop) })
}

func TestVerifC10Cells(t *testing.T) {
	verifc10.RunCells(t, verifC10FSMExec{}, verifC10Check)
}

func TestVerifC10Replay(t *testing.T) {
	verifc10.RunReplay(t, verifC10FSMExec{})
}
