package fsm

// Shared machinery of the C01 (replica determinism) and C02 (snapshot/restore) checks: FSM replicas with a real
// raft storage backend whose goroutines live exactly as long as the case, application of encoded log entries,
// canonical rendering of Apply results, whole-replica dumps (every state-store table + the resource store),
// enumeration of the command table registered by commands_ce.go, and the log generator wrapper.

import (
	"bytes"
	"context"
	"encoding/json"
	"fmt"
	"os"
	"reflect"
	"sort"
	"strings"
	"sync"
	"testing"

	"github.com/hashicorp/go-hclog"
	"github.com/hashicorp/raft"
	"google.golang.org/protobuf/proto"
	"pgregory.net/rapid"

	"github.com/hashicorp/consul/agent/consul/state"
	"github.com/hashicorp/consul/agent/structs"
	"github.com/hashicorp/consul/internal/storage"
	raftstorage "github.com/hashicorp/consul/internal/storage/raft"
	"github.com/hashicorp/consul/internal/verifkit"
	vs "github.com/hashicorp/consul/internal/verifstate"
	"github.com/hashicorp/consul/proto-public/pbresource"
)

// verifReplica is one server's state machine.
type verifReplica struct {
	fsm     *FSM
	backend *raftstorage.Backend
	cancel  context.CancelFunc
	done    chan struct{}
}

func verifNewReplica(f verifkit.F) *verifReplica {
	vs.StubNet()
	logger := hclog.NewNullLogger()
	backend, err := raftstorage.NewBackend(nil, logger)
	if err != nil {
		f.Fatalf("raft storage backend: %v", err)
	}
	ctx, cancel := context.WithCancel(context.Background())
	r := &verifReplica{backend: backend, cancel: cancel, done: make(chan struct{})}
	go func() {
		defer close(r.done)
		backend.Run(ctx)
	}()
	r.fsm = NewFromDeps(Deps{
		Logger:         logger,
		NewStateStore:  func() *state.Store { return state.NewStateStore(nil) },
		StorageBackend: backend,
	})
	return r
}

// close stops the backend's goroutines and waits for them (no goroutine outlives the case).
func (r *verifReplica) close() {
	r.cancel()
	<-r.done
}

var verifResTypes = []storage.UnversionedType{{Group: "demo", Kind: "Artist"}}

func (r *verifReplica) resources() []*pbresource.Resource {
	var out []*pbresource.Resource
	for _, typ := range verifResTypes {
		rs, err := r.backend.List(context.Background(), storage.EventualConsistency, typ,
			&pbresource.Tenancy{Partition: storage.Wildcard, Namespace: storage.Wildcard}, "")
		if err != nil {
			panic(fmt.Sprintf("verif: resource list: %v", err))
		}
		out = append(out, rs...)
	}
	return out
}

// dump renders the whole replica: every memdb table of the state store (index table included) plus the resource
// store as the pseudo-table "~resources". The lock-delay map is not a table and is deliberately not part of it.
func (r *verifReplica) dump() vs.Dump {
	d := vs.TakeDump(r.fsm.State())
	for _, res := range r.resources() {
		d["~resources"] = append(d["~resources"], vs.CanonJSON(res))
	}
	sort.Strings(d["~resources"])
	return d
}

// verifResult is the canonical form of what FSM.Apply returned.
type verifResult struct {
	Canon string // type + canonical JSON (lists keep their order; maps are sorted)
	Class string // accepted | rejected | refused
	Raw   interface{}
}

func verifCanonResult(v interface{}) verifResult {
	switch x := v.(type) {
	case nil:
		return verifResult{Canon: "nil", Class: "accepted"}
	case error:
		return verifResult{Canon: fmt.Sprintf("error(%T): %s", x, x.Error()), Class: "rejected"}
	case bool:
		if x {
			return verifResult{Canon: "bool: true", Class: "accepted"}
		}
		return verifResult{Canon: "bool: false", Class: "refused"}
	case structs.TxnResponse:
		cls := "accepted"
		if len(x.Errors) > 0 {
			cls = "rejected"
		}
		return verifResult{Canon: "TxnResponse: " + vs.CanonJSON(x), Class: cls}
	case structs.AssignServiceManualVIPsResponse:
		cls := "accepted"
		if !x.Found {
			cls = "refused"
		}
		return verifResult{Canon: fmt.Sprintf("%T: %s", v, vs.CanonJSON(v)), Class: cls}
	case proto.Message:
		return verifResult{Canon: fmt.Sprintf("%T: %s", v, vs.CanonJSON(v)), Class: "accepted"}
	}
	return verifResult{Canon: fmt.Sprintf("%T: %s", v, vs.CanonJSON(v)), Class: "accepted"}
}

// apply feeds one encoded entry to the replica and checks that the input bytes are left alone.
func (r *verifReplica) apply(f verifkit.F, c *verifkit.Case, prop string, cmd *vs.FCmd) verifResult {
	data := cmd.Bytes()
	keep := append([]byte(nil), data...)
	res := r.fsm.Apply(&raft.Log{Index: cmd.Idx, Type: raft.LogCommand, Data: data})
	out := verifCanonResult(res)
	out.Raw = res
	if !bytes.Equal(keep, data) {
		c.Violation(f, prop+"/log-bytes-mutated/"+vs.FTypeName(structs.MessageType(cmd.Type)), "applying %s (index %d) changed the log entry's bytes", cmd.Desc, cmd.Idx)
		copy(data, keep)
	}
	return out
}

// ---- registered command table

// verifRegisteredTypes lists the message types registered by commands_ce.go init().
func verifRegisteredTypes() []structs.MessageType {
	var out []structs.MessageType
	for t := range commands {
		out = append(out, t)
	}
	sort.Slice(out, func(i, j int) bool { return out[i] < out[j] })
	return out
}

// verifCheckCommandTable fails loudly when the command table holds a type the generator does not know (or the
// generator claims a type that is not registered).
func verifCheckCommandTable(t *testing.T) {
	t.Helper()
	reg := map[structs.MessageType]bool{}
	for _, mt := range verifRegisteredTypes() {
		reg[mt] = true
		if _, ok := vs.FTypeNames[mt]; !ok {
			t.Fatalf("VERIF-HARNESS-GAP: message type %d is registered in the FSM command table but the harness has no generator for it (add one to verifstate/fsm_gen.go and FTypeNames)", mt)
		}
	}
	for mt, name := range vs.FTypeNames {
		if !reg[mt] {
			t.Fatalf("VERIF-HARNESS-GAP: harness generates message type %d (%s) which is not registered in the FSM command table", mt, name)
		}
	}
}

// verifCoverage counts generated commands per message type and outcome across the whole process.
type verifCoverage struct {
	mu  sync.Mutex
	n   map[string]int64
	rec *verifkit.Rec
}

func verifNewCoverage(rec *verifkit.Rec) *verifCoverage {
	return &verifCoverage{n: map[string]int64{}, rec: rec}
}

func (v *verifCoverage) add(cmd *vs.FCmd, class string) {
	v.mu.Lock()
	defer v.mu.Unlock()
	k := fmt.Sprintf("cmd:%02d-%s:%s", cmd.MsgType(), vs.FTypeName(cmd.MsgType()), class)
	v.n[k]++
	v.rec.AddExtraInt(k, 1)
}

// reason counts why commands were rejected (development aid: VERIF_DEBUG_REJECTS=1 prints the table).
func (v *verifCoverage) reason(cmd *vs.FCmd, res verifResult) {
	if res.Class == "accepted" || os.Getenv("VERIF_DEBUG_REJECTS") == "" {
		return
	}
	v.mu.Lock()
	defer v.mu.Unlock()
	txt := res.Canon
	if len(txt) > 110 {
		txt = txt[:110]
	}
	v.n["why:"+cmd.Kind+": "+txt]++
}

func (v *verifCoverage) dumpReasons(t *testing.T) {
	if os.Getenv("VERIF_DEBUG_REJECTS") == "" {
		return
	}
	var ks []string
	for k := range v.n {
		if strings.HasPrefix(k, "why:") {
			ks = append(ks, k)
		}
	}
	sort.Strings(ks)
	for _, k := range ks {
		t.Logf("%6d %s", v.n[k], k)
	}
}

// assertAllTypes fails the run when a registered message type was never generated (only meaningful for real runs).
func (v *verifCoverage) assertAllTypes(t *testing.T, cases int64) {
	if cases < 150 {
		return
	}
	v.mu.Lock()
	defer v.mu.Unlock()
	for _, mt := range verifRegisteredTypes() {
		var tot int64
		pre := fmt.Sprintf("cmd:%02d-%s:", mt, vs.FTypeName(mt))
		for k, n := range v.n {
			if strings.HasPrefix(k, pre) {
				tot += n
			}
		}
		if tot == 0 {
			t.Fatalf("VERIF-HARNESS-GAP: message type %d (%s) is registered but was never generated in %d cases", mt, vs.FTypeName(mt), cases)
		}
	}
}

// ---- log generation

// verifLogGen draws a log command by command while applying it to the reference replica (the generator peeks at
// that replica's store to aim its choices).
type verifLogGen struct {
	w       *vs.FWorld
	cfg     *vs.FCfg
	prelude []*vs.FCmd
	focus   string
}

func verifNewLogGen(t *rapid.T, r *verifReplica) *verifLogGen {
	w := vs.NewFWorld(r.fsm.State())
	w.Resource = r.resources
	focus := vs.Focuses[rapid.IntRange(0, len(vs.Focuses)-1).Draw(t, "focus")]
	g := &verifLogGen{w: w, cfg: vs.DefaultFCfg().Focused(focus), focus: focus}
	g.prelude = w.Prelude(t)
	return g
}

func (g *verifLogGen) next(t *rapid.T) *vs.FCmd {
	if len(g.prelude) > 0 {
		c := g.prelude[0]
		g.prelude = g.prelude[1:]
		return c
	}
	return g.w.DrawCmd(t, g.cfg)
}

// verifLoadCmds decodes a replay file: first the plan, then the log.
func verifLoadCmds(t *testing.T, path string) (*vs.FCmd, []*vs.FCmd) {
	rp, err := verifkit.LoadReplay(path)
	if err != nil {
		t.Fatal(err)
	}
	var plan *vs.FCmd
	var cmds []*vs.FCmd
	for _, raw := range rp.Ops {
		var c vs.FCmd
		if err := json.Unmarshal(raw, &c); err != nil {
			t.Fatalf("%s: %v", path, err)
		}
		if c.Kind == "plan" {
			cc := c
			plan = &cc
			continue
		}
		cc := c
		cmds = append(cmds, &cc)
	}
	if plan == nil {
		plan = &vs.FCmd{Kind: "plan"}
	}
	return plan, cmds
}

// verifFamilies tracks the table families with at least one accepted command and whether a multi-row command was accepted.
type verifFamilies struct {
	fam   map[string]bool
	multi bool
	rmw   bool
}

func (v *verifFamilies) note(cmd *vs.FCmd, res verifResult) {
	if v.fam == nil {
		v.fam = map[string]bool{}
	}
	if res.Class != "accepted" {
		return
	}
	v.fam[cmd.Fam] = true
	v.multi = v.multi || cmd.Multi
	v.rmw = v.rmw || cmd.RMW
}

// verifJSONDiff returns the first differing path of two canonical results and whether they are equal once every
// list is sorted (i.e. the difference is one of ORDER only).
func verifJSONDiff(a, b string) (path string, orderOnly bool) {
	split := func(s string) (string, interface{}) {
		for i := 0; i+1 < len(s); i++ {
			if s[i] == ':' && s[i+1] == ' ' {
				var g interface{}
				if json.Unmarshal([]byte(s[i+2:]), &g) == nil {
					return s[:i], g
				}
				break
			}
		}
		return s, nil
	}
	if strings.HasPrefix(a, "error(") && strings.HasPrefix(b, "error(") {
		ea, eb := strings.SplitN(a, "): ", 2), strings.SplitN(b, "): ", 2)
		if ea[0] == eb[0] {
			return "error-text", false
		}
		return "error-type", false
	}
	ta, ga := split(a)
	tb, gb := split(b)
	if ta != tb {
		return "type", false
	}
	if ga == nil || gb == nil {
		return "value", false
	}
	path = verifDiffPath("", ga, gb)
	return path, reflect.DeepEqual(verifSortLists(ga), verifSortLists(gb))
}

func verifDiffPath(prefix string, a, b interface{}) string {
	switch x := a.(type) {
	case map[string]interface{}:
		y, ok := b.(map[string]interface{})
		if !ok {
			return prefix
		}
		keys := map[string]bool{}
		for k := range x {
			keys[k] = true
		}
		for k := range y {
			keys[k] = true
		}
		var ks []string
		for k := range keys {
			ks = append(ks, k)
		}
		sort.Strings(ks)
		for _, k := range ks {
			if !reflect.DeepEqual(x[k], y[k]) {
				p := k
				if prefix != "" {
					p = prefix + "." + k
				}
				return verifDiffPath(p, x[k], y[k])
			}
		}
	case []interface{}:
		y, ok := b.([]interface{})
		if !ok || len(x) != len(y) {
			return prefix + "[]"
		}
		for i := range x {
			if !reflect.DeepEqual(x[i], y[i]) {
				return verifDiffPath(prefix+"[]", x[i], y[i])
			}
		}
	}
	if prefix == "" {
		return "value"
	}
	return prefix
}

func verifSortLists(g interface{}) interface{} {
	switch x := g.(type) {
	case map[string]interface{}:
		out := map[string]interface{}{}
		for k, v := range x {
			out[k] = verifSortLists(v)
		}
		return out
	case []interface{}:
		out := make([]interface{}, len(x))
		keys := make([]string, len(x))
		for i, v := range x {
			out[i] = verifSortLists(v)
			b, _ := json.Marshal(out[i])
			keys[i] = string(b)
		}
		idx := make([]int, len(x))
		for i := range idx {
			idx[i] = i
		}
		sort.Slice(idx, func(i, j int) bool { return keys[idx[i]] < keys[idx[j]] })
		sorted := make([]interface{}, len(x))
		for i, j := range idx {
			sorted[i] = out[j]
		}
		return sorted
	}
	return g
}

