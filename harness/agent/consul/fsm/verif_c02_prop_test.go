package fsm

// C02 — Snapshot and restore reproduce the state exactly, at any point of any history.
//
// X applies a generated history h (same generator as C01). At a drawn cut point k in 0..|h| (both ends included)
// X's snapshot is persisted (FSM.Snapshot().Persist) and restored (FSM.Restore) into Y — a fresh FSM, or an FSM
// that lags behind at h[:j], j <= k, as a follower receiving InstallSnapshot — and Y continues with h[k:]. In 30 %
// of the cases a second cut is taken on Y itself (snapshot of a restored store). Levels:
//
//   L1  every client-writable base table of Y equals X's row for row (content, CreateIndex, ModifyIndex) and the
//       whole `index` table is equal — right after the restore and at the end;
//   L2  every query of the panel (verif_c02_panel_test.go) reports the same result AND the same index on X and Y,
//       right after the restore and at the end;
//   L3  every Apply result after the cut is equal on X and Y;
//   L4  (diagnostic) derived tables are diffed raw; a difference there that neither L2 nor L3 can see is counted
//       in the evidence and NOT reported;
//   plus: persisting the restored store again yields the same multiset of snapshot records; the store the FSM held
//   before Restore is abandoned (AbandonCh closed) and was not before.
//
// Every difference L2/L3 can see is keyed individually: C02/query=<family>/field=<path>.
//
// Point in time: raft keeps applying entries while a snapshot is being written. The snapshot is therefore TAKEN
// (FSM.Snapshot) at entry k but PERSISTED only after plan.Late further entries h[k:k+late] were applied to the same
// FSM; the restored server must still equal the state as of k. Wall clock: the case runs inside a testing/synctest
// bubble and the fake clock is advanced by plan.SkewNS right before the snapshot is taken (tokens written earlier may
// have expired by then without having been reaped): nothing of that may change what the snapshot contains.

import (
	"bytes"
	"fmt"
	"io"
	"os"
	"sort"
	"strings"
	"testing"
	"testing/synctest"
	"time"

	"github.com/hashicorp/raft"

	"github.com/hashicorp/consul-net-rpc/go-msgpack/codec"

	"github.com/hashicorp/consul/agent/consul/state"
	"github.com/hashicorp/consul/agent/structs"
	"github.com/hashicorp/consul/internal/verifkit"
	vs "github.com/hashicorp/consul/internal/verifstate"
	"pgregory.net/rapid"
)

// verifDerivedTables are rebuilt or maintained by other code on restore than online; they are judged through the
// query panel and later command results (L2/L3), their raw rows only diagnostically (L4).
var verifDerivedTables = map[string]bool{
	"gateway-services": true, "mesh-topology": true, "kind-service-names": true, "service-virtual-ips": true,
	"free-virtual-ips": true, "session_checks": true, "usage": true,
}

func verifDerivedIndexKey(k string) bool {
	for t := range verifDerivedTables {
		if k == t || strings.HasPrefix(k, t+".") {
			return true
		}
	}
	return strings.HasPrefix(k, "kind_service_names")
}

type verifSink struct {
	bytes.Buffer
	cancelled bool
}

func (s *verifSink) ID() string    { return "verif" }
func (s *verifSink) Cancel() error { s.cancelled = true; return nil }
func (s *verifSink) Close() error  { return nil }

func verifPersist(f verifkit.F, r *verifReplica) []byte {
	snap, err := r.fsm.Snapshot()
	if err != nil {
		f.Fatalf("FSM.Snapshot: %v", err)
	}
	defer snap.Release()
	sink := &verifSink{}
	if err := snap.Persist(sink); err != nil {
		f.Fatalf("snapshot Persist: %v", err)
	}
	return sink.Bytes()
}

// verifSnapshotRecords decodes a snapshot stream into a multiset of canonical records (type + content).
func verifSnapshotRecords(buf []byte) (map[string]int, error) {
	out := map[string]int{}
	var hdr *SnapshotHeader
	err := ReadSnapshot(bytes.NewReader(buf), func(h *SnapshotHeader, msg structs.MessageType, dec *codec.Decoder) error {
		hdr = h
		var raw interface{}
		if err := dec.Decode(&raw); err != nil {
			return err
		}
		out[fmt.Sprintf("%d:%s", msg, vs.CanonJSON(raw))]++
		return nil
	})
	if hdr != nil {
		out[fmt.Sprintf("header:%d", hdr.LastIndex)]++
	}
	return out, err
}

// verifC02Downstream maps observations that are CONSEQUENCES of a recorded root cause onto that root cause: once the
// restored server has lost the manual virtual IPs (known finding), later manual-VIP commands legitimately answer
// differently and the re-persisted virtual-IP records lack the field. They are counted under the root-cause key while
// that key is listed as known and was observed in the same case; otherwise they are reported under their own key.
var verifC02Downstream = []struct{ prefix, suffix, root string }{
	{"C02/result-differs/UpdateVirtualIP/", "", "C02/query=ServiceManualVIPs/field=ManualIPs"},
	{"C02/query=ServiceManualVIPs/", "", "C02/query=ServiceManualVIPs/field=ManualIPs"},
	{"C02/re-persist-differs/type=32", "", "C02/query=ServiceManualVIPs/field=ManualIPs"},
	// a check's denormalised ServiceTags differs in the base table: every query that returns checks shows it, and the
	// re-persisted registration records carry the refreshed tags
	{"C02/query=", "/field=ServiceTags", "C02/table=checks/field=ServiceTags"},
	{"C02/re-persist-differs/type=0", "", "C02/table=checks/field=ServiceTags"},
	// the peering table index regressed: the peering queries report it, the re-persisted index record and the
	// snapshot header (max over all table indexes) differ
	{"C02/query=PeeringList", "/field=index", "C02/table=index/key=peering"},
	{"C02/query=ExportedServicesForAllPeersByName", "/field=index", "C02/table=index/key=peering"},
	{"C02/re-persist-differs/type=16", "", "C02/table=index/key=peering"},
	{"C02/re-persist-differs/type=header", "", "C02/table=index/key=peering"},
	{"C02/query=PeeringTrustBundleList", "/field=index", "C02/table=index/key=peering-trust-bundles"},
	{"C02/re-persist-differs/type=16", "", "C02/table=index/key=peering-trust-bundles"},
	{"C02/re-persist-differs/type=header", "", "C02/table=index/key=peering-trust-bundles"},
}

type verifC02Reporter struct {
	f     verifkit.F
	c     *verifkit.Case
	roots map[string]bool
}

// verifC02BaseDivergence lists tolerated root causes after which the BASE state of the two servers differs: whatever
// is applied afterwards runs on different states (e.g. a check write that is a no-op on one server and a change on
// the other), so the rest of such a case is not compared.
var verifC02BaseDivergence = []string{"C02/table=checks/field=ServiceTags"}

func (r *verifC02Reporter) diverged() bool {
	for _, k := range verifC02BaseDivergence {
		if r.roots[k] {
			r.c.Label("rest-of-case-skipped-after-known-base-divergence")
			return true
		}
	}
	return false
}

func (r *verifC02Reporter) report(key, format string, args ...interface{}) {
	rec := verifkit.For("C02")
	for _, d := range verifC02Downstream {
		if strings.HasPrefix(key, d.prefix) && strings.HasSuffix(key, d.suffix) && key != d.root && rec.IsKnown(d.root) && r.roots[d.root] {
			r.c.KnownHit(d.root)
			r.c.Label("downstream-of-known:" + d.root)
			return
		}
	}
	if os.Getenv("VERIF_C02_COLLECT") != "" && !rec.IsKnown(key) { // development aid: enumerate signatures without failing
		if !r.roots["collect:"+key] {
			r.roots["collect:"+key] = true
			r.c.Label("collect:" + key)
			if dir := os.Getenv("VERIF_REPLAY_DIR"); dir != "" {
				name := dir + "/collect-" + strings.NewReplacer("/", "_", " ", "_").Replace(key) + ".txt"
				if _, err := os.Stat(name); err != nil {
					var sb strings.Builder
					fmt.Fprintf(&sb, "%s\n%s\n", key, fmt.Sprintf(format, args...))
					for _, op := range r.c.Ops() {
						if cmd, ok := op.(*vs.FCmd); ok {
							fmt.Fprintf(&sb, "  %s idx=%d %s cuts=%v reps=%d\n", cmd.Kind, cmd.Idx, cmd.Desc, cmd.Cuts, cmd.Reps)
						}
					}
					_ = os.WriteFile(name, []byte(sb.String()), 0o644)
				}
			}
		}
		return
	}
	if r.c.Violation(r.f, key, format, args...) {
		r.roots[key] = true
	}
}

type verifC02Point struct {
	dump  vs.Dump
	panel []verifAnswer
}

func verifC02Observe(r *verifReplica) verifC02Point {
	return verifC02Point{dump: r.dump(), panel: verifAsk(r.fsm.State())}
}

// verifStripIdx turns a result path into a signature component: list markers and segments that are names of the
// generated universe (map keys such as service names) are dropped, at most three segments are kept.
func verifStripIdx(p string) string {
	var out []string
	for _, seg := range strings.Split(strings.ReplaceAll(p, "[]", ""), ".") {
		if seg == "" || verifUniverseNames[seg] {
			continue
		}
		out = append(out, seg)
		if len(out) == 3 {
			break
		}
	}
	return strings.Join(out, ".")
}

// verifFieldClass coarsens a result path into the field class used in finding keys: "index" (the index the query
// reports), "error", "RaftIndex" (Create/ModifyIndex inside the result), "rows" (membership of a result list or an
// identity field: the compared lists are sorted, so a missing row shows up as a shifted identity), else the name of
// the differing field.
func verifFieldClass(path string) string {
	if path == "index" || path == "error" {
		return path
	}
	p := verifStripIdx(path)
	if p == "" || p == "value" {
		return "rows"
	}
	segs := strings.Split(p, ".")
	last := segs[len(segs)-1]
	switch last {
	case "CreateIndex", "ModifyIndex":
		return "RaftIndex"
	case "Name", "Node", "ID", "CheckID", "Key", "ServiceID", "Service", "Gateway", "ServiceName":
		return "rows"
	}
	if len(segs) > 1 && (segs[0] == "UpstreamDecisions" || segs[0] == "DownstreamDecisions" || segs[0] == "UpstreamSources" || segs[0] == "DownstreamSources") {
		return segs[0]
	}
	return last
}

var verifUniverseNames = func() map[string]bool {
	m := map[string]bool{"*": true, "peerA": true, "peerB": true}
	for _, l := range [][]string{verifPanelServices, vs.Nodes, vs.ServiceNames, vs.Keys, vs.CheckIDs} {
		for _, n := range l {
			m[n] = true
		}
	}
	return m
}()

// verifC02Compare judges Y against X at one observation point.
func verifC02Compare(rp *verifC02Reporter, when string, x, y verifC02Point) {
	c := rp.c
	if os.Getenv("VERIF_C02_DEBUG") != "" {
		for _, d := range vs.DiffDumps(x.dump, y.dump, nil) {
			rp.f.Logf("DEBUG %s: table diff %s", when, d)
		}
		for _, d := range verifPanelDiff(x.panel, y.panel) {
			rp.f.Logf("DEBUG %s: panel diff %s(%s) %s: %.300s | %.300s", when, d.name, d.arg, d.field, d.a, d.b)
		}
	}
	// L1: base tables + index table, strict
	base := func(t string) bool { return !verifDerivedTables[t] }
	seen := map[string]bool{}
	for _, d := range vs.DiffDumps(x.dump, y.dump, base) {
		sig := d.Signature()
		if d.Table == "index" { // the row identity IS the signature for the index table
			sig = "table=index/" + strings.Replace(d.Key, "Key=", "key=", 1)
			if verifDerivedIndexKey(strings.TrimPrefix(d.Key, "Key=")) {
				// the index row of a derived table: judged through the indexes the queries report (L2)
				c.Labelf("L4-diagnostic:%s", sig)
				continue
			}
		}
		if seen[sig] {
			continue
		}
		seen[sig] = true
		rp.report("C02/"+sig, "%s: base table differs between the original (a) and the restored server (b): %s", when, d)
	}
	// L2: the query panel
	visible := map[string]bool{}
	for _, d := range verifPanelDiff(x.panel, y.panel) {
		key := fmt.Sprintf("C02/query=%s/field=%s", d.name, verifFieldClass(d.field))
		visible[d.name] = true
		if seen[key] {
			continue
		}
		seen[key] = true
		rp.report(key, "%s: query %s(%s) differs in %s\n   original: %s\n   restored: %s", when, d.name, d.arg, d.field, d.a, d.b)
	}
	// L4: derived tables, diagnostic only
	for _, d := range vs.DiffDumps(x.dump, y.dump, func(t string) bool { return verifDerivedTables[t] }) {
		c.Labelf("L4-diagnostic:%s", d.Signature())
	}
}

// verifC02Run executes one case. plan.Cuts = [k] or [k, k2]; plan.Reps > 0 = restore into a lagging follower at h[:Reps-1].
func verifC02Run(f verifkit.F, c *verifkit.Case, cov *verifCoverage, plan *vs.FCmd, next func(x *verifReplica, i int) *vs.FCmd) {
	defer c.GuardPanic(f, "C02/panic")
	rp := &verifC02Reporter{f: f, c: c, roots: map[string]bool{}}
	c.Op(plan)
	x := verifNewReplica(f)
	closers := []*verifReplica{x}
	defer func() {
		for _, r := range closers {
			r.close()
		}
	}()
	cuts := append([]int(nil), plan.Cuts...)
	sort.Ints(cuts)
	var cmds []*vs.FCmd
	var resX []verifResult
	points := map[int]verifC02Point{}
	snaps := map[int][]byte{}
	var pending raft.FSMSnapshot // taken at the first cut, persisted plan.Late entries later
	pendingAt, persistAt := -1, -1
	persistPending := func() {
		if pending == nil {
			return
		}
		sink := &verifSink{}
		if err := pending.Persist(sink); err != nil {
			f.Fatalf("snapshot Persist: %v", err)
		}
		pending.Release()
		snaps[pendingAt] = sink.Bytes()
		pending = nil
	}
	defer func() {
		if pending != nil {
			pending.Release()
		}
	}()
	famsAtCut := map[int]int{}
	derivedAtCut := map[int]bool{}
	var fams verifFamilies
	observe := func(i int) {
		for _, k := range cuts {
			if k == i {
				if _, done := points[i]; !done {
					points[i] = verifC02Observe(x)
					famsAtCut[i] = len(fams.fam)
					for t := range verifDerivedTables {
						if t != "usage" && len(points[i].dump[t]) > 0 {
							derivedAtCut[i] = true
						}
					}
				}
			}
		}
		if len(cuts) > 0 && cuts[0] == i && pendingAt < 0 {
			if plan.SkewNS > 0 {
				time.Sleep(time.Duration(plan.SkewNS)) // fake clock (synctest): wall time passes before the snapshot
			}
			snap, err := x.fsm.Snapshot()
			if err != nil {
				f.Fatalf("FSM.Snapshot: %v", err)
			}
			pending, pendingAt, persistAt = snap, i, i+plan.Late
		}
		if pending != nil && i >= persistAt {
			if i > pendingAt {
				c.Label("persists-after-later-applies")
			}
			persistPending()
		}
	}
	for i := 0; ; i++ {
		observe(i)
		cmd := next(x, i)
		if cmd == nil {
			break
		}
		c.Op(cmd)
		res := x.apply(f, c, "C02", cmd)
		cmds = append(cmds, cmd)
		resX = append(resX, res)
		fams.note(cmd, res)
		if cov != nil {
			cov.add(cmd, res.Class)
		}
		c.Labelf("type=%s", vs.FTypeName(cmd.MsgType()))
	}
	n := len(cmds)
	if pending != nil {
		if n > pendingAt {
			c.Label("persists-after-later-applies")
		}
		persistPending()
	}
	final := verifC02Observe(x)
	if len(cuts) == 0 {
		return
	}
	for i := range cuts {
		if cuts[i] > n {
			cuts[i] = n // replay of a shortened history
			if _, ok := points[n]; !ok {
				points[n] = final
				if i == 0 && snaps[n] == nil {
					snaps[n] = verifPersist(f, x)
				}
			}
		}
	}

	// labels / non-triviality
	k := cuts[0]
	switch {
	case k == 0:
		c.Label("cut=0")
	case k == n:
		c.Label("cut=end")
	case k*3 < n:
		c.Label("cut=early")
	case k*3 < 2*n:
		c.Label("cut=middle")
	default:
		c.Label("cut=late")
	}
	c.Labelf("families-at-cut=%d", min(famsAtCut[k], 6))
	if derivedAtCut[k] {
		c.Label("derived-tables-nonempty-at-cut")
	}
	rmwAfter := false
	for i := k; i < n; i++ {
		rmwAfter = rmwAfter || (cmds[i].RMW && resX[i].Class == "accepted")
	}
	if rmwAfter {
		c.Label("rmw-after-cut")
	}
	if k > 0 && k < n && famsAtCut[k] >= 3 && rmwAfter {
		c.NonTrivial()
	}
	// sessions bound to checks at the cut that are gone at the end although their node is still there: ended through
	// the session-check links (a derived table the restore has to rebuild)
	if bound := points[k].dump.Rows("session_checks"); len(bound) > 0 {
		c.Label("check-bound-session-at-cut")
		alive, nodes := map[string]bool{}, map[string]bool{}
		for _, r := range final.dump.Rows("sessions") {
			alive[fmt.Sprint(r["ID"])] = true
		}
		for _, r := range final.dump.Rows("nodes") {
			nodes[fmt.Sprint(r["Node"])] = true
		}
		for _, r := range bound {
			if !alive[fmt.Sprint(r["Session"])] && nodes[fmt.Sprint(r["Node"])] {
				c.Label("check-bound-session-ended-after-cut")
			}
		}
		for _, r := range points[k].dump.Rows("sessions") {
			if sc, ok := r["ServiceChecks"].([]interface{}); ok && len(sc) > 0 {
				c.Label("service-check-bound-session-at-cut")
				if !alive[fmt.Sprint(r["ID"])] && nodes[fmt.Sprint(r["Node"])] {
					c.Label("service-check-bound-session-ended-after-cut")
				}
			}
		}
	}
	// tokens that had expired (fake wall clock) but were not reaped when the snapshot was written
	now := time.Now()
	for _, r := range points[k].dump.Rows("acl-tokens") {
		if exp, _ := r["ExpirationTime"].(string); exp != "" {
			if tm, err := time.Parse(time.RFC3339Nano, exp); err == nil && tm.Before(now) {
				c.Label("expired-unreaped-token-at-cut")
				stillThere := false
				for _, e := range final.dump.Rows("acl-tokens") {
					stillThere = stillThere || e["AccessorID"] == r["AccessorID"]
				}
				if !stillThere {
					c.Label("expired-token-reaped-after-cut")
				}
			}
		}
	}

	// ---- Y: restore X's snapshot taken at k
	var y *verifReplica
	lag := plan.Reps - 1
	if lag >= 0 {
		if lag > k {
			lag = k
		}
		c.Label("restore-into=lagging-follower")
		y = verifNewReplica(f)
		for i := 0; i < lag; i++ {
			y.apply(f, c, "C02", cmds[i])
		}
	} else {
		c.Label("restore-into=fresh")
		y = verifNewReplica(f)
	}
	closers = append(closers, y)
	at := k
	snapBytes := snaps[k]
	for ci := 0; ci < len(cuts); ci++ {
		if ci > 0 {
			// second cut: snapshot of the (restored and continued) store Y, restored into a fresh FSM
			c.Label("second-cut")
			for ; at < cuts[ci]; at++ {
				verifC02Step(rp, y, cmds, resX, at)
			}
			snap2, err := y.fsm.Snapshot()
			if err != nil {
				f.Fatalf("FSM.Snapshot: %v", err)
			}
			for j := 0; j < plan.Late && at+j < n; j++ { // the old server keeps applying while the snapshot is written
				verifC02Step(rp, y, cmds, resX, at+j)
			}
			sink := &verifSink{}
			if err := snap2.Persist(sink); err != nil {
				f.Fatalf("snapshot Persist: %v", err)
			}
			snap2.Release()
			snapBytes = sink.Bytes()
			y = verifNewReplica(f)
			closers = append(closers, y)
		}
		old := y.fsm.State()
		select {
		case <-old.AbandonCh():
			c.Violation(f, "C02/abandoned-before-restore", "state store was abandoned before Restore")
		default:
		}
		if err := y.fsm.Restore(io.NopCloser(bytes.NewReader(snapBytes))); err != nil {
			c.Violation(f, "C02/restore-error", "FSM.Restore of a snapshot taken at entry %d failed: %v", cuts[ci], err)
			return
		}
		select {
		case <-old.AbandonCh():
		default:
			c.Violation(f, "C02/old-store-not-abandoned", "after Restore the previous state store's AbandonCh is still open (blocked queries would never wake)")
		}
		if y.fsm.State() == old {
			c.Violation(f, "C02/store-not-swapped", "after Restore FSM.State() still returns the old store")
		}
		verifC02Compare(rp, fmt.Sprintf("right after restoring the snapshot taken at entry %d of %d", cuts[ci], n), points[cuts[ci]], verifC02Observe(y))
		if rp.diverged() {
			return
		}
		// round-trip idempotence: persist(restore(s)) has the same records as s
		again := verifPersist(f, y)
		ra, errA := verifSnapshotRecords(snapBytes)
		rb, errB := verifSnapshotRecords(again)
		if errA != nil || errB != nil {
			c.Violation(f, "C02/snapshot-undecodable", "cannot decode snapshot streams: %v / %v", errA, errB)
		} else {
			for rec, cnt := range ra {
				if rb[rec] != cnt {
					rp.report("C02/re-persist-differs/type="+strings.SplitN(rec, ":", 2)[0], "snapshot record present %d times in the snapshot but %d times when the restored store is persisted again: %s", cnt, rb[rec], rec)
					break
				}
			}
			for rec, cnt := range rb {
				if ra[rec] != cnt {
					rp.report("C02/re-persist-differs/type="+strings.SplitN(rec, ":", 2)[0], "snapshot record present %d times when the restored store is persisted again but %d times in the snapshot: %s", cnt, ra[rec], rec)
					break
				}
			}
		}
	}
	for ; at < n; at++ {
		verifC02Step(rp, y, cmds, resX, at)
	}
	verifC02Compare(rp, fmt.Sprintf("at the end (cut at %v of %d)", cuts, n), final, verifC02Observe(y))
}

// verifC02Step applies entry i to Y and compares the result with X's (L3).
func verifC02Step(rp *verifC02Reporter, y *verifReplica, cmds []*vs.FCmd, resX []verifResult, i int) {
	ry := y.apply(rp.f, rp.c, "C02", cmds[i])
	if ry.Canon != resX[i].Canon {
		path, orderOnly := verifJSONDiff(resX[i].Canon, ry.Canon)
		if orderOnly {
			// the ORDER of a result list is replica determinism (C01), not restore fidelity
			rp.c.Label("result-order-differs(C01)")
			return
		}
		rp.report(fmt.Sprintf("C02/result-differs/%s/field=%s", vs.FTypeName(cmds[i].MsgType()), verifFieldClass(path)),
			"entry #%d (index %d) %s [%s] after the restore: original returned\n   %s\nrestored server returned\n   %s", i, cmds[i].Idx, cmds[i].Kind, cmds[i].Desc, resX[i].Canon, ry.Canon)
	}
}

func TestVerifC02Restore(t *testing.T) {
	verifCheckCommandTable(t)
	rec := verifkit.For("C02")
	defer rec.Flush()
	cov := verifNewCoverage(rec)
	maxCmds := verifkit.EnvInt("VERIF_C02_CMDS", 80)
	rapid.Check(t, func(t *rapid.T) {
		c := rec.NewCase()
		n := rapid.IntRange(10, maxCmds).Draw(t, "ncmds")
		k := rapid.IntRange(0, n).Draw(t, "cut")
		switch rapid.IntRange(0, 19).Draw(t, "cutkind") { // both ends of the quantifier are hit on purpose
		case 18: // (rapid favours small draws: the rare choices sit at the top of the ranges)
			k = 0
		case 19:
			k = n
		}
		plan := &vs.FCmd{Kind: "plan", Cuts: []int{k}}
		if rapid.IntRange(0, 9).Draw(t, "secondcut") >= 7 {
			plan.Cuts = append(plan.Cuts, rapid.IntRange(k, n).Draw(t, "cut2"))
		}
		if rapid.IntRange(0, 9).Draw(t, "lagging") >= 7 {
			plan.Reps = 1 + rapid.IntRange(0, k).Draw(t, "lag")
		}
		if rapid.IntRange(0, 9).Draw(t, "late") >= 3 {
			plan.Late = rapid.IntRange(1, 8).Draw(t, "latecmds")
		}
		if rapid.IntRange(0, 9).Draw(t, "clock") >= 5 {
			plan.SkewNS = int64(verifC02Skews[rapid.IntRange(0, len(verifC02Skews)-1).Draw(t, "clockskew")])
		}
		rapid.SyncTest(t, func(t *rapid.T) {
			var g *verifLogGen
			verifC02Run(t, c, cov, plan, func(x *verifReplica, i int) *vs.FCmd {
				if g == nil {
					g = verifNewLogGen(t, x)
				}
				if i == k {
					g.w.Clock = g.w.Clock.Add(time.Duration(plan.SkewNS)) // the leader's clock is the wall clock
				}
				if i >= n {
					return nil
				}
				if plan.SkewNS >= int64(24*time.Hour) { // aim: an expiring token before the cut, the reaper after it
					if i == k-1 && rapid.IntRange(0, 9).Draw(t, "aimexptoken") >= 3 {
						if cmd := g.w.DrawExpiringToken(t); cmd != nil {
							return cmd
						}
					}
					if i == k+plan.Late+1 && rapid.IntRange(0, 9).Draw(t, "aimreap") >= 4 {
						if cmd := g.w.DrawReap(t); cmd != nil {
							return cmd
						}
					}
				}
				return g.next(t)
			})
		})
		c.Done()
	})
}

var verifC02Skews = []time.Duration{time.Minute, 90 * time.Minute, 30 * time.Hour, 30 * time.Hour, 40 * 24 * time.Hour}

// TestVerifC02Replay re-executes saved histories and the fixed witnesses of recorded findings without rapid.
func TestVerifC02Replay(t *testing.T) {
	rec := verifkit.For("C02")
	defer rec.Flush()
	for _, path := range verifkit.ReplayFiles("C02") {
		plan, cmds := verifLoadCmds(t, path)
		c := rec.NewCase()
		c.Label("replay")
		synctest.Test(t, func(st *testing.T) {
			verifC02Run(st, c, nil, plan, func(_ *verifReplica, i int) *vs.FCmd {
				if i >= len(cmds) {
					return nil
				}
				return cmds[i]
			})
		})
		c.Done()
	}
}

var _ = state.NewStateStore
