package fsm

// C11 — generator of schedules, the rapid property, fixed witnesses and the replay tier.
// See verif_c11_machine_test.go for the machine and the oracle.

import (
	"encoding/json"
	"os"
	"path/filepath"
	"sort"
	"testing"
	"testing/synctest"

	"pgregory.net/rapid"

	"github.com/hashicorp/consul/agent/structs"
	"github.com/hashicorp/consul/api"
	"github.com/hashicorp/consul/internal/verifkit"
	vs "github.com/hashicorp/consul/internal/verifstate"
)

// verifC11Cfg: catalog and config-entry histories (with connect proxies, native services, gateways, peers, node
// renames and multi-verb catalog transactions); a little KV as "irrelevant" batches.
var verifC11Cfg = &vs.Cfg{KV: 2, Catalog: 50, Dereg: 18, Txn: 8, Config: 22, TxnCatalog: true, Peers: true, Connect: true, Rename: true, MaxTxnOps: 3}

func verifC11Pick[T any](t *rapid.T, label string, xs []T) T {
	return xs[rapid.IntRange(0, len(xs)-1).Draw(t, label)]
}

func verifC11Chance(t *rapid.T, label string, pct int) bool {
	return rapid.IntRange(0, 99).Draw(t, label) < pct
}

// verifC11Gen draws the next action from the current state of the world (the state only aims the generator).
func verifC11Gen(t *rapid.T, w *verifC11World) *verifC11Act {
	var open, detached, withView []int
	for _, id := range w.order {
		s := w.subs[id]
		switch {
		case s == nil:
		case s.open:
			open = append(open, id)
			if s.hasView && !s.inSnapshot {
				withView = append(withView, id)
			}
		default:
			detached = append(detached, id)
		}
	}
	if len(w.queue) >= verifC11QueueHigh {
		return &verifC11Act{A: "drain", N: 8}
	}
	type choice struct {
		w int
		a string
	}
	cs := []choice{{30, "commit"}, {3, "acl"}, {3, "sleep"}, {2, "snap"}}
	if len(w.queue) > 0 {
		cs = append(cs, choice{16, "drain"})
	}
	switch {
	case len(open) == 0:
		cs = append(cs, choice{32, "sub"}) // nothing is watching: a schedule without subscribers decides nothing
	case len(open) < 5:
		cs = append(cs, choice{13, "sub"})
	}
	if len(open) > 0 {
		cs = append(cs, choice{22, "consume"})
	}
	if len(withView) > 0 {
		cs = append(cs, choice{5, "detach"}, choice{5, "bounce"})
	}
	if len(detached) > 0 {
		cs = append(cs, choice{16, "resume"})
	}
	if w.snap != nil {
		cs = append(cs, choice{2, "restore"})
	}
	total := 0
	for _, c := range cs {
		total += c.w
	}
	x := rapid.IntRange(0, total-1).Draw(t, "action")
	kind := ""
	for _, c := range cs {
		if x < c.w {
			kind = c.a
			break
		}
		x -= c.w
	}
	switch kind {
	case "commit":
		if op := verifC11MultiNode(t, w); op != nil {
			return &verifC11Act{A: "commit", Op: op}
		}
		if op := verifC11ConfigExtra(t, w); op != nil {
			return &verifC11Act{A: "commit", Op: op}
		}
		return &verifC11Act{A: "commit", Op: verifC11Retarget(t, w.gen.DrawOp(t, verifC11Cfg))}
	case "acl":
		return &verifC11Act{A: "acl", Idx: w.gen.NextIdx(t), ACL: verifC11Pick(t, "aclop", []string{
			"token:TA", "token:TB", "token:TC", "token-del:TA", "token-del:TB", "policy:P1", "policy:P2", "role:R1", "policy:P1", "role:R1"})}
	case "drain":
		return &verifC11Act{A: "drain", N: verifC11Pick(t, "ndrain", []int{1, 1, 1, 2, 3})}
	case "sub":
		id := w.nextSub
		q := verifC11DrawQ(t, w)
		if q.isHealth() && verifC11Chance(t, "healthfilter", 35) {
			q.HF = verifC11Pick(t, "hf", []int{1, 2, 2})
		}
		return &verifC11Act{A: "sub", Sub: id, Q: q, Token: verifC11Pick(t, "token", []string{"", "TA", "TA", "TB", "TB", "TC"}), Authz: verifC11DrawAuthz(t, w, q)}
	case "consume":
		// a restricted subscriber that shares its buffer with a differently privileged one tends to read first: the
		// filter of one reader must not change what the next reader of the same buffer item gets
		var first []int
		for _, id := range open {
			s := w.subs[id]
			if !s.restricted() {
				continue
			}
			for _, id2 := range open {
				if o := w.subs[id2]; o != s && o.q.id() == s.q.id() && o.authzName != s.authzName {
					first = append(first, id)
					break
				}
			}
		}
		if len(first) > 0 && verifC11Chance(t, "restrictedfirst", 65) {
			return &verifC11Act{A: "consume", Sub: verifC11Pick(t, "consumer1", first), N: 3}
		}
		return &verifC11Act{A: "consume", Sub: verifC11Pick(t, "consumer", open), N: rapid.IntRange(1, 3).Draw(t, "nconsume")}
	case "detach", "bounce":
		// prefer a subscriber that follows a buffer which another subscriber keeps alive: only such a client can be
		// resumed onto the live buffer
		var shared []int
		for _, id := range withView {
			if s := w.subs[id]; w.refs[s.q.id()] >= 2 {
				shared = append(shared, id)
			}
		}
		if len(shared) > 0 && verifC11Chance(t, "pickshared", 75) {
			return &verifC11Act{A: kind, Sub: verifC11Pick(t, "shared", shared)}
		}
		return &verifC11Act{A: kind, Sub: verifC11Pick(t, "unshared", withView)}
	case "resume":
		return &verifC11Act{A: "resume", Sub: verifC11Pick(t, "resumee", detached)}
	case "snap":
		return &verifC11Act{A: "snap"}
	case "restore":
		return &verifC11Act{A: "restore", N: verifC11Pick(t, "drainfirst", []int{1, 1, 0})}
	case "sleep":
		return &verifC11Act{A: "sleep", N: verifC11Pick(t, "sleep", []int{3, 3, 11})}
	}
	panic("unreachable")
}

// verifC11DrawAuthz picks what the subscriber may read. When another subscriber already follows the same
// (topic, subject) the new one mostly gets a DIFFERENT visibility (restricted next to privileged).
func verifC11DrawAuthz(t *rapid.T, w *verifC11World, q *verifC11Q) string {
	var other *verifC11Sub
	for _, id := range w.order {
		if s := w.subs[id]; s != nil && s.open && s.q.id() == q.id() {
			other = s
		}
	}
	if other != nil && verifC11Chance(t, "authzdiffer", 80) {
		if other.restricted() {
			return "all"
		}
		return verifC11Pick(t, "authzr", verifC11AuthzNames)
	}
	switch k := rapid.IntRange(0, 99).Draw(t, "authzkind"); {
	case k < 45:
		return "all"
	case k < 92:
		return verifC11Pick(t, "authzr2", verifC11AuthzNames)
	}
	return "none"
}

// verifC11MultiNode sometimes writes the SAME service on several nodes in one transaction (as a batch anti-entropy
// or Txn write does): the commit then yields one buffer item with several events for that service's subject, which
// a node-restricted subscriber is partially denied.
func verifC11MultiNode(t *rapid.T, w *verifC11World) *vs.Op {
	nodes := w.gen.LiveNodes("")
	if len(nodes) < 2 || !verifC11Chance(t, "multinode", 18) {
		return nil
	}
	svc := verifC11Pick(t, "mnsvc", vs.ServiceNames)
	port := verifC11Pick(t, "mnport", []int{8080, 9090, 7070})
	native := verifC11Chance(t, "mnnative", 25)
	var ops structs.TxnOps
	for _, n := range nodes {
		ns := structs.NodeService{ID: svc + "-1", Service: svc, Port: port, Weights: &structs.Weights{Passing: 1, Warning: 1}}
		ns.Connect.Native = native
		ops = append(ops, &structs.TxnOp{Service: &structs.TxnServiceOp{Verb: api.ServiceSet, Node: n.Node, Service: ns}})
	}
	return vs.NewTxn(w.gen.NextIdx(t), ops)
}

// verifC11Retarget sometimes turns a drawn sidecar registration into the registration of ONE fixed sidecar identity
// ("sidecar"/"sidecar-1") whose destination varies: the shared generator derives a proxy's ID from its destination,
// so without this no history would ever re-point an existing proxy instance at another service.
// verifC11ConfigExtra sometimes writes (or deletes) a config entry of the kinds the shared generator leaves out and
// that have a stream topic of their own: mesh, exported-services, jwt-provider.
func verifC11ConfigExtra(t *rapid.T, w *verifC11World) *vs.Op {
	if !verifC11Chance(t, "configextra", 4) {
		return nil
	}
	var e structs.ConfigEntry
	switch verifC11Pick(t, "cexkind", []string{"mesh", "exported", "exported", "jwt", "jwt"}) {
	case "mesh":
		e = &structs.MeshConfigEntry{TransparentProxy: structs.TransparentProxyMeshConfig{MeshDestinationsOnly: verifC11Chance(t, "meshdestonly", 50)},
			AllowEnablingPermissiveMutualTLS: verifC11Chance(t, "meshpermissive", 50)}
	case "exported":
		ex := &structs.ExportedServicesConfigEntry{Name: "default"}
		for i, n := 0, rapid.IntRange(1, 2).Draw(t, "nexported"); i < n; i++ {
			nm := verifC11Pick(t, "exsvc", []string{"web", "api", "db", "*"})
			dup := false
			for _, x := range ex.Services {
				dup = dup || x.Name == nm
			}
			if !dup {
				ex.Services = append(ex.Services, structs.ExportedService{Name: nm, Consumers: []structs.ServiceConsumer{{Peer: verifC11Pick(t, "expeer", []string{"peerA", "peerB"})}}})
			}
		}
		e = ex
	default:
		e = &structs.JWTProviderConfigEntry{Kind: structs.JWTProvider, Name: verifC11Pick(t, "jwtname", []string{"okta", "auth0"}),
			Issuer: verifC11Pick(t, "jwtissuer", []string{"https://a.example", "https://b.example"}),
			JSONWebKeySet: &structs.JSONWebKeySet{Remote: &structs.RemoteJWKS{URI: "https://a.example/jwks", FetchAsynchronously: true}}}
	}
	if err := e.Normalize(); err != nil {
		return nil
	}
	if err := e.Validate(); err != nil {
		return nil
	}
	if _, cur, _ := w.gen.Store.ConfigEntry(nil, e.GetKind(), e.GetName(), nil); cur != nil && verifC11Chance(t, "cexdelete", 30) {
		return vs.NewConfig(vs.ConfigDelete, w.gen.NextIdx(t), structs.ConfigEntryDelete, e)
	}
	return vs.NewConfig(vs.ConfigSet, w.gen.NextIdx(t), structs.ConfigEntryUpsert, e)
}

func verifC11Retarget(t *rapid.T, op *vs.Op) *vs.Op {
	if op.Kind != vs.Register || op.P.Reg.Service == nil || op.P.Reg.Service.Kind != structs.ServiceKindConnectProxy || op.P.Reg.PeerName != "" {
		return op
	}
	if !verifC11Chance(t, "retarget", 35) {
		return op
	}
	req := op.Fresh().Reg
	oldID := req.Service.ID
	req.Service.Service, req.Service.ID = "sidecar", "sidecar-1"
	req.Service.Proxy.DestinationServiceID = ""
	for _, c := range req.Checks {
		if c.ServiceID == oldID {
			c.ServiceID, c.ServiceName = "sidecar-1", "sidecar"
		}
	}
	return vs.NewRegister(op.Idx, req)
}

// verifC11DrawQ picks what to subscribe to: mostly something a still-unpublished commit changed (so that the
// commit/publish gap matters for it), sometimes what another subscriber already watches (snapshot cache), else
// anything of the universe.
func verifC11DrawQ(t *rapid.T, w *verifC11World) *verifC11Q {
	byID := map[string]verifC11Q{}
	for _, q := range w.universe {
		byID[q.id()] = q
	}
	k := rapid.IntRange(0, 99).Draw(t, "aim")
	if k < 45 && len(w.queue) > 0 {
		count := map[string]int{}
		for _, b := range w.queue {
			for _, id := range b.changed {
				count[id]++
			}
		}
		var ids, multi []string
		for id, n := range count {
			ids = append(ids, id)
			if n >= 2 {
				multi = append(multi, id)
			}
		}
		sort.Strings(ids)
		sort.Strings(multi)
		if len(multi) > 0 && verifC11Chance(t, "aimmulti", 60) {
			q := byID[verifC11Pick(t, "qmulti", multi)]
			return &q
		}
		if len(ids) > 0 {
			q := byID[verifC11Pick(t, "qchanged", ids)]
			return &q
		}
	}
	if k < 80 {
		var ids []string
		for id := range w.hist {
			ids = append(ids, id)
		}
		sort.Strings(ids)
		if len(ids) > 0 {
			q := byID[verifC11Pick(t, "qsame", ids)]
			return &q
		}
	}
	if k >= 80 && k < 90 {
		// wildcard subjects: their snapshots and many of their live batches carry several events in one buffer item
		var wild []verifC11Q
		for _, q := range w.universe {
			if q.Wild {
				wild = append(wild, q)
			}
		}
		q := verifC11Pick(t, "qwild", wild)
		return &q
	}
	q := verifC11Pick(t, "qany", w.universe)
	return &q
}

func verifC11RunCase(f verifkit.F, c *verifkit.Case, next func(w *verifC11World, i int) *verifC11Act) {
	defer c.GuardPanic(f, "C11/panic")
	w := verifC11NewWorld(f, c)
	defer w.close()
	for i := 0; ; i++ {
		a := next(w, i)
		if a == nil {
			break
		}
		c.Op(a)
		w.step(a)
	}
	w.finish()
}

func TestVerifC11Stream(t *testing.T) {
	rec := verifkit.For("C11")
	defer rec.Flush()
	maxSteps := verifkit.EnvInt("VERIF_C11_STEPS", 52)
	rapid.Check(t, func(t *rapid.T) {
		c := rec.NewCase()
		rapid.SyncTest(t, func(t *rapid.T) {
			n := rapid.IntRange(12, maxSteps).Draw(t, "steps")
			verifC11RunCase(t, c, func(w *verifC11World, i int) *verifC11Act {
				if i >= n {
					return nil
				}
				return verifC11Gen(t, w)
			})
		})
		c.Done()
	})
}

// ---- witnesses (fixed minimal schedules of the listed findings) and replay

func verifC11Reg(idx uint64, node, svcID, svc string, status string) *vs.Op {
	req := &structs.RegisterRequest{
		Datacenter: "dc1", Node: node, ID: vs.NodeIDs[node], Address: "10.0.0." + node[1:],
		Service: &structs.NodeService{ID: svcID, Service: svc, Port: 8080, Weights: &structs.Weights{Passing: 1, Warning: 1}},
		Checks:  structs.HealthChecks{{Node: node, CheckID: "c1", Name: "c1", Status: status, ServiceID: svcID, ServiceName: svc}},
	}
	return vs.NewRegister(idx, req)
}

func verifC11Witnesses() map[string][]*verifC11Act {
	web := &verifC11Q{Topic: "ServiceHealth", Name: "web"}
	return map[string][]*verifC11Act{
		// DESIGN §7-G: two commits are still unpublished when the subscription starts; its snapshot (index 12, check
		// critical) is followed by the batch of commit 11 (check passing), then by 12.
		"witness-stale-batch-after-snapshot": {
			{A: "commit", Op: verifC11Reg(11, "n1", "web-1", "web", api.HealthPassing)},
			{A: "commit", Op: verifC11Reg(12, "n1", "web-1", "web", api.HealthCritical)},
			{A: "sub", Sub: 1, Q: web},
			{A: "consume", Sub: 1, N: 1},
			{A: "drain", N: 1},
			{A: "consume", Sub: 1, N: 1},
		},
		// ServiceList topic: web has a plain instance and a connect-native one; deregistering the native one removes
		// the "connect-enabled" kind-service-names row, which is published as Deregister(web): the view loses web
		// although Store.ServiceList still lists it.
		"witness-service-list-kinds": {
			{A: "commit", Op: verifC11Reg(11, "n1", "web-1", "web", api.HealthPassing)},
			{A: "commit", Op: verifC11RegNative(12, "n2", "web-2", "web")},
			{A: "drain", N: 2},
			{A: "sub", Sub: 1, Q: &verifC11Q{Topic: "ServiceList", Wild: true}},
			{A: "consume", Sub: 1, N: 1},
			{A: "commit", Op: vs.NewDereg(vs.DeregService, 13, "n2", "web-2", "")},
			{A: "drain", N: 1},
			{A: "consume", Sub: 1, N: 1},
		},
		// Connect topic: db-1 is registered connect-native, a subscriber materializes it, then db-1 is re-registered
		// without Connect.Native: no event reaches the Connect topic and the view keeps the instance.
		"witness-connect-native-off": {
			{A: "commit", Op: verifC11RegConnect(11, "n2", "db-1", "db", true)},
			{A: "drain", N: 1},
			{A: "sub", Sub: 1, Q: &verifC11Q{Topic: "ServiceHealthConnect", Name: "db"}},
			{A: "consume", Sub: 1, N: 1},
			{A: "commit", Op: verifC11RegConnect(12, "n2", "db-1", "db", false)},
			{A: "drain", N: 1},
			{A: "consume", Sub: 1, N: 1},
		},
		// Connect topic + terminating gateway: node n2 carries the only instance of web and an instance of the gateway
		// that serves every service ("*"); deregistering the node removes the instance AND the web<-term-gw link in
		// one transaction, and nobody tells the subscribers of connect/web that the gateway instance is gone.
		"witness-gateway-instance-and-link-removed-together": {
			{A: "commit", Op: verifC11RegConnect(11, "n2", "web-1", "web", false)},
			{A: "commit", Op: verifC11RegGateway(12, "n2", "term-gw-1")},
			{A: "commit", Op: verifC11TermGW(13, "*")},
			{A: "drain", N: 3},
			{A: "sub", Sub: 1, Q: &verifC11Q{Topic: "ServiceHealthConnect", Name: "web"}},
			{A: "consume", Sub: 1, N: 1},
			{A: "commit", Op: vs.NewDereg(vs.DeregNode, 14, "n2", "", "")},
			{A: "drain", N: 1},
			{A: "consume", Sub: 1, N: 1},
		},
		// a commit made after the snapshot was taken is still unpublished when the restore happens; a subscription
		// of the restored store then receives it.
		"witness-pre-restore-batch-published-after-restore": {
			{A: "commit", Op: verifC11Reg(11, "n1", "web-1", "web", api.HealthPassing)},
			{A: "drain", N: 1},
			{A: "snap"},
			{A: "commit", Op: verifC11Reg(12, "n1", "web-1", "web", api.HealthCritical)},
			{A: "restore"},
			{A: "sub", Sub: 1, Q: web},
			{A: "consume", Sub: 1, N: 1},
			{A: "drain", N: 1},
			{A: "consume", Sub: 1, N: 1},
		},
		// the topic buffer survives the restore as long as a force-closed subscription has not unsubscribed yet; its
		// newest item (commit 12, discarded by the restore) is spliced behind the snapshot of the restored store.
		"witness-pre-restore-event-replayed-from-topic-buffer": {
			{A: "commit", Op: verifC11Reg(11, "n1", "web-1", "web", api.HealthPassing)},
			{A: "drain", N: 1},
			{A: "sub", Sub: 1, Q: web},
			{A: "consume", Sub: 1, N: 1},
			{A: "snap"},
			{A: "commit", Op: verifC11Reg(12, "n1", "web-1", "web", api.HealthCritical)},
			{A: "drain", N: 1},
			{A: "consume", Sub: 1, N: 1},
			{A: "restore"},
			{A: "sub", Sub: 2, Q: web},
			{A: "consume", Sub: 2, N: 2},
		},
		// a client that lost its connection before the restore reconnects with its last index; another (force-closed,
		// not yet unsubscribed) subscription keeps the topic buffer alive and its head still carries that index: the
		// client is resumed onto the buffer and keeps its pre-restore view.
		"witness-resume-across-restore": {
			{A: "commit", Op: verifC11Reg(11, "n1", "web-1", "web", api.HealthPassing)},
			{A: "drain", N: 1},
			{A: "sub", Sub: 1, Q: web},
			{A: "sub", Sub: 2, Q: web},
			{A: "consume", Sub: 1, N: 1},
			{A: "consume", Sub: 2, N: 1},
			{A: "snap"},
			{A: "commit", Op: verifC11Reg(12, "n1", "web-1", "web", api.HealthCritical)},
			{A: "drain", N: 1},
			{A: "consume", Sub: 1, N: 1},
			{A: "consume", Sub: 2, N: 1},
			{A: "detach", Sub: 1},
			{A: "restore"},
			{A: "resume", Sub: 1},
			{A: "consume", Sub: 1, N: 1},
		},
	}
}

func verifC11RegNative(idx uint64, node, svcID, svc string) *vs.Op {
	return verifC11RegConnect(idx, node, svcID, svc, true)
}

func verifC11RegGateway(idx uint64, node, svcID string) *vs.Op {
	req := &structs.RegisterRequest{
		Datacenter: "dc1", Node: node, ID: vs.NodeIDs[node], Address: "10.0.0." + node[1:],
		Service: &structs.NodeService{ID: svcID, Service: "term-gw", Kind: structs.ServiceKindTerminatingGateway, Port: 8444, Weights: &structs.Weights{Passing: 1, Warning: 1}},
	}
	return vs.NewRegister(idx, req)
}

func verifC11TermGW(idx uint64, services ...string) *vs.Op {
	e := &structs.TerminatingGatewayConfigEntry{Kind: structs.TerminatingGateway, Name: "term-gw"}
	for _, n := range services {
		e.Services = append(e.Services, structs.LinkedService{Name: n})
	}
	if err := e.Normalize(); err != nil {
		panic(err)
	}
	return vs.NewConfig(vs.ConfigSet, idx, structs.ConfigEntryUpsert, e)
}

func verifC11RegConnect(idx uint64, node, svcID, svc string, native bool) *vs.Op {
	req := &structs.RegisterRequest{
		Datacenter: "dc1", Node: node, ID: vs.NodeIDs[node], Address: "10.0.0." + node[1:],
		Service: &structs.NodeService{ID: svcID, Service: svc, Port: 8080, Weights: &structs.Weights{Passing: 1, Warning: 1},
			Connect: structs.ServiceConnect{Native: native}},
	}
	return vs.NewRegister(idx, req)
}

func verifC11LoadActs(t *testing.T, path string) []*verifC11Act {
	rp, err := verifkit.LoadReplay(path)
	if err != nil {
		t.Fatalf("verif C11: %v", err)
	}
	var acts []*verifC11Act
	for _, raw := range rp.Ops {
		var a verifC11Act
		if err := json.Unmarshal(raw, &a); err != nil {
			t.Fatalf("verif C11: %s: %v", path, err)
		}
		if a.Op != nil {
			a.Op.Load()
		}
		acts = append(acts, &a)
	}
	return acts
}

func verifC11Feed(acts []*verifC11Act) func(*verifC11World, int) *verifC11Act {
	return func(_ *verifC11World, i int) *verifC11Act {
		if i >= len(acts) {
			return nil
		}
		return acts[i]
	}
}

func TestVerifC11Replay(t *testing.T) {
	rec := verifkit.For("C11")
	defer rec.Flush()
	run := func(label string, acts []*verifC11Act) {
		c := rec.NewCase()
		c.Label(label)
		synctest.Test(t, func(t *testing.T) {
			verifC11RunCase(t, c, verifC11Feed(acts))
		})
		c.Done()
	}
	if os.Getenv("VERIF_REPLAY") == "" {
		ws := verifC11Witnesses()
		var names []string
		for name := range ws {
			names = append(names, name)
		}
		sort.Strings(names)
		for _, name := range names {
			if _, err := os.Stat(filepath.Join(os.Getenv("VERIF_CORPUS"), "C11", name+".json")); err == nil && os.Getenv("VERIF_C11_WRITE_WITNESSES") == "" {
				continue // the corpus holds this witness (written from this very table): run once
			}
			if dir := os.Getenv("VERIF_C11_WRITE_WITNESSES"); dir != "" {
				rp := verifkit.Replay{Property: "C11", Key: name, Detail: "fixed witness schedule"}
				for _, a := range ws[name] {
					b, _ := json.Marshal(a)
					rp.Ops = append(rp.Ops, b)
				}
				b, _ := json.MarshalIndent(rp, "", " ")
				_ = os.WriteFile(filepath.Join(dir, name+".json"), b, 0o644)
			}
			run("witness:"+name, ws[name])
		}
	}
	for _, path := range verifkit.ReplayFiles("C11") {
		run("replay:"+filepath.Base(path), verifC11LoadActs(t, path))
	}
}
