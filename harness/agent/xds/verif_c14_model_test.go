package xds

// C14 — The proxy authorization policy enforces exactly the intention decision.
//
// Differential / translation-validation check. A generated "program" is a list of intentions for the
// destination `api` (sources exact or `*`, local or peered, allow / deny / L7 permission lists, also
// wildcard-destination intentions as the intention match for `api` returns them), a default policy, a listener
// kind (TCP = network filter, HTTP = http filter) and the peering trust bundles the proxy holds.
// The program goes through the real config-entry Normalize/Validate/ToIntentions path and is translated by
// makeRBACNetworkFilter / makeRBACHTTPFilter. The delivered filter is unpacked and evaluated by the independent
// Envoy RBAC evaluator (verif_c14_eval_test.go) for every caller (and request) of a universe derived from the
// program: every mentioned name, fresh names, NEAR-MISSES (names / trust domains that differ from a mentioned
// one only where regex syntax could blur the difference), other partitions / namespaces / datacenters / trust
// domains, mesh-gateway forwarded callers with x-forwarded-client-cert, forged XFCC headers.
//
// Oracle = the documented intention semantics (docs: "Precedence and match order", service-intentions
// `Sources[].Permissions[]`):
//   * the caller's source is (peer, service name); candidates are the intentions whose source peer is equal and
//     whose source name is equal or `*`; the most specific wins (destination exact before `*`, then source exact
//     before `*`); no candidate => default policy;
//   * L4 winner: its action; L7 winner: permissions in order, the first matching one is terminal, no matching
//     permission => default policy; an L7 winner on a TCP listener => deny (rbac.go: "treat them as deny");
//   * the datacenter of the caller is not part of an intention source (any datacenter of the trust domain).
// Deliberately NOT asserted (left open by the documentation or by the deployment model):
//   * `Invert` on a header matcher other than `Present` when the header is absent (Envoy: no match; a reader of
//     the docs may expect a match): compared only when both readings give the same verdict;
//   * a caller presenting a PEER certificate directly to an HTTP listener that resolves peered sources through
//     XFCC ("exclusively resolvable using XFCC" — such callers arrive through the local mesh gateway);
//   * local services forwarded by a mesh gateway, non-service identities, JWT requirements (never generated),
//     requests with query strings, repeated headers, sameness groups, enterprise namespaces/partitions.

import (
	"encoding/json"
	"fmt"
	"net/url"
	"path/filepath"
	"regexp"
	"sort"
	"strings"
	"testing"

	envoy_rbac_v3 "github.com/envoyproxy/go-control-plane/envoy/config/rbac/v3"
	"google.golang.org/protobuf/encoding/protojson"
	"google.golang.org/protobuf/proto"
	"pgregory.net/rapid"

	"github.com/hashicorp/consul/agent/structs"
	"github.com/hashicorp/consul/internal/verifkit"
	"github.com/hashicorp/consul/proto/private/pbpeering"
)

// ---------------------------------------------------------------------------------------------------------
// program / caller encoding (JSON = replay file content)

type verifC14Hdr struct {
	Name       string `json:"name"`
	Present    bool   `json:"present,omitempty"`
	Exact      string `json:"exact,omitempty"`
	Prefix     string `json:"prefix,omitempty"`
	Suffix     string `json:"suffix,omitempty"`
	Contains   string `json:"contains,omitempty"`
	Regex      string `json:"regex,omitempty"`
	Invert     bool   `json:"invert,omitempty"`
	IgnoreCase bool   `json:"ignore_case,omitempty"`
}

type verifC14Perm struct {
	Action     string        `json:"action"`
	PathExact  string        `json:"path_exact,omitempty"`
	PathPrefix string        `json:"path_prefix,omitempty"`
	PathRegex  string        `json:"path_regex,omitempty"`
	Headers    []verifC14Hdr `json:"headers,omitempty"`
	Methods    []string      `json:"methods,omitempty"`
}

type verifC14Source struct {
	Name     string         `json:"name"`
	Peer     string         `json:"peer,omitempty"`
	DestWild bool           `json:"dest_wildcard,omitempty"` // intention `name -> *` instead of `name -> api`
	Action   string         `json:"action,omitempty"`        // allow | deny | "" when Perms are set
	Perms    []verifC14Perm `json:"perms,omitempty"`
}

type verifC14Bundle struct {
	Peer              string `json:"peer"`
	TrustDomain       string `json:"trust_domain"`
	ExportedPartition string `json:"exported_partition,omitempty"`
}

type verifC14Req struct {
	Method  string      `json:"method"`
	Path    string      `json:"path"`
	Headers [][2]string `json:"headers,omitempty"`
}

type verifC14Program struct {
	Kind         string           `json:"kind"` // "program"
	DefaultAllow bool             `json:"default_allow"`
	HTTP         bool             `json:"http"`
	TrustDomain  string           `json:"trust_domain"`
	Sources      []verifC14Source `json:"sources"` // in the order handed to makeRBAC*
	Bundles      []verifC14Bundle `json:"bundles,omitempty"`
	ExtraReqs    []verifC14Req    `json:"extra_reqs,omitempty"` // drawn requests (on top of the derived ones)
}

type verifC14Caller struct {
	Kind string `json:"kind"` // "caller"
	Via  string `json:"via"`  // direct | gateway
	// identity of the (originating) service
	TrustDomain string `json:"trust_domain"`
	Partition   string `json:"partition,omitempty"`
	Namespace   string `json:"namespace"`
	Datacenter  string `json:"datacenter"`
	Service     string `json:"service"`
	// via=gateway: identity of the mesh gateway that terminated the caller's TLS and forwards with XFCC
	GwTrustDomain string `json:"gw_trust_domain,omitempty"`
	GwPartition   string `json:"gw_partition,omitempty"`
	GwDatacenter  string `json:"gw_datacenter,omitempty"`
	// via=direct: XFCC elements the client sent itself (the sidecar appends the real one)
	ForgedXFCC string       `json:"forged_xfcc,omitempty"`
	Class      string       `json:"class"` // how the generator derived it (informational + non-triviality)
	Req        *verifC14Req `json:"req,omitempty"`

	// derived once per caller (not part of the encoding): what Envoy sees of the connection
	principal, xfcc string
}

const (
	verifC14Dest    = "api"
	verifC14LocalDC = "dc1"
)

func verifC14NormAP(ap string) string {
	if ap == "" {
		return "default"
	}
	return ap
}

// verifC14ServiceURI is the URI SAN of a service leaf certificate as it appears on the wire
// (spiffe://<trust domain>[/ap/<partition>]/ns/<ns>/dc/<dc>/svc/<name>, RFC 3986 escaped by net/url).
func verifC14ServiceURI(td, ap, ns, dc, svc string) string {
	path := "/ns/" + ns + "/dc/" + dc + "/svc/" + svc
	if verifC14NormAP(ap) != "default" {
		path = "/ap/" + ap + path
	}
	return (&url.URL{Scheme: "spiffe", Host: td, Path: path}).String()
}

func verifC14GatewayURI(td, ap, dc string) string {
	path := "/gateway/mesh/dc/" + dc
	if verifC14NormAP(ap) != "default" {
		path = "/ap/" + ap + path
	}
	return (&url.URL{Scheme: "spiffe", Host: td, Path: path}).String()
}

func (p *verifC14Program) expectXFCC() bool {
	if !p.HTTP || len(p.Bundles) == 0 {
		return false
	}
	for _, s := range p.Sources {
		if s.Peer != "" {
			return true
		}
	}
	return false
}

func (p *verifC14Program) bundle(peer string) *verifC14Bundle {
	for i := range p.Bundles {
		if p.Bundles[i].Peer == peer {
			return &p.Bundles[i]
		}
	}
	return nil
}

// ---------------------------------------------------------------------------------------------------------
// oracle: intention semantics

type verifC14Verdict struct {
	Defined bool
	Allowed bool
	Why     string
	Class   string // root-cause class used in violation keys
	Matches int    // number of intentions whose source matches the caller
	L7      bool   // the verdict depends on the request
}

// resolve maps a certificate identity to an intention source (peer "" = local). ok=false: no source.
func (p *verifC14Program) resolve(td, ap, ns string) (peer string, ok bool) {
	if ns != "default" {
		return "", false
	}
	if td == p.TrustDomain {
		if verifC14NormAP(ap) == "default" {
			return "", true
		}
		return "", false
	}
	for _, b := range p.Bundles {
		if b.TrustDomain == td && verifC14NormAP(b.ExportedPartition) == verifC14NormAP(ap) {
			return b.Peer, true
		}
	}
	return "", false
}

func verifC14Action(allow bool) string {
	if allow {
		return "allow"
	}
	return "deny"
}

// verifC14Decide: absentInvertMatches selects the reading of `Invert` on an absent header (see file comment).
func verifC14Decide(p *verifC14Program, c *verifC14Caller, absentInvertMatches bool) verifC14Verdict {
	return verifC14DecideRank(p, c, absentInvertMatches, false)
}

// verifC14DecideRank with sourceFirst=true is NOT the documented semantics: it ranks source specificity above
// destination specificity (exact -> * beats * -> api). It exists only to name a root cause: a policy that
// disagrees with the documented order but agrees with this one lets an exact-source intention on the wildcard
// destination override a wildcard-source intention on the exact destination.
func verifC14DecideRank(p *verifC14Program, c *verifC14Caller, absentInvertMatches, sourceFirst bool) verifC14Verdict {
	def := func(class, why string) verifC14Verdict {
		return verifC14Verdict{Defined: true, Allowed: p.DefaultAllow, Class: class,
			Why: why + " => default policy " + verifC14Action(p.DefaultAllow)}
	}
	xfcc := p.expectXFCC()
	var peer string
	switch c.Via {
	case "direct":
		pr, ok := p.resolve(c.TrustDomain, c.Partition, c.Namespace)
		if !ok {
			return def("no-source-identity", "certificate identity is no intention source of this cluster")
		}
		if pr != "" && xfcc {
			return verifC14Verdict{Why: "peer certificate presented directly to an HTTP listener that resolves peered sources through XFCC"}
		}
		peer = pr
	case "gateway":
		if !xfcc {
			return verifC14Verdict{Why: "gateway-forwarded caller on a listener that does not use XFCC"}
		}
		if c.GwTrustDomain != p.TrustDomain || verifC14NormAP(c.GwPartition) != "default" {
			return def("xfcc-untrusted-gateway", "forwarded by something that is not a mesh gateway of this cluster/partition")
		}
		pr, ok := p.resolve(c.TrustDomain, c.Partition, c.Namespace)
		if !ok {
			return def("xfcc-no-source-identity", "forwarded identity is no intention source of this cluster")
		}
		if pr == "" {
			return verifC14Verdict{Why: "local service forwarded by the local mesh gateway"}
		}
		peer = pr
	default:
		return verifC14Verdict{Why: "unknown via"}
	}
	prefix := ""
	if peer != "" {
		prefix = "peer-"
	}
	if c.Via == "gateway" {
		prefix = "xfcc-" + prefix
	}

	var win *verifC14Source
	winRank, n := -1, 0
	for i := range p.Sources {
		s := &p.Sources[i]
		if s.Peer != peer || (s.Name != c.Service && s.Name != "*") {
			continue
		}
		n++
		rank, dw, sw := 0, 2, 1
		if sourceFirst {
			dw, sw = 1, 2
		}
		if !s.DestWild {
			rank += dw
		}
		if s.Name != "*" {
			rank += sw
		}
		if rank > winRank {
			win, winRank = s, rank
		}
	}
	if win == nil {
		v := def(prefix+"no-intention-matches", "no intention matches the source")
		return v
	}
	desc := fmt.Sprintf("%s -> %s", win.Name, map[bool]string{true: "*", false: verifC14Dest}[win.DestWild])
	if peer != "" {
		desc = "peer(" + peer + ")/" + desc
	}
	multi := ""
	if n > 1 {
		multi = "shadowing-"
	}
	if len(win.Perms) == 0 {
		return verifC14Verdict{Defined: true, Allowed: win.Action == "allow", Matches: n,
			Class: prefix + multi + "l4", Why: fmt.Sprintf("intention %s wins (%d match): %s", desc, n, win.Action)}
	}
	if !p.HTTP {
		return verifC14Verdict{Defined: true, Allowed: false, Matches: n, Class: prefix + multi + "l7-on-tcp",
			Why: fmt.Sprintf("L7 intention %s wins on a TCP listener: deny", desc)}
	}
	if c.Req == nil {
		return verifC14Verdict{Why: "HTTP listener without request"}
	}
	for i, pm := range win.Perms {
		if verifC14PermMatches(&pm, c.Req, absentInvertMatches) {
			cl := "l7-first-permission"
			if i > 0 {
				cl = "l7-later-permission"
			}
			return verifC14Verdict{Defined: true, Allowed: pm.Action == "allow", Matches: n, L7: true,
				Class: prefix + multi + cl,
				Why:   fmt.Sprintf("L7 intention %s wins (%d match); permission #%d is the first that matches: %s", desc, n, i, pm.Action)}
		}
	}
	v := def(prefix+multi+"l7-no-permission", fmt.Sprintf("L7 intention %s wins (%d match); no permission matches", desc, n))
	v.Matches, v.L7 = n, true
	return v
}

var verifC14ReCache = map[string]*regexp.Regexp{}

func verifC14FullMatch(pattern, s string) bool {
	re, ok := verifC14ReCache[pattern]
	if !ok {
		re = regexp.MustCompile(`^(?:` + pattern + `)$`) // generator only emits valid patterns
		verifC14ReCache[pattern] = re
	}
	return re.MatchString(s)
}

func verifC14PermMatches(pm *verifC14Perm, r *verifC14Req, absentInvertMatches bool) bool {
	switch {
	case pm.PathExact != "":
		if r.Path != pm.PathExact {
			return false
		}
	case pm.PathPrefix != "":
		if !strings.HasPrefix(r.Path, pm.PathPrefix) {
			return false
		}
	case pm.PathRegex != "":
		if !verifC14FullMatch(pm.PathRegex, r.Path) {
			return false
		}
	}
	for _, h := range pm.Headers {
		val, present := "", false
		for _, kv := range r.Headers {
			if strings.EqualFold(kv[0], h.Name) {
				val, present = kv[1], true
			}
		}
		var m bool
		if h.Present {
			m = present != h.Invert
		} else if !present {
			m = h.Invert && absentInvertMatches
		} else {
			a, b := val, ""
			fold := func(x string) string {
				if h.IgnoreCase {
					return strings.ToLower(x)
				}
				return x
			}
			switch {
			case h.Exact != "":
				b = h.Exact
				m = fold(a) == fold(b)
			case h.Prefix != "":
				m = strings.HasPrefix(fold(a), fold(h.Prefix))
			case h.Suffix != "":
				m = strings.HasSuffix(fold(a), fold(h.Suffix))
			case h.Contains != "":
				m = strings.Contains(fold(a), fold(h.Contains))
			case h.Regex != "":
				m = verifC14FullMatch(h.Regex, a)
			}
			m = m != h.Invert
		}
		if !m {
			return false
		}
	}
	if len(pm.Methods) > 0 {
		found := false
		for _, mth := range pm.Methods {
			found = found || mth == r.Method
		}
		if !found {
			return false
		}
	}
	return true
}

// ---------------------------------------------------------------------------------------------------------
// translation through the real code

// verifC14Layer is one RBAC filter on the path of a connection: the network filter of a filter chain or the
// HTTP filter inside its connection manager. Envoy enforces every layer (allowed = all layers allow); a path
// without any layer allows everything.
type verifC14Layer struct {
	rules *envoy_rbac_v3.RBAC
	http  bool
}

type verifC14Compiled struct {
	prog   *verifC14Program
	layers []verifC14Layer
	eval   *verifC14Eval
	// listener family: where the policy was found ("" = direct makeRBAC* translation), the key prefix for
	// disagreements that are not the translator's, and whether the layers equal the direct translation.
	where        string
	keyPrefix    string
	sameAsDirect bool
	rootCause    string // listener family: a recognised shape of the delivered policy (e.g. compiled from no intentions)
	// diagnosis only
	evalNames   *verifC14Eval // identity regexes with their literal PATH segments (names) regex-quoted
	evalQuoted  *verifC14Eval // ... and the trust domain too
	evalEscaped *verifC14Eval // ... and the names URL-path-escaped as they are in a certificate
}

func verifC14ToConsulPerm(pm verifC14Perm) *structs.IntentionPermission {
	hp := &structs.IntentionHTTPPermission{PathExact: pm.PathExact, PathPrefix: pm.PathPrefix, PathRegex: pm.PathRegex}
	for _, h := range pm.Headers {
		hp.Header = append(hp.Header, structs.IntentionHTTPHeaderPermission{
			Name: h.Name, Present: h.Present, Exact: h.Exact, Prefix: h.Prefix, Suffix: h.Suffix,
			Contains: h.Contains, Regex: h.Regex, Invert: h.Invert, IgnoreCase: h.IgnoreCase,
		})
	}
	hp.Methods = append([]string(nil), pm.Methods...)
	return &structs.IntentionPermission{Action: structs.IntentionAction(pm.Action), HTTP: hp}
}

// verifC14Intentions builds the intention list exactly as the servers hand it to the proxy: service-intentions
// config entries (one for `api`, one for `*`) normalised, validated and flattened with ToIntentions.
func verifC14Intentions(p *verifC14Program) (structs.SimplifiedIntentions, error) {
	type key struct {
		wild       bool
		name, peer string
	}
	byKey := map[key]*structs.Intention{}
	for _, wild := range []bool{false, true} {
		entry := &structs.ServiceIntentionsConfigEntry{Kind: structs.ServiceIntentions, Name: verifC14Dest}
		if wild {
			entry.Name = structs.WildcardSpecifier
		}
		for _, s := range p.Sources {
			if s.DestWild != wild {
				continue
			}
			src := &structs.SourceIntention{Name: s.Name, Peer: s.Peer, Action: structs.IntentionAction(s.Action)}
			for _, pm := range s.Perms {
				src.Permissions = append(src.Permissions, verifC14ToConsulPerm(pm))
			}
			entry.Sources = append(entry.Sources, src)
		}
		if len(entry.Sources) == 0 {
			continue
		}
		if err := entry.Normalize(); err != nil {
			return nil, fmt.Errorf("normalize: %w", err)
		}
		if err := entry.Validate(); err != nil {
			return nil, fmt.Errorf("validate: %w", err)
		}
		for _, ixn := range entry.ToIntentions() {
			byKey[key{wild, ixn.SourceName, ixn.SourcePeer}] = ixn
		}
	}
	out := make(structs.SimplifiedIntentions, 0, len(p.Sources))
	for _, s := range p.Sources {
		ixn := byKey[key{s.DestWild, s.Name, s.Peer}]
		if ixn == nil {
			return nil, fmt.Errorf("source %+v lost in ToIntentions", s)
		}
		out = append(out, ixn)
	}
	return out, nil
}

func verifC14Bundles(p *verifC14Program) []*pbpeering.PeeringTrustBundle {
	var bundles []*pbpeering.PeeringTrustBundle
	for _, b := range p.Bundles {
		bundles = append(bundles, &pbpeering.PeeringTrustBundle{PeerName: b.Peer, TrustDomain: b.TrustDomain, ExportedPartition: b.ExportedPartition})
	}
	return bundles
}

// verifC14Direct translates the program with makeRBACNetworkFilter / makeRBACHTTPFilter and unpacks the filter.
func verifC14Direct(p *verifC14Program) (*envoy_rbac_v3.RBAC, error) {
	local := rbacLocalInfo{trustDomain: p.TrustDomain, datacenter: verifC14LocalDC, partition: "default"}
	bundles := verifC14Bundles(p)
	ixns, err := verifC14Intentions(p)
	if err != nil {
		return nil, fmt.Errorf("harness: generated program is not a legal intention set: %w", err)
	}
	var rules *envoy_rbac_v3.RBAC
	if p.HTTP {
		f, err := makeRBACHTTPFilter(ixns, p.DefaultAllow, local, bundles, nil)
		if err != nil {
			return nil, fmt.Errorf("makeRBACHTTPFilter: %w", err)
		}
		if rules, err = verifC14UnpackHTTP(f); err != nil {
			return nil, err
		}
	} else {
		f, err := makeRBACNetworkFilter(ixns, p.DefaultAllow, local, bundles)
		if err != nil {
			return nil, fmt.Errorf("makeRBACNetworkFilter: %w", err)
		}
		if rules, err = verifC14UnpackNetwork(f); err != nil {
			return nil, err
		}
	}
	// the filter must carry what makeRBACRules returns for the same input (fresh intention objects)
	ixns2, _ := verifC14Intentions(p)
	direct, err := makeRBACRules(ixns2, p.DefaultAllow, local, p.HTTP, bundles, nil)
	if err != nil {
		return nil, fmt.Errorf("makeRBACRules: %w", err)
	}
	if !proto.Equal(direct, rules) {
		return nil, fmt.Errorf("filter rules differ from makeRBACRules output:\nfilter: %s\nrules:  %s", protojson.Format(rules), protojson.Format(direct))
	}
	return rules, nil
}

func verifC14NewCompiled(p *verifC14Program, layers []verifC14Layer) *verifC14Compiled {
	cp := &verifC14Compiled{prog: p, layers: layers, eval: verifC14NewEval(), evalNames: verifC14NewEval(), evalQuoted: verifC14NewEval(), evalEscaped: verifC14NewEval()}
	cp.evalNames.identityRegex = func(s string) (string, bool) { return verifC14Requote(s, false, false) }
	cp.evalQuoted.identityRegex = func(s string) (string, bool) { return verifC14Requote(s, true, false) }
	cp.evalEscaped.identityRegex = func(s string) (string, bool) { return verifC14Requote(s, true, true) }
	return cp
}

func verifC14Compile(p *verifC14Program) (*verifC14Compiled, error) {
	rules, err := verifC14Direct(p)
	if err != nil {
		return nil, err
	}
	cp := verifC14NewCompiled(p, []verifC14Layer{{rules: rules, http: p.HTTP}})
	cp.sameAsDirect = true
	return cp, nil
}

// allowed: Envoy's verdict over all layers, and a description of what decided.
func (cp *verifC14Compiled) allowed(e *verifC14Eval, conn *verifC14Conn) (bool, string, error) {
	if len(cp.layers) == 0 {
		return true, "no RBAC filter on this path: everything is allowed", nil
	}
	desc := ""
	for _, l := range cp.layers {
		lc := *conn
		lc.HTTP = l.http
		ok, policy, err := e.Allowed(l.rules, &lc)
		if err != nil {
			return false, "", err
		}
		kind := "network filter"
		if l.http {
			kind = "http filter"
		}
		if policy == "" {
			policy = "no policy matches"
		} else {
			policy = "policy " + policy + " matches"
		}
		desc = fmt.Sprintf("%s, action %s: %s", kind, l.rules.Action, policy)
		if !ok {
			return false, desc, nil
		}
	}
	return true, desc, nil
}

func (cp *verifC14Compiled) policyJSON() string {
	if len(cp.layers) == 0 {
		return "(none)"
	}
	var sb strings.Builder
	for _, l := range cp.layers {
		sb.WriteString(protojson.Format(l.rules))
	}
	return sb.String()
}

// verifC14Requote rebuilds an identity regex the way it is MEANT: the `[^/]+` wildcards (and the XFCC frame) stay,
// every literal path segment is matched literally (regexp.QuoteMeta), optionally the trust domain too, optionally
// after URL path escaping. Used only to name the root cause of a disagreement. ok=false: unknown pattern shape.
func verifC14Requote(pattern string, quoteHost, escape bool) (string, bool) {
	const xfccHead, xfccTail = `^[^,]+;URI=`, `(?:,.*)?$`
	head, tail, body := "^", "$", pattern
	switch {
	case strings.HasPrefix(pattern, xfccHead) && strings.HasSuffix(pattern, xfccTail):
		head, tail = xfccHead, xfccTail
		body = pattern[len(xfccHead) : len(pattern)-len(xfccTail)]
	case strings.HasPrefix(pattern, "^") && strings.HasSuffix(pattern, "$"):
		body = pattern[1 : len(pattern)-1]
	default:
		return "", false
	}
	const scheme = "spiffe://"
	if !strings.HasPrefix(body, scheme) {
		return "", false
	}
	body = body[len(scheme):]
	slash := strings.IndexByte(body, '/')
	if slash < 0 {
		return "", false
	}
	host, path := body[:slash], body[slash:]
	unquote := func(lit string) string { // undo an existing regex quoting; names never contain a backslash
		var sb strings.Builder
		for j := 0; j < len(lit); j++ {
			if lit[j] == '\\' && j+1 < len(lit) {
				j++
			}
			sb.WriteByte(lit[j])
		}
		return sb.String()
	}
	if quoteHost {
		host = regexp.QuoteMeta(unquote(host))
	}
	parts := strings.Split(path, `[^/]+`)
	for i, lit := range parts {
		lit = unquote(lit)
		if escape {
			lit = (&url.URL{Path: lit}).EscapedPath()
		}
		parts[i] = regexp.QuoteMeta(lit)
	}
	return head + scheme + host + strings.Join(parts, `[^/]+`) + tail, true
}

// verifC14Identify derives the connection-level facts of a caller: the authenticated principal (URI SAN) and
// the x-forwarded-client-cert header the HTTP filter will see.
func verifC14Identify(p *verifC14Program, c *verifC14Caller) {
	origin := verifC14ServiceURI(c.TrustDomain, c.Partition, c.Namespace, c.Datacenter, c.Service)
	dest := verifC14ServiceURI(p.TrustDomain, "", "default", verifC14LocalDC, verifC14Dest)
	const certStuff = `Hash=0f1e2d3c4b5a69788796a5b4c3d2e1f00f1e2d3c4b5a69788796a5b4c3d2e1f0;Cert="-----BEGIN%20CERTIFICATE-----%0AMIIC%2Bg%3D%3D%0A-----END%20CERTIFICATE-----%0A";Chain="-----BEGIN%20CERTIFICATE-----%0AMIIC%2Bg%3D%3D%0A-----END%20CERTIFICATE-----%0A";Subject=""`
	if c.Via == "gateway" {
		gw := verifC14GatewayURI(c.GwTrustDomain, c.GwPartition, c.GwDatacenter)
		c.principal = gw
		// the gateway SANITIZE_SETs the header with the caller it authenticated; the sidecar APPENDs the gateway
		c.xfcc = "By=" + gw + ";" + certStuff + ";URI=" + origin + ",By=" + dest + ";" + certStuff + ";URI=" + gw
		return
	}
	c.principal = origin
	c.xfcc = "By=" + dest + ";" + certStuff + ";URI=" + origin
	if c.ForgedXFCC != "" {
		c.xfcc = c.ForgedXFCC + "," + c.xfcc
	}
}

func verifC14ConnOf(p *verifC14Program, c *verifC14Caller) *verifC14Conn {
	if c.principal == "" {
		verifC14Identify(p, c)
	}
	conn := &verifC14Conn{HTTP: p.HTTP, Principal: c.principal}
	if p.HTTP && c.Req != nil {
		conn.Method, conn.Path = c.Req.Method, c.Req.Path
		conn.Headers = make(map[string]string, len(c.Req.Headers)+1)
		for _, kv := range c.Req.Headers {
			conn.Headers[strings.ToLower(kv[0])] = kv[1]
		}
		conn.Headers["x-forwarded-client-cert"] = c.xfcc
	}
	return conn
}

type verifC14Stats struct {
	checked, undefined, ambiguous int64
	allowed, denied               int64
	nearMissEvaluated, multiMatch bool
	viaGateway, l7Decided         bool
	tolerated                     int64
}

func verifC14IsNearMiss(class string) bool { return strings.Contains(class, "near-miss") }

// verifC14CheckOne compares the delivered policy with the intention semantics for one caller (and request).
func verifC14CheckOne(f verifkit.F, c *verifkit.Case, rec *verifkit.Rec, cp *verifC14Compiled, caller *verifC14Caller, st *verifC14Stats) {
	p := cp.prog
	v := verifC14Decide(p, caller, false)
	if !v.Defined {
		st.undefined++
		return
	}
	if v2 := verifC14Decide(p, caller, true); v2.Allowed != v.Allowed {
		st.ambiguous++ // `Invert` on an absent header decides: both readings are accepted
		return
	}
	conn := verifC14ConnOf(p, caller)
	got, policy, err := cp.allowed(cp.eval, conn)
	st.checked++
	c.Step()
	if err != nil {
		kind := "error"
		switch err.(type) {
		case *verifC14Unsupported:
			kind = "unsupported-node"
		case *verifC14BadRegex:
			kind = "invalid-regex"
		}
		c.Op(caller)
		c.Violation(f, "C14/policy-not-evaluable/"+kind, "%sthe delivered RBAC policy cannot be evaluated: %v\npolicy: %s", cp.where, err, cp.policyJSON())
		return
	}
	if got {
		st.allowed++
	} else {
		st.denied++
	}
	if verifC14IsNearMiss(caller.Class) {
		st.nearMissEvaluated = true
	}
	if v.Matches >= 2 {
		st.multiMatch = true
	}
	if caller.Via == "gateway" {
		st.viaGateway = true
	}
	if v.L7 {
		st.l7Decided = true
	}
	if got == v.Allowed {
		return
	}
	// ---- disagreement: name the root cause from what the policy does
	listener := "tcp"
	if p.HTTP {
		listener = "http"
	}
	key := fmt.Sprintf("C14/disagree/%s/%s/rbac-%ss", listener, v.Class, verifC14Action(got))
	if cp.keyPrefix != "" && !cp.sameAsDirect {
		// the listener delivers something else than makeRBAC* produces for these intentions: the cause is in
		// listener generation, not in the translator
		key = fmt.Sprintf("C14/%s/disagree/%s/%s/rbac-%ss", cp.keyPrefix, listener, v.Class, verifC14Action(got))
		if cp.rootCause != "" {
			key = fmt.Sprintf("C14/%s/%s", cp.keyPrefix, cp.rootCause)
		}
		if len(cp.layers) == 0 {
			key = fmt.Sprintf("C14/%s/no-rbac-filter", cp.keyPrefix)
		}
	}
	if len(cp.layers) == 0 {
		// nothing to diagnose
	} else if q, _, qerr := cp.allowed(cp.evalNames, conn); qerr == nil && q == v.Allowed {
		// the verdict is right once service names / partitions in the SPIFFE regexes are taken literally
		key = "C14/spiffe-regex-unescaped/service-name"
	} else if q, _, qerr := cp.allowed(cp.evalQuoted, conn); qerr == nil && q == v.Allowed {
		// ... once the trust domain is taken literally as well
		key = "C14/spiffe-regex-unescaped/trust-domain"
	} else if q, _, qerr := cp.allowed(cp.evalEscaped, conn); qerr == nil && q == v.Allowed {
		key = "C14/spiffe-pattern-not-url-escaped"
	} else if alt := verifC14DecideRank(p, caller, false, true); (cp.keyPrefix == "" || cp.sameAsDirect) && alt.Defined && alt.Allowed == got &&
		verifC14DecideRank(p, caller, true, true).Allowed == got {
		// the policy follows "source specificity first", not the documented precedence order
		key = "C14/exact-source-on-wildcard-destination-not-shadowed"
	}
	if rec.IsKnown(key) {
		c.KnownHit(key)
		st.tolerated++
		return
	}
	c.Op(caller)
	xf := ""
	if conn.Headers != nil {
		xf = "\nx-forwarded-client-cert: " + conn.Headers["x-forwarded-client-cert"]
	}
	c.Violation(f, key,
		"%sintention semantics: %s (%s)\nproxy policy:        %s (%s)\nprincipal: %s%s\nrequest: %s\npolicy: %s",
		cp.where, verifC14Action(v.Allowed), v.Why, verifC14Action(got), policy, conn.Principal, xf,
		verifC14JSON(caller.Req), cp.policyJSON())
}

func verifC14JSON(v any) string {
	b, _ := json.Marshal(v)
	return string(b)
}

// ---------------------------------------------------------------------------------------------------------
// caller / request universe derived from a program

const verifC14Meta = `.+|()$?[]^{}*\`

func verifC14HasMeta(s string) bool { return strings.ContainsAny(s, verifC14Meta) }

// verifC14NearMisses: strings that differ from s only where regex syntax could blur the difference.
func verifC14NearMisses(s string) []string {
	var out []string
	seen := map[string]bool{s: true, "": true}
	add := func(x string) {
		if !seen[x] && !strings.Contains(x, "*") {
			seen[x] = true
			out = append(out, x)
		}
	}
	for i := 0; i < len(s); i++ {
		if !strings.ContainsRune(verifC14Meta, rune(s[i])) {
			continue
		}
		add(s[:i] + "x" + s[i+1:]) // a literal where the metacharacter stood: web.v1 -> webxv1
		add(s[:i] + s[i+1:])       // metacharacter dropped: cron$ -> cron, a+b -> ab
		if i > 0 {
			add(s[:i] + string(s[i-1]) + s[i+1:]) // repetition: a+b -> aab
			add(s[:i-1] + s[i+1:])                // optional: a?b -> b
		}
		if s[i] == '|' {
			add(s[:i]) // alternation: a|b -> a, b
			add(s[i+1:])
		}
	}
	if strings.ContainsAny(s, "()[]{}") {
		add(strings.NewReplacer("(", "", ")", "", "[", "", "]", "", "{", "", "}", "").Replace(s))
	}
	if !verifC14HasMeta(s) && len(s) >= 3 {
		mid := len(s) / 2
		add(s[:mid] + "." + s[mid+1:]) // vice versa: a metacharacter where a literal stood
	}
	return out
}

func verifC14Callers(p *verifC14Program) []verifC14Caller {
	type nm struct{ name, class string }
	var names []nm
	seen := map[string]bool{}
	var mentioned []string
	for _, s := range p.Sources {
		if s.Name != "*" && !seen[s.Name] {
			seen[s.Name] = true
			mentioned = append(mentioned, s.Name)
			names = append(names, nm{s.Name, "mentioned"})
		}
	}
	for _, m := range mentioned {
		for _, x := range verifC14NearMisses(m) {
			if !seen[x] {
				seen[x] = true
				names = append(names, nm{x, "near-miss-name"})
			}
		}
	}
	for _, fr := range []string{"fresh-svc", "web"} {
		if !seen[fr] {
			seen[fr] = true
			names = append(names, nm{fr, "fresh"})
			break
		}
	}
	some := func(k int) []nm { // the mentioned names first, then whatever follows
		if len(names) < k {
			k = len(names)
		}
		return names[:k]
	}
	dcs := []string{verifC14LocalDC, "dc2", "d.c3"}
	xfcc := p.expectXFCC()
	var out []verifC14Caller
	n := 0
	mk := func(td, ap, ns string, x nm, class string) verifC14Caller {
		n++
		if class == "" {
			class = x.class
		} else {
			class = class + "+" + x.class
		}
		return verifC14Caller{Kind: "caller", Via: "direct", TrustDomain: td, Partition: ap, Namespace: ns,
			Datacenter: dcs[n%len(dcs)], Service: x.name, Class: class}
	}
	viaGw := func(c verifC14Caller, gwTD, gwAP string) verifC14Caller {
		c.Via, c.GwTrustDomain, c.GwPartition, c.GwDatacenter = "gateway", gwTD, gwAP, dcs[(n+1)%len(dcs)]
		return c
	}
	// local services
	for _, x := range names {
		out = append(out, mk(p.TrustDomain, "", "default", x, ""))
	}
	for _, tdx := range verifC14NearMisses(p.TrustDomain) {
		for _, x := range some(3) {
			out = append(out, mk(tdx, "", "default", x, "near-miss-trust-domain"))
		}
	}
	for _, x := range some(2) {
		out = append(out, mk(p.TrustDomain, "part1", "default", x, "other-partition"))
		out = append(out, mk(p.TrustDomain, "", "other", x, "other-namespace"))
		out = append(out, mk("other.consul", "", "default", x, "other-trust-domain"))
	}
	// peer services
	for _, b := range p.Bundles {
		wrongAP := "part2"
		if verifC14NormAP(b.ExportedPartition) != "default" {
			wrongAP = ""
		}
		var peerCallers []verifC14Caller
		for _, x := range names {
			peerCallers = append(peerCallers, mk(b.TrustDomain, b.ExportedPartition, "default", x, "peer"))
		}
		for _, tdx := range verifC14NearMisses(b.TrustDomain) {
			for _, x := range some(2) {
				peerCallers = append(peerCallers, mk(tdx, b.ExportedPartition, "default", x, "peer+near-miss-trust-domain"))
			}
		}
		for _, x := range some(2) {
			peerCallers = append(peerCallers, mk(b.TrustDomain, wrongAP, "default", x, "peer+other-partition"))
			peerCallers = append(peerCallers, mk(b.TrustDomain, b.ExportedPartition, "other", x, "peer+other-namespace"))
		}
		if !xfcc {
			out = append(out, peerCallers...)
			continue
		}
		for i, c := range peerCallers {
			out = append(out, viaGw(c, p.TrustDomain, ""))
			if i < 3 {
				out = append(out, c) // direct: not asserted, counted as undefined
				for _, gtd := range verifC14NearMisses(p.TrustDomain) {
					g := viaGw(c, gtd, "")
					g.Class += "+near-miss-gateway"
					out = append(out, g)
				}
				g := viaGw(c, p.TrustDomain, "part1")
				g.Class += "+gateway-other-partition"
				out = append(out, g)
				// a local service that sends the XFCC element of the peer service itself
				forged := mk(p.TrustDomain, "", "default", nm{"fresh-svc", "fresh"}, "forged-xfcc")
				forged.ForgedXFCC = "By=" + verifC14GatewayURI(p.TrustDomain, "", verifC14LocalDC) + ";Hash=00;Subject=\"\";URI=" +
					verifC14ServiceURI(c.TrustDomain, c.Partition, c.Namespace, c.Datacenter, c.Service)
				out = append(out, forged)
			}
		}
	}
	return out
}

type verifC14Sample struct {
	Re           string
	Hits, Misses []string
}

var verifC14PathRegexPool = []verifC14Sample{
	{`/v[0-9]+/.*`, []string{"/v1/x", "/v22/"}, []string{"/v/x", "/xv1/x", "/v1"}},
	{`/admin(/.*)?`, []string{"/admin", "/admin/x"}, []string{"/adminx", "/x/admin"}},
	{`/a\.b`, []string{"/a.b"}, []string{"/axb", "/a.b/"}},
	{`/(foo|bar)`, []string{"/foo", "/bar"}, []string{"/foobar", "/fo", "/foo|bar"}},
	{`.*\.php`, []string{"/x.php", "/a/b.php"}, []string{"/xphp", "/x.php/"}},
	{`/a.c`, []string{"/abc", "/a.c"}, []string{"/ac", "/abcd"}},
}

var verifC14HdrRegexPool = []verifC14Sample{
	{`al.*`, []string{"alpha", "al"}, []string{"Alpha", "beta", "xal"}},
	{`[a-z]+-[0-9]+`, []string{"team-1"}, []string{"team-", "Team-1", "team-1x"}},
	{`(alpha|beta)`, []string{"alpha", "beta"}, []string{"alphabeta", "alpha|beta"}},
	{`v1\.2`, []string{"v1.2"}, []string{"v1x2", "v1.20"}},
}

func verifC14Upper(s string) []string {
	if u := strings.ToUpper(s); u != s {
		return []string{u}
	}
	if l := strings.ToLower(s); l != s {
		return []string{l}
	}
	return nil
}

func verifC14PathSamples(pm *verifC14Perm) (hits, misses []string) {
	switch {
	case pm.PathExact != "":
		e := pm.PathExact
		hits = []string{e}
		misses = append(misses, e+"x", e+"/")
		if len(e) > 1 {
			misses = append(misses, e[:len(e)-1])
		}
		misses = append(misses, verifC14Upper(e)...)
		misses = append(misses, verifC14NearMisses(e)...)
	case pm.PathPrefix != "":
		q := pm.PathPrefix
		hits = []string{q, q + "x", strings.TrimSuffix(q, "/") + "/y"}
		if len(q) > 1 {
			misses = append(misses, q[:len(q)-1])
		}
		misses = append(misses, "/zz")
		misses = append(misses, verifC14Upper(q)...)
		misses = append(misses, verifC14NearMisses(q)...)
	case pm.PathRegex != "":
		for _, s := range verifC14PathRegexPool {
			if s.Re == pm.PathRegex {
				return s.Hits, s.Misses
			}
		}
		hits = []string{"/"}
	default:
		hits = []string{"/any"}
	}
	return hits, misses
}

// verifC14HdrSamples: values for which the un-inverted matcher holds / does not hold.
func verifC14HdrSamples(h *verifC14Hdr) (hits, misses []string) {
	ic := func(v string) {
		if h.IgnoreCase {
			hits = append(hits, verifC14Upper(v)...)
		} else {
			misses = append(misses, verifC14Upper(v)...)
		}
	}
	switch {
	case h.Present:
		return []string{"v", ""}, nil
	case h.Exact != "":
		hits = []string{h.Exact}
		misses = append(misses, h.Exact+"x", "x"+h.Exact)
		misses = append(misses, verifC14NearMisses(h.Exact)...)
		ic(h.Exact)
	case h.Prefix != "":
		hits = []string{h.Prefix + "zz", h.Prefix}
		misses = append(misses, "zz"+h.Prefix)
		if len(h.Prefix) > 1 {
			misses = append(misses, h.Prefix[:len(h.Prefix)-1])
		}
		ic(h.Prefix + "zz")
	case h.Suffix != "":
		hits = []string{"zz" + h.Suffix, h.Suffix}
		misses = append(misses, h.Suffix+"zz")
		if len(h.Suffix) > 1 {
			misses = append(misses, h.Suffix[1:])
		}
		ic("zz" + h.Suffix)
	case h.Contains != "":
		hits = []string{"aa" + h.Contains + "bb", h.Contains}
		if len(h.Contains) > 1 {
			misses = append(misses, "aa"+h.Contains[:len(h.Contains)-1]+"bb")
		}
		misses = append(misses, "zz")
		ic("aa" + h.Contains + "bb")
	case h.Regex != "":
		for _, s := range verifC14HdrRegexPool {
			if s.Re == h.Regex {
				return s.Hits, s.Misses
			}
		}
	}
	return hits, misses
}

var verifC14Methods = []string{"GET", "POST", "PUT", "DELETE", "HEAD", "PATCH", "OPTIONS"}

// verifC14Requests derives requests from the permissions of the program: for every permission one request that
// satisfies it and single-component variations (boundary / near-miss values, header absent, other method).
func verifC14Requests(p *verifC14Program) []verifC14Req {
	var out []verifC14Req
	seen := map[string]bool{}
	add := func(r verifC14Req) {
		k := verifC14JSON(r)
		if !seen[k] && len(out) < 90 {
			seen[k] = true
			out = append(out, r)
		}
	}
	setHdr := func(hs [][2]string, name, val string, absent bool) [][2]string {
		var res [][2]string
		for _, kv := range hs {
			if !strings.EqualFold(kv[0], name) {
				res = append(res, kv)
			}
		}
		if !absent {
			res = append(res, [2]string{strings.ToLower(name), val})
		}
		return res
	}
	add(verifC14Req{Method: "GET", Path: "/"})
	for _, s := range p.Sources {
		for pi := range s.Perms {
			pm := &s.Perms[pi]
			ph, pmiss := verifC14PathSamples(pm)
			base := verifC14Req{Method: "GET", Path: ph[0]}
			if len(pm.Methods) > 0 {
				base.Method = pm.Methods[0]
			}
			for hi := range pm.Headers {
				h := &pm.Headers[hi]
				hits, misses := verifC14HdrSamples(h)
				switch {
				case !h.Invert && len(hits) > 0:
					base.Headers = setHdr(base.Headers, h.Name, hits[0], false)
				case h.Invert && !h.Present && len(misses) > 0:
					base.Headers = setHdr(base.Headers, h.Name, misses[0], false)
				default:
					base.Headers = setHdr(base.Headers, h.Name, "", true)
				}
			}
			add(base)
			for _, alt := range append(append([]string{}, ph[1:]...), pmiss...) {
				r := base
				r.Path = alt
				add(r)
			}
			if len(pm.Methods) > 0 {
				for _, m := range verifC14Methods {
					in := false
					for _, x := range pm.Methods {
						in = in || x == m
					}
					if !in {
						r := base
						r.Method = m
						add(r)
						break
					}
				}
				r := base
				r.Method = strings.ToLower(pm.Methods[0])
				add(r)
				if len(pm.Methods) > 1 {
					r.Method = pm.Methods[1]
					add(r)
					r.Method = strings.Join(pm.Methods, "|")
					add(r)
				}
			}
			for hi := range pm.Headers {
				h := &pm.Headers[hi]
				hits, misses := verifC14HdrSamples(h)
				vals := append(append([]string{}, hits...), misses...)
				if len(vals) > 6 {
					vals = vals[:6]
				}
				for _, v := range vals {
					r := base
					r.Headers = setHdr(base.Headers, h.Name, v, false)
					add(r)
				}
				r := base
				r.Headers = setHdr(base.Headers, h.Name, "", true)
				add(r)
			}
		}
	}
	for _, r := range p.ExtraReqs {
		add(r)
	}
	return out
}

// ---------------------------------------------------------------------------------------------------------
// running one program

func verifC14ProgramTraits(p *verifC14Program) (overlap, mixedL7 bool) {
	kind := func(s *verifC14Source) string {
		if len(s.Perms) > 0 {
			return "l7"
		}
		return s.Action
	}
	for i := range p.Sources {
		a := &p.Sources[i]
		if a.Peer != "" && p.bundle(a.Peer) == nil {
			continue
		}
		if p.HTTP && len(a.Perms) >= 2 {
			for _, pm := range a.Perms[1:] {
				if pm.Action != a.Perms[0].Action {
					mixedL7 = true
				}
			}
		}
		if a.Name == "*" {
			continue
		}
		for j := range p.Sources {
			b := &p.Sources[j]
			if b.Name == "*" && b.Peer == a.Peer && kind(a) != kind(b) {
				overlap = true
			}
		}
	}
	return overlap, mixedL7
}

// verifC14Run translates the program and checks every caller (x request). only != nil: just that caller.
func verifC14Run(f verifkit.F, c *verifkit.Case, rec *verifkit.Rec, p *verifC14Program, only *verifC14Caller) {
	cp, err := verifC14Compile(p)
	if err != nil {
		if strings.HasPrefix(err.Error(), "harness:") {
			f.Fatalf("%v", err)
		}
		c.Violation(f, "C14/translation-failed", "%v", err)
		return
	}
	st := &verifC14Stats{}
	verifC14CheckAll(f, c, rec, cp, only, st)
	rec.AddExtraInt("programs", 1)
	verifC14Classify(c, rec, p, st, cp.layers[0].rules)
}

// verifC14CheckAll compares one delivered policy with the oracle for every caller (x request) of the universe
// derived from the program. only != nil: just that caller.
func verifC14CheckAll(f verifkit.F, c *verifkit.Case, rec *verifkit.Rec, cp *verifC14Compiled, only *verifC14Caller, st *verifC14Stats) {
	p := cp.prog
	if only != nil {
		one := *only
		verifC14CheckOne(f, c, rec, cp, &one, st)
		return
	}
	callers := verifC14Callers(p)
	var reqs []verifC14Req
	if p.HTTP {
		reqs = verifC14Requests(p)
	}
	for i := range callers {
		cl := callers[i]
		verifC14Identify(p, &cl)
		if !p.HTTP {
			verifC14CheckOne(f, c, rec, cp, &cl, st)
			continue
		}
		// the request matters only when an L7 intention decides; other callers get three requests
		cl.Req = &reqs[0]
		lim := len(reqs)
		if v := verifC14Decide(p, &cl, false); !v.L7 && lim > 3 {
			lim = 3
		}
		for ri := 0; ri < lim; ri++ {
			cr := cl
			cr.Req = &reqs[ri]
			verifC14CheckOne(f, c, rec, cp, &cr, st)
		}
	}
	c.Labelf("callers=%s", verifC14Bucket(len(callers)))
	if p.HTTP {
		c.Labelf("requests=%s", verifC14Bucket(len(reqs)))
	}
}

// verifC14Classify: evidence counters, labels and the non-triviality rule of a finished case.
func verifC14Classify(c *verifkit.Case, rec *verifkit.Rec, p *verifC14Program, st *verifC14Stats, rules *envoy_rbac_v3.RBAC) {
	rec.AddExtraInt("disagreements_checked", st.checked)
	rec.AddExtraInt("callers_not_asserted_undefined", st.undefined)
	rec.AddExtraInt("callers_not_asserted_invert_absent_header", st.ambiguous)
	rec.AddExtraInt("verdict_allowed", st.allowed)
	rec.AddExtraInt("verdict_denied", st.denied)

	// ---- classification
	overlap, mixedL7 := verifC14ProgramTraits(p)
	if p.HTTP {
		c.Label("listener=http")
	} else {
		c.Label("listener=tcp")
	}
	c.Labelf("default=%s", verifC14Action(p.DefaultAllow))
	c.Labelf("intentions=%d", len(p.Sources))
	peered, l7, missing, wild := false, false, false, false
	for _, s := range p.Sources {
		peered = peered || s.Peer != ""
		l7 = l7 || len(s.Perms) > 0
		missing = missing || (s.Peer != "" && p.bundle(s.Peer) == nil)
		wild = wild || s.DestWild
	}
	if peered {
		c.Label("peered-source")
	}
	if missing {
		c.Label("peered-source-without-bundle")
	}
	if l7 && p.HTTP {
		c.Label("l7-intention")
	}
	if l7 && !p.HTTP {
		c.Label("l7-intention-on-tcp")
	}
	if wild {
		c.Label("wildcard-destination")
	}
	if p.expectXFCC() {
		c.Label("xfcc-listener")
	}
	if overlap {
		c.Label("overlap-exact-under-wildcard-different-actions")
	}
	if mixedL7 {
		c.Label("l7-permissions-of-different-actions")
	}
	if rules == nil {
		c.Label("policy=none")
	} else if len(rules.Policies) == 0 {
		c.Label("policy=empty")
	} else {
		c.Labelf("policy=%s", rules.Action)
	}
	if st.nearMissEvaluated {
		c.Label("caller:near-miss")
	}
	if st.multiMatch {
		c.Label("caller:matches>=2-sources")
	}
	if st.viaGateway {
		c.Label("caller:via-gateway-xfcc")
	}
	if st.l7Decided {
		c.Label("verdict-by-l7-permission")
	}
	if st.allowed > 0 && st.denied > 0 {
		c.Label("verdicts=allow+deny")
	} else {
		c.Label("verdicts=uniform")
	}
	if st.ambiguous > 0 {
		c.Label("not-asserted:invert-on-absent-header")
	}
	if st.undefined > 0 {
		c.Label("not-asserted:undefined-caller")
	}
	if st.tolerated > 0 {
		c.Label("known-finding-tolerated")
	}
	if (overlap || mixedL7) && (st.nearMissEvaluated || st.multiMatch) {
		c.NonTrivial()
	}
}

func verifC14Bucket(n int) string {
	switch {
	case n < 10:
		return "<10"
	case n < 25:
		return "10-24"
	case n < 50:
		return "25-49"
	case n < 100:
		return "50-99"
	}
	return ">=100"
}

// ---------------------------------------------------------------------------------------------------------
// generators

var (
	verifC14NamePool    = []string{"web.v1", "web", "a|b", "webxv1", "a+b", "db", "a", "x(y)", "aab", "xy", "cron$", "cron"}
	verifC14PlainPool   = []string{"web.v1", "web", "webxv1", "a+b", "db", "aab", "cron$", "cron"}
	verifC14HdrNames    = []string{"x-team", "X-Env", "x-ver"}
	verifC14ExactPaths  = []string{"/", "/v1", "/v1/secret", "/admin", "/a.b", "/a+b", "/healthz", "/V1"}
	verifC14PrefixPaths = []string{"/", "/v1", "/v1/", "/admin", "/a.", "/api/v2"}
	verifC14HdrExact    = []string{"alpha", "al.ha", "team-1", "v1.2", "A"}
	verifC14HdrPrefix   = []string{"al", "team-", "v1."}
	verifC14HdrSuffix   = []string{"ha", "-1", ".2"}
	verifC14HdrContains = []string{"ph", "m-", "."}
	verifC14ReqPaths    = []string{"/", "/v1", "/v1/x", "/v1/secret", "/v12/abc", "/admin", "/admin/x", "/adminx", "/a.b", "/axb", "/a+b", "/foo", "/bar", "/healthz", "/x.php", "/abc", "/zz"}
	verifC14ReqVals     = []string{"alpha", "Alpha", "ALPHA", "alphabet", "beta", "al.ha", "alxha", "team-1", "TEAM-1", "v1.2", "v1x2", "", "zzha", "a"}
)

func verifC14GenHdr(t *rapid.T) verifC14Hdr {
	h := verifC14Hdr{Name: rapid.SampledFrom(verifC14HdrNames).Draw(t, "hname")}
	kind := rapid.IntRange(0, 5).Draw(t, "hkind")
	switch kind {
	case 0:
		h.Present = true
	case 1:
		h.Exact = rapid.SampledFrom(verifC14HdrExact).Draw(t, "hexact")
	case 2:
		h.Prefix = rapid.SampledFrom(verifC14HdrPrefix).Draw(t, "hprefix")
	case 3:
		h.Suffix = rapid.SampledFrom(verifC14HdrSuffix).Draw(t, "hsuffix")
	case 4:
		h.Contains = rapid.SampledFrom(verifC14HdrContains).Draw(t, "hcontains")
	case 5:
		h.Regex = rapid.SampledFrom(verifC14HdrRegexPool).Draw(t, "hregex").Re
	}
	h.Invert = rapid.IntRange(0, 9).Draw(t, "hinvert") < 3
	if kind >= 1 && kind <= 4 {
		h.IgnoreCase = rapid.IntRange(0, 9).Draw(t, "hic") < 3
	}
	return h
}

func verifC14GenPerm(t *rapid.T) verifC14Perm {
	pm := verifC14Perm{Action: rapid.SampledFrom([]string{"allow", "deny"}).Draw(t, "paction")}
	switch rapid.IntRange(0, 3).Draw(t, "pathkind") {
	case 1:
		pm.PathExact = rapid.SampledFrom(verifC14ExactPaths).Draw(t, "pexact")
	case 2:
		pm.PathPrefix = rapid.SampledFrom(verifC14PrefixPaths).Draw(t, "pprefix")
	case 3:
		pm.PathRegex = rapid.SampledFrom(verifC14PathRegexPool).Draw(t, "pregex").Re
	}
	nh := []int{0, 0, 0, 1, 1, 1, 2}[rapid.IntRange(0, 6).Draw(t, "nhdr")]
	for i := 0; i < nh; i++ {
		pm.Headers = append(pm.Headers, verifC14GenHdr(t))
	}
	if rapid.IntRange(0, 9).Draw(t, "hasmethods") < 4 {
		k := rapid.IntRange(1, 2).Draw(t, "nmethods")
		start := rapid.IntRange(0, len(verifC14Methods)-1).Draw(t, "method0")
		for i := 0; i < k; i++ {
			pm.Methods = append(pm.Methods, verifC14Methods[(start+i*3)%len(verifC14Methods)])
		}
	}
	if pm.PathExact == "" && pm.PathPrefix == "" && pm.PathRegex == "" && len(pm.Headers) == 0 && len(pm.Methods) == 0 {
		pm.PathPrefix = "/"
	}
	return pm
}

func verifC14GenReq(t *rapid.T) verifC14Req {
	r := verifC14Req{
		Method: rapid.SampledFrom(append([]string{"get", "GETX"}, verifC14Methods...)).Draw(t, "rmethod"),
		Path:   rapid.SampledFrom(verifC14ReqPaths).Draw(t, "rpath"),
	}
	for _, n := range verifC14HdrNames {
		if rapid.Bool().Draw(t, "rhas") {
			r.Headers = append(r.Headers, [2]string{strings.ToLower(n), rapid.SampledFrom(verifC14ReqVals).Draw(t, "rval")})
		}
	}
	return r
}

func verifC14GenProgram(t *rapid.T) *verifC14Program {
	p := &verifC14Program{Kind: "program"}
	p.DefaultAllow = rapid.Bool().Draw(t, "default_allow")
	p.HTTP = rapid.Bool().Draw(t, "http")
	p.TrustDomain = rapid.SampledFrom([]string{"test.consul", "11111111-2222-3333-4444-555555555555.consul"}).Draw(t, "td")
	usePeers := rapid.IntRange(0, 9).Draw(t, "use_peers") < 5
	peerTD := map[string][]string{"peer1": {"peer1.domain", "aaaaaaaa-1111.consul"}, "peer2": {"peer2.domain"}}
	if usePeers {
		for _, peer := range []string{"peer1", "peer2"} {
			// a peer is known (has a bundle) most of the time; "no bundle yet" is the silent-skip case
			if rapid.IntRange(0, 9).Draw(t, "bundle_"+peer) < 7 {
				p.Bundles = append(p.Bundles, verifC14Bundle{
					Peer:              peer,
					TrustDomain:       rapid.SampledFrom(peerTD[peer]).Draw(t, "btd"),
					ExportedPartition: rapid.SampledFrom([]string{"", "default", "part1"}).Draw(t, "bap"),
				})
			}
		}
	}
	pool := verifC14PlainPool
	if rapid.IntRange(0, 9).Draw(t, "exotic_names") < 4 {
		pool = verifC14NamePool // includes names that need URL escaping in a certificate
	}
	n := rapid.SampledFrom([]int{4, 3, 5, 4, 2, 6, 5, 3, 7, 1, 0}).Draw(t, "n") // rapid favours the head of the list
	type key struct {
		wild       bool
		name, peer string
	}
	seen := map[key]bool{}
	for i := 0; i < n; i++ {
		var s verifC14Source
		if rapid.IntRange(0, 9).Draw(t, "src_wild") < 4 {
			s.Name = "*"
		} else {
			s.Name = rapid.SampledFrom(pool).Draw(t, "src")
		}
		if usePeers && rapid.IntRange(0, 9).Draw(t, "src_peered") < 4 {
			s.Peer = rapid.SampledFrom([]string{"peer1", "peer2"}).Draw(t, "src_peer")
		}
		s.DestWild = rapid.IntRange(0, 9).Draw(t, "dest_wild") < 2
		l7chance := 1
		if p.HTTP {
			l7chance = 5
		}
		if !s.DestWild && rapid.IntRange(0, 9).Draw(t, "l7") < l7chance {
			np := rapid.IntRange(1, 3).Draw(t, "nperm")
			for j := 0; j < np; j++ {
				s.Perms = append(s.Perms, verifC14GenPerm(t))
			}
		} else {
			s.Action = rapid.SampledFrom([]string{"allow", "deny"}).Draw(t, "action")
		}
		k := key{s.DestWild, s.Name, s.Peer}
		if seen[k] {
			continue // a config entry cannot name the same source twice
		}
		seen[k] = true
		p.Sources = append(p.Sources, s)
	}
	if len(p.Sources) > 1 {
		perm := rapid.Permutation(p.Sources).Draw(t, "order")
		p.Sources = perm
	}
	if p.HTTP {
		k := rapid.IntRange(0, 4).Draw(t, "nextra")
		for i := 0; i < k; i++ {
			p.ExtraReqs = append(p.ExtraReqs, verifC14GenReq(t))
		}
	}
	return p
}

// ---------------------------------------------------------------------------------------------------------
// tests

func TestVerifC14Programs(t *testing.T) {
	rec := verifkit.For("C14")
	defer rec.Flush()
	rapid.Check(t, func(t *rapid.T) {
		c := rec.NewCase()
		defer c.GuardPanic(t, "C14/panic")
		p := verifC14GenProgram(t)
		c.Op(p)
		verifC14Run(t, c, rec, p, nil)
		c.Done()
	})
}

// TestVerifC14Replay re-executes saved cases without rapid: ops[0] = program, ops[1] (optional) = one caller.
func TestVerifC14Replay(t *testing.T) {
	rec := verifkit.For("C14")
	defer rec.Flush()
	var bases *verifC14Bases // built on first use (listener cases only)
	for _, path := range verifkit.ReplayFiles("C14") {
		path := path
		// one subtest per file: a witness that fires does not hide the others
		t.Run(filepath.Base(path), func(t *testing.T) {
			rp, err := verifkit.LoadReplay(path)
			if err != nil {
				t.Fatalf("%v", err)
			}
			if len(rp.Ops) == 0 {
				return
			}
			var head struct {
				Kind string `json:"kind"`
			}
			_ = json.Unmarshal(rp.Ops[0], &head)
			if head.Kind == "listener-case" {
				if bases == nil {
					bases = verifC14MakeBases(t)
				}
				verifC14ReplayListener(t, rec, bases, rp.Ops, path)
				return
			}
			var p verifC14Program
			if err := json.Unmarshal(rp.Ops[0], &p); err != nil || p.Kind != "program" {
				t.Fatalf("%s: ops[0] is not a program: %v", path, err)
			}
			var only *verifC14Caller
			if len(rp.Ops) > 1 {
				var cl verifC14Caller
				if err := json.Unmarshal(rp.Ops[len(rp.Ops)-1], &cl); err != nil || cl.Kind != "caller" {
					t.Fatalf("%s: last op is not a caller: %v", path, err)
				}
				only = &cl
			}
			c := rec.NewCase()
			c.Op(&p)
			c.Label("replay")
			defer c.GuardPanic(t, "C14/panic")
			verifC14Run(t, c, rec, &p, only)
			c.Done()
		})
	}
}

var _ = sort.Strings
