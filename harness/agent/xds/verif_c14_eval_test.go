package xds

// C14 — independent evaluator of envoy.config.rbac.v3.RBAC.
//
// Written from Envoy's documented semantics (config/rbac/v3/rbac.proto, type/matcher/v3/string.proto,
// config/route/v3/route_components.proto HeaderMatcher), NOT from agent/xds/rbac.go:
//
//   * RBAC.action ALLOW: the request is allowed iff some policy matches. DENY: allowed iff no policy matches.
//   * a policy matches iff SOME permission matches AND SOME principal matches.
//   * principals: any | authenticated(principal_name StringMatcher on the URI SAN of the peer certificate;
//     unset principal_name = any authenticated peer) | header(HeaderMatcher) | and_ids | or_ids | not_id.
//   * permissions: any | url_path(PathMatcher.path StringMatcher on the path without query/fragment) |
//     header(HeaderMatcher) | and_rules | or_rules | not_rule.
//   * StringMatcher: exact | prefix | suffix | contains | safe_regex (RE2, the WHOLE input must match);
//     ignore_case applies to everything but safe_regex.
//   * HeaderMatcher: header names are case-insensitive; `:method` / `:path` are the pseudo headers.
//     If the header is absent (treat_missing_header_as_empty unset) the matcher does NOT match, whatever
//     invert_match says, with the single exception of present_match (absent: present_match=true matches only
//     when inverted; present_match=false matches only when not inverted). Otherwise result = match XOR invert.
//
// Every node kind rbac.go can emit without JWT requirements is supported. Anything else (metadata, CEL
// conditions, source IPs, destination ports, filter state, the deprecated header specifiers, range matches,
// shadow rules, the matcher tree) makes the evaluation fail with verifC14Unsupported so that a new node
// kind can never be judged silently.

import (
	"fmt"
	"regexp"
	"sort"
	"strings"

	envoy_listener_v3 "github.com/envoyproxy/go-control-plane/envoy/config/listener/v3"
	envoy_rbac_v3 "github.com/envoyproxy/go-control-plane/envoy/config/rbac/v3"
	envoy_route_v3 "github.com/envoyproxy/go-control-plane/envoy/config/route/v3"
	envoy_http_rbac_v3 "github.com/envoyproxy/go-control-plane/envoy/extensions/filters/http/rbac/v3"
	envoy_http_v3 "github.com/envoyproxy/go-control-plane/envoy/extensions/filters/network/http_connection_manager/v3"
	envoy_network_rbac_v3 "github.com/envoyproxy/go-control-plane/envoy/extensions/filters/network/rbac/v3"
	envoy_matcher_v3 "github.com/envoyproxy/go-control-plane/envoy/type/matcher/v3"
)

// verifC14Conn is what Envoy knows about one connection / request when the RBAC filter runs.
type verifC14Conn struct {
	HTTP      bool              // evaluated by the HTTP filter (headers exist) or by the network filter
	Principal string            // URI SAN of the validated peer certificate
	Method    string            // :method
	Path      string            // :path
	Headers   map[string]string // lower-cased name -> value (one value per name)
}

type verifC14Unsupported struct{ what string }

func (e *verifC14Unsupported) Error() string { return "unsupported RBAC node: " + e.what }

type verifC14BadRegex struct {
	pattern string
	err     error
}

func (e *verifC14BadRegex) Error() string {
	return fmt.Sprintf("regex %q does not compile: %v", e.pattern, e.err)
}

// verifC14Eval evaluates RBAC protos. identityRegex, when set, rewrites the regexes of IDENTITY matchers
// (authenticated principal names and x-forwarded-client-cert header principals) before use; it is only used
// for root-cause diagnosis of a disagreement, never for the verdict.
type verifC14Eval struct {
	cache         map[string]*regexp.Regexp
	identityRegex func(string) (string, bool)
}

func verifC14NewEval() *verifC14Eval { return &verifC14Eval{cache: map[string]*regexp.Regexp{}} }

func (e *verifC14Eval) fullMatch(pattern, s string) (bool, error) {
	re, ok := e.cache[pattern]
	if !ok {
		var err error
		// RE2::FullMatch: the pattern must match the entire input.
		re, err = regexp.Compile(`^(?:` + pattern + `)$`)
		if err != nil {
			return false, &verifC14BadRegex{pattern: pattern, err: err}
		}
		e.cache[pattern] = re
	}
	return re.MatchString(s), nil
}

// verifC14UnpackNetwork / verifC14UnpackHTTP take the filter exactly as it is delivered to the proxy.
func verifC14UnpackNetwork(f *envoy_listener_v3.Filter) (*envoy_rbac_v3.RBAC, error) {
	if f.GetName() != "envoy.filters.network.rbac" {
		return nil, fmt.Errorf("network filter name %q", f.GetName())
	}
	var cfg envoy_network_rbac_v3.RBAC
	if err := f.GetTypedConfig().UnmarshalTo(&cfg); err != nil {
		return nil, err
	}
	if cfg.ShadowRules != nil || cfg.Matcher != nil || cfg.ShadowMatcher != nil {
		return nil, &verifC14Unsupported{"network filter shadow rules / matcher tree"}
	}
	if cfg.Rules == nil {
		return nil, fmt.Errorf("network RBAC filter without rules (Envoy would enforce nothing)")
	}
	return cfg.Rules, nil
}

func verifC14UnpackHTTP(f *envoy_http_v3.HttpFilter) (*envoy_rbac_v3.RBAC, error) {
	if f.GetName() != "envoy.filters.http.rbac" {
		return nil, fmt.Errorf("http filter name %q", f.GetName())
	}
	var cfg envoy_http_rbac_v3.RBAC
	if err := f.GetTypedConfig().UnmarshalTo(&cfg); err != nil {
		return nil, err
	}
	if cfg.ShadowRules != nil || cfg.Matcher != nil || cfg.ShadowMatcher != nil {
		return nil, &verifC14Unsupported{"http filter shadow rules / matcher tree"}
	}
	if cfg.Rules == nil {
		return nil, fmt.Errorf("http RBAC filter without rules (Envoy would enforce nothing)")
	}
	return cfg.Rules, nil
}

// Allowed returns Envoy's decision and the name of the (first, by name) policy that matched.
func (e *verifC14Eval) Allowed(r *envoy_rbac_v3.RBAC, c *verifC14Conn) (bool, string, error) {
	names := make([]string, 0, len(r.Policies))
	for n := range r.Policies {
		names = append(names, n)
	}
	sort.Strings(names)
	matched := ""
	for _, n := range names {
		ok, err := e.policy(r.Policies[n], c)
		if err != nil {
			return false, "", err
		}
		if ok {
			matched = n
			break
		}
	}
	switch r.Action {
	case envoy_rbac_v3.RBAC_ALLOW:
		return matched != "", matched, nil
	case envoy_rbac_v3.RBAC_DENY:
		return matched == "", matched, nil
	}
	return false, "", &verifC14Unsupported{"RBAC action " + r.Action.String()}
}

func (e *verifC14Eval) policy(p *envoy_rbac_v3.Policy, c *verifC14Conn) (bool, error) {
	if p == nil {
		return false, &verifC14Unsupported{"nil policy"}
	}
	if p.Condition != nil || p.CheckedCondition != nil {
		return false, &verifC14Unsupported{"policy condition (CEL)"}
	}
	permOK := false
	for _, pm := range p.Permissions {
		ok, err := e.permission(pm, c)
		if err != nil {
			return false, err
		}
		permOK = permOK || ok
	}
	prinOK := false
	for _, pr := range p.Principals {
		ok, err := e.principal(pr, c)
		if err != nil {
			return false, err
		}
		prinOK = prinOK || ok
	}
	return permOK && prinOK, nil
}

func (e *verifC14Eval) principal(p *envoy_rbac_v3.Principal, c *verifC14Conn) (bool, error) {
	switch id := p.GetIdentifier().(type) {
	case *envoy_rbac_v3.Principal_Any:
		return id.Any, nil
	case *envoy_rbac_v3.Principal_AndIds:
		res := true // no short circuit: every node is type-checked for every caller
		for _, sub := range id.AndIds.GetIds() {
			ok, err := e.principal(sub, c)
			if err != nil {
				return false, err
			}
			res = res && ok
		}
		return res, nil
	case *envoy_rbac_v3.Principal_OrIds:
		res := false
		for _, sub := range id.OrIds.GetIds() {
			ok, err := e.principal(sub, c)
			if err != nil {
				return false, err
			}
			res = res || ok
		}
		return res, nil
	case *envoy_rbac_v3.Principal_NotId:
		ok, err := e.principal(id.NotId, c)
		return !ok, err
	case *envoy_rbac_v3.Principal_Authenticated_:
		if c.Principal == "" {
			return false, nil
		}
		if id.Authenticated.GetPrincipalName() == nil {
			return true, nil
		}
		return e.stringMatch(id.Authenticated.PrincipalName, c.Principal, true)
	case *envoy_rbac_v3.Principal_Header:
		identity := strings.EqualFold(id.Header.GetName(), "x-forwarded-client-cert")
		return e.header(id.Header, c, identity)
	case nil:
		return false, &verifC14Unsupported{"principal without identifier"}
	default:
		return false, &verifC14Unsupported{fmt.Sprintf("principal %T", id)}
	}
}

func (e *verifC14Eval) permission(p *envoy_rbac_v3.Permission, c *verifC14Conn) (bool, error) {
	switch r := p.GetRule().(type) {
	case *envoy_rbac_v3.Permission_Any:
		return r.Any, nil
	case *envoy_rbac_v3.Permission_AndRules:
		res := true
		for _, sub := range r.AndRules.GetRules() {
			ok, err := e.permission(sub, c)
			if err != nil {
				return false, err
			}
			res = res && ok
		}
		return res, nil
	case *envoy_rbac_v3.Permission_OrRules:
		res := false
		for _, sub := range r.OrRules.GetRules() {
			ok, err := e.permission(sub, c)
			if err != nil {
				return false, err
			}
			res = res || ok
		}
		return res, nil
	case *envoy_rbac_v3.Permission_NotRule:
		ok, err := e.permission(r.NotRule, c)
		return !ok, err
	case *envoy_rbac_v3.Permission_Header:
		return e.header(r.Header, c, false)
	case *envoy_rbac_v3.Permission_UrlPath:
		if !c.HTTP {
			return false, &verifC14Unsupported{"url_path permission in a network filter"}
		}
		pm, ok := r.UrlPath.GetRule().(*envoy_matcher_v3.PathMatcher_Path)
		if !ok || pm.Path == nil {
			return false, &verifC14Unsupported{fmt.Sprintf("path matcher %T", r.UrlPath.GetRule())}
		}
		path := c.Path
		if i := strings.IndexAny(path, "?#"); i >= 0 {
			path = path[:i]
		}
		return e.stringMatch(pm.Path, path, false)
	case nil:
		return false, &verifC14Unsupported{"permission without rule"}
	default:
		return false, &verifC14Unsupported{fmt.Sprintf("permission %T", r)}
	}
}

func (e *verifC14Eval) stringMatch(m *envoy_matcher_v3.StringMatcher, s string, identity bool) (bool, error) {
	fold := func(x string) string {
		if m.IgnoreCase {
			return strings.ToLower(x)
		}
		return x
	}
	switch mp := m.GetMatchPattern().(type) {
	case *envoy_matcher_v3.StringMatcher_Exact:
		return fold(s) == fold(mp.Exact), nil
	case *envoy_matcher_v3.StringMatcher_Prefix:
		return strings.HasPrefix(fold(s), fold(mp.Prefix)), nil
	case *envoy_matcher_v3.StringMatcher_Suffix:
		return strings.HasSuffix(fold(s), fold(mp.Suffix)), nil
	case *envoy_matcher_v3.StringMatcher_Contains:
		return strings.Contains(fold(s), fold(mp.Contains)), nil
	case *envoy_matcher_v3.StringMatcher_SafeRegex:
		if mp.SafeRegex == nil {
			return false, &verifC14Unsupported{"safe_regex without regex"}
		}
		switch mp.SafeRegex.GetEngineType().(type) {
		case nil, *envoy_matcher_v3.RegexMatcher_GoogleRe2:
		default:
			return false, &verifC14Unsupported{fmt.Sprintf("regex engine %T", mp.SafeRegex.GetEngineType())}
		}
		pattern := mp.SafeRegex.Regex
		if identity && e.identityRegex != nil {
			if p2, ok := e.identityRegex(pattern); ok {
				pattern = p2
			}
		}
		return e.fullMatch(pattern, s) // ignore_case has no effect on safe_regex
	case nil:
		return false, &verifC14Unsupported{"string matcher without pattern"}
	default:
		return false, &verifC14Unsupported{fmt.Sprintf("string matcher %T", mp)}
	}
}

func (e *verifC14Eval) header(h *envoy_route_v3.HeaderMatcher, c *verifC14Conn, identity bool) (bool, error) {
	if h == nil {
		return false, &verifC14Unsupported{"nil header matcher"}
	}
	if !c.HTTP {
		return false, &verifC14Unsupported{"header matcher in a network filter"}
	}
	name := strings.ToLower(h.Name)
	var (
		val     string
		present bool
	)
	switch name {
	case ":method":
		val, present = c.Method, true
	case ":path":
		val, present = c.Path, true
	default:
		val, present = c.Headers[name]
	}
	if !present && h.TreatMissingHeaderAsEmpty {
		val, present = "", true
	}
	switch sp := h.GetHeaderMatchSpecifier().(type) {
	case *envoy_route_v3.HeaderMatcher_PresentMatch:
		if !present {
			if h.InvertMatch {
				return sp.PresentMatch, nil
			}
			return !sp.PresentMatch, nil
		}
		return sp.PresentMatch != h.InvertMatch, nil
	case *envoy_route_v3.HeaderMatcher_StringMatch:
		if sp.StringMatch == nil {
			return false, &verifC14Unsupported{"header string_match without matcher"}
		}
		if !present {
			// still compile the regex so that an invalid pattern is noticed
			if _, err := e.stringMatch(sp.StringMatch, "", identity); err != nil {
				return false, err
			}
			return false, nil // absent header: the rule does not match, inverted or not
		}
		ok, err := e.stringMatch(sp.StringMatch, val, identity)
		if err != nil {
			return false, err
		}
		return ok != h.InvertMatch, nil
	case nil:
		// no specifier: Envoy treats it as a presence check
		return present != h.InvertMatch, nil
	default:
		return false, &verifC14Unsupported{fmt.Sprintf("header match specifier %T", sp)}
	}
}
