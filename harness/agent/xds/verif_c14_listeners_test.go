package xds

// C14, second family — the policy DELIVERED with the listeners.
//
// The first family (verif_c14_model_test.go) validates the translation intentions -> RBAC (makeRBAC*). The
// property speaks about the policy the destination's proxy receives, so this family drives LISTENER GENERATION:
// a generated program (the same generator) is placed into a proxycfg.ConfigSnapshot exactly where the proxycfg
// state machine puts the intention match result, the listeners are generated with
// ResourceGenerator.listenersFromSnapshot, and every inbound filter chain that can carry traffic for the
// destination is taken apart:
//
//   * connect-proxy snapshot (sidecar of the destination): every filter chain of the inbound (public) listener;
//     protocol of the local service tcp | http | http2 | grpc;
//   * terminating-gateway snapshot linking four services; the destination `api` gets the program, optionally a
//     service-resolver with 0-3 subsets, and its protocol; the gateway listener selects a filter chain by SNI:
//     the chain of the service itself, one chain per resolver subset, and (tcp + peering) the peered SNI names.
//     The other linked services are checked against the empty program (default policy only).
//
// From a chain the RBAC layers are extracted in filter order: the envoy.filters.network.rbac network filter
// and/or the envoy.filters.http.rbac HTTP filter that precedes the router inside the HTTP connection manager.
// Envoy enforces all of them; a chain without any RBAC filter allows everything; an expected SNI without a chain
// falls into the gateway's reset-everything fallback chain (nothing is allowed). The resulting verdict function
// goes through the SAME evaluator, oracle, callers and requests as the first family.
//
// Exempt by design (read from the code comments): the terminating gateway's fallback chain (no SNI match;
// "Envoy will reset these connections"), outbound listeners, and filter chains without a TLS transport socket
// (permissive-mTLS pass-through, never generated here).
//
// Keys: a disagreement on a chain whose layers EQUAL the direct makeRBAC* translation of the program is the
// translator's and keeps the first family's key; otherwise
// C14/listener/<connect-proxy|terminating-gateway>/<public|service|subset|peered-sni|other-service>[-missing]/
// <disagreement class | no-rbac-filter | policy-compiled-from-empty-intention-set (the chain carries exactly what
// the translator yields for NO intentions)>. The root-cause keys of the known findings are kept as they are
// (they describe what the delivered regexes do, wherever the policy was found).

import (
	"encoding/json"
	"fmt"
	"sort"
	"strings"
	"testing"

	envoy_core_v3 "github.com/envoyproxy/go-control-plane/envoy/config/core/v3"
	envoy_listener_v3 "github.com/envoyproxy/go-control-plane/envoy/config/listener/v3"
	envoy_rbac_v3 "github.com/envoyproxy/go-control-plane/envoy/config/rbac/v3"
	envoy_http_v3 "github.com/envoyproxy/go-control-plane/envoy/extensions/filters/network/http_connection_manager/v3"
	"github.com/hashicorp/go-hclog"
	"google.golang.org/protobuf/proto"
	"pgregory.net/rapid"

	"github.com/hashicorp/consul/agent/connect"
	"github.com/hashicorp/consul/agent/netutil"
	"github.com/hashicorp/consul/agent/proxycfg"
	"github.com/hashicorp/consul/agent/structs"
	"github.com/hashicorp/consul/internal/verifkit"
	"github.com/hashicorp/consul/proto/private/pbpeering"
)

type verifC14ListenerCase struct {
	Kind     string          `json:"kind"`     // "listener-case"
	Snapshot string          `json:"snapshot"` // connect-proxy | terminating-gateway
	Protocol string          `json:"protocol"` // tcp | http | http2 | grpc (program.http says whether it is HTTP-like)
	Resolver bool            `json:"resolver,omitempty"`
	Subsets  []string        `json:"subsets,omitempty"` // terminating gateway: subsets of the destination's resolver
	Program  verifC14Program `json:"program"`
}

// verifC14Bases holds the two base snapshots. They are built once per test function with the OUTER *testing.T
// (the proxycfg helpers want one); every case works on its own Clone(), as the xDS server does.
type verifC14Bases struct {
	cp, tg *proxycfg.ConfigSnapshot
}

func verifC14MakeBases(t *testing.T) *verifC14Bases {
	// listener generation asks the local agent whether it is dual-stack unless told (server configuration)
	netutil.GetAgentBindAddrFunc = netutil.GetMockGetAgentBindAddrFunc("0.0.0.0")
	return &verifC14Bases{
		cp: proxycfg.TestConfigSnapshot(t, nil, nil),
		tg: proxycfg.TestConfigSnapshotTerminatingGateway(t, true, nil, nil),
	}
}

var verifC14GatewayServices = []string{"web", "api", "db", "cache"} // linked by TestConfigSnapshotTerminatingGateway

// verifC14Snapshot places the program into a clone of the base snapshot.
func verifC14Snapshot(b *verifC14Bases, lc *verifC14ListenerCase) (*proxycfg.ConfigSnapshot, error) {
	p := &lc.Program
	ixns, err := verifC14Intentions(p)
	if err != nil {
		return nil, fmt.Errorf("harness: generated program is not a legal intention set: %w", err)
	}
	bundles := verifC14Bundles(p)
	switch lc.Snapshot {
	case "connect-proxy":
		snap := b.cp.Clone()
		snap.IntentionDefaultAllow = p.DefaultAllow
		snap.Roots.TrustDomain = p.TrustDomain
		snap.Datacenter = verifC14LocalDC
		snap.ConnectProxy.Intentions, snap.ConnectProxy.IntentionsSet = ixns, true
		snap.ConnectProxy.InboundPeerTrustBundles, snap.ConnectProxy.InboundPeerTrustBundlesSet = bundles, true
		if snap.Proxy.Config == nil {
			snap.Proxy.Config = map[string]interface{}{}
		}
		snap.Proxy.Config["protocol"] = lc.Protocol
		return snap, nil
	case "terminating-gateway":
		snap := b.tg.Clone()
		snap.IntentionDefaultAllow = p.DefaultAllow
		snap.Roots.TrustDomain = p.TrustDomain
		snap.Datacenter = verifC14LocalDC
		tg := &snap.TerminatingGateway
		for _, name := range verifC14GatewayServices {
			sn := structs.NewServiceName(name, nil)
			if _, ok := tg.ServiceGroups[sn]; !ok {
				return nil, fmt.Errorf("harness: base terminating-gateway snapshot does not link %q", name)
			}
			tg.ServiceConfigs[sn] = &structs.ServiceConfigResponse{ProxyConfig: map[string]interface{}{"protocol": lc.Protocol}}
			tg.Intentions[sn] = structs.SimplifiedIntentions{}
			delete(tg.ServiceResolvers, sn)
			tg.ServiceResolversSet[sn] = true
			delete(tg.InboundPeerTrustBundles, sn)
		}
		dst := structs.NewServiceName(verifC14Dest, nil)
		tg.Intentions[dst] = ixns
		if len(bundles) > 0 {
			if tg.InboundPeerTrustBundles == nil {
				tg.InboundPeerTrustBundles = map[structs.ServiceName][]*pbpeering.PeeringTrustBundle{}
			}
			tg.InboundPeerTrustBundles[dst] = bundles
		}
		if lc.Resolver {
			r := &structs.ServiceResolverConfigEntry{Kind: structs.ServiceResolver, Name: verifC14Dest}
			if len(lc.Subsets) > 0 {
				r.Subsets = map[string]structs.ServiceResolverSubset{}
				for _, s := range lc.Subsets {
					r.Subsets[s] = structs.ServiceResolverSubset{Filter: "Service.Meta.version == " + s}
				}
			}
			tg.ServiceResolvers[dst] = r
		}
		return snap, nil
	}
	return nil, fmt.Errorf("harness: unknown snapshot kind %q", lc.Snapshot)
}

// verifC14ChainLayers extracts the RBAC layers of a filter chain in the order Envoy runs them.
func verifC14ChainLayers(chain *envoy_listener_v3.FilterChain) ([]verifC14Layer, error) {
	var layers []verifC14Layer
	for _, f := range chain.Filters {
		switch f.GetName() {
		case "envoy.filters.network.rbac":
			rules, err := verifC14UnpackNetwork(f)
			if err != nil {
				return nil, err
			}
			layers = append(layers, verifC14Layer{rules: rules, http: false})
		case "envoy.filters.network.http_connection_manager", "envoy.http_connection_manager":
			var hcm envoy_http_v3.HttpConnectionManager
			if err := f.GetTypedConfig().UnmarshalTo(&hcm); err != nil {
				return nil, err
			}
			for _, hf := range hcm.HttpFilters {
				if hf.GetName() == "envoy.filters.http.router" {
					break // nothing behind the router ever runs
				}
				if hf.GetName() != "envoy.filters.http.rbac" || hf.GetDisabled() {
					continue
				}
				rules, err := verifC14UnpackHTTP(hf)
				if err != nil {
					return nil, err
				}
				layers = append(layers, verifC14Layer{rules: rules, http: true})
			}
			return layers, nil // the connection manager is terminal
		case "envoy.filters.network.tcp_proxy":
			return layers, nil // terminal
		}
	}
	return layers, nil
}

type verifC14Chain struct {
	kind   string // public | service | subset | peered-sni | other-service  (+ "-missing")
	where  string
	prog   *verifC14Program
	layers []verifC14Layer
}

// verifC14Chains generates the listeners and returns every chain that can carry traffic for a linked destination.
func verifC14Chains(snap *proxycfg.ConfigSnapshot, lc *verifC14ListenerCase) ([]verifC14Chain, error) {
	g := NewResourceGenerator(hclog.NewNullLogger(), nil, false)
	res, err := g.listenersFromSnapshot(snap)
	if err != nil {
		return nil, fmt.Errorf("listenersFromSnapshot: %w", err)
	}
	p := &lc.Program
	var out []verifC14Chain
	inbound := 0
	// the other services linked to the gateway have no intentions: the empty program of the same mode
	empty := &verifC14Program{Kind: "program", DefaultAllow: p.DefaultAllow, HTTP: p.HTTP, TrustDomain: p.TrustDomain}
	for _, m := range res {
		l, ok := m.(*envoy_listener_v3.Listener)
		if !ok {
			return nil, fmt.Errorf("listenersFromSnapshot returned a %T", m)
		}
		if l.TrafficDirection != envoy_core_v3.TrafficDirection_INBOUND {
			continue
		}
		inbound++
		switch lc.Snapshot {
		case "connect-proxy":
			for i, chain := range l.FilterChains {
				if chain.TransportSocket == nil {
					continue // not a mesh (mTLS) chain
				}
				layers, err := verifC14ChainLayers(chain)
				if err != nil {
					return nil, err
				}
				out = append(out, verifC14Chain{kind: "public", prog: p, layers: layers,
					where: fmt.Sprintf("listener %s filter chain #%d (protocol %s)\n", l.Name, i, lc.Protocol)})
			}
		case "terminating-gateway":
			bySNI := map[string]*envoy_listener_v3.FilterChain{}
			for _, chain := range l.FilterChains {
				for _, sni := range chain.GetFilterChainMatch().GetServerNames() {
					bySNI[sni] = chain
				}
			}
			type want struct {
				sni, kind string
				prog      *verifC14Program
			}
			var wants []want
			for _, name := range verifC14GatewayServices {
				sni := connect.ServiceSNI(name, "", "default", "default", snap.Datacenter, p.TrustDomain)
				if name != verifC14Dest {
					wants = append(wants, want{sni, "other-service", empty})
					continue
				}
				wants = append(wants, want{sni, "service", p})
				if lc.Resolver {
					for _, s := range lc.Subsets {
						wants = append(wants, want{connect.ServiceSNI(name, s, "default", "default", snap.Datacenter, p.TrustDomain), "subset", p})
					}
				}
				if !p.HTTP {
					// TLS of peered TCP callers is passed through the mesh gateway: the chain also answers to the peered SNI
					for _, b := range p.Bundles {
						wants = append(wants, want{connect.PeeredServiceSNI(name, "default", "default", b.Peer, p.TrustDomain), "peered-sni", p})
					}
				}
			}
			for _, w := range wants {
				chain, ok := bySNI[w.sni]
				if !ok {
					// the connection ends in the fallback chain, which resets it: nothing is allowed
					out = append(out, verifC14Chain{kind: w.kind + "-missing", prog: w.prog,
						layers: []verifC14Layer{{rules: &envoy_rbac_v3.RBAC{Action: envoy_rbac_v3.RBAC_ALLOW}}},
						where:  fmt.Sprintf("listener %s has NO filter chain for SNI %s (protocol %s): the fallback chain resets the connection\n", l.Name, w.sni, lc.Protocol)})
					continue
				}
				layers, err := verifC14ChainLayers(chain)
				if err != nil {
					return nil, err
				}
				out = append(out, verifC14Chain{kind: w.kind, prog: w.prog, layers: layers,
					where: fmt.Sprintf("listener %s filter chain for SNI %s (protocol %s)\n", l.Name, w.sni, lc.Protocol)})
			}
		}
	}
	if inbound == 0 {
		return nil, fmt.Errorf("no inbound listener was generated")
	}
	return out, nil
}

func verifC14LayersEqual(a []verifC14Layer, direct *envoy_rbac_v3.RBAC, http bool) bool {
	return len(a) == 1 && a[0].http == http && proto.Equal(a[0].rules, direct)
}

// verifC14RunListeners: one listener case through snapshot -> listeners -> chains -> evaluator vs oracle.
func verifC14RunListeners(f verifkit.F, c *verifkit.Case, rec *verifkit.Rec, b *verifC14Bases, lc *verifC14ListenerCase, only *verifC14Caller) {
	p := &lc.Program
	snap, err := verifC14Snapshot(b, lc)
	if err != nil {
		f.Fatalf("%v", err)
	}
	chains, err := verifC14Chains(snap, lc)
	if err != nil {
		c.Violation(f, "C14/listener/"+lc.Snapshot+"/generation-failed", "%v", err)
		return
	}
	direct, err := verifC14Direct(p)
	if err != nil {
		if strings.HasPrefix(err.Error(), "harness:") {
			f.Fatalf("%v", err)
		}
		c.Violation(f, "C14/translation-failed", "%v", err)
		return
	}
	// what the translator yields for NO intentions in this mode (the policy of the other linked services, and a
	// recognisable root cause when it shows up on a chain of the destination)
	emptyDirect, err := verifC14Direct(&verifC14Program{Kind: "program", DefaultAllow: p.DefaultAllow, HTTP: p.HTTP, TrustDomain: p.TrustDomain})
	if err != nil {
		f.Fatalf("harness: empty program: %v", err)
	}
	st := &verifC14Stats{}
	kinds := map[string]int{}
	var firstRules *envoy_rbac_v3.RBAC
	for i := range chains {
		ch := &chains[i]
		kinds[ch.kind]++
		cp := verifC14NewCompiled(ch.prog, ch.layers)
		cp.where = ch.where
		cp.keyPrefix = "listener/" + lc.Snapshot + "/" + ch.kind
		d := direct
		if ch.prog != p {
			d = emptyDirect
		}
		cp.sameAsDirect = verifC14LayersEqual(ch.layers, d, ch.prog.HTTP)
		if !cp.sameAsDirect {
			c.Label("chain-differs-from-direct-translation")
			if ch.prog == p && verifC14LayersEqual(ch.layers, emptyDirect, p.HTTP) {
				cp.rootCause = "policy-compiled-from-empty-intention-set"
			}
		}
		chst := st
		if ch.prog != p {
			chst = &verifC14Stats{} // keep the program's statistics about the program
		}
		verifC14CheckAll(f, c, rec, cp, only, chst)
		if ch.prog != p {
			st.checked += chst.checked
			st.tolerated += chst.tolerated
		} else if firstRules == nil && len(ch.layers) > 0 {
			firstRules = ch.layers[0].rules
		}
	}
	rec.AddExtraInt("listener_cases", 1)
	rec.AddExtraInt("filter_chains_checked", int64(len(chains)))
	c.Labelf("family=listeners")
	c.Labelf("snapshot=%s", lc.Snapshot)
	c.Labelf("protocol=%s", lc.Protocol)
	if lc.Snapshot == "terminating-gateway" {
		switch {
		case !lc.Resolver:
			c.Label("resolver=none")
		case len(lc.Subsets) == 0:
			c.Label("resolver=without-subsets")
		default:
			c.Labelf("resolver=subsets:%d", len(lc.Subsets))
		}
	}
	ks := make([]string, 0, len(kinds))
	for k := range kinds {
		ks = append(ks, k)
	}
	sort.Strings(ks)
	for _, k := range ks {
		c.Labelf("chain=%s", k)
	}
	verifC14Classify(c, rec, p, st, firstRules)
}

func verifC14GenListenerCase(t *rapid.T) *verifC14ListenerCase {
	lc := &verifC14ListenerCase{Kind: "listener-case"}
	// rapid favours the head of the list: the gateway with subsets is the richer shape
	lc.Snapshot = rapid.SampledFrom([]string{"terminating-gateway", "connect-proxy", "terminating-gateway"}).Draw(t, "snapshot")
	if lc.Snapshot == "terminating-gateway" {
		switch rapid.IntRange(0, 5).Draw(t, "resolver") {
		case 0, 1, 2, 3:
			lc.Resolver = true
			k := rapid.IntRange(1, 3).Draw(t, "nsubsets")
			lc.Subsets = append([]string(nil), []string{"v1", "v2", "canary"}[:k]...)
		case 4:
			lc.Resolver = true
		}
	}
	lc.Program = *verifC14GenProgram(t)
	if lc.Program.HTTP {
		lc.Protocol = rapid.SampledFrom([]string{"http", "http2", "grpc"}).Draw(t, "protocol")
	} else {
		lc.Protocol = "tcp"
	}
	return lc
}

func TestVerifC14Listeners(t *testing.T) {
	rec := verifkit.For("C14")
	defer rec.Flush()
	bases := verifC14MakeBases(t)
	// listener generation costs far more than the translation alone: this family runs a share of the cases
	// (the decision is a drawn value, so that it is part of the case and stable under shrinking)
	share := verifkit.EnvInt("VERIF_C14_LISTENER_SHARE", 5)
	rapid.Check(t, func(t *rapid.T) {
		if share > 1 && rapid.IntRange(0, share-1).Draw(t, "run") != 0 {
			return // not executed, not counted
		}
		lc := verifC14GenListenerCase(t)
		c := rec.NewCase()
		defer c.GuardPanic(t, "C14/panic")
		c.Op(lc)
		verifC14RunListeners(t, c, rec, bases, lc, nil)
		c.Done()
	})
}

// verifC14ReplayListener is used by TestVerifC14Replay for files whose first op is a listener case.
func verifC14ReplayListener(t *testing.T, rec *verifkit.Rec, bases *verifC14Bases, ops []json.RawMessage, path string) {
	var lc verifC14ListenerCase
	if err := json.Unmarshal(ops[0], &lc); err != nil || lc.Kind != "listener-case" {
		t.Fatalf("%s: ops[0] is not a listener case: %v", path, err)
	}
	var only *verifC14Caller
	if len(ops) > 1 {
		var cl verifC14Caller
		if err := json.Unmarshal(ops[len(ops)-1], &cl); err != nil || cl.Kind != "caller" {
			t.Fatalf("%s: last op is not a caller: %v", path, err)
		}
		only = &cl
	}
	c := rec.NewCase()
	c.Op(&lc)
	c.Label("replay")
	defer c.GuardPanic(t, "C14/panic")
	verifC14RunListeners(t, c, rec, bases, &lc, only)
	c.Done()
}
